#!/usr/bin/env python3
"""params_extract.py — translator for property C14 (DESIGN.md §2.4).

Regenerates, from the amgcl source tree ($AMGCL_REPO, default /repo),

  lean/Amgcl/Generated/ParamsTableData.lean   def paramTables : List ParamTable, def enumTables : List EnumTable,
                                              def excludedTables  (data only; imported by the model driver)
  lean/Amgcl/Generated/ParamsTable.lean       theorem all_tables_consistent, theorem enum_tables_roundtrip
                                              (both `by decide`, re-checked by the Lean kernel on every run)

For every `struct …params` in amgcl/**/*.hpp it extracts: data members (name, kind value/enum/pointer/child),
the AMGCL_PARAMS_IMPORT_VALUE/CHILD names, hand-read keys (`p.get("k", …)`, `p.count("k")`), the check_params name
sets (allowed list and optional second list), the AMGCL_PARAMS_EXPORT_VALUE/CHILD names and the base class; for every
run-time `enum type` the operator<< / operator>> string tables and the `switch` cases of the wrappers.

The parser is deliberately strict: anything inside a params constructor / `get` / enum operator / wrapper switch that
it does not recognise is an error (exit status 2, nothing is silently skipped).  If the tables parse but violate the
consistency predicate (mirrored here from Amgcl/Model/PTree.lean only to *name* the offender — the authority is the
Lean `decide`), the files are still written, every offending (struct, field, list) is printed, exit status 3.

Python 3 standard library only.
"""
import os, re, sys, glob, json

REPO = os.environ.get("AMGCL_REPO", "/repo")
VERIF = os.path.dirname(os.path.dirname(os.path.abspath(__file__)))
OUT_DIR = os.path.join(VERIF, "lean", "Amgcl", "Generated")

# params structs that are parsed textually but kept OUT of the consistency obligation, with the reason
EXCLUDED = {
    "backend::vexcl_params": "VexCL (GPU) backend, cannot be compiled offline; import/export are hand-written "
                             "(no AMGCL_PARAMS_* macros), the member `q` travels as a raw pointer",
    "backend::mkl": "Intel MKL backend, third-party library not available offline; its params struct ignores the "
                    "property tree altogether (no members, no import, no check_params)",
}
# components whose tables ARE checked by the kernel but which the harness cannot instantiate offline (informational)
NOT_COMPILED = ["backend::cuda", "relaxation::ilu0<cuda>", "backend::HPX", "mpi::direct::pastix",
                "mpi::partition::ptscotch", "mpi::partition::parmetis"]

ARITH_TYPES = {"int", "unsigned", "bool", "float", "double", "size_t", "ptrdiff_t", "scalar_type", "long",
               "unsigned int", "std::size_t", "std::ptrdiff_t"}
POINTERISH = (r"^std::vector<", r"^std::function<", r"^cusparseHandle_t$")


class ParseError(Exception):
    pass


def fail(path, pos_text, msg):
    raise ParseError("%s: %s\n    near: %s" % (path, msg, " ".join(pos_text.split())[:200]))


# ------------------------------------------------------------------------------------------------ lexical layer
def strip_comments(src):
    """remove // and /* */ comments, keep string/char literals and the line structure"""
    out, i, n = [], 0, len(src)
    while i < n:
        c = src[i]
        if c == '"' or c == "'":
            j = i + 1
            while j < n and src[j] != c:
                j += 2 if src[j] == "\\" else 1
            out.append(src[i:j + 1]); i = j + 1
        elif src.startswith("//", i):
            while i < n and src[i] != "\n": i += 1
        elif src.startswith("/*", i):
            j = src.find("*/", i + 2)
            if j < 0: j = n
            out.append("\n" * src.count("\n", i, j)); i = j + 2
        else:
            out.append(c); i += 1
    return "".join(out)


def eval_cond(expr, defined):
    """evaluate a preprocessor condition; `defined` is a predicate on macro names"""
    e = re.sub(r"defined\s*\(\s*(\w+)\s*\)|defined\s+(\w+)",
               lambda m: " True " if defined(m.group(1) or m.group(2)) else " False ", expr)
    e = e.replace("&&", " and ").replace("||", " or ")
    e = re.sub(r"!(?!=)", " not ", e)
    e = re.sub(r"\b(?!True\b|False\b|and\b|or\b|not\b)[A-Za-z_]\w*\b", "0", e)   # unknown macros evaluate to 0
    if not re.fullmatch(r"[\s\w()<>=!+\-*]*", e):
        raise ParseError("cannot evaluate preprocessor condition: " + expr)
    return bool(eval(e, {"__builtins__": {}}, {}))


def preprocess(src, path, defined):
    """resolve #if/#ifdef/#ifndef/#else/#elif/#endif; dropped lines become empty lines (line numbers are kept).
    #define / #undef / #include / #pragma lines are kept verbatim (local case-macros are needed later)."""
    lines = src.split("\n")
    out, stack = [], []      # stack of [active_before, taken_any, currently_active]
    i = 0
    while i < len(lines):
        ln = lines[i]
        m = re.match(r"\s*#\s*(\w+)\s*(.*)", ln)
        active = all(s[2] for s in stack)
        if m and m.group(1) in ("if", "ifdef", "ifndef", "elif", "else", "endif"):
            d, rest = m.group(1), m.group(2).strip()
            if d == "ifdef": v = defined(rest.split()[0]); stack.append([active, v, v])
            elif d == "ifndef": v = not defined(rest.split()[0]); stack.append([active, v, v])
            elif d == "if": v = eval_cond(rest, defined); stack.append([active, v, v])
            elif d == "elif":
                if not stack: raise ParseError(path + ": #elif without #if")
                s = stack[-1]; v = (not s[1]) and eval_cond(rest, defined); s[2] = v; s[1] = s[1] or v
            elif d == "else":
                if not stack: raise ParseError(path + ": #else without #if")
                s = stack[-1]; s[2] = not s[1]; s[1] = True
            else:
                if not stack: raise ParseError(path + ": #endif without #if")
                stack.pop()
            out.append("")
        else:
            out.append(ln if active else "")
        i += 1
    if stack: raise ParseError(path + ": unterminated #if")
    return "\n".join(out)


def match_brace(s, i, open_c="{", close_c="}"):
    """s[i] == open_c; index of the matching close, skipping string / char literals"""
    assert s[i] == open_c
    d, n = 0, len(s)
    while i < n:
        c = s[i]
        if c == '"' or (c == "'" and i + 2 < n and (s[i + 2] == "'" or (s[i + 1] == "\\" and s[i + 3] == "'"))):
            j = i + 1
            while j < n and s[j] != c:
                j += 2 if s[j] == "\\" else 1
            i = j + 1; continue
        if c == open_c: d += 1
        elif c == close_c:
            d -= 1
            if d == 0: return i
        i += 1
    raise ParseError("unbalanced %s" % open_c)


def split_top(s, sep=","):
    """split at separators that are outside (), {}, [], <> and string literals"""
    parts, d, cur, i, n = [], 0, [], 0, len(s)
    while i < n:
        c = s[i]
        if c == '"':
            j = i + 1
            while j < n and s[j] != '"': j += 2 if s[j] == "\\" else 1
            cur.append(s[i:j + 1]); i = j + 1; continue
        if c in "({[<": d += 1
        elif c in ")}]>": d -= 1
        if c == sep and d == 0:
            parts.append("".join(cur)); cur = []
        else:
            cur.append(c)
        i += 1
    parts.append("".join(cur))
    return [p.strip() for p in parts if p.strip()]


def line_of(src, pos):
    return src.count("\n", 0, pos) + 1


# ------------------------------------------------------------------------------------------------ scope scanner
HEAD_NS = re.compile(r"\bnamespace\s+(\w+)\s*$")
HEAD_CLS = re.compile(r"(?<![\w])(?:struct|class)\s+(\w+)\s*(<[^{};]*>)?\s*(?:final\s*)?(?::\s*([^{};()]*))?$", re.S)


def spec_suffix(args):
    """`< backend::builtin<value_type, col_type, ptr_type> >` -> `<builtin>`"""
    a = re.sub(r"\s+", "", args)[1:-1]
    m = re.match(r"(?:\w+::)*(\w+)(<.*>)?$", a)
    return "<%s>" % (m.group(1) if m else a)


def scan_scopes(src, path):
    """yield (qualified_name, struct_name, bases_text, body, body_pos, enclosing_class_body) for every struct whose
    name ends in `params`"""
    found = []
    stack = []          # (kind, name, open_pos)
    i, n, last = 0, len(src), 0
    while i < n:
        c = src[i]
        if c == '"' or c == "'":
            # string / char literal
            if c == "'" and not (i + 2 < n and (src[i + 2] == "'" or (src[i + 1] == "\\" and i + 3 < n and src[i + 3] == "'"))):
                i += 1; continue       # digit separator or apostrophe — not a literal
            j = i + 1
            while j < n and src[j] != c: j += 2 if src[j] == "\\" else 1
            i = j + 1; continue
        if c == "#":
            # preprocessor line (with continuations) is not part of any head
            j = i
            while True:
                e = src.find("\n", j)
                if e < 0: e = n
                if e > 0 and src[e - 1] == "\\": j = e + 1; continue
                break
            i = e + 1; last = i; continue
        if c == ";":
            last = i + 1
        elif c == "}":
            if stack: stack.pop()
            last = i + 1
        elif c == "{":
            head = src[last:i]
            m = HEAD_NS.search(head)
            mc = HEAD_CLS.search(head) if not m else None
            if m:
                stack.append(("ns", m.group(1), i))
            elif mc and not re.search(r"\benum\s+(?:struct|class)\s+\w+\s*$", head):
                name = mc.group(1) + (spec_suffix(mc.group(2)) if mc.group(2) else "")
                if mc.group(1).endswith("params"):
                    end = match_brace(src, i)
                    quals = [nm for k, nm, _ in stack if not (k == "ns" and nm == "amgcl")]
                    if mc.group(1) != "params": quals = quals + [mc.group(1)]
                    encl = None
                    for k, nm, pos in reversed(stack):
                        if k == "cls": encl = src[pos:match_brace(src, pos) + 1]; break
                    found.append({"qname": "::".join(quals), "sname": mc.group(1), "bases": (mc.group(3) or "").strip(),
                                  "body": src[i + 1:end], "pos": i + 1, "line": line_of(src, last + mc.start()),
                                  "encl": encl, "path": path})
                    i = end + 1; last = i; continue
                stack.append(("cls", name, i))
            else:
                stack.append(("blk", "", i))
            last = i + 1
        i += 1
    return found


# ------------------------------------------------------------------------------------------------ struct params
def statements(body):
    """split a class body into top-level items: ('decl', text) for `…;` and ('func', head, body) for `… { … }`"""
    items, i, n, start = [], 0, len(body), 0
    while i < n:
        c = body[i]
        if c == '"':
            j = i + 1
            while j < n and body[j] != '"': j += 2 if body[j] == "\\" else 1
            i = j + 1; continue
        if c == "#":
            e = body.find("\n", i); e = n if e < 0 else e
            if body[start:i].strip(): raise ParseError("preprocessor line inside a statement: " + body[start:e])
            i = e + 1; start = i; continue
        if c == ";":
            t = body[start:i].strip()
            if t: items.append(("decl", t))
            start = i + 1
        elif c == "{":
            e = match_brace(body, i)
            items.append(("func", body[start:i].strip(), body[i + 1:e]))
            i = e + 1
            # `} prm;`-style trailing declarators do not occur inside params bodies
            start = i; continue
        elif c in ("p",) and re.match(r"(public|private|protected)\s*:", body[i:]) and not body[start:i].strip():
            m = re.match(r"(public|private|protected)\s*:", body[i:]); i += m.end(); start = i; continue
        i += 1
    if body[start:].strip(): raise ParseError("trailing text in struct body: " + body[start:].strip()[:80])
    return items


def classify(ctype, is_ptr, enum_suffixes, path, text):
    t = re.sub(r"^typename\s+", "", ctype).strip()
    if is_ptr: return "pointer"
    for pat in POINTERISH:
        if re.search(pat, t): return "pointer"
    for suf in enum_suffixes:
        if t == suf or t.endswith("::" + suf): return "enum"
    if re.search(r"params$", t): return "child"
    if t in ARITH_TYPES: return "value"
    fail(path, text, "cannot classify the type `%s` of a params member (add it to ARITH_TYPES/POINTERISH?)" % ctype)


def parse_strlist(s, path):
    s = s.strip()
    if not (s.startswith("{") and s.endswith("}")): fail(path, s, "check_params argument is not a braced list")
    items = split_top(s[1:-1])
    out = []
    for it in items:
        m = re.fullmatch(r'"(\w+)"', it)
        if not m: fail(path, s, "check_params list element is not a plain string literal: " + it)
        out.append(m.group(1))
    return out


def parse_struct(st, enum_suffixes):
    path, body = st["path"], st["body"]
    T = {"name": st["qname"], "file": os.path.relpath(path, REPO), "line": st["line"], "base_text": None,
         "own_fields": [], "own_imports": [], "base_imported": False, "own_manual": [], "own_check": None,
         "own_exports": [], "base_exported": False, "manual_exports": [], "has_ptree_ctor": False, "has_get": False,
         "aliases": {}, "ptree_ignored": False, "get_params": []}
    if st["bases"]:
        b = re.sub(r"^(public|private|protected)\s+", "", st["bases"]).strip()
        if "," in b: fail(path, st["bases"], "multiple base classes of a params struct")
        T["base_text"] = b
    sname = st["sname"]
    for it in statements(body):
        if it[0] == "decl":
            t = it[1]
            m = re.match(r"typedef\s+(.*?)\s+(\w+)$", t, re.S)
            if m: T["aliases"][m.group(2)] = re.sub(r"^typename\s+", "", m.group(1)).strip(); continue
            m = re.match(r"using\s+(\w+)\s*=\s*(.*)$", t, re.S)
            if m: T["aliases"][m.group(1)] = re.sub(r"^typename\s+", "", m.group(2)).strip(); continue
            if re.match(r"(friend|static|template|enum|struct|class)\b", t):
                fail(path, t, "unexpected declaration inside a params struct")
            # function declaration without body?
            depth, has_paren = 0, False
            for ch in t:
                if ch == "<": depth += 1
                elif ch == ">": depth -= 1
                elif ch == "(" and depth == 0: has_paren = True
            if has_paren: fail(path, t, "function declaration without body inside a params struct")
            if len(split_top(t)) != 1: fail(path, t, "several declarators in one member declaration")
            m = re.match(r"(.*?)([\s\*&]+)(\w+)$", t, re.S)
            if not m: fail(path, t, "cannot parse member declaration")
            ctype, mid, name = " ".join(m.group(1).split()), m.group(2), m.group(3)
            ctype_res = T["aliases"].get(ctype, ctype)
            kind = classify(ctype_res, "*" in mid, enum_suffixes, path, t)
            T["own_fields"].append({"name": name, "kind": kind, "ctype": ctype + ("*" if "*" in mid else "")})
        else:
            head, fbody = it[1], it[2]
            hm = re.match(r"(?:explicit\s+)?%s\s*\(" % re.escape(sname), head)
            if hm:
                close = match_brace(head, hm.end() - 1, "(", ")")
                args, rest = head[hm.end():close], head[close + 1:].strip()
                pm = re.fullmatch(r"\s*const\s+boost::property_tree::ptree\s*&\s*(\w*)\s*", args)
                if not pm: continue                      # default / convenience constructor
                T["has_ptree_ctor"] = True
                pv = pm.group(1)
                if not pv:
                    if rest or fbody.strip(): fail(path, head, "ptree constructor with unnamed argument but non-empty body")
                    T["ptree_ignored"] = True; continue
                if rest:
                    if not rest.startswith(":"): fail(path, head, "cannot parse constructor head")
                    for ini in split_top(rest[1:]):
                        m = re.fullmatch(r"AMGCL_PARAMS_IMPORT_(VALUE|CHILD)\s*\(\s*%s\s*,\s*(\w+)\s*\)" % pv, ini)
                        if m: T["own_imports"].append((m.group(2), m.group(1).lower())); continue
                        m = re.fullmatch(r"([\w:]+)\s*\(\s*%s\s*\)" % pv, ini)
                        if m and m.group(1) not in [f["name"] for f in T["own_fields"]]:
                            T["base_imported"] = m.group(1); continue
                        m = re.fullmatch(r"(\w+)\s*\((.*)\)", ini, re.S)
                        if m and re.search(r"\b%s\s*\.\s*get\s*\(\s*\"(\w+)\"" % pv, m.group(2)):
                            k = re.search(r"\b%s\s*\.\s*get\s*\(\s*\"(\w+)\"" % pv, m.group(2)).group(1)
                            if k != m.group(1): fail(path, ini, "member initialised from a key with a different name")
                            T["own_manual"].append(k); continue
                        fail(path, ini, "unrecognised member initialiser in the ptree constructor of " + st["qname"])
                # body: hand-read keys and the check_params call
                for m in re.finditer(r"\b%s\s*\.\s*(get|count|get_child|get_optional|find|get_child_optional)\s*(?:<[^>]*>)?\s*\(\s*([^,)]*)" % pv, fbody):
                    km = re.fullmatch(r'\s*"(\w+)"\s*', m.group(2))
                    if not km: fail(path, m.group(0), "property tree read with a non-literal key")
                    if km.group(1) not in T["own_manual"]: T["own_manual"].append(km.group(1))
                calls = [m for m in re.finditer(r"\bcheck_params\s*\(", fbody)]
                if len(calls) > 1: fail(path, fbody, "more than one check_params call")
                if calls:
                    o = calls[0].end() - 1
                    c = match_brace(fbody, o, "(", ")")
                    a = split_top(fbody[o + 1:c])
                    if not (2 <= len(a) <= 3) or a[0] != pv: fail(path, fbody[o:c], "unexpected check_params arguments")
                    T["own_check"] = {"allowed": parse_strlist(a[1], path),
                                      "optional": parse_strlist(a[2], path) if len(a) == 3 else [],
                                      "site": "%s:%d" % (T["file"], st["line"] + body[:body.find(fbody)].count("\n") + fbody[:o].count("\n"))}
                elif re.search(r"AMGCL_PARAM_UNKNOWN\s*\(\s*\w+\s*\.\s*first\s*\)", fbody) and re.search(r"for\s*\(\s*const\s+auto\s*&\s*\w+\s*:\s*%s\s*\)" % pv, fbody):
                    T["reports_all"] = True
                continue
            gm = re.match(r"void\s+get\s*\(", head)
            if gm:
                T["has_get"] = True
                close = match_brace(head, gm.end() - 1, "(", ")")
                args = split_top(head[gm.end():close])
                if len(args) != 2: fail(path, head, "params::get with unexpected signature")
                a0 = re.fullmatch(r"boost::property_tree::ptree\s*&\s*(\w*)", args[0])
                a1 = re.fullmatch(r"const\s+std::string\s*&\s*(\w*)\s*(=\s*\"\")?", args[1])
                if not a0 or not a1: fail(path, head, "params::get with unexpected signature")
                pv, pathv = a0.group(1), a1.group(1)
                T["get_params"] = [x for x in (pv, pathv) if x]
                for stmt in [s.strip() for s in fbody.split(";")]:
                    if not stmt: continue
                    m = re.fullmatch(r"AMGCL_PARAMS_EXPORT_(VALUE|CHILD)\s*\(\s*%s\s*,\s*%s\s*,\s*(\w+)\s*\)" % (pv, pathv), stmt)
                    if m: T["own_exports"].append((m.group(2), m.group(1).lower())); continue
                    m = re.fullmatch(r"([\w:]+)::get\s*\(\s*%s\s*,\s*%s\s*\)" % (pv, pathv), stmt)
                    if m: T["base_exported"] = m.group(1); continue
                    m = re.fullmatch(r"%s\s*\.\s*put\s*\(\s*%s\s*\+\s*\"(\w+)\"\s*,\s*(&?\w+)\s*\)" % (pv, pathv), stmt)
                    if m: T["manual_exports"].append(m.group(1)); continue
                    fail(path, stmt, "unrecognised statement in params::get of " + st["qname"])
                continue
            # any other member function (vexcl_params::context) is irrelevant to the tables
            if re.search(r"AMGCL_PARAMS_|check_params|property_tree", head + fbody):
                fail(path, head, "property-tree code in an unexpected member function")
    return T



# ------------------------------------------------------------------------------------------------ enums, by execution
def probe_enum(path, E, want_prints, want_parses, known_names):
    """Fallback when operator<< / operator>> of a run-time enum is not written in the textual form parsed below (a
    switch of `return os << "name"` cases / a plain if - else-if chain): the tables are obtained by EXECUTING the
    operators of the header.  operator<< is total on the enumerators, so `prints` is exact; operator>> is probed on the
    printed names, the enumerator identifiers, the names the textual parse of the other operator found, and on
    mutations of them (upper case, trailing character, empty-like), so a string accepted outside this candidate set is
    not seen (stated in the generated file).  Returns (prints, print_default, parses, parse_throws)."""
    import subprocess, tempfile
    rel = os.path.relpath(path, REPO)
    ns = "amgcl::" + E["ns"] if E["ns"] else "amgcl"
    tn = E["tname"]
    q = lambda v: "%s::%s" % (ns, v)
    cands = []
    for v in E["values"] + list(known_names):
        for c in (v, v.upper(), v + "x", v[:-1] if len(v) > 1 else v + "_"):
            if c and c not in cands and re.fullmatch(r"[\w.+-]+", c): cands.append(c)
    cands += [c for c in ("no_such_name", "???", "0", "1") if c not in cands]
    lines = ['#include <iostream>', '#include <sstream>', '#include <string>', '#include <%s>' % rel, 'int main() {',
             '  typedef %s::%s T;' % (ns, tn)]
    for v in E["values"]:
        lines.append('  { std::ostringstream o; o << %s; std::cout << "P %s " << o.str() << "\\n"; }' % (q(v), v))
    lines.append('  { std::ostringstream o; o << static_cast<T>(1 << 20); std::cout << "D " << o.str() << "\\n"; }')
    lines.append('  const char *cands[] = {%s};' % ", ".join('"%s"' % c for c in cands))
    lines.append('  for (const char *c : cands) { std::istringstream i(c); T t = static_cast<T>(1 << 20); try { i >> t; } catch (const std::exception&) { std::cout << "R " << c << " THROWS\\n"; continue; }')
    lines.append('    const char *nm = "?";')
    for v in E["values"]:
        lines.append('    if (t == %s) nm = "%s";' % (q(v), v))
    lines.append('    std::cout << "R " << c << " " << (i.fail() ? "FAILBIT" : nm) << "\\n"; }')
    lines.append('  return 0; }')
    with tempfile.TemporaryDirectory(dir=os.path.join(VERIF, ".cache") if os.path.isdir(os.path.join(VERIF, ".cache")) else None) as d:
        src = os.path.join(d, "probe.cpp"); exe = os.path.join(d, "probe")
        open(src, "w").write("\n".join(lines) + "\n")
        cc = "mpicxx" if "/mpi/" in rel else "g++"
        r = subprocess.run([cc, "-std=c++17", "-O0", "-w", "-I" + REPO, "-I/usr/include/eigen3", src, "-o", exe], capture_output=True, text=True)
        if r.returncode != 0: fail(path, r.stderr[-300:], "operator<< / operator>> not in the parsed textual form and the execution probe does not compile")
        r = subprocess.run([exe], capture_output=True, text=True, timeout=120)
        if r.returncode != 0: fail(path, r.stdout[-200:] + r.stderr[-200:], "execution probe of the enum operators failed")
    prints, dflt, parses, throws_unknown, soft = [], None, [], False, False
    for l in r.stdout.split("\n"):
        t = l.split(" ")
        if t[0] == "P" and len(t) >= 3: prints.append((t[1], " ".join(t[2:])))
        elif t[0] == "D": dflt = " ".join(t[1:])
        elif t[0] == "R" and len(t) == 3:
            if t[2] == "THROWS":
                if t[1] == "no_such_name": throws_unknown = True
            elif t[2] == "FAILBIT" or t[2] == "?": soft = True
            else: parses.append((t[1], t[2]))
    # a name printed by the default branch only is not a case of operator<<
    prints = [(e, sname) for e, sname in prints if sname != dflt]
    return prints, dflt, parses, (throws_unknown and not soft)

def _parse_enum_operators(src, path, E, tn, consumed):
    ms = list(re.finditer(r"operator\s*<<\s*\(\s*std::ostream\s*&\s*(\w+)\s*,\s*%s\s+(\w+)\s*\)\s*\{" % tn, src))
    if len(ms) != 1: fail(path, "", "expected exactly one operator<< for the enum, found %d" % len(ms))
    o = ms[0].end() - 1; c = match_brace(src, o); body = src[o + 1:c]; consumed.append((o, c))
    osv, var = ms[0].group(1), ms[0].group(2)
    sm = re.fullmatch(r"\s*switch\s*\(\s*%s\s*\)\s*\{(.*)\}\s*" % var, body, re.S)
    if not sm: fail(path, body, "operator<< body is not a single switch")
    rest, prints, dflt = sm.group(1), [], None
    pat = re.compile(r"\s*case\s+([\w:]+)\s*:\s*return\s+%s\s*<<\s*\"([^\"]*)\"\s*;" % osv)
    patd = re.compile(r"\s*default\s*:\s*return\s+%s\s*<<\s*\"([^\"]*)\"\s*;" % osv)
    while rest.strip():
        mm = pat.match(rest)
        if mm: prints.append((mm.group(1).split("::")[-1], mm.group(2))); rest = rest[mm.end():]; continue
        mm = patd.match(rest)
        if mm: dflt = mm.group(1); rest = rest[mm.end():]; continue
        fail(path, rest, "unrecognised text in operator<< switch")
    E["prints"], E["print_default"] = prints, dflt
    # operator>>
    ms = list(re.finditer(r"operator\s*>>\s*\(\s*std::istream\s*&\s*(\w+)\s*,\s*%s\s*&\s*(\w+)\s*\)\s*\{" % tn, src))
    if len(ms) != 1: fail(path, "", "expected exactly one operator>> for the enum, found %d" % len(ms))
    o = ms[0].end() - 1; c = match_brace(src, o); body = src[o + 1:c]; consumed.append((o, c))
    isv, var = ms[0].group(1), ms[0].group(2)
    hm = re.match(r"\s*std::string\s+(\w+)\s*;\s*%s\s*>>\s*(\w+)\s*;" % isv, body)
    if not hm or hm.group(1) != hm.group(2): fail(path, body, "unrecognised operator>> prologue")
    sv, rest, parses, throws = hm.group(1), body[hm.end():], [], False
    pat = re.compile(r"\s*(else\s+)?if\s*\(\s*%s\s*==\s*\"([^\"]*)\"\s*\)\s*%s\s*=\s*([\w:]+)\s*;" % (sv, var))
    first = True
    while True:
        mm = pat.match(rest)
        if not mm: break
        if bool(mm.group(1)) == first: fail(path, rest, "operator>> is not a plain if / else-if chain")
        first = False
        parses.append((mm.group(2), mm.group(3).split("::")[-1])); rest = rest[mm.end():]
    mm = re.match(r"\s*else\s+throw\s+std::invalid_argument\s*\(", rest)
    if mm:
        o2 = mm.end() - 1; c2 = match_brace(rest, o2, "(", ")"); rest = rest[c2 + 1:]
        mm2 = re.match(r"\s*;", rest)
        if not mm2: fail(path, rest, "unrecognised text after throw in operator>>")
        rest = rest[mm2.end():]; throws = True
    if not re.fullmatch(r"\s*return\s+%s\s*;\s*" % isv, rest): fail(path, rest, "unrecognised text at the end of operator>>")
    E["parses"], E["parse_throws"] = parses, throws


# ---- which class does each case of a wrapper switch name?
def scan_type(txt, i):
    """a type expression at txt[i:]: (typename|const)* (::)? id (<balanced>)? (:: id (<balanced>)?)*
    returns (class name, end) or None.  The class name is the last component of the qualified name with the template
    arguments dropped (`amgcl::relaxation::ilu0<Backend>` -> `ilu0`); for the result of a metafunction
    (`as_scalar<amgcl::coarsening::aggregation>::type`) it is `as_scalar<aggregation>`."""
    n = len(txt)
    def ws(j):
        while j < n and txt[j].isspace(): j += 1
        return j
    i = ws(i)
    while True:
        m = re.compile(r"(typename|const|struct|class)\b").match(txt, i)
        if not m: break
        i = ws(m.end())
    parts = []
    if txt.startswith("::", i): i = ws(i + 2)
    while True:
        m = re.compile(r"[A-Za-z_]\w*").match(txt, i)
        if not m: return None
        name, targs = m.group(), None; i = m.end()
        j = ws(i)
        if j < n and txt[j] == "<":
            depth, k = 0, j
            while k < n:
                if txt[k] == "<": depth += 1
                elif txt[k] == ">":
                    depth -= 1
                    if depth == 0: break
                elif txt[k] in ";{}": return None
                k += 1
            if k >= n: return None
            targs = txt[j + 1:k]; i = k + 1; j = ws(i)
        parts.append((name, targs))
        if txt.startswith("::", j) and re.compile(r"\s*(template\s+)?[A-Za-z_]").match(txt, j + 2):
            i = ws(j + 2)
            m2 = re.compile(r"template\b").match(txt, i)
            if m2: i = ws(m2.end())
            continue
        break
    name = parts[-1][0]
    if name == "type" and len(parts) >= 2 and parts[-2][1] is not None:
        inner = scan_type(parts[-2][1], 0)
        name = "%s<%s>" % (parts[-2][0], inner[0] if inner else "?")
    return name, i


def case_classes(path, plain, macro_bodies):
    """[(case label, class)] in label order for one wrapper switch: the class (last component of its qualified name,
    template arguments dropped) that the code of the case names after `new`, inside `static_cast<…*>`, as an explicit
    template argument of a called function template (`call_apply_pre<amgcl::relaxation::T>(…)`), or through a local
    typedef; "" when the case names none; several different ones are joined with `|` (and will not agree with anything).
    A label without code of its own (fall-through) gets the class of the code it falls into."""
    def expand(mm):
        name, arg = mm.group(1), mm.group(2)
        if name not in macro_bodies: return mm.group(0)
        prm, mb = macro_bodies[name]
        return re.sub(r"\b%s\b" % re.escape(prm), arg, mb) + ";"
    txt = re.sub(r"\b(\w+)\s*\(\s*(\w+)\s*\)\s*;", expand, plain)
    labels = [(m.start(), m.end(), m.group(1)) for m in re.finditer(r"\bcase\s+([\w:]+)\s*:(?!:)|\bdefault\s*:(?!:)", txt)]
    out = []
    for k, (a, b, lab) in enumerate(labels):
        seg = txt[b:labels[k + 1][0]] if k + 1 < len(labels) else txt[b:]
        names, aliases = [], {}
        for tm in re.finditer(r"\btypedef\b", seg):
            r = scan_type(seg, tm.end())
            if r is None: fail(path, seg[tm.start():tm.start() + 120], "cannot parse the type of a typedef inside a switch case")
            am = re.compile(r"\s*(\w+)\s*;").match(seg, r[1])
            if not am: fail(path, seg[tm.start():tm.start() + 120], "cannot parse a typedef inside a switch case")
            aliases[am.group(1)] = r[0]
        def note(head):
            names.append(aliases.get(head, head))
        for nm in re.finditer(r"\bnew\b", seg):
            r = scan_type(seg, nm.end())
            if r is None: fail(path, seg[nm.start():nm.start() + 120], "cannot parse the type after `new` inside a switch case")
            note(r[0])
        for cm in re.finditer(r"\b(?:static|reinterpret|dynamic)_cast\s*<", seg):
            r = scan_type(seg, cm.end())
            if r is None: fail(path, seg[cm.start():cm.start() + 120], "cannot parse the target of a cast inside a switch case")
            if r[0] not in ("void", "char"): note(r[0])
        for fm in re.finditer(r"\b([A-Za-z_]\w*)\s*<", seg):
            if fm.group(1) in ("static_cast", "reinterpret_cast", "dynamic_cast", "const_cast"): continue
            r0 = scan_type(seg, fm.start())
            if r0 is None: continue
            # a function template called with explicit template arguments:  name<ARGS>(…)   (not `new T<…>(…)`)
            if not re.compile(r"\s*\(").match(seg, r0[1]): continue
            if re.search(r"\b(new|typedef|typename)\s+$", seg[:fm.start()]) or re.search(r"::\s*$", seg[:fm.start()]): continue
            r = scan_type(seg, fm.end())
            if r is not None and re.compile(r"\s*[,>]").match(seg, r[1]): note(r[0])
        uniq = []
        for x in names:
            if x not in uniq: uniq.append(x)
        out.append([lab, "|".join(uniq), bool(seg.strip(" \t\n;{}"))])
    # fall-through labels take the class of the next label that has code
    for k in range(len(out) - 2, -1, -1):
        if not out[k][2]: out[k][1] = out[k + 1][1]
    return [(lab.split("::")[-1], cls) for lab, cls, _ in out if lab is not None]

# ------------------------------------------------------------------------------------------------ enums
def parse_enum_file(src, path, ns_of_pos):
    """returns (enum dict or None, list of switches)"""
    rel = os.path.relpath(path, REPO)
    enums = []
    for m in re.finditer(r"\benum\s+(class\s+)?(\w+)\s*\{", src):
        o = m.end() - 1; c = match_brace(src, o)
        vals = []
        for it in split_top(src[o + 1:c]):
            vm = re.fullmatch(r"(\w+)(\s*=\s*[\w\s+\-<]+)?", it)
            if not vm: fail(path, it, "cannot parse enumerator")
            vals.append(vm.group(1))
        enums.append({"tname": m.group(2), "values": vals, "pos": m.start(), "end": c, "ns": ns_of_pos(m.start())})
    if len(enums) > 1: fail(path, "", "more than one enum in a run-time enum file")
    E = enums[0] if enums else None
    consumed = []       # (start, end) of operator<< / operator>> bodies
    if E:
        tn = E["tname"]
        E["by_execution"] = []
        try:
            _parse_enum_operators(src, path, E, tn, consumed)
        except ParseError as textual_error:
            # harmless rewrites of the operators (table + loop, map lookup, ...) end up here: take the tables from the
            # running code instead of its text; a header that does not even compile in the probe is a loud failure
            known = [p_[1] for p_ in E.get("prints", [])] + [p_[0] for p_ in E.get("parses", [])]
            prints, dflt, parses, throws = probe_enum(path, E, True, True, known)
            E["prints"], E["print_default"], E["parses"], E["parse_throws"] = prints, dflt, parses, throws
            E["by_execution"] = ["operator<< / operator>> tables obtained by execution (textual form not recognised: %s)" % str(textual_error).split("\n")[0][-120:]]
            for mm_ in re.finditer(r"operator\s*(<<|>>)\s*\(\s*std::[io]stream\s*&\s*\w+\s*,\s*%s\s*&?\s*\w+\s*\)\s*\{" % tn, src):
                o_ = mm_.end() - 1; consumed.append((o_, match_brace(src, o_)))
    # wrapper switches: every other switch in the file
    switches = []
    for m in re.finditer(r"\bswitch\s*\(", src):
        if any(a <= m.start() <= b for a, b in consumed): continue
        pc = match_brace(src, m.end() - 1, "(", ")")
        bm = re.match(r"\s*\{", src[pc + 1:])
        if not bm: fail(path, src[m.start():pc + 20], "switch without a braced body")
        o = pc + 1 + bm.end() - 1; c = match_brace(src, o); body = src[o + 1:c]
        if re.search(r"\bswitch\s*\(", body): fail(path, body, "nested switch in a run-time wrapper")
        cases, quals, macros, macro_bodies = [], set(), {}, {}
        # local case-generating macros:  #define M(arg) \  case [qual::]arg: \ ...
        def_pat = re.compile(r"^[ \t]*#[ \t]*define[ \t]+(\w+)\(\s*(\w+)\s*\)((?:.*\\\n)*.*)$", re.M)
        plain = body
        for dm in def_pat.finditer(body):
            mb = dm.group(3).replace("\\\n", "\n")
            cm = re.findall(r"\bcase\s+([\w:]+)\s*:", mb)
            if len(cm) != 1 or cm[0].split("::")[-1] != dm.group(2):
                fail(path, dm.group(0), "switch-local macro that does not generate exactly one `case <arg>:`")
            macros[dm.group(1)] = "::".join(cm[0].split("::")[:-1])
            macro_bodies[dm.group(1)] = (dm.group(2), mb)
            if re.search(r"\bdefault\s*:", mb): fail(path, dm.group(0), "default label inside a macro")
        plain = def_pat.sub(lambda mm: "\n" * mm.group(0).count("\n"), plain)
        plain = re.sub(r"^[ \t]*#[ \t]*undef[ \t]+\w+[ \t]*$", "", plain, flags=re.M)
        if re.search(r"^[ \t]*#", plain, re.M): fail(path, plain, "unexpected preprocessor line inside a wrapper switch")
        for em in re.finditer(r"\bcase\s+([\w:]+)\s*:|\b(\w+)\s*\(\s*(\w+)\s*\)\s*;", plain):
            if em.group(1):
                parts = em.group(1).split("::"); cases.append(parts[-1]); quals.add("::".join(parts[:-1]))
            elif em.group(2) in macros:
                cases.append(em.group(3)); quals.add(macros[em.group(2)])
        dm = re.search(r"\bdefault\s*:(.*)$", plain, re.S)
        if dm is None: must = True
        else: must = bool(re.search(r"\bthrow\b", dm.group(1)))
        if not cases: fail(path, body, "switch without any recognisable case")
        classes = case_classes(path, plain, macro_bodies)
        if [c for c, _ in classes] != cases:
            fail(path, body, "case labels seen by the class extraction %r differ from the case list %r" % ([c for c, _ in classes], cases))
        switches.append({"site": "%s:%d" % (rel, line_of(src, m.start())), "cases": cases, "must": must, "classes": classes,
                         "quals": sorted(q for q in quals if q), "ns": ns_of_pos(m.start())})
    return E, switches


def namespace_lookup(src):
    """position -> '::'-joined namespace path (without the leading amgcl)"""
    marks, stack, i, n, last = [], [], 0, len(src), 0
    while i < n:
        c = src[i]
        if c == '"':
            j = i + 1
            while j < n and src[j] != '"': j += 2 if src[j] == "\\" else 1
            i = j + 1; continue
        if c == ";": last = i + 1
        elif c == "{":
            m = HEAD_NS.search(src[last:i])
            stack.append(m.group(1) if m else None); last = i + 1
            marks.append((i, [s for s in stack if s]))
        elif c == "}":
            if stack: stack.pop()
            last = i + 1
            marks.append((i, [s for s in stack if s]))
        i += 1

    def at(pos):
        cur = []
        for p, st in marks:
            if p > pos: break
            cur = st
        return "::".join(s for s in cur if s != "amgcl")
    return at


# ------------------------------------------------------------------------------------------------ driver
def lean_str(s):
    return json.dumps(s, ensure_ascii=True)


def lean_list(items, indent="      "):
    if not items: return "[]"
    return "[" + ", ".join(items) + "]"


def load(path, defined):
    return preprocess(strip_comments(open(path, errors="replace").read()), path, defined)


def build(defined, tag):
    files = sorted(glob.glob(os.path.join(REPO, "amgcl", "**", "*.hpp"), recursive=True))
    if not files: raise ParseError("no amgcl headers under %s/amgcl" % REPO)
    srcs = {f: load(f, defined) for f in files}
    # ---- enums first (member classification needs their names)
    enums, loose_switches = [], []
    for f in files:
        s = srcs[f]
        has_enum = re.search(r"\benum\s+(class\s+)?\w+\s*\{", s)
        is_runtime = os.path.basename(f) == "runtime.hpp" or re.search(r"\bruntime\b", os.path.relpath(f, REPO))
        if has_enum and re.search(r"operator\s*>>\s*\(\s*std::istream", s):
            E, sw = parse_enum_file(s, f, namespace_lookup(s))
            E["file"] = os.path.relpath(f, REPO); E["switches"] = sw
            E["name"] = E["ns"] if E["tname"] == "type" else E["ns"] + "::" + E["tname"]
            enums.append(E)
        elif has_enum:
            # an enum without stream operators is not a run-time (property tree) enum; it must not be one silently:
            for m in re.finditer(r"\benum\s+(class\s+)?(\w+)\s*\{", s):
                if m.group(2) == "type": fail(f, s[m.start():m.start() + 80], "`enum type` without operator>>")
        elif is_runtime and re.search(r"\bswitch\s*\(", s):
            _, sw = parse_enum_file(s, f, namespace_lookup(s))
            loose_switches += [(f, x) for x in sw]
    by_name = {E["name"]: E for E in enums}
    for f, sw in loose_switches:
        if len(sw["quals"]) != 1: fail(f, sw["site"], "wrapper switch in a file without enum must use qualified case labels")
        q = sw["quals"][0]
        cands = [E for E in enums if E["name"] == q or E["name"].endswith("::" + q) or q.endswith("::" + E["name"])]
        if len(cands) != 1: fail(f, sw["site"], "cannot attribute switch over `%s` to a run-time enum" % q)
        cands[0]["switches"].append(sw)
    for E in enums:
        for sw in E["switches"]:
            for c in sw["cases"]:
                if c not in E["values"]: fail(E["file"], sw["site"], "switch case `%s` is not an enumerator of %s" % (c, E["name"]))
    enum_suffixes = []
    for E in enums:
        parts = (E["name"] + "::" + E["tname"]).split("::") if E["tname"] == "type" else E["name"].split("::")
        for k in range(2, len(parts) + 1): enum_suffixes.append("::".join(parts[-k:]))
    # ---- params structs
    raw = []
    for f in files:
        if not re.search(r"\bstruct\s+\w*params\b", srcs[f]): continue
        for st in scan_scopes(srcs[f], f):
            T = parse_struct(st, enum_suffixes); T["encl"] = st["encl"]; raw.append(T)
    n_decl = sum(len(re.findall(r"\bstruct\s+\w*params\b(?!\s*;)", srcs[f])) for f in files)
    if n_decl != len(raw): raise ParseError("found %d `struct …params` by text search but parsed %d" % (n_decl, len(raw)))
    names = [T["name"] for T in raw]
    dup = sorted({x for x in names if names.count(x) > 1})
    if dup: raise ParseError("duplicate qualified params names: %s" % dup)
    by = {T["name"]: T for T in raw}

    def resolve_base(T):
        b = T["base_text"]
        if not b: return None
        b = T["aliases"].get(b, b)
        m = re.fullmatch(r"(?:typename\s+)?([\w:]+)::params", b)
        if not m: raise ParseError("%s: cannot parse base class `%s`" % (T["name"], b))
        x = m.group(1).split("::")[-1]
        if T["encl"]:
            tm = re.search(r"\btypedef\s+([\w:]+)\s*<[^;]*>\s+%s\s*;" % re.escape(x), T["encl"])
            if tm: x = tm.group(1).split("::")[-1]
        ns = "::".join(T["name"].split("::")[:-1])
        cands = [n for n in by if n.split("::")[-1] == x and "::".join(n.split("::")[:-1]) == ns] or \
                [n for n in by if n.split("::")[-1] == x]
        if len(cands) != 1: raise ParseError("%s: cannot resolve base class `%s` (candidates %s)" % (T["name"], b, cands))
        return cands[0]

    for T in raw: T["base"] = resolve_base(T)

    def same_base(T, txt):
        """does the text of a base call (`plain_aggregates::params`, `BasePrm`) denote T's base?"""
        if not txt or not T["base_text"]: return False
        norm = lambda s: re.sub(r"^typename\s+", "", T["aliases"].get(s, s)).replace(" ", "")
        return norm(txt) == norm(T["base_text"])

    done = {}

    def effective(name, seen=()):
        if name in done: return done[name]
        if name in seen: raise ParseError("cyclic params inheritance at " + name)
        T = by[name]
        B = effective(T["base"], seen + (name,)) if T["base"] else None
        R = {"name": name, "file": T["file"], "line": T["line"], "base": T["base"]}
        R["fields"] = ([dict(f) for f in B["fields"]] if B else []) + [dict(f, origin=name) for f in T["own_fields"]]
        bi = bool(B) and same_base(T, T["base_imported"])
        be = bool(B) and same_base(T, T["base_exported"])
        if T["base_imported"] and not bi: raise ParseError("%s: constructor calls `%s(p)` which is not the base class" % (name, T["base_imported"]))
        if T["base_exported"] and not be: raise ParseError("%s: get calls `%s::get` which is not the base class" % (name, T["base_exported"]))
        R["imports"] = (B["imports"] if bi else []) + T["own_imports"]
        R["manual"] = (B["manual"] if bi else []) + T["own_manual"]
        R["checks"] = (B["checks"] if bi else []) + ([T["own_check"]] if T["own_check"] else [])
        R["exports"] = (B["exports"] if be else []) + T["own_exports"]
        R["manual_exports"] = (B["manual_exports"] if be else []) + T["manual_exports"]
        # parameter names of this struct's own get(); shadowing of inherited members is checked in the base's table
        R["export_params"] = list(T["get_params"])
        R["own_export_names"] = [n for n, _ in T["own_exports"]]
        R["empty_like"] = bool(T.get("reports_all")) and not T["own_fields"] and not B
        R["ptree_ignored"] = T["ptree_ignored"]
        R["has_ptree_ctor"], R["has_get"] = T["has_ptree_ctor"], T["has_get"]
        done[name] = R
        return R

    tables = [effective(n) for n in names]
    for R in tables:
        R["derived_own"] = []
    for T in raw:
        b = T["base"]
        while b:
            done[b]["derived_own"] += [f["name"] for f in T["own_fields"] if f["name"] not in done[b]["derived_own"]]
            b = by[b]["base"]
    for R in tables:
        if R["name"] in EXCLUDED: continue
        if not R["has_ptree_ctor"]: raise ParseError("%s: params struct without a property-tree constructor" % R["name"])
        if not R["has_get"]: raise ParseError("%s: params struct without get()" % R["name"])
        if R["manual_exports"]: raise ParseError("%s: hand-written p.put in get() (%s) is not modelled" % (R["name"], R["manual_exports"]))
    for E in enums: E["tag"] = tag
    return tables, enums


# ---------------------------------------------------------------------------------------------------------------------
# Dispatch conditions of the serial and distributed run-time wrappers, as TEXT.  Which class a wrapper builds is decided by a handful of
# expressions (the `as_scalar` test of the coarsening wrapper, the enable_if conditions in front of the call_* helpers,
# the bodies of the switch-local case macros, the Precond typedef of every case of runtime::preconditioner, the
# forwarding overload of the solver wrapper, the specialisations of backend::*_is_supported).  They are emitted into the
# generated table; `Amgcl/Model/RuntimeDispatch.lean` holds the expressions they are expected to be, and the generated
# obligation `dispatch_conditions_expected` is their equality (kernel `decide`).
DISPATCH_FILES = ["amgcl/coarsening/runtime.hpp", "amgcl/relaxation/runtime.hpp", "amgcl/solver/runtime.hpp",
                  "amgcl/preconditioner/runtime.hpp",
                  "amgcl/mpi/coarsening/runtime.hpp", "amgcl/mpi/relaxation/runtime.hpp", "amgcl/mpi/solver/runtime.hpp",
                  "amgcl/mpi/direct_solver/runtime.hpp", "amgcl/mpi/partition/runtime.hpp", "amgcl/mpi/preconditioner.hpp"]


def norm_ws(t):
    return re.sub(r"\s+", " ", t).strip()


def match_angle(s, i):
    """index of the `>` closing the `<` at s[i]; parenthesised sub-expressions (which may hold comparison operators) are skipped"""
    assert s[i] == "<"
    depth, j, n = 0, i, len(s)
    while j < n:
        c = s[j]
        if c == "(": j = match_brace(s, j, "(", ")")
        elif c == "<": depth += 1
        elif c == ">":
            depth -= 1
            if depth == 0: return j
        elif c in ";{}": break
        j += 1
    raise ParseError("unbalanced template argument list near: " + s[i:i + 80])


def enclosing_function(src, pos):
    """name of the member function (or ctor/dtor) whose body contains `pos`: the identifier in front of the parameter list
    of the innermost `name(...) [const] [: init-list] {` that encloses pos"""
    best = None
    for m in re.finditer(r"(operator\s*\(\s*\)|operator\s*<<|~?\w+)\s*\(", src[:pos]):
        before = src[:m.start()].rstrip()
        if before.endswith(",") or (before.endswith(":") and not before.endswith("::")): continue    # member initialiser
        if m.group(1) in ("switch", "if", "while", "for", "return", "catch", "sizeof", "static_cast", "defined"): continue
        try: pc = match_brace(src, m.end() - 1, "(", ")")
        except Exception: continue
        mm = re.match(r"\s*(const)?\s*(:[^{;]*)?\{", src[pc + 1:])
        if not mm: continue
        o = pc + 1 + mm.end() - 1
        try: c = match_brace(src, o)
        except Exception: continue
        if o < pos < c: best = norm_ws(m.group(1))
    return best or "?"


def extract_dispatch():
    items = []      # (key, text)
    def add(key, text):
        keys = [k for k, _ in items]
        k2, n = key, 1
        while k2 in keys: n += 1; k2 = "%s#%d" % (key, n)
        items.append((k2, norm_ws(text)))
    for rel in DISPATCH_FILES:
        path = os.path.join(REPO, rel)
        if not os.path.exists(path): raise ParseError("run-time wrapper file %s not found" % rel)
        src = load(path, lambda m: False)
        short = rel[len("amgcl/"):-len(".hpp")]
        # enable_if conditions in front of member functions
        for m in re.finditer(r"std::enable_if\s*<", src):
            c = match_angle(src, m.end() - 1)
            args = split_top(src[m.end():c])
            fm = re.match(r"\s*::type\s+(\w+)\s*\(", src[c + 1:])
            if not fm: fail(path, src[m.start():c + 40], "enable_if that is not the return type of a member function")
            add("%s enable_if %s" % (short, fm.group(1)), args[0])
        # switch-local case macros
        for dm in re.finditer(r"^[ \t]*#[ \t]*define[ \t]+(\w+)\(\s*(\w+)\s*\)((?:.*\\\n)*.*)$", src, re.M):
            add("%s macro %s" % (short, enclosing_function(src, dm.start())), dm.group(3).replace("\\\n", "\n"))
        # explicit (hand-written, not macro-generated) cases and default labels of every wrapper switch: the whole statement list
        for m in re.finditer(r"\bswitch\s*\(", src):
            pc = match_brace(src, m.end() - 1, "(", ")")
            bm = re.match(r"\s*\{", src[pc + 1:])
            if not bm: continue
            o = pc + 1 + bm.end() - 1; c = match_brace(src, o); body = src[o + 1:c]
            if re.search(r"return\s+\w+\s*<<\s*\"", body): continue       # operator<< of the enumeration: in the enum tables
            fn = enclosing_function(src, m.start())
            plain = re.sub(r"^[ \t]*#[ \t]*define[ \t]+\w+\([^)]*\)(?:.*\\\n)*.*$", "", body, flags=re.M)
            plain = re.sub(r"^[ \t]*#[ \t]*undef[ \t]+\w+[ \t]*$", "", plain, flags=re.M)
            labels = list(re.finditer(r"\b(?:case\s+([\w:]+)|(default))\s*:(?!:)", plain))
            for k, lm in enumerate(labels):
                end = labels[k + 1].start() if k + 1 < len(labels) else len(plain)
                text = plain[lm.end():end]
                # macro invocations that follow the last explicit statement belong to the next (generated) cases
                text = re.split(r"\b[A-Z][A-Z0-9_]+\s*\(\s*\w+\s*\)\s*;", text)[0]
                add("%s case %s %s" % (short, fn, (lm.group(1) or "default").split("::")[-1]), text)
        # plain statements that decide the class
        for m in re.finditer(r"\b(?:const\s+bool\s+)?(as_scalar|block_value_type)\s*=\s*([^;]*);", src):
            add("%s assign %s" % (short, m.group(1)), m.group(2))
        for m in re.finditer(r"return\s*\(\s*\*\s*this\s*\)\s*\(([^;]*)\)\s*;", src):
            add("%s forward %s" % (short, enclosing_function(src, m.start())), m.group(1))
        # the enumerator read from the tree
        for m in re.finditer(r":\s*(\w+)\s*\(\s*prm\.get\s*\(([^;{]*?)\)\s*\)\s*,\s*handle", src):
            add("%s read %s" % (short, m.group(1)), m.group(2))
    # specialisations of the support traits, anywhere in the serial library
    for f in sorted(glob.glob(os.path.join(REPO, "amgcl", "**", "*.hpp"), recursive=True)):
        rel = os.path.relpath(f, REPO)
        src = load(f, lambda m: False)
        for m in re.finditer(r"\bstruct\s+((?:coarsening|relaxation)_is_supported)\s*(<)?", src):
            if not m.group(2):
                mm = re.match(r"\s*:\s*std::(\w+)", src[m.end():])
                if not mm: fail(f, src[m.start():m.start() + 80], "unrecognised primary template of a support trait")
                add("trait %s primary" % m.group(1), mm.group(1)); continue
            c = match_angle(src, m.end() - 1)
            mm = re.match(r"\s*:\s*std::(\w+)", src[c + 1:])
            if not mm: fail(f, src[m.start():c + 40], "unrecognised specialisation of a support trait")
            add("trait %s %s" % (m.group(1), rel[len("amgcl/"):-len(".hpp")]), src[m.end():c] + " : " + mm.group(1))
    return items


# Python mirror of ParamTable.consistentB / EnumTable.consistentB — only to NAME the offender
ADMISSIBLE_FOREIGN = {"mpi::cpr": ["active_rows"]}
EXPORT_EXEMPT = {"coarsening::nullspace_params": ["cols"]}


def offenders(R):
    out = []
    kind = {f["name"]: f["kind"] for f in R["fields"]}
    fn = [f["name"] for f in R["fields"]]
    iv = [n for n, v in R["imports"] if v == "value"]; ic = [n for n, v in R["imports"] if v == "child"]
    ev = [n for n, v in R["exports"] if v == "value"]; ec = [n for n, v in R["exports"] if v == "child"]
    for lst, what in ((fn, "data members"), ([n for n, _ in R["imports"]], "import list"), ([n for n, _ in R["exports"]], "export list")):
        for n in sorted({x for x in lst if lst.count(x) > 1}): out.append((n, "listed twice in the " + what))
    for n, v in R["imports"]:
        k = kind.get(n)
        if k is None: out.append((n, "imported (AMGCL_PARAMS_IMPORT_%s) but is not a data member" % v.upper()))
        elif (k == "child") != (v == "child"): out.append((n, "kind mismatch: %s member imported with AMGCL_PARAMS_IMPORT_%s" % (k, v.upper())))
    for n, v in R["exports"]:
        k = kind.get(n)
        if n in R["export_params"] and n in R["own_export_names"]:
            out.append((n, "member is shadowed by the parameter `%s` of get(): AMGCL_PARAMS_EXPORT_%s(%s, …, %s) exports the parameter "
                           "instead of the member (export list); does not compile when instantiated" % (n, v.upper(), R["export_params"][0], n)))
        if k is None: out.append((n, "exported (AMGCL_PARAMS_EXPORT_%s) but is not a data member" % v.upper()))
        elif (k == "child") != (v == "child"): out.append((n, "kind mismatch: %s member exported with AMGCL_PARAMS_EXPORT_%s (export list)" % (k, v.upper())))
    for f in R["fields"]:
        n, k = f["name"], f["kind"]
        inh = "" if f["origin"] == R["name"] else " (inherited from %s)" % f["origin"]
        if k in ("value", "enum"):
            if n not in iv and not (n in EXPORT_EXEMPT.get(R["name"], []) and n in R["manual"]):
                out.append((n, "value member%s missing from the import list (AMGCL_PARAMS_IMPORT_VALUE): cannot be set" % inh))
            if n not in ev and n not in EXPORT_EXEMPT.get(R["name"], []) and not (kind.get(n) and n in ec):
                out.append((n, "value member%s missing from the export list (AMGCL_PARAMS_EXPORT_VALUE): not written back" % inh))
        elif k == "child":
            if n not in ic: out.append((n, "child member%s missing from the import list (AMGCL_PARAMS_IMPORT_CHILD)" % inh))
            if n not in ec: out.append((n, "child member%s missing from the export list (AMGCL_PARAMS_EXPORT_CHILD)" % inh))
        elif k == "pointer":
            if n not in iv and n not in R["manual"]: out.append((n, "pointer member%s is never read from the property tree" % inh))
    und = fn + R["manual"] + R["derived_own"] + ADMISSIBLE_FOREIGN.get(R["name"], [])
    if R["empty_like"]:
        pass
    elif not R["checks"]:
        out.append(("*", "no check_params call: unknown keys are silently dropped"))
    else:
        for c in R["checks"]:
            names = c["allowed"] + c["optional"]
            for n in und:
                if n not in names: out.append((n, "missing from the check_params list at %s: a valid key would be reported as unknown" % c["site"]))
            for n in names:
                if n not in und: out.append((n, "in the check_params list at %s but understood by nothing: the key is silently accepted" % c["site"]))
    return out


def enum_offenders(E):
    out = []
    pr = dict(reversed(E["prints"])); pa = {}
    for s, e in E["parses"]: pa.setdefault(s, e)
    if not E["parse_throws"]: out.append(("*", "operator>> does not throw on an unknown name"))
    for e in E["values"]:
        s = pr.get(e)
        if s is None: out.append((e, "no case in operator<< (prints \"???\")"))
        elif pa.get(s) != e: out.append((e, "operator<< prints \"%s\" but operator>> maps that to %s" % (s, pa.get(s, "an exception"))))
    printed = [pr.get(e, "???") for e in E["values"]]
    for s, e in E["parses"]:
        if s not in printed: out.append((e, "operator>> accepts \"%s\" which operator<< never prints" % s))
    for sw in E["switches"]:
        if sw["must"]:
            for e in E["values"]:
                if e not in sw["cases"]: out.append((e, "no case in the wrapper switch at %s" % sw["site"]))
    for e in E["values"]:
        seen = []
        for sw in E["switches"]:
            c = dict(reversed(sw.get("classes", []))).get(e, "")
            if c: seen.append((c, sw["site"]))
        for c, site in seen[1:]:
            if c != seen[0][0]:
                out.append((e, "the wrapper switch at %s dispatches to class `%s`, the one at %s to `%s`" % (site, c, seen[0][1], seen[0][0])))
    return out


def emit(tables, enums, dispatch=()):
    L = []
    a = L.append
    a("-- GENERATED by tools/params_extract.py from %s — do not edit (regenerated on every `vcheck.py check C14`)" % "$AMGCL_REPO/amgcl/**/*.hpp")
    a("import Amgcl.Model.PTree")
    a("namespace Amgcl.Generated")
    a("open Amgcl.Params")
    a("")

    def fld(f): return "⟨%s, Kind.%s, %s, %s⟩" % (lean_str(f["name"]), f["kind"], lean_str(f["ctype"]), lean_str(f["origin"]))
    def via(x): return "(%s, Via.%s)" % (lean_str(x[0]), x[1])
    def chk(c): return "⟨%s, %s, %s⟩" % (lean_list([lean_str(s) for s in c["allowed"]]), lean_list([lean_str(s) for s in c["optional"]]), lean_str(c["site"]))

    def table(R):
        return ("  { name := %s, file := %s, line := %d, base := %s,\n    fields := %s,\n    imports := %s,\n    manualKeys := %s,\n"
                "    checks := %s,\n    exports := %s,\n    exportParams := %s,\n    derivedOwn := %s, emptyLike := %s }") % (
            lean_str(R["name"]), lean_str(R["file"]), R["line"], ("some " + lean_str(R["base"])) if R["base"] else "none",
            lean_list([fld(f) for f in R["fields"]]), lean_list([via(x) for x in R["imports"]]),
            lean_list([lean_str(s) for s in R["manual"]]), lean_list([chk(c) for c in R["checks"]]),
            lean_list([via(x) for x in R["exports"]]),
            lean_list([lean_str(s) for s in R["export_params"]]),
            lean_list([lean_str(s) for s in R["derived_own"]]),
            "true" if R["empty_like"] else "false")

    inc = [R for R in tables if R["name"] not in EXCLUDED]
    exc = [R for R in tables if R["name"] in EXCLUDED]
    a("/-- every `struct …params` of the library (%d tables); see `excludedTables` for the ones left out -/" % len(inc))
    a("def paramTables : List ParamTable := [")
    a(",\n".join(table(R) for R in inc))
    a("]")
    a("")
    a("/-- params structs that are NOT under the consistency obligation, with the reason -/")
    a("def excludedTables : List (String × String) := [")
    a(",\n".join("  (%s, %s)" % (lean_str(R["name"]), lean_str(EXCLUDED[R["name"]])) for R in exc))
    a("]")
    a("")
    a("/-- tables that are checked by the kernel but cannot be instantiated by the harness offline -/")
    a("def notCompiled : List String := " + lean_list([lean_str(s) for s in NOT_COMPILED]))
    a("")

    def sw(s): return "⟨%s, %s, %s⟩" % (lean_str(s["site"]), lean_list([lean_str(c) for c in s["cases"]]), "true" if s["must"] else "false")
    def pair(p): return "(%s, %s)" % (lean_str(p[0]), lean_str(p[1]))

    def disp(s): return "⟨%s, %s⟩" % (lean_str(s["site"]), lean_list([pair(p) for p in s["classes"]]))

    def etable(E):
        return ("  { name := %s, file := %s,\n    values := %s,\n    prints := %s,\n    parses := %s,\n    parseThrows := %s,\n    switches := %s,\n    dispatch := %s }") % (
            lean_str(E["name"] + E["tag"]), lean_str(E["file"]), lean_list([lean_str(v) for v in E["values"]]),
            lean_list([pair(p) for p in E["prints"]]), lean_list([pair(p) for p in E["parses"]]),
            "true" if E["parse_throws"] else "false", lean_list([sw(s) for s in E["switches"]]),
            lean_list([disp(s) for s in E["switches"]]))
    a("/-- every run-time enum: operator<< / operator>> tables and wrapper switches (`@all` = with every AMGCL_HAVE_* defined) -/")
    a("def enumTables : List EnumTable := [")
    a(",\n".join(etable(E) for E in enums))
    a("]")
    a("")
    a("/-- dispatch conditions of the serial run-time wrappers, as whitespace-normalised text (key, expression) -/")
    a("def dispatchConditions : List (String × String) := [")
    a(",\n".join("  (%s, %s)" % (lean_str(k), lean_str(v)) for k, v in dispatch))
    a("]")
    a("")
    a("end Amgcl.Generated")
    data = "\n".join(L) + "\n"
    O = ["-- GENERATED by tools/params_extract.py — do not edit.  The obligations of property C14 over the regenerated tables.",
         "import Amgcl.Generated.ParamsTableData",
         "import Amgcl.Model.RuntimeDispatch",
         "namespace Amgcl.Generated",
         "open Amgcl.Params",
         "",
         "/-- every regenerated `struct params` table satisfies the consistency predicate of `Amgcl/Model/PTree.lean` -/",
         "theorem all_tables_consistent : ∀ t ∈ paramTables, t.Consistent := by decide",
         "",
         "/-- every run-time enum: `parse (print e) = some e`, nothing outside the printed names parses, every enumerator",
         "has a case in every wrapper switch whose `default:` throws -/",
         "theorem enum_tables_roundtrip : ∀ E ∈ enumTables, E.Consistent := by decide",
         "",
         "/-- every `switch` of every run-time wrapper (constructor, destructor, apply_pre / apply_post / apply, operator(),",
         "bytes, …) names the SAME class in its case for an enumerator (`EnumTable.dispatch`, Amgcl/Properties/C14b.lean) -/",
         "theorem enum_switches_same_class : ∀ E ∈ enumTables, E.SameClass := by decide",
         "",
         "set_option maxRecDepth 65536 in",
         "/-- the expressions that decide which class a serial run-time wrapper builds are, as text, the expressions recorded",
         "in `Amgcl/Model/RuntimeDispatch.lean` (same keys, same order, same text) -/",
         "theorem dispatch_conditions_expected : Amgcl.Params.dispatchAgrees dispatchConditions Amgcl.Params.expectedDispatch = true := by decide +kernel",
         "",
         "end Amgcl.Generated", ""]
    return data, "\n".join(O)


def write_if_changed(path, txt):
    os.makedirs(os.path.dirname(path), exist_ok=True)
    if os.path.exists(path) and open(path).read() == txt: return
    with open(path + ".tmp", "w") as f: f.write(txt)
    os.replace(path + ".tmp", path)


def main():
    try:
        tables, enums = build(lambda m: False, "")
        tables_all, enums_all = build(lambda m: m.startswith("AMGCL_HAVE_"), "@all")
    except ParseError as e:
        print("params_extract: PARSE FAILURE (the tie between /repo and the Lean tables is broken):\n  " + str(e))
        return 2
    # the optional-feature configuration only matters where it changes a table
    key = lambda E: json.dumps({k: E[k] for k in ("values", "prints", "parses", "parse_throws")}, sort_keys=True) + \
        json.dumps([(s["cases"], s["must"], s.get("classes")) for s in E["switches"]])
    base_keys = {E["name"]: key(E) for E in enums}
    enums += [E for E in enums_all if base_keys.get(E["name"]) != key(E)]
    tkey = lambda R: json.dumps({k: R[k] for k in ("fields", "imports", "manual", "checks", "exports", "export_params", "derived_own")}, sort_keys=True)
    base_t = {R["name"]: tkey(R) for R in tables}
    for R in tables_all:
        if base_t.get(R["name"]) != tkey(R):
            print("params_extract: PARSE FAILURE: params table %s depends on AMGCL_HAVE_* macros (not modelled)" % R["name"])
            return 2
    try:
        dispatch = extract_dispatch()
    except ParseError as e:
        print("params_extract: PARSE FAILURE (dispatch conditions of the run-time wrappers):\n  " + str(e))
        return 2
    if "--print-dispatch" in sys.argv:
        for k, v in dispatch: print("  (%s, %s)," % (lean_str(k), lean_str(v)))
        return 0
    data, obl = emit(tables, enums, dispatch)
    write_if_changed(os.path.join(OUT_DIR, "ParamsTableData.lean"), data)
    write_if_changed(os.path.join(OUT_DIR, "ParamsTable.lean"), obl)
    bad = 0
    for R in tables:
        if R["name"] in EXCLUDED: continue
        for field, why in offenders(R):
            bad += 1
            print("INCONSISTENT struct=%s (%s:%d) field=%s : %s" % (R["name"], R["file"], R["line"], field, why))
    for E in enums:
        for val, why in enum_offenders(E):
            bad += 1
            print("INCONSISTENT enum=%s (%s) value=%s : %s" % (E["name"] + E["tag"], E["file"], val, why))
    print("params_extract: %d params tables (%d excluded: %s), %d enum tables from %s" % (
        len([R for R in tables if R["name"] not in EXCLUDED]), len(EXCLUDED), ", ".join(sorted(EXCLUDED)), len(enums), REPO))
    if bad:
        print("params_extract: %d inconsistencies — `all_tables_consistent` / `enum_tables_roundtrip` will not check" % bad)
        return 3
    return 0


if __name__ == "__main__":
    sys.exit(main())
