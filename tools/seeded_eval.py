#!/usr/bin/env python3
"""Run checks against a seeded change:  tools/seeded_eval.py seeded/<id> [--checks C01,C05] [--tier quick] [--seed 1]
The patch is applied to a scratch worktree of /repo's HEAD (never to /repo itself), the checks run with
AMGCL_REPO pointing at it, the worktree is removed afterwards.  Prints one line per check: DETECTED / MISSED."""
import sys, os, json, subprocess, argparse, tempfile, shutil
V = os.path.dirname(os.path.dirname(os.path.abspath(__file__)))
ap = argparse.ArgumentParser()
ap.add_argument("dir"); ap.add_argument("--checks"); ap.add_argument("--tier", default="quick"); ap.add_argument("--seed", default="1")
a = ap.parse_args()
d = os.path.abspath(a.dir)
meta = json.load(open(os.path.join(d, "meta.json")))
checks = a.checks.split(",") if a.checks else [meta["property"]]
wt = "/work/seeded-eval-%d" % os.getpid()
subprocess.check_call(["git", "-C", "/repo", "worktree", "add", "-q", "--detach", wt, "HEAD"])
try:
    r = subprocess.run(["git", "-C", wt, "apply", os.path.join(d, "patch.diff")], capture_output=True, text=True)
    if r.returncode != 0:
        print("PATCH-DOES-NOT-APPLY", r.stderr[-300:]); sys.exit(2)
    env = dict(os.environ); env["AMGCL_REPO"] = wt; env["VERIF_EVIDENCE_DIR"] = os.path.join(V, ".cache", "seeded_evidence")
    res = {}
    for c in checks:
        p = subprocess.run([sys.executable, os.path.join(V, "tools", "vcheck.py"), "check", c, "--tier", a.tier, "--seed", a.seed],
                           capture_output=True, text=True, env=env, cwd=V)
        viol = [l for l in p.stdout.split("\n") if l.startswith("VIOLATION")]
        res[c] = {"rc": p.returncode, "violations": viol[:3], "summary": [l for l in p.stdout.split("\n") if l.startswith("[")][-1:]}
        why = [l for l in p.stdout.split("\n") if l.startswith("# ")][:2]
        print("%s %s: %s %s" % ("DETECTED" if p.returncode != 0 else "MISSED", c, viol[0] if viol else "", why[0] if why else ""))
    json.dump(res, open(os.path.join(d, "eval_%s_seed%s.json" % (a.tier, a.seed)), "w"), indent=1)
finally:
    subprocess.call(["git", "-C", "/repo", "worktree", "remove", "--force", wt])
