#!/usr/bin/env python3
"""sync_skeleton.py — translator for C09 (DESIGN.md §2.4).

Extracts from $AMGCL_REPO (default /repo)
    amgcl/relaxation/gauss_seidel.hpp        gauss_seidel<B>::parallel_sweep<fwd>   (constructor step 3, sweep)
    amgcl/relaxation/detail/ilu_solve.hpp    ilu_solve<builtin>::sptr_solve<lower>  (constructor step 3, solve)
the loop/pragma skeleton of the level-scheduled kernels:
    run         the `#pragma omp parallel` region of sweep()/solve(): every pragma, every `for` header and every
                statement that stores into x[...] or mentions team / nlev / tasks[tid] (which task a thread of the
                actual team runs), each with its nesting depth (parallel region and loops nest)
    serialPred  the member initialiser that decides the serial fallback
    nthreads    the member initialiser that fixes the team size
    chunking    the `#pragma omp parallel` region of the constructor that pushes into tasks[tid]: pragma, the team
                stride and the loop over the virtual threads tid, loop header and the statements that define
                lev_size / chunk_size / beg / end / the pushed task
    fill        the other `#pragma omp parallel` region of the constructor (step 4, thread-local copies): pragma,
                team stride, loop over the virtual threads, task loop with the re-basing of t.beg/t.end
    teamSize    the body of team_size() (the stride of every tid loop: the size of the ACTUAL team)
    threadId    the body of thread_id() (the first virtual thread of a thread: its number in the team)
and writes lean/Amgcl/Generated/SyncSkeleton.lean with
    theorem gs_skeleton_ok  : gsExtracted  = Amgcl.Sched.gsExpectedSkeleton  := by decide
    theorem ilu_skeleton_ok : iluExtracted = Amgcl.Sched.iluExpectedSkeleton := by decide
A deleted or moved barrier, a changed chunk formula or fallback predicate makes the obligation fail (lake build error).
Anything this script cannot parse is a loud failure: exit status 1 AND a generated file whose obligation cannot be
discharged (so a stale file can never stand in).
"""
import os, re, sys

REPO = os.environ.get("AMGCL_REPO", "/repo")
VERIF = os.path.dirname(os.path.dirname(os.path.abspath(__file__)))
OUT = os.path.join(VERIF, "lean", "Amgcl", "Generated", "SyncSkeleton.lean")


class ParseError(Exception):
    pass


def strip_comments(src):
    src = re.sub(r"/\*.*?\*/", lambda m: re.sub(r"[^\n]", " ", m.group(0)), src, flags=re.S)
    return re.sub(r"//[^\n]*", "", src)


def norm(s):
    """canonical, whitespace-insensitive text: a blank survives only between two identifier characters"""
    s = re.sub(r"\s+", " ", s).strip()
    return re.sub(r"(?<![A-Za-z0-9_]) | (?![A-Za-z0-9_])", "", s)


def match_close(src, i, op, cl):
    """index of the bracket closing the one at src[i]"""
    assert src[i] == op
    depth = 0
    for k in range(i, len(src)):
        if src[k] == op: depth += 1
        elif src[k] == cl:
            depth -= 1
            if depth == 0: return k
    raise ParseError("unbalanced %s" % op)


def find_block(src, header_re, what, start=0):
    """body (without braces) of the first `{...}` following a match of header_re at/after start; returns (body, pos_after)"""
    m = re.compile(header_re, re.S).search(src, start)
    if not m: raise ParseError("cannot find " + what)
    i = src.index("{", m.end() - 1) if src[m.end() - 1] != "{" else m.end() - 1
    j = match_close(src, i, "{", "}")
    return src[i + 1:j], j + 1, m


# ---- a tiny statement parser: pragma lines, for/if/else, blocks, simple statements -------------------------------
def parse_stmts(src):
    """-> list of nodes: ('pragma', text) | ('for', header, [body]) | ('if', text_of_whole_statement, [stmts inside]) |
    ('block', [stmts]) | ('stmt', text)"""
    out, i, n = [], 0, len(src)
    while True:
        while i < n and src[i].isspace(): i += 1
        if i >= n: return out
        node, i = parse_stmt(src, i)
        if node is not None: out.append(node)


def parse_stmt(src, i):
    n = len(src)
    while i < n and src[i].isspace(): i += 1
    if i >= n: return None, i
    if src[i] == "#":
        j = src.find("\n", i); j = n if j < 0 else j
        return ("pragma", norm(src[i:j])), j
    if src[i] == "{":
        j = match_close(src, i, "{", "}")
        return ("block", parse_stmts(src[i + 1:j])), j + 1
    if src[i] == ";":
        return None, i + 1
    m = re.compile(r"(for|while|if)\s*\(").match(src, i)
    if m:
        p = src.index("(", m.start())
        q = match_close(src, p, "(", ")")
        kw = m.group(1)
        body, j = parse_stmt(src, q + 1)
        body = [] if body is None else [body]
        if kw == "if":
            k = j
            while k < n and src[k].isspace(): k += 1
            if src.startswith("else", k) and not (src[k + 4].isalnum() or src[k + 4] == "_"):
                eb, j = parse_stmt(src, k + 4)
                if eb is not None: body.append(eb)
            return ("if", norm(src[i:j]), body), j
        return ("for", norm(kw + src[p:q + 1]), body), j
    # simple statement up to the matching ';' (brackets balanced)
    depth = 0
    for k in range(i, n):
        if src[k] in "([{": depth += 1
        elif src[k] in ")]}": depth -= 1
        elif src[k] == ";" and depth == 0:
            return ("stmt", norm(src[i:k + 1])), k + 1
    raise ParseError("unterminated statement: " + src[i:i + 60])


STORE_X = re.compile(r"(?<![A-Za-z0-9_])x\s*\[[^\]]*\]\s*(?:[-+*/]?=)(?!=)")


def omp_regions(nodes):
    """pairs (pragma node, following block) for `#pragma omp parallel` at this level"""
    res = []
    for k, nd in enumerate(nodes):
        if nd[0] == "pragma" and re.match(r"#pragma omp parallel\b", nd[1]):
            if k + 1 >= len(nodes) or nodes[k + 1][0] != "block": raise ParseError("omp parallel without a block")
            res.append((nd, nodes[k + 1]))
    return res


def skeleton_lines(nodes, depth, keep_stmt):
    """flatten to (depth, text): pragmas, for headers, kept statements; loops and the parallel region nest"""
    out, k = [], 0
    while k < len(nodes):
        nd = nodes[k]
        if nd[0] == "pragma":
            out.append((depth, nd[1]))
            if re.match(r"#pragma omp parallel\b", nd[1]) and k + 1 < len(nodes) and nodes[k + 1][0] == "block":
                out += skeleton_lines(nodes[k + 1][1], depth + 1, keep_stmt); k += 1
        elif nd[0] == "for":
            inner = skeleton_lines(nd[2], depth + 1, keep_stmt)
            if inner: out.append((depth, nd[1])); out += inner        # loops without synchronisation-relevant content are dropped
        elif nd[0] == "block":
            out += skeleton_lines(nd[1], depth, keep_stmt)
        elif nd[0] == "if":
            if keep_stmt(nd[1]): out.append((depth, nd[1]))
            else: out += skeleton_lines(nd[2], depth, keep_stmt)
        elif nd[0] == "stmt":
            if keep_stmt(nd[1]): out.append((depth, nd[1]))
        k += 1
    return out


def extract(path, struct_re, struct_name, run_fn, serial_re):
    src = strip_comments(open(path).read())
    body, _, _ = find_block(src, struct_re, "struct " + struct_name)
    # constructor: `<struct_name>(const Matrix &A ...) : inits {`
    m = re.search(r"\b%s\s*\(\s*const\s+Matrix\s*&\s*A[^)]*\)\s*:(.*?)\{" % struct_name, body, re.S)
    if not m: raise ParseError("constructor of " + struct_name)
    inits = m.group(1)
    mi = re.search(r"\bnthreads\s*\([^()]*(?:\([^()]*\))?[^()]*\)", inits)
    if not mi: raise ParseError("nthreads initialiser of " + struct_name)
    nthreads = norm(mi.group(0))
    i = body.index("{", m.end() - 1); j = match_close(body, i, "{", "}")
    ctor = parse_stmts(body[i + 1:j])
    regs = [(p, b) for p, b in omp_regions(ctor) if re.search(r"tasks\s*\[\s*tid\s*\]\s*\.\s*push_back", flatten_text(b))]
    if len(regs) != 1: raise ParseError("expected exactly one parallel region pushing tasks in %s, found %d" % (struct_name, len(regs)))
    keep = lambda s: re.search(r"\b(lev_size|chunk_size|team)\b", s) is not None or re.match(r"(ptrdiff_t )?(beg|end)\+?=", s) is not None \
        or "tasks[tid].push_back" in s
    chunking = skeleton_lines([regs[0][0], regs[0][1]], 0, keep)
    # step 4 (the thread-local copies): the other parallel region of the constructor; its team loop
    regs4 = [(p, b) for p, b in omp_regions(ctor) if re.search(r"ptr\s*\[\s*tid\s*\]\s*\.\s*push_back\s*\(\s*0\s*\)", flatten_text(b))]
    if len(regs4) != 1: raise ParseError("expected exactly one parallel region filling ptr[tid] in %s, found %d" % (struct_name, len(regs4)))
    keep4 = lambda s: re.search(r"\bteam\b", s) is not None or s == "ptr[tid].push_back(0);" or re.match(r"t\.(beg|end)=", s) is not None
    fill = skeleton_lines([regs4[0][0], regs4[0][1]], 0, keep4)
    if len(omp_regions(ctor)) != 2: raise ParseError("expected exactly two parallel regions in the constructor of %s" % struct_name)
    # run function
    m = re.search(r"\bvoid\s+%s\s*\([^)]*\)\s*(const)?\s*\{" % run_fn, body)
    if not m: raise ParseError("%s::%s" % (struct_name, run_fn))
    i = m.end() - 1; j = match_close(body, i, "{", "}")
    fn = parse_stmts(body[i + 1:j])
    regs = omp_regions(fn)
    if len(regs) != 1: raise ParseError("expected exactly one parallel region in %s::%s" % (struct_name, run_fn))
    run = skeleton_lines(fn, 0, lambda s: STORE_X.search(s) is not None or re.search(r"\b(team|nlev)\b|tasks\[tid\]", s) is not None)
    # team_size(): what the stride of the tid loops is
    mt = re.search(r"\bstatic\s+int\s+team_size\s*\(\s*\)\s*\{", src)
    if not mt: raise ParseError("team_size() near " + struct_name)
    i = mt.end() - 1; j = match_close(src, i, "{", "}")
    team_size = norm(src[i + 1:j])
    mt = re.search(r"\bstatic\s+int\s+thread_id\s*\(\s*\)\s*\{", src)
    if not mt: raise ParseError("thread_id() near " + struct_name)
    i = mt.end() - 1; j = match_close(src, i, "{", "}")
    thread_id = norm(src[i + 1:j])
    # serial fallback predicate (in the enclosing class)
    ms = re.search(serial_re, src, re.S)
    if not ms: raise ParseError("serial fallback predicate near " + struct_name)
    return {"run": run, "serialPred": norm(ms.group(1)), "nthreads": nthreads, "chunking": chunking, "fill": fill, "teamSize": team_size, "threadId": thread_id}


def flatten_text(node):
    if node[0] in ("pragma", "stmt"): return node[1]
    if node[0] == "block": return " ".join(flatten_text(x) for x in node[1])
    if node[0] == "for": return node[1] + " " + " ".join(flatten_text(x) for x in node[2])
    if node[0] == "if": return node[1]
    return ""


def lean_str(s):
    return '"' + s.replace("\\", "\\\\").replace('"', '\\"') + '"'


def lean_skel(name, sk):
    def lst(ls): return "[" + ",\n     ".join("(%d, %s)" % (d, lean_str(t)) for d, t in ls) + "]"
    return ("def %s : Amgcl.Sched.Skeleton where\n  run :=\n    %s\n  serialPred := %s\n  nthreads := %s\n  chunking :=\n    %s\n  fill :=\n    %s\n  teamSize := %s\n  threadId := %s\n"
            % (name, lst(sk["run"]), lean_str(sk["serialPred"]), lean_str(sk["nthreads"]), lst(sk["chunking"]), lst(sk["fill"]), lean_str(sk["teamSize"]), lean_str(sk["threadId"])))


HEADER = """-- GENERATED by tools/sync_skeleton.py from $AMGCL_REPO/amgcl/relaxation/{gauss_seidel.hpp,detail/ilu_solve.hpp}%s — do not edit; regenerated on every run
import Amgcl.Model.Schedule
/-! Loop/pragma skeleton of the level-scheduled kernels as found in the sources, and the obligation that it is the
skeleton the C09 theorems are about (`Amgcl.Sched.gsExpectedSkeleton`, `iluExpectedSkeleton`). -/
namespace Amgcl.Generated.SyncSkeleton
"""


def main():
    os.makedirs(os.path.dirname(OUT), exist_ok=True)
    gs_path = os.path.join(REPO, "amgcl", "relaxation", "gauss_seidel.hpp")
    ilu_path = os.path.join(REPO, "amgcl", "relaxation", "detail", "ilu_solve.hpp")
    try:
        gs = extract(gs_path, r"\bstruct\s+parallel_sweep\s*\{", "parallel_sweep", "sweep",
                     r":\s*(is_serial\s*\([^{;]*?\))\s*\{")
        ilu = extract(ilu_path, r"\bstruct\s+sptr_solve\s*\{", "sptr_solve", "solve",
                      r"params\s*\(\s*\)\s*:\s*(serial\s*\([^{;]*?\))\s*\{")
    except (ParseError, OSError, ValueError) as e:
        with open(OUT, "w") as f:
            f.write(HEADER % "")
            f.write("\n-- PARSE FAILURE: %s\n" % str(e).replace("\n", " "))
            f.write("/-- the sources could not be parsed: this obligation is deliberately not dischargeable -/\n")
            f.write("theorem gs_skeleton_ok : (0 : Nat) = 1 := by decide\n")
            f.write("theorem ilu_skeleton_ok : (0 : Nat) = 1 := by decide\n")
            f.write("end Amgcl.Generated.SyncSkeleton\n")
        print("sync_skeleton: PARSE FAILURE: %s" % e)
        return 1
    txt = HEADER % ""
    txt += "\n" + lean_skel("gsExtracted", gs) + "\n" + lean_skel("iluExtracted", ilu) + "\n"
    txt += "theorem gs_skeleton_ok : gsExtracted = Amgcl.Sched.gsExpectedSkeleton := by decide\n"
    txt += "theorem ilu_skeleton_ok : iluExtracted = Amgcl.Sched.iluExpectedSkeleton := by decide\n\n"
    txt += "/-- both kernels synchronise after every level -/\n"
    txt += "theorem skeleton_ok : gsExtracted = Amgcl.Sched.gsExpectedSkeleton ∧ iluExtracted = Amgcl.Sched.iluExpectedSkeleton :=\n  ⟨gs_skeleton_ok, ilu_skeleton_ok⟩\n"
    txt += "end Amgcl.Generated.SyncSkeleton\n"
    if not os.path.exists(OUT) or open(OUT).read() != txt:
        with open(OUT, "w") as f: f.write(txt)
    print("sync_skeleton: extracted %d+%d run lines, %d+%d chunking lines from %s" %
          (len(gs["run"]), len(ilu["run"]), len(gs["chunking"]), len(ilu["chunking"]), REPO))
    return 0


if __name__ == "__main__":
    sys.exit(main())
