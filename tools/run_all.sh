#!/bin/bash
# run every claimed check once (tier/seed from env), print one summary line per check
cd "$(dirname "$0")/.."
for c in $(python3 -c "import json;print(' '.join(x['property_id'] for x in json.load(open('MANIFEST.json'))['checks']))"); do
  out=$(python3 tools/vcheck.py check $c --tier ${VERIF_TIER:-quick} --seed ${VERIF_SEED:-1} 2>&1); rc=$?
  echo "rc=$rc $(echo "$out" | grep '^\[' | tail -1)"; echo "$out" | grep -E "^VIOLATION|^KNOWN-FINDING" | cut -c1-160
done
