#!/usr/bin/env python3
"""Which lines of /repo's library does the correspondence actually execute?

For every harness registered in tools/checks/*.json: compile it from /repo's working tree with gcov
instrumentation (no sanitizers, -O1), run it at the quick tier (seed 1), collect gcov's JSON for every header under
/repo/amgcl and /repo/lib, and merge.  Output: coverage/summary.json (per file: executable lines that gcov saw in at
least one instantiation, lines executed, never-executed line ranges) and coverage/summary.md.

This is NOT a verification result; it measures the reach of the differential tie between the Lean models and the
code (DESIGN.md section 8.7): a line that no harness executes is a line whose behaviour is tied to no model.  A
function template that is never instantiated by any harness has no executable lines for gcov at all; those show up
through the 'code lines' column (non-blank, non-comment lines of the file), which is an upper bound.

usage: tools/coverage.py [--jobs N] [--only h_name,...] [--tier quick]
"""
import sys, os, json, glob, subprocess, shutil, gzip, re, argparse, time
from concurrent.futures import ThreadPoolExecutor

VERIF = os.path.dirname(os.path.dirname(os.path.abspath(__file__)))
REPO = os.environ.get("AMGCL_REPO", "/repo")
WORK = os.path.join(VERIF, ".cache", "cov")
OUT = os.path.join(VERIF, "coverage")


def harnesses():
    seen = {}
    for p in sorted(glob.glob(os.path.join(VERIF, "tools", "checks", "C*.json"))):
        c = json.load(open(p))
        for h in c["harnesses"]:
            e = seen.setdefault(h["name"], dict(h, props=[]))
            e["props"].append(c["id"])
    return seen


def sh(cmd, cwd=None, env=None, timeout=None):
    p = subprocess.run(cmd, cwd=cwd, env=env, stdout=subprocess.PIPE, stderr=subprocess.STDOUT, timeout=timeout)
    return p.returncode, p.stdout.decode(errors="replace")


def one(h, tier):
    name = h["name"]
    d = os.path.join(WORK, name)
    shutil.rmtree(d, ignore_errors=True); os.makedirs(d)
    cxx = ["mpicxx" if h.get("mpi") else "g++", "-std=c++17", "-O1", "-fno-inline", "-g", "-fopenmp", "-DAMGCL_VERIF", "--coverage",
           "-fprofile-update=atomic"]
    flags = [f for f in h.get("flags", []) if f not in ("-O2",)]
    if "__sanitizer_" in open(os.path.join(VERIF, h["src"])).read() or "__lsan_" in open(os.path.join(VERIF, h["src"])).read():
        flags = flags + ["-fsanitize=address"]      # the harness calls the sanitizer interface itself
    src = os.path.join(VERIF, h["src"])
    exe = os.path.join(d, "exe")
    cmd = cxx + flags + ["-I" + REPO, "-I" + os.path.join(VERIF, "harness"), src, "-o", exe] + h.get("extra_src", []) + \
        ["-lgmpxx", "-lgmp"] + h.get("libs", [])
    t0 = time.time()
    rc, out = sh(cmd, cwd=d, timeout=3600)
    if rc != 0:
        return name, None, "compile failed: " + out[-1500:]
    env = dict(os.environ); env.setdefault("OMP_NUM_THREADS", str(h.get("threads", 1)))
    outdir = os.path.join(d, "run"); os.makedirs(outdir, exist_ok=True)
    run = list(h.get("launcher", [])) + [exe, "--seed", "1", "--tier", tier, "--out", outdir]
    try:
        rc, out = sh(run, cwd=d, env=env, timeout=h.get("timeout_quick", 600) * 6)
    except subprocess.TimeoutExpired:
        out = "timeout (partial counts are still flushed only at exit: none)"; rc = -1
    note = "" if rc == 0 else "run rc=%s %s" % (rc, out[-300:])
    # gcov json
    gcda = glob.glob(os.path.join(d, "*.gcda"))
    if not gcda:
        return name, None, "no .gcda written; " + note
    rc, out = sh(["gcov", "--json-format", "-b"] + [os.path.basename(g) for g in gcda], cwd=d, timeout=1800)
    files = {}
    for gz in glob.glob(os.path.join(d, "*.gcov.json.gz")):
        data = json.load(gzip.open(gz))
        for f in data.get("files", []):
            fn = os.path.normpath(f["file"])
            if not fn.startswith(REPO + "/"): continue
            rel = os.path.relpath(fn, REPO)
            if not (rel.startswith("amgcl/") or rel.startswith("lib/")): continue
            m = files.setdefault(rel, {})
            for l in f["lines"]:
                ln = l["line_number"]
                m[ln] = m.get(ln, 0) + l["count"]
    for g in glob.glob(os.path.join(d, "*.gc*")) + [exe]:
        try: os.remove(g)
        except OSError: pass
    shutil.rmtree(outdir, ignore_errors=True)
    return name, files, note + " (%.0fs)" % (time.time() - t0)


def code_lines(path):
    """non-blank, non-comment lines (upper bound on executable text; includes declarations)"""
    n = 0; inblock = False
    for l in open(path, errors="replace"):
        s = l.strip()
        if inblock:
            if "*/" in s: inblock = False
            continue
        if s.startswith("/*"):
            if "*/" not in s: inblock = True
            continue
        if not s or s.startswith("//") or s.startswith("#") or s in ("{", "}", "};"): continue
        n += 1
    return n


def ranges(nums):
    out = []; nums = sorted(nums)
    for n in nums:
        if out and n == out[-1][1] + 1: out[-1][1] = n
        else: out.append([n, n])
    return ["%d" % a if a == b else "%d-%d" % (a, b) for a, b in out]


def main():
    ap = argparse.ArgumentParser()
    ap.add_argument("--jobs", type=int, default=4)
    ap.add_argument("--only", default="")
    ap.add_argument("--tier", default="quick")
    a = ap.parse_args()
    hs = harnesses()
    if a.only: hs = {k: v for k, v in hs.items() if k in a.only.split(",")}
    os.makedirs(WORK, exist_ok=True); os.makedirs(OUT, exist_ok=True)
    merged, per_h, notes = {}, {}, {}
    with ThreadPoolExecutor(a.jobs) as ex:
        for name, files, note in ex.map(lambda h: one(h, a.tier), hs.values()):
            notes[name] = note
            print("[cov] %-20s %s" % (name, note if files is None else "%d files %s" % (len(files), note)), flush=True)
            if files is None: continue
            per_h[name] = {f: sum(1 for c in m.values() if c > 0) for f, m in files.items()}
            for f, m in files.items():
                mm = merged.setdefault(f, {})
                for ln, c in m.items(): mm[ln] = mm.get(ln, 0) + c
    summary = {"repo": REPO, "tier": a.tier, "harness_notes": notes, "files": {}}
    allfiles = sorted(set(merged) | {os.path.relpath(p, REPO) for p in glob.glob(os.path.join(REPO, "amgcl", "**", "*.hpp"), recursive=True)}
                      | {"lib/amgcl.cpp"})
    for f in allfiles:
        m = merged.get(f, {})
        inst = len(m); hit = sum(1 for c in m.values() if c > 0)
        summary["files"][f] = {
            "code_lines": code_lines(os.path.join(REPO, f)) if os.path.exists(os.path.join(REPO, f)) else 0,
            "instantiated_lines": inst, "executed_lines": hit,
            "never_executed": ranges([ln for ln, c in m.items() if c == 0]),
            "harnesses": sorted(h for h, d in per_h.items() if d.get(f)),
        }
    json.dump(summary, open(os.path.join(OUT, "summary.json"), "w"), indent=1, sort_keys=True)
    with open(os.path.join(OUT, "summary.md"), "w") as md:
        md.write("# Lines of the library executed by the correspondence harnesses (%s tier, seed 1)\n\n" % a.tier)
        md.write("| file | code lines | instantiated | executed | never executed (instantiated) |\n|---|---|---|---|---|\n")
        for f, s in summary["files"].items():
            md.write("| %s | %d | %d | %d | %s |\n" % (f, s["code_lines"], s["instantiated_lines"], s["executed_lines"],
                                                    " ".join(s["never_executed"])[:160]))
    print("[cov] wrote coverage/summary.json, coverage/summary.md")


if __name__ == "__main__":
    main()
