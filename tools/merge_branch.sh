#!/bin/bash
# merge an agent branch into main; generated files (DriverMain.lean, MANIFEST.json) are regenerated, known_findings.json keeps main's
set -e
cd "$(dirname "$0")/.."
git merge --no-edit "$1" || true
for f in $(git status --short | grep -E "^UU tools/checks/" | cut -c4-); do python3 tools/merge_check_json.py $f && git add $f; done
if git status --short | grep -qE "^UU DESIGN.md"; then sed -i "/^<<<<<<< HEAD$/d; /^=======$/d; /^>>>>>>> wip\\//d" DESIGN.md; git add DESIGN.md; fi
for f in MANIFEST.json lean/DriverMain.lean known_findings.json $(git status --short | grep -E "^(UU|AA) evidence/" | cut -c4-); do
  if git status --short | grep -qE "^(UU|AA) $f"; then git checkout --ours $f; git add $f; fi
done
if git status --short | grep -qE "^(UU|AA|DU|UD)"; then echo "UNRESOLVED:"; git status --short | grep -E "^(UU|AA|DU|UD)"; exit 1; fi
python3 -c "import sys; sys.path.insert(0,'tools'); import vcheck; vcheck.gen_driver_main()"
python3 tools/gen_manifest.py
git add -A; git commit -qm "merge $1" || true
