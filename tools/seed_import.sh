#!/bin/bash
# import a seeded change delivered by a seeding agent: seed_import.sh <src dir with patch.diff demo.cpp meta.json> <seeded id, e.g. C08-7> [checks]
# verifies the demonstration (clean: pass, patched: fail) and evaluates the registered check(s) against it on a scratch worktree
set -u; cd "$(dirname "$0")/.."
SRC=$1; ID=$2; CHECKS=${3:-}
mkdir -p seeded/$ID && cp $SRC/patch.diff $SRC/demo.cpp $SRC/meta.json seeded/$ID/ || exit 2
echo "== $ID verify: $(bash tools/seeded_verify.sh seeded/$ID 2>&1 | tail -1)"
if [ -n "$CHECKS" ]; then python3 tools/seeded_eval.py seeded/$ID --checks $CHECKS 2>&1 | tail -4; else python3 tools/seeded_eval.py seeded/$ID 2>&1 | tail -2; fi
