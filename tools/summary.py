#!/usr/bin/env python3
"""Print a markdown status table: per property the Lean modules, number of theorems, harnesses, level; and the
seeded-change evaluation results found under seeded/*/eval_*.json."""
import json, glob, os, re, sys
V = os.path.dirname(os.path.dirname(os.path.abspath(__file__)))
sys.path.insert(0, os.path.join(V, "tools"))
import vcheck
rows = []
for p in sorted(glob.glob(os.path.join(V, "tools", "checks", "C*.json"))):
    c = json.load(open(p))
    n = 0
    for m in c.get("lean_modules", []):
        f = os.path.join(V, "lean", m.replace(".", "/") + ".lean")
        if ".Properties." in m and os.path.exists(f): n += len(vcheck.theorems_of(f))
    n += len(c.get("extra_obligations", []))
    rows.append((c["id"], c.get("level", ""), n, ", ".join(h["name"] for h in c.get("harnesses", [])), ", ".join(m.split(".")[-1] for m in c.get("lean_modules", []))))
print("| id | level | theorems | property files | harnesses |\n|---|---|---|---|---|")
for r in rows: print("| %s | %s | %d | %s | %s |" % (r[0], r[1], r[2], r[4], r[3]))
print()
print("| seeded change | breaks | needs | detected by | missed by (before strengthening) |\n|---|---|---|---|---|")
for d in sorted(glob.glob(os.path.join(V, "seeded", "*"))):
    if not os.path.exists(os.path.join(d, "meta.json")): continue
    m = json.load(open(os.path.join(d, "meta.json")))
    det, mis = set(), set()
    for e in glob.glob(os.path.join(d, "eval_*.json")):
        for k, v in json.load(open(e)).items(): (det if v["rc"] != 0 else mis).add(k)
    print("| %s | %s | %s | %s | %s |" % (os.path.basename(d), m.get("property", ""), (m.get("needs", "") or "")[:140].replace("|", "/").replace("\n", " "), ", ".join(sorted(det)), m.get("missed_first", "")))
