#!/usr/bin/env python3
"""capi_extract.py — translator for property C20 (DESIGN.md §2.4): the entry points of the C interface as a table.

Regenerates, from $AMGCL_REPO/lib/amgcl.cpp and $AMGCL_REPO/lib/amgcl.h (default /repo),

  lean/Amgcl/Generated/CApiTableData.lean   def capiTable : Amgcl.CApi.Table   (data only; imported by the model driver)
  lean/Amgcl/Generated/CApiTable.lean       theorem capi_table_consistent : capiTable.Consistent := by decide

How: `g++ -E` of lib/amgcl.cpp (so that macros such as STDCALL and conditional compilation are what the compiler
sees), keeping the lines that come from the two files; a tokenizer; a top-level parser (typedefs, `struct conv_info`,
`extern "C"` declarations of the header, function definitions); a small C++ statement / expression parser for the
function bodies; and a SYMBOLIC EVALUATOR that runs every body on symbolic parameters: locals are substituted,
pointer arithmetic is collected into `base parameter, transform amount, offset`, offsets into linear forms over
`n`, `obj->size()`, `rows(obj->system_matrix())` and raw dereferences `p[i]`.  The result is classified into one of
the `Body` normal forms of lean/Amgcl/Model/CApiTable.lean.  So whitespace, comments, the order of the functions,
the names of locals and parameters, an extra temporary, `T const*` vs `const T*` do not change the table, while an
offset, a range end, a transform lambda, a cast target, a callee, the order of the arguments or the way the result
struct is filled do.

Strictness: EVERY function declared in lib/amgcl.h or defined in lib/amgcl.cpp is an entry point that must be
translated.  Anything the parser / evaluator / classifier does not recognise is an error naming the function
(exit status 2, the generated files are left as they are, vcheck.py reports the translator obligation as not
discharged) — nothing is skipped.

Cross-check (when clang++-14 is installed; CAPI_EXTRACT_NO_CLANG=1 disables it, loudly): `clang++-14 -Xclang
-ast-dump=json -Xclang -ast-dump-filter=amgcl_` of the same file; for every function the parameter list, the
`static_cast` / `new` / `delete` types, the member functions called, the arity of `operator()`, the free functions
called and the (operator, literal) of every lambda are compared with what the text parser saw (exit status 2 on a
difference), and the desugared class types with the typedef resolution done here.

If the table is extracted but violates `Table.Consistent` (mirrored below only to NAME the offending entry point —
the authority is the Lean `decide`), the files are still written and the offenders printed; exit status 3.

Python 3 standard library only.
"""
import os, re, sys, json, subprocess, shutil

REPO = os.environ.get("AMGCL_REPO", "/repo")
VERIF = os.path.dirname(os.path.dirname(os.path.abspath(__file__)))
OUT_DIR = os.path.join(VERIF, "lean", "Amgcl", "Generated")
SRC_CPP = os.path.join(REPO, "lib", "amgcl.cpp")
SRC_H = os.path.join(REPO, "lib", "amgcl.h")


class ExtractError(Exception):
    pass


def fail(where, msg):
    raise ExtractError("%s: %s" % (where, msg))


# ------------------------------------------------------------------------------------------------ preprocessing
def preprocess():
    """returns [(file, line, text)] for the lines of lib/amgcl.cpp and lib/amgcl.h after the C preprocessor"""
    cmd = ["g++", "-E", "-std=c++17", "-DAMGCL_VERIF", "-I" + REPO, SRC_CPP]
    p = subprocess.run(cmd, stdout=subprocess.PIPE, stderr=subprocess.PIPE, text=True, errors="replace")
    if p.returncode != 0:
        fail("g++ -E", "preprocessing lib/amgcl.cpp failed:\n" + p.stderr[-1500:])
    keep = {os.path.realpath(SRC_CPP): "lib/amgcl.cpp", os.path.realpath(SRC_H): "lib/amgcl.h"}
    out, cur, line = [], None, 0
    for raw in p.stdout.split("\n"):
        m = re.match(r'#\s*(\d+)\s+"([^"]*)"', raw)
        if m:
            line = int(m.group(1)); f = m.group(2)
            cur = keep.get(os.path.realpath(f)) if not f.startswith("<") else None
            continue
        if raw.startswith("#"):           # #pragma etc.
            line += 1; continue
        if cur: out.append((cur, line, raw))
        line += 1
    if not any(f == "lib/amgcl.cpp" for f, _, _ in out) or not any(f == "lib/amgcl.h" for f, _, _ in out):
        fail("g++ -E", "no text of lib/amgcl.cpp / lib/amgcl.h in the preprocessor output")
    return out


# ------------------------------------------------------------------------------------------------ tokens
TOK_RE = re.compile(r"""
    (?P<ws>\s+) | (?P<lc>//[^\n]*) | (?P<bc>/\*.*?\*/) |
    (?P<str>"(?:\\.|[^"\\])*") | (?P<chr>'(?:\\.|[^'\\])*') |
    (?P<num>\d[\w.]*) | (?P<id>[A-Za-z_]\w*) |
    (?P<op>::|->|<<|>>|==|!=|<=|>=|&&|\|\||\+\+|--|\+=|-=|\*=|/=|[-+*/%<>=!&|^~?:;,.(){}\[\]])
""", re.X | re.S)


class Tok:
    __slots__ = ("kind", "text", "file", "line")
    def __init__(self, kind, text, file, line): self.kind, self.text, self.file, self.line = kind, text, file, line
    def __repr__(self): return "%s@%s:%d" % (self.text, self.file, self.line)


def tokenize(lines):
    toks = []
    # block comments were removed by the preprocessor; tokenise line by line to keep positions
    for f, ln, text in lines:
        pos = 0
        while pos < len(text):
            m = TOK_RE.match(text, pos)
            if not m: fail("%s:%d" % (f, ln), "cannot tokenise: %r" % text[pos:pos + 40])
            pos = m.end()
            k = m.lastgroup
            if k in ("ws", "lc", "bc"): continue
            toks.append(Tok(k, m.group(), f, ln))
    return toks


# ------------------------------------------------------------------------------------------------ parser
class Parser:
    """recursive descent over a token list; AST nodes are tuples"""
    def __init__(self, toks, where):
        self.t, self.i, self.where = toks, 0, where

    def peek(self, k=0):
        j = self.i + k
        return self.t[j].text if j < len(self.t) else None

    def kind(self, k=0):
        j = self.i + k
        return self.t[j].kind if j < len(self.t) else None

    def here(self):
        if self.i < len(self.t): return "%s:%d" % (self.t[self.i].file, self.t[self.i].line)
        return self.where

    def err(self, msg):
        ctx = " ".join(x.text for x in self.t[max(0, self.i - 6):self.i + 8])
        fail(self.where, "%s at %s near `%s`" % (msg, self.here(), ctx))

    def eat(self, text=None):
        if self.i >= len(self.t): self.err("unexpected end")
        tk = self.t[self.i]
        if text is not None and tk.text != text: self.err("expected `%s`, found `%s`" % (text, tk.text))
        self.i += 1
        return tk

    def accept(self, text):
        if self.peek() == text: self.i += 1; return True
        return False

    # ---- names and types
    def template_close(self, j):
        """t[j] is `<`: index just behind the matching `>` if the bracket sequence looks like template arguments"""
        depth, k = 0, j
        while k < len(self.t):
            x = self.t[k].text
            if x == "<": depth += 1
            elif x == ">":
                depth -= 1
                if depth == 0: return k + 1
            elif x == ">>":
                if depth >= 2:
                    depth -= 2
                    if depth == 0: return k + 1
                else: return None
            elif x in (";", "{", "}", "<<", "=", "&&", "||"): return None
            elif x == "(":
                d2 = 0
                while k < len(self.t):
                    if self.t[k].text == "(": d2 += 1
                    elif self.t[k].text == ")":
                        d2 -= 1
                        if d2 == 0: break
                    k += 1
            elif x == ")": return None
            k += 1
        return None

    def qualified_name(self):
        """id (<targs>)? (:: id (<targs>)?)*  ->  canonical spelling without blanks"""
        parts = []
        if self.peek() == "::": self.eat(); parts.append("::")
        while True:
            if self.kind() != "id": self.err("identifier expected")
            s = self.eat().text
            if self.peek() == "<":
                end = self.template_close(self.i)
                if end is not None:
                    s += self.spell_targs(self.i, end)
                    self.i = end
            parts.append(s)
            if self.peek() == "::" and self.kind(1) == "id":
                self.eat(); parts.append("::"); continue
            break
        return "".join(parts)

    def spell_targs(self, a, b):
        out = []
        for x in self.t[a:b]:
            tx = x.text
            if tx == ">>": tx = ">>"
            if out and out[-1][-1:].isalnum() and tx[:1].isalnum(): out.append(" ")
            out.append(tx)
        return "".join(out)

    CV = ("const", "volatile")
    BUILTIN = ("unsigned", "signed", "long", "short", "int", "char", "double", "float", "void", "bool", "auto")

    def try_type(self):
        """a type at the cursor?  returns (spelling, end index) or None; does not move"""
        save = self.i
        try:
            ty = self.type_()
            end = self.i
            return ty, end
        except ExtractError:
            return None
        finally:
            self.i = save

    def type_(self):
        """(const)? (struct)? name (const)? (* const? | &)*   -> canonical 'const? name *...' spelling"""
        const = False
        while self.peek() in self.CV + ("struct", "typename", "static", "inline", "extern"):
            if self.eat().text == "const": const = True
        if self.peek() in self.BUILTIN:
            words = []
            while self.peek() in self.BUILTIN: words.append(self.eat().text)
            name = " ".join(words)
        else:
            name = self.qualified_name()
        while self.peek() in self.CV:
            if self.eat().text == "const": const = True
        s = ("const " if const else "") + name
        while self.peek() in ("*", "&"):
            s += " " + self.eat().text
            while self.peek() in self.CV:
                self.eat(); s += " const"
        return s

    # ---- expressions
    def expr(self): return self.assign()

    def assign(self):
        lhs = self.shift()
        if self.peek() == "=":
            self.eat(); rhs = self.assign()
            return ("assign", lhs, rhs)
        if self.peek() in ("+=", "-=", "*=", "/=", "?"): self.err("operator `%s` is not supported" % self.peek())
        return lhs

    def shift(self):
        e = self.additive()
        while self.peek() in ("<<",):
            self.eat(); r = self.additive()
            e = ("bin", "<<", e, r)
        if self.peek() in ("<", ">", "==", "!=", "<=", ">=", "&&", "||", ">>", "&", "|", "^"):
            self.err("operator `%s` is not supported" % self.peek())
        return e

    def additive(self):
        e = self.mult()
        while self.peek() in ("+", "-"):
            op = self.eat().text; r = self.mult()
            e = ("bin", op, e, r)
        return e

    def mult(self):
        e = self.unary()
        while self.peek() in ("*", "/", "%"):
            op = self.eat().text; r = self.unary()
            e = ("bin", op, e, r)
        return e

    def unary(self):
        p = self.peek()
        if p in ("*", "&", "-", "+", "!"):
            self.eat(); return ("unary", p, self.unary())
        if p in ("++", "--"): self.err("operator `%s` is not supported" % p)
        if p == "new":
            self.eat(); ty = self.type_(); args = []
            if self.peek() == "(": args = self.call_args()
            elif self.peek() == "[": self.err("array new is not supported")
            return ("new", ty, args)
        if p == "delete":
            self.eat()
            if self.peek() == "[": self.err("array delete is not supported")
            return ("delete", self.unary())
        return self.postfix()

    def call_args(self):
        self.eat("("); args = []
        if self.peek() != ")":
            while True:
                args.append(self.assign())
                if not self.accept(","): break
        self.eat(")")
        return args

    def postfix(self):
        e = self.primary()
        while True:
            p = self.peek()
            if p == "(": e = ("call", e, self.call_args())
            elif p == "[":
                self.eat(); ix = self.expr(); self.eat("]"); e = ("index", e, ix)
            elif p in (".", "->"):
                self.eat()
                if self.kind() != "id": self.err("member name expected")
                e = ("member", e, p, self.eat().text)
            elif p in ("++", "--"): self.err("operator `%s` is not supported" % p)
            else: return e

    CASTS = ("static_cast", "reinterpret_cast", "const_cast", "dynamic_cast")

    def primary(self):
        p, k = self.peek(), self.kind()
        if p == "(":
            self.eat(); e = self.expr(); self.eat(")"); return ("paren", e)
        if k == "num":
            tx = self.eat().text
            if not re.fullmatch(r"\d+[uUlL]*", tx): self.err("numeric literal `%s` is not supported" % tx)
            return ("int", int(re.match(r"\d+", tx).group()))
        if k == "str": return ("str", self.eat().text)
        if p == "[": return self.lambda_()
        if p in self.CASTS:
            kindc = self.eat().text; self.eat("<"); ty = self.type_(); self.eat(">")
            self.eat("("); e = self.expr(); self.eat(")")
            return ("cast", kindc, ty, e)
        if k == "id" or p == "::":
            return ("name", self.qualified_name())
        self.err("expression expected")

    def lambda_(self):
        self.eat("[")
        if self.peek() != "]": self.err("lambda with captures is not supported")
        self.eat("]")
        params = self.param_list()
        if self.peek() == "->": self.err("lambda with a trailing return type is not supported")
        body = self.block()
        return ("lambda", params, body)

    def param_list(self):
        self.eat("("); ps = []
        if self.peek() == "void" and self.peek(1) == ")": self.eat()
        if self.peek() != ")":
            while True:
                ty = self.type_()
                name = self.eat().text if self.kind() == "id" else ""
                if self.peek() == "=": self.err("default arguments are not supported")
                ps.append((name, ty))
                if not self.accept(","): break
        self.eat(")")
        return ps

    # ---- statements
    def block(self):
        self.eat("{"); ss = []
        while self.peek() != "}": ss.append(self.stmt())
        self.eat("}")
        return ss

    def stmt(self):
        p = self.peek()
        line = self.t[self.i].line if self.i < len(self.t) else 0
        if p == "{": return ("block", self.block(), line)
        if p == ";": self.eat(); return ("empty", line)
        if p == "return":
            self.eat()
            e = None if self.peek() == ";" else self.expr()
            self.eat(";"); return ("return", e, line)
        if p == "if":
            self.eat(); self.eat("("); c = self.expr(); self.eat(")")
            a = self.stmt(); b = None
            if self.accept("else"): b = self.stmt()
            return ("if", c, a, b, line)
        if p in ("for", "while", "do", "switch", "goto", "try", "throw", "break", "continue", "using", "typedef"):
            self.err("statement `%s` is not supported" % p)
        # declaration?
        if self.kind() == "id" and p not in self.CASTS and p not in ("new", "delete"):
            tt = self.try_type()
            if tt is not None:
                ty, end = tt
                if end < len(self.t) and self.t[end].kind == "id" and end + 1 < len(self.t) and self.t[end + 1].text in ("=", ";", "(", "{"):
                    self.i = end
                    name = self.eat().text
                    init = None
                    if self.accept("="): init = self.expr()
                    elif self.peek() == "(":
                        args = self.call_args()
                        if len(args) != 1: self.err("direct initialisation with %d arguments is not supported" % len(args))
                        init = args[0]
                    elif self.peek() == "{": self.err("brace initialisation is not supported")
                    self.eat(";")
                    return ("decl", ty, name, init, line)
        e = self.expr(); self.eat(";")
        return ("expr", e, line)


# ------------------------------------------------------------------------------------------------ top level
class Source:
    def __init__(self):
        self.typedefs = {}        # alias -> spelling
        self.structs = {}         # name -> [(field, type)]
        self.decls = {}           # name -> (ret, [(pname, type)], externC, file, line)     from the header
        self.defs = {}            # name -> (ret, [(pname, type)], body tokens, file, line, is_static)
        self.order = []


def parse_top(toks):
    S = Source()
    P = Parser(toks, "top level")
    externc = []      # stack of booleans for open braces at top level
    while P.i < len(toks):
        p = P.peek()
        if p == "extern" and P.kind(1) == "str":
            if P.t[P.i + 1].text != '"C"': P.err("linkage %s is not supported" % P.t[P.i + 1].text)
            P.eat(); P.eat()
            if P.accept("{"): externc.append(True)
            else: P.err('`extern "C"` without a block is not supported')
            continue
        if p == "}":
            if not externc: P.err("unbalanced `}`")
            externc.pop(); P.eat(); continue
        if p == ";": P.eat(); continue
        if p == "typedef":
            P.eat(); ty = P.type_()
            if P.kind() != "id": P.err("typedef name expected")
            name = P.eat().text; P.eat(";")
            S.typedefs[name] = ty; continue
        if p == "using":
            if P.peek(1) == "namespace": P.err("`using namespace` changes name lookup; not supported")
            P.eat(); name = P.eat().text; P.eat("="); ty = P.type_(); P.eat(";")
            S.typedefs[name] = ty; continue
        if p == "struct" and P.kind(1) == "id" and P.peek(2) == "{":
            P.eat(); name = P.eat().text; P.eat("{"); fields = []
            while P.peek() != "}":
                ty = P.type_(); fn = P.eat().text; P.eat(";")
                fields.append((fn, ty))
            P.eat("}"); P.eat(";")
            S.structs[name] = fields; continue
        if p == "namespace":
            P.err("a namespace block in lib/amgcl.cpp is not supported (AMGCL_PROFILING must be off)")
        # function declaration or definition
        fileline = (P.t[P.i].file, P.t[P.i].line)
        is_static = False
        j = P.i
        while P.t[j].text in ("static", "inline"):
            is_static = is_static or P.t[j].text == "static"; j += 1
        ret = P.type_()
        if P.kind() != "id": P.err("function name expected")
        name = P.eat().text
        if P.peek() != "(": P.err("only typedefs, struct definitions and functions are supported at top level")
        params = P.param_list()
        if P.accept(";"):
            if name in S.decls: P.err("function %s declared twice" % name)
            S.decls[name] = (ret, params, bool(externc), fileline[0], fileline[1])
            continue
        if P.peek() != "{": P.err("function body expected")
        a = P.i; depth = 0
        while True:
            x = P.eat().text
            if x == "{": depth += 1
            elif x == "}":
                depth -= 1
                if depth == 0: break
        if name in S.defs: P.err("function %s defined twice" % name)
        S.defs[name] = (ret, params, toks[a:P.i], fileline[0], fileline[1], is_static)
        S.order.append(name)
    if externc: P.err('unterminated `extern "C" {`')
    return S


def resolve_type(S, spelling, depth=0):
    """substitute typedef names (whole identifiers) recursively; canonical blank-free spelling"""
    if depth > 20: fail("typedefs", "cyclic typedef " + spelling)
    def sub(m):
        w = m.group()
        if w in S.typedefs: return resolve_type(S, S.typedefs[w], depth + 1)
        return w
    # identifiers that are not preceded by `::` (a qualified name is not an alias of this file)
    out = re.sub(r"(?<![:\w])[A-Za-z_]\w*(?!\s*::)", sub, spelling)
    return out


def squash(s):
    s = re.sub(r"\s+", " ", s).strip()
    s = re.sub(r"\s*([<>,*&:])\s*", r"\1", s)
    return s


CTYPES = {
    "void": "void", "void*": "handle", "int": "int", "float": "float", "double": "double",
    "const char*": "cstr", "const int*": "cintp", "const double*": "cdoublep", "double*": "doublep",
    "conv_info": "convInfo", "conv_info*": "convInfoP",
}

def ctype(S, spelling):
    r = squash(resolve_type(S, spelling))
    return CTYPES.get(r, ("other", r))


# ------------------------------------------------------------------------------------------------ symbolic values
class Lin:
    """c + sum coef * atom ; atoms are hashable tuples"""
    def __init__(self, c=0, terms=None):
        self.c = c; self.terms = {a: k for a, k in (terms or {}).items() if k != 0}
    def key(self): return (self.c, tuple(sorted(self.terms.items(), key=repr)))
    def __add__(self, o):
        t = dict(self.terms)
        for a, k in o.terms.items(): t[a] = t.get(a, 0) + k
        return Lin(self.c + o.c, t)
    def neg(self): return Lin(-self.c, {a: -k for a, k in self.terms.items()})
    def __sub__(self, o): return self + o.neg()
    def scale(self, k): return Lin(self.c * k, {a: v * k for a, v in self.terms.items()})
    def is_const(self): return not self.terms
    def __repr__(self): return "Lin(%r,%r)" % (self.c, self.terms)


KIND_OF_PREFIX = [("boost::property_tree::ptree", "params", True), ("amgcl::amg<", "precond", False), ("amgcl::make_solver<", "solver", False)]


class Evaluator:
    def __init__(self, S, name, ret, params, body, entry_names):
        self.S, self.name, self.ret, self.params = S, name, ret, params
        self.body, self.entry_names = body, entry_names
        self.env = {}
        self.ptypes = [ctype(S, ty) for _, ty in params]
        for i, (pn, _) in enumerate(params):
            if not pn: fail(name, "unnamed parameter %d" % i)
            if pn in self.env: fail(name, "duplicate parameter name " + pn)
            self.env[pn] = ("param", i)
        self.effects = []
        self.classes = set()
        self.ids = 0
        self.returned = False
        self.syn = {"casts": [], "news": [], "deletes": 0, "members": [], "callops": [], "free": [], "lambdas": []}

    def err(self, msg, line=None):
        fail("%s%s" % (self.name, (" (lib/amgcl.cpp:%d)" % line) if line else ""), msg)

    # ---- kinds
    def kind_of_class(self, spelling):
        r = squash(resolve_type(self.S, spelling))
        for pre, kind, exact in KIND_OF_PREFIX:
            if (r == pre) if exact else r.startswith(pre):
                self.classes.add((kind, r)); return kind
        self.err("class `%s` (= %s) is none of ptree / amgcl::amg / amgcl::make_solver" % (spelling, r))

    # ---- statements
    def run(self):
        P = Parser(self.body, self.name)
        stmts = P.block()
        if P.i != len(self.body): P.err("trailing tokens after the function body")
        eff = self.exec_block(stmts, self.effects)
        return eff

    def exec_block(self, stmts, eff):
        for s in stmts: self.exec_stmt(s, eff)
        return eff

    def exec_stmt(self, s, eff):
        k = s[0]; line = s[-1]
        if eff and eff[-1][0] in ("return",): self.err("statement after `return`", line)
        if eff and eff[-1][0] == "if" and eff[-1][4]: self.err("statement after an `if` whose branches both return", line)
        if k == "empty": return
        if k == "block":
            saved = dict(self.env); self.exec_block(s[1], eff); self.env = saved; return
        if k == "return":
            v = self.ev(s[1], eff) if s[1] is not None else None
            eff.append(("return", v)); return
        if k == "if":
            c = self.ev(s[1], eff)
            saved = dict(self.env); a = []; self.exec_stmt(s[2], a); self.env = dict(saved)
            b = []
            if s[3] is not None: self.exec_stmt(s[3], b); self.env = saved
            both = bool(a and b and self.ends(a) and self.ends(b))
            if (a and self.ends(a)) != (b and self.ends(b)) and (self.ends(a) or self.ends(b)):
                self.err("`if` where only one branch returns is not supported", line)
            eff.append(("if", c, a, b, both)); return
        if k == "decl":
            _, ty, name, init, _ = s
            if name in self.env and self.env[name][0] == "param": self.err("local `%s` shadows a parameter" % name, line)
            rty = squash(resolve_type(self.S, ty))
            if init is None:
                if rty == "conv_info":
                    self.ids += 1; self.env[name] = ("convlocal", self.ids); return
                self.err("uninitialised local `%s` of type %s" % (name, ty), line)
            v = self.ev(init, eff)
            if rty == "conv_info": self.err("initialised conv_info local is not supported", line)
            self.env[name] = v; return
        if k == "expr":
            v = self.ev(s[1], eff)
            if v is not None and v[0] == "cout" and v[1] and eff and eff[-1] == ("print", v[1]): return
            if v is not None and v[0] not in ("done",):
                self.err("expression statement without a recognised effect (%s)" % (v[0],), line)
            return
        self.err("statement kind %s" % k, line)

    @staticmethod
    def ends(eff): return bool(eff) and (eff[-1][0] == "return" or (eff[-1][0] == "if" and eff[-1][4]))

    # ---- expressions
    def lin(self, v, what):
        if v[0] == "lin": return v[1]
        if v[0] == "param" and self.ptypes[v[1]] == "int": return Lin(0, {("p", v[1]): 1})
        self.err("%s: integer expression expected, found %s" % (what, v[0]))

    def as_iter(self, v, what):
        if v[0] == "iter": return v
        if v[0] == "param" and self.ptypes[v[1]] in ("cintp", "cdoublep", "doublep"):
            return ("iter", v[1], 0, Lin())
        self.err("%s: pointer / iterator expected, found %s" % (what, v[0]))

    def ev(self, e, eff):
        k = e[0]
        if k == "paren": return self.ev(e[1], eff)
        if k == "int": return ("lin", Lin(e[1]))
        if k == "str": return ("strlit", e[1])
        if k == "name":
            n = e[1]
            if n in self.env: return self.env[n]
            if n in ("std::cout",): return ("cout", [])
            if n in ("std::endl",): return ("endl",)
            self.err("unknown name `%s`" % n)
        if k == "lambda": return self.ev_lambda(e)
        if k == "cast": return self.ev_cast(e, eff)
        if k == "new":
            kind = self.kind_of_class(e[1]); self.syn["news"].append(squash(e[1]) + "*")
            args = [self.ev(a, eff) for a in e[2]]
            return ("new", kind, args)
        if k == "delete":
            self.syn["deletes"] += 1
            v = self.ev(e[1], eff)
            if v[0] != "hptr": self.err("`delete` of something that is not a cast handle (%s)" % v[0])
            eff.append(("delete", v[2], v[1])); return ("done",)
        if k == "unary":
            op = e[1]; v = self.ev(e[2], eff)
            if op == "*":
                if v[0] == "hptr": return ("obj", v[1], v[2])
                if v[0] == "param" and self.ptypes[v[1]] == "convInfoP": return ("convout", v[1])
                if v[0] == "iter" or (v[0] == "param" and self.ptypes[v[1]] in ("cintp",)):
                    it = self.as_iter(v, "*"); return self.deref(it, Lin())
                self.err("unary `*` on %s" % v[0])
            if op == "-": return ("lin", self.lin(v, "unary -").neg())
            if op == "+": return ("lin", self.lin(v, "unary +"))
            self.err("unary `%s` is not supported" % op)
        if k == "bin":
            op = e[1]
            if op == "<<": return self.ev_shift(e, eff)
            a = self.ev(e[2], eff); b = self.ev(e[3], eff)
            if op in ("+", "-"):
                a_it = a[0] == "iter" or (a[0] == "param" and self.ptypes[a[1]] in ("cintp", "cdoublep", "doublep"))
                b_it = b[0] == "iter" or (b[0] == "param" and self.ptypes[b[1]] in ("cintp", "cdoublep", "doublep"))
                if a_it and not b_it:
                    it = self.as_iter(a, op); d = self.lin(b, "pointer offset")
                    return ("iter", it[1], it[2], it[3] + (d if op == "+" else d.neg()))
                if b_it and not a_it and op == "+":
                    it = self.as_iter(b, op); d = self.lin(a, "pointer offset")
                    return ("iter", it[1], it[2], it[3] + d)
                if a_it or b_it: self.err("pointer difference is not supported")
                la, lb = self.lin(a, op), self.lin(b, op)
                return ("lin", la + lb if op == "+" else la - lb)
            if op == "*":
                la, lb = self.lin(a, op), self.lin(b, op)
                if la.is_const(): return ("lin", lb.scale(la.c))
                if lb.is_const(): return ("lin", la.scale(lb.c))
            self.err("operator `%s` on these operands is not supported" % op)
        if k == "index":
            a = self.ev(e[1], eff); i = self.ev(e[2], eff)
            it = self.as_iter(a, "[]")
            return self.deref(it, self.lin(i, "index"))
        if k == "member": return self.ev_member(e, eff)
        if k == "call": return self.ev_call(e, eff)
        if k == "assign": return self.ev_assign(e, eff)
        self.err("expression kind %s" % k)

    def deref(self, it, idx):
        """value read through an iterator: raw[base][off + idx] - shift   (only int arrays carry values we track)"""
        if self.ptypes[it[1]] != "cintp": self.err("dereference of a non-`const int*` parameter in an index expression")
        at = it[3] + idx
        return ("lin", Lin(-it[2], {("raw", it[1], at.key()): 1}))

    def ev_lambda(self, e):
        _, params, body = e
        if len(params) != 1 or squash(params[0][1]) != "int": self.err("transform lambda must take one `int`")
        if len(body) != 1 or body[0][0] != "return" or body[0][1] is None: self.err("transform lambda must be a single `return`")
        x = params[0][0]
        ex = body[0][1]
        while ex[0] == "paren": ex = ex[1]
        # i - k | i + k | i      (k an integer literal)
        def is_x(n): return n[0] == "name" and n[1] == x
        if is_x(ex): self.syn["lambdas"].append(("", 0)); return ("lambda", 0)
        if ex[0] == "bin" and ex[1] in ("+", "-") and is_x(ex[2]) and ex[3][0] == "int":
            self.syn["lambdas"].append((ex[1], ex[3][1]))
            return ("lambda", ex[3][1] if ex[1] == "-" else -ex[3][1])
        self.err("transform lambda is not of the form `i - k` / `i + k` / `i`")

    INT_TYPES = ("size_t", "std::size_t", "int", "long", "ptrdiff_t", "std::ptrdiff_t", "unsigned", "unsigned int", "unsigned long")

    def ev_cast(self, e, eff):
        _, ck, ty, inner = e
        v = self.ev(inner, eff)
        self.syn["casts"].append(squash(ty))
        if ck == "const_cast":
            # casting constness away does not change which parameter a pointer walks over: the value is kept, so a
            # `double*` made from the `const double*` parameter shows up in the table under the parameter it came from
            if v[0] == "iter" or (v[0] == "param" and self.ptypes[v[1]] in ("cintp", "cdoublep", "doublep")): return v
            self.err("`const_cast` of something that is not a pointer parameter")
        if ck != "static_cast": self.err("`%s` is not supported" % ck)
        rty = squash(resolve_type(self.S, ty))
        if rty == "void*":
            if v[0] == "new": return ("hcast", v)
            self.err("cast to amgclHandle of something that is not a `new` expression (%s)" % v[0])
        if rty.endswith("*") and not rty.endswith("**"):
            if v[0] == "param" and self.ptypes[v[1]] == "handle":
                return ("hptr", v[1], self.kind_of_class(ty[:ty.rindex("*")].strip()))
            self.err("pointer cast of something that is not a handle parameter")
        if rty in self.INT_TYPES: return ("lin", self.lin(v, "integer cast"))
        self.err("cast to `%s` is not supported" % ty)

    def ev_shift(self, e, eff):
        a = self.ev(e[2], eff); b = self.ev(e[3], eff)
        if a[0] != "cout": self.err("`<<` whose left operand is not std::cout")
        if a[1] and a[1][-1] == ("endl",): self.err("output after std::endl")
        items = a[1] + [b]
        if b == ("endl",) or True:
            # the print effect is (re)recorded with the whole chain; replace the previous partial record
            if eff and eff[-1][0] == "print" and eff[-1][1] == a[1]: eff.pop()
            eff.append(("print", items))
        return ("cout", items)

    def ev_member(self, e, eff):
        _, obj, op, name = e
        v = self.ev(obj, eff)
        if v[0] == "convlocal" and op == ".": return ("field", v, name)
        if v[0] == "param" and self.ptypes[v[1]] == "convInfoP" and op == "->": return ("field", v, name)
        if v[0] == "hptr" and op == "->": return ("method", v, name)
        if v[0] == "obj" and op == ".": return ("method", ("hptr", v[1], v[2]), name)
        self.err("member access `%s%s` on %s" % (op, name, v[0]))

    FREE = {
        "boost::make_iterator_range": "make_iterator_range", "amgcl::make_iterator_range": "make_iterator_range",
        "boost::make_transform_iterator": "make_transform_iterator",
        "std::make_tuple": "make_tuple", "std::tie": "tie",
        "read_json": "read_json", "boost::property_tree::read_json": "read_json",
        "boost::property_tree::json_parser::read_json": "read_json",
        "amgcl::backend::rows": "rows",
    }

    def ev_call(self, e, eff):
        _, f, args = e
        # (*slv)(...)  -- call operator of the wrapped object
        fv = None
        if f[0] == "name":
            n = f[1]
            if n in self.env: fv = self.env[n]
            elif n in self.FREE:
                self.syn["free"].append(self.FREE[n]); return self.ev_free(self.FREE[n], args, eff)
            elif n in self.entry_names:
                self.syn["free"].append(n)
                vs = [self.ev(a, eff) for a in args]
                ps = []
                for v in vs:
                    if v[0] != "param": self.err("call of %s with an argument that is not a plain parameter" % n)
                    ps.append(v[1])
                self.ids += 1; eff.append(("fwd", self.ids, n, ps)); return ("fwdres", self.ids)
            else: self.err("call of unknown function `%s`" % n)
        else:
            fv = self.ev(f, eff)
        if fv[0] == "obj":
            self.syn["callops"].append(len(args))
            vs = [self.ev(a, eff) for a in args]
            self.ids += 1; eff.append(("solve", self.ids, fv[1], fv[2], vs)); return ("solveres", self.ids)
        if fv[0] == "method":
            _, hp, mname = fv
            self.syn["members"].append(mname)
            vs = [self.ev(a, eff) for a in args]
            if mname == "put":
                if len(vs) != 2 or any(v[0] != "param" for v in vs): self.err("put() must be called with two plain parameters")
                eff.append(("put", hp[1], hp[2], vs[0][1], vs[1][1])); return ("done",)
            if mname == "apply":
                if len(vs) != 2: self.err("apply() with %d arguments" % len(vs))
                eff.append(("apply", hp[1], hp[2], vs)); return ("done",)
            if mname == "size" and not vs: return ("lin", Lin(0, {("size", hp[2], hp[1]): 1}))
            if mname == "system_matrix" and not vs: return ("sysmat", hp[1], hp[2])
            if mname == "precond" and not vs: return ("precond", hp[1], hp[2])
            self.err("call of member function `%s` with %d arguments is not supported" % (mname, len(vs)))
        self.err("call of %s" % fv[0])

    def ev_free(self, fn, args, eff):
        vs = [self.ev(a, eff) for a in args]
        if fn == "make_iterator_range":
            if len(vs) != 2: self.err("make_iterator_range with %d arguments" % len(vs))
            return ("range", self.as_iter(vs[0], "range begin"), self.as_iter(vs[1], "range end"))
        if fn == "make_transform_iterator":
            if len(vs) != 2 or vs[1][0] != "lambda": self.err("make_transform_iterator(iterator, lambda) expected")
            it = self.as_iter(vs[0], "transform base")
            return ("iter", it[1], it[2] + vs[1][1], it[3])
        if fn == "make_tuple":
            if len(vs) != 4 or any(v[0] != "range" for v in vs[1:]): self.err("make_tuple(n, range, range, range) expected")
            return ("tuple", self.lin(vs[0], "tuple size"), vs[1], vs[2], vs[3])
        if fn == "tie":
            if any(v[0] != "field" for v in vs): self.err("std::tie of something that is not a conv_info member")
            return ("tie", vs)
        if fn == "read_json":
            if len(vs) != 2 or vs[0][0] != "param" or vs[1][0] != "obj": self.err("read_json(file name parameter, *cast handle) expected")
            eff.append(("read_json", vs[0][1], vs[1][1], vs[1][2])); return ("done",)
        if fn == "rows":
            if len(vs) != 1 or vs[0][0] != "sysmat": self.err("rows() of something that is not obj->system_matrix()")
            return ("lin", Lin(0, {("rows", vs[0][2], vs[0][1]): 1}))
        self.err("free function " + fn)

    def ev_assign(self, e, eff):
        _, lhs, rhs = e
        r = self.ev(rhs, eff)
        l = self.ev(lhs, eff)
        if l[0] == "tie" and r[0] == "solveres":
            eff.append(("fill_tie", l[1], r[1])); return ("done",)
        if l[0] == "convout" and r[0] == "fwdres":
            eff.append(("fill_assign", l[1], r[1])); return ("done",)
        self.err("assignment of %s to %s is not supported" % (r[0], l[0]))


# ------------------------------------------------------------------------------------------------ classification
def size_expr(ev, lin, what):
    """Lin that is exactly one size atom -> SizeE"""
    if lin.c == 0 and len(lin.terms) == 1:
        (a, k), = lin.terms.items()
        if k == 1:
            if a[0] == "p": return ("param", a[1])
            if a[0] == "size": return ("objSize", a[1], a[2])
            if a[0] == "rows": return ("objRows", a[1], a[2])
    ev.err("%s: not a size expression (%r)" % (what, lin))

def off_expr(ev, lin, what):
    if lin.is_const(): return ("const", lin.c)
    if len(lin.terms) == 1:
        (a, k), = lin.terms.items()
        if k == 1:
            if a[0] in ("p", "size", "rows"): return ("size", size_expr(ev, Lin(0, {a: 1}), what), lin.c)
            if a[0] == "raw":
                c, terms = a[2]
                return ("rawAt", a[1], size_expr(ev, Lin(c, dict(terms)), what + " index"), lin.c)
    ev.err("%s: offset is not of the form k | s + k | p[s] + k (%r)" % (what, lin))

def iter_spec(ev, it, what): return (it[1], it[2], off_expr(ev, it[3], what))
def range_spec(ev, r, what):
    if r[0] != "range": ev.err("%s: iterator range expected, found %s" % (what, r[0]))
    return (iter_spec(ev, r[1], what + " begin"), iter_spec(ev, r[2], what + " end"))
def tuple_spec(ev, t, what):
    if t[0] != "tuple": ev.err("%s: tuple expected, found %s" % (what, t[0]))
    return (size_expr(ev, t[1], what + " size"), range_spec(ev, t[2], what + " ptr"), range_spec(ev, t[3], what + " col"), range_spec(ev, t[4], what + " val"))


def classify(ev, eff):
    def bad(): ev.err("the body is none of the recognised shapes; effects: %s" % (summ(eff),))
    def summ(x): return [(y[0] if y[0] != "if" else ("if", summ(y[2]), summ(y[3]))) for y in x]
    def new_of(ret):
        if ret[0] != "return" or ret[1] is None or ret[1][0] != "hcast": return None
        return ret[1][1]
    if len(eff) == 1:
        x = eff[0]
        if x[0] == "return":
            nw = new_of(x)
            if nw is None: bad()
            _, kind, args = nw
            if kind == "params" and not args: return ("paramsNew",)
            if len(args) == 1: return ("create", kind, tuple_spec(ev, args[0], "constructor argument"), None, False)
            if len(args) == 2 and args[1][0] == "obj":
                return ("create", kind, tuple_spec(ev, args[0], "constructor argument"), (args[1][1], args[1][2]), False)
            bad()
        if x[0] == "put":
            if x[2] != "params": ev.err("put() on a handle cast to %s" % x[2])
            return ("put", x[1], x[3], x[4])
        if x[0] == "read_json":
            if x[3] != "params": ev.err("read_json into a handle cast to %s" % x[3])
            return ("readJson", x[2], x[1])
        if x[0] == "delete": return ("destroy", x[1], x[2])
        if x[0] == "apply":
            return ("apply", x[2], x[1], range_spec(ev, x[3][0], "apply rhs"), range_spec(ev, x[3][1], "apply x"))
        if x[0] == "print":
            items = x[1]
            endl = bool(items) and items[-1] == ("endl",)
            core = items[:-1] if endl else items
            if len(core) != 1: bad()
            w = core[0]
            if w[0] == "obj": return ("report", w[2], w[1], "self", endl)
            if w[0] == "precond": return ("report", w[2], w[1], "precond()", endl)
            bad()
        if x[0] == "if":
            _, c, a, b, both = x
            if c[0] != "param" or ev.ptypes[c[1]] != "handle" or len(a) != 1 or len(b) != 1: bad()
            na, nb = new_of(a[0]), new_of(b[0])
            if na is None or nb is None: bad()
            if na[1] != nb[1]: ev.err("the two branches construct different classes (%s / %s)" % (na[1], nb[1]))
            if len(na[2]) != 2 or len(nb[2]) != 1 or na[2][1][0] != "obj" or na[2][1][1] != c[1]: bad()
            ta, tb = tuple_spec(ev, na[2][0], "constructor argument"), tuple_spec(ev, nb[2][0], "constructor argument")
            if ta != tb: ev.err("the two branches construct from different tuples")
            return ("create", na[1], ta, (na[2][1][1], na[2][1][2]), True)
        bad()
    kinds = [x[0] for x in eff]
    if kinds[:2] == ["solve", "fill_tie"] and eff[1][2] == eff[0][1]:
        _, sid, h, kind, vs = eff[0]
        fields = eff[1][1]
        targets = {f[1] for f in fields}
        if len(targets) != 1: ev.err("std::tie over members of different objects")
        tgt = fields[0][1]; names = [f[2] for f in fields]
        if len(vs) == 2: A, r, x = None, vs[0], vs[1]
        elif len(vs) == 3: A, r, x = tuple_spec(ev, vs[0], "solve matrix"), vs[1], vs[2]
        else: ev.err("operator() with %d arguments" % len(vs))
        r, x = range_spec(ev, r, "solve rhs"), range_spec(ev, x, "solve x")
        if tgt[0] == "convlocal":
            if len(eff) != 3 or eff[2][0] != "return" or eff[2][1] != tgt: ev.err("the local conv_info that is filled is not what is returned")
            fill = ("tieReturn", names)
        else:
            if len(eff) != 2: bad()
            fill = ("tieOut", tgt[1], names)
        return ("solve", kind, h, A, r, x, fill)
    if kinds == ["fwd", "fill_assign"] and eff[1][2] == eff[0][1]:
        return ("forward", eff[0][2], eff[0][3], ("assignOut", eff[1][1]))
    if kinds == ["fwd", "return"] and eff[1][1] == ("fwdres", eff[0][1]):
        return ("forward", eff[0][2], eff[0][3], ("ret",))
    bad()


# ------------------------------------------------------------------------------------------------ clang cross-check
def clang_summaries():
    exe = shutil.which("clang++-14")
    if not exe: return None
    cmd = [exe, "-std=gnu++17", "-DAMGCL_VERIF", "-Xclang", "-ast-dump=json", "-Xclang", "-ast-dump-filter=amgcl_",
           "-fsyntax-only", "-I" + REPO, SRC_CPP]
    p = subprocess.run(cmd, stdout=subprocess.PIPE, stderr=subprocess.PIPE, text=True, errors="replace")
    if p.returncode != 0: fail("clang++-14", "AST dump failed:\n" + p.stderr[-1500:])
    dec = json.JSONDecoder(); txt = p.stdout; pos = 0; nodes = []
    while True:
        m = re.compile(r"\s*").match(txt, pos); pos = m.end()
        if pos >= len(txt): break
        if txt[pos] != "{":          # "Dumping xyz:" lines of the text mode, if any
            nl = txt.find("\n", pos); pos = len(txt) if nl < 0 else nl + 1; continue
        obj, pos = dec.raw_decode(txt, pos); nodes.append(obj)
    res, desugar = {}, {}
    def walk(n, acc):
        k = n.get("kind")
        ty = n.get("type", {})
        if "desugaredQualType" in ty: desugar[squash(ty["qualType"])] = squash(ty["desugaredQualType"])
        if k in ("CXXStaticCastExpr", "CXXConstCastExpr"): acc["casts"].append(squash(ty.get("qualType", "")))
        elif k == "CXXNewExpr": acc["news"].append(squash(ty.get("qualType", "")))
        elif k == "CXXDeleteExpr": acc["deletes"] += 1
        elif k == "CXXMemberCallExpr":
            me = n["inner"][0]
            while me.get("kind") != "MemberExpr" and me.get("inner"): me = me["inner"][0]
            if not me.get("name", "?").startswith("operator"):      # implicit conversion operators (`operator int` of an iterator proxy) are not calls the source spells
                acc["members"].append(me.get("name", "?"))
        elif k == "CXXOperatorCallExpr":
            cal = n["inner"][0]
            while cal.get("kind") != "DeclRefExpr" and cal.get("inner"): cal = cal["inner"][0]
            opn = cal.get("referencedDecl", {}).get("name", "?")
            if opn == "operator()": acc["callops"].append(len(n["inner"]) - 2)
        elif k == "CallExpr":
            cal = n["inner"][0]
            while cal.get("kind") not in ("DeclRefExpr", "UnresolvedLookupExpr") and cal.get("inner"): cal = cal["inner"][0]
            nm = cal.get("referencedDecl", {}).get("name") or cal.get("name", "?")
            acc["free"].append(nm)
        elif k == "LambdaExpr":
            lam = {"ops": [], "lits": []}
            def lw(x):
                if x.get("kind") == "BinaryOperator": lam["ops"].append(x.get("opcode"))
                if x.get("kind") == "IntegerLiteral": lam["lits"].append(int(x.get("value")))
                for y in x.get("inner", []): lw(y)
            body = [x for x in n.get("inner", []) if x.get("kind") == "CompoundStmt"]
            for b in body[:1]: lw(b)
            if len(lam["ops"]) == 0 and not lam["lits"]: acc["lambdas"].append(("", 0))
            elif len(lam["ops"]) == 1 and len(lam["lits"]) == 1: acc["lambdas"].append((lam["ops"][0], lam["lits"][0]))
            else: acc["lambdas"].append(("?", 0))
            return        # the closure class repeats the body: do not descend
        for c in n.get("inner", []): walk(c, acc)
    for n in nodes:
        if n.get("kind") != "FunctionDecl": continue
        inner = n.get("inner", [])
        body = [x for x in inner if x.get("kind") == "CompoundStmt"]
        if not body: continue
        acc = {"casts": [], "news": [], "deletes": 0, "members": [], "callops": [], "free": [], "lambdas": []}
        walk(body[0], acc)
        acc["params"] = [(x.get("name", ""), squash(x["type"].get("desugaredQualType", x["type"]["qualType"]))) for x in inner if x.get("kind") == "ParmVarDecl"]
        if n["name"] in res: fail("clang++-14", "function %s has two bodies in the AST dump" % n["name"])
        res[n["name"]] = acc
    return res, desugar


def tmpl_tree(s):
    """'a<b<c>,d>' -> ('a', [('b', [('c', [])]), ('d', [])])"""
    pos = 0
    def parse():
        nonlocal pos
        m = re.compile(r"[^<>,]+").match(s, pos)
        name = m.group().strip(); pos = m.end(); args = []
        if pos < len(s) and s[pos] == "<":
            pos += 1
            while True:
                args.append(parse())
                if s[pos] == ",": pos += 1; continue
                if s[pos] == ">": pos += 1; break
        return (name, args)
    t = parse()
    return t

def tmpl_prefix(a, b):
    """the spelling `a` (defaults not written) agrees with the desugared `b` (defaults written out)"""
    return a[0] == b[0] and len(a[1]) <= len(b[1]) and all(tmpl_prefix(x, y) for x, y in zip(a[1], b[1]))


def cross_check(S, evs, clang):
    summ, desugar = clang
    problems = []
    for name, ev in evs.items():
        if name not in summ:
            problems.append("%s: no definition in the clang AST" % name); continue
        c = summ[name]; t = ev.syn
        mine = [(pn, squash(resolve_type(S, ty))) for pn, ty in ev.params]      # `T const*` was normalised to `const T*` by the parser
        theirs = [(pn, squash(ty)) for pn, ty in c["params"]]                     # clang prints `const T *`
        if mine != theirs:
            problems.append("%s: parameters %r (text) vs %r (clang)" % (name, mine, theirs))
        for key in ("casts", "news", "members", "callops", "lambdas"):
            a, b = sorted(map(repr, t[key])), sorted(map(repr, c[key]))
            if a != b: problems.append("%s: %s %s (text) vs %s (clang)" % (name, key, a, b))
        if t["deletes"] != c["deletes"]: problems.append("%s: delete count %d (text) vs %d (clang)" % (name, t["deletes"], c["deletes"]))
        if sorted(t["free"]) != sorted(c["free"]): problems.append("%s: free calls %s (text) vs %s (clang)" % (name, sorted(t["free"]), sorted(c["free"])))
    for name in summ:
        if name not in evs: problems.append("%s: defined in the clang AST but not seen by the text parser" % name)
    # class types
    for alias in S.typedefs:
        k = squash(alias + " *")
        if k in desugar:
            a = squash(resolve_type(S, alias)); b = desugar[k]
            b = b[:-1] if b.endswith("*") else b
            try: ok = tmpl_prefix(tmpl_tree(a), tmpl_tree(b))
            except Exception: ok = False
            if not ok: problems.append("typedef %s resolves to %s (text) vs %s (clang)" % (alias, a, b))
    return problems


# ------------------------------------------------------------------------------------------------ Lean emission
def lstr(s): return '"' + s.replace("\\", "\\\\").replace('"', '\\"') + '"'
def lint(k): return "(%d)" % k if k < 0 else str(k)
def lkind(k): return ".%s" % k
def lctype(c): return ".%s" % c if isinstance(c, str) else "(.other %s)" % lstr(c[1])
def lsize(s):
    if s[0] == "param": return "(.param %d)" % s[1]
    return "(.%s %s %d)" % (s[0], lkind(s[1]), s[2])
def loff(o):
    if o[0] == "const": return "(.const %s)" % lint(o[1])
    if o[0] == "size": return "(.size %s %s)" % (lsize(o[1]), lint(o[2]))
    return "(.rawAt %d %s %s)" % (o[1], lsize(o[2]), lint(o[3]))
def liter(i): return "⟨%d, %s, %s⟩" % (i[0], lint(i[1]), loff(i[2]))
def lrange(r): return "⟨%s, %s⟩" % (liter(r[0]), liter(r[1]))
def ltuple(t): return "{ n := %s,\n          ptr := %s,\n          col := %s,\n          val := %s }" % (lsize(t[0]), lrange(t[1]), lrange(t[2]), lrange(t[3]))
def lstrs(l): return "[" + ", ".join(lstr(x) for x in l) + "]"
def lfill(f):
    if f[0] == "tieReturn": return "(.tieReturn %s)" % lstrs(f[1])
    if f[0] == "tieOut": return "(.tieOut %d %s)" % (f[1], lstrs(f[2]))
    if f[0] == "assignOut": return "(.assignOut %d)" % f[1]
    return ".ret"
def lbody(b):
    k = b[0]
    if k == "paramsNew": return ".paramsNew"
    if k == "put": return ".put %d %d %d" % b[1:]
    if k == "readJson": return ".readJson %d %d" % b[1:]
    if k == "destroy": return ".destroy %s %d" % (lkind(b[1]), b[2])
    if k == "create":
        prm = "none" if b[3] is None else "(some (%d, %s))" % (b[3][0], lkind(b[3][1]))
        return ".create %s\n        %s\n        %s %s" % (lkind(b[1]), ltuple(b[2]), prm, "true" if b[4] else "false")
    if k == "apply": return ".apply %s %d\n        %s\n        %s" % (lkind(b[1]), b[2], lrange(b[3]), lrange(b[4]))
    if k == "report": return ".report %s %d %s %s" % (lkind(b[1]), b[2], lstr(b[3]), "true" if b[4] else "false")
    if k == "solve":
        A = "none" if b[3] is None else "(some\n        %s)" % ltuple(b[3])
        return ".solve %s %d\n        %s\n        %s\n        %s\n        %s" % (lkind(b[1]), b[2], A, lrange(b[4]), lrange(b[5]), lfill(b[6]))
    if k == "forward": return ".forward %s [%s] %s" % (lstr(b[1]), ", ".join(map(str, b[2])), lfill(b[3]))
    raise AssertionError(k)


def emit(table):
    classes, conv, entries = table
    L = ["-- GENERATED by tools/capi_extract.py from $AMGCL_REPO/lib/amgcl.cpp + lib/amgcl.h — do not edit (regenerated on every `vcheck.py check C20`)",
         "import Amgcl.Model.CApiTable", "namespace Amgcl.Generated", "open Amgcl.CApi", "",
         "/-- the %d entry points of lib/amgcl.h as defined in lib/amgcl.cpp (see Amgcl/Model/CApiTable.lean for the vocabulary) -/" % len(entries),
         "def capiTable : Table where",
         "  classes := [" + ", ".join("(%s, %s)" % (lkind(k), lstr(s)) for k, s in classes) + "]",
         "  convInfo := [" + ", ".join("(%s, %s)" % (lstr(f), lctype(t)) for f, t in conv) + "]",
         "  entries := ["]
    es = []
    for e in entries:
        decl = "none" if e["declared"] is None else "some (%s, [%s])" % (lctype(e["declared"][0]), ", ".join(lctype(x) for x in e["declared"][1]))
        es.append("    { name := %s, family := %s, verb := %s, fortran := %s, line := %d,\n      ret := %s,\n      params := [%s],\n      declared := %s,\n      body := %s }" % (
            lstr(e["name"]), lkind(e["family"]), lstr(e["verb"]), "true" if e["fortran"] else "false", e["line"],
            lctype(e["ret"]), ", ".join("⟨%s, %s⟩" % (lstr(n), lctype(t)) for n, t in e["params"]), decl, lbody(e["body"])))
    L.append(",\n".join(es) + "]")
    L += ["", "end Amgcl.Generated", ""]
    data = "\n".join(L)
    thm = "\n".join([
        "-- GENERATED by tools/capi_extract.py — do not edit.  The obligations of property C20 over the regenerated table.",
        "import Amgcl.Generated.CApiTableData", "import Amgcl.Properties.C20b", "namespace Amgcl.Generated", "open Amgcl Amgcl.CApi", "",
        "/-- the table regenerated from lib/amgcl.cpp + lib/amgcl.h satisfies `Table.Consistent` (Amgcl/Model/CApiTable.lean):",
        "every entry point is declared as defined, named after what it does, casts its handles to the class of its family,",
        "builds THE crs tuple with the index base of its name, hands rhs / x over as `[p, p + n)`, fills `conv_info` from the",
        "C++ result, every `_f` twin reaches the same C++ call, every family has a create and a destroy. -/",
        "theorem capi_table_consistent : capiTable.Consistent := by decide +kernel", "",
        "/-! the generic theorems of Amgcl/Properties/C20b.lean, instantiated on the regenerated table -/", "",
        "/-- every `_f` entry point of lib/amgcl.cpp on `(ptr+1, col+1, val)` hands its C++ callee what its twin hands over on",
        "`(ptr, col, val)`: same callee, same argument roles, same rows read through the tuple, same failures — for all arrays -/",
        "theorem capi_fortran_forwards_same {K : Type} (e : Entry) (he : e ∈ capiTable.entries) (hf : e.fortran = true) :",
        "    ∃ e0 ∈ capiTable.entries, e0.family = e.family ∧ e0.verb = e.verb ∧ e0.fortran = false",
        "      ∧ ∀ (n : Nat) (ptr col : Array Int) (val : Array K),",
        "          capiTable.forwarded e n (ptr.map (· + 1)) (col.map (· + 1)) val = capiTable.forwarded e0 n ptr col val :=",
        "  C20b.table_fortran_forwards_same capiTable capi_table_consistent e he hf", "",
        "/-- every tuple built in lib/amgcl.cpp denotes `mkView` with the index base of the entry point's name -/",
        "theorem capi_views_are_mkView {K : Type} (e : Entry) (he : e ∈ capiTable.entries) (A : TupleSpec)",
        "    (hA : e.body.tuple? = some A) (n : Nat) (ptr col : Array Int) (val : Array K) :",
        "    A.wellShaped = true ∧ A.view n ptr col val = mkView e.base n ptr col val :=",
        "  C20b.table_view_is_mkView capiTable capi_table_consistent e he A hA n ptr col val", "",
        "/-- the handle footprint of every entry point of lib/amgcl.cpp is the one its name declares -/",
        "theorem capi_calls_as_declared (c : ApiCall) : capiTable.call c = capiTable.declared c :=",
        "  C20b.table_call_eq_declared capiTable capi_table_consistent c", "",
        "end Amgcl.Generated", ""])
    return data, thm


# ------------------------------------------------------------------------------------------------ python mirror of Table.check (diagnostics only)
EXPECTED_CLASSES = [
    ("params", "boost::property_tree::ptree"),
    ("precond", "amgcl::amg<amgcl::backend::builtin<double>,amgcl::runtime::coarsening::wrapper,amgcl::runtime::relaxation::wrapper>"),
    ("solver", "amgcl::make_solver<amgcl::amg<amgcl::backend::builtin<double>,amgcl::runtime::coarsening::wrapper,amgcl::runtime::relaxation::wrapper>,amgcl::runtime::solver::wrapper<amgcl::backend::builtin<double>>>"),
]

def std_tuple(n, p, beta):
    return (n, ((p, beta, ("const", 0)), (p, beta, ("size", n, 1))),
               ((p + 1, beta, ("const", 0)), (p + 1, beta, ("rawAt", p, n, 0))),
               ((p + 2, 0, ("const", 0)), (p + 2, 0, ("rawAt", p, n, 0))))
def std_vec(p, n): return ((p, 0, ("const", 0)), (p, 0, ("size", n, 0)))

def cpp_call(b):
    k = b[0]
    def trole(t): return ("matrix", t[0], t[1][0][0], t[2][0][0], t[3][0][0])
    def rrole(r): return ("vec", r[0][0], r[1][2])
    if k == "paramsNew": return ("ctor params",)
    if k == "put": return ("put", b[2], b[3])
    if k == "readJson": return ("readJson", b[2])
    if k == "destroy": return ("del", b[1])
    if k == "create": return ("ctor", b[1], trole(b[2]), b[3], b[4])
    if k == "apply": return ("apply", b[1], rrole(b[3]), rrole(b[4]))
    if k == "report": return ("print", b[1], b[3])
    if k == "solve": return ("solve", b[1], None if b[3] is None else trole(b[3]), rrole(b[4]), rrole(b[5]))
    return ("other",)

def mirror_check(table):
    classes, conv, entries = table
    bad = []
    by = {e["name"]: e for e in entries}
    if classes != EXPECTED_CLASSES: bad.append("classes behind the handles: %r, expected %r" % (classes, EXPECTED_CLASSES))
    if conv != [("iterations", "int"), ("residual", "double")]: bad.append("struct conv_info: %r" % (conv,))
    def resolve(e):
        b = e["body"]
        if b[0] == "forward" and b[1] in by: return by[b[1]]["body"]
        return b
    for e in entries:
        n = e["name"]; b = e["body"]; ty = [t for _, t in e["params"]]; beta = 1 if e["fortran"] else 0
        why = []
        if n != "amgcl_%s_%s%s" % (e["family"], e["verb"], "_f" if e["fortran"] else ""): why.append("name does not decompose into amgcl_<family>_<verb>[_f]")
        if e["declared"] is None: why.append("not declared in lib/amgcl.h")
        elif e["declared"] != (e["ret"], ty): why.append("declared in lib/amgcl.h as %r, defined as %r" % (e["declared"], (e["ret"], ty)))
        creates = b[0] in ("paramsNew", "create"); destroys = b[0] == "destroy"
        if (e["verb"] == "create") != creates or (e["verb"] == "destroy") != destroys: why.append("verb `%s` does not fit a body that %s" % (e["verb"], "creates" if creates else "destroys" if destroys else "neither creates nor destroys"))
        ok = True
        k = b[0]
        fam = e["family"]
        if k == "paramsNew": ok = fam == "params" and ty == [] and e["ret"] == "handle" and not e["fortran"]
        elif k == "put": ok = fam == "params" and b[1:] == (0, 1, 2) and e["ret"] == "void" and not e["fortran"] and ty in (["handle", "cstr", "int"], ["handle", "cstr", "float"], ["handle", "cstr", "cstr"])
        elif k == "readJson": ok = fam == "params" and b[1:] == (0, 1) and ty == ["handle", "cstr"] and e["ret"] == "void" and not e["fortran"]
        elif k == "destroy": ok = b[1] == fam and b[2] == 0 and ty == ["handle"] and e["ret"] == "void" and not e["fortran"]
        elif k == "create":
            ok = b[1] == fam and fam != "params" and ty == ["int", "cintp", "cintp", "cdoublep", "handle"] and e["ret"] == "handle" and b[3] == (4, "params") and b[4]
            if b[2] != std_tuple(("param", 0), 1, beta): ok = False; why.append("the tuple is not the crs tuple over parameters 1,2,3 with index base %d: %r" % (beta, b[2]))
        elif k == "apply":
            n_ = ("objRows", "precond", 0)
            ok = b[1] == fam == "precond" and b[2] == 0 and ty == ["handle", "cdoublep", "doublep"] and e["ret"] == "void" and not e["fortran"] and b[3] == std_vec(1, n_) and b[4] == std_vec(2, n_)
        elif k == "report": ok = b[1] == fam and fam != "params" and b[2] == 0 and ty == ["handle"] and e["ret"] == "void" and not e["fortran"] and b[4] and b[3] == ("self" if fam == "precond" else "precond()")
        elif k == "solve":
            n_ = ("objSize", "solver", 0)
            ok = b[1] == fam == "solver" and b[2] == 0
            if b[3] is None:
                ok = ok and ty == ["handle", "cdoublep", "doublep"] and not e["fortran"] and e["ret"] == "convInfo" and b[4] == std_vec(1, n_) and b[5] == std_vec(2, n_) and b[6] == ("tieReturn", ["iterations", "residual"])
            else:
                if b[3] != std_tuple(n_, 1, beta): ok = False; why.append("the tuple is not the crs tuple over parameters 1,2,3 with index base %d: %r" % (beta, b[3]))
                if b[4] != std_vec(4, n_) or b[5] != std_vec(5, n_): ok = False; why.append("rhs / x are not the ranges [param 4, +n) / [param 5, +n): %r %r" % (b[4], b[5]))
                six = ["handle", "cintp", "cintp", "cdoublep", "cdoublep", "doublep"]
                if e["fortran"]: ok = ok and ty == six + ["convInfoP"] and e["ret"] == "void" and b[6] == ("tieOut", 6, ["iterations", "residual"])
                else: ok = ok and ty == six and e["ret"] == "convInfo" and b[6] == ("tieReturn", ["iterations", "residual"])
        elif k == "forward":
            c = by.get(b[1])
            ok = e["fortran"] and e["ret"] == "void" and c is not None and not c["fortran"] and c["family"] == fam and c["verb"] == e["verb"] and c["ret"] == "convInfo" \
                and c["body"][0] != "forward" and not (c["body"][0] == "create" or (c["body"][0] == "solve" and c["body"][3] is not None)) and b[2] == list(range(len(c["params"]))) and ty == [t for _, t in c["params"]] + ["convInfoP"] and b[3] == ("assignOut", len(c["params"]))
        if not ok: why.append("body/signature does not fit the `%s` shape of Entry.bodyOk: %r" % (k, b))
        if e["fortran"]:
            tw = [x for x in entries if x["family"] == fam and x["verb"] == e["verb"] and not x["fortran"]]
            if not tw: why.append("no twin without _f")
            elif not any(cpp_call(resolve(e)) == cpp_call(resolve(x)) for x in tw): why.append("reaches another C++ call than its twin: %r vs %r" % (cpp_call(resolve(e)), cpp_call(resolve(tw[0]))))
        for w in why: bad.append("%s (lib/amgcl.cpp:%d): %s" % (n, e["line"], w))
    names = [e["name"] for e in entries]
    if len(set(names)) != len(names): bad.append("duplicate entry point names")
    for fam in ("params", "precond", "solver"):
        if not any(e["body"][0] in ("paramsNew", "create") and (e["body"][1] if e["body"][0] == "create" else "params") == fam for e in entries): bad.append("no entry point creates a %s handle" % fam)
        if not any(e["body"][0] == "destroy" and e["body"][1] == fam for e in entries): bad.append("no entry point destroys a %s handle" % fam)
    return bad


# ------------------------------------------------------------------------------------------------ main
NAME_RE = re.compile(r"^amgcl_(params|precond|solver)_(\w+?)(_f)?$")

def extract():
    lines = preprocess()
    toks = tokenize(lines)
    S = parse_top(toks)
    if "conv_info" not in S.structs: fail("lib/amgcl.h", "struct conv_info not found")
    conv = [(f, ctype(S, ty)) for f, ty in S.structs["conv_info"]]
    names = sorted(set(S.decls) | set(S.defs), key=lambda n: (S.defs[n][4] if n in S.defs else 10**9, n))
    entries, evs, classes = [], {}, set()
    for n in names:
        if n not in S.defs:
            fail(n, "declared in %s:%d but not defined in lib/amgcl.cpp" % (S.decls[n][3], S.decls[n][4]))
        ret, params, body, dfile, dline, is_static = S.defs[n]
        if dfile != "lib/amgcl.cpp": fail(n, "defined in %s, not in lib/amgcl.cpp" % dfile)
        if is_static: fail(n, "static helper functions are not supported (lib/amgcl.cpp:%d): the entry points that call it cannot be translated" % dline)
        m = NAME_RE.match(n)
        if not m: fail(n, "the name is not of the form amgcl_<params|precond|solver>_<verb>[_f] (lib/amgcl.cpp:%d)" % dline)
        ev = Evaluator(S, n, ret, params, body, set(names))
        eff = ev.run()
        b = classify(ev, eff)
        evs[n] = ev; classes |= ev.classes
        declared = None
        if n in S.decls:
            dret, dparams, externc, hfile, hline = S.decls[n]
            if hfile != "lib/amgcl.h": fail(n, "declared in %s, not in lib/amgcl.h" % hfile)
            if externc: declared = (ctype(S, dret), [ctype(S, ty) for _, ty in dparams])
        entries.append({"name": n, "family": m.group(1), "verb": m.group(2), "fortran": bool(m.group(3)), "line": dline,
                        "ret": ctype(S, ret), "params": [(pn, ctype(S, ty)) for pn, ty in params], "declared": declared, "body": b})
    order = {"params": 0, "precond": 1, "solver": 2}
    classes = sorted(classes, key=lambda kc: (order[kc[0]], kc[1]))
    return S, evs, (classes, conv, entries)


def main():
    try:
        S, evs, table = extract()
        if os.environ.get("CAPI_EXTRACT_NO_CLANG") == "1":
            print("capi_extract: NOTE clang cross-check disabled by CAPI_EXTRACT_NO_CLANG=1")
        else:
            cl = clang_summaries()
            if cl is None:
                fail("clang++-14", "not installed: the AST cross-check cannot run (set CAPI_EXTRACT_NO_CLANG=1 to run without it)")
            problems = cross_check(S, evs, cl)
            if problems:
                fail("cross-check text parser vs clang AST", "\n  " + "\n  ".join(problems))
    except ExtractError as ex:
        print("capi_extract: CANNOT TRANSLATE — " + str(ex))
        print("capi_extract: the generated table was NOT updated; the obligation capi_table_consistent is not discharged for this tree")
        return 2
    data, thm = emit(table)
    os.makedirs(OUT_DIR, exist_ok=True)
    for fn, txt in (("CApiTableData.lean", data), ("CApiTable.lean", thm)):
        p = os.path.join(OUT_DIR, fn)
        if not os.path.exists(p) or open(p).read() != txt:
            with open(p, "w") as f: f.write(txt)
    bad = mirror_check(table)
    print("capi_extract: %d entry points translated (%s)" % (len(table[2]), ", ".join(e["name"][6:] for e in table[2])))
    if bad:
        print("capi_extract: the table is NOT consistent (Lean `decide` will fail on capi_table_consistent):")
        for b in bad: print("  " + b)
        return 3
    return 0


if __name__ == "__main__":
    sys.exit(main())
