#!/usr/bin/env python3
"""Regenerate /verif/MANIFEST.json from tools/checks/*.json (one file per claimed property)."""
import json, glob, os
V = os.path.dirname(os.path.dirname(os.path.abspath(__file__)))
props = [json.loads(l)["id"] for l in open(os.path.join(V, "properties.jsonl"))]
checks, claimed = [], set()
for p in sorted(glob.glob(os.path.join(V, "tools", "checks", "C*.json"))):
    c = json.load(open(p)); m = c.get("manifest", {})
    if c.get("disabled"): continue
    claimed.add(c["id"])
    checks.append({
        "property_id": c["id"],
        "quick_cmd": "python3 tools/vcheck.py check %s --tier quick" % c["id"],
        "thorough_cmd": "python3 tools/vcheck.py check %s --tier thorough" % c["id"],
        "evidence_file": "evidence/%s.json" % c["id"],
        "replay_cmd_template": "python3 tools/vcheck.py check %s --replay {path}" % c["id"],
        "engine": "lean-proofs+exact-correspondence",
        "level_claimed": {"category": c.get("level", "proof"), "text": m.get("text", ""), "design_ref": m.get("design_ref", "DESIGN.md §3 " + c["id"])},
        "level_note": m.get("note", ""),
        "technique": m.get("technique", "Lean 4 theorems about a hand-written model + exact-rational differential correspondence with the real templates"),
    })
na_file = os.path.join(V, "tools", "checks", "not_applicable.json")
na_reasons = json.load(open(na_file)) if os.path.exists(na_file) else {}
na = [{"property_id": p, "reason": na_reasons.get(p, "check not built yet in this round (see DESIGN.md §7 build order); not claimed")} for p in props if p not in claimed]
man = {
    "version": 1,
    "setup_cmd": "python3 tools/vcheck.py setup",
    "hooks": {
        "guard": "AMGCL_VERIF",
        "enable": "harnesses are compiled by tools/vcheck.py with -DAMGCL_VERIF -I/repo (header-only library; no separate build of /repo)",
        "baseline_off_cmd": "cmake -G Ninja -B /repo/_build -S /repo -DAMGCL_BUILD_TESTS=ON && cmake --build /repo/_build && ctest --test-dir /repo/_build -j8 --timeout 900",
        "source_commits": json.load(open(os.path.join(V, "tools", "hook_commits.json"))) if os.path.exists(os.path.join(V, "tools", "hook_commits.json")) else [],
        "add_only": True,
    },
    "engines": [
        {"name": "lean-proofs", "path": "lean/", "serves_properties": sorted(claimed), "kind_free_text": "Lean 4.33 theorems (Properties/Cxx.lean) about core-only functional models of the amgcl templates; axioms audited on every run"},
        {"name": "exact-correspondence", "path": "harness/ + lean/DriverMain.lean", "serves_properties": sorted(claimed), "kind_free_text": "differential check: real amgcl templates instantiated at an exact rational type vs the compiled Lean model on the same op lines; exact equality; implementation-side property oracles search for failing inputs"},
        {"name": "translators", "path": "tools/*_extract.py, tools/sync_skeleton.py, tools/alloc_sites.py", "serves_properties": [c for c in sorted(claimed) if c in ("C14", "C09", "C10")], "kind_free_text": "finite tables (parameter import/export lists, enum tables, OpenMP barrier skeleton, uninitialised-allocation sites) regenerated from /repo into Amgcl/Generated/*.lean on every run and re-checked by the kernel"},
    ],
    "checks": checks,
    "not_applicable": na,
    "notes": "Single entry point tools/vcheck.py; per-property configuration tools/checks/Cxx.json; DESIGN.md explains model, theorems, correspondence and trusted base. known_findings.json lists genuine defects (known / fixed).",
}
json.dump(man, open(os.path.join(V, "MANIFEST.json"), "w"), indent=1)
print("claimed:", sorted(claimed), "not claimed:", [x["property_id"] for x in na])
