import Amgcl.Proofs.SkylineNCSolve
/-!
(Copy of `Proofs/SkylineGeom.lean` for an arbitrary value ring `K` and right-hand side type `R`; no algebraic law
beyond `0 * a = a * 0 = 0` is used.)
Index geometry of the skyline storage: the segments `[ptr[j], ptr[j+1])` are disjoint, so writing one position of
`L`/`U` changes exactly one entry of the dense embedding `Ld`/`Ud`.
-/
namespace Amgcl
open Arr2
namespace SkyNC
open Skyline
open Finset
variable {K R : Type} [Ring K]

/-- profile and array sizes as the constructor allocates them -/
structure StorageWF (S : Skyline K R) : Prop where
  prof : S.WFProfile
  sizeL : S.L.size = S.P S.n
  sizeU : S.U.size = S.P S.n
  sizeD : S.D.size = S.n

theorem P_mono (S : Skyline K R) (hwf : S.WFProfile) (a b : Nat) (hab : a ≤ b) (hb : b ≤ S.n) : S.P a ≤ S.P b := by
  induction b with
  | zero => have : a = 0 := by omega
            subst this; exact le_refl _
  | succ b ih =>
    by_cases h : a = b + 1
    · subst h; exact le_refl _
    · have := ih (by omega) (by omega)
      have := (hwf b (by omega)).1
      omega

/-- position of entry `(i, j)` of the upper part inside `U` lies in segment `j` -/
theorem posU_seg (S : Skyline K R) (hwf : S.WFProfile) (i j : Nat) (hj : j < S.n)
    (h : i < j ∧ j ≤ i + (S.P (j + 1) - S.P j)) :
    S.P j ≤ S.P (j + 1) + i - j ∧ S.P (j + 1) + i - j < S.P (j + 1) := by
  have := hwf j hj
  omega

theorem pos_inj (S : Skyline K R) (hwf : S.WFProfile) (i j i' j' : Nat) (hj : j < S.n) (hj' : j' < S.n)
    (h : i < j ∧ j ≤ i + (S.P (j + 1) - S.P j)) (h' : i' < j' ∧ j' ≤ i' + (S.P (j' + 1) - S.P j'))
    (e : S.P (j + 1) + i - j = S.P (j' + 1) + i' - j') : i = i' ∧ j = j' := by
  obtain ⟨a1, a2⟩ := posU_seg S hwf i j hj h
  obtain ⟨b1, b2⟩ := posU_seg S hwf i' j' hj' h'
  have hjj : j = j' := by
    by_contra hne
    rcases Nat.lt_or_gt_of_ne hne with hlt | hlt
    · have := P_mono S hwf (j + 1) j' (by omega) (by omega); omega
    · have := P_mono S hwf (j' + 1) j (by omega) (by omega); omega
  subst hjj
  have := hwf j hj
  exact ⟨by omega, rfl⟩

/-- writing one in-profile position of `U` -/
theorem Ud_setU (S : Skyline K R) (hst : StorageWF S) (i c : Nat) (v : K) (hc : c < S.n)
    (h : i < c ∧ c ≤ i + (S.P (c + 1) - S.P c)) (i' j' : Nat) (hj' : j' < S.n) :
    Ud { S with U := S.U.setIfInBounds (S.P (c + 1) + i - c) v } i' j'
      = if i' = i ∧ j' = c then v else Ud S i' j' := by
  have hwf := hst.prof
  unfold Ud
  show (if i' < j' ∧ j' ≤ i' + (S.P (j' + 1) - S.P j') then
      (S.U.setIfInBounds (S.P (c + 1) + i - c) v).getD (S.P (j' + 1) + i' - j') 0 else 0) = _
  by_cases hin : i' < j' ∧ j' ≤ i' + (S.P (j' + 1) - S.P j')
  · rw [if_pos hin, if_pos hin, getD_setIfInBounds]
    by_cases he : S.P (c + 1) + i - c = S.P (j' + 1) + i' - j'
    · obtain ⟨e1, e2⟩ := pos_inj S hwf i c i' j' hc hj' h hin he
      obtain ⟨_, a2⟩ := posU_seg S hwf i c hc h
      have := P_mono S hwf (c + 1) S.n (by omega) (le_refl _)
      rw [if_pos ⟨he, by rw [hst.sizeU]; omega⟩, if_pos ⟨e1.symm, e2.symm⟩]
    · rw [if_neg (fun e => he e.1)]
      have : ¬ (i' = i ∧ j' = c) := by rintro ⟨rfl, rfl⟩; exact he rfl
      rw [if_neg this]
  · rw [if_neg hin, if_neg hin]
    have : ¬ (i' = i ∧ j' = c) := by rintro ⟨rfl, rfl⟩; exact hin h
    rw [if_neg this]

/-- writing one in-profile position of `L` -/
theorem Ld_setL (S : Skyline K R) (hst : StorageWF S) (c j : Nat) (v : K) (hc : c < S.n)
    (h : j < c ∧ c ≤ j + (S.P (c + 1) - S.P c)) (i' j' : Nat) (hi' : i' < S.n) :
    Ld { S with L := S.L.setIfInBounds (S.P (c + 1) + j - c) v } i' j'
      = if i' = c ∧ j' = j then v else Ld S i' j' := by
  have hwf := hst.prof
  unfold Ld
  show (if j' < i' ∧ i' ≤ j' + (S.P (i' + 1) - S.P i') then
      (S.L.setIfInBounds (S.P (c + 1) + j - c) v).getD (S.P (i' + 1) + j' - i') 0 else 0) = _
  by_cases hin : j' < i' ∧ i' ≤ j' + (S.P (i' + 1) - S.P i')
  · rw [if_pos hin, if_pos hin, getD_setIfInBounds]
    by_cases he : S.P (c + 1) + j - c = S.P (i' + 1) + j' - i'
    · obtain ⟨e1, e2⟩ := pos_inj S hwf j c j' i' hc hi' h hin he
      obtain ⟨_, a2⟩ := posU_seg S hwf j c hc h
      have := P_mono S hwf (c + 1) S.n (by omega) (le_refl _)
      rw [if_pos ⟨he, by rw [hst.sizeL]; omega⟩, if_pos ⟨e2.symm, e1.symm⟩]
    · rw [if_neg (fun e => he e.1)]
      have : ¬ (i' = c ∧ j' = j) := by rintro ⟨rfl, rfl⟩; exact he rfl
      rw [if_neg this]
  · rw [if_neg hin, if_neg hin]
    have : ¬ (i' = c ∧ j' = j) := by rintro ⟨rfl, rfl⟩; exact hin h
    rw [if_neg this]

theorem storageWF_setU (S : Skyline K R) (hst : StorageWF S) (k : Nat) (v : K) :
    StorageWF { S with U := S.U.setIfInBounds k v } :=
  ⟨hst.prof, hst.sizeL, by show (S.U.setIfInBounds k v).size = _; rw [Array.size_setIfInBounds]; exact hst.sizeU, hst.sizeD⟩

theorem storageWF_setL (S : Skyline K R) (hst : StorageWF S) (k : Nat) (v : K) :
    StorageWF { S with L := S.L.setIfInBounds k v } :=
  ⟨hst.prof, by show (S.L.setIfInBounds k v).size = _; rw [Array.size_setIfInBounds]; exact hst.sizeL, hst.sizeU, hst.sizeD⟩

theorem storageWF_setD (S : Skyline K R) (hst : StorageWF S) (k : Nat) (v : K) :
    StorageWF { S with D := S.D.setIfInBounds k v } :=
  ⟨hst.prof, hst.sizeL, hst.sizeU, by show (S.D.setIfInBounds k v).size = _; rw [Array.size_setIfInBounds]; exact hst.sizeD⟩

/-- dense embedding of the whole storage: strictly lower part, strictly upper part, diagonal -/
def Emb (S : Skyline K R) (i j : Nat) : K := if j < i then Ld S i j else if i < j then Ud S i j else Dd S i

/-- `dotSub` is a subtraction of a sum -/
theorem dotSub_eq (L U : Array K) (iL iU cnt : Nat) (s : K) :
    dotSub L U iL iU cnt s = s - ∑ t ∈ range cnt, L.getD (iL + t) 0 * U.getD (iU + t) 0 := by
  unfold dotSub
  exact foldl_sub_range (fun t => L.getD (iL + t) 0 * U.getD (iU + t) 0) cnt s

/-- the truncated profile dot product of row `r` of `L` (taken from `SL`) with column `q` of `U` (taken from `SU`),
over the common index range below `m`, is the dot product of the dense embeddings -/
theorem dot_profile (SL SU : Skyline K R) (hP : ∀ k, SU.P k = SL.P k) (hwf : SL.WFProfile)
    (r q m : Nat) (hr : r < SL.n) (hq : q < SL.n) (hmr : m ≤ r) (hmq : m ≤ q)
    (hcs : q + SL.P q - SL.P (q + 1) ≤ m) (hrs : r + SL.P r - SL.P (r + 1) ≤ m) :
    ∑ t ∈ range (m - max (q + SL.P q - SL.P (q + 1)) (r + SL.P r - SL.P (r + 1))),
        SL.L.getD (SL.P r + max (q + SL.P q - SL.P (q + 1)) (r + SL.P r - SL.P (r + 1)) - (r + SL.P r - SL.P (r + 1)) + t) 0
        * SU.U.getD (SL.P q + max (q + SL.P q - SL.P (q + 1)) (r + SL.P r - SL.P (r + 1)) - (q + SL.P q - SL.P (q + 1)) + t) 0
      = ∑ j ∈ range m, Ld SL r j * Ud SU j q := by
  obtain ⟨hc1, hc2⟩ := hwf q hq
  obtain ⟨hi1, hi2⟩ := hwf r hr
  generalize hbm : max (q + SL.P q - SL.P (q + 1)) (r + SL.P r - SL.P (r + 1)) = bm
  have hbm1 : q + SL.P q - SL.P (q + 1) ≤ bm := by rw [← hbm]; exact le_max_left _ _
  have hbm2 : r + SL.P r - SL.P (r + 1) ≤ bm := by rw [← hbm]; exact le_max_right _ _
  have hbm3 : bm ≤ m := by rw [← hbm]; exact max_le hcs hrs
  -- split the full sum at bm
  rw [show (∑ j ∈ range m, Ld SL r j * Ud SU j q) = ∑ j ∈ Ico 0 m, Ld SL r j * Ud SU j q from by rw [range_eq_Ico],
    ← sum_Ico_consecutive _ (Nat.zero_le bm) hbm3]
  have hz : ∑ j ∈ Ico 0 bm, Ld SL r j * Ud SU j q = 0 := by
    apply sum_eq_zero; intro j hj
    have hj' := (mem_Ico.mp hj).2
    have hcase : bm = q + SL.P q - SL.P (q + 1) ∨ bm = r + SL.P r - SL.P (r + 1) := by
      rw [← hbm]; rcases le_total (q + SL.P q - SL.P (q + 1)) (r + SL.P r - SL.P (r + 1)) with h | h
      · right; exact max_eq_right h
      · left; exact max_eq_left h
    rcases hcase with h | h
    · have : Ud SU j q = 0 := by
        unfold Ud; rw [hP, hP]; rw [if_neg (by omega)]
      rw [this, mul_zero]
    · have : Ld SL r j = 0 := by
        unfold Ld; rw [if_neg (by omega)]
      rw [this, zero_mul]
  rw [hz, zero_add]
  -- reindex t ↦ bm + t
  have hshift : ∑ j ∈ Ico bm m, Ld SL r j * Ud SU j q = ∑ t ∈ range (m - bm), Ld SL r (bm + t) * Ud SU (bm + t) q := by
    rw [sum_Ico_eq_sum_range]
  rw [hshift]
  apply sum_congr rfl; intro t ht
  have ht' := mem_range.mp ht
  have hL : Ld SL r (bm + t) = SL.L.getD (SL.P r + bm - (r + SL.P r - SL.P (r + 1)) + t) 0 := by
    unfold Ld
    rw [if_pos (by omega)]
    congr 1; omega
  have hU : Ud SU (bm + t) q = SU.U.getD (SL.P q + bm - (q + SL.P q - SL.P (q + 1)) + t) 0 := by
    unfold Ud
    rw [hP, hP, if_pos (by omega)]
    congr 1; omega
  rw [hL, hU]

/-- `dot_profile` with the two arrays given explicitly on a common frame `S` -/
theorem dot_profile' (S : Skyline K R) (L1 U1 : Array K) (hwf : S.WFProfile)
    (r q m : Nat) (hr : r < S.n) (hq : q < S.n) (hmr : m ≤ r) (hmq : m ≤ q)
    (hcs : q + S.P q - S.P (q + 1) ≤ m) (hrs : r + S.P r - S.P (r + 1) ≤ m) :
    ∑ t ∈ range (m - max (q + S.P q - S.P (q + 1)) (r + S.P r - S.P (r + 1))),
        L1.getD (S.P r + max (q + S.P q - S.P (q + 1)) (r + S.P r - S.P (r + 1)) - (r + S.P r - S.P (r + 1)) + t) 0
        * U1.getD (S.P q + max (q + S.P q - S.P (q + 1)) (r + S.P r - S.P (r + 1)) - (q + S.P q - S.P (q + 1)) + t) 0
      = ∑ j ∈ range m, Ld { S with L := L1 } r j * Ud { S with U := U1 } j q :=
  dot_profile { S with L := L1 } { S with U := U1 } (fun _ => rfl) hwf r q m hr hq hmr hmq hcs hrs

theorem Ud_withU (S : Skyline K R) (U1 : Array K) (i j : Nat) :
    Ud { S with U := U1 } i j = if i < j ∧ j ≤ i + (S.P (j + 1) - S.P j) then U1.getD (S.P (j + 1) + i - j) 0 else 0 := rfl
theorem Ld_withL (S : Skyline K R) (L1 : Array K) (i j : Nat) :
    Ld { S with L := L1 } i j = if j < i ∧ i ≤ j + (S.P (i + 1) - S.P i) then L1.getD (S.P (i + 1) + j - i) 0 else 0 := rfl
theorem Ld_withU (S : Skyline K R) (U1 : Array K) (i j : Nat) : Ld { S with U := U1 } i j = Ld S i j := rfl
theorem Ud_withL (S : Skyline K R) (L1 : Array K) (i j : Nat) : Ud { S with L := L1 } i j = Ud S i j := rfl

end SkyNC
end Amgcl
