import Amgcl.Model.LockstepLGMRES
import Amgcl.Proofs.LockstepGMRES
/-!
The serial semantics of the LGMRES program of `Model/LockstepLGMRES.lean` is the statement-by-statement model
`Solver.LGMRES.run` (the one the C01/C05/C15 theorems are about) — including the augmentation vectors and the pointer
members that survive the call.
-/
namespace Amgcl.Lockstep.LGMRES
open Amgcl Amgcl.Solver Amgcl.Lockstep Amgcl.Solver.LGMRES
open Amgcl.Lockstep.GMRES (mgsAcc mgs_eq_acc mgsAcc_succ upd_upd upd_self mgs_congr)

variable {K : Type} [Add K] [Mul K] [Sub K] [Neg K] [Zero K] [One K] [Div K] [DecidableEq K] [LT K] [DecidableLT K]

theorem vS_inj : ∀ a b, vS a = vS b → a = b := by intro a b h; unfold vS at h; omega
theorem vO_inj : ∀ a b, vO a = vO b → a = b := by intro a b h; unfold vO at h; omega

theorem vS_if_O (i a : Nat) : (vS i = vO a) ↔ False := ⟨fun h => by unfold vS vO at h; omega, False.elim⟩
theorem vO_if_S (i a : Nat) : (vO i = vS a) ↔ False := ⟨fun h => by unfold vS vO at h; omega, False.elim⟩
theorem vS_if_R (i : Nat) : (vS i = vR) ↔ False := ⟨fun h => by unfold vS vR at h; omega, False.elim⟩
theorem vO_if_R (i : Nat) : (vO i = vR) ↔ False := ⟨fun h => by unfold vO vR at h; omega, False.elim⟩
theorem vS_if_X (i : Nat) : (vS i = vX) ↔ False := ⟨fun h => by unfold vS vX at h; omega, False.elim⟩
theorem vO_if_X (i : Nat) : (vO i = vX) ↔ False := ⟨fun h => by unfold vO vX at h; omega, False.elim⟩
theorem vR_if_S (i : Nat) : (vR = vS i) ↔ False := ⟨fun h => by unfold vS vR at h; omega, False.elim⟩
theorem vR_if_O (i : Nat) : (vR = vO i) ↔ False := ⟨fun h => by unfold vO vR at h; omega, False.elim⟩
theorem vX_if_S (i : Nat) : (vX = vS i) ↔ False := ⟨fun h => by unfold vS vX at h; omega, False.elim⟩
theorem vX_if_O (i : Nat) : (vX = vO i) ↔ False := ⟨fun h => by unfold vO vX at h; omega, False.elim⟩
theorem vF_if_S (i : Nat) : (vF = vS i) ↔ False := ⟨fun h => by unfold vS vF at h; omega, False.elim⟩
theorem vF_if_O (i : Nat) : (vF = vO i) ↔ False := ⟨fun h => by unfold vO vF at h; omega, False.elim⟩
theorem vF_if_R : (vF = vR) ↔ False := ⟨fun h => by unfold vF vR at h; omega, False.elim⟩
theorem vF_if_X : (vF = vX) ↔ False := ⟨fun h => by unfold vF vX at h; omega, False.elim⟩
theorem vX_if_R : (vX = vR) ↔ False := ⟨fun h => by unfold vX vR at h; omega, False.elim⟩
theorem vR_if_X : (vR = vX) ↔ False := ⟨fun h => by unfold vX vR at h; omega, False.elim⟩

theorem vS_if_eq (a : Nat) (X : Vec K) (g : Nat → Vec K) :
    (fun i => if vS i = vS a then X else g i) = fun i => if i = a then X else g i := by
  funext i
  by_cases hi : i = a
  · subst hi; simp
  · have h1 : vS i ≠ vS a := fun h => hi (vS_inj _ _ h)
    simp only [if_neg h1, if_neg hi]

theorem vO_if_eq (a : Nat) (X : Vec K) (g : Nat → Vec K) :
    (fun i => if vO i = vO a then X else g i) = fun i => if i = a then X else g i := by
  funext i
  by_cases hi : i = a
  · subst hi; simp
  · have h1 : vO i ≠ vO a := fun h => hi (vO_inj _ _ h)
    simp only [if_neg h1, if_neg hi]

/-- a non-null pointer dereferences to its register -/
theorem deref_preg (s : St K (LS K)) (p : Ptr) (hp : p ≠ .null) : deref (workOf s) p = s.vec (preg p) := by
  cases p with
  | null => exact absurd rfl hp
  | vs i => rfl
  | outer i => rfl

theorem pickZ_ne_null (MM cap : Nat) (ov : CBuf) (j : Nat) : pickZ MM cap ov j ≠ .null := by
  unfold pickZ; split <;> simp

theorem preg_ne (p : Ptr) (hp : p ≠ .null) : preg p ≠ vR ∧ preg p ≠ vX ∧ preg p ≠ vF := by
  cases p with
  | null => exact absurd rfl hp
  | vs i => exact ⟨fun h => (vS_if_R i).1 h, fun h => (vS_if_X i).1 h, fun h => (vF_if_S i).1 h.symm⟩
  | outer i => exact ⟨fun h => (vO_if_R i).1 h, fun h => (vO_if_X i).1 h, fun h => (vF_if_O i).1 h.symm⟩

/-- the model states a machine state stands for -/
def decSt (s : St K (LS K)) : Solver.LGMRES.St K := ⟨s.scal.iter, s.scal.nOuter, s.scal.normR, s.vec vX, workOf s⟩
def decIn (s : St K (LS K)) : Solver.LGMRES.In K := ⟨s.scal.j, s.scal.iter, s.scal.innerRes, workOf s⟩

/-- what the statements of the inner loop leave alone -/
structure Frame (s s' : St K (LS K)) : Prop where
  vf : s'.vec vF = s.vec vF
  vx : s'.vec vX = s.vec vX
  normR : s'.scal.normR = s.scal.normR
  nrhs : s'.scal.nrhs = s.scal.nrhs
  eps : s'.scal.epsT = s.scal.epsT
  nOuter : s'.scal.nOuter = s.scal.nOuter

theorem Frame.trans {a b c : St K (LS K)} (h1 : Frame a b) (h2 : Frame b c) : Frame a c :=
  ⟨h2.vf.trans h1.vf, h2.vx.trans h1.vx, h2.normR.trans h1.normR, h2.nrhs.trans h1.nrhs, h2.eps.trans h1.eps,
    h2.nOuter.trans h1.nOuter⟩

/-! ### the Gram–Schmidt loop -/

theorem mgs_fold (A : CRS K) (P : Vec K → Vec K) (ip : Vec K → Vec K → K) (s : St K (LS K)) :
    ∀ n, n ≤ s.scal.j + 1 → ∃ k',
      (List.range n).foldl (fun m k => run A P ip mgsBody { m with scal := { m.scal with k := k } }) s
        = { vec := upd s.vec (vS (s.scal.j + 1))
              (mgsAcc ip ⟨fun i => s.vec (vS i)⟩ s.scal.j s.scal.h.H (s.vec (vS (s.scal.j + 1))) n).2,
            scal := { s.scal with
              k := k',
              h := { s.scal.h with
                H := (mgsAcc ip ⟨fun i => s.vec (vS i)⟩ s.scal.j s.scal.h.H (s.vec (vS (s.scal.j + 1))) n).1 } } } := by
  intro n
  induction n with
  | zero =>
    intro _
    refine ⟨s.scal.k, ?_⟩
    simp only [List.range_zero, List.foldl_nil, mgsAcc]
    rw [upd_self]
  | succ n ih =>
    intro hn
    obtain ⟨k', hk⟩ := ih (by omega)
    refine ⟨n, ?_⟩
    rw [List.range_succ, List.foldl_append, hk, mgsAcc_succ]
    have hne : vS n ≠ vS (s.scal.j + 1) := fun h => by have := vS_inj _ _ h; omega
    simp only [List.foldl_cons, List.foldl_nil, mgsBody, seqs, run, step, setH, upd_apply, if_neg hne, if_true]
    rw [upd_upd]

/-! ### one pass of the inner loop -/

/-- the state after `ws[j] = z; preconditioner::spmv(pside, P, A, *z, v_new, *r)` -/
def afterP (side : Side) (MM cap : Nat) (A : CRS K) (P : Vec K → Vec K) (s : St K (LS K)) : St K (LS K) :=
  let z := pickZ MM cap s.scal.ov s.scal.j
  let xt := pspmv side P A (s.vec (preg z)) (s.vec (vS (s.scal.j + 1))) (s.vec vR)
  { vec := upd (upd s.vec vR xt.2) (vS (s.scal.j + 1)) xt.1,
    scal := { s.scal with wsp := setF s.scal.wsp s.scal.j z } }

theorem pspmv_run (side : Side) (MM cap : Nat) (ip : Vec K → Vec K → K) (A : CRS K) (P : Vec K → Vec K)
    (s : St K (LS K)) :
    run A P ip (pspmvProg side)
      (step A P ip (.sset (fun e => { e with wsp := setF e.wsp e.j (pickZ MM cap e.ov e.j) })) s)
      = afterP side MM cap A P s := by
  cases side <;>
    simp only [pspmvProg, afterP, pspmv, seqs, run, step, R, upd_apply, setF, if_true, vS_if_R, if_false]

theorem afterP_old (side : Side) (MM cap : Nat) (A : CRS K) (P : Vec K → Vec K) (s : St K (LS K)) (k : Nat)
    (hk : k ≤ s.scal.j) : (afterP side MM cap A P s).vec (vS k) = s.vec (vS k) := by
  have h1 : vS k ≠ vS (s.scal.j + 1) := fun h => by have := vS_inj _ _ h; omega
  simp only [afterP, upd_apply, if_neg h1, vS_if_R, if_false]

/-- the serial semantics of lgmres.hpp:290-296 (`for k`, `H(j+1,j) = norm`, normalisation) is `Solver.orth` -/
theorem orth_run (A : CRS K) (P : Vec K → Vec K) (ip : Vec K → Vec K → K) (sqrt : K → K) (s : St K (LS K)) :
    ∃ k', run A P ip (seqs [
        .forN (fun e => e.j + 1) (fun e k => { e with k := k }) mgsBody,
        .prim (.ip (fun e w => setH e (e.j + 1) e.j (Solver.absK (sqrt w)))
          (fun e => vS (e.j + 1)) (fun e => vS (e.j + 1))),
        .prim (.axpby (fun e => inv1 (e.h.H (e.j + 1) e.j)) (fun e => vS (e.j + 1)) (fun _ => 0)
          (fun e => vS (e.j + 1)))]) s
      = { vec := upd s.vec (vS (s.scal.j + 1))
            (orth ip sqrt ⟨fun i => s.vec (vS i)⟩ s.scal.j s.scal.h.H (s.vec (vS (s.scal.j + 1)))).2,
          scal := { s.scal with
            k := k',
            h := { s.scal.h with
              H := (orth ip sqrt ⟨fun i => s.vec (vS i)⟩ s.scal.j s.scal.h.H (s.vec (vS (s.scal.j + 1)))).1 } } } := by
  obtain ⟨k', hk⟩ := mgs_fold A P ip s (s.scal.j + 1) (Nat.le_refl _)
  refine ⟨k', ?_⟩
  have hrun : run A P ip (seqs [
        .forN (fun e => e.j + 1) (fun e k => { e with k := k }) mgsBody,
        .prim (.ip (fun e w => setH e (e.j + 1) e.j (Solver.absK (sqrt w)))
          (fun e => vS (e.j + 1)) (fun e => vS (e.j + 1))),
        .prim (.axpby (fun e => inv1 (e.h.H (e.j + 1) e.j)) (fun e => vS (e.j + 1)) (fun _ => 0)
          (fun e => vS (e.j + 1)))]) s
      = run A P ip (seqs [
          .prim (.ip (fun e w => setH e (e.j + 1) e.j (Solver.absK (sqrt w)))
            (fun e => vS (e.j + 1)) (fun e => vS (e.j + 1))),
          .prim (.axpby (fun e => inv1 (e.h.H (e.j + 1) e.j)) (fun e => vS (e.j + 1)) (fun _ => 0)
            (fun e => vS (e.j + 1)))])
        ((List.range (s.scal.j + 1)).foldl
          (fun m k => run A P ip mgsBody { m with scal := { m.scal with k := k } }) s) := by
    simp [seqs, run]
  rw [hrun, hk, ← mgs_eq_acc]
  simp only [seqs, run, step, setH, upd_apply, if_true, orth, nrmA, upd_upd]

theorem step_dec (side : Side) (MM cap : Nat) (ip : Vec K → Vec K → K) (sqrt : K → K) (A : CRS K)
    (P : Vec K → Vec K) (s : St K (LS K)) :
    decIn (run A P ip (stepProg side MM cap sqrt) s) = Solver.LGMRES.step side MM cap ip sqrt A P (decIn s) ∧
    Frame s (run A P ip (stepProg side MM cap sqrt) s) := by
  obtain ⟨k', hk⟩ := orth_run A P ip sqrt (afterP side MM cap A P s)
  have hrun : run A P ip (stepProg side MM cap sqrt) s
      = step A P ip (.sset (fun e => { e with j := e.j + 1, iter := e.iter + 1 }))
          (step A P ip (.sset (fun e =>
            let r := rotate sqrt e.j e.h e.h.H
            { e with H0 := ⟨fun a b => if b = e.j ∧ a ≤ e.j + 1 then e.h.H a b else e.H0 a b⟩,
                     h := r.1, innerRes := r.2 }))
            (run A P ip (seqs [
              .forN (fun e => e.j + 1) (fun e k => { e with k := k }) mgsBody,
              .prim (.ip (fun e w => setH e (e.j + 1) e.j (Solver.absK (sqrt w)))
                (fun e => vS (e.j + 1)) (fun e => vS (e.j + 1))),
              .prim (.axpby (fun e => inv1 (e.h.H (e.j + 1) e.j)) (fun e => vS (e.j + 1)) (fun _ => 0)
                (fun e => vS (e.j + 1)))]) (afterP side MM cap A P s))) := by
    rw [← pspmv_run side MM cap ip A P s]
    simp only [stepProg, seqs, run]
  rw [hrun, hk]
  have hz := pickZ_ne_null MM cap s.scal.ov s.scal.j
  have hd : deref (workOf s) (pickZ MM cap s.scal.ov s.scal.j) = s.vec (preg (pickZ MM cap s.scal.ov s.scal.j)) :=
    deref_preg s _ hz
  have hc := mgs_congr ip (decIn s).w.vs ⟨fun i => (afterP side MM cap A P s).vec (vS i)⟩ s.scal.j s.scal.h.H
    (pspmv side P A (s.vec (preg (pickZ MM cap s.scal.ov s.scal.j))) (s.vec (vS (s.scal.j + 1))) (s.vec vR)).1
    (fun k hk => afterP_old side MM cap A P s k hk)
  have e1 : (afterP side MM cap A P s).scal.j = s.scal.j := rfl
  have e1h : (afterP side MM cap A P s).scal.h = s.scal.h := rfl
  have e2 : (afterP side MM cap A P s).vec (vS (s.scal.j + 1))
      = (pspmv side P A (s.vec (preg (pickZ MM cap s.scal.ov s.scal.j))) (s.vec (vS (s.scal.j + 1))) (s.vec vR)).1 := by
    simp only [afterP, upd_apply, if_true]
  have hr : (afterP side MM cap A P s).vec vR
      = (pspmv side P A (s.vec (preg (pickZ MM cap s.scal.ov s.scal.j))) (s.vec (vS (s.scal.j + 1))) (s.vec vR)).2 := by
    simp only [afterP, upd_apply, vR_if_S, if_false, if_true]
  have hv : ∀ X : Vec K, (fun i => if vS i = vS (s.scal.j + 1) then X else (afterP side MM cap A P s).vec (vS i))
      = (fun k => if k = s.scal.j + 1 then X else s.vec (vS k)) := by
    intro X
    funext i
    by_cases hi : i = s.scal.j + 1
    · subst hi; simp
    · have h1 : vS i ≠ vS (s.scal.j + 1) := fun h => hi (vS_inj _ _ h)
      simp only [if_neg h1, if_neg hi, afterP, upd_apply, vS_if_R, if_false]
  have ho : (fun i => (afterP side MM cap A P s).vec (vO i)) = fun i => s.vec (vO i) := by
    funext i
    simp only [afterP, upd_apply, vO_if_S, vO_if_R, if_false]
  refine ⟨?_, ?_⟩
  · have hrot : ∀ (X H2 : FArr2 K), rotate sqrt s.scal.j { s.scal.h with H := X } H2 = rotate sqrt s.scal.j s.scal.h H2 :=
      fun _ _ => rfl
    simp only [orth, decIn, workOf] at hc hd ⊢
    simp only [e1, e1h, e2, hc, step, Solver.LGMRES.step, orth, hd, upd_apply, vR_if_S, vO_if_S, if_false, hr, hv, ho, setF,
      hrot]
    rfl
  · constructor <;>
      simp only [step, afterP, upd_apply, vF_if_S, vX_if_S, vF_if_R, vX_if_R, if_false]

/-- no pointer `ws[i]`, `i < j`, of the current cycle is null -/
def NonNull (m : St K (LS K)) : Prop := ∀ i, i < m.scal.j → m.scal.wsp i ≠ .null

theorem step_nonNull (side : Side) (MM cap : Nat) (ip : Vec K → Vec K → K) (sqrt : K → K) (A : CRS K)
    (P : Vec K → Vec K) (s : St K (LS K)) (h : NonNull s) : NonNull (run A P ip (stepProg side MM cap sqrt) s) ∧
    (run A P ip (stepProg side MM cap sqrt) s).scal.j = s.scal.j + 1 := by
  obtain ⟨h1, _⟩ := step_dec side MM cap ip sqrt A P s
  have hj : (run A P ip (stepProg side MM cap sqrt) s).scal.j = s.scal.j + 1 := congrArg Solver.LGMRES.In.j h1
  have hw : (run A P ip (stepProg side MM cap sqrt) s).scal.wsp
      = setF s.scal.wsp s.scal.j (pickZ MM cap s.scal.ov s.scal.j) :=
    congrArg (fun t : Solver.LGMRES.In K => t.w.wsp) h1
  refine ⟨fun i hi => ?_, hj⟩
  rw [hj] at hi
  rw [hw]
  simp only [setF]
  by_cases e : i = s.scal.j
  · rw [if_pos e]; exact pickZ_ne_null _ _ _ _
  · rw [if_neg e]; exact h i (by omega)

theorem start_dec (ip : Vec K → Vec K → K) (A : CRS K) (P : Vec K → Vec K) (s : St K (LS K)) :
    decIn (run A P ip startProg s) = Solver.LGMRES.cycleStart (decSt s) ∧ Frame s (run A P ip startProg s) ∧
    NonNull (run A P ip startProg s) := by
  refine ⟨?_, ?_, ?_⟩
  · simp only [startProg, seqs, run, step, R, decIn, decSt, workOf, Solver.LGMRES.cycleStart, upd_apply,
      vR_if_S, vO_if_S, if_false, vS_if_eq, setF]
  · constructor <;> simp only [startProg, seqs, run, step, R, upd_apply, vX_if_S, vF_if_S, if_false]
  · intro i hi
    simp only [startProg, seqs, run, step] at hi
    exact absurd hi (Nat.not_lt_zero _)

theorem head_dec (side : Side) (ip : Vec K → Vec K → K) (sqrt : K → K) (A : CRS K) (P : Vec K → Vec K)
    (s : St K (LS K)) :
    decSt (run A P ip (headProg side sqrt) s) = Solver.LGMRES.head side ip sqrt A P (s.vec vF) (decSt s) ∧
    (run A P ip (headProg side sqrt) s).vec vF = s.vec vF ∧
    (run A P ip (headProg side sqrt) s).scal.nrhs = s.scal.nrhs ∧
    (run A P ip (headProg side sqrt) s).scal.epsT = s.scal.epsT := by
  cases side
  · simp only [headProg, seqs, run, step, R, decSt, workOf, Solver.LGMRES.head, nrmA, upd_apply,
      vF_if_R, vX_if_R, vF_if_S, vX_if_S, vR_if_S, vS_if_R, vO_if_R, vO_if_S, vS_if_eq, if_false, if_true, setF]
    repeat' (first | trivial | rfl | apply And.intro)
  · simp only [headProg, seqs, run, step, R, decSt, workOf, Solver.LGMRES.head, nrmA, upd_apply,
      vF_if_R, vX_if_R, vS_if_R, vO_if_R, if_false, if_true]
    repeat' (first | trivial | rfl | apply And.intro)

/-! ### back substitution, update of `x`, the new augmentation vector -/

theorem vS_eq_iff (i a : Nat) : (vS i = vS a) ↔ i = a := ⟨vS_inj i a, fun h => by rw [h]⟩
theorem vO_eq_iff (i a : Nat) : (vO i = vO a) ↔ i = a := ⟨vO_inj i a, fun h => by rw [h]⟩
theorem preg_vs (a : Nat) : preg (.vs a) = vS a := rfl
theorem preg_outer (a : Nat) : preg (.outer a) = vO a := rfl

/-- unfold the update program and the model `update`, resolve the register look-ups -/
local macro "lg_simp" loc:(Lean.Parser.Tactic.location)? : tactic =>
  `(tactic| simp only [updProg, seqs, run, step, R, decIn, decSt, workOf, Solver.LGMRES.update, upd_apply, nrmA,
      vF_if_R, vX_if_R, vR_if_X, vF_if_X, vS_if_R, vO_if_R, vS_if_X, vO_if_X, vF_if_O, vX_if_O, vR_if_O, vS_if_O,
      vR_if_S, vX_if_S, vF_if_S, vO_if_S, vO_if_eq, vS_if_eq, if_false, if_true, setF] $[$loc]?)

theorem deref_congr (w w' : Solver.LGMRES.Work K) (p : Ptr) (h1 : w'.vs = w.vs) (h2 : w'.odata = w.odata) :
    deref w' p = deref w p := by
  cases p <;> simp [deref, h1, h2]

theorem upd_dec (prm : Solver.LGMRES.Params K) (ip : Vec K → Vec K → K) (sqrt : K → K) (A : CRS K)
    (P : Vec K → Vec K) (m : St K (LS K)) (st : Solver.LGMRES.St K) (hn : st.normR = m.scal.normR)
    (hx : st.x = m.vec vX) (ho : st.nOuter = m.scal.nOuter) (hnn : NonNull m) (hj : 1 ≤ m.scal.j) :
    decSt (run A P ip (updProg prm.pside prm.K' sqrt) m) = Solver.LGMRES.update prm ip sqrt P st (decIn m) ∧
    (run A P ip (updProg prm.pside prm.K' sqrt) m).vec vF = m.vec vF ∧
    (run A P ip (updProg prm.pside prm.K' sqrt) m).scal.nrhs = m.scal.nrhs ∧
    (run A P ip (updProg prm.pside prm.K' sqrt) m).scal.epsT = m.scal.epsT := by
  -- the coefficient/vector pairs of `lin_comb(j, s, ws, zero, dx)`
  have hcomb : ∀ (S : Nat → K) (w1 : Solver.LGMRES.Work K), w1.vs = (workOf m).vs → w1.odata = (workOf m).odata →
      w1.wsp = m.scal.wsp →
      (List.range m.scal.j).map (fun i => (S i, m.vec (preg (m.scal.wsp i))))
        = combList m.scal.j S (fun i => deref w1 (w1.wsp i)) := by
    intro S w1 e1 e2 e3
    unfold combList
    apply List.map_congr_left
    intro i hi
    rw [e3]
    show (S i, m.vec (preg (m.scal.wsp i))) = (S i, deref w1 (m.scal.wsp i))
    rw [deref_congr (workOf m) w1 _ e1 e2, deref_preg m _ (hnn i (List.mem_range.1 hi))]
  have h0 : m.scal.wsp 0 ≠ .null := hnn 0 (by omega)
  have hc := hcomb (backSubst m.scal.j m.scal.h.H m.scal.h.s).get
    { workOf m with h := { m.scal.h with s := backSubst m.scal.j m.scal.h.H m.scal.h.s } } rfl rfl rfl
  simp only [workOf] at hc
  cases hs : prm.pside
  · -- left
    by_cases hcond : 0 < prm.K' ∧ nrmA ip sqrt (linComb
        (List.map (fun i => ((backSubst m.scal.j m.scal.h.H m.scal.h.s).get i, m.vec (preg (m.scal.wsp.get i))))
          (List.range m.scal.j)) 0 (m.vec vR)) ≠ 0
    all_goals
      lg_simp at hcond ⊢
      simp only [hs, ← hc, hn, hx, ho]
      try lg_simp
      try simp only [hcond, decide_true, decide_false, Bool.and_self, Bool.and_eq_true, decide_eq_true_eq, if_true, if_false,
        and_self, ne_eq, not_false_eq_true, not_true_eq_false, Bool.false_eq_true]
      try lg_simp
      repeat' (first | trivial | rfl | apply And.intro)
  · -- right: `tmp = *ws[0]` is overwritten by `P.apply(dx, tmp)`
    cases hp : m.scal.wsp 0 with
    | null => exact absurd hp h0
    | vs a =>
      have hp' : m.scal.wsp.get 0 = .vs a := hp
      by_cases hcond : 0 < prm.K' ∧ nrmA ip sqrt (linComb
          (List.map (fun i => ((backSubst m.scal.j m.scal.h.H m.scal.h.s).get i, m.vec (preg (m.scal.wsp.get i))))
            (List.range m.scal.j)) 0 (m.vec vR)) ≠ 0
      all_goals
        lg_simp at hcond ⊢
        simp only [hs, ← hc, hn, hx, ho]
        try lg_simp
        try simp only [hp', store, preg_vs, upd_apply, vR_if_S, vX_if_S, vF_if_S, vO_if_S, vS_if_eq, vS_eq_iff, if_false, if_true, setF]
        try simp only [hcond, decide_true, decide_false, Bool.and_self, Bool.and_eq_true, decide_eq_true_eq, if_true,
          if_false, and_self, ne_eq, not_false_eq_true, not_true_eq_false, Bool.false_eq_true]
        try lg_simp
        try simp only [hp', store, preg_vs, upd_apply, vR_if_S, vX_if_S, vF_if_S, vO_if_S, vS_if_eq, vS_eq_iff, if_false, if_true, setF]
        repeat' (first | trivial | rfl | apply And.intro)
    | outer a =>
      have hp' : m.scal.wsp.get 0 = .outer a := hp
      by_cases hcond : 0 < prm.K' ∧ nrmA ip sqrt (linComb
          (List.map (fun i => ((backSubst m.scal.j m.scal.h.H m.scal.h.s).get i, m.vec (preg (m.scal.wsp.get i))))
            (List.range m.scal.j)) 0 (m.vec vR)) ≠ 0
      all_goals
        lg_simp at hcond ⊢
        simp only [hs, ← hc, hn, hx, ho]
        try lg_simp
        try simp only [hp', store, preg_outer, upd_apply, vR_if_O, vX_if_O, vF_if_O, vS_if_O, vO_if_eq, vO_eq_iff, if_false, if_true, setF]
        try simp only [hcond, decide_true, decide_false, Bool.and_self, Bool.and_eq_true, decide_eq_true_eq, if_true,
          if_false, and_self, ne_eq, not_false_eq_true, not_true_eq_false, Bool.false_eq_true]
        try lg_simp
        try simp only [hp', store, preg_outer, upd_apply, vR_if_O, vX_if_O, vF_if_O, vS_if_O, vO_if_eq, vO_eq_iff, if_false, if_true, setF]
        repeat' (first | trivial | rfl | apply And.intro)

/-! ### restart cycle, outer loop, the whole call -/

theorem cycle_dec (prm : Solver.LGMRES.Params K) (ip : Vec K → Vec K → K) (sqrt : K → K) (A : CRS K)
    (P : Vec K → Vec K) (s : St K (LS K)) :
    decSt (run A P ip (cycleProg prm sqrt) s) = Solver.LGMRES.cycle prm ip sqrt A P s.scal.epsT (decSt s) ∧
    (run A P ip (cycleProg prm sqrt) s).vec vF = s.vec vF ∧
    (run A P ip (cycleProg prm sqrt) s).scal.nrhs = s.scal.nrhs ∧
    (run A P ip (cycleProg prm sqrt) s).scal.epsT = s.scal.epsT := by
  have hrun : run A P ip (cycleProg prm sqrt) s = run A P ip (updProg prm.pside prm.K' sqrt)
      (iter (fun m : St K (LS K) => contC prm.maxiter prm.MM m.scal)
        (run A P ip (stepProg prm.pside prm.MM prm.K' sqrt)) prm.MM
        (run A P ip (stepProg prm.pside prm.MM prm.K' sqrt) (run A P ip startProg s))) := by
    simp [cycleProg, seqs, run]
  obtain ⟨hs1, fr1, nn1⟩ := start_dec ip A P s
  obtain ⟨hs2, fr2⟩ := step_dec prm.pside prm.MM prm.K' ip sqrt A P (run A P ip startProg s)
  obtain ⟨nn2, hj2⟩ := step_nonNull prm.pside prm.MM prm.K' ip sqrt A P (run A P ip startProg s) nn1
  have hl := iter_rel (fun (t : Solver.LGMRES.In K) (m : St K (LS K)) =>
      decIn m = t ∧ Frame s m ∧ NonNull m ∧ 1 ≤ m.scal.j)
    (Solver.LGMRES.cont prm.maxiter prm.MM s.scal.epsT) (fun m : St K (LS K) => contC prm.maxiter prm.MM m.scal)
    (Solver.LGMRES.step prm.pside prm.MM prm.K' ip sqrt A P) (run A P ip (stepProg prm.pside prm.MM prm.K' sqrt))
    (fun a b hr => by
      obtain ⟨h1, h2, _, _⟩ := hr
      subst h1
      simp only [contC, Solver.LGMRES.cont, decIn, h2.eps]
      rfl)
    (fun a b hr _ => by
      obtain ⟨h1, h2, h3, h4⟩ := hr
      subst h1
      obtain ⟨g1, g2⟩ := step_dec prm.pside prm.MM prm.K' ip sqrt A P b
      obtain ⟨g3, g4⟩ := step_nonNull prm.pside prm.MM prm.K' ip sqrt A P b h3
      exact ⟨g1, h2.trans g2, g3, by omega⟩)
    prm.MM _ _ ⟨hs2, fr1.trans fr2, nn2, by omega⟩
  obtain ⟨hl1, hl2, hl3, hl4⟩ := hl
  obtain ⟨u1, u2, u3, u4⟩ := upd_dec prm ip sqrt A P _ (decSt s) hl2.normR.symm hl2.vx.symm hl2.nOuter.symm hl3 hl4
  rw [hrun, u1, u2, u3, u4, hl1, hs1]
  exact ⟨rfl, hl2.vf, hl2.nrhs, hl2.eps⟩

/-- machine state `s` stands for the model state `st` at the `break` test of the outer loop -/
structure CorrSt (f : Vec K) (nrhs epsT : K) (st : Solver.LGMRES.St K) (s : St K (LS K)) : Prop where
  vf : s.vec vF = f
  st : decSt s = st
  eps : s.scal.epsT = epsT
  nrhs : s.scal.nrhs = nrhs

theorem outer_corr (prm : Solver.LGMRES.Params K) (ip : Vec K → Vec K → K) (sqrt : K → K) (A : CRS K)
    (P : Vec K → Vec K) (f : Vec K) (nrhs epsT : K) (st : Solver.LGMRES.St K) (s : St K (LS K))
    (h : CorrSt f nrhs epsT st s) :
    CorrSt f nrhs epsT (Solver.LGMRES.outer prm ip sqrt A P f epsT prm.maxiter
        (Solver.LGMRES.head prm.pside ip sqrt A P f st))
      (run A P ip (outerProg prm sqrt) s) := by
  have hrun : run A P ip (outerProg prm sqrt) s
      = iter (fun m : St K (LS K) => goC prm.maxiter m.scal)
          (run A P ip (seqs [cycleProg prm sqrt, headProg prm.pside sqrt])) prm.maxiter
          (run A P ip (headProg prm.pside sqrt) s) := by
    simp [outerProg, seqs, run]
  have hhead : ∀ (st : Solver.LGMRES.St K) (s : St K (LS K)), CorrSt f nrhs epsT st s →
      CorrSt f nrhs epsT (Solver.LGMRES.head prm.pside ip sqrt A P f st) (run A P ip (headProg prm.pside sqrt) s) := by
    intro st s h
    obtain ⟨g1, g2, g3, g4⟩ := head_dec prm.pside ip sqrt A P s
    exact ⟨g2.trans h.vf, by rw [g1, h.vf, h.st], g4.trans h.eps, g3.trans h.nrhs⟩
  rw [hrun]
  unfold Solver.LGMRES.outer
  apply iter_rel (CorrSt f nrhs epsT)
  · intro a b hr
    have h1 : b.scal.iter = a.iter := congrArg Solver.LGMRES.St.iter hr.st
    have h2 : b.scal.normR = a.normR := congrArg Solver.LGMRES.St.normR hr.st
    simp only [goC, Solver.LGMRES.stop, h1, h2, hr.eps]
  · intro a b hr _
    obtain ⟨c1, c2, c3, c4⟩ := cycle_dec prm ip sqrt A P b
    have : CorrSt f nrhs epsT (Solver.LGMRES.cycle prm ip sqrt A P epsT a) (run A P ip (cycleProg prm sqrt) b) :=
      ⟨c2.trans hr.vf, by rw [c1, hr.eps, hr.st], c4.trans hr.eps, c3.trans hr.nrhs⟩
    exact hhead _ _ this
  · exact hhead _ _ h

theorem init_vS (ws : Solver.LGMRES.Work K) (f x0 : Vec K) (i : Nat) : (initState ws f x0).vec (vS i) = ws.vs i := by
  have a1 : vS i ≠ vF := by unfold vS vF; omega
  have a2 : vS i ≠ vX := by unfold vS vX; omega
  have a3 : vS i ≠ vR := by unfold vS vR; omega
  have a4 : vS i ≠ vNull := by unfold vS vNull; omega
  have a5 : vS i % 2 = 0 := by unfold vS; omega
  have a6 : (vS i - 4) / 2 = i := by unfold vS; omega
  simp only [initState, if_neg a1, if_neg a2, if_neg a3, if_neg a4, a5, if_true, a6]

theorem init_vO (ws : Solver.LGMRES.Work K) (f x0 : Vec K) (i : Nat) : (initState ws f x0).vec (vO i) = ws.odata i := by
  have a1 : vO i ≠ vF := by unfold vO vF; omega
  have a2 : vO i ≠ vX := by unfold vO vX; omega
  have a3 : vO i ≠ vR := by unfold vO vR; omega
  have a4 : vO i ≠ vNull := by unfold vO vNull; omega
  have a5 : ¬ (vO i % 2 = 0) := by unfold vO; omega
  have a6 : (vO i - 5) / 2 = i := by unfold vO; omega
  simp only [initState, if_neg a1, if_neg a2, if_neg a3, if_neg a4, if_neg a5, a6]

theorem init_vR (ws : Solver.LGMRES.Work K) (f x0 : Vec K) : (initState ws f x0).vec vR = ws.r := by
  simp [initState, vR, vF, vX]

theorem workOf_init (ws : Solver.LGMRES.Work K) (f x0 : Vec K) (sc : LS K) (hh : sc.h = ws.h) (h0 : sc.H0 = ws.H0)
    (hw : sc.wsp = ws.wsp) :
    workOf { vec := (initState ws f x0).vec, scal := sc } = { ws with ov := sc.ov } := by
  simp only [workOf, init_vS, init_vO, init_vR, hh, h0, hw]

theorem main_corr (prm : Solver.LGMRES.Params K) (ip : Vec K → Vec K → K) (sqrt : K → K) (A : CRS K)
    (P : Vec K → Vec K) (ws : Solver.LGMRES.Work K) (f x0 : Vec K) (s : St K (LS K)) (nrhs : K)
    (hvec : s.vec = (initState ws f x0).vec) (hh : s.scal.h = ws.h) (h0 : s.scal.H0 = ws.H0)
    (hw : s.scal.wsp = ws.wsp) (hnr : s.scal.nrhs = nrhs) :
    CorrSt f nrhs (Solver.maxK (prm.tol * nrhs) prm.abstol)
      (Solver.LGMRES.outer prm ip sqrt A P f (Solver.maxK (prm.tol * nrhs) prm.abstol) prm.maxiter
        (Solver.LGMRES.init prm ip sqrt A P { ws with ov := s.scal.ov } f x0))
      (run A P ip (outerProg prm sqrt)
        (step A P ip (.sset (fun e => { e with epsT := Solver.maxK (prm.tol * e.nrhs) prm.abstol, normR := 0, iter := 0, nOuter := 0 })) s)) := by
  unfold Solver.LGMRES.init
  apply outer_corr
  constructor
  · simp [step, hvec, initState, vF]
  · simp only [decSt, step, hvec]
    rw [workOf_init ws f x0 _ (by exact hh) (by exact h0) (by exact hw)]
    simp [initState, vX, vF]
  · simp [step, hnr]
  · simp [step, hnr]

theorem reset_eq (prm : Solver.LGMRES.Params K) (ws : Solver.LGMRES.Work K) :
    Solver.LGMRES.reset prm ws = { ws with ov := if prm.alwaysReset then .empty else ws.ov } := by
  unfold Solver.LGMRES.reset
  cases prm.alwaysReset <;> rfl

/-- **the serial semantics of the LGMRES program is `Solver.LGMRES.run`**: the same `(iters, residual)`, the same `x`,
the same members of the solver object after the call (`H, s, cs, sn, H0`, `r`, all `vs[i]`, the pointers `ws`, the
augmentation vectors `outer_v_data` and the circular buffer `outer_v`) -/
theorem prog_eq_run (prm : Solver.LGMRES.Params K) (ip : Vec K → Vec K → K) (sqrt : K → K) (eps : K) (A : CRS K)
    (P : Vec K → Vec K) (ws : Solver.LGMRES.Work K) (f x0 : Vec K) :
    Solver.LGMRES.run prm ip sqrt eps A P ws f x0
      = (.ok (outOf (run A P ip (prog prm sqrt eps) (initState ws f x0)).scal),
         (run A P ip (prog prm sqrt eps) (initState ws f x0)).vec vX,
         workOf (run A P ip (prog prm sqrt eps) (initState ws f x0))) := by
  -- the state after `if (always_reset) outer_v.clear(); norm_rhs = norm(rhs)`
  have hs1 : step A P ip (.ip (fun e w => { e with nrhs := Solver.absK (sqrt w) }) (R vF) (R vF))
      (run A P ip (if prm.alwaysReset then .prim (.sset (fun e => { e with ov := .empty })) else .skip)
        (initState ws f x0))
      = { vec := (initState ws f x0).vec,
          scal := { (initState ws f x0).scal with
            nrhs := nrmA ip sqrt f, ov := if prm.alwaysReset then .empty else ws.ov } } := by
    cases prm.alwaysReset <;> simp [run, step, R, nrmA, initState, vF]
  unfold Solver.LGMRES.run prologueA
  simp only [prog, run, hs1, reset_eq]
  by_cases hlt : nrmA ip sqrt f < eps
  · simp only [hlt, decide_true, if_true]
    cases hns : prm.nsSearch
    · simp only [Bool.false_eq_true, if_false, seqs, run, step, R, outOf]
      simp only [workOf, upd_apply, vS_if_X, vO_if_X, vR_if_X, if_false, if_true, init_vS, init_vO, init_vR]
      simp [initState, vX, vF]
    · simp only [if_true, mainProg, seqs, run]
      obtain ⟨_, hst, _, hn⟩ := main_corr prm ip sqrt A P ws f x0
        (step A P ip (.sset (fun e => { e with nrhs := 1 }))
          { vec := (initState ws f x0).vec,
            scal := { (initState ws f x0).scal with
              nrhs := nrmA ip sqrt f, ov := if prm.alwaysReset then .empty else ws.ov } }) 1
        rfl rfl rfl rfl rfl
      generalize run A P ip (outerProg prm sqrt) _ = X at hst hn ⊢
      simp only [step] at hst
      rw [← hst]
      simp only [step, outOf, decSt, workOf, hn]
  · simp only [hlt, decide_false, Bool.false_eq_true, if_false, mainProg, seqs, run]
    obtain ⟨_, hst, _, hn⟩ := main_corr prm ip sqrt A P ws f x0
        { vec := (initState ws f x0).vec,
          scal := { (initState ws f x0).scal with
            nrhs := nrmA ip sqrt f, ov := if prm.alwaysReset then .empty else ws.ov } }
        (nrmA ip sqrt f) rfl rfl rfl rfl rfl
    generalize run A P ip (outerProg prm sqrt) _ = X at hst hn ⊢
    rw [← hst]
    simp only [step, outOf, decSt, workOf, hn]

end Amgcl.Lockstep.LGMRES
