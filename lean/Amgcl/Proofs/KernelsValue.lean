import Amgcl.Model.KernelsValue
import Amgcl.Proofs.KernelsGershgorin
import Mathlib.Analysis.Normed.Module.Basic
import Mathlib.Analysis.Normed.Ring.Basic
import Mathlib.Analysis.Normed.MulAction
import Mathlib.LinearAlgebra.Matrix.Notation
import Mathlib.Data.Real.Basic
import Mathlib.Tactic.FinCases
/-!
# C08c — the Gershgorin branch of `spectral_radius` at a value type `V` with scalar type `S` (`Model/KernelsValue.lean`)

* arithmetic core (any linearly ordered field `S`, any `norm : V → S` with non-negative values, ANY `inv`): the estimate is
  the running maximum of the row values `(Σ_j norm a_ij) * norm (inv dia_i)`, `dia_i` the LAST stored diagonal entry of row `i`
  (when every row stores one), resp. `Σ_j norm a_ij`; it dominates every row value, is attained, and the fall-back
  `if (radius < 0) return 2` is dead.
* block Gershgorin bound: for a normed ring `V` (submultiplicative norm: Frobenius, operator norms, …) acting boundedly on a
  normed group `E` (`‖v • x‖ ≤ ‖v‖ * ‖x‖`), every block vector `x ≠ 0` with `D⁻¹ A x = μ x` row by row —
  `inv dia_i • Σ_{stored (j, a_ij)} a_ij • x_j = μ • x_i` — has `‖μ‖ ≤` estimate.
-/
namespace Amgcl.KV
open Amgcl

section core
variable {V S : Type} [Field S] [LinearOrder S] [IsStrictOrderedRing S]

/-- sum of the norms of the stored entries of a row -/
def rowNormSum (norm : V → S) (r : Row V) : S := (r.map (fun cv => norm cv.2)).sum

omit [LinearOrder S] [IsStrictOrderedRing S] in
theorem rowNormSum_cons (norm : V → S) (cv : Nat × V) (t : Row V) :
    rowNormSum norm (cv :: t) = norm cv.2 + rowNormSum norm t := by
  unfold rowNormSum; rw [List.map_cons, List.sum_cons]

theorem rowNormSum_nonneg (norm : V → S) (hn : ∀ v, 0 ≤ norm v) (r : Row V) : 0 ≤ rowNormSum norm r := by
  induction r with
  | nil => exact le_refl _
  | cons cv t ih => rw [rowNormSum_cons]; exact add_nonneg (hn _) ih

omit [LinearOrder S] [IsStrictOrderedRing S] in
/-- the inner loop: `(s, dia)` after one row -/
theorem gersh_inner (norm : V → S) (scaled : Bool) (i : Nat) (r : Row V) (s0 : S) (d0 : V) :
    r.foldl (fun (sd : S × V) cv =>
        (sd.1 + norm cv.2, if (scaled && decide (cv.1 = i)) = true then cv.2 else sd.2)) (s0, d0)
      = (s0 + rowNormSum norm r, if scaled = true then K2.lastDiag i r d0 else d0) := by
  induction r generalizing s0 d0 with
  | nil => simp [rowNormSum, K2.lastDiag]
  | cons cv t ih =>
    rw [List.foldl_cons, ih, rowNormSum_cons, add_assoc, K2.lastDiag_cons]
    cases scaled
    · simp
    · simp

/-- the value the row loop adds to the running maximum for row `i` entered with `dia = d0` -/
def rowVal (norm : V → S) (inv : V → V) (scaled : Bool) (i : Nat) (r : Row V) (d0 : V) : S :=
  if scaled = true then rowNormSum norm r * norm (inv (K2.lastDiag i r d0)) else rowNormSum norm r

omit [LinearOrder S] [IsStrictOrderedRing S] in
theorem gershRowV_eq (norm : V → S) (inv : V → V) (scaled : Bool) (i : Nat) (r : Row V) (d0 : V) :
    gershRowV norm inv scaled i r d0
      = (rowVal norm inv scaled i r d0, if scaled = true then K2.lastDiag i r d0 else d0) := by
  unfold gershRowV rowVal
  rw [gersh_inner, zero_add]
  cases scaled <;> simp

theorem rowVal_nonneg (norm : V → S) (hn : ∀ v, 0 ≤ norm v) (inv : V → V) (scaled : Bool) (i : Nat) (r : Row V)
    (d0 : V) : 0 ≤ rowVal norm inv scaled i r d0 := by
  unfold rowVal
  split
  · exact mul_nonneg (rowNormSum_nonneg norm hn r) (hn _)
  · exact rowNormSum_nonneg norm hn r

/-- `(emax, dia)` after the rows `0 .. k-1` -/
def gershState (norm : V → S) (inv : V → V) (one : V) (scaled : Bool) (A : CRS V) (k : Nat) : S × V :=
  (List.range k).foldl (fun (acc : S × V) i =>
      let rs := gershRowV norm inv scaled i (A.row i) acc.2
      (maxK acc.1 rs.1, rs.2)) ((0 : S), one)

omit [IsStrictOrderedRing S] in
theorem gershState_succ (norm : V → S) (inv : V → V) (one : V) (scaled : Bool) (A : CRS V) (k : Nat) :
    gershState norm inv one scaled A (k + 1)
      = (max (gershState norm inv one scaled A k).1
            (rowVal norm inv scaled k (A.row k) (gershState norm inv one scaled A k).2),
         if scaled = true then K2.lastDiag k (A.row k) (gershState norm inv one scaled A k).2
         else (gershState norm inv one scaled A k).2) := by
  unfold gershState
  rw [List.range_succ, List.foldl_append, List.foldl_cons, List.foldl_nil]
  simp only [gershRowV_eq, K2.maxK_eq_max]

theorem gershState_nonneg (norm : V → S) (inv : V → V) (one : V) (scaled : Bool) (A : CRS V) (k : Nat) :
    0 ≤ (gershState norm inv one scaled A k).1 := by
  induction k with
  | zero => exact le_refl _
  | succ k ih => rw [gershState_succ]; exact le_trans ih (le_max_left _ _)

theorem gershState_mono (norm : V → S) (inv : V → V) (one : V) (scaled : Bool) (A : CRS V) {k l : Nat} (h : k ≤ l) :
    (gershState norm inv one scaled A k).1 ≤ (gershState norm inv one scaled A l).1 := by
  induction l with
  | zero => have : k = 0 := by omega
            subst this; exact le_refl _
  | succ l ih =>
    rcases Nat.lt_or_ge k (l + 1) with hk | hk
    · rw [gershState_succ]; exact le_trans (ih (by omega)) (le_max_left _ _)
    · have : k = l + 1 := by omega
      subst this; exact le_refl _

theorem gershgorinV_eq_state (norm : V → S) (inv : V → V) (one : V) (scaled : Bool) (A : CRS V) :
    gershgorinV norm inv one scaled A = (gershState norm inv one scaled A A.nrows).1 := by
  have h := gershState_nonneg norm inv one scaled A A.nrows
  show (if (gershState norm inv one scaled A A.nrows).1 < 0 then 1 + 1 else _) = _
  rw [if_neg (not_lt.2 h)]
  rfl

/-- the estimate dominates the value of every row (entered with the `dia` left by the rows before it) -/
theorem gershgorinV_ge_rowVal (norm : V → S) (inv : V → V) (one : V) (scaled : Bool) (A : CRS V) (i : Nat)
    (hi : i < A.nrows) :
    rowVal norm inv scaled i (A.row i) (gershState norm inv one scaled A i).2 ≤ gershgorinV norm inv one scaled A := by
  rw [gershgorinV_eq_state]
  refine le_trans ?_ (gershState_mono norm inv one scaled A (show i + 1 ≤ A.nrows by omega))
  rw [gershState_succ]; exact le_max_right _ _

/-- … and is the value of one of them (`0` for a matrix without rows) -/
theorem gershgorinV_attained (norm : V → S) (hn : ∀ v, 0 ≤ norm v) (inv : V → V) (one : V) (scaled : Bool) (A : CRS V) :
    (A.nrows = 0 ∧ gershgorinV norm inv one scaled A = 0) ∨
    ∃ i, i < A.nrows ∧ gershgorinV norm inv one scaled A
      = rowVal norm inv scaled i (A.row i) (gershState norm inv one scaled A i).2 := by
  rw [gershgorinV_eq_state]
  generalize A.nrows = n
  induction n with
  | zero => exact Or.inl ⟨rfl, rfl⟩
  | succ n ih =>
    right
    rw [gershState_succ]
    rcases max_choice (gershState norm inv one scaled A n).1
        (rowVal norm inv scaled n (A.row n) (gershState norm inv one scaled A n).2) with h | h
    · rcases ih with ⟨hn0, h0⟩ | ⟨i, hi, he⟩
      · subst hn0
        refine ⟨0, by omega, ?_⟩
        have h1 : rowVal norm inv scaled 0 (A.row 0) (gershState norm inv one scaled A 0).2 ≤ 0 := by
          have := le_max_right (gershState norm inv one scaled A 0).1
            (rowVal norm inv scaled 0 (A.row 0) (gershState norm inv one scaled A 0).2)
          rw [h, h0] at this; exact this
        show max _ _ = _
        rw [h, h0]
        exact le_antisymm (rowVal_nonneg norm hn inv scaled 0 _ _) h1
      · exact ⟨i, by omega, by show max _ _ = _; rw [h, he]⟩
    · exact ⟨n, by omega, h⟩

/-- unscaled: every row sum of norms is below the estimate -/
theorem gershgorinV_false_ge (norm : V → S) (inv : V → V) (one : V) (A : CRS V) (i : Nat) (hi : i < A.nrows) :
    rowNormSum norm (A.row i) ≤ gershgorinV norm inv one false A := by
  have h := gershgorinV_ge_rowVal norm inv one false A i hi
  simpa [rowVal] using h

/-- scaled, every row storing a diagonal entry: the row sum times the norm of the INVERSE of the (last stored) diagonal
entry is below the estimate — whatever `dia` the previous rows left (`d` arbitrary) -/
theorem gershgorinV_true_ge (norm : V → S) (inv : V → V) (one : V) (A : CRS V) (i : Nat) (hi : i < A.nrows)
    (hdiag : i ∈ (A.row i).map (·.1)) (d : V) :
    rowNormSum norm (A.row i) * norm (inv (K2.lastDiag i (A.row i) d)) ≤ gershgorinV norm inv one true A := by
  have h := gershgorinV_ge_rowVal norm inv one true A i hi
  rw [K2.lastDiag_of_mem i (A.row i) d (gershState norm inv one true A i).2 hdiag]
  simpa [rowVal] using h

end core

/-! ## the bound -/

section bound
variable {V E 𝕜 : Type} [NormedRing V] [NormedAddCommGroup E] [Module V E] [IsBoundedSMul V E]
  [NormedField 𝕜] [NormedSpace 𝕜 E]

/-- the block row of the sparse matrix-vector product: `sum += a.value() * x[a.col()]` over the stored entries -/
def blockRowDot (r : Row V) (x : Nat → E) : E := (r.map (fun cv => cv.2 • x cv.1)).sum

omit [NormedField 𝕜] [NormedSpace 𝕜 E] in
theorem norm_blockRowDot_le (r : Row V) (x : Nat → E) (c : ℝ) (h : ∀ cv ∈ r, ‖x cv.1‖ ≤ c) :
    ‖blockRowDot r x‖ ≤ rowNormSum (fun v : V => ‖v‖) r * c := by
  induction r with
  | nil => simp [blockRowDot, rowNormSum]
  | cons cv t ih =>
    have ht : ∀ cv ∈ t, ‖x cv.1‖ ≤ c := fun cv' h' => h cv' (List.mem_cons_of_mem _ h')
    have h1 : ‖cv.2 • x cv.1‖ ≤ ‖cv.2‖ * c :=
      le_trans (norm_smul_le _ _) (mul_le_mul_of_nonneg_left (h cv List.mem_cons_self) (norm_nonneg _))
    have h2 := ih ht
    unfold blockRowDot at h2 ⊢
    rw [List.map_cons, List.sum_cons, rowNormSum_cons, add_mul]
    exact le_trans (norm_add_le _ _) (add_le_add h1 h2)

/-- a block vector that is not zero on the rows has a row of largest, positive norm -/
theorem exists_max_row (n : Nat) (x : Nat → E) (hx : ∃ i, i < n ∧ x i ≠ 0) :
    ∃ i, i < n ∧ 0 < ‖x i‖ ∧ ∀ j, j < n → ‖x j‖ ≤ ‖x i‖ := by
  obtain ⟨i0, hi0, hne⟩ := hx
  obtain ⟨i, hi, hmax⟩ := Finset.exists_max_image (Finset.range n) (fun i => ‖x i‖) ⟨i0, Finset.mem_range.2 hi0⟩
  refine ⟨i, Finset.mem_range.1 hi, ?_, fun j hj => hmax j (Finset.mem_range.2 hj)⟩
  exact lt_of_lt_of_le (norm_pos_iff.2 hne) (hmax i0 (Finset.mem_range.2 hi0))

/-- **block Gershgorin**, abstract form: if `dinv • (Σ_j a_j • x_j) = μ • x_i` on a row where `‖x_j‖ ≤ ‖x_i‖`,
`x_i ≠ 0`, then `‖μ‖ ≤ (Σ_j ‖a_j‖) * ‖dinv‖` -/
theorem eigen_row_bound (r : Row V) (dinv : V) (x : Nat → E) (μ : 𝕜) (i : Nat) (hpos : 0 < ‖x i‖)
    (hle : ∀ cv ∈ r, ‖x cv.1‖ ≤ ‖x i‖) (heq : dinv • blockRowDot r x = μ • x i) :
    ‖μ‖ ≤ rowNormSum (fun v : V => ‖v‖) r * ‖dinv‖ := by
  have h1 : ‖μ‖ * ‖x i‖ = ‖dinv • blockRowDot r x‖ := by rw [heq, norm_smul]
  have h2 : ‖dinv • blockRowDot r x‖ ≤ ‖dinv‖ * (rowNormSum (fun v : V => ‖v‖) r * ‖x i‖) :=
    le_trans (norm_smul_le _ _) (mul_le_mul_of_nonneg_left (norm_blockRowDot_le r x _ hle) (norm_nonneg _))
  have h3 : ‖μ‖ * ‖x i‖ ≤ (rowNormSum (fun v : V => ‖v‖) r * ‖dinv‖) * ‖x i‖ := by
    rw [h1]; refine le_trans h2 (le_of_eq ?_); ring
  exact le_of_mul_le_mul_right h3 hpos

/-- unscaled form: `Σ_j a_j • x_j = μ • x_i` gives `‖μ‖ ≤ Σ_j ‖a_j‖` -/
theorem eigen_row_bound_unscaled (r : Row V) (x : Nat → E) (μ : 𝕜) (i : Nat) (hpos : 0 < ‖x i‖)
    (hle : ∀ cv ∈ r, ‖x cv.1‖ ≤ ‖x i‖) (heq : blockRowDot r x = μ • x i) :
    ‖μ‖ ≤ rowNormSum (fun v : V => ‖v‖) r := by
  have h1 : ‖μ‖ * ‖x i‖ = ‖blockRowDot r x‖ := by rw [heq, norm_smul]
  have h3 : ‖μ‖ * ‖x i‖ ≤ rowNormSum (fun v : V => ‖v‖) r * ‖x i‖ := by
    rw [h1]; exact norm_blockRowDot_le r x _ hle
  exact le_of_mul_le_mul_right h3 hpos

end bound

/-- exactly one stored entry on the diagonal position: `dia` after the row loop is that entry -/
theorem lastDiag_of_unique {V : Type} (r : Row V) (i : Nat)
    (h1 : (r.filter (fun cv => decide (cv.1 = i))).length = 1) (d : V) (hd : (i, d) ∈ r) (d0 : V) :
    K2.lastDiag i r d0 = d := by
  obtain ⟨pre, v, post, hrow, hpre, hpost⟩ := K2.exists_split_of_filter_length_one r i h1
  have hv : d = v := by
    rw [hrow, List.mem_append, List.mem_cons] at hd
    rcases hd with hd | hd | hd
    · exact absurd (List.mem_map.2 ⟨(i, d), hd, rfl⟩) hpre
    · exact (Prod.mk.inj hd).2
    · exact absurd (List.mem_map.2 ⟨(i, d), hd, rfl⟩) hpost
  rw [hrow, K2.lastDiag_append, K2.lastDiag_cons, if_pos rfl, K2.lastDiag_of_not_mem i post _ hpost, hv]

theorem mem_cols_of_mem {V : Type} (r : Row V) (i : Nat) (d : V) (hd : (i, d) ∈ r) : i ∈ r.map (·.1) :=
  List.mem_map.2 ⟨(i, d), hd, rfl⟩

/-! ## a concrete block matrix for the non-vacuity examples of `Properties/C08c.lean` -/
namespace Example
open Matrix

def exD : Matrix (Fin 2) (Fin 2) ℝ := !![1, 1; 0, 1]
def exDinv : Matrix (Fin 2) (Fin 2) ℝ := !![1, -1; 0, 1]
def exB : Matrix (Fin 2) (Fin 2) ℝ := !![0, 0; 1, 0]
/-- `[[D, B], [0, D]]` with the first row stored out of order; `D B ≠ B D` -/
def exA : CRS (Matrix (Fin 2) (Fin 2) ℝ) := ⟨2, #[[(1, exB), (0, exD)], [(1, exD)]]⟩
def exX : Nat → Matrix (Fin 2) (Fin 2) ℝ := fun i => if i = 0 then 1 else 0
def exX1 : Nat → Matrix (Fin 2) (Fin 2) ℝ := fun i => if i = 0 then !![1, 0; 0, 0] else 0

theorem exDinv_mul : exDinv * exD = 1 := by
  ext i j; fin_cases i <;> fin_cases j <;> simp [exD, exDinv, Matrix.mul_apply, Fin.sum_univ_two]

theorem exD_mul : exD * !![1, 0; 0, 0] = !![1, 0; 0, 0] := by
  ext i j; fin_cases i <;> fin_cases j <;> simp [exD, Matrix.mul_apply, Fin.sum_univ_two]

end Example

end Amgcl.KV
