import Amgcl.Model.TentativeProlongation
import Amgcl.Proofs.Primitives
/-!
Helper lemmas for the piecewise-constant tentative prolongation.
-/
namespace Amgcl
namespace Coarsening
open Finset

section
variable {K : Type} [Semiring K]

theorem ptent_nrows (n naggr : Nat) (id : Array Int) : (tentativeProlongation n naggr id : CRS K).nrows = n := by
  simp [tentativeProlongation, CRS.nrows]

theorem ptent_row (n naggr : Nat) (id : Array Int) (i : Nat) (hi : i < n) :
    (tentativeProlongation n naggr id : CRS K).row i =
      if id.getD i aggrRemoved ≥ 0 then [((id.getD i aggrRemoved).toNat, (1 : K))] else [] := by
  unfold CRS.row tentativeProlongation
  simp [Array.getD_eq_getD_getElem?, hi]

theorem ptent_row_out (n naggr : Nat) (id : Array Int) (i : Nat) (hi : ¬ i < n) :
    (tentativeProlongation n naggr id : CRS K).row i = [] := by
  unfold CRS.row tentativeProlongation
  rw [Array.getD_eq_getD_getElem?, Array.getElem?_eq_none (by simp; omega)]; rfl

/-- entry `(i, c)` of `P_tent` -/
theorem ptent_get (n naggr : Nat) (id : Array Int) (i c : Nat) :
    (tentativeProlongation n naggr id : CRS K).get i c =
      if i < n ∧ id.getD i aggrRemoved = (c : Int) then 1 else 0 := by
  unfold CRS.get
  by_cases hi : i < n
  · rw [ptent_row n naggr id i hi]
    by_cases h0 : id.getD i aggrRemoved ≥ 0
    · rw [if_pos h0]
      unfold rowGet
      simp only [List.foldr_cons, List.foldr_nil, add_zero]
      by_cases hc : (id.getD i aggrRemoved).toNat = c
      · rw [if_pos hc, if_pos ⟨hi, by omega⟩]
      · rw [if_neg hc, if_neg]; rintro ⟨_, h⟩; exact hc (by omega)
    · rw [if_neg h0, if_neg]
      · rfl
      · rintro ⟨_, h⟩; omega
  · rw [ptent_row_out n naggr id i hi, if_neg (fun h => hi h.1)]; rfl

/-- `P_tent · 1`: one on aggregated rows, zero elsewhere -/
theorem ptent_rowsum (n naggr : Nat) (id : Array Int) (i : Nat) (hi : i < n)
    (hlt : id.getD i aggrRemoved < (naggr : Int)) :
    ∑ c ∈ range naggr, (tentativeProlongation n naggr id : CRS K).get i c =
      if id.getD i aggrRemoved ≥ 0 then 1 else 0 := by
  simp only [ptent_get]
  by_cases h0 : id.getD i aggrRemoved ≥ 0
  · rw [if_pos h0, sum_eq_single_of_mem (id.getD i aggrRemoved).toNat (mem_range.2 (by omega))]
    · rw [if_pos ⟨hi, by omega⟩]
    · intro c _ hc; rw [if_neg]; rintro ⟨_, h⟩; exact hc (by omega)
  · rw [if_neg h0]
    apply sum_eq_zero
    intro c _; rw [if_neg]; rintro ⟨_, h⟩; omega

end
end Coarsening
end Amgcl
