import Amgcl.Proofs.RelaxSymIlu
import Amgcl.Proofs.RelaxScaleIlup
import Amgcl.Proofs.BridgeMat
import Amgcl.Proofs.BridgeVec
import Amgcl.Proofs.EnergyBuild
import Amgcl.Properties.C06
import Mathlib.LinearAlgebra.Matrix.ToLin
/-!
# The ILU sweep as a matrix; symmetry of the cycle for symmetric smoothers without any contraction hypothesis

* `iluN ω F n` — the matrix `N` of the sweep `x ← x + ω·solve(f − A x)` (`solve` is linear: `iluSolve_vlin`), with
  `SweepIs` for the model sweep (`sweepIs_ilu`);
* `iluN_transpose` — `N` is symmetric when `M = (I+L)(D⁻¹+U)` is (ILU(0) of a symmetric matrix: `iluM_transpose`);
* `Hier.SymStruct`, `Hier.B_transpose_struct` — `B_symmetric` of C02b under the structural hypotheses only (`A_l`
  symmetric, `R = Pᵀ`, `post = preᵀ`, `npre = npost`): no positive definiteness, no contraction — so it applies to
  ILU(0) and Chebyshev smoothing, for which `Hier.OK` is not available.
-/
set_option linter.unusedSectionVars false
namespace Amgcl.Energy
open Matrix Finset Amgcl Amgcl.Relax Amgcl.Energy.Bridge

section struct
universe u
variable {𝕜 : Type u} [Field 𝕜]

/-- structural part of `Hier.OK`: symmetric level matrices, `R = Pᵀ` -/
def Hier.SymStruct : {n : ℕ} → Hier 𝕜 n → Prop
  | _, .direct A => Aᵀ = A
  | _, .relax A _ _ => Aᵀ = A
  | _, .level A _ _ P R next => Aᵀ = A ∧ R = Pᵀ ∧ next.SymStruct

end struct

section struct2
universe u
variable {𝕜 : Type u} [Field 𝕜] [LinearOrder 𝕜] [IsStrictOrderedRing 𝕜]

/-- **`B` is symmetric** for a symmetric cycle, structural hypotheses only -/
theorem Hier.B_transpose_struct (p : CycPrm) (hnu : p.npre = p.npost) :
    ∀ {n : ℕ} (h : Hier 𝕜 n), h.SymStruct → h.Sym → (h.B p)ᵀ = h.B p
  | _, .direct A, hok, _ => by
    simp only [Hier.B]; rw [transpose_nonsing_inv, show Aᵀ = A from hok]
  | _, .relax A N₁ N₂, hok, hsym => by
    simp only [Hier.Sym] at hsym
    subst hsym
    have hA : Aᵀ = A := hok
    simp only [Hier.B]
    rw [seqB_transpose _ _ _ hA, powB_transpose _ _ hA, powB_transpose _ _ hA, transpose_transpose, hnu]
  | _, .level A N₁ N₂ P R next, hok, hsym => by
    obtain ⟨hA, hR, hn⟩ := hok
    obtain ⟨hN, hns⟩ := hsym
    subst hN hR
    simp only [Hier.B]
    rw [powB_transpose _ _ hA, Hier.bodyB_transpose p hnu hA P (Hier.B_transpose_struct p hnu next hn hns)]

theorem Hier.applyB_transpose_struct (p : CycPrm) (hnu : p.npre = p.npost) (k : ℕ) {n : ℕ} (h : Hier 𝕜 n)
    (hA : h.Aᵀ = h.A) (hok : h.SymStruct) (hsym : h.Sym) : (h.applyB p k)ᵀ = h.applyB p k := by
  rw [Hier.applyB, powB_transpose _ _ hA, Hier.B_transpose_struct p hnu h hok hsym]

end struct2

section ilu
variable {K : Type} [Field K] [DecidableEq K]

theorem ofFn_lin {n : Nat} (a b : K) (u v : Fin n → K) :
    (Array.ofFn (a • u + b • v) : Vec K) = vlin a (Array.ofFn u) b (Array.ofFn v) := by
  apply vecOf_ext (n := n) (by simp) (by simp)
  rw [vecOf_ofFn, vecOf_vlin a b _ _ (by simp) (by simp), vecOf_ofFn, vecOf_ofFn]

/-- the triangular solve as a linear map on `Fin n → K` -/
def iluLin (F : IluFactors K) (n : Nat) : (Fin n → K) →ₗ[K] (Fin n → K) :=
  IsLinearMap.mk' (fun v => vecOf n (iluSolve F (Array.ofFn v)))
    { map_add := fun u v => by
        have h := ofFn_lin (1 : K) 1 u v
        rw [one_smul, one_smul] at h
        rw [h, iluSolve_vlin F 1 1 _ _ (by simp), vecOf_vlin 1 1 _ _ (by simp) (by simp), one_smul, one_smul]
      map_smul := fun a v => by
        have h := ofFn_lin a 0 v v
        rw [zero_smul, add_zero] at h
        rw [h, iluSolve_vlin F a 0 _ _ rfl, vecOf_vlin a 0 _ _ (by simp) (by simp), zero_smul, add_zero] }

/-- the matrix of the ILU sweep: `N = ω · M⁻¹` -/
noncomputable def iluN (ω : K) (F : IluFactors K) (n : Nat) : Matrix (Fin n) (Fin n) K :=
  ω • LinearMap.toMatrix' (iluLin F n)

theorem iluN_mulVec (ω : K) (F : IluFactors K) (n : Nat) (b : Vec K) (hb : b.size = n) :
    iluN ω F n *ᵥ vecOf n b = ω • vecOf n (iluSolve F b) := by
  unfold iluN
  rw [smul_mulVec, LinearMap.toMatrix'_mulVec]
  congr 1
  show vecOf n (iluSolve F (Array.ofFn (vecOf n b))) = _
  have : (Array.ofFn (vecOf n b) : Vec K) = b := vecOf_ext (n := n) (by simp) hb (vecOf_ofFn _)
  rw [this]

/-- the model sweep of ILU(0) / ILU(k) / ILUP (`iluSweep ω F A`) is `x ↦ x + N (f − A x)` with `N = iluN ω F n` -/
theorem sweepIs_ilu (ω : K) (F : IluFactors K) (A : CRS K) {n : Nat} (hn : A.nrows = n) (hc : ColsLt A n) :
    SweepIs (iluSweep ω F A) n (matOf A n n) (iluN ω F n) := by
  intro f x t _ hx
  unfold iluSweep
  simp only []
  rw [step, ← vecOf_residual A hn hc f x, iluN_mulVec ω F n _ (by simp [hn])]
  funext i
  rw [vecOf_apply, getD_axpby _ _ _ _ _ (by simp [hn])]
  simp only [Pi.add_apply, Pi.smul_apply, smul_eq_mul, vecOf_apply]
  ring

/-- `M · solve(b) = b` in matrix form -/
theorem iluM_mulVec_solve (F : IluFactors K) (n : Nat) (hL : strictLowerb F.L = true) (hU : strictUpperb F.U = true)
    (hLwf : F.L.WF) (hUwf : F.U.WF) (hLn : F.L.nrows = n) (hLc : F.L.ncols = n) (hUn : F.U.nrows = n)
    (hUc : F.U.ncols = n) (hD : ∀ i, i < n → F.D.getD i 0 ≠ 0) (b : Vec K) (hb : b.size = n) :
    iluM F n *ᵥ vecOf n (iluSolve F b) = vecOf n b := by
  subst hLn
  funext i
  have h := C06.ilu_solve_serial_inverse F hL hU hLwf hUwf hLc hUn hUc hD b hb i.val i.isLt
  rw [vecOf_apply, ← h]
  simp only [mulVec, dotProduct, iluM, Matrix.of_apply, vecOf_apply]
  rw [← Finset.sum_range (fun j => (∑ k ∈ range F.L.nrows, lowEntry F i.val k * upEntry F k j) * (iluSolve F b).getD j 0)]
  simp only [Finset.sum_mul, Finset.mul_sum]
  rw [Finset.sum_comm]
  apply sum_congr rfl; intro k _
  apply sum_congr rfl; intro j _
  ring

/-- **the ILU sweep matrix is symmetric when `M` is** -/
theorem iluN_transpose (ω : K) (F : IluFactors K) (n : Nat) (hM : (iluM F n)ᵀ = iluM F n)
    (hsolve : ∀ b : Vec K, b.size = n → iluM F n *ᵥ vecOf n (iluSolve F b) = vecOf n b) :
    (iluN ω F n)ᵀ = iluN ω F n := by
  -- bilinear symmetry of `N`
  have hbil : ∀ u v : Fin n → K, u ⬝ᵥ (iluN ω F n *ᵥ v) = (iluN ω F n *ᵥ u) ⬝ᵥ v := by
    intro u v
    have hu := iluN_mulVec ω F n (Array.ofFn u) (by simp)
    have hv := iluN_mulVec ω F n (Array.ofFn v) (by simp)
    rw [vecOf_ofFn] at hu hv
    have su := hsolve (Array.ofFn u) (by simp)
    have sv := hsolve (Array.ofFn v) (by simp)
    rw [vecOf_ofFn] at su sv
    set zu := vecOf n (iluSolve F (Array.ofFn u)) with hzu
    set zv := vecOf n (iluSolve F (Array.ofFn v)) with hzv
    rw [hu, hv, dotProduct_smul, smul_dotProduct]
    congr 1
    -- `u ⬝ zv = zu ⬝ v` with `u = M zu`, `v = M zv`, `Mᵀ = M`
    conv_lhs => rw [← su]
    conv_rhs => rw [← sv]
    rw [dotProduct_mulVec, ← mulVec_transpose, hM, dotProduct_comm (iluM F n *ᵥ zu) zv]
  ext i j
  have h := hbil (Pi.single j 1) (Pi.single i 1)
  rw [mulVec_single_one, mulVec_single_one, single_one_dotProduct, dotProduct_single_one] at h
  simpa [Matrix.col, Matrix.transpose_apply] using h

theorem vecOf_vsmul {n : Nat} (c : K) (v : Vec K) : vecOf n (vsmul c v) = c • vecOf n v := by
  funext i
  simp only [vecOf_apply, Pi.smul_apply, smul_eq_mul, getD_vsmul]

/-- **the sweep matrix of the factors of `c·A` is `c⁻¹ ·` the sweep matrix of the factors of `A`** -/
theorem iluN_scale (c : K) (hc : c ≠ 0) (ω : K) (F : IluFactors K) (n : Nat) (hU : strictUpperb F.U = true)
    (hUwf : F.U.WF) (hUn : F.U.nrows = F.L.nrows) (hUc : F.U.ncols = F.L.nrows) (hn : F.L.nrows = n) :
    iluN ω (scaleFactors c F) n = c⁻¹ • iluN ω F n := by
  have hlin : iluLin (scaleFactors c F) n = c⁻¹ • iluLin F n := by
    apply LinearMap.ext
    intro v
    show vecOf n (iluSolve (scaleFactors c F) (Array.ofFn v)) = c⁻¹ • vecOf n (iluSolve F (Array.ofFn v))
    rw [iluSolve_scale c hc F hU hUwf hUn hUc _ (by simp [hn]), vecOf_vsmul]
  unfold iluN
  rw [hlin, map_smul, smul_comm]

/-- symmetric pattern / values are invariant under `backend::scale` -/
theorem SymCRS.scale {A : CRS K} (h : SymCRS A) (c : K) : SymCRS (scale A c) := by
  constructor
  · intro i j hi hj
    rw [scale_nrows'] at hi hj
    rw [scale_row', scale_row', srow_cols, srow_cols]
    exact h.pat i j hi hj
  · intro i j hi hj
    rw [scale_nrows'] at hi hj
    rw [scale_get', scale_get', h.val i j hi hj]

end ilu

end Amgcl.Energy
