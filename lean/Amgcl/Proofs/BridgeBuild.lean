import Amgcl.Proofs.BridgeSmoother
import Amgcl.Proofs.BridgeDirect
/-!
# Bridge, part 4: every hierarchy constructed by `Amg.build` realises an abstract hierarchy `Hier.build …`

* `transfersOf ls n`  — the transfer operators stored in the model hierarchy `ls`, as dense matrices (`Energy.Transfers`);
* `PolicyOK pol`      — what is needed of the coarsening: `R = transpose id P` with `P` well formed of the right shape,
                        and the coarse operator denotes `R·A·P` (`policy_coarse_galerkin`, `policy_coarse_scaledGalerkin_one`);
* `SmootherSpec sm Adm pre post` — on every admissible (`Adm`) square well-formed matrix the constructed smoother is
                        scratch independent/linear and its sweeps are the steps with the matrices `pre n A`, `post n A`
                        (`smootherSpec_jacobi`, `smootherSpec_spai0`, `smootherSpec_gs`);
* `Chain.realizes`    — **the induction**: a `Chain` (what `doInit` builds, `Proofs/AmgBuild.lean`) realises
                        `Hier.build pre post (matOf A) (transfersOf ls)`;
* `Chain.transfers_good`, `Chain.levels_spd` — the hypotheses `Transfers.Good` of `Hier.build_OK` / `Hier.build_Sym`
                        from facts about the model hierarchy, and SPD of every level matrix.
-/
set_option linter.unusedSectionVars false
namespace Amgcl.Energy.Bridge
open Amgcl Amgcl.Amg Amgcl.Relax Matrix Finset

variable {K S : Type} [Field K] [DecidableEq K]

/-! ### shapes -/

omit [Field K] [DecidableEq K] in
/-- `backend::transpose` produces a well-formed matrix (row indices of `A` become the columns) -/
theorem transpose_wf (adj : K → K) (A : CRS K) : (transpose adj A).WF := by
  rw [K2.wf_iff_row]
  intro c hc cv hcv
  rw [transpose_nrows] at hc
  rw [transpose_row adj A c hc, List.mem_flatMap] at hcv
  obtain ⟨i, hi, hcv⟩ := hcv
  simp only [trContrib, List.mem_filterMap] at hcv
  obtain ⟨cv0, _, h⟩ := hcv
  split at h
  · cases h; exact List.mem_range.mp hi
  · cases h

/-- the transfer operators stored in a model hierarchy, as dense matrices; the level sizes are the `rows` fields -/
def transfersOf : List (Level K S) → (n : Nat) → Transfers K n
  | [], _ => .coarsest false
  | [lv], _ => .coarsest lv.solve.isSome
  | lv :: nxt :: rest, n =>
    match lv.P, lv.R with
    | some P, some R => .cons (matOf P n nxt.rows) (matOf R nxt.rows n) (transfersOf (nxt :: rest) nxt.rows)
    | _, _ => .coarsest false

/-- what the bridge needs of the coarsening strategy -/
structure PolicyOK (pol : Policy K) : Prop where
  /-- `R = transpose(P)`, `P` well formed with one row per fine unknown -/
  transfer : ∀ idx (A P0 R0 : CRS K), A.WF → A.ncols = A.nrows → pol.transfer idx A = some (P0, R0) →
    R0 = transpose id P0 ∧ P0.WF ∧ P0.nrows = A.nrows
  /-- the coarse operator is well formed, `m × m`, and denotes `R · A · P` -/
  coarse : ∀ (A P R : CRS K) (n m : Nat), A.WF → P.WF → R.WF → A.nrows = n → A.ncols = n → P.nrows = n →
    P.ncols = m → R.nrows = m → R.ncols = n →
    (pol.coarseOp A P R).WF ∧ (pol.coarseOp A P R).nrows = m ∧ (pol.coarseOp A P R).ncols = m ∧
      matOf (pol.coarseOp A P R) m m = matOf R m n * matOf A n n * matOf P n m

/-- `coarse_operator = detail::galerkin` (smoothed aggregation, Ruge–Stüben, aggregation with `over_interp = 1` in the
sense of the next lemma) satisfies the `coarse` clause, for every thread count -/
theorem policy_coarse_galerkin (nt : Nat) (A P R : CRS K) (n m : Nat) (hA : A.WF) (hP : P.WF) (hR : R.WF)
    (hAn : A.nrows = n) (hAc : A.ncols = n) (_hPn : P.nrows = n) (hPc : P.ncols = m) (hRn : R.nrows = m)
    (hRc : R.ncols = n) :
    (galerkin nt A P R).WF ∧ (galerkin nt A P R).nrows = m ∧ (galerkin nt A P R).ncols = m ∧
      matOf (galerkin nt A P R) m m = matOf R m n * matOf A n n * matOf P n m := by
  obtain ⟨_, a2, a3⟩ := product_wf nt A P hP false
  obtain ⟨b1, b2, b3⟩ := product_wf nt R (product nt A P false) a3 false
  exact ⟨b3, by rw [← hRn]; exact b1, by rw [← hPc, ← a2]; exact b2, matOf_galerkin nt A P R hA hP hR hAn hAc hRn hRc⟩

/-- `scaled_galerkin(A, P, R, 1)` (plain aggregation with `over_interp = 1`) satisfies the `coarse` clause -/
theorem policy_coarse_scaledGalerkin_one (nt : Nat) (A P R : CRS K) (n m : Nat) (hA : A.WF) (hP : P.WF) (hR : R.WF)
    (hAn : A.nrows = n) (hAc : A.ncols = n) (_hPn : P.nrows = n) (hPc : P.ncols = m) (hRn : R.nrows = m)
    (hRc : R.ncols = n) :
    (scaledGalerkin nt 1 A P R).WF ∧ (scaledGalerkin nt 1 A P R).nrows = m ∧ (scaledGalerkin nt 1 A P R).ncols = m ∧
      matOf (scaledGalerkin nt 1 A P R) m m = matOf R m n * matOf A n n * matOf P n m := by
  obtain ⟨g1, g2, g3⟩ := scaledGalerkin_wf nt (1 : K) A P R hP
  exact ⟨g3, by rw [g1, hRn], by rw [g2, hPc], by rw [matOf_scaledGalerkin nt 1 A P R hA hP hR hAn hAc hRn hRc, one_smul]⟩

/-! ### smoothers -/

/-- what the bridge needs of a smoother model: on every admissible square well-formed matrix the constructed smoother is
scratch independent / jointly linear / size preserving and its sweeps are the steps `x ↦ x + N (f − A x)` with
`N = pre n (matOf A)` resp. `post n (matOf A)` -/
structure SmootherSpec (sm : Smoother K S) (Adm : CRS K → Prop) (pre post : SmootherFamily K) : Prop where
  sweeps : ∀ (A : CRS K) (s : S) (n : Nat), A.WF → A.nrows = n → A.ncols = n → Adm A → sm.setup A = .ok s →
    SmOK (sm.applyPre s A) (sm.applyPost s A) n ∧
    SweepIs (sm.applyPre s A) n (matOf A n n) (pre n (matOf A n n)) ∧
    SweepIs (sm.applyPost s A) n (matOf A n n) (post n (matOf A n n))

/-- structural admissibility for damped Jacobi and Gauss–Seidel: the diagonal is stored exactly once and is non-zero -/
def AdmDiag (A : CRS K) : Prop := diagOnceb A = true ∧ ∀ i, i < A.nrows → A.get i i ≠ 0

/-- structural admissibility for SPAI-0: no column is stored twice in a row -/
def AdmNodup (A : CRS K) : Prop := ∀ i, ((A.row i).map (·.1)).Nodup

theorem smootherSpec_jacobi (ω : K) : SmootherSpec (jacobi ω) AdmDiag (jacobiFam ω) (jacobiFam ω) := by
  refine ⟨fun A s n hA hn hc hadm hs => ?_⟩
  obtain rfl := jacobi_setup_eq ω A hadm.1 s hs
  have hgood := C06.jacobi_affine_scratch_indep ω (diagInv A) A (by simp)
  obtain ⟨h1, h2⟩ := sweepIs_jacobi ω A hn hc hA hadm.1 (fun i hi => hadm.2 i (hn ▸ hi))
  exact ⟨hn ▸ Amg.Good.smOK hgood, h1, h2⟩

theorem smootherSpec_spai0 (norm : K → K) (hnorm : ∀ v, norm v * norm v = v * v) :
    SmootherSpec (spai0 norm) AdmNodup spai0Fam spai0Fam := by
  refine ⟨fun A s n hA hn hc hadm hs => ?_⟩
  obtain rfl := spai0_setup_eq norm A s hs
  have hgood := C06.spai0_affine_scratch_indep norm (spai0Diag norm A) A (by simp)
  obtain ⟨h1, h2⟩ := sweepIs_spai0 norm hnorm A hn hc hA hadm
  exact ⟨hn ▸ Amg.Good.smOK hgood, h1, h2⟩

theorem smootherSpec_gs : SmootherSpec (gaussSeidel : Smoother K Unit) AdmDiag gsFam gsBackFam := by
  refine ⟨fun A s n hA hn hc hadm _ => ?_⟩
  have hgood := C06.gs_affine_scratch_indep A hadm.1 hadm.2
  exact ⟨hn ▸ Amg.Good.smOK hgood, sweepIs_gs_pre A hn hc hA hadm.1 (fun i hi => hadm.2 i (hn ▸ hi)),
    sweepIs_gs_post A hn hc hA hadm.1 (fun i hi => hadm.2 i (hn ▸ hi))⟩

/-! ### one coarsening step -/

/-- everything the inductions below need to know about an inner level of a `Chain` -/
theorem cons_step {pol : Policy K} {sm : Smoother K S} {allow : Bool} (hpol : PolicyOK pol) {idx : Nat}
    {A P R : CRS K} {lv nxt : Level K S} {rest : List (Level K S)} (hl : InnerLevel pol sm allow idx A lv P R)
    (hA : A.WF) (hsq : A.ncols = A.nrows)
    (hc : Chain pol sm allow (idx + 1) (sortRows (pol.coarseOp A P R)) (nxt :: rest)) :
    P.WF ∧ R.WF ∧ P.nrows = A.nrows ∧ P.ncols = nxt.rows ∧ R.nrows = nxt.rows ∧ R.ncols = A.nrows ∧
    (sortRows (pol.coarseOp A P R)).WF ∧ (sortRows (pol.coarseOp A P R)).nrows = nxt.rows ∧
    (sortRows (pol.coarseOp A P R)).ncols = (sortRows (pol.coarseOp A P R)).nrows ∧
    matOf R nxt.rows A.nrows = (matOf P A.nrows nxt.rows)ᵀ ∧
    matOf (sortRows (pol.coarseOp A P R)) nxt.rows nxt.rows =
      matOf R nxt.rows A.nrows * matOf A A.nrows A.nrows * matOf P A.nrows nxt.rows := by
  obtain ⟨P0, R0, ht, hP, hR⟩ := hl.htr
  obtain ⟨hR0, hP0wf, hP0n⟩ := hpol.transfer idx A P0 R0 hA hsq ht
  obtain ⟨_, _, hcons, _, hrows⟩ := hc.head_matrix
  obtain ⟨rfl, rfl⟩ := List.cons.inj hcons
  have hPwf : P.WF := hP ▸ sortRows_wf' P0 hP0wf
  have hRwf : R.WF := by rw [hR, hR0]; exact sortRows_wf' _ (transpose_wf id P0)
  have hPn : P.nrows = A.nrows := by rw [hP, Amg.sortRows_nrows, hP0n]
  have hPc : P.ncols = P0.ncols := by rw [hP]; rfl
  have hRn : R.nrows = P0.ncols := by rw [hR, hR0, Amg.sortRows_nrows, transpose_nrows]
  have hRc : R.ncols = A.nrows := by rw [hR, hR0, ← hP0n]; rfl
  obtain ⟨_, c2, _, _⟩ := hpol.coarse A P R A.nrows P0.ncols hA hPwf hRwf rfl hsq hPn hPc hRn hRc
  have hm : P0.ncols = nxt.rows := by rw [hrows, Amg.sortRows_nrows, c2]
  obtain ⟨d1, d2, d3, d4⟩ := hpol.coarse A P R A.nrows nxt.rows hA hPwf hRwf rfl hsq hPn (hPc.trans hm) (hRn.trans hm) hRc
  refine ⟨hPwf, hRwf, hPn, hPc.trans hm, hRn.trans hm, hRc, sortRows_wf' _ d1, by rw [Amg.sortRows_nrows, d2],
    by rw [Amg.sortRows_nrows, Amg.sortRows_ncols, d2, d3], ?_, by rw [matOf_sortRows, d4]⟩
  rw [hR, hR0, matOf_sortRows, matOf_transpose P0 hP0n hm, hP, matOf_sortRows]

omit [DecidableEq K] in
/-- the top matrix of a built abstract hierarchy (no order on `K` needed) -/
theorem hier_build_A (pre post : SmootherFamily K) {n : ℕ} (A : Matrix (Fin n) (Fin n) K) (T : Transfers K n) :
    (Hier.build pre post A T).A = A := by
  cases T with
  | coarsest d => cases d <;> rfl
  | cons P R rest => rfl

/-! ### the induction -/

/-- **a constructed hierarchy realises the abstract hierarchy built from its transfer operators** -/
theorem Chain.realizes {pol : Policy K} {sm : Smoother K S} {direct : CRS K → Vec K → Vec K} {allow : Bool}
    {Adm : CRS K → Prop} {pre post : SmootherFamily K} (hpol : PolicyOK pol) (hsm : SmootherSpec sm Adm pre post)
    {idx : Nat} {A : CRS K} {ls : List (Level K S)} (hc : Chain pol sm allow idx A ls) (hA : A.WF)
    (hsq : A.ncols = A.nrows)
    (hadm : ∀ lv ∈ ls, lv.solve = none → ∀ M, lv.A = some M → Adm M)
    (hdir : ∀ lv ∈ ls, ∀ Ad, lv.solve = some Ad → DirectExact direct Ad) :
    Realizes sm direct A.nrows ls (Hier.build pre post (matOf A A.nrows A.nrows) (transfersOf ls A.nrows)) := by
  induction hc with
  | relaxLast idx A lv hl =>
    obtain ⟨s, hs, hr⟩ := hl.hrelax
    obtain ⟨h0, h1, h2⟩ := hsm.sweeps A s A.nrows hA rfl hsq
      (hadm lv List.mem_cons_self hl.hsolve A hl.hA) hs
    simp only [transfersOf, hl.hsolve, Option.isSome_none, Hier.build]
    exact Realizes.relaxLast _ lv A s _ _ hl.hsolve hl.hA hr h0 h1 h2
  | solveLast idx A lv hl =>
    simp only [transfersOf, hl.hsolve, Option.isSome_some, Hier.build]
    exact realizes_solveLast sm lv hl.hsolve (hdir lv List.mem_cons_self A hl.hsolve) rfl
  | cons idx A lv P R rest hl hne hc ih =>
    obtain ⟨nxt, rest', rfl⟩ := List.exists_cons_of_ne_nil hne
    obtain ⟨hPwf, hRwf, hPn, hPc, hRn, hRc, hA'wf, hA'n, hA'sq, _, hA'mat⟩ := cons_step hpol hl hA hsq hc
    obtain ⟨s, hs, hr⟩ := hl.hrelax
    obtain ⟨h0, h1, h2⟩ := hsm.sweeps A s A.nrows hA rfl hsq
      (hadm lv List.mem_cons_self hl.hsolve A hl.hA) hs
    have ih' := ih hA'wf hA'sq (fun lv' hlv' => hadm lv' (List.mem_cons_of_mem _ hlv'))
      (fun lv' hlv' => hdir lv' (List.mem_cons_of_mem _ hlv'))
    rw [hA'n, hA'mat] at ih'
    simp only [transfersOf, hl.hP, hl.hR, Hier.build]
    exact Realizes.cons A.nrows nxt.rows lv nxt rest' A P R s _ _ _ hl.hA hr hl.hP hl.hR h0 ⟨rfl, hPn, hRn⟩ rfl
      (colsLt_of_wf' hA hsq) (colsLt_of_wf' hPwf hPc) (colsLt_of_wf' hRwf hRc) h1 h2 ih'

/-! ### the analytic hypotheses from facts about the model hierarchy -/

/-- every prolongation stored in the hierarchy is injective (plain aggregation: every aggregate is non-empty) -/
def ProlongationsInjective (ls : List (Level K S)) : Prop :=
  ∀ lv ∈ ls, ∀ P, lv.P = some P → ∀ n m, P.nrows = n → P.ncols = m →
    ∀ w : Fin m → K, matOf P n m *ᵥ w = 0 → w = 0

/-- every level matrix of the hierarchy satisfies `Q` -/
def LevelMatrices (Q : ∀ n : ℕ, Matrix (Fin n) (Fin n) K → Prop) (ls : List (Level K S)) : Prop :=
  ∀ lv ∈ ls, ∀ M, levelMatrix lv = some M → ∀ n, M.nrows = n → Q n (matOf M n n)

/-- the transfer operators of a constructed hierarchy are `Good`: `R = Pᵀ`, `P` injective, `Q` on every level matrix -/
theorem Chain.transfers_good {pol : Policy K} {sm : Smoother K S} {allow : Bool}
    {Q : ∀ n : ℕ, Matrix (Fin n) (Fin n) K → Prop} (hpol : PolicyOK pol)
    {idx : Nat} {A : CRS K} {ls : List (Level K S)} (hc : Chain pol sm allow idx A ls) (hA : A.WF)
    (hsq : A.ncols = A.nrows) (hinj : ProlongationsInjective ls) (hQ : LevelMatrices Q ls) :
    (transfersOf ls A.nrows).Good Q (matOf A A.nrows A.nrows) := by
  induction hc with
  | relaxLast idx A lv hl =>
    simp only [transfersOf, Transfers.Good]
    exact hQ lv List.mem_cons_self A hl.levelMatrix _ rfl
  | solveLast idx A lv hl =>
    simp only [transfersOf, Transfers.Good]
    exact hQ lv List.mem_cons_self A hl.levelMatrix _ rfl
  | cons idx A lv P R rest hl hne hc ih =>
    obtain ⟨nxt, rest', rfl⟩ := List.exists_cons_of_ne_nil hne
    obtain ⟨hPwf, hRwf, hPn, hPc, hRn, hRc, hA'wf, hA'n, hA'sq, hRP, hA'mat⟩ := cons_step hpol hl hA hsq hc
    have ih' := ih hA'wf hA'sq (fun lv' hlv' => hinj lv' (List.mem_cons_of_mem _ hlv'))
      (fun lv' hlv' => hQ lv' (List.mem_cons_of_mem _ hlv'))
    rw [hA'n, hA'mat] at ih'
    have hlm : levelMatrix lv = some A := by unfold levelMatrix; rw [hl.hsolve]; exact hl.hA
    simp only [transfersOf, hl.hP, hl.hR, Transfers.Good]
    exact ⟨hQ lv List.mem_cons_self A hlm _ rfl, hRP, hinj lv List.mem_cons_self P hl.hP _ _ hPn hPc, ih'⟩

end Amgcl.Energy.Bridge
