import Amgcl.Proofs.RelaxIlu0
import Amgcl.Proofs.RelaxIlu
import Mathlib.Data.Matrix.Mul
/-!
# ILU(0) of a symmetric matrix with symmetric pattern: `L = Uᵀ·D` (stored `D` = inverted pivots)

From the row equations `IluInv.rowEq` of the finished factorisation (the IKJ recurrences of `ilu0.hpp`), by strong
induction on the smaller index: `L_ij · (1 / D_j) = U_ji` for `j < i`.  Hence `M = (I+L)(D⁻¹+U) = (I+L) D⁻¹ (I+L)ᵀ` is
symmetric and so is the operator of the triangular solve `M⁻¹`.
-/
namespace Amgcl
namespace Relax
open Finset Matrix

section
variable {K : Type} [Field K] [DecidableEq K]

/-- symmetric stored pattern and symmetric denoted values -/
structure SymCRS (A : CRS K) : Prop where
  pat : ∀ i j, i < A.nrows → j < A.nrows → (j ∈ (A.row i).map (·.1) ↔ i ∈ (A.row j).map (·.1))
  val : ∀ i j, i < A.nrows → j < A.nrows → A.get i j = A.get j i

theorem ilu0_LU_symm (A : CRS K) (hA : A.WF) (hsq : A.ncols = A.nrows) (hs : A.sortedb = true) (hsym : SymCRS A)
    (F : IluFactors K) (hF : ilu0Factor A = .ok F) :
    ∀ j i, j < i → i < A.nrows → F.L.get i j * (1 / F.D.getD j 0) = F.U.get j i := by
  obtain ⟨inv, _, _⟩ := ilu0Factor_inv A hA hsq hs F hF
  have hnd : ∀ i, ((A.row i).map (·.1)).Nodup := fun i => (K2.sortedb_iff.mp hs i).nodup
  -- zero facts
  have hLz : ∀ i k, i ≤ k → F.L.get i k = 0 := by
    intro i k hk
    unfold CRS.get CRS.row
    apply rowGet_zero_of_forall_ne
    intro e he heq
    by_cases hi : i < A.nrows
    · have := inv.lower i hi e he; omega
    · rw [getD_of_size_le _ _ _ (by rw [inv.sizeL]; omega)] at he; cases he
  have hUz : ∀ k c, c ≤ k → F.U.get k c = 0 := by
    intro k c hc
    unfold CRS.get CRS.row
    apply rowGet_zero_of_forall_ne
    intro e he heq
    by_cases hk : k < A.nrows
    · have := (inv.upper k hk e he).1; omega
    · rw [getD_of_size_le _ _ _ (by rw [inv.sizeU]; omega)] at he; cases he
  have hLp : ∀ i c, i < A.nrows → c ∉ (A.row i).map (·.1) → F.L.get i c = 0 := by
    intro i c hi hc
    unfold CRS.get CRS.row
    apply rowGet_zero_of_forall_ne
    intro e he heq
    exact hc (heq ▸ inv.subL i hi e he)
  have hUp : ∀ i c, i < A.nrows → c ∉ (A.row i).map (·.1) → F.U.get i c = 0 := by
    intro i c hi hc
    unfold CRS.get CRS.row
    apply rowGet_zero_of_forall_ne
    intro e he heq
    exact hc (heq ▸ inv.subU i hi e he)
  -- the two row equations
  have eqLow : ∀ i j, j < i → i < A.nrows → j ∈ (A.row i).map (·.1) →
      F.L.get i j * (1 / F.D.getD j 0) + ∑ k ∈ range j, F.L.get i k * F.U.get k j = A.get i j := by
    intro i j hji hi hmem
    obtain ⟨cv, hcv, hc⟩ := List.mem_map.mp hmem
    have h := inv.rowEq i hi cv hcv
    have hget : A.get i cv.1 = cv.2 := rowGet_of_mem_nodup _ (hnd i) cv hcv
    simp only [hc] at h hget
    rw [if_neg (by omega), if_pos hji] at h
    have hu : rowGet (F.U.rows.getD i []) j = 0 := hUz i j (by omega)
    rw [hu] at h
    have hsum : ∑ k' ∈ range i, rowGet (F.L.rows.getD i []) k' * ugetA F.U.rows k' j
        = ∑ k ∈ range j, F.L.get i k * F.U.get k j := by
      rw [sum_range_restrict _ j i (by omega) (fun k hk _ => by
        have : ugetA F.U.rows k j = 0 := hUz k j hk
        rw [this]; ring)]
      rfl
    rw [hsum] at h
    rw [hget, ← h]
    show F.L.get i j * (1 / F.D.getD j 0) + _ = 0 + 0 + F.L.get i j * (1 / F.D.getD j 0) + _
    ring
  have eqUp : ∀ j i, j < i → i < A.nrows → i ∈ (A.row j).map (·.1) →
      F.U.get j i + ∑ k ∈ range j, F.L.get j k * F.U.get k i = A.get j i := by
    intro j i hji hi hmem
    obtain ⟨cv, hcv, hc⟩ := List.mem_map.mp hmem
    have h := inv.rowEq j (by omega) cv hcv
    have hget : A.get j cv.1 = cv.2 := rowGet_of_mem_nodup _ (hnd j) cv hcv
    simp only [hc] at h hget
    rw [if_neg (by omega), if_neg (by omega)] at h
    rw [hget, ← h]
    show F.U.get j i + _ = 0 + F.U.get j i + 0 + _
    have : ∑ k' ∈ range j, rowGet (F.L.rows.getD j []) k' * ugetA F.U.rows k' i
        = ∑ k ∈ range j, F.L.get j k * F.U.get k i := rfl
    rw [this]; ring
  -- strong induction on the smaller index
  intro j
  induction j using Nat.strong_induction_on with
  | _ j ih =>
    intro i hji hi
    by_cases hmem : j ∈ (A.row i).map (·.1)
    · have hmem' : i ∈ (A.row j).map (·.1) := (hsym.pat i j hi (by omega)).mp hmem
      have e1 := eqLow i j hji hi hmem
      have e2 := eqUp j i hji hi hmem'
      have hs : ∑ k ∈ range j, F.L.get i k * F.U.get k j = ∑ k ∈ range j, F.L.get j k * F.U.get k i := by
        apply sum_congr rfl
        intro k hk
        have hk' : k < j := mem_range.mp hk
        rw [← ih k hk' j hk' (by omega), ← ih k hk' i (by omega) hi]; ring
      rw [hs] at e1
      have := hsym.val i j hi (by omega)
      rw [← e1, ← e2] at this
      exact add_right_cancel this
    · have hmem' : i ∉ (A.row j).map (·.1) := fun h => hmem ((hsym.pat i j hi (by omega)).mpr h)
      rw [hLp i j hi hmem, hUp j i (by omega) hmem']; ring

/-- the factors of a successful ILU(0) vanish on and beyond the diagonal (all indices, also out of range) -/
theorem ilu0_tri_zero (A : CRS K) (hA : A.WF) (hsq : A.ncols = A.nrows) (hs : A.sortedb = true)
    (F : IluFactors K) (hF : ilu0Factor A = .ok F) :
    (∀ i k, i ≤ k → F.L.get i k = 0) ∧ (∀ k c, c ≤ k → F.U.get k c = 0) := by
  obtain ⟨inv, _, _⟩ := ilu0Factor_inv A hA hsq hs F hF
  constructor
  · intro i k hk
    unfold CRS.get CRS.row
    apply rowGet_zero_of_forall_ne
    intro e he heq
    by_cases hi : i < A.nrows
    · have := inv.lower i hi e he; omega
    · rw [getD_of_size_le _ _ _ (by rw [inv.sizeL]; omega)] at he; cases he
  · intro k c hc
    unfold CRS.get CRS.row
    apply rowGet_zero_of_forall_ne
    intro e he heq
    by_cases hk : k < A.nrows
    · have := (inv.upper k hk e he).1; omega
    · rw [getD_of_size_le _ _ _ (by rw [inv.sizeU]; omega)] at he; cases he

/-- the matrix `M = (I+L)(D⁻¹+U)` the triangular solve inverts -/
def iluM (F : IluFactors K) (n : Nat) : Matrix (Fin n) (Fin n) K :=
  Matrix.of fun i j => ∑ k ∈ range n, lowEntry F i.val k * upEntry F k j.val

/-- **`M` is symmetric** when `L = Uᵀ D` -/
theorem iluM_transpose (F : IluFactors K) (n : Nat)
    (hLU : ∀ j i, j < i → i < n → F.L.get i j * (1 / F.D.getD j 0) = F.U.get j i)
    (hLz : ∀ i k, i ≤ k → F.L.get i k = 0) (hUz : ∀ k c, c ≤ k → F.U.get k c = 0)
    (hD : ∀ i, i < n → F.D.getD i 0 ≠ 0) : (iluM F n)ᵀ = iluM F n := by
  ext i j
  simp only [Matrix.transpose_apply, iluM, Matrix.of_apply]
  apply sum_congr rfl
  intro k hk
  have hk' : k < n := mem_range.mp hk
  -- `lowEntry a k * D_k⁻¹ ... `: write `upEntry k b = (1/D_k) * lowEntry b k`
  have hup : ∀ b : Nat, b < n → upEntry F k b = (1 / F.D.getD k 0) * lowEntry F b k := by
    intro b hb
    unfold upEntry lowEntry
    rcases Nat.lt_trichotomy k b with h | h | h
    · rw [if_neg (by omega), if_neg (by omega), ← hLU k b h hb]; ring
    · subst h; rw [if_pos rfl, if_pos rfl, hLz k k (Nat.le_refl _), hUz k k (Nat.le_refl _)]; ring
    · rw [if_neg (by omega), if_neg (by omega), hUz k b (by omega), hLz b k (by omega)]; ring
  rw [hup i.val i.isLt, hup j.val j.isLt]; ring

end

end Relax
end Amgcl
