import Amgcl.Proofs.KrylovLGMRESBasis
import Amgcl.Proofs.KrylovFGMRESRestart
/-!
# LGMRES: least-squares meaning of a GENERAL restart cycle — minimisation over the augmented space (C05)

Setting of `Proofs/KrylovLGMRESBasis.lean`.  `t = lPass … (m+1)` is the inner-loop state after `m + 1` passes, no breakdown
in the passes `i < m` (a breakdown in pass `m` is allowed), `z_i = *ws[i]` the fed vectors, `y` a coefficient vector:

* `lupdate_x`          the `x` of `LGMRES.update` is `x₀ + Xl (Σ_{i<j} y_i z_i)`, `y = backSubst j H s`;
* `lcycle_ls`          `‖resOf (x₀ + Xl Σ_{i ≤ m} y_i z_i)‖² = Σ_{a ≤ m} (s_a − (R y)_a)² + s_{m+1}²` for EVERY `y`;
* `lcycle_residual_last`, `lcycle_residual_le`   `‖Rf x_{m+1}‖² = (s_m − H(m,m) y_m)² + s_{m+1}² ≤ ‖Rf x₀‖²`;
* `lcycle_residual`, `lcycle_minimal`   without breakdown in pass `m` (or just `H(m,m) ≠ 0`): `‖Rf x_{m+1}‖² = s_{m+1}²`, and no
                       element of `x₀ + Xl (span{z_0..z_m})` has a smaller residual;
* `lcycle_antitone`    `‖Rf x_{j+1}‖² ≤ ‖Rf x_j‖²` within a cycle, Krylov or augmentation pass;
* `lcycle_monotone`    the cycle of the MODEL (own pass count, breakdown or not) does not increase `‖Rf x‖²`.
-/
set_option linter.unusedSectionVars false
set_option linter.unusedVariables false
namespace Amgcl.Krylov
open Amgcl Amgcl.Solver Amgcl.Solver.GMRES Amgcl.Energy.Bridge Matrix Finset

section upd
variable {K : Type} [Field K] [DecidableEq K] [LT K] [DecidableLT K]
variable (n : ℕ) (A : CRS K) (hA : A.WF) (hn : A.nrows = n) (hm : A.ncols = n)
  (P : Vec K → Vec K) (Pl : (Fin n → K) →ₗ[K] (Fin n → K)) (hP : PDenotes n P Pl)
include hA hn hm hP

/-- the `x` that `LGMRES.update` returns after `j ≥ 1` passes: `x₀ + Xl (Σ_{i<j} y_i z_i)` with `z_i = *ws[i]` -/
theorem lupdate_x (prm : LGMRES.Params K) (sqrt : K → K) (st : LGMRES.St K) (t : LGMRES.In K) (hj : 1 ≤ t.j)
    (hz : ∀ i, i < t.j → (lZ t i).size = n) :
    vecOf n (LGMRES.update prm stdIp sqrt P st t).x = vecOf n st.x
      + Xl prm.pside Pl (∑ i ∈ range t.j, (backSubst t.j t.w.h.H t.w.h.s).get i • vecOf n (lZ t i)) := by
  obtain ⟨d1, d2⟩ := vecOf_linComb0 n t.j hj (backSubst t.j t.w.h.H t.w.h.s).get (lZ t) hz t.w.r
  have hx : ∀ xw : Vec K × LGMRES.Work K,
      (LGMRES.updFin prm.K' stdIp sqrt t.iter st.nOuter st.normR xw).x = xw.1 := by
    intro xw; unfold LGMRES.updFin; split <;> rfl
  have hdx : LGMRES.updDx t = linComb (combList t.j (backSubst t.j t.w.h.H t.w.h.s).get (lZ t)) 0 t.w.r := rfl
  rw [LGMRES.update_eq, hx]
  cases hs : prm.pside
  · show vecOf n (axpby 1 (LGMRES.updDx t) 1 st.x) = _
    rw [hdx, vecOf_axpby n _ _ _ _ d1, d2, one_smul, one_smul, add_comm]; rfl
  · obtain ⟨p1, p2⟩ := hP _ d1
    show vecOf n (axpby 1 (P (LGMRES.updDx t)) 1 st.x) = _
    rw [hdx, vecOf_axpby n _ _ _ _ p1, p2, d2, one_smul, one_smul, add_comm]; rfl

end upd

section main
variable {K : Type} [Field K] [LinearOrder K] [IsStrictOrderedRing K]

variable (n : ℕ) (A : CRS K) (hA : A.WF) (hn : A.nrows = n) (hm : A.ncols = n)
  (P : Vec K → Vec K) (Pl : (Fin n → K) →ₗ[K] (Fin n → K)) (hP : PDenotes n P Pl) (sqrt : K → K)
  (f : Vec K) (prm : LGMRES.Params K) (st : LGMRES.St K)
  (hst : CycleStart prm.pside sqrt A P f (lToG st)) (hod : ∀ s, (st.w.odata.get s).size = n)
include hA hn hm hP hst hod

omit hst hod in
/-- the iterate as a vector -/
theorem lCycleIterate_vec (j : ℕ) (hj : 1 ≤ j) (hz : ∀ i, i < j → (lZ (lPass prm sqrt A P st j) i).size = n) :
    vecOf n (lCycleIterate prm sqrt A P st j) = vecOf n st.x
      + Xl prm.pside Pl (∑ i ∈ range j, (backSubst j (lPass prm sqrt A P st j).w.h.H
          (lPass prm sqrt A P st j).w.h.s).get i • vecOf n (lZ (lPass prm sqrt A P st j) i)) := by
  have htj := lPass_j prm sqrt A P st j
  have h := lupdate_x n A hA hn hm P Pl hP prm sqrt st (lPass prm sqrt A P st j) (by rw [htj]; exact hj)
    (fun i hi => hz i (by rw [htj] at hi; exact hi))
  rw [htj] at h
  exact h

/-- **least-squares identity of a general LGMRES cycle** (breakdown allowed in the last pass): for EVERY `y` -/
theorem lcycle_ls (m : ℕ) (hroots : LRootsExact prm sqrt A P st (m + 1))
    (hnb : ∀ i, i < m → lArnoldiNorm prm sqrt A P st i ≠ 0) (y : ℕ → K) :
    resOf prm.pside (matOf A n n) Pl (vecOf n f) (vecOf n st.x
        + Xl prm.pside Pl (∑ i ∈ range (m + 1), y i • vecOf n (lZ (lPass prm sqrt A P st (m + 1)) i)))
      ⬝ᵥ resOf prm.pside (matOf A n n) Pl (vecOf n f) (vecOf n st.x
        + Xl prm.pside Pl (∑ i ∈ range (m + 1), y i • vecOf n (lZ (lPass prm sqrt A P st (m + 1)) i)))
    = ∑ a ∈ range (m + 1), ((lPass prm sqrt A P st (m + 1)).w.h.s.get a
          - ∑ i ∈ Ico a (m + 1), (lPass prm sqrt A P st (m + 1)).w.h.H.get a i * y i)
        * ((lPass prm sqrt A P st (m + 1)).w.h.s.get a
          - ∑ i ∈ Ico a (m + 1), (lPass prm sqrt A P st (m + 1)).w.h.H.get a i * y i)
      + (lPass prm sqrt A P st (m + 1)).w.h.s.get (m + 1) * (lPass prm sqrt A P st (m + 1)).w.h.s.get (m + 1) := by
  have hl := lcycle_last n A hA hn hm P Pl hP sqrt f prm st hst hod m hroots hnb
  have hgiv := (lPassG_givens prm sqrt A P st g00 (m + 1) hroots.rot).1
  have hr : st.w.r = GMRES.Rf prm.pside P f A st.x := hst.r
  have hres : resOf prm.pside (matOf A n n) Pl (vecOf n f) (vecOf n st.x
        + Xl prm.pside Pl (∑ i ∈ range (m + 1), y i • vecOf n (lZ (lPass prm sqrt A P st (m + 1)) i)))
      = st.normR • vecOf n ((lPass prm sqrt A P st (m + 1)).w.vs.get 0)
        - ∑ i ∈ range (m + 1), y i • ∑ k ∈ range (i + 2), lHTilde prm sqrt A P st (m + 1) k i
            • vecOf n ((lPass prm sqrt A P st (m + 1)).w.vs.get k) := by
    rw [resOf_add, ← (Rf_vec n A hA hn hm P Pl hP prm.pside f st.x).2, ← hr, hl.r0, map_sum]
    congr 1
    apply sum_congr rfl
    intro i hi
    rw [map_smul, hl.arn i (mem_range.mp hi)]
  rw [hres]
  refine ls_abstract_last (fun a => vecOf n ((lPass prm sqrt A P st (m + 1)).w.vs.get a))
    (fun a b ha hb => hl.on a b (by omega) (by omega)) (fun a ha => hl.last a (by omega)) hgiv y ?_
  by_cases hb : lArnoldiNorm prm sqrt A P st m = 0
  · right
    exact hres_last_zero m _ _ y ((lHTilde_sub prm sqrt A P st (m + 1) m (Nat.lt_succ_self m)).trans hb)
  · left; exact hl.unit hb

/-- `‖r₀‖² = β²` -/
theorem lcycleStart_normR_sq (hr0 : RootAt sqrt (stdIp st.w.r st.w.r)) :
    st.normR * st.normR = stdIp (GMRES.Rf prm.pside P f A st.x) (GMRES.Rf prm.pside P f A st.x) :=
  cycleStart_normR_sq n A hA hn hm P Pl hP prm.pside sqrt f (lToG st) hst hr0

/-- **the residual of the iterate after `m + 1` passes, breakdown allowed in pass `m`** -/
theorem lcycle_residual_last (m : ℕ) (hroots : LRootsExact prm sqrt A P st (m + 1))
    (hnb : ∀ i, i < m → lArnoldiNorm prm sqrt A P st i ≠ 0) :
    stdIp (GMRES.Rf prm.pside P f A (lCycleIterate prm sqrt A P st (m + 1)))
        (GMRES.Rf prm.pside P f A (lCycleIterate prm sqrt A P st (m + 1)))
      = ((lPass prm sqrt A P st (m + 1)).w.h.s.get m - (lPass prm sqrt A P st (m + 1)).w.h.H.get m m
            * (backSubst (m + 1) (lPass prm sqrt A P st (m + 1)).w.h.H (lPass prm sqrt A P st (m + 1)).w.h.s).get m)
        * ((lPass prm sqrt A P st (m + 1)).w.h.s.get m - (lPass prm sqrt A P st (m + 1)).w.h.H.get m m
            * (backSubst (m + 1) (lPass prm sqrt A P st (m + 1)).w.h.H (lPass prm sqrt A P st (m + 1)).w.h.s).get m)
        + (lPass prm sqrt A P st (m + 1)).w.h.s.get (m + 1) * (lPass prm sqrt A P st (m + 1)).w.h.s.get (m + 1) := by
  have hl := lcycle_last n A hA hn hm P Pl hP sqrt f prm st hst hod m hroots hnb
  have hd := (lPassG_givens prm sqrt A P st g00 (m + 1) hroots.rot).2
  obtain ⟨_, bs⟩ := backSubst_spec' (lPass prm sqrt A P st (m + 1)).w.h.H (m + 1) (lPass prm sqrt A P st (m + 1)).w.h.s
  obtain ⟨r1, r2⟩ := Rf_vec n A hA hn hm P Pl hP prm.pside f (lCycleIterate prm sqrt A P st (m + 1))
  rw [stdIp_vecOf n _ _ r1 r1, r2, lCycleIterate_vec n A hA hn hm P Pl hP sqrt prm st (m + 1) (by omega) hl.zsize,
    lcycle_ls n A hA hn hm P Pl hP sqrt f prm st hst hod m hroots hnb, sum_range_succ]
  have hz : ∀ a ∈ range m, ((lPass prm sqrt A P st (m + 1)).w.h.s.get a
        - ∑ i ∈ Ico a (m + 1), (lPass prm sqrt A P st (m + 1)).w.h.H.get a i
          * (backSubst (m + 1) (lPass prm sqrt A P st (m + 1)).w.h.H (lPass prm sqrt A P st (m + 1)).w.h.s).get i)
      * ((lPass prm sqrt A P st (m + 1)).w.h.s.get a
        - ∑ i ∈ Ico a (m + 1), (lPass prm sqrt A P st (m + 1)).w.h.H.get a i
          * (backSubst (m + 1) (lPass prm sqrt A P st (m + 1)).w.h.H (lPass prm sqrt A P st (m + 1)).w.h.s).get i) = 0 := by
    intro a ha
    have ha' : a < m := mem_range.mp ha
    rw [bs a (by omega) (hd a (by omega) (hnb a ha')), sub_self, mul_zero]
  rw [sum_eq_zero hz, zero_add, Nat.Ico_succ_singleton, sum_singleton]

/-- … it is `s_{m+1}²` when the last diagonal entry of the triangular factor is non-zero -/
theorem lcycle_residual_last_eq (m : ℕ) (hroots : LRootsExact prm sqrt A P st (m + 1))
    (hnb : ∀ i, i < m → lArnoldiNorm prm sqrt A P st i ≠ 0)
    (hdiag : (lPass prm sqrt A P st (m + 1)).w.h.H.get m m ≠ 0) :
    stdIp (GMRES.Rf prm.pside P f A (lCycleIterate prm sqrt A P st (m + 1)))
        (GMRES.Rf prm.pside P f A (lCycleIterate prm sqrt A P st (m + 1)))
      = (lPass prm sqrt A P st (m + 1)).w.h.s.get (m + 1) * (lPass prm sqrt A P st (m + 1)).w.h.s.get (m + 1) := by
  rw [lcycle_residual_last n A hA hn hm P Pl hP sqrt f prm st hst hod m hroots hnb]
  have bs := (backSubst_spec' (lPass prm sqrt A P st (m + 1)).w.h.H (m + 1)
    (lPass prm sqrt A P st (m + 1)).w.h.s).2 m (Nat.lt_succ_self m) hdiag
  rw [Nat.Ico_succ_singleton, sum_singleton] at bs
  rw [bs, sub_self, mul_zero, zero_add]

/-- **in every case the iterate after `m + 1` passes has a residual no larger than the one the cycle started with** -/
theorem lcycle_residual_le (m : ℕ) (hroots : LRootsExact prm sqrt A P st (m + 1))
    (hnb : ∀ i, i < m → lArnoldiNorm prm sqrt A P st i ≠ 0) :
    stdIp (GMRES.Rf prm.pside P f A (lCycleIterate prm sqrt A P st (m + 1)))
        (GMRES.Rf prm.pside P f A (lCycleIterate prm sqrt A P st (m + 1)))
      ≤ stdIp (GMRES.Rf prm.pside P f A st.x) (GMRES.Rf prm.pside P f A st.x) := by
  have hgiv := (lPassG_givens prm sqrt A P st g00 (m + 1) hroots.rot).1
  have hsq := givens_rhs_sq hgiv
  rw [lcycleStart_normR_sq n A hA hn hm P Pl hP sqrt f prm st hst hod hroots.r0, sum_range_succ, sum_range_succ] at hsq
  have hrest : 0 ≤ ∑ a ∈ range m, (lPass prm sqrt A P st (m + 1)).w.h.s.get a
      * (lPass prm sqrt A P st (m + 1)).w.h.s.get a := sum_nonneg (fun a _ => mul_self_nonneg _)
  rw [← hsq, lcycle_residual_last n A hA hn hm P Pl hP sqrt f prm st hst hod m hroots hnb]
  by_cases hdiag : (lPass prm sqrt A P st (m + 1)).w.h.H.get m m = 0
  · rw [hdiag, zero_mul, sub_zero]; linarith
  · have bs := (backSubst_spec' (lPass prm sqrt A P st (m + 1)).w.h.H (m + 1)
      (lPass prm sqrt A P st (m + 1)).w.h.s).2 m (Nat.lt_succ_self m) hdiag
    rw [Nat.Ico_succ_singleton, sum_singleton] at bs
    rw [bs, sub_self, mul_zero]
    have := mul_self_nonneg ((lPass prm sqrt A P st (m + 1)).w.h.s.get m)
    linarith

/-- **the Givens-reduced quantity is the residual norm of the LGMRES iterate**: `‖Rf x_j‖² = s_j²` after `j ≥ 1` passes
without breakdown -/
theorem lcycle_residual (j : ℕ) (hj : 1 ≤ j) (hroots : LRootsExact prm sqrt A P st j)
    (hnb : ∀ i, i < j → lArnoldiNorm prm sqrt A P st i ≠ 0) :
    stdIp (GMRES.Rf prm.pside P f A (lCycleIterate prm sqrt A P st j))
        (GMRES.Rf prm.pside P f A (lCycleIterate prm sqrt A P st j))
      = (lPass prm sqrt A P st j).w.h.s.get j * (lPass prm sqrt A P st j).w.h.s.get j := by
  obtain ⟨m, rfl⟩ : ∃ m, j = m + 1 := ⟨j - 1, by omega⟩
  have hd := (lPassG_givens prm sqrt A P st g00 (m + 1) hroots.rot).2
  exact lcycle_residual_last_eq n A hA hn hm P Pl hP sqrt f prm st hst hod m hroots (fun i hi => hnb i (by omega))
    (hd m (Nat.lt_succ_self m) (hnb m (Nat.lt_succ_self m)))

/-- **the LGMRES iterate minimises the residual norm over `x₀ + Xl (span{z_0..z_{j-1}})`** — Krylov AND augmentation
vectors — coefficient form -/
theorem lcycle_minimal_coeff (j : ℕ) (hj : 1 ≤ j) (hroots : LRootsExact prm sqrt A P st j)
    (hnb : ∀ i, i < j → lArnoldiNorm prm sqrt A P st i ≠ 0) (y : ℕ → K) :
    stdIp (GMRES.Rf prm.pside P f A (lCycleIterate prm sqrt A P st j))
        (GMRES.Rf prm.pside P f A (lCycleIterate prm sqrt A P st j))
      ≤ resOf prm.pside (matOf A n n) Pl (vecOf n f) (vecOf n st.x
          + Xl prm.pside Pl (∑ i ∈ range j, y i • vecOf n (lZ (lPass prm sqrt A P st j) i)))
        ⬝ᵥ resOf prm.pside (matOf A n n) Pl (vecOf n f) (vecOf n st.x
          + Xl prm.pside Pl (∑ i ∈ range j, y i • vecOf n (lZ (lPass prm sqrt A P st j) i))) := by
  rw [lcycle_residual n A hA hn hm P Pl hP sqrt f prm st hst hod j hj hroots hnb]
  obtain ⟨m, rfl⟩ : ∃ m, j = m + 1 := ⟨j - 1, by omega⟩
  rw [lcycle_ls n A hA hn hm P Pl hP sqrt f prm st hst hod m hroots (fun i hi => hnb i (by omega))]
  have : 0 ≤ ∑ a ∈ range (m + 1), ((lPass prm sqrt A P st (m + 1)).w.h.s.get a
          - ∑ i ∈ Ico a (m + 1), (lPass prm sqrt A P st (m + 1)).w.h.H.get a i * y i)
        * ((lPass prm sqrt A P st (m + 1)).w.h.s.get a
          - ∑ i ∈ Ico a (m + 1), (lPass prm sqrt A P st (m + 1)).w.h.H.get a i * y i) :=
    sum_nonneg (fun a _ => mul_self_nonneg _)
  linarith

/-- the span of the vectors fed in the first `j` passes: Krylov basis vectors `vs[i]` and augmentation vectors -/
def lAugSpan (prm : LGMRES.Params K) (sqrt : K → K) (A : CRS K) (P : Vec K → Vec K) (st : LGMRES.St K) (n j : ℕ) :
    Submodule K (Fin n → K) :=
  Submodule.span K (Set.range fun i : Fin j => vecOf n (lZ (lPass prm sqrt A P st j) i.val))

/-- **the LGMRES iterate minimises the residual norm over `x₀ + Xl (span{z_0..z_{j-1}})`** -/
theorem lcycle_minimal (j : ℕ) (hj : 1 ≤ j) (hroots : LRootsExact prm sqrt A P st j)
    (hnb : ∀ i, i < j → lArnoldiNorm prm sqrt A P st i ≠ 0) (d : Fin n → K)
    (hd : d ∈ lAugSpan prm sqrt A P st n j) :
    stdIp (GMRES.Rf prm.pside P f A (lCycleIterate prm sqrt A P st j))
        (GMRES.Rf prm.pside P f A (lCycleIterate prm sqrt A P st j))
      ≤ resOf prm.pside (matOf A n n) Pl (vecOf n f) (vecOf n st.x + Xl prm.pside Pl d)
        ⬝ᵥ resOf prm.pside (matOf A n n) Pl (vecOf n f) (vecOf n st.x + Xl prm.pside Pl d) := by
  obtain ⟨c, rfl⟩ := (Submodule.mem_span_range_iff_exists_fun K).mp hd
  have e : ∑ i : Fin j, c i • vecOf n (lZ (lPass prm sqrt A P st j) i.val)
      = ∑ i ∈ range j, (fun i => if h : i < j then c ⟨i, h⟩ else 0) i
          • vecOf n (lZ (lPass prm sqrt A P st j) i) := by
    rw [sum_range]
    apply sum_congr rfl
    intro i _
    simp only [i.isLt, dite_true]
  rw [e]
  exact lcycle_minimal_coeff n A hA hn hm P Pl hP sqrt f prm st hst hod j hj hroots hnb _

/-- the iterate itself lies in `x₀ + Xl (span{z_0..z_{j-1}})` -/
theorem lCycleIterate_mem (j : ℕ) (hj : 1 ≤ j) (hroots : LRootsExact prm sqrt A P st j)
    (hnb : ∀ i, i < j → lArnoldiNorm prm sqrt A P st i ≠ 0) :
    ∃ d ∈ lAugSpan prm sqrt A P st n j,
      vecOf n (lCycleIterate prm sqrt A P st j) = vecOf n st.x + Xl prm.pside Pl d := by
  have hb := lcycle_basis n A hA hn hm P Pl hP sqrt f prm st hst hod j hroots hnb
  refine ⟨_, ?_, lCycleIterate_vec n A hA hn hm P Pl hP sqrt prm st j hj hb.zsize⟩
  apply Submodule.sum_mem
  intro i hi
  apply Submodule.smul_mem
  exact Submodule.subset_span ⟨⟨i, mem_range.mp hi⟩, rfl⟩

/-- **the residual norm of the LGMRES iterates does not increase** with the number of passes (Krylov or augmentation) -/
theorem lcycle_antitone (j : ℕ) (hj : 1 ≤ j) (hroots : LRootsExact prm sqrt A P st (j + 1))
    (hnb : ∀ i, i < j + 1 → lArnoldiNorm prm sqrt A P st i ≠ 0) :
    stdIp (GMRES.Rf prm.pside P f A (lCycleIterate prm sqrt A P st (j + 1)))
        (GMRES.Rf prm.pside P f A (lCycleIterate prm sqrt A P st (j + 1)))
      ≤ stdIp (GMRES.Rf prm.pside P f A (lCycleIterate prm sqrt A P st j))
        (GMRES.Rf prm.pside P f A (lCycleIterate prm sqrt A P st j)) := by
  rw [lcycle_residual n A hA hn hm P Pl hP sqrt f prm st hst hod (j + 1) (by omega) hroots hnb,
    lcycle_residual n A hA hn hm P Pl hP sqrt f prm st hst hod j hj (hroots.mono (Nat.le_succ j))
      (fun i hi => hnb i (by omega))]
  have h := lInnerRes_antitone prm sqrt A P st j (hroots.rot j (Nat.lt_succ_self j))
  rw [absK_eq_abs, absK_eq_abs] at h
  exact abs_le_iff_mul_self_le.mp h

/-- the first pass does not increase the residual either -/
theorem lcycle_antitone_zero (hroots : LRootsExact prm sqrt A P st 1) (hnb : lArnoldiNorm prm sqrt A P st 0 ≠ 0) :
    stdIp (GMRES.Rf prm.pside P f A (lCycleIterate prm sqrt A P st 1))
        (GMRES.Rf prm.pside P f A (lCycleIterate prm sqrt A P st 1))
      ≤ stdIp (GMRES.Rf prm.pside P f A st.x) (GMRES.Rf prm.pside P f A st.x) :=
  lcycle_residual_le n A hA hn hm P Pl hP sqrt f prm st hst hod 0 hroots (fun i hi => absurd hi (Nat.not_lt_zero i))

/-- the cycle of the model returns `lCycleIterate … j` for the pass count `j` of its own inner loop -/
theorem lcycle_x (epsT : K) :
    (LGMRES.cycle prm stdIp sqrt A P epsT st).x
      = lCycleIterate prm sqrt A P st (LGMRES.inner prm stdIp sqrt A P epsT st).j := by
  unfold LGMRES.cycle lCycleIterate
  exact congrArg (fun t => (LGMRES.update prm stdIp sqrt P st t).x) (linner_eq prm sqrt A P epsT st).1

/-- **the restart cycle of the LGMRES MODEL does not increase the measured residual** — whatever the number of passes its
inner loop makes, whatever augmentation vectors it holds, with or without breakdown in its last pass -/
theorem lcycle_monotone (epsT : K) (heps : ¬ epsT < 0)
    (hroots : LRootsExact prm sqrt A P st (LGMRES.inner prm stdIp sqrt A P epsT st).j) :
    stdIp (GMRES.Rf prm.pside P f A (LGMRES.cycle prm stdIp sqrt A P epsT st).x)
        (GMRES.Rf prm.pside P f A (LGMRES.cycle prm stdIp sqrt A P epsT st).x)
      ≤ stdIp (GMRES.Rf prm.pside P f A st.x) (GMRES.Rf prm.pside P f A st.x) := by
  have hge := (linner_eq prm sqrt A P epsT st).2
  have hnb := linner_no_early_breakdown prm sqrt A P epsT heps st
  rw [lcycle_x n A hA hn hm P Pl hP sqrt f prm st hst hod epsT]
  obtain ⟨m, hm'⟩ : ∃ m, (LGMRES.inner prm stdIp sqrt A P epsT st).j = m + 1 := ⟨_, (Nat.sub_add_cancel hge).symm⟩
  rw [hm'] at hroots hnb ⊢
  exact lcycle_residual_le n A hA hn hm P Pl hP sqrt f prm st hst hod m hroots (fun i hi => hnb i (by omega))

end main
end Amgcl.Krylov
