import Amgcl.Proofs.KrylovGMRESOuter
import Amgcl.Proofs.KrylovFGMRESRestart
/-!
# GMRES / FGMRES: a restart cycle entered with `norm_r = 0` does not move `x` (C05)

With `eps = 0` the stopping test `norm_r < eps` fails for `norm_r = 0`, and the code enters another restart cycle with
`s = (0, 0, …)`.  The rotations map the zero vector to itself, the back substitution of the zero right-hand side gives
`y = 0` (total division: `0/h = 0` also for `h = 0`), so the update is `x += (P) Σ 0·v_i`: the vector denoted by `x` is
unchanged and so is the measured residual — whatever the Arnoldi vectors are (`v_0 = r/0`).  No root hypothesis.

* `innerPass_s_allzero`, `backSubst_zero`;  `innerPass_v_size` (the basis vectors have length `n`);
* `cycle_zero` / `fcycle_zero`   `‖Rf x'‖² = ‖Rf x‖²` for the `x'` such a cycle returns;
* `outerPass_step_le'`, `outerPass_antitone'` (and `f…`)   the monotonicity of the restarted sequence for a threshold that
  is NOT NEGATIVE (instead of positive).
-/
set_option linter.unusedSectionVars false
set_option linter.unusedVariables false
namespace Amgcl.Krylov
open Amgcl Amgcl.Solver Amgcl.Solver.GMRES Amgcl.Energy.Bridge Matrix Finset

section zero
variable {K : Type} [Field K] [DecidableEq K] [LT K] [DecidableLT K]

/-- back substitution of the zero right-hand side -/
theorem backSubst_zero (j : ℕ) (H : FArr2 K) (s : FArr K) (hs : ∀ a, s.get a = 0) :
    ∀ a, (backSubst j H s).get a = 0 := by
  unfold backSubst
  apply foldl_mem_inv _ (fun s : FArr K => ∀ a, s.get a = 0) _ _ hs
  intro s' i _ h1
  apply foldl_mem_inv _ (fun s : FArr K => ∀ a, s.get a = 0)
  · intro a
    rw [setF_get]
    split
    · rw [h1 i, zero_div]
    · exact h1 a
  · intro s'' k _ h2 a
    rw [setF_get]
    split
    · rw [h2 k, h2 i, mul_zero, sub_zero]
    · exact h2 a

/-- the reduced right-hand side of a cycle entered with `norm_r = 0` stays zero -/
theorem innerPass_s_allzero (side : Side) (sqrt : K → K) (A : CRS K) (P : Vec K → Vec K) (st : GMRES.St K)
    (h0 : st.normR = 0) : ∀ j a, (innerPass side sqrt A P st j).w.h.s.get a = 0 := by
  intro j
  induction j with
  | zero =>
    intro a
    show (sInit st.normR).get a = 0
    rw [sInit_get, h0]; split <;> rfl
  | succ j ih =>
    intro a
    rw [innerPass_succ]
    generalize innerPass side sqrt A P st j = t at ih
    obtain ⟨_, _, rs, _, _⟩ := rotate_spec sqrt t.j t.w.h (orth stdIp sqrt t.w.v t.j t.w.h.H (stepV side A P t)).1
    show (rotate sqrt t.j t.w.h (orth stdIp sqrt t.w.v t.j t.w.h.H (stepV side A P t)).1).1.s.get a = 0
    rw [rs a]
    simp only [rot1, ih]
    split_ifs <;> ring

/-- modified Gram–Schmidt returns a vector of length `n` -/
theorem mgs_size (n : ℕ) (v : FArr (Vec K)) (j : ℕ) (H : FArr2 K) (vnew : Vec K)
    (hv : ∀ a, a ≤ j → (v.get a).size = n) : (mgs stdIp v j H vnew).2.size = n := by
  unfold mgs
  have h := foldl_range_inv
    (fun (acc : FArr2 K × Vec K) k =>
      ((setF2 acc.1 k j (stdIp acc.2 (v.get k))),
        axpby (-((setF2 acc.1 k j (stdIp acc.2 (v.get k))).get k j)) (v.get k) 1 acc.2))
    (fun k (s : FArr2 K × Vec K) => 1 ≤ k → s.2.size = n) (j + 1) (H, vnew) (fun h => absurd h (by omega))
    (by
      intro k s hk _ _
      show (axpby _ (v.get k) 1 s.2).size = n
      rw [axpby_size]; exact hv k (by omega))
  exact h (by omega)

/-- the basis vectors of a cycle have length `n` (no hypothesis on norms or roots) -/
theorem innerPass_v_size (n : ℕ) (side : Side) (sqrt : K → K) (A : CRS K) (P : Vec K → Vec K) (st : GMRES.St K)
    (hr : st.w.r.size = n) : ∀ j a, a ≤ j → ((innerPass side sqrt A P st j).w.v.get a).size = n := by
  intro j
  induction j with
  | zero =>
    intro a ha
    have : a = 0 := by omega
    subst this
    show ((cycleStart st).w.v.get 0).size = n
    rw [cycleStart_v0, axpby_size]; exact hr
  | succ j ih =>
    intro a ha
    have hj := innerPass_j side sqrt A P st j
    rw [innerPass_succ, step_v, hj, setF_get]
    by_cases haj : a = j + 1
    · rw [if_pos haj, orth_snd, axpby_size]
      exact mgs_size n _ j _ _ ih
    · rw [if_neg haj]; exact ih a (by omega)

end zero

section cyc
variable {K : Type} [Field K] [LinearOrder K] [IsStrictOrderedRing K]

variable (n : ℕ) (A : CRS K) (hA : A.WF) (hn : A.nrows = n) (hm : A.ncols = n)
  (P : Vec K → Vec K) (Pl : (Fin n → K) →ₗ[K] (Fin n → K)) (hP : PDenotes n P Pl)
include hA hn hm hP

/-- **a restart cycle entered with `norm_r = 0` does not change the measured residual** -/
theorem cycle_zero (prm : GMRES.Params K) (sqrt : K → K) (f : Vec K) (epsT : K) (st : GMRES.St K)
    (hr : st.w.r.size = n) (h0 : st.normR = 0) :
    stdIp (GMRES.Rf prm.pside P f A (cycle prm stdIp sqrt A P epsT st).x)
        (GMRES.Rf prm.pside P f A (cycle prm stdIp sqrt A P epsT st).x)
      = stdIp (GMRES.Rf prm.pside P f A st.x) (GMRES.Rf prm.pside P f A st.x) := by
  have hge := (inner_eq_innerPass prm sqrt A P epsT st).2
  rw [cycle_x]
  generalize (inner prm stdIp sqrt A P epsT st).j = j at hge
  have hsize := innerPass_v_size n prm.pside sqrt A P st hr j
  have hvec := cycleIterate_vec n A hA hn hm P Pl hP prm.pside sqrt st j hge hsize
  have hy := backSubst_zero j (innerPass prm.pside sqrt A P st j).w.h.H (innerPass prm.pside sqrt A P st j).w.h.s
    (innerPass_s_allzero prm.pside sqrt A P st h0 j)
  have hsum : ∑ i ∈ range j, (backSubst j (innerPass prm.pside sqrt A P st j).w.h.H
        (innerPass prm.pside sqrt A P st j).w.h.s).get i • vecOf n ((innerPass prm.pside sqrt A P st j).w.v.get i) = 0 := by
    apply sum_eq_zero
    intro i _
    rw [hy i, zero_smul]
  rw [hsum, map_zero, add_zero] at hvec
  obtain ⟨r1, r2⟩ := Rf_vec n A hA hn hm P Pl hP prm.pside f (cycleIterate prm.pside sqrt A P st j)
  obtain ⟨q1, q2⟩ := Rf_vec n A hA hn hm P Pl hP prm.pside f st.x
  rw [stdIp_vecOf n _ _ r1 r1, stdIp_vecOf n _ _ q1 q1, r2, q2, hvec]

/-- one restart for a threshold that is NOT NEGATIVE -/
theorem outerPass_step_le' (prm : GMRES.Params K) (sqrt : K → K) (f : Vec K) (epsT : K) (heps : ¬ epsT < 0)
    (st0 : GMRES.St K) (h0 : GMRES.Inv prm.pside stdIp sqrt A P f st0) (k : ℕ)
    (hroots : (outerPass prm sqrt A P f epsT st0 k).normR ≠ 0 →
      RootsExact prm.pside sqrt A P (outerPass prm sqrt A P f epsT st0 k)
        (inner prm stdIp sqrt A P epsT (outerPass prm sqrt A P f epsT st0 k)).j) :
    stdIp (GMRES.Rf prm.pside P f A (outerPass prm sqrt A P f epsT st0 (k + 1)).x)
        (GMRES.Rf prm.pside P f A (outerPass prm sqrt A P f epsT st0 (k + 1)).x)
      ≤ stdIp (GMRES.Rf prm.pside P f A (outerPass prm sqrt A P f epsT st0 k).x)
        (GMRES.Rf prm.pside P f A (outerPass prm sqrt A P f epsT st0 k).x) := by
  obtain ⟨i1, i2⟩ := outerPass_inv prm sqrt A P f epsT st0 h0 k
  rw [outerPass_succ, head_x]
  by_cases hne : (outerPass prm sqrt A P f epsT st0 k).normR = 0
  · have hr : (outerPass prm sqrt A P f epsT st0 k).w.r.size = n := by
      rw [i1]; exact (Rf_vec n A hA hn hm P Pl hP prm.pside f _).1
    exact le_of_eq (cycle_zero n A hA hn hm P Pl hP prm sqrt f epsT _ hr hne)
  · have hst : CycleStart prm.pside sqrt A P f (outerPass prm sqrt A P f epsT st0 k) := ⟨i1, by rw [i2, i1], hne⟩
    exact cycle_monotone n A hA hn hm P Pl hP prm.pside sqrt f _ hst prm rfl epsT heps (hroots hne)

/-- **the whole restarted sequence is monotone, threshold not negative**: no stopping-test hypothesis at all — also the
cycles a caller would make by calling again are covered -/
theorem outerPass_antitone' (prm : GMRES.Params K) (sqrt : K → K) (f : Vec K) (epsT : K) (heps : ¬ epsT < 0)
    (st0 : GMRES.St K) (h0 : GMRES.Inv prm.pside stdIp sqrt A P f st0) (k : ℕ)
    (hroots : ∀ i, i < k → (outerPass prm sqrt A P f epsT st0 i).normR ≠ 0 →
      RootsExact prm.pside sqrt A P (outerPass prm sqrt A P f epsT st0 i)
        (inner prm stdIp sqrt A P epsT (outerPass prm sqrt A P f epsT st0 i)).j)
    (i j : ℕ) (hij : i ≤ j) (hj : j ≤ k) :
    stdIp (GMRES.Rf prm.pside P f A (outerPass prm sqrt A P f epsT st0 j).x)
        (GMRES.Rf prm.pside P f A (outerPass prm sqrt A P f epsT st0 j).x)
      ≤ stdIp (GMRES.Rf prm.pside P f A (outerPass prm sqrt A P f epsT st0 i).x)
        (GMRES.Rf prm.pside P f A (outerPass prm sqrt A P f epsT st0 i).x) := by
  induction j with
  | zero =>
    have : i = 0 := by omega
    subst this; exact le_refl _
  | succ j ih =>
    by_cases h : i = j + 1
    · subst h; exact le_refl _
    · exact le_trans
        (outerPass_step_le' n A hA hn hm P Pl hP prm sqrt f epsT heps st0 h0 j (hroots j (by omega)))
        (ih (by omega) (by omega))

end cyc

section fcyc
variable {K : Type} [Field K] [LinearOrder K] [IsStrictOrderedRing K]

variable (n : ℕ) (A : CRS K) (hA : A.WF) (hn : A.nrows = n) (hm : A.ncols = n)
  (P : Vec K → Vec K) (hPsz : ∀ u, (P u).size = n)
include hA hn hm hPsz

/-- **an FGMRES restart cycle entered with `norm_r = 0` does not change the residual** (any preconditioner function) -/
theorem fcycle_zero (prm : FGMRES.Params K) (sqrt : K → K) (f : Vec K) (epsT : K) (st : FGMRES.St K)
    (hx : st.x.size = n) (h0 : st.normR = 0) :
    stdIp (residual f A (FGMRES.cycle prm stdIp sqrt A P epsT st).x) (residual f A (FGMRES.cycle prm stdIp sqrt A P epsT st).x)
      = stdIp (residual f A st.x) (residual f A st.x) := by
  have hcA : ColsLt A n := by rw [← hm]; exact colsLt_of_wf A hA
  obtain ⟨_, _, hcx⟩ := finner_eq prm sqrt A P epsT st
  rw [hcx]
  generalize (FGMRES.inner prm stdIp sqrt A P epsT st).j = j
  have hvec := fCycleIterate_vec n A hn P hPsz sqrt st hx j
  have hs0 : ∀ a, (fInnerPass sqrt A P st j).w.h.s.get a = 0 := by
    intro a
    rw [(fsim sqrt A P st j).h]
    exact innerPass_s_allzero .right sqrt A P (toG st) h0 j a
  have hy := backSubst_zero j (fInnerPass sqrt A P st j).w.h.H (fInnerPass sqrt A P st j).w.h.s hs0
  have hsum : ∑ i ∈ range j, (backSubst j (fInnerPass sqrt A P st j).w.h.H (fInnerPass sqrt A P st j).w.h.s).get i
      • vecOf n ((fInnerPass sqrt A P st j).w.z.get i) = 0 := by
    apply sum_eq_zero
    intro i _
    rw [hy i, zero_smul]
  rw [hsum, add_zero] at hvec
  have r1 : (residual f A (fCycleIterate sqrt A P st j)).size = n := by rw [residual_size', hn]
  have q1 : (residual f A st.x).size = n := by rw [residual_size', hn]
  show stdIp (residual f A (fCycleIterate sqrt A P st j)) (residual f A (fCycleIterate sqrt A P st j)) = _
  rw [stdIp_vecOf n _ _ r1 r1, stdIp_vecOf n _ _ q1 q1, vecOf_residual A hn hcA, vecOf_residual A hn hcA, hvec]

/-- one FGMRES restart for a threshold that is NOT NEGATIVE -/
theorem fouterPass_step_le' (prm : FGMRES.Params K) (sqrt : K → K) (f : Vec K) (epsT : K) (heps : ¬ epsT < 0)
    (st0 : FGMRES.St K) (h0 : FGMRES.Inv stdIp sqrt A f st0) (hx0 : st0.x.size = n) (k : ℕ)
    (hroots : (fouterPass prm sqrt A P f epsT st0 k).normR ≠ 0 →
      RootsExact .right sqrt A P (toG (fouterPass prm sqrt A P f epsT st0 k))
        (FGMRES.inner prm stdIp sqrt A P epsT (fouterPass prm sqrt A P f epsT st0 k)).j) :
    stdIp (residual f A (fouterPass prm sqrt A P f epsT st0 (k + 1)).x)
        (residual f A (fouterPass prm sqrt A P f epsT st0 (k + 1)).x)
      ≤ stdIp (residual f A (fouterPass prm sqrt A P f epsT st0 k).x)
        (residual f A (fouterPass prm sqrt A P f epsT st0 k).x) := by
  obtain ⟨⟨i1, i2⟩, hxk⟩ := fouterPass_inv n prm sqrt A P hPsz f epsT st0 h0 hx0 k
  rw [fouterPass_succ, FGMRES.head_x]
  by_cases hne : (fouterPass prm sqrt A P f epsT st0 k).normR = 0
  · exact le_of_eq (fcycle_zero n A hA hn hm P hPsz prm sqrt f epsT _ hxk hne)
  · have hst : FCycleStart sqrt A f (fouterPass prm sqrt A P f epsT st0 k) := ⟨i1, by rw [i2, i1], hne⟩
    exact fcycle_monotone n A hA hn hm P hPsz sqrt f _ hst hxk prm epsT heps (hroots hne)

/-- the whole restarted FGMRES sequence is monotone, threshold not negative -/
theorem fouterPass_antitone' (prm : FGMRES.Params K) (sqrt : K → K) (f : Vec K) (epsT : K) (heps : ¬ epsT < 0)
    (st0 : FGMRES.St K) (h0 : FGMRES.Inv stdIp sqrt A f st0) (hx0 : st0.x.size = n) (k : ℕ)
    (hroots : ∀ i, i < k → (fouterPass prm sqrt A P f epsT st0 i).normR ≠ 0 →
      RootsExact .right sqrt A P (toG (fouterPass prm sqrt A P f epsT st0 i))
        (FGMRES.inner prm stdIp sqrt A P epsT (fouterPass prm sqrt A P f epsT st0 i)).j)
    (i j : ℕ) (hij : i ≤ j) (hj : j ≤ k) :
    stdIp (residual f A (fouterPass prm sqrt A P f epsT st0 j).x) (residual f A (fouterPass prm sqrt A P f epsT st0 j).x)
      ≤ stdIp (residual f A (fouterPass prm sqrt A P f epsT st0 i).x)
        (residual f A (fouterPass prm sqrt A P f epsT st0 i).x) := by
  induction j with
  | zero =>
    have : i = 0 := by omega
    subst this; exact le_refl _
  | succ j ih =>
    by_cases h : i = j + 1
    · subst h; exact le_refl _
    · exact le_trans
        (fouterPass_step_le' n A hA hn hm P hPsz prm sqrt f epsT heps st0 h0 hx0 j (hroots j (by omega)))
        (ih (by omega) (by omega))

end fcyc

end Amgcl.Krylov
