import Amgcl.Model.Adapters
import Amgcl.Proofs.KernelsMisc
/-!
The tuple-of-ranges adapter (crs_tuple.hpp) read back: for every CRS matrix `A` the tuple
`(n, ptr + base, pad ++ cols, pad ++ vals)` — `ptr`, `cols`, `vals` the C++ arrays of `A`, `base` an arbitrary offset of
the row pointers into longer `col` / `val` ranges — is presented by the adapter with exactly the rows of `A`.
-/
namespace Amgcl.Adapters
open Amgcl Amgcl.K2

section lists
variable {α : Type}

/-- the slice of a flattened list of lists that holds the `i`-th list -/
theorem flatten_slice (L : List (List α)) (i : Nat) (hi : i < L.length) :
    (L.flatten.drop ((L.map List.length).take i).sum).take (L[i].length) = L[i] := by
  induction L generalizing i with
  | nil => simp at hi
  | cons l t ih =>
    cases i with
    | zero => simp
    | succ k =>
      have hk : k < t.length := by simpa using hi
      simp only [List.map_cons, List.take_succ_cons, List.sum_cons, List.flatten_cons, List.getElem_cons_succ]
      rw [List.drop_append, List.drop_of_length_le (by omega), List.nil_append, Nat.add_sub_cancel_left]
      exact ih k hk

theorem sum_take_succ_le (ws : List Nat) (i : Nat) (hi : i < ws.length) :
    (ws.take i).sum + ws[i] ≤ ws.sum := by
  have h1 : (ws.take (i + 1)).sum = (ws.take i).sum + ws[i] := List.sum_take_succ ws i hi
  have h2 : (ws.take (i + 1)).sum ≤ ws.sum := by
    conv_rhs => rw [← List.take_append_drop (i + 1) ws]
    rw [List.sum_append]; omega
  omega

/-- reading `len` consecutive positions of a list starting at `lo` is `drop`/`take` -/
theorem map_range'_getD (l : List α) (d : α) (lo len : Nat) (h : lo + len ≤ l.length) :
    (List.range' lo len).map (fun j => l.getD j d) = (l.drop lo).take len := by
  apply List.ext_getElem
  · simp; omega
  · intro k h1 h2
    have hk : k < len := by simpa using h1
    simp only [List.getElem_map, List.getElem_range', Nat.one_mul, List.getElem_take, List.getElem_drop]
    rw [List.getD_eq_getElem _ _ (by omega)]

end lists

section tuple
variable {K : Type} [Zero K]

/-- all stored entries in row-major order: the C++ `col` / `val` arrays zipped -/
def flatPairs (A : CRS K) : List (Nat × K) := A.rows.toList.flatten

/-- the `ptr` range handed to the adapter: `A.ptr` shifted by `base` -/
def tuplePtr (A : CRS K) (base : Nat) : Array Int := (A.ptr.map (fun p => ((p + base : Nat) : Int))).toArray
/-- the `col` range: `pad` (ignored by the adapter) followed by the column array of `A` -/
def tupleCol (A : CRS K) (pad : List Int) : Array Int := (pad ++ (flatPairs A).map (fun cv => (cv.1 : Int))).toArray
/-- the `val` range -/
def tupleVal (A : CRS K) (pad : List K) : Array K := (pad ++ (flatPairs A).map (·.2)).toArray

theorem ptr_getD_eq (A : CRS K) (i : Nat) (hi : i ≤ A.nrows) :
    A.ptr.getD i 0 = ((A.rows.toList.map List.length).take i).sum := by
  rw [ptr_eq_scanWidths, scanWidths_getD _ i (by simpa [CRS.nrows] using hi)]

theorem tuplePtr_getD (A : CRS K) (base i : Nat) (hi : i ≤ A.nrows) :
    ((tuplePtr A base).getD i 0).toNat = ((A.rows.toList.map List.length).take i).sum + base := by
  unfold tuplePtr
  have hl : i < (A.ptr.map (fun p => ((p + base : Nat) : Int))).length := by
    rw [List.length_map, ptr_length]; omega
  have hl' : i < A.ptr.length := by rw [ptr_length]; omega
  simp only [Array.getD_eq_getD_getElem?, List.getElem?_toArray, List.getElem?_eq_getElem hl, Option.getD_some,
    List.getElem_map, Int.toNat_natCast]
  have := ptr_getD_eq A i hi
  rw [List.getD_eq_getElem _ _ hl'] at this
  rw [this]

/-- **the tuple adapter presents the rows of the source**, for any `ptr` base offset -/
theorem tupleRow_eq (A : CRS K) (base : Nat) (pad : List Int) (padv : List K) (hp : pad.length = base)
    (hpv : padv.length = base) (i : Nat) (hi : i < A.nrows) :
    tupleRow (tuplePtr A base) (tupleCol A pad) (tupleVal A padv) i = A.row i := by
  have hi' : i < A.rows.toList.length := by simpa [CRS.nrows] using hi
  have hlen : i < (A.rows.toList.map List.length).length := by simpa using hi'
  unfold tupleRow
  simp only
  rw [tuplePtr_getD A base i (Nat.le_of_lt hi), tuplePtr_getD A base (i + 1) hi,
    List.sum_take_succ _ i hlen]
  set o := ((A.rows.toList.map List.length).take i).sum with ho
  have hw : (A.rows.toList.map List.length)[i] = (A.rows.toList[i]).length := by simp
  rw [hw]
  set len := (A.rows.toList[i]).length with hlen'
  have hsub : o + len + base - (o + base) = len := by omega
  rw [hsub]
  have hflat : o + len ≤ (flatPairs A).length := by
    unfold flatPairs
    rw [List.length_flatten]
    have := sum_take_succ_le (A.rows.toList.map List.length) i hlen
    rw [hw] at this
    exact this
  -- read position `base + q`
  have hread : ∀ q, q < (flatPairs A).length →
      (((tupleCol A pad).getD (q + base) 0).toNat, (tupleVal A padv).getD (q + base) 0)
        = (flatPairs A).getD q (0, 0) := by
    intro q hq
    unfold tupleCol tupleVal
    simp only [Array.getD_eq_getD_getElem?, List.getElem?_toArray]
    rw [List.getElem?_append_right (by omega), List.getElem?_append_right (by omega), hp, hpv,
      Nat.add_sub_cancel, List.getElem?_map, List.getElem?_map, List.getD_eq_getElem _ _ hq,
      List.getElem?_eq_getElem hq]
    simp
  have hmap : (List.range' (o + base) len).map
        (fun j => (((tupleCol A pad).getD j 0).toNat, (tupleVal A padv).getD j 0))
      = (List.range' o len).map (fun q => (flatPairs A).getD q (0, 0)) := by
    apply List.ext_getElem (by simp)
    intro k h1 h2
    have hk : k < len := by simpa using h1
    simp only [List.getElem_map, List.getElem_range', Nat.one_mul]
    have := hread (o + k) (by omega)
    rw [← this]
    have e : o + base + k = o + k + base := by omega
    rw [e]
  rw [hmap, map_range'_getD _ _ _ _ hflat]
  unfold flatPairs
  rw [ho, hlen', flatten_slice _ i hi', row_eq_getElem A hi]
  rfl

theorem crsTuple_eq (A : CRS K) (hsq : A.ncols = A.nrows) (base : Nat) (pad : List Int) (padv : List K)
    (hp : pad.length = base) (hpv : padv.length = base) :
    crsTuple A.nrows (tuplePtr A base) (tupleCol A pad) (tupleVal A padv) = A := by
  cases A with
  | mk nc rows =>
    simp only at hsq
    unfold crsTuple
    simp only [CRS.mk.injEq]
    refine ⟨hsq.symm, ?_⟩
    apply Array.ext (by simp [CRS.nrows])
    intro i h1 h2
    simp only [Array.getElem_ofFn]
    rw [tupleRow_eq ⟨nc, rows⟩ base pad padv hp hpv i h2]
    exact row_eq_getElem _ h2

/-- `nonzeros()` of the tuple adapter is `ptr[n]`: the number of stored entries plus the base offset -/
theorem tupleNonzeros_eq (A : CRS K) (base : Nat) :
    tupleNonzeros A.nrows (tuplePtr A base) = ((A.nnz + base : Nat) : Int) := by
  unfold tupleNonzeros
  have h := tuplePtr_getD A base A.nrows (Nat.le_refl _)
  have hnn : 0 ≤ (tuplePtr A base).getD A.nrows 0 := by
    unfold tuplePtr
    have hl : A.nrows < (A.ptr.map (fun p => ((p + base : Nat) : Int))).length := by
      rw [List.length_map, ptr_length]; omega
    simp only [Array.getD_eq_getD_getElem?, List.getElem?_toArray, List.getElem?_eq_getElem hl, Option.getD_some,
      List.getElem_map]
    exact Int.natCast_nonneg _
  have ht : ((A.rows.toList.map List.length).take A.nrows).sum = A.nnz := by
    rw [nnz_eq_sum, List.take_of_length_le (by simp [CRS.nrows])]
  rw [ht] at h
  rw [← h, Int.toNat_of_nonneg hnn]

end tuple

end Amgcl.Adapters
