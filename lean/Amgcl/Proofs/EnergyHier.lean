import Amgcl.Proofs.EnergyCoarse
/-!
# The multilevel cycle as a matrix recursion, and its energy-norm contraction

`Hier 𝕜 n` is an abstract multigrid hierarchy on `Fin n`-vectors, mirroring what `amg::cycle`
(amgcl/amg.hpp:515-553) uses of every level:

* `direct A`            — coarsest level with a direct solver (`x = A⁻¹ f`);
* `relax A N₁ N₂`       — coarsest level without one: `npre` sweeps `x += N₁(f − A x)`, then `npost` sweeps with `N₂`;
* `level A N₁ N₂ P R h` — inner level: `ncycle ×` (`npre` pre-sweeps, `x += P · cycle_h(R (f − A x), 0)`, `npost`
  post-sweeps).

`Hier.B p h` is the matrix with `cycle(f, x = 0) = B f`, defined by the same recursion through `seqB`/`powB`/`cgcB`,
so that `cycle(f, x) = x + B (f − A x)` and the error is propagated by `1 − B A` (`EnergyBasic.step_error`).
Note that amgcl repeats the *whole* body `ncycle` times on every inner level (also on the finest), which is what
`Hier.B` does; the textbook W-cycle differs only on the finest level (one pass), and is covered by the same lemmas.
-/
set_option linter.unusedSectionVars false
namespace Amgcl.Energy
open Matrix

universe u
variable {𝕜 : Type u} [Field 𝕜] [LinearOrder 𝕜] [IsStrictOrderedRing 𝕜]

/-- the cycle parameters that matter for the operator: `npre`, `npost`, `ncycle` -/
structure CycPrm where
  npre : ℕ
  npost : ℕ
  ncycle : ℕ

/-- an abstract multigrid hierarchy on vectors of length `n` -/
inductive Hier (𝕜 : Type u) : ℕ → Type u
  | direct {n : ℕ} (A : Matrix (Fin n) (Fin n) 𝕜) : Hier 𝕜 n
  | relax {n : ℕ} (A N₁ N₂ : Matrix (Fin n) (Fin n) 𝕜) : Hier 𝕜 n
  | level {n m : ℕ} (A N₁ N₂ : Matrix (Fin n) (Fin n) 𝕜) (P : Matrix (Fin n) (Fin m) 𝕜)
      (R : Matrix (Fin m) (Fin n) 𝕜) (next : Hier 𝕜 m) : Hier 𝕜 n

namespace Hier

omit [LinearOrder 𝕜] [IsStrictOrderedRing 𝕜] in
/-- the system matrix of the top level -/
def A : {n : ℕ} → Hier 𝕜 n → Matrix (Fin n) (Fin n) 𝕜
  | _, direct A => A
  | _, relax A _ _ => A
  | _, level A _ _ _ _ _ => A

omit [LinearOrder 𝕜] [IsStrictOrderedRing 𝕜] in
/-- one pass of the loop body of an inner level, as a preconditioner matrix: pre-smoothing, coarse-grid correction with
the coarse preconditioner `Bc`, post-smoothing -/
def bodyB {n m : ℕ} (p : CycPrm) (A N₁ N₂ : Matrix (Fin n) (Fin n) 𝕜) (P : Matrix (Fin n) (Fin m) 𝕜)
    (R : Matrix (Fin m) (Fin n) 𝕜) (Bc : Matrix (Fin m) (Fin m) 𝕜) : Matrix (Fin n) (Fin n) 𝕜 :=
  seqB A (seqB A (powB A N₁ p.npre) (P * Bc * R)) (powB A N₂ p.npost)

omit [LinearOrder 𝕜] [IsStrictOrderedRing 𝕜] in
/-- **the cycle operator**: `cycle(f, 0) = B f` -/
noncomputable def B (p : CycPrm) : {n : ℕ} → Hier 𝕜 n → Matrix (Fin n) (Fin n) 𝕜
  | _, direct A => A⁻¹
  | _, relax A N₁ N₂ => seqB A (powB A N₁ p.npre) (powB A N₂ p.npost)
  | _, level A N₁ N₂ P R next => powB A (bodyB p A N₁ N₂ P R (B p next)) p.ncycle

omit [LinearOrder 𝕜] [IsStrictOrderedRing 𝕜] in
/-- the error propagation operator of one cycle -/
noncomputable def E (p : CycPrm) {n : ℕ} (h : Hier 𝕜 n) : Matrix (Fin n) (Fin n) 𝕜 := 1 - h.B p * h.A

omit [LinearOrder 𝕜] [IsStrictOrderedRing 𝕜] in
/-- `amg::apply` with `pre_cycles = k ≥ 1`: `k` cycles from `x = 0` -/
noncomputable def applyB (p : CycPrm) (k : ℕ) {n : ℕ} (h : Hier 𝕜 n) : Matrix (Fin n) (Fin n) 𝕜 :=
  powB h.A (h.B p) k

/-- the hypotheses of the convergence theory: every level matrix SPD, `R = Pᵀ` with `P` injective, Galerkin coarse
operators, every smoother sweep strictly contracting in the energy norm of its level -/
def OK : {n : ℕ} → Hier 𝕜 n → Prop
  | _, direct A => IsSPD A
  | _, relax A N₁ N₂ => IsSPD A ∧ Contr A (1 - N₁ * A) ∧ Contr A (1 - N₂ * A)
  | _, level A N₁ N₂ P R next =>
      IsSPD A ∧ Contr A (1 - N₁ * A) ∧ Contr A (1 - N₂ * A) ∧ R = Pᵀ ∧ (∀ w, P *ᵥ w = 0 → w = 0) ∧
        next.A = Pᵀ * A * P ∧ next.OK

omit [LinearOrder 𝕜] [IsStrictOrderedRing 𝕜] in
/-- the cycle is symmetric: post-smoother = transpose (⇔ `A`-adjoint) of the pre-smoother on every level -/
def Sym : {n : ℕ} → Hier 𝕜 n → Prop
  | _, direct _ => True
  | _, relax _ N₁ N₂ => N₂ = N₁ᵀ
  | _, level _ N₁ N₂ _ _ next => N₂ = N₁ᵀ ∧ next.Sym

omit [LinearOrder 𝕜] [IsStrictOrderedRing 𝕜] in
/-- the hierarchy of `c A` with the same transfer operators and smoothers whose matrices scale inversely -/
def scale (c : 𝕜) : {n : ℕ} → Hier 𝕜 n → Hier 𝕜 n
  | _, direct A => direct (c • A)
  | _, relax A N₁ N₂ => relax (c • A) (c⁻¹ • N₁) (c⁻¹ • N₂)
  | _, level A N₁ N₂ P R next => level (c • A) (c⁻¹ • N₁) (c⁻¹ • N₂) P R (next.scale c)

theorem OK.spd {n : ℕ} {h : Hier 𝕜 n} (hok : h.OK) : IsSPD h.A := by
  cases h with
  | direct A => exact hok
  | relax A N₁ N₂ => exact hok.1
  | level A N₁ N₂ P R next => exact hok.1

end Hier

/-! ### contraction -/
section sandwich
variable {ι : Type*} [Fintype ι] [DecidableEq ι] {A S₁ S₂ C : Matrix ι ι 𝕜}

/-- `S₂^b · C · S₁^a` is strictly contracting when the sweeps are, `C` is nonexpansive and `a + b ≥ 1` -/
theorem sandwich_contr (hA : IsSPD A) (h1 : Contr A S₁) (h2 : Contr A S₂) (hC : NonExp A C) {a b : ℕ}
    (hab : 0 < a + b) : Contr A (S₂ ^ b * C * S₁ ^ a) := by
  rcases Nat.eq_zero_or_pos a with ha | ha
  · subst ha
    have hb : 0 < b := by omega
    rw [pow_zero, mul_one]
    exact (h2.pow hb).mul_nonExp hA hC
  · exact ((h2.nonExp.pow b).mul hC).mul_contr (h1.pow ha)

end sandwich

namespace Hier

omit [LinearOrder 𝕜] [IsStrictOrderedRing 𝕜] in
/-- the error operator of one body pass factorises: `E = S₂^npost · (1 − P B_c R A) · S₁^npre` -/
theorem one_sub_bodyB_mul {n m : ℕ} (p : CycPrm) (A N₁ N₂ : Matrix (Fin n) (Fin n) 𝕜) (P : Matrix (Fin n) (Fin m) 𝕜)
    (R : Matrix (Fin m) (Fin n) 𝕜) (Bc : Matrix (Fin m) (Fin m) 𝕜) :
    1 - bodyB p A N₁ N₂ P R Bc * A =
      (1 - N₂ * A) ^ p.npost * (1 - P * Bc * R * A) * (1 - N₁ * A) ^ p.npre := by
  rw [bodyB, one_sub_seqB_mul, one_sub_seqB_mul, one_sub_powB_mul, one_sub_powB_mul]
  simp only [Matrix.mul_assoc]

/-- **multilevel contraction**: under `OK`, for every `npre + npost ≥ 1`, every `ncycle ≥ 1` (V-cycle, W-cycle, …)
and any number of levels the cycle's error operator is strictly contracting in the energy norm -/
theorem contr (p : CycPrm) (hs : 0 < p.npre + p.npost) (hc : 0 < p.ncycle) :
    ∀ {n : ℕ} (h : Hier 𝕜 n), h.OK → Contr h.A (1 - h.B p * h.A)
  | _, direct A, hok => by
    simp only [B, Hier.A]
    rw [IsSPD.inv_mul hok, sub_self]; exact contr_zero hok
  | _, relax A N₁ N₂, hok => by
    obtain ⟨hA, h1, h2⟩ := hok
    simp only [B, Hier.A]
    rw [one_sub_seqB_mul, one_sub_powB_mul, one_sub_powB_mul]
    have := sandwich_contr hA h1 h2 (nonExp_one (A := A)) hs
    rwa [Matrix.mul_one] at this
  | _, level A N₁ N₂ P R next, hok => by
    obtain ⟨hA, h1, h2, hR, hP, hG, hn⟩ := hok
    have ih := contr p hs hc next hn
    simp only [B, Hier.A]
    rw [one_sub_powB_mul, one_sub_bodyB_mul]
    apply Contr.pow _ hc
    apply sandwich_contr hA h1 h2 _ hs
    have hAc : IsSPD next.A := hn.spd
    have := cgc_nonExp (P := P) (Bc := next.B p) hA.1 hG hAc.exists_solve ih.nonExp
    rwa [cgcB, ← hR] at this

/-- `k ≥ 1` cycles from a zero initial guess (`amg::apply`, `pre_cycles = k`) contract as well -/
theorem applyB_contr (p : CycPrm) (hs : 0 < p.npre + p.npost) (hc : 0 < p.ncycle) {k : ℕ} (hk : 0 < k)
    {n : ℕ} (h : Hier 𝕜 n) (hok : h.OK) : Contr h.A (1 - h.applyB p k * h.A) := by
  rw [applyB, one_sub_powB_mul]; exact (contr p hs hc h hok).pow hk

/-! ### symmetry -/

omit [LinearOrder 𝕜] [IsStrictOrderedRing 𝕜] in
theorem bodyB_transpose {n m : ℕ} (p : CycPrm) (hnu : p.npre = p.npost) {A N : Matrix (Fin n) (Fin n) 𝕜}
    (hA : Aᵀ = A) (P : Matrix (Fin n) (Fin m) 𝕜) {Bc : Matrix (Fin m) (Fin m) 𝕜} (hB : Bcᵀ = Bc) :
    (bodyB p A N Nᵀ P Pᵀ Bc)ᵀ = bodyB p A N Nᵀ P Pᵀ Bc := by
  have hQ : (P * Bc * Pᵀ)ᵀ = P * Bc * Pᵀ := cgcB_transpose (P := P) hB
  rw [bodyB, seqB_transpose _ _ _ hA, seqB_transpose _ _ _ hA, powB_transpose _ _ hA, powB_transpose _ _ hA,
    transpose_transpose, hQ, hnu, seqB_assoc]

/-- **`B` is symmetric** for a symmetric cycle (`post = preᵀ`, `npre = npost`, `R = Pᵀ`, `A` symmetric) -/
theorem B_transpose (p : CycPrm) (hnu : p.npre = p.npost) :
    ∀ {n : ℕ} (h : Hier 𝕜 n), h.OK → h.Sym → (h.B p)ᵀ = h.B p
  | _, direct A, hok, _ => by
    simp only [B]; rw [transpose_nonsing_inv, hok.1]
  | _, relax A N₁ N₂, hok, hsym => by
    simp only [Sym] at hsym
    subst hsym
    simp only [B]
    rw [seqB_transpose _ _ _ hok.1.1, powB_transpose _ _ hok.1.1, powB_transpose _ _ hok.1.1, transpose_transpose, hnu]
  | _, level A N₁ N₂ P R next, hok, hsym => by
    obtain ⟨hA, -, -, hR, -, -, hn⟩ := hok
    obtain ⟨hN, hns⟩ := hsym
    subst hN hR
    simp only [B]
    rw [powB_transpose _ _ hA.1, bodyB_transpose p hnu hA.1 P (B_transpose p hnu next hn hns)]

theorem applyB_transpose (p : CycPrm) (hnu : p.npre = p.npost) (k : ℕ) {n : ℕ} (h : Hier 𝕜 n) (hok : h.OK)
    (hsym : h.Sym) : (h.applyB p k)ᵀ = h.applyB p k := by
  rw [applyB, powB_transpose _ _ hok.spd.1, B_transpose p hnu h hok hsym]

/-! ### scaling -/

omit [LinearOrder 𝕜] [IsStrictOrderedRing 𝕜] in
@[simp] theorem scale_A (c : 𝕜) {n : ℕ} (h : Hier 𝕜 n) : (h.scale c).A = c • h.A := by
  cases h <;> rfl

omit [LinearOrder 𝕜] [IsStrictOrderedRing 𝕜] in
/-- **`B(c A) = c⁻¹ B(A)`** for the hierarchy with the same transfer operators and inversely scaling smoothers -/
theorem scale_B (p : CycPrm) {c : 𝕜} (hc : c ≠ 0) : ∀ {n : ℕ} (h : Hier 𝕜 n), (h.scale c).B p = c⁻¹ • h.B p
  | _, direct A => by
    simp only [scale, B]
    by_cases h : IsUnit A.det
    · exact inv_smul' A (Units.mk0 c hc) h
    · have h' : ¬ IsUnit (c • A).det := by
        rw [det_smul, isUnit_iff_ne_zero, not_not] at *
        rw [h, mul_zero]
      rw [nonsing_inv_apply_not_isUnit _ h, nonsing_inv_apply_not_isUnit _ h', smul_zero]
  | _, relax A N₁ N₂ => by
    simp only [scale, B]
    rw [powB_smul _ _ hc, powB_smul _ _ hc, seqB_smul _ _ _ hc]
  | _, level A N₁ N₂ P R next => by
    simp only [scale, B, bodyB]
    rw [scale_B p hc next, powB_smul _ _ hc, powB_smul _ _ hc, Matrix.mul_smul, Matrix.smul_mul,
      seqB_smul _ _ _ hc, seqB_smul _ _ _ hc, powB_smul _ _ hc]

omit [LinearOrder 𝕜] [IsStrictOrderedRing 𝕜] in
theorem scale_applyB (p : CycPrm) {c : 𝕜} (hc : c ≠ 0) (k : ℕ) {n : ℕ} (h : Hier 𝕜 n) :
    (h.scale c).applyB p k = c⁻¹ • h.applyB p k := by
  rw [applyB, applyB, scale_A, scale_B p hc, powB_smul _ _ hc]

theorem contr_smul {ι : Type*} [Fintype ι] [DecidableEq ι] {A N : Matrix ι ι 𝕜} {c : 𝕜} (hc : 0 < c)
    (h : Contr A (1 - N * A)) : Contr (c • A) (1 - (c⁻¹ • N) * (c • A)) := by
  have : (c⁻¹ • N) * (c • A) = N * A := by
    rw [Matrix.smul_mul, Matrix.mul_smul, smul_smul, inv_mul_cancel₀ hc.ne', one_smul]
  rw [this]
  intro e he
  rw [en_smul_mat, en_smul_mat]
  exact mul_lt_mul_of_pos_left (h e he) hc

/-- the scaled hierarchy satisfies the hypotheses again (`c > 0`) -/
theorem scale_OK {c : 𝕜} (hc : 0 < c) : ∀ {n : ℕ} (h : Hier 𝕜 n), h.OK → (h.scale c).OK
  | _, direct A, hok => hok.smul hc
  | _, relax A N₁ N₂, hok => ⟨hok.1.smul hc, contr_smul hc hok.2.1, contr_smul hc hok.2.2⟩
  | _, level A N₁ N₂ P R next, hok => by
    obtain ⟨hA, h1, h2, hR, hP, hG, hn⟩ := hok
    refine ⟨hA.smul hc, contr_smul hc h1, contr_smul hc h2, hR, hP, ?_, scale_OK hc next hn⟩
    rw [scale_A, hG, Matrix.mul_smul, Matrix.smul_mul]

omit [LinearOrder 𝕜] [IsStrictOrderedRing 𝕜] in
theorem scale_Sym (c : 𝕜) : ∀ {n : ℕ} (h : Hier 𝕜 n), h.Sym → (h.scale c).Sym
  | _, direct A, _ => trivial
  | _, relax A N₁ N₂, hs => by simp only [Sym] at hs; subst hs; simp [scale, Sym]
  | _, level A N₁ N₂ P R next, hs => by
    obtain ⟨hN, hn⟩ := hs
    subst hN
    exact ⟨by simp, scale_Sym c next hn⟩

end Hier

/-! ### building the hierarchy from the fine matrix, the transfer operators and a smoother family -/

/-- the transfer operators of all levels (what the coarsening produced), and whether the coarsest level has a
direct solver -/
inductive Transfers (𝕜 : Type u) : ℕ → Type u
  | coarsest {n : ℕ} (directCoarse : Bool) : Transfers 𝕜 n
  | cons {n m : ℕ} (P : Matrix (Fin n) (Fin m) 𝕜) (R : Matrix (Fin m) (Fin n) 𝕜) (rest : Transfers 𝕜 m) :
      Transfers 𝕜 n

/-- a smoother as a map from the level matrix to the matrix `N` of its sweep `x += N (f − A x)` -/
abbrev SmootherFamily (𝕜 : Type u) := ∀ n : ℕ, Matrix (Fin n) (Fin n) 𝕜 → Matrix (Fin n) (Fin n) 𝕜

omit [LinearOrder 𝕜] [IsStrictOrderedRing 𝕜] in
/-- the hierarchy with Galerkin coarse operators `R A P` -/
def Hier.build (pre post : SmootherFamily 𝕜) : {n : ℕ} → Matrix (Fin n) (Fin n) 𝕜 → Transfers 𝕜 n → Hier 𝕜 n
  | _, A, .coarsest true => .direct A
  | _, A, .coarsest false => .relax A (pre _ A) (post _ A)
  | _, A, .cons P R rest => .level A (pre _ A) (post _ A) P R (Hier.build pre post (R * A * P) rest)

omit [LinearOrder 𝕜] [IsStrictOrderedRing 𝕜] in
/-- if the smoother matrices scale inversely with the matrix, rebuilding the hierarchy for `c A` with the same transfer
operators gives the scaled hierarchy -/
theorem Hier.build_smul (pre post : SmootherFamily 𝕜) (c : 𝕜)
    (hpre : ∀ n A, pre n (c • A) = c⁻¹ • pre n A) (hpost : ∀ n A, post n (c • A) = c⁻¹ • post n A) :
    ∀ {n : ℕ} (A : Matrix (Fin n) (Fin n) 𝕜) (T : Transfers 𝕜 n),
      Hier.build pre post (c • A) T = (Hier.build pre post A T).scale c
  | _, A, .coarsest true => rfl
  | _, A, .coarsest false => by simp [Hier.build, Hier.scale, hpre, hpost]
  | _, A, .cons P R rest => by
    simp only [Hier.build, Hier.scale, hpre, hpost]
    rw [← Hier.build_smul pre post c hpre hpost (R * A * P) rest, Matrix.mul_smul, Matrix.smul_mul]

end Amgcl.Energy
