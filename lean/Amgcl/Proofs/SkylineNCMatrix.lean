import Amgcl.Proofs.SkylineNCEmbed
import Mathlib.Data.Matrix.Mul
import Mathlib.LinearAlgebra.Matrix.NonsingularInverse
import Mathlib.Tactic.IntervalCases
import Amgcl.Proofs.Perm
/-!
The block instance of the non-commutative skyline development: values `Matrix (Fin b) (Fin b) F`
(`static_matrix<T,b,b>`), right-hand sides `Fin b → F` (`static_matrix<T,b,1>`), the product `V * R → R` is `mulVec`.
Concrete data of the non-vacuity examples of `Properties/C16d.lean` (2 x 2 integer blocks that do not commute).
-/
namespace Amgcl
open Finset
namespace SkyNC
open Skyline

/-- `Fin b → F` as a module over the `b × b` matrices (`a • x = a.mulVec x`) -/
@[reducible] def matVecModule (b : Nat) (F : Type) [Ring F] : Module (Matrix (Fin b) (Fin b) F) (Fin b → F) where
  smul := fun a x => a.mulVec x
  one_smul := Matrix.one_mulVec
  mul_smul := fun a c x => (Matrix.mulVec_mulVec x a c).symm
  smul_zero := Matrix.mulVec_zero
  smul_add := Matrix.mulVec_add
  add_smul := Matrix.add_mulVec
  zero_smul := Matrix.zero_mulVec

/-- the product `static_matrix<T,b,b> * static_matrix<T,b,1>` of the model's `operator()` at block values -/
@[reducible] def mulVecHMul (b : Nat) (F : Type) [Ring F] : HMul (Matrix (Fin b) (Fin b) F) (Fin b → F) (Fin b → F) :=
  ⟨Matrix.mulVec⟩

/-- the Mathlib inverse is a right inverse of every pivot whose determinant is a unit -/
theorem pivotsOK_nonsing_inv {b : Nat} {F R : Type} [CommRing F] (isZero : Matrix (Fin b) (Fin b) F → Bool)
    (S : Skyline (Matrix (Fin b) (Fin b) F) R)
    (h0 : IsUnit (S.D.getD 0 0).det)
    (hk : ∀ k Sk, k < S.n - 1 →
      factorLoop isZero (fun a => a⁻¹) { S with D := S.D.setIfInBounds 0 ((S.D.getD 0 0)⁻¹) } k = .ok Sk →
      IsUnit (pivotSum (factorStepLU Sk k) k).det) :
    PivotsOK isZero (fun a => a⁻¹) S :=
  ⟨Matrix.mul_nonsing_inv _ h0, fun k Sk hlt hrun => Matrix.mul_nonsing_inv _ (hk k Sk hlt hrun)⟩

/-! ### example data: a 2 x 2 block system with 2 x 2 integer blocks -/

abbrev B2 := Matrix (Fin 2) (Fin 2) ℤ
abbrev V2 := Fin 2 → ℤ

/-- inverse of a unimodular 2 x 2 integer block: `det⁻¹ · adj` with `det = ±1` (a PARTIAL inverse: nothing is claimed
for other blocks) -/
def inv2 (a : B2) : B2 :=
  let d := a 0 0 * a 1 1 - a 0 1 * a 1 0
  !![d * a 1 1, -(d * a 0 1); -(d * a 1 0), d * a 0 0]

def isZ2 (a : B2) : Bool := decide (a = 0)

def a00 : B2 := !![1, 1; 0, 1]
def a01 : B2 := !![0, 1; 1, 0]
def a10 : B2 := !![1, 0; 1, 1]
def a11 : B2 := !![0, 1; 1, 2]

/-- the pivot blocks do not commute with their neighbours: a swapped product is a different matrix -/
theorem a00_a01_noncomm : a00 * a01 ≠ a01 * a00 := by decide
theorem inv_a00_a01_noncomm : inv2 a00 * a01 ≠ a01 * inv2 a00 := by decide

/-- CRS `[[a00, a01], [a10, a11]]`, second row stored unsorted -/
def exAB : CRS B2 := ⟨2, #[[(0, a00), (1, a01)], [(1, a11), (0, a10)]]⟩

/-- what the constructor writes (identity ordering) -/
def exRawB : Skyline B2 V2 := ⟨2, #[0, 1], #[0, 0, 1], #[a10], #[a01], #[a00, a11], #[0, 0]⟩
/-- the factorised storage: `U(0,1) = D[0]*a01`, `D[1] = inv (a11 − a10*U(0,1))` -/
def exFacB : Skyline B2 V2 :=
  ⟨2, #[0, 1], #[0, 0, 1], #[a10], #[inv2 a00 * a01], #[inv2 a00, inv2 (a11 - a10 * (inv2 a00 * a01))], #[0, 0]⟩

/-- the numbers: `U(0,1) = [[-1,1],[1,0]]`, `D = [[1,-1],[0,1]], [[1,0],[-1,1]]` -/
theorem exFacB_values : exFacB.U = #[!![-1, 1; 1, 0]] ∧ exFacB.D = #[!![1, -1; 0, 1], !![1, 0; -1, 1]] := by decide


theorem exB_perm : PermOn 2 #[0, 1] := isPermB_permOn 2 #[0, 1] (by decide)

theorem exAB_wf : exAB.WF := by decide

theorem exAB_nodup : ∀ i, ((exAB.row i).map (·.1)).Nodup := by
  intro i
  rcases Nat.lt_or_ge i 2 with h | h
  · interval_cases i <;> simp [CRS.row, exAB]
  · have : exAB.row i = [] := by
      unfold CRS.row; simp [Array.getD, exAB]; omega
    rw [this]; simp

theorem exB_build : build (R := V2) (fun v : B2 => decide (v = 0)) exAB #[0, 1] = exRawB := by rfl

theorem exB_factorize_raw : factorize (fun v : B2 => decide (v = 0)) inv2 exRawB = .ok exFacB := by rfl

theorem exB_factorize :
    factorize (fun v : B2 => decide (v = 0)) inv2 (build (R := V2) (fun v : B2 => decide (v = 0)) exAB #[0, 1]) = .ok exFacB := by
  rw [exB_build]; exact exB_factorize_raw

theorem exB_pivotsOK_raw : PivotsOK (fun v : B2 => decide (v = 0)) inv2 exRawB := by
  refine ⟨by decide, ?_⟩
  intro k Sk hk hrun
  have hk0 : k = 0 := by have : k < 1 := hk; omega
  subst hk0
  injection hrun with e
  subst e
  decide

theorem exB_pivotsOK :
    PivotsOK (fun v : B2 => decide (v = 0)) inv2 (build (R := V2) (fun v : B2 => decide (v = 0)) exAB #[0, 1]) := by
  rw [exB_build]; exact exB_pivotsOK_raw

/-- a storage whose second pivot block `a11' − a10 * (inv2 a00 * a01)` is the zero block although `a11' ≠ 0` -/
def exSingB : Skyline B2 V2 := ⟨2, #[0, 1], #[0, 0, 1], #[a10], #[a01], #[a00, !![-1, 1; 0, 1]], #[0, 0]⟩

theorem exSingB_storage : StorageWF exSingB := by
  refine ⟨?_, rfl, rfl, rfl⟩
  intro i hi
  have : i < 2 := hi
  interval_cases i <;> simp [Skyline.P, exSingB]

theorem exSingB_schur : Emb exSingB (0 + 1) (0 + 1)
    = ∑ m ∈ range (0 + 1), Ld (factorStepLU { exSingB with D := exSingB.D.setIfInBounds 0 (inv2 (exSingB.D.getD 0 0)) } 0) (0 + 1) m
        * Ud (factorStepLU { exSingB with D := exSingB.D.setIfInBounds 0 (inv2 (exSingB.D.getD 0 0)) } 0) m (0 + 1) := by
  rw [Finset.sum_range_one]
  decide

end SkyNC
end Amgcl
