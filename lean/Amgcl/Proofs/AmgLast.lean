import Amgcl.Proofs.AmgRebuild
/-!
Consequences of the chain structure: the last-level decision table of `do_init`, adjacent-level Galerkin
relation in explicit (index) form, strictly decreasing level sizes.
-/
namespace Amgcl
namespace Amg

variable {K S : Type} [Add K] [Mul K] [Zero K] [One K]

/-- the system matrix a level stands for: the matrix of its direct solver, else its stored `A` -/
def levelMatrix (lv : Level K S) : Option (CRS K) :=
  match lv.solve with
  | some M => some M
  | none => lv.A

omit [Add K] [Mul K] [Zero K] [One K] in
theorem sortRows_nrows (A : CRS K) : (sortRows A).nrows = A.nrows := by
  unfold sortRows CRS.nrows; simp

omit [Add K] [Mul K] [Zero K] [One K] in
theorem sortRows_ncols (A : CRS K) : (sortRows A).ncols = A.ncols := rfl

theorem RelaxLast.levelMatrix {sm : Relax.Smoother K S} {A : CRS K} {lv : Level K S} (h : RelaxLast sm A lv) :
    levelMatrix lv = some A := by unfold Amg.levelMatrix; rw [h.hsolve]; exact h.hA

theorem SolveLast.levelMatrix {single : Bool} {A : CRS K} {lv : Level K S} (h : SolveLast A single lv) :
    levelMatrix lv = some A := by unfold Amg.levelMatrix; rw [h.hsolve]

/-- **last-level decision table of `do_init`** -/
theorem doInit_last (prm : Params) (pol : Policy K) (sm : Relax.Smoother K S) (directOk : CRS K → Bool)
    (A : CRS K) (ls : List (Level K S)) (h : doInit prm pol sm directOk A = .ok ls) :
    ∃ last M, ls.getLast? = some last ∧ levelMatrix last = some M ∧
      (last.solve.isSome ↔ (M.nrows ≤ prm.coarse_enough ∧ prm.direct_coarse = true)) ∧
      (last.solve = none → last.relax.isSome) ∧ (last.solve.isSome → last.relax = none ∧ directOk M = true) := by
  unfold doInit at h
  by_cases hsq : A.nrows ≠ A.ncols
  · rw [if_pos hsq] at h; cases h
  rw [if_neg hsq] at h
  cases hl : initLoop prm pol sm (A.nrows + 2) [] A with
  | error e => rw [hl] at h; cases h
  | ok res =>
    rw [hl] at h
    have hres := initLoop_spec prm pol sm A (A.nrows + 2) [] A res (Pre.nil 0 A) hl
    cases hres with
    | small levels Ac hpre hsm =>
      simp only at h
      rw [if_neg (by omega)] at h
      by_cases hdc : prm.direct_coarse
      · rw [if_pos hdc] at h
        by_cases hok : directOk Ac
        · simp only [hok, Bool.not_true, Bool.false_eq_true, if_false] at h
          cases h
          refine ⟨_, Ac, List.getLast?_concat .., ?_, ?_, ?_, ?_⟩
          · rfl
          · simp [hsm, hdc]
          · intro hc; simp at hc
          · intro _; exact ⟨rfl, hok⟩
        · simp [hok] at h
      · rw [if_neg hdc] at h
        cases hmk : mkLevel sm Ac with
        | error e => rw [hmk] at h; cases h
        | ok lv =>
          rw [hmk] at h
          cases h
          have hlv := mkLevel_ok hmk
          obtain ⟨s, _, hs⟩ := hlv.hrelax
          refine ⟨lv, Ac, List.getLast?_concat .., hlv.levelMatrix, ?_, ?_, ?_⟩
          · rw [hlv.hsolve]; simp [hdc]
          · intro _; rw [hs]; rfl
          · rw [hlv.hsolve]; intro hc; simp at hc
    | maxLevels levels Ac lv hpre hbig hlv _ =>
      simp only at h
      rw [if_pos hbig] at h
      cases h
      obtain ⟨s, _, hs⟩ := hlv.hrelax
      refine ⟨lv, Ac, List.getLast?_concat .., hlv.levelMatrix, ?_, ?_, ?_⟩
      · rw [hlv.hsolve]; simp; intro hc; omega
      · intro _; rw [hs]; rfl
      · rw [hlv.hsolve]; intro hc; simp at hc
    | emptyLevel levels Ac lv hpre hbig hlv _ =>
      simp only at h
      cases h
      obtain ⟨s, _, hs⟩ := hlv.hrelax
      refine ⟨lv, Ac, List.getLast?_concat .., hlv.levelMatrix, ?_, ?_, ?_⟩
      · rw [hlv.hsolve]; simp; intro hc; omega
      · intro _; rw [hs]; rfl
      · rw [hlv.hsolve]; intro hc; simp at hc

/-- the head of a chain stands for the chain's system matrix -/
theorem Chain.head_matrix {pol : Policy K} {sm : Relax.Smoother K S} {allow : Bool} {idx : Nat} {A : CRS K}
    {ls : List (Level K S)} (h : Chain pol sm allow idx A ls) :
    ∃ lv rest, ls = lv :: rest ∧ levelMatrix lv = some A ∧ lv.rows = A.nrows := by
  cases h with
  | relaxLast _ _ lv hl => exact ⟨lv, [], rfl, hl.levelMatrix, hl.hrows⟩
  | solveLast _ _ lv hl => exact ⟨lv, [], rfl, hl.levelMatrix, hl.hrows⟩
  | cons _ _ lv P R rest hl _ _ =>
    refine ⟨lv, rest, rfl, ?_, hl.hrows⟩
    unfold levelMatrix; rw [hl.hsolve]; exact hl.hA

/-- **adjacent levels are related by the (sorted) coarse operator of the transfer operators stored there** -/
theorem Chain.adjacent {pol : Policy K} {sm : Relax.Smoother K S} {allow : Bool} {idx : Nat} {A : CRS K}
    {ls : List (Level K S)} (h : Chain pol sm allow idx A ls) :
    ∀ k lv lv', ls[k]? = some lv → ls[k + 1]? = some lv' →
      ∃ Ak P R P0 R0, lv.A = some Ak ∧ lv.P = some P ∧ lv.R = some R ∧
        pol.transfer (idx + k) Ak = some (P0, R0) ∧ P = sortRows P0 ∧ R = sortRows R0 ∧
        levelMatrix lv' = some (sortRows (pol.coarseOp Ak P R)) := by
  induction h with
  | relaxLast _ _ lv hl => intro k lv0 lv' _ h2; simp at h2
  | solveLast _ _ lv hl => intro k lv0 lv' _ h2; simp at h2
  | cons idx A lv P R rest hl hne hc ih =>
    intro k lv0 lv' h1 h2
    cases k with
    | zero =>
      simp only [List.getElem?_cons_zero, Option.some.injEq] at h1
      subst h1
      obtain ⟨P0, R0, ht, hP, hR⟩ := hl.htr
      obtain ⟨hd, tl, hrest, hm, _⟩ := hc.head_matrix
      subst hrest
      simp only [Nat.zero_add, List.getElem?_cons_succ, List.getElem?_cons_zero, Option.some.injEq] at h2
      subst h2
      exact ⟨A, P, R, P0, R0, hl.hA, hl.hP, hl.hR, by simpa using ht, hP, hR, hm⟩
    | succ k =>
      simp only [List.getElem?_cons_succ] at h1 h2
      obtain ⟨Ak, P', R', P0, R0, g1, g2, g3, g4, g5, g6, g7⟩ := ih k lv0 lv' h1 h2
      refine ⟨Ak, P', R', P0, R0, g1, g2, g3, ?_, g5, g6, g7⟩
      have : idx + (k + 1) = idx + 1 + k := by omega
      rw [this]; exact g4

/-- **level sizes strictly decrease** whenever every coarsening step reduces the number of unknowns -/
theorem Chain.rows_decreasing {pol : Policy K} {sm : Relax.Smoother K S} {allow : Bool}
    (hpol : ∀ idx A P0 R0, pol.transfer idx A = some (P0, R0) → R0.nrows < A.nrows)
    (hop : ∀ A P R : CRS K, (pol.coarseOp A P R).nrows = R.nrows)
    {idx : Nat} {A : CRS K} {ls : List (Level K S)} (h : Chain pol sm allow idx A ls) :
    (ls.map (·.rows)).Pairwise (· > ·) ∧ ∀ lv ∈ ls, lv.rows ≤ A.nrows := by
  induction h with
  | relaxLast _ A lv hl => simp [hl.hrows]
  | solveLast _ A lv hl => simp [hl.hrows]
  | cons idx A lv P R rest hl hne hc ih =>
    obtain ⟨ih1, ih2⟩ := ih
    obtain ⟨P0, R0, ht, hP, hR⟩ := hl.htr
    have hlt : (sortRows (pol.coarseOp A P R)).nrows < A.nrows := by
      rw [sortRows_nrows, hop, hR, sortRows_nrows]; exact hpol idx A P0 R0 ht
    refine ⟨?_, ?_⟩
    · simp only [List.map_cons, List.pairwise_cons]
      refine ⟨?_, ih1⟩
      intro r hr
      obtain ⟨lv', hlv', rfl⟩ := List.mem_map.mp hr
      have := ih2 lv' hlv'
      rw [hl.hrows]; omega
    · intro lv' hlv'
      rcases List.mem_cons.mp hlv' with heq | hin
      · rw [heq, hl.hrows]; exact Nat.le_refl _
      · have := ih2 lv' hin; omega

omit [Add K] [Mul K] [Zero K] [One K] in
theorem SameTransfer.symm {a b : Level K S} (h : SameTransfer a b) : SameTransfer b a :=
  ⟨h.1.symm, h.2.1.symm, h.2.2.1.symm, h.2.2.2.1.symm, h.2.2.2.2.1.symm, h.2.2.2.2.2.1.symm, h.2.2.2.2.2.2.symm⟩

omit [Add K] [Mul K] [Zero K] [One K] in
theorem SameTransfer.trans {a b c : Level K S} (h1 : SameTransfer a b) (h2 : SameTransfer b c) : SameTransfer a c :=
  ⟨h1.1.trans h2.1, h1.2.1.trans h2.2.1, h1.2.2.1.trans h2.2.2.1, h1.2.2.2.1.trans h2.2.2.2.1,
    h1.2.2.2.2.1.trans h2.2.2.2.2.1, h1.2.2.2.2.2.1.trans h2.2.2.2.2.2.1, h1.2.2.2.2.2.2.trans h2.2.2.2.2.2.2⟩

omit [Add K] [Mul K] [Zero K] [One K] in
theorem sameTransfers_symm {l l' : List (Level K S)} (h : List.Forall₂ SameTransfer l l') :
    List.Forall₂ SameTransfer l' l := by
  induction h with
  | nil => exact List.Forall₂.nil
  | cons h _ ih => exact List.Forall₂.cons h.symm ih

omit [Add K] [Mul K] [Zero K] [One K] in
theorem sameTransfers_trans {l l' l'' : List (Level K S)} (h : List.Forall₂ SameTransfer l l')
    (h' : List.Forall₂ SameTransfer l' l'') : List.Forall₂ SameTransfer l l'' := by
  induction h generalizing l'' with
  | nil => cases h'; exact List.Forall₂.nil
  | cons h _ ih =>
    cases h' with
    | cons h2 hr => exact List.Forall₂.cons (h.trans h2) (ih hr)

/-- invariant of a sequence of rebuilds: still a chain (for the latest matrix) with the original transfer operators -/
theorem rebuildMany_rchain (pol : Policy K) (sm : Relax.Smoother K S) (ok : CRS K → Bool)
    (hop : ∀ A A' P R : CRS K, A'.nrows = A.nrows →
      (sortRows (pol.coarseOp A' P R)).nrows = (sortRows (pol.coarseOp A P R)).nrows) (n : Nat) :
    ∀ (As : List (CRS K)) (B : CRS K) (ls lsN : List (Level K S)), B.nrows = n → (∀ A' ∈ As, A'.nrows = n) →
      RChain pol.coarseOp sm true B ls → rebuildMany pol sm ok ls As = .ok lsN →
      ∃ C, (C = B ∧ As = [] ∨ ∃ Al, As.getLast? = some Al ∧ C = sortRows Al) ∧
        RChain pol.coarseOp sm true C lsN ∧ List.Forall₂ SameTransfer ls lsN := by
  intro As
  induction As with
  | nil =>
    intro B ls lsN _ _ hc hr
    simp only [rebuildMany] at hr
    cases hr
    refine ⟨B, Or.inl ⟨rfl, rfl⟩, hc, ?_⟩
    clear hc
    induction ls with
    | nil => exact List.Forall₂.nil
    | cons a t ih => exact List.Forall₂.cons ⟨rfl, rfl, rfl, rfl, rfl, rfl, rfl⟩ ih
  | cons A' rest ih =>
    intro B ls lsN hB hAs hc hr
    simp only [rebuildMany] at hr
    cases h1 : rebuildLevels pol sm ok ls (sortRows A') with
    | error e => rw [h1] at hr; cases hr
    | ok ls' =>
      rw [h1] at hr
      have hA' : A'.nrows = n := hAs A' (List.mem_cons_self)
      obtain ⟨c1, s1⟩ := rebuildLevels_rchain pol sm ok hop hc (sortRows A') ls'
        (by rw [sortRows_nrows, hA', hB]) h1
      obtain ⟨C, hC, c2, s2⟩ := ih (sortRows A') ls' lsN (by rw [sortRows_nrows, hA'])
        (fun X hX => hAs X (List.mem_cons_of_mem _ hX)) c1 hr
      refine ⟨C, Or.inr ?_, c2, sameTransfers_trans s1 s2⟩
      rcases hC with ⟨hCB, hnil⟩ | ⟨Al, hAl, hCAl⟩
      · subst hnil; exact ⟨A', rfl, hCB⟩
      · refine ⟨Al, ?_, hCAl⟩
        cases rest with
        | nil => simp at hAl
        | cons r rs => simpa [List.getLast?_cons_cons] using hAl

end Amg
end Amgcl
