import Mathlib.Data.Matrix.Mul
import Mathlib.Algebra.BigOperators.Fin
import Mathlib.Algebra.BigOperators.Intervals
import Mathlib.Algebra.Order.BigOperators.Ring.Finset
import Mathlib.Algebra.Order.Field.Basic
import Mathlib.Tactic.Ring
import Mathlib.Tactic.Linarith
import Mathlib.Tactic.FieldSimp
import Mathlib.Tactic.LinearCombination
/-!
The algebra of elementary (Householder) reflectors `H = 1 - t·w·wᵀ` used by the proofs about `Model/QR.lean`:

* `house_transpose`, `house_mul_self` — `H` is symmetric, and `H·H = 1` as soon as `t·(2 - t·wᵀw) = 0`;
* `house_mul_apply` — the entries of `H·M` (this is literally what `apply_reflector` computes);
* `larfg_tau_norm`, `larfg_tau_dot` — the scalar identities behind ZLARFG: with `beta² = alpha² + S`, `S ≠ 0`, `beta ≠ 0`,
  `t = 1 - alpha/beta` and `c = 1/(alpha - beta)` one has `t·(1 + c²·S) = 2` and `t·(alpha + c·S) = alpha - beta`.
-/
namespace Amgcl
namespace QRModel
open Finset Matrix

section house
variable {K : Type} [Field K] {m n : Nat}

/-- the elementary reflector `1 - t·w·wᵀ` -/
def house (t : K) (w : Fin m → K) : Matrix (Fin m) (Fin m) K := 1 - t • vecMulVec w w

theorem house_zero (w : Fin m → K) : house 0 w = 1 := by
  unfold house; rw [zero_smul, sub_zero]

theorem house_transpose (t : K) (w : Fin m → K) : (house t w)ᵀ = house t w := by
  unfold house
  rw [transpose_sub, transpose_one, transpose_smul, transpose_vecMulVec]

theorem house_mul_apply (t : K) (w : Fin m → K) (M : Matrix (Fin m) (Fin n) K) (l : Fin m) (c : Fin n) :
    (house t w * M) l c = M l c - w l * (t * ∑ r, w r * M r c) := by
  unfold house
  rw [Matrix.sub_mul, Matrix.one_mul, Matrix.sub_apply, Matrix.smul_mul, Matrix.smul_apply, Matrix.mul_apply]
  congr 1
  simp only [vecMulVec_apply, smul_eq_mul]
  rw [Finset.mul_sum, Finset.mul_sum, Finset.mul_sum]
  exact Finset.sum_congr rfl (fun r _ => by ring)

theorem house_mulVec_apply (t : K) (w x : Fin m → K) (l : Fin m) :
    (house t w *ᵥ x) l = x l - w l * (t * ∑ r, w r * x r) := by
  unfold house
  rw [Matrix.sub_mulVec, Matrix.one_mulVec, Pi.sub_apply, Matrix.smul_mulVec, Pi.smul_apply, Matrix.mulVec, dotProduct]
  congr 1
  simp only [vecMulVec_apply, smul_eq_mul]
  rw [Finset.mul_sum, Finset.mul_sum, Finset.mul_sum]
  exact Finset.sum_congr rfl (fun r _ => by ring)

theorem house_mul_self (t : K) (w : Fin m → K) (h : t * (2 - t * ∑ r, w r * w r) = 0) :
    house t w * house t w = 1 := by
  ext l c
  rw [house_mul_apply]
  have e : ∀ r c', house t w r c' = (if r = c' then 1 else 0) - t * (w r * w c') := by
    intro r c'
    unfold house
    rw [Matrix.sub_apply, Matrix.smul_apply, Matrix.one_apply, vecMulVec_apply, smul_eq_mul]
  have s : ∑ r, w r * house t w r c = w c - t * (∑ r, w r * w r) * w c := by
    simp only [e, mul_sub, Finset.sum_sub_distrib]
    congr 1
    · simp
    · rw [Finset.mul_sum, Finset.sum_mul]
      exact Finset.sum_congr rfl (fun r _ => by ring)
  rw [s, e, Matrix.one_apply]
  linear_combination (-(w l * w c)) * h

end house

section scalars
variable {K : Type} [Field K]

theorem larfg_alpha_ne {alpha beta S : K} (hb : beta * beta = alpha * alpha + S) (hS : S ≠ 0) : alpha - beta ≠ 0 := by
  intro h
  have : alpha = beta := sub_eq_zero.mp h
  subst this
  exact hS (by linear_combination -hb)

theorem larfg_tau_norm {alpha beta S : K} (hb : beta * beta = alpha * alpha + S) (hS : S ≠ 0) (hb0 : beta ≠ 0) :
    (1 - 1 / beta * alpha) * (1 + (1 / (alpha - beta)) * (1 / (alpha - beta)) * S) = 2 := by
  have hab := larfg_alpha_ne hb hS
  field_simp
  linear_combination (alpha - beta) * hb

theorem larfg_tau_dot {alpha beta S : K} (hb : beta * beta = alpha * alpha + S) (hS : S ≠ 0) (hb0 : beta ≠ 0) :
    (1 - 1 / beta * alpha) * (alpha + (1 / (alpha - beta)) * S) = alpha - beta := by
  have hab := larfg_alpha_ne hb hS
  field_simp
  linear_combination (alpha - beta) * hb

end scalars

section ordered
variable {K : Type} [Field K] [LinearOrder K] [IsStrictOrderedRing K]

theorem larfg_beta_ne {alpha beta S : K} (hb : beta * beta = alpha * alpha + S) (hS : S ≠ 0) (hS0 : 0 ≤ S) : beta ≠ 0 := by
  intro h
  rw [h, mul_zero] at hb
  have : 0 < S := lt_of_le_of_ne hS0 (Ne.symm hS)
  nlinarith [mul_self_nonneg alpha]

/-- a vanishing sum of squares: every term vanishes -/
theorem sq_sum_eq_zero {ι : Type} (s : Finset ι) (f : ι → K) (h : ∑ i ∈ s, f i * f i = 0) : ∀ i ∈ s, f i = 0 := by
  intro i hi
  have := (Finset.sum_eq_zero_iff_of_nonneg (fun j _ => mul_self_nonneg (f j))).mp h i hi
  exact mul_self_eq_zero.mp this

end ordered

section sums
variable {K : Type} [AddCommMonoid K]

/-- a sum over `range m` of a function that vanishes below `i`: the term `i` plus the shifted tail -/
theorem sum_range_split (m i : Nat) (hi : i < m) (F : Nat → K) (h0 : ∀ r, r < i → F r = 0) :
    ∑ r ∈ range m, F r = F i + ∑ l ∈ range (m - i - 1), F (i + 1 + l) := by
  rw [Finset.range_eq_Ico, ← Finset.sum_Ico_consecutive F (Nat.zero_le i) (Nat.le_of_lt hi)]
  rw [Finset.sum_eq_zero (fun r hr => h0 r (Finset.mem_Ico.mp hr).2), zero_add]
  rw [Finset.sum_eq_sum_Ico_succ_bot hi, Finset.sum_Ico_eq_sum_range]
  rw [show m - (i + 1) = m - i - 1 by omega]

end sums

end QRModel
end Amgcl
