import Amgcl.Proofs.QRStep
/-!
The loop of `QR::compute` (`Model/QR.lean: computeS`): after `i` steps the input matrix is `H_0·…·H_{i-1}` times the
partially reduced matrix held in the buffer (`compute_inv`), every `H_j` is a symmetric involution; hence after all
`k = min m n` steps `A = Q_full · R` with `Q_full = H_0·…·H_{k-1}` orthogonal and `R(l,c) = getR F l c` upper trapezoidal
(`compute_QR`).
-/
set_option linter.unusedSectionVars false
namespace Amgcl
namespace QRModel
open Finset Matrix

variable {K : Type} [Field K] [LinearOrder K] [IsStrictOrderedRing K]

/-- the `m×n` matrix stored in a buffer -/
def matOf (A : Array K) (rs cs m n : Nat) : Matrix (Fin m) (Fin n) K := fun i j => A.getD (i.val * rs + j.val * cs) 0

/-- the transposed matrix is the same buffer read with swapped strides -/
theorem matOf_transpose (A : Array K) (rs cs m n : Nat) : (matOf A rs cs m n)ᵀ = matOf A cs rs n m := by
  ext i j
  show A.getD (j.val * rs + i.val * cs) 0 = A.getD (i.val * cs + j.val * rs) 0
  rw [Nat.add_comm]

/-- a `Nat`-indexed table as an `m×n` matrix -/
def natMat (M : Nat → Nat → K) (m n : Nat) : Matrix (Fin m) (Fin n) K := fun l c => M l.val c.val

/-- the reflector vector of step `i` stored in `F` -/
def wvec (F : Array K) (rs cs m i : Nat) : Fin m → K := fun l => wnat F rs cs i l.val

/-- the elementary reflector `H_i = 1 - tau_i·w_i·w_iᵀ` stored in `(F, T)` -/
def Hmat (F T : Array K) (rs cs m i : Nat) : Matrix (Fin m) (Fin m) K := house (T.getD i 0) (wvec F rs cs m i)

/-- `H_0 · H_1 · … · H_{i-1}` -/
def Qacc (F T : Array K) (rs cs m i : Nat) : Matrix (Fin m) (Fin m) K := ((List.range i).map (Hmat F T rs cs m)).prod

/-- the partially reduced matrix after `i` steps: the buffer with the reflector vectors of the columns `< i` masked -/
def RpartN (F : Array K) (rs cs i : Nat) (l c : Nat) : K := if c < i ∧ c < l then 0 else F.getD (l * rs + c * cs) 0
def Rpart (F : Array K) (rs cs m n i : Nat) : Matrix (Fin m) (Fin n) K := fun l c => RpartN F rs cs i l.val c.val

/-- `sqrt` is exact on every number `compute(m, n, rs, cs, A)` applies it to: in step `i < min m n`, unless `i` is the last row
or the column `i` of the current buffer is already zero below the diagonal, that number is `Σ_{l ≥ i} B(l,i)²` (`B` the buffer
before step `i`; it is the square of the diagonal entry `R(i,i)` that the step produces) -/
def ExactRoots (sqrt : K → K) (m n rs cs : Nat) (A tau0 : Array K) : Prop :=
  ∀ i, i < min m n → SqrtExactStep sqrt m rs cs (stateAt sqrt m n rs cs A tau0 i).1 i

instance (sqrt : K → K) (m rs cs : Nat) (B : Array K) (i : Nat) : Decidable (SqrtExactStep sqrt m rs cs B i) := by
  unfold SqrtExactStep; infer_instance

instance (sqrt : K → K) (m n rs cs : Nat) (A tau0 : Array K) : Decidable (ExactRoots sqrt m n rs cs A tau0) := by
  unfold ExactRoots; infer_instance

/-- the buffer part of the state does not depend on what the member `tau` held before the call -/
theorem stateAt_buf_indep (sqrt : K → K) (m n rs cs : Nat) (A tau0 tau1 : Array K) : ∀ i, i ≤ min m n →
    (stateAt sqrt m n rs cs A tau0 i).1 = (stateAt sqrt m n rs cs A tau1 i).1 ∧
    (stateAt sqrt m n rs cs A tau0 i).2.size = min m n ∧ (stateAt sqrt m n rs cs A tau1 i).2.size = min m n := by
  intro i
  induction i with
  | zero =>
    intro _
    refine ⟨rfl, ?_, ?_⟩ <;> (show (resizeZ _ (min m n)).size = _; unfold resizeZ; rw [Array.size_ofFn])
  | succ i ih =>
    intro hi
    obtain ⟨h1, h2, h3⟩ := ih (by omega)
    rw [stateAt_succ, stateAt_succ]
    unfold computeStep
    simp only []
    rw [Arr2.getD_setIfInBounds_self _ _ _ (by rw [h2]; omega), Arr2.getD_setIfInBounds_self _ _ _ (by rw [h3]; omega), h1]
    exact ⟨rfl, by rw [Array.size_setIfInBounds, h2], by rw [Array.size_setIfInBounds, h3]⟩

theorem ExactRoots_indep (sqrt : K → K) (m n rs cs : Nat) (A tau0 tau1 : Array K)
    (h : ExactRoots sqrt m n rs cs A tau0) : ExactRoots sqrt m n rs cs A tau1 := by
  intro i hi
  rw [← (stateAt_buf_indep sqrt m n rs cs A tau0 tau1 i (by omega)).1]
  exact h i hi

theorem Hmat_transpose (F T : Array K) (rs cs m i : Nat) : (Hmat F T rs cs m i)ᵀ = Hmat F T rs cs m i :=
  house_transpose _ _

theorem Hmat_congr (F T F' T' : Array K) (rs cs m j : Nat)
    (hF : ∀ l, l < m → j < l → F'.getD (l * rs + j * cs) 0 = F.getD (l * rs + j * cs) 0)
    (hT : T'.getD j 0 = T.getD j 0) : Hmat F' T' rs cs m j = Hmat F T rs cs m j := by
  unfold Hmat
  rw [hT]
  congr 1
  funext l
  unfold wvec wnat
  by_cases h1 : l.val < j
  · rw [if_pos h1, if_pos h1]
  · rw [if_neg h1, if_neg h1]
    by_cases h2 : l.val = j
    · rw [if_pos h2, if_pos h2]
    · rw [if_neg h2, if_neg h2]
      exact hF l.val l.isLt (by omega)

theorem Qacc_succ (F T : Array K) (rs cs m i : Nat) :
    Qacc F T rs cs m (i + 1) = Qacc F T rs cs m i * Hmat F T rs cs m i := by
  unfold Qacc
  rw [List.range_succ, List.map_append, List.prod_append]
  simp

theorem Qacc_congr (F T F' T' : Array K) (rs cs m i : Nat)
    (h : ∀ j, j < i → Hmat F' T' rs cs m j = Hmat F T rs cs m j) : Qacc F' T' rs cs m i = Qacc F T rs cs m i := by
  unfold Qacc
  congr 1
  exact List.map_congr_left (fun j hj => h j (List.mem_range.mp hj))

/-- a product of symmetric involutions is orthogonal -/
theorem prod_orth {m : Nat} (l : List (Matrix (Fin m) (Fin m) K)) (h : ∀ H ∈ l, Hᵀ = H ∧ H * H = 1) :
    l.prodᵀ * l.prod = 1 := by
  induction l with
  | nil => simp
  | cons H t ih =>
    obtain ⟨h1, h2⟩ := h H List.mem_cons_self
    rw [List.prod_cons, Matrix.transpose_mul, h1, Matrix.mul_assoc, ← Matrix.mul_assoc H H, h2, Matrix.one_mul]
    exact ih (fun H' hH' => h H' (List.mem_cons_of_mem _ hH'))

theorem Qacc_orth (F T : Array K) (rs cs m i : Nat)
    (h : ∀ j, j < i → Hmat F T rs cs m j * Hmat F T rs cs m j = 1) :
    (Qacc F T rs cs m i)ᵀ * Qacc F T rs cs m i = 1 := by
  unfold Qacc
  apply prod_orth
  intro H hH
  obtain ⟨j, hj, rfl⟩ := List.mem_map.mp hH
  exact ⟨Hmat_transpose _ _ _ _ _ _, h j (List.mem_range.mp hj)⟩

theorem Hmat_mul_apply (F T : Array K) (rs cs m n i : Nat) (M : Nat → Nat → K) (l : Fin m) (c : Fin n) :
    (Hmat F T rs cs m i * natMat M m n) l c
      = M l.val c.val - wnat F rs cs i l.val * (T.getD i 0 * ∑ r ∈ range m, wnat F rs cs i r * M r c.val) := by
  unfold Hmat
  rw [house_mul_apply]
  unfold wvec natMat
  rw [Fin.sum_univ_eq_sum_range (fun r => wnat F rs cs i r * M r c.val) m]

/-- the loop invariant of `compute` -/
theorem compute_inv (sqrt : K → K) (m n rs cs : Nat) (A tau0 : Array K) (L : Layout m n rs cs A.size)
    (hex : ExactRoots sqrt m n rs cs A tau0) : ∀ i, i ≤ min m n →
    (stateAt sqrt m n rs cs A tau0 i).1.size = A.size ∧ (stateAt sqrt m n rs cs A tau0 i).2.size = min m n ∧
    (∀ j, j < i → Hmat (stateAt sqrt m n rs cs A tau0 i).1 (stateAt sqrt m n rs cs A tau0 i).2 rs cs m j
        * Hmat (stateAt sqrt m n rs cs A tau0 i).1 (stateAt sqrt m n rs cs A tau0 i).2 rs cs m j = 1) ∧
    matOf A rs cs m n = Qacc (stateAt sqrt m n rs cs A tau0 i).1 (stateAt sqrt m n rs cs A tau0 i).2 rs cs m i
        * Rpart (stateAt sqrt m n rs cs A tau0 i).1 rs cs m n i := by
  intro i
  induction i with
  | zero =>
    intro _
    refine ⟨rfl, ?_, fun j hj => absurd hj (Nat.not_lt_zero _), ?_⟩
    · show (resizeZ tau0 (min m n)).size = _
      unfold resizeZ; rw [Array.size_ofFn]
    · unfold Qacc
      simp only [List.range_zero, List.map_nil, List.prod_nil, Matrix.one_mul]
      ext l c
      simp [matOf, Rpart, RpartN, stateAt]
  | succ i ih =>
    intro hi
    obtain ⟨s1, s2, s3, s4⟩ := ih (by omega)
    have him : i < m := by omega
    have hin : i < n := by omega
    rw [stateAt_succ]
    set B := (stateAt sqrt m n rs cs A tau0 i).1 with hB
    set T := (stateAt sqrt m n rs cs A tau0 i).2 with hTd
    have hst : stateAt sqrt m n rs cs A tau0 i = (B, T) := rfl
    rw [hst]
    obtain ⟨c1, c2, c3, c4, c5, c6, c7, c8⟩ := computeStep_spec sqrt m n rs cs B T i (by rw [s1]; exact L) him hin
      (by rw [s2]; omega) (hex i (by omega))
    set B' := (computeStep sqrt m n rs cs (B, T) i).1 with hB'
    set T' := (computeStep sqrt m n rs cs (B, T) i).2 with hT'
    have hH : ∀ j, j < i → Hmat B' T' rs cs m j = Hmat B T rs cs m j := by
      intro j hj
      exact Hmat_congr B T B' T' rs cs m j (fun l hl _ => c4 l j hl hj) (c3 j (by omega))
    have hHi : Hmat B' T' rs cs m i * Hmat B' T' rs cs m i = 1 := by
      unfold Hmat
      apply house_mul_self
      unfold wvec
      rw [Fin.sum_univ_eq_sum_range (fun r => wnat B' rs cs i r * wnat B' rs cs i r) m]
      exact c8
    refine ⟨by rw [c1, s1], by rw [c2, s2], ?_, ?_⟩
    · intro j hj
      by_cases hji : j = i
      · rw [hji]; exact hHi
      · rw [hH j (by omega)]; exact s3 j (by omega)
    · have hR : Rpart B' rs cs m n (i + 1) = Hmat B' T' rs cs m i * Rpart B rs cs m n i := by
        ext l c
        have hl := l.isLt
        have hc := c.isLt
        show _ = (Hmat B' T' rs cs m i * natMat (RpartN B rs cs i) m n) l c
        rw [Hmat_mul_apply]
        show RpartN B' rs cs (i + 1) l.val c.val = _
        rcases Nat.lt_trichotomy c.val i with hci | hci | hci
        · -- an already reduced column
          have hz : ∑ r ∈ range m, wnat B' rs cs i r * RpartN B rs cs i r c.val = 0 := by
            apply Finset.sum_eq_zero
            intro r _
            by_cases hr : r < i
            · simp [wnat, hr]
            · have : RpartN B rs cs i r c.val = 0 := by
                unfold RpartN; rw [if_pos ⟨hci, by omega⟩]
              rw [this, mul_zero]
          rw [hz, mul_zero, mul_zero, sub_zero]
          unfold RpartN
          by_cases hcl : c.val < l.val
          · rw [if_pos ⟨by omega, hcl⟩, if_pos ⟨hci, hcl⟩]
          · rw [if_neg (fun h => hcl h.2), if_neg (fun h => hcl h.2), c4 l.val c.val hl hci]
        · -- the column the reflector is generated from
          have hs : ∑ r ∈ range m, wnat B' rs cs i r * RpartN B rs cs i r c.val
              = ∑ r ∈ range m, wnat B' rs cs i r * B.getD (r * rs + i * cs) 0 := by
            refine Finset.sum_congr rfl (fun r _ => ?_)
            unfold RpartN; rw [if_neg (fun h => by omega), hci]
          have h0 : RpartN B rs cs i l.val c.val = B.getD (l.val * rs + i * cs) 0 := by
            unfold RpartN; rw [if_neg (fun h => by omega), hci]
          rw [hs, h0, c7 l.val hl]
          unfold RpartN
          rw [hci]
          by_cases h1 : l.val < i
          · rw [if_pos h1, if_neg (fun h => by omega), c5 l.val h1]
          · rw [if_neg h1]
            by_cases h2 : l.val = i
            · rw [if_pos h2, if_neg (fun h => by omega), h2]
            · rw [if_neg h2, if_pos ⟨by omega, by omega⟩]
        · -- a trailing column
          have hs : ∑ r ∈ range m, wnat B' rs cs i r * RpartN B rs cs i r c.val
              = ∑ r ∈ range m, wnat B' rs cs i r * B.getD (r * rs + c.val * cs) 0 := by
            refine Finset.sum_congr rfl (fun r _ => ?_)
            unfold RpartN; rw [if_neg (fun h => by omega)]
          have h0 : RpartN B rs cs i l.val c.val = B.getD (l.val * rs + c.val * cs) 0 := by
            unfold RpartN; rw [if_neg (fun h => by omega)]
          rw [hs, h0, ← c6 l.val c.val hl hci hc]
          unfold RpartN; rw [if_neg (fun h => by omega)]
      rw [Qacc_succ, hR, Qacc_congr B T B' T' rs cs m i hH, Matrix.mul_assoc,
        ← Matrix.mul_assoc (Hmat B' T' rs cs m i), hHi, Matrix.one_mul]
      exact s4

/-- `R` as the accessor `R(i,j)` returns it, as an `m×n` matrix (rows `≥ min m n` vanish) -/
def Rfull (F : Array K) (rs cs m n : Nat) : Matrix (Fin m) (Fin n) K := fun l c => getR F rs cs l.val c.val

theorem Rpart_final (F : Array K) (rs cs m n : Nat) : Rpart F rs cs m n (min m n) = Rfull F rs cs m n := by
  ext l c
  have hl := l.isLt
  have hc := c.isLt
  unfold Rpart RpartN Rfull getR
  by_cases h : c.val < l.val
  · rw [if_pos h, if_pos ⟨by omega, h⟩]
  · rw [if_neg h, if_neg (fun hh => h hh.2)]

theorem computeS_stateAt (sqrt : K → K) (m n rs cs : Nat) (A tau0 : Array K) (hk : min m n ≠ 0) :
    computeS sqrt m n rs cs A tau0 = stateAt sqrt m n rs cs A tau0 (min m n) := by
  rw [computeS_eq, if_neg hk]; rfl

/-- `compute`: `A = Q_full · R` with `Q_full = H_0·…·H_{k-1}` orthogonal, built from symmetric involutions -/
theorem compute_QR (sqrt : K → K) (m n rs cs : Nat) (A tau0 : Array K) (L : Layout m n rs cs A.size)
    (hex : ExactRoots sqrt m n rs cs A tau0) :
    let F := (computeS sqrt m n rs cs A tau0).1
    let T := (computeS sqrt m n rs cs A tau0).2
    F.size = A.size ∧
    (∀ j, j < min m n → Hmat F T rs cs m j * Hmat F T rs cs m j = 1) ∧
    (Qacc F T rs cs m (min m n))ᵀ * Qacc F T rs cs m (min m n) = 1 ∧
    matOf A rs cs m n = Qacc F T rs cs m (min m n) * Rfull F rs cs m n := by
  intro F T
  by_cases hk : min m n = 0
  · have hFT : computeS sqrt m n rs cs A tau0 = (A, tau0) := by rw [computeS_eq, if_pos hk]
    refine ⟨by show (computeS sqrt m n rs cs A tau0).1.size = _; rw [hFT], fun j hj => by omega, ?_, ?_⟩
    · rw [hk]; simp [Qacc]
    · rw [hk]
      ext l c
      have hl := l.isLt
      have hc := c.isLt
      omega
  · obtain ⟨s1, _, s3, s4⟩ := compute_inv sqrt m n rs cs A tau0 L hex (min m n) (Nat.le_refl _)
    have hFT : computeS sqrt m n rs cs A tau0 = stateAt sqrt m n rs cs A tau0 (min m n) := computeS_stateAt _ _ _ _ _ _ _ hk
    rw [← hFT, Rpart_final] at s4
    rw [← hFT] at s1 s3
    exact ⟨s1, s3, Qacc_orth _ _ _ _ _ _ s3, s4⟩

end QRModel
end Amgcl
