import Amgcl.Proofs.RSInterp
import Mathlib.Algebra.Order.Field.Basic
import Mathlib.Algebra.Order.AbsoluteValue.Basic
import Mathlib.Tactic.Ring
import Mathlib.Tactic.Linarith
import Mathlib.Tactic.FieldSimp
/-!
Row sums of the Ruge–Stuben interpolation (`Model/RugeStuben.lean`, l.189-244 of ruge_stuben.hpp): for a non-C row
the written entries of `P` sum to `alpha·(a_den − d_neg) + beta·(b_den − d_pos)`, and under the hypotheses the code
needs this is one on a zero-row-sum row.
-/
namespace Amgcl
namespace RS
open Amgcl.Coarsening (stdMin stdMax)

variable {K : Type} [Field K] [LinearOrder K] [IsStrictOrderedRing K]

/-- l.195-215 for one stored entry -/
def accStep (doTrunc : Bool) (i : Nat) (amin amax : K) (a : Acc K) (e : (Nat × K) × Bool) : Acc K :=
  let c := e.1.1
  let v := e.1.2
  if c = i then { a with dia := v }
  else if v < 0 then
    let a := { a with aNum := a.aNum + v }
    if e.2 then
      let a := { a with aDen := a.aDen + v }
      if doTrunc && decide (amin ≤ v) then { a with dNeg := a.dNeg + v } else a
    else a
  else
    let a := { a with bNum := a.bNum + v }
    if e.2 then
      let a := { a with bDen := a.bDen + v }
      if doTrunc && decide (v ≤ amax) then { a with dPos := a.dPos + v } else a
    else a

theorem interpAcc_eq (doTrunc : Bool) (i : Nat) (amin amax : K) (es : List ((Nat × K) × Bool)) :
    interpAcc doTrunc i amin amax es = es.foldl (accStep doTrunc i amin amax) ⟨0, 0, 0, 0, 0, 0, 0⟩ := rfl

/-- the entries kept by the fill pass -/
def keep (doTrunc : Bool) (amin amax : K) (e : (Nat × K) × Bool) : Bool :=
  e.2 && !(doTrunc && decide (amin ≤ e.1.2) && decide (e.1.2 ≤ amax))

/-- sum of the kept negative / non-negative values -/
def keptNeg (doTrunc : Bool) (amin amax : K) (es : List ((Nat × K) × Bool)) : K :=
  (es.map fun e => if keep doTrunc amin amax e = true ∧ e.1.2 < 0 then e.1.2 else 0).sum
def keptPos (doTrunc : Bool) (amin amax : K) (es : List ((Nat × K) × Bool)) : K :=
  (es.map fun e => if keep doTrunc amin amax e = true ∧ ¬ e.1.2 < 0 then e.1.2 else 0).sum
/-- sum of the off-diagonal values, sum of the diagonal values -/
def offSum (i : Nat) (es : List ((Nat × K) × Bool)) : K := (es.map fun e => if e.1.1 = i then 0 else e.1.2).sum
def diagSum (i : Nat) (es : List ((Nat × K) × Bool)) : K := (es.map fun e => if e.1.1 = i then e.1.2 else 0).sum

theorem off_add_diag (i : Nat) (es : List ((Nat × K) × Bool)) :
    offSum i es + diagSum i es = (es.map (·.1.2)).sum := by
  unfold offSum diagSum
  induction es with
  | nil => simp
  | cons e t ih =>
    simp only [List.map_cons, List.sum_cons]
    by_cases h : e.1.1 = i
    · simp only [h, if_true]; linarith
    · simp only [h, if_false]; linarith

/-- the written entries sum to `alpha · keptNeg + beta · keptPos` -/
theorem fill_sum (doTrunc : Bool) (cidx : Array Nat) (amin amax alpha beta : K) (es : List ((Nat × K) × Bool)) :
    ((interpFill doTrunc cidx amin amax alpha beta es).map (·.2)).sum
      = alpha * keptNeg doTrunc amin amax es + beta * keptPos doTrunc amin amax es := by
  unfold interpFill keptNeg keptPos
  induction es with
  | nil => simp
  | cons e t ih =>
    simp only [List.filter_cons, List.map_cons, List.sum_cons]
    have hk : (e.2 && !(doTrunc && decide (amin ≤ e.1.2) && decide (e.1.2 ≤ amax))) = keep doTrunc amin amax e := rfl
    rw [hk]
    by_cases h : keep doTrunc amin amax e = true
    · rw [if_pos h]
      simp only [List.map_cons, List.sum_cons, h, true_and]
      rw [ih]
      by_cases hv : e.1.2 < 0
      · simp only [hv, if_true, not_true_eq_false, if_false]; ring
      · simp only [hv, if_false, not_false_eq_true, if_true]; ring
    · rw [if_neg h, ih]
      have h' : keep doTrunc amin amax e = false := by simpa using h
      simp only [h', Bool.false_eq_true, false_and, if_false]; ring

/-- what the accumulators satisfy after any number of entries -/
structure AccOK (doTrunc : Bool) (a : Acc K) : Prop where
  h1 : a.aNum ≤ a.aDen
  h2 : a.aDen ≤ a.dNeg
  h3 : a.dNeg ≤ 0
  h4 : 0 ≤ a.dPos
  h5 : a.dPos ≤ a.bDen
  h6 : a.bDen ≤ a.bNum
  h7 : doTrunc = false → a.dNeg = 0 ∧ a.dPos = 0

theorem accStep_ok (doTrunc : Bool) (i : Nat) (amin amax : K) (a : Acc K) (e : (Nat × K) × Bool)
    (h : AccOK doTrunc a) : AccOK doTrunc (accStep doTrunc i amin amax a e) := by
  obtain ⟨h1, h2, h3, h4, h5, h6, h7⟩ := h
  unfold accStep
  simp only
  by_cases hc : e.1.1 = i
  · rw [if_pos hc]; exact ⟨h1, h2, h3, h4, h5, h6, h7⟩
  · rw [if_neg hc]
    by_cases hv : e.1.2 < 0
    · rw [if_pos hv]
      cases he : e.2 with
      | false => simp only [Bool.false_eq_true, if_false]
                 exact ⟨by simp only; linarith, h2, h3, h4, h5, h6, h7⟩
      | true =>
        simp only [if_true]
        cases hT : doTrunc with
        | false =>
          simp only [Bool.false_and, Bool.false_eq_true, if_false]
          have := h7 hT
          exact ⟨by simp only; linarith, by simp only; linarith, h3, h4, h5, h6, fun _ => this⟩
        | true =>
          simp only [Bool.true_and, decide_eq_true_eq]
          by_cases hm : amin ≤ e.1.2
          · rw [if_pos hm]
            exact ⟨by simp only; linarith, by simp only; linarith, by simp only; linarith, h4, h5, h6,
              fun hf => by cases hf⟩
          · rw [if_neg hm]
            exact ⟨by simp only; linarith, by simp only; linarith, h3, h4, h5, h6,
              fun hf => by cases hf⟩
    · rw [if_neg hv]
      have hv' : 0 ≤ e.1.2 := not_lt.mp hv
      cases he : e.2 with
      | false => simp only [Bool.false_eq_true, if_false]
                 exact ⟨h1, h2, h3, h4, h5, by simp only; linarith, h7⟩
      | true =>
        simp only [if_true]
        cases hT : doTrunc with
        | false =>
          simp only [Bool.false_and, Bool.false_eq_true, if_false]
          have := h7 hT
          exact ⟨h1, h2, h3, h4, by simp only; linarith, by simp only; linarith, fun _ => this⟩
        | true =>
          simp only [Bool.true_and, decide_eq_true_eq]
          by_cases hm : e.1.2 ≤ amax
          · rw [if_pos hm]
            exact ⟨h1, h2, h3, by simp only; linarith, by simp only; linarith, by simp only; linarith,
              fun hf => by cases hf⟩
          · rw [if_neg hm]
            exact ⟨h1, h2, h3, h4, by simp only; linarith, by simp only; linarith,
              fun hf => by cases hf⟩

theorem foldl_acc_ok (doTrunc : Bool) (i : Nat) (amin amax : K) (es : List ((Nat × K) × Bool)) (a : Acc K)
    (h : AccOK doTrunc a) : AccOK doTrunc (es.foldl (accStep doTrunc i amin amax) a) := by
  induction es generalizing a with
  | nil => exact h
  | cons e t ih => rw [List.foldl_cons]; exact ih _ (accStep_ok doTrunc i amin amax a e h)

theorem keptNeg_cons (doTrunc : Bool) (amin amax : K) (e : (Nat × K) × Bool) (t : List ((Nat × K) × Bool)) :
    keptNeg doTrunc amin amax (e :: t)
      = (if keep doTrunc amin amax e = true ∧ e.1.2 < 0 then e.1.2 else 0) + keptNeg doTrunc amin amax t := by
  unfold keptNeg; rw [List.map_cons, List.sum_cons]
theorem keptPos_cons (doTrunc : Bool) (amin amax : K) (e : (Nat × K) × Bool) (t : List ((Nat × K) × Bool)) :
    keptPos doTrunc amin amax (e :: t)
      = (if keep doTrunc amin amax e = true ∧ ¬ e.1.2 < 0 then e.1.2 else 0) + keptPos doTrunc amin amax t := by
  unfold keptPos; rw [List.map_cons, List.sum_cons]
theorem offSum_cons (i : Nat) (e : (Nat × K) × Bool) (t : List ((Nat × K) × Bool)) :
    offSum i (e :: t) = (if e.1.1 = i then 0 else e.1.2) + offSum i t := by
  unfold offSum; rw [List.map_cons, List.sum_cons]

/-- one entry: its contribution to `a_den − d_neg`, `b_den − d_pos`, `a_num + b_num` -/
theorem accStep_sums (doTrunc : Bool) (i : Nat) (amin amax : K) (hmin : amin ≤ 0) (hmax : 0 ≤ amax)
    (e : (Nat × K) × Bool) (ho : e.2 = true → e.1.1 ≠ i) (a : Acc K) :
    (accStep doTrunc i amin amax a e).aDen - (accStep doTrunc i amin amax a e).dNeg
      = a.aDen - a.dNeg + (if keep doTrunc amin amax e = true ∧ e.1.2 < 0 then e.1.2 else 0) ∧
    (accStep doTrunc i amin amax a e).bDen - (accStep doTrunc i amin amax a e).dPos
      = a.bDen - a.dPos + (if keep doTrunc amin amax e = true ∧ ¬ e.1.2 < 0 then e.1.2 else 0) ∧
    (accStep doTrunc i amin amax a e).aNum + (accStep doTrunc i amin amax a e).bNum
      = a.aNum + a.bNum + (if e.1.1 = i then 0 else e.1.2) := by
  obtain ⟨⟨c, v⟩, f⟩ := e
  simp only at ho
  unfold accStep keep
  simp only
  by_cases hc : c = i
  · have hf : f = false := by
      cases f with
      | false => rfl
      | true => exact absurd hc (ho rfl)
    subst hf
    (simp [hc]) <;> (try constructor) <;> (try constructor) <;> (try trivial) <;> (try ring)
  · by_cases hv : v < 0
    · have hle : v ≤ amax := le_trans (le_of_lt hv) hmax
      cases f with
      | false => (simp [hc, hv]) <;> (try constructor) <;> (try constructor) <;> (try trivial) <;> (try ring)
      | true =>
        cases doTrunc with
        | false => (simp [hc, hv]) <;> (try constructor) <;> (try constructor) <;> (try trivial) <;> (try ring)
        | true =>
          by_cases hm : amin ≤ v
          · (simp [hc, hv, hm, hle]) <;> (try constructor) <;> (try constructor) <;> (try trivial) <;> (try ring)
          · (simp [hc, hv, hm]) <;> (try constructor) <;> (try constructor) <;> (try trivial) <;> (try ring)
    · have hv' : 0 ≤ v := not_lt.mp hv
      have hge : amin ≤ v := le_trans hmin hv'
      cases f with
      | false => (simp [hc, hv]) <;> (try constructor) <;> (try constructor) <;> (try trivial) <;> (try ring)
      | true =>
        cases doTrunc with
        | false => (simp [hc, hv]) <;> (try constructor) <;> (try constructor) <;> (try trivial) <;> (try ring)
        | true =>
          by_cases hm : v ≤ amax
          · (simp [hc, hv, hm, hge]) <;> (try constructor) <;> (try constructor) <;> (try trivial) <;> (try ring)
          · (simp [hc, hv, hm]) <;> (try constructor) <;> (try constructor) <;> (try trivial) <;> (try ring)

/-- kept sums and off-diagonal sum in terms of the accumulators -/
theorem foldl_acc_sums (doTrunc : Bool) (i : Nat) (amin amax : K) (hmin : amin ≤ 0) (hmax : 0 ≤ amax)
    (es : List ((Nat × K) × Bool)) (hoff : ∀ e ∈ es, e.2 = true → e.1.1 ≠ i) (a : Acc K) :
    (es.foldl (accStep doTrunc i amin amax) a).aDen - (es.foldl (accStep doTrunc i amin amax) a).dNeg
      = a.aDen - a.dNeg + keptNeg doTrunc amin amax es ∧
    (es.foldl (accStep doTrunc i amin amax) a).bDen - (es.foldl (accStep doTrunc i amin amax) a).dPos
      = a.bDen - a.dPos + keptPos doTrunc amin amax es ∧
    (es.foldl (accStep doTrunc i amin amax) a).aNum + (es.foldl (accStep doTrunc i amin amax) a).bNum
      = a.aNum + a.bNum + offSum i es := by
  induction es generalizing a with
  | nil => simp [keptNeg, keptPos, offSum]
  | cons e t ih =>
    rw [List.foldl_cons]
    obtain ⟨i1, i2, i3⟩ := ih (fun x hx => hoff x (List.mem_cons_of_mem _ hx)) (accStep doTrunc i amin amax a e)
    obtain ⟨k1, k2, k3⟩ := accStep_sums doTrunc i amin amax hmin hmax e (hoff e (List.mem_cons_self ..)) a
    rw [i1, i2, i3, k1, k2, k3, keptNeg_cons, keptPos_cons, offSum_cons]
    refine ⟨by ring, by ring, by ring⟩

/-- the `dia` accumulator: untouched without a diagonal entry, the diagonal value when there is exactly one -/
theorem foldl_acc_dia (doTrunc : Bool) (i : Nat) (amin amax : K) (es : List ((Nat × K) × Bool)) (a : Acc K) :
    ((es.filter fun e => decide (e.1.1 = i)).length = 0 →
      (es.foldl (accStep doTrunc i amin amax) a).dia = a.dia ∧ diagSum i es = 0) ∧
    ((es.filter fun e => decide (e.1.1 = i)).length ≤ 1 → a.dia = 0 →
      (es.foldl (accStep doTrunc i amin amax) a).dia = diagSum i es) := by
  induction es generalizing a with
  | nil => simp [diagSum]
  | cons e t ih =>
    rw [List.foldl_cons]
    obtain ⟨j1, j2⟩ := ih (accStep doTrunc i amin amax a e)
    simp only [List.filter_cons, diagSum, List.map_cons, List.sum_cons]
    by_cases hc : e.1.1 = i
    · simp only [hc, decide_true, if_true, List.length_cons]
      constructor
      · intro h; omega
      · intro h _
        have h0 : (t.filter fun e => decide (e.1.1 = i)).length = 0 := by omega
        obtain ⟨k1, k2⟩ := j1 h0
        rw [k1]
        unfold diagSum at k2
        rw [k2]
        unfold accStep
        simp only [hc, if_true]; ring
    · have hd : (accStep doTrunc i amin amax a e).dia = a.dia := by
        unfold accStep
        simp only [hc, if_false]
        split <;> split <;> (try split) <;> rfl
      simp only [hc, decide_false, Bool.false_eq_true, if_false]
      constructor
      · intro h
        obtain ⟨k1, k2⟩ := j1 h
        rw [k1, hd]
        unfold diagSum at k2
        rw [k2]; exact ⟨rfl, by ring⟩
      · intro h h0
        rw [j2 h (by rw [hd]; exact h0)]
        unfold diagSum; ring

/-- `amin ≤ 0 ≤ amax` for the truncation bounds when `eps_trunc ≥ 0` -/
theorem truncBounds_sign (epsTrunc : K) (het : 0 ≤ epsTrunc) (es : List ((Nat × K) × Bool)) :
    (truncBounds epsTrunc es).1 ≤ 0 ∧ 0 ≤ (truncBounds epsTrunc es).2 := by
  unfold truncBounds
  simp only
  have : ∀ (mm : K × K), mm.1 ≤ 0 → 0 ≤ mm.2 →
      (es.foldl (fun (mm : K × K) e => if e.2 then (stdMin mm.1 e.1.2, stdMax mm.2 e.1.2) else mm) mm).1 ≤ 0 ∧
      0 ≤ (es.foldl (fun (mm : K × K) e => if e.2 then (stdMin mm.1 e.1.2, stdMax mm.2 e.1.2) else mm) mm).2 := by
    induction es with
    | nil => intro mm h1 h2; exact ⟨h1, h2⟩
    | cons e t ih =>
      intro mm h1 h2
      rw [List.foldl_cons]
      apply ih
      · split
        · show stdMin mm.1 e.1.2 ≤ 0
          unfold stdMin; split
          · exact le_trans (le_of_lt ‹_›) h1
          · exact h1
        · exact h1
      · split
        · show 0 ≤ stdMax mm.2 e.1.2
          unfold stdMax; split
          · exact le_trans h2 (le_of_lt ‹_›)
          · exact h2
        · exact h2
  obtain ⟨g1, g2⟩ := this (0, 0) (le_refl _) (le_refl _)
  exact ⟨mul_nonpos_of_nonpos_of_nonneg g1 het, mul_nonneg g2 het⟩

/-- **row sum one.**  For a non-C row whose stored values sum to zero, with at most one stored diagonal entry and no
flagged diagonal entry, the entries written to the row of `P` sum to one, provided (the hypotheses the code needs):
the strong negative C couplings exceed the absolute threshold (`eps < |a_den|`), truncation keeps some of them
(`eps < |a_den − d_neg|`), `eps_trunc ≥ 0`, and for the positive couplings either there are none (`b_num = 0`), or
there is no strong positive C coupling beyond the threshold (`|b_den| < eps`: the code lumps `b_num` into the
diagonal), or they are interpolated (`eps < |b_den|`, `eps < |b_den − d_pos|` when truncating) and the diagonal is
positive. -/
theorem interp_rowsum_one (norm : K → K) (hnorm : ∀ x, norm x = |x|) (doTrunc : Bool) (epsTrunc eps : K)
    (heps : 0 ≤ eps) (het : 0 ≤ epsTrunc) (cf : Array CF) (cidx : Array Nat) (i : Nat) (r : Row K) (flags : List Bool)
    (hdiag : ((interpEntries cf r flags).filter fun e => decide (e.1.1 = i)).length ≤ 1)
    (hoff : ∀ e ∈ interpEntries cf r flags, e.2 = true → e.1.1 ≠ i)
    (hsum : ((interpEntries cf r flags).map (·.1.2)).sum = 0)
    (ha : eps < |(interpAcc doTrunc i (interpWidth doTrunc epsTrunc (interpEntries cf r flags)).1
            (interpWidth doTrunc epsTrunc (interpEntries cf r flags)).2.1 (interpEntries cf r flags)).aDen|)
    (hat : doTrunc = true → eps < |(interpAcc doTrunc i (interpWidth doTrunc epsTrunc (interpEntries cf r flags)).1
            (interpWidth doTrunc epsTrunc (interpEntries cf r flags)).2.1 (interpEntries cf r flags)).aDen
          - (interpAcc doTrunc i (interpWidth doTrunc epsTrunc (interpEntries cf r flags)).1
            (interpWidth doTrunc epsTrunc (interpEntries cf r flags)).2.1 (interpEntries cf r flags)).dNeg|)
    (hb : let a := interpAcc doTrunc i (interpWidth doTrunc epsTrunc (interpEntries cf r flags)).1
            (interpWidth doTrunc epsTrunc (interpEntries cf r flags)).2.1 (interpEntries cf r flags)
          a.bNum = 0 ∨ |a.bDen| < eps ∨
          (eps < |a.bDen| ∧ (doTrunc = true → eps < |a.bDen - a.dPos|) ∧ 0 < a.dia)) :
    ((interpRow norm doTrunc epsTrunc eps cf cidx i r flags).2.map (·.2)).sum = 1 := by
  -- bounds
  have hb12 : (interpWidth doTrunc epsTrunc (interpEntries cf r flags)).1 ≤ 0 ∧
      0 ≤ (interpWidth doTrunc epsTrunc (interpEntries cf r flags)).2.1 := by
    unfold interpWidth
    cases doTrunc with
    | false => simp
    | true => simp only [if_true]; exact truncBounds_sign epsTrunc het _
  generalize hes : interpEntries cf r flags = es at *
  generalize hamin : (interpWidth doTrunc epsTrunc es).1 = amin at *
  generalize hamax : (interpWidth doTrunc epsTrunc es).2.1 = amax at *
  have hrow : (interpRow norm doTrunc epsTrunc eps cf cidx i r flags).2
      = interpFill doTrunc cidx amin amax
          (interpCoef norm doTrunc eps (interpAcc doTrunc i amin amax es)).1
          (interpCoef norm doTrunc eps (interpAcc doTrunc i amin amax es)).2 es := by
    unfold interpRow; simp only; rw [hes, hamin, hamax]
  rw [hrow, fill_sum]
  -- accumulator facts
  have hok := foldl_acc_ok doTrunc i amin amax es ⟨0, 0, 0, 0, 0, 0, 0⟩
    ⟨le_refl _, le_refl _, le_refl _, le_refl _, le_refl _, le_refl _, fun _ => ⟨rfl, rfl⟩⟩
  obtain ⟨s1, s2, s3⟩ := foldl_acc_sums doTrunc i amin amax hb12.1 hb12.2 es hoff ⟨0, 0, 0, 0, 0, 0, 0⟩
  have sd := (foldl_acc_dia doTrunc i amin amax es ⟨0, 0, 0, 0, 0, 0, 0⟩).2 hdiag rfl
  rw [← interpAcc_eq] at hok s1 s2 s3 sd
  generalize interpAcc doTrunc i amin amax es = a at *
  obtain ⟨o1, o2, o3, o4, o5, o6, o7⟩ := hok
  simp only [sub_zero, zero_add, add_zero] at s1 s2 s3
  have htot : a.dia + a.aNum + a.bNum = 0 := by
    have := off_add_diag i es
    rw [hsum, ← sd, ← s3] at this; linarith
  rw [← s1, ← s2]
  -- signs
  have hA0 : a.aDen ≠ 0 := by
    intro h0; rw [h0, abs_zero] at ha; exact absurd ha (not_lt.mpr heps)
  have hA : a.aDen < 0 := lt_of_le_of_ne (le_trans o2 o3) hA0
  have hN : a.aNum < 0 := lt_of_le_of_lt o1 hA
  have hX : a.aDen - a.dNeg ≤ 0 := by linarith
  have hB : 0 ≤ a.bDen := le_trans o4 o5
  have hBN : 0 ≤ a.bNum := le_trans hB o6
  have hY : 0 ≤ a.bDen - a.dPos := by linarith
  -- the coefficients
  unfold interpCoef
  simp only [hnorm]
  -- the negative part
  have hneg : ∀ d : K, d ≠ 0 →
      (-(if (doTrunc && decide (eps < |a.aDen - a.dNeg|)) = true then |a.aDen| / |a.aDen - a.dNeg| else 1) * |a.aNum|
        / (|d| * |a.aDen|)) * (a.aDen - a.dNeg) = -a.aNum / |d| := by
    intro d hd
    have hd' : |d| ≠ 0 := abs_ne_zero.mpr hd
    have hA' : |a.aDen| ≠ 0 := abs_ne_zero.mpr hA0
    cases hT : doTrunc with
    | false =>
      have := (o7 hT).1
      simp only [Bool.false_and, Bool.false_eq_true, if_false, this, sub_zero]
      rw [abs_of_neg hA, abs_of_neg hN] at *
      field_simp
    | true =>
      have hx := hat hT
      simp only [Bool.true_and, decide_eq_true_eq, hx, if_true]
      have hX0 : a.aDen - a.dNeg ≠ 0 := by
        intro h0; rw [h0, abs_zero] at hx; exact absurd hx (not_lt.mpr heps)
      have hXn : a.aDen - a.dNeg < 0 := lt_of_le_of_ne hX hX0
      rw [abs_of_neg hA, abs_of_neg hN, abs_of_neg hXn] at *
      field_simp
  have hanum : |a.aNum| = -a.aNum := abs_of_neg hN
  rw [if_pos ha]
  rcases hb with hb | hb | ⟨hb1, hb2, hb3⟩
  · -- no positive off-diagonal
    have hbd : a.bDen = 0 := le_antisymm (by rw [← hb]; exact o6) hB
    have hdp : a.dPos = 0 := le_antisymm (by rw [← hbd]; exact o5) o4
    have hcond : ¬ ((0 : K) < a.bNum ∧ |a.bDen| < eps) := by rw [hb]; exact fun h => lt_irrefl _ h.1
    rw [if_neg hcond]
    have hd : a.dia = -a.aNum := by rw [hb] at htot; linarith
    have hd0 : a.dia ≠ 0 := by rw [hd]; exact neg_ne_zero.mpr (ne_of_lt hN)
    rw [hneg a.dia hd0, hbd, hdp, sub_self, mul_zero, add_zero, hd, abs_of_pos (by linarith)]
    exact div_self (neg_ne_zero.mpr (ne_of_lt hN))
  · -- positive couplings lumped into the diagonal
    have hnb : ¬ eps < |a.bDen| := not_lt.mpr (le_of_lt hb)
    rw [if_neg hnb, zero_mul, add_zero]
    by_cases hpos : 0 < a.bNum
    · have hcond : (0 : K) < a.bNum ∧ |a.bDen| < eps := ⟨hpos, hb⟩
      rw [if_pos hcond]
      have hd : a.dia + a.bNum = -a.aNum := by linarith
      have hd0 : a.dia + a.bNum ≠ 0 := by rw [hd]; exact neg_ne_zero.mpr (ne_of_lt hN)
      rw [hneg _ hd0, hd, abs_of_pos (by linarith)]
      exact div_self (neg_ne_zero.mpr (ne_of_lt hN))
    · have hcond : ¬ ((0 : K) < a.bNum ∧ |a.bDen| < eps) := fun h => hpos h.1
      rw [if_neg hcond]
      have hb0 : a.bNum = 0 := le_antisymm (not_lt.mp hpos) hBN
      have hd : a.dia = -a.aNum := by rw [hb0] at htot; linarith
      have hd0 : a.dia ≠ 0 := by rw [hd]; exact neg_ne_zero.mpr (ne_of_lt hN)
      rw [hneg a.dia hd0, hd, abs_of_pos (by linarith)]
      exact div_self (neg_ne_zero.mpr (ne_of_lt hN))
  · -- positive couplings interpolated
    have hcond : ¬ ((0 : K) < a.bNum ∧ |a.bDen| < eps) := fun h => lt_asymm hb1 h.2
    rw [if_neg hcond, if_pos hb1]
    have hd0 : a.dia ≠ 0 := ne_of_gt hb3
    rw [hneg a.dia hd0]
    have hB0 : a.bDen ≠ 0 := by
      intro h0; rw [h0, abs_zero] at hb1; exact absurd hb1 (not_lt.mpr heps)
    have hBp : 0 < a.bDen := lt_of_le_of_ne hB (Ne.symm hB0)
    have hBNp : 0 < a.bNum := lt_of_lt_of_le hBp o6
    have hpos : (-(if (doTrunc && decide (eps < |a.bDen - a.dPos|)) = true then |a.bDen| / |a.bDen - a.dPos| else 1)
        * |a.bNum| / (|a.dia| * |a.bDen|)) * (a.bDen - a.dPos) = -a.bNum / |a.dia| := by
      have hd' : |a.dia| ≠ 0 := abs_ne_zero.mpr hd0
      cases hT : doTrunc with
      | false =>
        have := (o7 hT).2
        simp only [Bool.false_and, Bool.false_eq_true, if_false, this, sub_zero]
        rw [abs_of_pos hBp, abs_of_pos hBNp] at *
        field_simp
      | true =>
        have hy := hb2 hT
        simp only [Bool.true_and, decide_eq_true_eq, hy, if_true]
        have hY0 : a.bDen - a.dPos ≠ 0 := by
          intro h0; rw [h0, abs_zero] at hy; exact absurd hy (not_lt.mpr heps)
        have hYp : 0 < a.bDen - a.dPos := lt_of_le_of_ne hY (Ne.symm hY0)
        rw [abs_of_pos hBp, abs_of_pos hBNp, abs_of_pos hYp] at *
        field_simp
    rw [hpos, abs_of_pos hb3]
    have : a.dia = -a.aNum - a.bNum := by linarith
    field_simp
    linarith

end RS
end Amgcl
