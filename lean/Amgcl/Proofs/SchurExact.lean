import Amgcl.Proofs.SchurApply
import Mathlib.Tactic.LinearCombination
import Mathlib.Tactic.Abel
/-!
Block elimination with exact inner solves (C18): `apply` of type 1 solves `K x = f`, type 2 solves the block
upper-triangular system, for every state satisfying `Good` (in particular for `init`, every mask, every `adjust_p`).
-/
namespace Amgcl.Schur
open Amgcl Matrix Finset

section
variable {K : Type} [Field K] [LinearOrder K]

/-- shapes and well-formedness of the members of a good state -/
structure Shapes (S : State K) (pm : Array Bool) : Prop where
  uu : S.Kuu.WF ∧ S.Kuu.nrows = (cls pm false).length ∧ S.Kuu.ncols = (cls pm false).length
  up : S.Kup.WF ∧ S.Kup.nrows = (cls pm false).length ∧ S.Kup.ncols = (cls pm true).length
  pu : S.Kpu.WF ∧ S.Kpu.nrows = (cls pm true).length ∧ S.Kpu.ncols = (cls pm false).length
  pp : S.Kpp0.WF ∧ S.Kpp0.nrows = (cls pm true).length ∧ S.Kpp0.ncols = (cls pm true).length

theorem Good.shapes {S : State K} {A : CRS K} {pm : Array Bool} (hG : Good S A pm) (hA : A.WF)
    (hn : A.nrows = pm.size) (hc : A.ncols = pm.size) : Shapes S pm := by
  refine ⟨?_, ?_, ?_, ?_⟩
  · rw [hG.hKuu]; exact ⟨extractBlock_wf A pm hA hn hc false false, extractBlock_nrows A pm hn false false _, rfl⟩
  · rw [hG.hKup]; exact ⟨extractBlock_wf A pm hA hn hc false true, extractBlock_nrows A pm hn false true _, rfl⟩
  · rw [hG.hKpu]; exact ⟨extractBlock_wf A pm hA hn hc true false, extractBlock_nrows A pm hn true false _, rfl⟩
  · rw [hG.hKpp]; exact ⟨extractBlock_wf A pm hA hn hc true true, extractBlock_nrows A pm hn true true _, rfl⟩

theorem gather_toV (pm : Array Bool) (b : Bool) (f y : Vec K) :
    toV (cls pm b).length (spmv 1 (gatherMat pm b) f 0 y) = toV pm.size f ∘ sel pm b := by
  rw [toV_spmv' 1 0 (gatherMat pm b) f y (gatherMat_wf pm b) (cls pm b).length pm.size (gatherMat_nrows pm b) rfl,
    toMat_gather_mulVec]
  simp

theorem gather_size (pm : Array Bool) (b : Bool) (f y : Vec K) :
    (spmv 1 (gatherMat pm b : CRS K) f 0 y).size = (cls pm b).length := by
  rw [spmv_size'', gatherMat_nrows]

/-- the two scatter products: the result restricted to a class is the vector scattered for that class -/
theorem scatter_toV (pm : Array Bool) (u p y : Vec K) :
    let x := spmv 1 (scatterMat pm (mkIdx pm).1 true (cls pm true).length) p 1
      (spmv 1 (scatterMat pm (mkIdx pm).1 false (cls pm false).length) u 0 y)
    toV pm.size x ∘ sel pm false = toV (cls pm false).length u ∧
    toV pm.size x ∘ sel pm true = toV (cls pm true).length p := by
  intro x
  have hx : toV pm.size x
      = toMat (scatterMat pm (mkIdx pm).1 true (cls pm true).length : CRS K) pm.size (cls pm true).length
          *ᵥ toV (cls pm true).length p
        + toMat (scatterMat pm (mkIdx pm).1 false (cls pm false).length : CRS K) pm.size (cls pm false).length
          *ᵥ toV (cls pm false).length u := by
    show toV pm.size (spmv 1 _ p 1 (spmv 1 _ u 0 y)) = _
    rw [toV_spmv' 1 1 _ p _ (scatterMat_wf pm true) pm.size (cls pm true).length (scatterMat_nrows pm true _) rfl,
      toV_spmv' 1 0 _ u y (scatterMat_wf pm false) pm.size (cls pm false).length (scatterMat_nrows pm false _) rfl]
    simp
  constructor
  · funext k
    have h1 := congrFun (scatter_comp_same pm false (toV (cls pm false).length u)) k
    have h2 := congrFun (scatter_comp_other pm true false (by decide) (toV (cls pm true).length p)) k
    simp only [Function.comp_apply, Pi.zero_apply] at h1 h2
    simp only [Function.comp_apply, hx, Pi.add_apply, h1, h2, zero_add]
  · funext k
    have h1 := congrFun (scatter_comp_same pm true (toV (cls pm true).length p)) k
    have h2 := congrFun (scatter_comp_other pm false true (by decide) (toV (cls pm false).length u)) k
    simp only [Function.comp_apply, Pi.zero_apply] at h1 h2
    simp only [Function.comp_apply, hx, Pi.add_apply, h1, h2, add_zero]

/-- the matrix-free operator (with the inner solver, `approx_schur = false`) in matrix terms -/
theorem sop_toV {S : State K} {A : CRS K} {pm : Array Bool} (hG : Good S A pm) (hS : Shapes S pm)
    (happ : S.prm.approxSchur = false) (U : Vec K → Vec K) (x y : Vec K) :
    toV (cls pm true).length (S.spmv U 1 x 0 y)
      = toMat S.Kpp0 (cls pm true).length (cls pm true).length *ᵥ toV (cls pm true).length x
        - toMat S.Kpu (cls pm true).length (cls pm false).length
            *ᵥ toV (cls pm false).length (U (spmv 1 S.Kup x 0 (vclear S.nu))) := by
  unfold State.spmv
  simp only [happ, Bool.false_eq_true, if_false]
  rw [toV_spmv' (-1) 1 S.Kpu _ _ hS.pu.1 _ _ hS.pu.2.1 hS.pu.2.2, hG.hkpp]
  simp only [neg_smul, one_smul]
  abel

theorem sop_size {S : State K} {pm : Array Bool} (hS : Shapes S pm) (U : Vec K → Vec K) (α β : K) (x y : Vec K) :
    (S.spmv U α x β y).size = (cls pm true).length := by
  unfold State.spmv
  rw [spmv_size'']; exact hS.pu.2.1

/-- **block elimination** (`type = 1`): with `U = Kuu⁻¹` and a pressure solve that inverts the matrix-free operator the
code applies, `apply` returns a solution of `K x = f`. -/
theorem good_schur1 {S : State K} {A : CRS K} {pm : Array Bool} (hG : Good S A pm) (hA : A.WF)
    (hn : A.nrows = pm.size) (hc : A.ncols = pm.size)
    (htype : S.prm.type = 1) (happ : S.prm.approxSchur = false) (U Ps : Vec K → Vec K)
    (hdet : IsUnit (toMat S.Kuu (cls pm false).length (cls pm false).length).det)
    (hU : ∀ r : Vec K, r.size = (cls pm false).length → toV (cls pm false).length (U r)
        = (toMat S.Kuu (cls pm false).length (cls pm false).length)⁻¹ *ᵥ toV (cls pm false).length r)
    (hP : ∀ r : Vec K, r.size = (cls pm true).length → S.spmv U 1 (Ps r) 0 (vclear S.np) = r)
    (f : Vec K) (hf : f.size = pm.size) :
    ∃ x, S.apply U Ps f = some x ∧ spmv 1 A x 0 (vclear pm.size) = f := by
  have hS := hG.shapes hA hn hc
  unfold State.apply
  simp only [htype, if_true]
  refine ⟨_, rfl, ?_⟩
  -- names for the intermediate vectors of `apply`
  set rhsu := spmv 1 S.x2u f 0 (vclear S.nu) with hrhsu
  set rhsp := spmv 1 S.x2p f 0 (vclear S.np) with hrhsp
  set u1 := U rhsu with hu1
  set rhsp' := spmv (-1) S.Kpu u1 1 rhsp with hrhsp'
  set p := Ps rhsp' with hp
  set rhsu' := spmv (-1) S.Kup p 1 rhsu with hrhsu'
  set u2 := U rhsu' with hu2
  -- dense names
  set M := toMat A pm.size pm.size with hM
  set Muu := toMat S.Kuu (cls pm false).length (cls pm false).length with hMuu
  set Mup := toMat S.Kup (cls pm false).length (cls pm true).length with hMup
  set Mpu := toMat S.Kpu (cls pm true).length (cls pm false).length with hMpu
  set Mpp := toMat S.Kpp0 (cls pm true).length (cls pm true).length with hMpp
  have eMuu : Muu = M.submatrix (sel pm false) (sel pm false) := by
    rw [hMuu, hG.hKuu]; exact toMat_extractBlock A pm hA hn hc false false _
  have eMup : Mup = M.submatrix (sel pm false) (sel pm true) := by
    rw [hMup, hG.hKup]; exact toMat_extractBlock A pm hA hn hc false true _
  have eMpu : Mpu = M.submatrix (sel pm true) (sel pm false) := by
    rw [hMpu, hG.hKpu]; exact toMat_extractBlock A pm hA hn hc true false _
  have eMpp : Mpp = M.submatrix (sel pm true) (sel pm true) := by
    rw [hMpp, hG.hKpp]; exact toMat_extractBlock A pm hA hn hc true true _
  set fu := toV pm.size f ∘ sel pm false with hfu
  set fp := toV pm.size f ∘ sel pm true with hfp
  have t_rhsu : toV (cls pm false).length rhsu = fu := by rw [hrhsu, hG.hx2u]; exact gather_toV pm false f _
  have t_rhsp : toV (cls pm true).length rhsp = fp := by rw [hrhsp, hG.hx2p]; exact gather_toV pm true f _
  have s_rhsu : rhsu.size = (cls pm false).length := by rw [hrhsu, hG.hx2u]; exact gather_size pm false f _
  have t_u1 : toV (cls pm false).length u1 = Muu⁻¹ *ᵥ fu := by rw [hu1, hU _ s_rhsu, t_rhsu]
  have t_rhsp' : toV (cls pm true).length rhsp' = fp - Mpu *ᵥ (Muu⁻¹ *ᵥ fu) := by
    rw [hrhsp', toV_spmv' (-1) 1 S.Kpu _ _ hS.pu.1 _ _ hS.pu.2.1 hS.pu.2.2, t_rhsp, t_u1]
    simp only [neg_smul, one_smul]; abel
  have s_rhsp' : rhsp'.size = (cls pm true).length := by rw [hrhsp', spmv_size'']; exact hS.pu.2.1
  -- the pressure solve inverts the matrix-free operator
  have hPp := hP rhsp' s_rhsp'
  have t_S := sop_toV hG hS happ U p (vclear S.np)
  rw [← hp] at hPp
  rw [hPp, t_rhsp'] at t_S
  have t_tmp : toV (cls pm false).length (spmv 1 S.Kup p 0 (vclear S.nu)) = Mup *ᵥ toV (cls pm true).length p := by
    rw [toV_spmv' 1 0 S.Kup _ _ hS.up.1 _ _ hS.up.2.1 hS.up.2.2]; simp only [one_smul, zero_smul, add_zero]; rfl
  rw [hU _ (by rw [spmv_size'']; exact hS.up.2.1), t_tmp] at t_S
  have t_rhsu' : toV (cls pm false).length rhsu' = fu - Mup *ᵥ toV (cls pm true).length p := by
    rw [hrhsu', toV_spmv' (-1) 1 S.Kup _ _ hS.up.1 _ _ hS.up.2.1 hS.up.2.2, t_rhsu]
    simp only [neg_smul, one_smul]; abel
  have t_u2 : toV (cls pm false).length u2 = Muu⁻¹ *ᵥ (fu - Mup *ᵥ toV (cls pm true).length p) := by
    rw [hu2, hU _ (by rw [hrhsu', spmv_size'']; exact hS.up.2.1), t_rhsu']
  -- the scattered result
  have hsc := scatter_toV pm u2 p (vclear S.n)
  rw [← hG.hp2x, ← hG.hu2x] at hsc
  obtain ⟨hxu, hxp⟩ := hsc
  -- K x = f
  apply vec_eq_of_toV pm.size (by rw [spmv_size'', hn]) hf
  rw [toV_spmv' 1 0 A _ _ hA pm.size pm.size hn hc]
  simp only [one_smul, zero_smul, add_zero]
  apply blocks_mulVec pm M
  · rw [← eMuu, ← eMup, hxu, hxp, t_u2, Matrix.mulVec_mulVec, Matrix.mul_nonsing_inv _ hdet, Matrix.one_mulVec]
    abel
  · rw [← eMpu, ← eMpp, hxu, hxp, t_u2]
    rw [Matrix.mulVec_sub] at ⊢
    rw [Matrix.mulVec_sub]
    -- t_S : fp - Mpu Muu⁻¹ fu = Mpp p - Mpu Muu⁻¹ (Mup p)
    have := t_S
    calc Mpu *ᵥ (Muu⁻¹ *ᵥ fu) - Mpu *ᵥ (Muu⁻¹ *ᵥ (Mup *ᵥ toV (cls pm true).length p)) + Mpp *ᵥ toV (cls pm true).length p
        = Mpu *ᵥ (Muu⁻¹ *ᵥ fu) + (Mpp *ᵥ toV (cls pm true).length p
            - Mpu *ᵥ (Muu⁻¹ *ᵥ (Mup *ᵥ toV (cls pm true).length p))) := by abel
      _ = Mpu *ᵥ (Muu⁻¹ *ᵥ fu) + (fp - Mpu *ᵥ (Muu⁻¹ *ᵥ fu)) := by rw [← this]
      _ = fp := by abel

/-- **block upper-triangular solve** (`type = 2`): with right-inverse inner solves the result `x = (u, p)` satisfies
`S p = f_p` (matrix-free `S`) and `Kuu u + Kup p = f_u`. -/
theorem good_schur2 {S : State K} {A : CRS K} {pm : Array Bool} (hG : Good S A pm) (hA : A.WF)
    (hn : A.nrows = pm.size) (hc : A.ncols = pm.size)
    (htype : S.prm.type = 2) (U Ps : Vec K → Vec K)
    (hU : ∀ r : Vec K, r.size = (cls pm false).length →
      (U r).size = (cls pm false).length ∧ spmv 1 S.Kuu (U r) 0 (vclear S.nu) = r)
    (hP : ∀ r : Vec K, r.size = (cls pm true).length →
      (Ps r).size = (cls pm true).length ∧ S.spmv U 1 (Ps r) 0 (vclear S.np) = r)
    (f : Vec K) :
    ∃ x, S.apply U Ps f = some x ∧
      S.spmv U 1 (spmv 1 S.x2p x 0 (vclear S.np)) 0 (vclear S.np) = spmv 1 S.x2p f 0 (vclear S.np) ∧
      spmv 1 S.Kup (spmv 1 S.x2p x 0 (vclear S.np)) 1
          (spmv 1 S.Kuu (spmv 1 S.x2u x 0 (vclear S.nu)) 0 (vclear S.nu))
        = spmv 1 S.x2u f 0 (vclear S.nu) := by
  have hS := hG.shapes hA hn hc
  unfold State.apply
  have h21 : ¬ (2 : Nat) = 1 := by omega
  simp only [htype, h21, if_true, if_false]
  refine ⟨_, rfl, ?_⟩
  set rhsu := spmv 1 S.x2u f 0 (vclear S.nu) with hrhsu
  set rhsp := spmv 1 S.x2p f 0 (vclear S.np) with hrhsp
  set p := Ps rhsp with hp
  set rhsu' := spmv (-1) S.Kup p 1 rhsu with hrhsu'
  set u := U rhsu' with hu
  set x := spmv 1 S.p2x p 1 (spmv 1 S.u2x u 0 (vclear S.n)) with hx
  have s_rhsu : rhsu.size = (cls pm false).length := by rw [hrhsu, hG.hx2u]; exact gather_size pm false f _
  have s_rhsp : rhsp.size = (cls pm true).length := by rw [hrhsp, hG.hx2p]; exact gather_size pm true f _
  have s_rhsu' : rhsu'.size = (cls pm false).length := by rw [hrhsu', spmv_size'']; exact hS.up.2.1
  obtain ⟨s_p, hPp⟩ := hP rhsp s_rhsp
  obtain ⟨s_u, hUu⟩ := hU rhsu' s_rhsu'
  rw [← hp] at s_p hPp
  rw [← hu] at s_u hUu
  have hsc := scatter_toV pm u p (vclear S.n)
  rw [← hG.hp2x, ← hG.hu2x, ← hx] at hsc
  obtain ⟨hxu, hxp⟩ := hsc
  have gu : spmv 1 S.x2u x 0 (vclear S.nu) = u := by
    apply vec_eq_of_toV (cls pm false).length (by rw [hG.hx2u]; exact gather_size pm false x _) s_u
    rw [hG.hx2u, gather_toV, hxu]
  have gp : spmv 1 S.x2p x 0 (vclear S.np) = p := by
    apply vec_eq_of_toV (cls pm true).length (by rw [hG.hx2p]; exact gather_size pm true x _) s_p
    rw [hG.hx2p, gather_toV, hxp]
  rw [gu, gp, hUu]
  refine ⟨hPp, ?_⟩
  apply vec_eq_of_toV (cls pm false).length (by rw [spmv_size'']; exact hS.up.2.1) s_rhsu
  rw [toV_spmv' 1 1 S.Kup _ _ hS.up.1 _ _ hS.up.2.1 hS.up.2.2, hrhsu',
    toV_spmv' (-1) 1 S.Kup _ _ hS.up.1 _ _ hS.up.2.1 hS.up.2.2]
  simp only [neg_smul, one_smul]
  abel

/-- **the extracted blocks reassemble to `K`**: scattering `Kuu, Kup, Kpu, Kpp` back through `u2x`, `p2x` (and
gathering through `x2u`, `x2p`) gives the original matrix, for every mask -/
theorem good_reassemble {S : State K} {A : CRS K} {pm : Array Bool} (hG : Good S A pm) (hA : A.WF)
    (hn : A.nrows = pm.size) (hc : A.ncols = pm.size) :
    toMat S.u2x pm.size (cls pm false).length * toMat S.Kuu (cls pm false).length (cls pm false).length
        * toMat S.x2u (cls pm false).length pm.size
      + toMat S.u2x pm.size (cls pm false).length * toMat S.Kup (cls pm false).length (cls pm true).length
        * toMat S.x2p (cls pm true).length pm.size
      + toMat S.p2x pm.size (cls pm true).length * toMat S.Kpu (cls pm true).length (cls pm false).length
        * toMat S.x2u (cls pm false).length pm.size
      + toMat S.p2x pm.size (cls pm true).length * toMat S.Kpp0 (cls pm true).length (cls pm true).length
        * toMat S.x2p (cls pm true).length pm.size
      = toMat A pm.size pm.size := by
  rw [Matrix.ext_iff_mulVec]
  intro v
  symm
  rw [hG.hu2x, hG.hp2x, hG.hx2u, hG.hx2p, hG.hKuu, hG.hKup, hG.hKpu, hG.hKpp,
    toMat_extractBlock A pm hA hn hc false false, toMat_extractBlock A pm hA hn hc false true,
    toMat_extractBlock A pm hA hn hc true false, toMat_extractBlock A pm hA hn hc true true]
  simp only [Matrix.add_mulVec, ← Matrix.mulVec_mulVec, toMat_gather_mulVec]
  set M := toMat A pm.size pm.size
  set wu := M.submatrix (sel pm false) (sel pm false) *ᵥ (v ∘ sel pm false)
  set wup := M.submatrix (sel pm false) (sel pm true) *ᵥ (v ∘ sel pm true)
  set wpu := M.submatrix (sel pm true) (sel pm false) *ᵥ (v ∘ sel pm false)
  set wp := M.submatrix (sel pm true) (sel pm true) *ᵥ (v ∘ sel pm true)
  apply blocks_mulVec pm M
  · funext k
    have a1 := congrFun (scatter_comp_same pm false wu) k
    have a2 := congrFun (scatter_comp_same pm false wup) k
    have a3 := congrFun (scatter_comp_other pm true false (by decide) wpu) k
    have a4 := congrFun (scatter_comp_other pm true false (by decide) wp) k
    simp only [Function.comp_apply, Pi.zero_apply] at a1 a2 a3 a4
    simp only [Function.comp_apply, Pi.add_apply, a1, a2, a3, a4, add_zero]
    rfl
  · funext k
    have a1 := congrFun (scatter_comp_other pm false true (by decide) wu) k
    have a2 := congrFun (scatter_comp_other pm false true (by decide) wup) k
    have a3 := congrFun (scatter_comp_same pm true wpu) k
    have a4 := congrFun (scatter_comp_same pm true wp) k
    simp only [Function.comp_apply, Pi.zero_apply] at a1 a2 a3 a4
    simp only [Function.comp_apply, Pi.add_apply, a1, a2, a3, a4, zero_add]
    rfl

end

end Amgcl.Schur
