import Amgcl.Proofs.KrylovGMRESRestart
import Mathlib.LinearAlgebra.FiniteDimensional.Basic
/-!
# Restarted GMRES as a whole: the sequence of restart states has non-increasing residuals (C05)

`outerPass … st₀ k` is the state of the outer `while(true)` of `Model/SolverGMRES.lean` at its `break` test after `k`
restart cycles from `st₀` (`head ∘ cycle` iterated).  The call returns `outerPass … init k` for the first `k` whose
stopping test succeeds (`final_eq_outerPass`); every state of the sequence carries the measured residual of its own `x`
(`outerPass_inv`), and from one state to the next the squared norm of that residual does not increase
(`outerPass_step_le`, from `cycle_monotone`), hence not along the whole sequence (`outerPass_antitone`).
-/
set_option linter.unusedSectionVars false
set_option linter.unusedVariables false
namespace Amgcl.Krylov
open Amgcl Amgcl.Solver Amgcl.Solver.GMRES Amgcl.Energy.Bridge Matrix Finset

section outer
variable {K : Type} [Field K] [LinearOrder K] [IsStrictOrderedRing K]

/-- the state at the `break` test after `k` restart cycles -/
def outerPass (prm : GMRES.Params K) (sqrt : K → K) (A : CRS K) (P : Vec K → Vec K) (f : Vec K) (epsT : K)
    (st0 : GMRES.St K) (k : ℕ) : GMRES.St K :=
  (fun s => head prm.pside stdIp sqrt A P f (cycle prm stdIp sqrt A P epsT s))^[k] st0

theorem outerPass_succ (prm : GMRES.Params K) (sqrt : K → K) (A : CRS K) (P : Vec K → Vec K) (f : Vec K) (epsT : K)
    (st0 : GMRES.St K) (k : ℕ) :
    outerPass prm sqrt A P f epsT st0 (k + 1)
      = head prm.pside stdIp sqrt A P f (cycle prm stdIp sqrt A P epsT (outerPass prm sqrt A P f epsT st0 k)) := by
  unfold outerPass; rw [Function.iterate_succ_apply']

/-- every state of the sequence has just been through `head` -/
theorem outerPass_inv (prm : GMRES.Params K) (sqrt : K → K) (A : CRS K) (P : Vec K → Vec K) (f : Vec K) (epsT : K)
    (st0 : GMRES.St K) (h0 : GMRES.Inv prm.pside stdIp sqrt A P f st0) (k : ℕ) :
    GMRES.Inv prm.pside stdIp sqrt A P f (outerPass prm sqrt A P f epsT st0 k) := by
  cases k with
  | zero => exact h0
  | succ k => rw [outerPass_succ]; exact head_inv _ _ _ _ _ _ _

/-- **the call returns a member of the restart sequence**: the first one whose stopping test succeeds -/
theorem final_eq_outerPass (prm : GMRES.Params K) (sqrt : K → K) (A : CRS K) (P : Vec K → Vec K) (ws : GMRES.Work K)
    (f x0 : Vec K) (nf : K) :
    ∃ k, k ≤ prm.maxiter ∧
      final prm stdIp sqrt A P ws f x0 nf
        = outerPass prm sqrt A P f (epsTol prm nf) (init prm stdIp sqrt A P ws f x0) k ∧
      (∀ i, i < k → stop prm.maxiter (epsTol prm nf)
        (outerPass prm sqrt A P f (epsTol prm nf) (init prm stdIp sqrt A P ws f x0) i) = false) ∧
      stop prm.maxiter (epsTol prm nf)
        (outerPass prm sqrt A P f (epsTol prm nf) (init prm stdIp sqrt A P ws f x0) k) = true := by
  obtain ⟨k, hk, h1, h2, _⟩ := loopN_iterate_conds (fun s => !stop prm.maxiter (epsTol prm nf) s)
    (fun s => head prm.pside stdIp sqrt A P f (cycle prm stdIp sqrt A P (epsTol prm nf) s)) prm.maxiter
    (init prm stdIp sqrt A P ws f x0)
  have hfin : final prm stdIp sqrt A P ws f x0 nf
      = outerPass prm sqrt A P f (epsTol prm nf) (init prm stdIp sqrt A P ws f x0) k := h1
  refine ⟨k, hk, hfin, fun i hi => ?_, ?_⟩
  · have := h2 i hi
    unfold outerPass
    simpa using this
  · rw [← hfin]; exact outer_fuel_ok prm stdIp sqrt A P ws f x0 nf

variable (n : ℕ) (A : CRS K) (hA : A.WF) (hn : A.nrows = n) (hm : A.ncols = n)
  (P : Vec K → Vec K) (Pl : (Fin n → K) →ₗ[K] (Fin n → K)) (hP : PDenotes n P Pl)
include hA hn hm hP

/-- one restart: a state of the sequence whose stopping test fails (threshold positive) is followed by a state whose
measured residual is not larger -/
theorem outerPass_step_le (prm : GMRES.Params K) (sqrt : K → K) (f : Vec K) (epsT : K) (heps : 0 < epsT)
    (st0 : GMRES.St K) (h0 : GMRES.Inv prm.pside stdIp sqrt A P f st0) (k : ℕ)
    (hstop : stop prm.maxiter epsT (outerPass prm sqrt A P f epsT st0 k) = false)
    (hroots : RootsExact prm.pside sqrt A P (outerPass prm sqrt A P f epsT st0 k)
      (inner prm stdIp sqrt A P epsT (outerPass prm sqrt A P f epsT st0 k)).j) :
    stdIp (GMRES.Rf prm.pside P f A (outerPass prm sqrt A P f epsT st0 (k + 1)).x)
        (GMRES.Rf prm.pside P f A (outerPass prm sqrt A P f epsT st0 (k + 1)).x)
      ≤ stdIp (GMRES.Rf prm.pside P f A (outerPass prm sqrt A P f epsT st0 k).x)
        (GMRES.Rf prm.pside P f A (outerPass prm sqrt A P f epsT st0 k).x) := by
  obtain ⟨i1, i2⟩ := outerPass_inv prm sqrt A P f epsT st0 h0 k
  have hnlt : ¬ (outerPass prm sqrt A P f epsT st0 k).normR < epsT :=
    (stop_false prm.maxiter epsT _ (by rw [hstop]; rfl)).2
  have hne : (outerPass prm sqrt A P f epsT st0 k).normR ≠ 0 := by
    intro h; rw [h] at hnlt; exact hnlt heps
  have hst : CycleStart prm.pside sqrt A P f (outerPass prm sqrt A P f epsT st0 k) :=
    ⟨i1, by rw [i2, i1], hne⟩
  rw [outerPass_succ, head_x]
  exact cycle_monotone n A hA hn hm P Pl hP prm.pside sqrt f _ hst prm rfl epsT (not_lt.mpr (le_of_lt heps)) hroots

/-- **the whole restarted sequence is monotone**: as long as the stopping test has failed, the squared norms of the
measured residuals `Rf x⁽ⁱ⁾` at the restarts form a non-increasing sequence -/
theorem outerPass_antitone (prm : GMRES.Params K) (sqrt : K → K) (f : Vec K) (epsT : K) (heps : 0 < epsT)
    (st0 : GMRES.St K) (h0 : GMRES.Inv prm.pside stdIp sqrt A P f st0) (k : ℕ)
    (hstop : ∀ i, i < k → stop prm.maxiter epsT (outerPass prm sqrt A P f epsT st0 i) = false)
    (hroots : ∀ i, i < k → RootsExact prm.pside sqrt A P (outerPass prm sqrt A P f epsT st0 i)
      (inner prm stdIp sqrt A P epsT (outerPass prm sqrt A P f epsT st0 i)).j)
    (i j : ℕ) (hij : i ≤ j) (hj : j ≤ k) :
    stdIp (GMRES.Rf prm.pside P f A (outerPass prm sqrt A P f epsT st0 j).x)
        (GMRES.Rf prm.pside P f A (outerPass prm sqrt A P f epsT st0 j).x)
      ≤ stdIp (GMRES.Rf prm.pside P f A (outerPass prm sqrt A P f epsT st0 i).x)
        (GMRES.Rf prm.pside P f A (outerPass prm sqrt A P f epsT st0 i).x) := by
  induction j with
  | zero =>
    have : i = 0 := by omega
    subst this; exact le_refl _
  | succ j ih =>
    by_cases h : i = j + 1
    · subst h; exact le_refl _
    · exact le_trans
        (outerPass_step_le n A hA hn hm P Pl hP prm sqrt f epsT heps st0 h0 j (hstop j (by omega)) (hroots j (by omega)))
        (ih (by omega) (by omega))

end outer

section exact
variable {K : Type} [Field K] [LinearOrder K] [IsStrictOrderedRing K]

/-- for left preconditioning an injective `Pl A` on `Fin n → K` makes `Pl` injective (finite dimension) -/
theorem Pl_injective_of_Tl_left {n : ℕ} (Am : Matrix (Fin n) (Fin n) K) (Pl : (Fin n → K) →ₗ[K] (Fin n → K))
    (h : Function.Injective (Tl .left Am Pl)) : Function.Injective Pl := by
  have hA : Function.Injective Am.mulVecLin := by
    have : Function.Injective (⇑Pl ∘ ⇑Am.mulVecLin) := h
    exact Function.Injective.of_comp this
  have hs : Function.Surjective Am.mulVecLin := LinearMap.injective_iff_surjective.mp hA
  intro u v huv
  obtain ⟨a, rfl⟩ := hs u
  obtain ⟨b, rfl⟩ := hs v
  have : a = b := h huv
  rw [this]

/-- a zero measured residual is a zero true residual when the preconditioned operator is injective -/
theorem true_residual_zero (n : ℕ) (A : CRS K) (hA : A.WF) (hn : A.nrows = n) (hm : A.ncols = n)
    (P : Vec K → Vec K) (Pl : (Fin n → K) →ₗ[K] (Fin n → K)) (hP : PDenotes n P Pl) (side : Side)
    (hinj : Function.Injective (Tl side (matOf A n n) Pl)) (f x : Vec K)
    (h : GMRES.Rf side P f A x = vclear n) : residual f A x = vclear n := by
  cases side with
  | right => exact h
  | left =>
    have hrs : (residual f A x).size = n := by rw [residual_size', hn]
    obtain ⟨_, h2⟩ := hP _ hrs
    have hz : vecOf n (vclear n : Vec K) = 0 := by funext τ; simp [vecOf, vclear]
    have h' : P (residual f A x) = vclear n := h
    rw [h', hz] at h2
    have hpl := Pl_injective_of_Tl_left _ Pl hinj
    have : vecOf n (residual f A x) = 0 := hpl (by rw [← h2, map_zero])
    apply eq_of_vecOf_eq n _ _ hrs (by simp [vclear])
    rw [this, hz]

/-- the norm of the zero vector is `0` when the root is exact on `0` -/
theorem nrmA_vclear (sqrt : K → K) (h0 : RootAt sqrt 0) (n : ℕ) : nrmA stdIp sqrt (vclear n : Vec K) = 0 := by
  have hz : stdIp (vclear n : Vec K) (vclear n) = 0 := by
    rw [stdIp_vecOf n _ _ (by simp [vclear]) (by simp [vclear])]
    have : vecOf n (vclear n : Vec K) = 0 := by funext τ; simp [vecOf, vclear]
    rw [this, zero_dotProduct]
  unfold nrmA
  rw [hz]
  have : sqrt 0 = 0 := mul_self_eq_zero.mp h0
  rw [this, absK_zero]

end exact

end Amgcl.Krylov
