import Amgcl.Proofs.KrylovCGStarBridge
import Amgcl.Proofs.Primitives
import Mathlib.Algebra.BigOperators.Ring.Finset
import Mathlib.Algebra.BigOperators.GroupWithZero.Action
/-!
# amgcl's complex inner product denotes the Hermitian dot product; a Hermitian matrix is self-adjoint for it (C05g)
-/
set_option linter.unusedSectionVars false
set_option linter.unusedVariables false
namespace Amgcl.Krylov
open Amgcl Amgcl.Solver Amgcl.Energy.Bridge Matrix

variable {K : Type} [Field K] [DecidableEq K] [LT K] [DecidableLT K]

/-- `Σ_i u_i · conj (v_i)` -/
def hermDot (n : ℕ) (conj : K → K) (u v : Fin n → K) : K := ∑ i, u i * conj (v i)

theorem zip_sum_conj (conj : K → K) (l1 l2 : List K) (h : l1.length = l2.length) :
    ((l1.zip l2).map (fun p => p.1 * conj p.2)).sum = ∑ i ∈ Finset.range l1.length, l1.getD i 0 * conj (l2.getD i 0) := by
  induction l1 generalizing l2 with
  | nil => simp
  | cons a t ih =>
    cases l2 with
    | nil => simp at h
    | cons b u =>
      simp only [List.length_cons, Nat.add_right_cancel_iff] at h
      simp only [List.zip_cons_cons, List.map_cons, List.sum_cons, List.length_cons, Finset.sum_range_succ']
      rw [ih u h]
      simp [add_comm]

/-- `inner_product(x, y) = Σ x_i conj(y_i)` on arrays of length `n` is the Hermitian dot product of the denoted vectors -/
theorem ipC_denotes (n : ℕ) (conj : K → K) : IpDenotes n (innerProductSerial conj) (hermDot n conj) := by
  intro x y hx hy
  unfold innerProductSerial hermDot
  rw [kahan_foldl, zero_add, zip_sum_conj conj x.toList y.toList (by simp [hx, hy])]
  simp only [Array.length_toList, hx]
  rw [Finset.sum_range]
  apply Finset.sum_congr rfl
  intro i _
  simp [vecOf, Array.getD_eq_getD_getElem?, List.getD_eq_getElem?_getD]

/-- the hypotheses `Sesq` for the Hermitian dot product, a Hermitian matrix and a preconditioner self-adjoint for it -/
theorem hermDot_sesq (n : ℕ) (conj : K →+* K) (hcc : ∀ a, conj (conj a) = a) (A : CRS K)
    (hherm : ∀ i, i < n → ∀ j, j < n → A.get i j = conj (A.get j i))
    (Pl : (Fin n → K) →ₗ[K] (Fin n → K)) (hPsym : ∀ u v, hermDot n conj (Pl u) v = hermDot n conj u (Pl v)) (f x0 : Vec K) :
    (cgDataS n A Pl (hermDot n conj) f x0).Sesq conj := by
  refine ⟨hcc, ?_, ?_, ?_, ?_, ?_, ?_, hPsym⟩
  · intro u v w
    show hermDot n conj (u + v) w = hermDot n conj u w + hermDot n conj v w
    simp only [hermDot, Pi.add_apply, add_mul, Finset.sum_add_distrib]
  · intro a u w
    show hermDot n conj (a • u) w = a * hermDot n conj u w
    simp only [hermDot, Pi.smul_apply, smul_eq_mul, Finset.mul_sum, mul_assoc]
  · intro u v w
    show hermDot n conj u (v + w) = hermDot n conj u v + hermDot n conj u w
    simp only [hermDot, Pi.add_apply, map_add, mul_add, Finset.sum_add_distrib]
  · intro a u w
    show hermDot n conj u (a • w) = conj a * hermDot n conj u w
    simp only [hermDot, Pi.smul_apply, smul_eq_mul, map_mul, Finset.mul_sum]
    apply Finset.sum_congr rfl; intro i _; ring
  · intro u v
    show hermDot n conj u v = conj (hermDot n conj v u)
    simp only [hermDot, map_sum, map_mul, hcc]
    apply Finset.sum_congr rfl; intro i _; ring
  · intro u v
    show hermDot n conj (matOf A n n *ᵥ u) v = hermDot n conj u (matOf A n n *ᵥ v)
    simp only [hermDot, Matrix.mulVec, dotProduct, matOf, Matrix.of_apply, map_sum, map_mul, Finset.sum_mul, Finset.mul_sum]
    rw [Finset.sum_comm]
    apply Finset.sum_congr rfl; intro i _
    apply Finset.sum_congr rfl; intro j _
    rw [hherm j.val j.isLt i.val i.isLt]
    ring

end Amgcl.Krylov
