import Amgcl.Proofs.RelaxScaleIlu
import Amgcl.Model.RelaxIluk
/-!
# ILU(k) (`iluk.hpp`) of `c·A`: simulation of the constructor loop

`iluk.hpp` takes no value-dependent decision (slots are created by level, nothing is dropped by value, no pivot test), so
for `c ≠ 0` the run on `c·A` has the same slots with the same levels; the values of the working row are equal in the
columns already used as pivots (multipliers) and `c ·` in all the others.  No hypothesis on the matrix (unsorted rows,
duplicates, missing entries are all fine).
-/
namespace Amgcl
namespace Relax

section
variable {K : Type} [Field K] [DecidableEq K]

/-- a finished `U` row with levels, values times `c` -/
def srowL (c : K) (ur : IlukURow K) : IlukURow K := ur.map (fun e => (e.1, e.2.1 * c, e.2.2))

def scaleIlukState (c : K) (S : IlukState K) : IlukState K :=
  { L := S.L, U := S.U.map (srowL c), D := S.D.map (fun d => d * c⁻¹) }

/-- working rows of the two runs while the pivots `< t` are done -/
structure WRel (c : K) (t : Nat) (w w' : IlukRow K) : Prop where
  size : w'.size = w.size
  val : ∀ col, w'.getD col none = (w.getD col none).map (fun vl => (if col < t then vl.1 else vl.1 * c, vl.2))

theorem ilukAdd_rel (c : K) (lfil t : Nat) (w w' : IlukRow K) (h : WRel c t w w') (col : Nat) (ht : t ≤ col)
    (val val' : K) (hv : val' = val * c) (lev : Nat) :
    WRel c t (ilukAdd lfil w col val lev) (ilukAdd lfil w' col val' lev) := by
  subst hv
  unfold ilukAdd
  have hcol := h.val col
  have hnlt : ¬ col < t := by omega
  cases hw : w.getD col none with
  | none =>
    rw [hw] at hcol
    simp only [Option.map_none] at hcol
    rw [hcol]
    simp only []
    by_cases hl : lev ≤ lfil
    · rw [if_pos hl, if_pos hl]
      refine ⟨by simp [h.size], ?_⟩
      intro col'
      rw [getD_setIfInBounds, getD_setIfInBounds, h.size]
      by_cases hc : col = col' ∧ col' < w.size
      · rw [if_pos hc, if_pos hc]; simp only [Option.map_some]; rw [← hc.1, if_neg hnlt]
      · rw [if_neg hc, if_neg hc]; exact h.val col'
    · rw [if_neg hl, if_neg hl]; exact h
  | some vl =>
    obtain ⟨v, l⟩ := vl
    rw [hw] at hcol
    simp only [Option.map_some, if_neg hnlt] at hcol
    rw [hcol]
    simp only []
    refine ⟨by simp [h.size], ?_⟩
    intro col'
    rw [getD_setIfInBounds, getD_setIfInBounds, h.size]
    by_cases hc : col = col' ∧ col' < w.size
    · rw [if_pos hc, if_pos hc]; simp only [Option.map_some]; rw [← hc.1, if_neg hnlt]; congr 2; ring
    · rw [if_neg hc, if_neg hc]; exact h.val col'

theorem WRel.succ_of_set (c : K) (t : Nat) (w w' : IlukRow K) (h : WRel c t w w') (a : K) (l : Nat) :
    WRel c (t + 1) (w.setIfInBounds t (some (a, l))) (w'.setIfInBounds t (some (a, l))) := by
  refine ⟨by simp [h.size], ?_⟩
  intro col
  rw [getD_setIfInBounds, getD_setIfInBounds, h.size]
  by_cases hc : t = col ∧ col < w.size
  · rw [if_pos hc, if_pos hc]; simp only [Option.map_some]; rw [if_pos (by omega)]
  · rw [if_neg hc, if_neg hc, h.val col]
    by_cases hct : col = t
    · subst hct
      -- out of bounds: both `none`
      have : ¬ col < w.size := fun hlt => hc ⟨rfl, hlt⟩
      rw [getD_of_size_le _ _ _ (by omega)]; rfl
    · have : (col < t + 1) ↔ (col < t) := by omega
      simp only [this]

theorem fold_add_rel (c : K) (lfil t : Nat) (a : K) (l : Nat) (ur : IlukURow K) (hU : ∀ e ∈ ur, t < e.1)
    (w1 w1' : IlukRow K) (h1 : WRel c (t + 1) w1 w1') :
    WRel c (t + 1) (ur.foldl (fun w e => ilukAdd lfil w e.1 (-a * e.2.1) (max l e.2.2 + 1)) w1)
      (ur.foldl (fun w e => ilukAdd lfil w e.1 (-a * (e.2.1 * c)) (max l e.2.2 + 1)) w1') := by
  induction ur generalizing w1 w1' with
  | nil => exact h1
  | cons e rest ih =>
    simp only [List.foldl_cons]
    exact ih (fun e' he' => hU e' (List.mem_cons_of_mem _ he')) _ _
      (ilukAdd_rel c lfil (t + 1) w1 w1' h1 e.1 (hU e List.mem_cons_self) _ _ (by ring) _)

theorem fold_init_rel (c : K) (lfil : Nat) (r : Row K) (wa wb : IlukRow K) (hb : WRel c 0 wa wb) :
    WRel c 0 (r.foldl (fun w cv => ilukAdd lfil w cv.1 cv.2 0) wa)
      (r.foldl (fun w cv => ilukAdd lfil w cv.1 (cv.2 * c) 0) wb) := by
  induction r generalizing wa wb with
  | nil => exact hb
  | cons cv rest ih =>
    simp only [List.foldl_cons]
    exact ih _ _ (ilukAdd_rel c lfil 0 wa wb hb cv.1 (Nat.zero_le _) _ _ rfl 0)

theorem ilukPivot_rel (c : K) (hc : c ≠ 0) (lfil : Nat) (U : Array (IlukURow K)) (D D' : Vec K)
    (hD : ∀ k, D'.getD k 0 = D.getD k 0 * c⁻¹) (t : Nat) (hU : ∀ e ∈ U.getD t [], t < e.1)
    (w w' : IlukRow K) (h : WRel c t w w') :
    WRel c (t + 1) (ilukPivot lfil U D w t) (ilukPivot lfil (U.map (srowL c)) D' w' t) := by
  unfold ilukPivot
  have ht := h.val t
  cases hw : w.getD t none with
  | none =>
    rw [hw] at ht
    simp only [Option.map_none] at ht
    rw [ht]
    simp only []
    refine ⟨h.size, ?_⟩
    intro col
    rw [h.val col]
    by_cases hct : col = t
    · subst hct; rw [hw]; rfl
    · have : (col < t + 1) ↔ (col < t) := by omega
      simp only [this]
  | some vl =>
    obtain ⟨v, l⟩ := vl
    rw [hw] at ht
    simp only [Option.map_some, if_neg (Nat.lt_irrefl t)] at ht
    rw [ht]
    simp only []
    have ha : v * c * D'.getD t 0 = v * D.getD t 0 := by rw [hD]; field_simp
    rw [ha]
    have hrow : (U.map (srowL c)).getD t [] = srowL c (U.getD t []) := by
      simp only [Array.getD_eq_getD_getElem?, Array.getElem?_map]
      cases U[t]? <;> rfl
    rw [hrow]
    have h1 := WRel.succ_of_set c t w w' h (v * D.getD t 0) l
    unfold srowL
    rw [List.foldl_map]
    exact fold_add_rel c lfil t (v * D.getD t 0) l (U.getD t []) hU _ _ h1

theorem ilukRow_scale (c : K) (hc : c ≠ 0) (lfil n : Nat) (S : IlukState K) (hU : ∀ k, ∀ e ∈ S.U.getD k [], k < e.1)
    (i : Nat) (r : Row K) :
    ilukRow lfil n (scaleIlukState c S) i (srow c r) = SetupOutcome.map (scaleIlukState c) (ilukRow lfil n S i r) := by
  unfold ilukRow
  simp only []
  -- the initial working rows
  have h0 : WRel c 0 (r.foldl (fun w cv => ilukAdd lfil w cv.1 cv.2 0) (Array.replicate n none))
      ((srow c r).foldl (fun w cv => ilukAdd lfil w cv.1 cv.2 0) (Array.replicate n none)) := by
    unfold srow
    rw [List.foldl_map]
    apply fold_init_rel
    refine ⟨rfl, ?_⟩
    intro col
    by_cases hcol : col < n
    · simp [Array.getD, hcol]
    · simp [Array.getD, hcol]
  -- the pivot loop
  have hp : ∀ (len t : Nat) (w w' : IlukRow K), WRel c t w w' →
      WRel c (t + len) ((List.range' t len).foldl (ilukPivot lfil S.U S.D) w)
        ((List.range' t len).foldl (ilukPivot lfil (scaleIlukState c S).U (scaleIlukState c S).D) w') := by
    intro len
    induction len with
    | zero => intro t w w' h; simpa using h
    | succ m ih =>
      intro t w w' h
      rw [List.range'_succ]
      simp only [List.foldl_cons]
      have := ih (t + 1) _ _ (ilukPivot_rel c hc lfil S.U S.D (S.D.map (fun d => d * c⁻¹))
        (fun k => getD_map_mul c⁻¹ S.D k) t (hU t) w w' h)
      rw [show t + (m + 1) = t + 1 + m by omega]
      exact this
  have hfin := hp i 0 _ _ h0
  rw [Nat.zero_add, ← List.range_eq_range'] at hfin
  generalize (List.range i).foldl (ilukPivot lfil S.U S.D)
    (r.foldl (fun w cv => ilukAdd lfil w cv.1 cv.2 0) (Array.replicate n none)) = w at hfin ⊢
  generalize (List.range i).foldl (ilukPivot lfil (scaleIlukState c S).U (scaleIlukState c S).D)
    ((srow c r).foldl (fun w cv => ilukAdd lfil w cv.1 cv.2 0) (Array.replicate n none)) = w' at hfin ⊢
  have hi := hfin.val i
  cases hw : w.getD i none with
  | none =>
    rw [hw] at hi
    simp only [Option.map_none] at hi
    rw [hi]; rfl
  | some vl =>
    obtain ⟨d, l⟩ := vl
    rw [hw] at hi
    simp only [Option.map_some, if_neg (Nat.lt_irrefl i)] at hi
    rw [hi]
    simp only [SetupOutcome.map, scaleIlukState, Array.map_push]
    congr 2
    · congr 1
      apply List.filterMap_congr
      intro col hcol
      rw [hfin.val col]
      have : col < i := List.mem_range.mp hcol
      cases w.getD col none <;> simp [this]
    · congr 1
      unfold srowL
      rw [List.map_filterMap]
      apply List.filterMap_congr
      intro col _
      by_cases hic : i < col
      · rw [if_pos hic, if_pos hic, hfin.val col]
        have : ¬ col < i := by omega
        cases w.getD col none <;> simp [this]
      · rw [if_neg hic, if_neg hic]; rfl
    · rw [one_div, one_div, mul_inv]

/-- invariant of the constructor loop needed by the simulation: finished `U` rows are strictly upper -/
structure IlukScInv (S : IlukState K) (i : Nat) : Prop where
  sizeU : S.U.size = i
  upper : ∀ k, ∀ e ∈ S.U.getD k [], k < e.1

theorem IlukScInv.step (lfil n : Nat) (S S' : IlukState K) (i : Nat) (r : Row K) (h : IlukScInv S i)
    (hr : ilukRow lfil n S i r = .ok S') : IlukScInv S' (i + 1) := by
  unfold ilukRow at hr
  simp only [] at hr
  split at hr
  · cases hr
  · injection hr with hr
    subst hr
    refine ⟨by simp [h.sizeU], ?_⟩
    intro k e he
    simp only [] at he
    by_cases hk : k < S.U.size
    · rw [getD_push_lt _ _ _ _ hk] at he; exact h.upper k e he
    · by_cases hk' : k = S.U.size
      · subst hk'
        rw [getD_push_eq] at he
        obtain ⟨col, _, hcol⟩ := List.mem_filterMap.mp he
        by_cases hic : i < col
        · rw [if_pos hic] at hcol
          obtain ⟨x, _, hx⟩ := Option.map_eq_some_iff.mp hcol
          rw [← hx, h.sizeU]; exact hic
        · rw [if_neg hic] at hcol; cases hcol
      · rw [getD_of_size_le _ _ _ (by simp; omega)] at he; cases he

theorem ilukLoop_scale (c : K) (hc : c ≠ 0) (lfil : Nat) (A : CRS K) (len i : Nat) (S : IlukState K) (h : IlukScInv S i) :
    ilukLoop lfil (scale A c) (List.range' i len) (scaleIlukState c S)
      = SetupOutcome.map (scaleIlukState c) (ilukLoop lfil A (List.range' i len) S) := by
  induction len generalizing i S with
  | zero => simp [ilukLoop, SetupOutcome.map]
  | succ m ih =>
    rw [List.range'_succ]
    unfold ilukLoop
    rw [scale_nrows', scale_row', ilukRow_scale c hc lfil A.nrows S h.upper i (A.row i)]
    cases hr : ilukRow lfil A.nrows S i (A.row i) with
    | precondition => simp [SetupOutcome.map]
    | undefinedInput => simp [SetupOutcome.map]
    | ok S' =>
      simp only [SetupOutcome.map]
      exact ih (i + 1) S' (IlukScInv.step lfil A.nrows S S' i (A.row i) h hr)

/-- **ILU(k) of `c·A`** (`c ≠ 0`, NO hypothesis on `A`): same outcome, factors `L`, `c·U`, `c⁻¹·D` -/
theorem ilukFactor_scale (c : K) (hc : c ≠ 0) (lfil : Nat) (A : CRS K) :
    ilukFactor lfil (scale A c) = SetupOutcome.map (scaleFactors c) (ilukFactor lfil A) := by
  unfold ilukFactor
  have h0 : IlukScInv ({ L := #[], U := #[], D := #[] } : IlukState K) 0 :=
    ⟨rfl, fun k e he => by simp [Array.getD] at he⟩
  have := ilukLoop_scale c hc lfil A A.nrows 0 _ h0
  rw [← List.range_eq_range'] at this
  have e0 : scaleIlukState c ({ L := #[], U := #[], D := #[] } : IlukState K) = { L := #[], U := #[], D := #[] } := by
    simp [scaleIlukState]
  rw [e0] at this
  rw [scale_nrows', this]
  cases ilukLoop lfil A (List.range A.nrows) { L := #[], U := #[], D := #[] } with
  | precondition => rfl
  | undefinedInput => rfl
  | ok S =>
    simp only [SetupOutcome.map, scaleFactors, scaleIlukState, Array.map_map]
    have hfg : ((fun r : IlukURow K => List.map (fun e => (e.1, e.2.1)) r) ∘ srowL c)
        = (srow c ∘ fun r : IlukURow K => List.map (fun e => (e.1, e.2.1)) r) := by
      funext r
      simp [srowL, srow, List.map_map, Function.comp_def]
    rw [hfg]

end

end Relax
end Amgcl
