import Amgcl.Model.DistAmg
import Amgcl.Proofs.Lockstep
/-!
The distributed primitives of the multigrid cycle in "slice" form: applied to the slices of serial vectors they
return the slices of the serial result (C11's `mulRank_eq` / `residualRank_eq` rank by rank), and the refinement
notion for a smoother sweep with its instances damped Jacobi / SPAI-0.
-/
namespace Amgcl.DistAmg
open Amgcl Amgcl.Dist Amgcl.Lockstep

section
variable {K : Type} [CommRing K] [DecidableEq K]

omit [CommRing K] [DecidableEq K] in
theorem splitVec_length (x : Vec K) (p : List Nat) : (splitVec x p).length = p.length := by
  unfold splitVec; simp

/-- `distributed_matrix::mul` on the slices = slices of the serial `spmv` (rows by `rp`, columns by `cp`) -/
theorem distSpmv_split (α β : K) (A : CRS K) (rp cp : List Nat) (hP : PartOK A rp cp) (x y : Vec K)
    (hx : x.size = cp.sum) (hy : y.size = rp.sum) :
    distSpmv α (split A rp cp) cp (splitVec x cp) β (splitVec y rp) = splitVec (spmv α A x β y) rp := by
  unfold distSpmv
  simp only
  rw [split_length]
  show _ = (List.range rp.length).map (vecPart (spmv α A x β y) rp)
  apply List.map_congr_left
  intro r hr
  have hr' := List.mem_range.1 hr
  rw [split_getD A rp cp r hr', splitVec_getD x cp r (by rw [← hP.len]; exact hr'), splitVec_getD y rp r hr']
  exact mulRank_eq α β A rp cp hP x y (by rw [hx, hP.cols]) (by rw [hy, hP.rows]) r hr'

/-- `distributed_matrix::residual` on the slices = slices of the serial `residual` -/
theorem distResidual_split (A : CRS K) (rp cp : List Nat) (hP : PartOK A rp cp) (f x : Vec K)
    (hx : x.size = cp.sum) (hf : f.size = rp.sum) :
    distResidual (splitVec f rp) (split A rp cp) cp (splitVec x cp) = splitVec (residual f A x) rp := by
  unfold distResidual
  simp only
  rw [split_length]
  show _ = (List.range rp.length).map (vecPart (residual f A x) rp)
  apply List.map_congr_left
  intro r hr
  have hr' := List.mem_range.1 hr
  rw [split_getD A rp cp r hr', splitVec_getD x cp r (by rw [← hP.len]; exact hr'), splitVec_getD f rp r hr']
  exact residualRank_eq A rp cp hP f x (by rw [hx, hP.cols]) (by rw [hf, hP.rows]) r hr'

omit [DecidableEq K] in
theorem size_residual (f : Vec K) (A : CRS K) (x : Vec K) : (residual f A x).size = A.nrows := by
  simp [residual]

omit [CommRing K] [DecidableEq K] in
theorem map_eq_map_range {α β : Type} (g : α → β) (l : List α) (z : α) :
    l.map g = (List.range l.length).map (fun r => g (l.getD r z)) := by
  apply List.ext_getElem?
  intro i
  rw [List.getElem?_map, List.getElem?_map]
  by_cases hi : i < l.length
  · rw [List.getElem?_range hi, List.getElem?_eq_getElem hi]
    simp [List.getD_eq_getElem?_getD, List.getElem?_eq_getElem hi]
  · rw [List.getElem?_eq_none (Nat.le_of_not_lt hi), List.getElem?_eq_none (by simpa using hi)]
    rfl

/-- clearing every rank's slice = slices of the cleared vector -/
theorem dclear_split (p : List Nat) : (dclear p : DVec K) = splitVec (vclear p.sum) p := by
  unfold dclear splitVec
  rw [map_eq_map_range _ p 0]
  apply List.map_congr_left
  intro r hr
  have hr' := List.mem_range.1 hr
  apply eq_vecPart _ _ p r hr' (by simp [vclear]) (by simp [vclear])
  intro i hi
  unfold vclear
  rw [getD_ofFn_lt _ _ _ hi, getD_ofFn_lt _ _ _ (glob_lt p r i hr' hi)]

omit [DecidableEq K] in
theorem size_vclear (n : Nat) : (vclear n : Vec K).size = n := by simp [vclear]

/-- `backend::clear(x)` rank by rank on the slices -/
theorem map_clear_split (x : Vec K) (p : List Nat) (hx : x.size = p.sum) :
    (splitVec x p).map (fun v => (vclear v.size : Vec K)) = splitVec (vclear x.size) p := by
  unfold splitVec
  rw [List.map_map]
  apply List.map_congr_left
  intro r hr
  exact clear_part x p r (List.mem_range.1 hr) hx

/-- `backend::copy(rhs, x)` rank by rank on the slices -/
theorem map_copy_split (x : Vec K) (p : List Nat) (hx : x.size = p.sum) :
    (splitVec x p).map vcopy = splitVec (vcopy x) p := by
  unfold splitVec
  rw [List.map_map]
  apply List.map_congr_left
  intro r hr
  exact copy_part x p r (List.mem_range.1 hr) hx

/-! ### sweeps -/

/-- a distributed sweep refines a serial one: on the slices of `(rhs, x, tmp)` it returns the slices of the serial
`(x', tmp')` (both of the level's size) -/
def SweepRef (dsw : DSweep K) (sw : Relax.Sweep K) (p : List Nat) : Prop :=
  ∀ f x t : Vec K, f.size = p.sum → x.size = p.sum → t.size = p.sum →
    dsw (splitVec f p) (splitVec x p) (splitVec t p) = (splitVec (sw f x t).1 p, splitVec (sw f x t).2 p)
    ∧ (sw f x t).1.size = p.sum ∧ (sw f x t).2.size = p.sum

omit [CommRing K] [DecidableEq K] in
theorem dsweeps_ref (dsw : DSweep K) (sw : Relax.Sweep K) (p : List Nat) (h : SweepRef dsw sw p) (n : Nat)
    (f x t : Vec K) (hf : f.size = p.sum) (hx : x.size = p.sum) (ht : t.size = p.sum) :
    dsweeps dsw n (splitVec f p) (splitVec x p) (splitVec t p)
      = (splitVec (Amg.sweeps sw n f x t).1 p, splitVec (Amg.sweeps sw n f x t).2 p)
    ∧ (Amg.sweeps sw n f x t).1.size = p.sum ∧ (Amg.sweeps sw n f x t).2.size = p.sum := by
  induction n generalizing x t with
  | zero => exact ⟨rfl, hx, ht⟩
  | succ n ih =>
    obtain ⟨e, s1, s2⟩ := h f x t hf hx ht
    have := ih (sw f x t).1 (sw f x t).2 s1 s2
    unfold dsweeps Amg.sweeps at this ⊢
    rw [Amg.iter, Amg.iter]
    simp only
    rw [e]
    exact this

/-- damped Jacobi / SPAI-0 (`x += ω M .* (rhs − A x)`): the distributed sweep with every rank holding its slice of
`M` refines the serial sweep with the whole `M` -/
theorem distDiagSweep_ref (ω : K) (M : Vec K) (A : CRS K) (p : List Nat) (hP : PartOK A p p) (hM : M.size = p.sum) :
    SweepRef (distDiagSweep ω (splitVec M p) (split A p p) p)
      (fun f x _t => (vmul ω M (residual f A x) 1 x, residual f A x)) p := by
  intro f x t hf hx _
  have hrs : (residual f A x).size = p.sum := by rw [size_residual, hP.rows]
  refine ⟨?_, by simp only; rw [size_vmul, hM], hrs⟩
  unfold distDiagSweep
  simp only
  rw [distResidual_split A p p hP f x hx hf, split_length]
  congr 1
  unfold splitVec
  apply List.map_congr_left
  intro r hr
  have hr' := List.mem_range.1 hr
  rw [getD_map_range _ _ _ _ hr', getD_map_range _ _ _ _ hr', getD_map_range _ _ _ _ hr']
  have hMs := vecPart_size M p r hr' (by rw [hM])
  apply eq_vecPart _ _ p r hr' (by rw [size_vmul, hM]) (by rw [size_vmul, hMs])
  intro i hi
  rw [getD_vmul _ _ _ _ _ _ (by rw [hMs]; exact hi), getD_vmul _ _ _ _ _ _ (by rw [hM]; exact glob_lt p r i hr' hi),
    part_getD M p r i hr' hM hi, part_getD _ p r i hr' hrs hi, part_getD x p r i hr' hx hi]

end
end Amgcl.DistAmg
