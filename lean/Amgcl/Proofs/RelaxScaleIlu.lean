import Amgcl.Proofs.RelaxIlu0
import Amgcl.Proofs.RowGet
import Amgcl.Proofs.DistMisc
import Mathlib.Data.List.Forall2
/-!
# ILU(0) of `c·A`: simulation of the factorisation loop of `ilu0.hpp` run on `A` and on `scale A c`

Invariant (row by row, slot by slot): the run on `c·A` keeps, in every slot of the current row,
* the SAME multiplier `tl` in the slots of the columns already eliminated (`tl = (w·c)·(D·c⁻¹)`),
* `c ·` the value of the run on `A` in all the other slots,
and the finished factors are `L`, `c·U`, `c⁻¹·D` (`D` being the stored, i.e. INVERTED, pivots).
Needs strictly increasing columns in every row (the pointer table is then the inverse of the column list and an update
never touches a slot that already holds a multiplier) — the same hypothesis as `C06.ilu0_on_pattern`.
-/
namespace Amgcl
namespace Relax
open Finset

section scale
variable {K : Type} [Field K] [DecidableEq K]

/-- a row with all values multiplied by `c` (what `backend::scale` does to a row) -/
def srow (c : K) (r : Row K) : Row K := r.map (fun cv => (cv.1, cv.2 * c))

/-- the factors of `c·A` in terms of those of `A`: `L` unchanged, `U` times `c`, stored (inverted) pivots times `c⁻¹` -/
def scaleFactors (c : K) (F : IluFactors K) : IluFactors K :=
  { L := F.L, U := { F.U with rows := F.U.rows.map (srow c) }, D := F.D.map (fun d => d * c⁻¹) }

/-- map over the `ok` value of a constructor outcome -/
def SetupOutcome.map {α β : Type} (f : α → β) : SetupOutcome α → SetupOutcome β
  | .ok a => .ok (f a)
  | .precondition => .precondition
  | .undefinedInput => .undefinedInput

@[simp] theorem srow_cols (c : K) (r : Row K) : (srow c r).map (·.1) = r.map (·.1) := by
  simp [srow, List.map_map, Function.comp_def]

theorem rowGet_srow (c : K) (r : Row K) (j : Nat) : rowGet (srow c r) j = rowGet r j * c :=
  rowGet_map_mul_right c r j

theorem iluWork_srow (n : Nat) (c : K) (r : Row K) : iluWork n (srow c r) = iluWork n r := by
  unfold iluWork srow
  rw [List.zipIdx_map, List.foldl_map]
  rfl

theorem getD_map_srow (c : K) (U : Array (Row K)) (k : Nat) : (U.map (srow c)).getD k [] = srow c (U.getD k []) := by
  simp only [Array.getD_eq_getD_getElem?, Array.getElem?_map]
  cases U[k]? <;> rfl

theorem getD_map_mul (c : K) (D : Vec K) (k : Nat) : (D.map (fun d => d * c)).getD k 0 = D.getD k 0 * c := by
  simp only [Array.getD_eq_getD_getElem?, Array.getElem?_map]
  cases D[k]? <;> simp

/-- slot relation during the elimination of a row: the first `t` slots hold multipliers (equal), the others are
scaled by `c` -/
structure SlotRel (c : K) (len t : Nat) (w w' : Array K) : Prop where
  size : w.size = len
  size' : w'.size = len
  low : ∀ p, p < t → p < len → w'.getD p 0 = w.getD p 0
  high : ∀ p, t ≤ p → p < len → w'.getD p 0 = w.getD p 0 * c

/-- slot relation at the end of the elimination of row `i`, by the column of the slot -/
def fac (c : K) (i col : Nat) : K := if col < i then 1 else if col = i then c⁻¹ else c

structure SlotFinal (c : K) (i : Nat) (cs : List Nat) (w w' : Array K) : Prop where
  size : w.size = cs.length
  size' : w'.size = cs.length
  val : ∀ p, p < cs.length → w'.getD p 0 = w.getD p 0 * fac c i (cs.getD p 0)

def OutRel {α β : Type} (R : α → β → Prop) : SetupOutcome α → SetupOutcome β → Prop
  | .ok a, .ok b => R a b
  | .precondition, .precondition => True
  | .undefinedInput, .undefinedInput => True
  | _, _ => False

theorem iluUpdate_scale (c : K) (work : Array (Option Nat)) (cs : List Nat) (hw : WorkOK work cs)
    (hmono : ∀ p p', p < p' → p' < cs.length → cs.getD p 0 < cs.getD p' 0)
    (t : Nat) (ht : t < cs.length) (tl : K) (ur : Row K) (hur : ∀ cv ∈ ur, cs.getD t 0 < cv.1)
    (w w' : Array K) (h : SlotRel c cs.length (t + 1) w w') :
    SlotRel c cs.length (t + 1) (iluUpdate work tl ur w) (iluUpdate work tl (srow c ur) w') := by
  refine ⟨by rw [iluUpdate_size]; exact h.size, by rw [iluUpdate_size]; exact h.size', ?_, ?_⟩
  · intro p hp hpl
    rw [iluUpdate_spec work cs hw tl _ w' h.size' p hpl, iluUpdate_spec work cs hw tl _ w h.size p hpl,
      rowGet_srow, h.low p hp hpl]
    have hz : rowGet ur (cs.getD p 0) = 0 := by
      apply rowGet_zero_of_forall_ne
      intro cv hcv heq
      have h1 := hur cv hcv
      have h2 : cs.getD p 0 ≤ cs.getD t 0 := by
        rcases Nat.lt_or_ge p t with h3 | h3
        · exact Nat.le_of_lt (hmono p t h3 ht)
        · have : p = t := by omega
          rw [this]
      omega
    rw [hz]; ring
  · intro p hp hpl
    rw [iluUpdate_spec work cs hw tl _ w' h.size' p hpl, iluUpdate_spec work cs hw tl _ w h.size p hpl,
      rowGet_srow, h.high p hp hpl]
    ring

theorem iluElim_scale (c : K) (hc : c ≠ 0) (U : Array (Row K)) (D D' : Vec K) (i : Nat)
    (work : Array (Option Nat)) (cs : List Nat) (hw : WorkOK work cs)
    (hmono : ∀ p p', p < p' → p' < cs.length → cs.getD p 0 < cs.getD p' 0)
    (hU : ∀ k, ∀ cv ∈ U.getD k [], k < cv.1) (hD : ∀ k, D'.getD k 0 = D.getD k 0 * c⁻¹)
    (t : Nat) (w w' : Array K) (h : SlotRel c cs.length t w w') :
    OutRel (SlotFinal c i cs) (iluElim U D i work (cs.drop t) w)
      (iluElim (U.map (srow c)) D' i work (cs.drop t) w') := by
  induction hk : cs.length - t generalizing t w w' with
  | zero =>
    have : cs.drop t = [] := List.drop_eq_nil_of_le (by omega)
    rw [this]; simp [iluElim, OutRel]
  | succ k ih =>
    have ht : t < cs.length := by omega
    have hdrop : cs.drop t = cs.getD t 0 :: cs.drop (t + 1) := by
      rw [List.getD_eq_getElem _ _ ht]; exact List.drop_eq_getElem_cons ht
    rw [hdrop]
    have hwt : work.getD (cs.getD t 0) none = some t := hw.of_pos t ht
    simp only [iluElim]
    by_cases hle : i ≤ cs.getD t 0
    · rw [if_pos hle, if_pos hle]
      by_cases hne : cs.getD t 0 ≠ i
      · rw [if_pos hne, if_pos hne]; trivial
      · rw [if_neg hne, if_neg hne]
        have hei : cs.getD t 0 = i := not_not.mp hne
        rw [← hei, hwt]
        simp only []
        have hwt' : w'.getD t 0 = w.getD t 0 * c := h.high t (Nat.le_refl _) ht
        by_cases hz : w.getD t 0 = 0
        · rw [if_pos hz, if_pos (by rw [hwt', hz]; ring)]; trivial
        · rw [if_neg hz, if_neg (by rw [hwt']; exact mul_ne_zero hz hc)]
          refine ⟨by simpa using h.size, by simpa using h.size', ?_⟩
          intro p hp
          by_cases hpt : p = t
          · subst hpt
            rw [getD_setIfInBounds_self _ _ _ _ (by rw [h.size']; exact hp),
              getD_setIfInBounds_self _ _ _ _ (by rw [h.size]; exact hp), hwt']
            unfold fac
            rw [if_neg (by omega), if_pos rfl]
            field_simp
          · rw [getD_setIfInBounds_ne _ _ _ _ _ (Ne.symm hpt), getD_setIfInBounds_ne _ _ _ _ _ (Ne.symm hpt)]
            rcases Nat.lt_or_ge p t with hlt | hge
            · have := hmono p t hlt ht
              unfold fac
              rw [if_pos (by omega), h.low p hlt hp]; ring
            · have hlt : t < p := by omega
              have := hmono t p hlt hp
              unfold fac
              rw [if_neg (by omega), if_neg (by omega), h.high p hge hp]
    · rw [if_neg hle, if_neg hle, hwt]
      simp only []
      have htl : w'.getD t 0 * D'.getD (cs.getD t 0) 0 = w.getD t 0 * D.getD (cs.getD t 0) 0 := by
        rw [h.high t (Nat.le_refl _) ht, hD]; field_simp
      rw [htl, getD_map_srow]
      apply ih (t + 1) _ _ _ (by omega)
      apply iluUpdate_scale c work cs hw hmono t ht _ _ (fun cv hcv => hU _ cv hcv)
      refine ⟨by simpa using h.size, by simpa using h.size', ?_, ?_⟩
      · intro p hp hpl
        by_cases hpt : p = t
        · subst hpt
          rw [getD_setIfInBounds_self _ _ _ _ (by rw [h.size']; exact hpl),
            getD_setIfInBounds_self _ _ _ _ (by rw [h.size]; exact hpl)]
        · rw [getD_setIfInBounds_ne _ _ _ _ _ (Ne.symm hpt), getD_setIfInBounds_ne _ _ _ _ _ (Ne.symm hpt)]
          exact h.low p (by omega) hpl
      · intro p hp hpl
        have hpt : p ≠ t := by omega
        rw [getD_setIfInBounds_ne _ _ _ _ _ (Ne.symm hpt), getD_setIfInBounds_ne _ _ _ _ _ (Ne.symm hpt)]
        exact h.high p (by omega) hpl

/-- the compaction step on related slot lists -/
def EntRel (c : K) (i : Nat) (a b : Nat × K) : Prop := b.1 = a.1 ∧ b.2 = a.2 * fac c i a.1

theorem filter_low_scale (c : K) (hc : c ≠ 0) (i : Nat) (l l' : List (Nat × K)) (h : List.Forall₂ (EntRel c i) l l') :
    l'.filter (fun cv => decide (cv.1 < i) && !(decide (cv.2 = 0)))
      = l.filter (fun cv => decide (cv.1 < i) && !(decide (cv.2 = 0))) := by
  induction h with
  | nil => rfl
  | @cons a b l l' hab _ ih =>
    obtain ⟨a1, a2⟩ := a
    obtain ⟨b1, b2⟩ := b
    obtain ⟨h1, h2⟩ := hab
    simp only at h1 h2
    subst h1
    rw [List.filter_cons, List.filter_cons, ih]
    by_cases hlt : b1 < i
    · have : b2 = a2 := by rw [h2]; unfold fac; rw [if_pos hlt]; ring
      subst this; rfl
    · simp [hlt]

theorem filter_up_scale (c : K) (hc : c ≠ 0) (i : Nat) (l l' : List (Nat × K)) (h : List.Forall₂ (EntRel c i) l l') :
    l'.filter (fun cv => decide (i < cv.1) && !(decide (cv.2 = 0)))
      = srow c (l.filter (fun cv => decide (i < cv.1) && !(decide (cv.2 = 0)))) := by
  induction h with
  | nil => rfl
  | @cons a b l l' hab _ ih =>
    obtain ⟨a1, a2⟩ := a
    obtain ⟨b1, b2⟩ := b
    obtain ⟨h1, h2⟩ := hab
    simp only at h1 h2
    subst h1
    rw [List.filter_cons, List.filter_cons, ih]
    by_cases hlt : i < b1
    · have hb : b2 = a2 * c := by rw [h2]; unfold fac; rw [if_neg (by omega), if_neg (by omega)]
      have hz : (b2 = 0) ↔ (a2 = 0) := by
        rw [hb]; constructor
        · intro h0; rcases mul_eq_zero.mp h0 with h0 | h0
          · exact h0
          · exact absurd h0 hc
        · intro h0; rw [h0]; ring
      by_cases ha : a2 = 0
      · simp [hlt, ha, hz.mpr ha]
      · have hbn : ¬ b2 = 0 := fun hb0 => ha (hz.mp hb0)
        simp [hlt, ha, hc, srow, hb]
    · simp [hlt]

theorem iluRow_scale (c : K) (hc : c ≠ 0) (n : Nat) (U : Array (Row K)) (D D' : Vec K) (i : Nat) (r : Row K)
    (hsorted : K2.StrictCols r) (hlt : ∀ cv ∈ r, cv.1 < n)
    (hU : ∀ k, ∀ cv ∈ U.getD k [], k < cv.1) (hD : ∀ k, D'.getD k 0 = D.getD k 0 * c⁻¹) :
    iluRow n (U.map (srow c)) D' i (srow c r)
      = SetupOutcome.map (fun ldu : Row K × K × Row K => (ldu.1, ldu.2.1 * c⁻¹, srow c ldu.2.2)) (iluRow n U D i r) := by
  have hnd : (r.map (·.1)).Nodup := hsorted.nodup
  have hw : WorkOK (iluWork n r) (r.map (·.1)) := iluWork_ok n r hnd hlt
  have hmono : ∀ p p', p < p' → p' < (r.map (·.1)).length →
      (r.map (·.1)).getD p 0 < (r.map (·.1)).getD p' 0 :=
    fun p p' h1 h2 => strictCols_mono r hsorted p p' h1 (by simpa using h2)
  have h0 : SlotRel c (r.map (·.1)).length 0 (r.map (·.2)).toArray ((srow c r).map (·.2)).toArray := by
    refine ⟨by simp, by simp [srow], fun p hp => absurd hp (by omega), ?_⟩
    intro p _ hp
    have hp' : p < r.length := by simpa using hp
    simp [srow, Array.getD, hp', List.map_map]
  have hel := iluElim_scale c hc U D D' i (iluWork n r) (r.map (·.1)) hw hmono hU hD 0 _ _ h0
  rw [List.drop_zero] at hel
  unfold iluRow
  simp only [iluWork_srow, srow_cols]
  cases he : iluElim U D i (iluWork n r) (r.map (·.1)) (r.map (·.2)).toArray with
  | precondition =>
    rw [he] at hel
    cases he' : iluElim (U.map (srow c)) D' i (iluWork n r) (r.map (·.1)) ((srow c r).map (·.2)).toArray <;>
      rw [he'] at hel <;> simp [OutRel] at hel
    rfl
  | undefinedInput =>
    rw [he] at hel
    cases he' : iluElim (U.map (srow c)) D' i (iluWork n r) (r.map (·.1)) ((srow c r).map (·.2)).toArray <;>
      rw [he'] at hel <;> simp [OutRel] at hel
    rfl
  | ok w =>
    rw [he] at hel
    cases he' : iluElim (U.map (srow c)) D' i (iluWork n r) (r.map (·.1)) ((srow c r).map (·.2)).toArray with
    | precondition => rw [he'] at hel; simp [OutRel] at hel
    | undefinedInput => rw [he'] at hel; simp [OutRel] at hel
    | ok w' =>
      rw [he'] at hel
      have hf : SlotFinal c i (r.map (·.1)) w w' := hel
      simp only [SetupOutcome.map]
      have hents : List.Forall₂ (EntRel c i) ((r.map (·.1)).zip w.toList) ((r.map (·.1)).zip w'.toList) := by
        rw [List.forall₂_iff_get]
        refine ⟨by simp [List.length_zip, hf.size, hf.size'], ?_⟩
        intro p h1 h2
        have hp : p < (r.map (·.1)).length := by
          simp only [List.length_zip] at h1; omega
        have hv := hf.val p hp
        rw [List.getD_eq_getElem _ _ hp] at hv
        have hpw : p < w.size := by rw [hf.size]; exact hp
        have hpw' : p < w'.size := by rw [hf.size']; exact hp
        simp only [Array.getD, hpw, hpw', dite_true] at hv
        simp only [List.get_eq_getElem, List.getElem_zip, EntRel, Array.getElem_toList, true_and]
        exact hv
      congr 1
      refine Prod.ext (filter_low_scale c hc i _ _ hents) (Prod.ext ?_ (filter_up_scale c hc i _ _ hents))
      simp only []
      cases hwi : (iluWork n r).getD i none with
      | none => simp
      | some p =>
        simp only []
        obtain ⟨hp, hcol⟩ := hw.of_col _ _ hwi
        have hv := hf.val p hp
        rw [hcol] at hv
        rw [hv]; unfold fac; rw [if_neg (by omega), if_pos rfl]

theorem scale_nrows' (A : CRS K) (c : K) : (scale A c).nrows = A.nrows := by
  simp [scale, CRS.nrows]

theorem scale_row' (A : CRS K) (c : K) (i : Nat) : (scale A c).row i = srow c (A.row i) :=
  Dist.scale_row A c i

theorem iluLoop_scale (c : K) (hc : c ≠ 0) (A : CRS K) (hs : ∀ i, K2.StrictCols (A.row i))
    (hwf : ∀ i, ∀ cv ∈ A.row i, cv.1 < A.nrows) (len i : Nat) (F : IluFactors K) (hinv : IluInv A F i) :
    iluLoop (scale A c) (List.range' i len) (scaleFactors c F)
      = SetupOutcome.map (scaleFactors c) (iluLoop A (List.range' i len) F) := by
  induction len generalizing i F with
  | zero => simp [iluLoop, SetupOutcome.map]
  | succ m ih =>
    rw [List.range'_succ]
    unfold iluLoop
    have hU : ∀ k, ∀ cv ∈ F.U.rows.getD k [], k < cv.1 := by
      intro k cv hcv
      by_cases hk : k < i
      · exact (hinv.upper k hk cv hcv).1
      · rw [getD_of_size_le _ _ _ (by rw [hinv.sizeU]; omega)] at hcv; cases hcv
    have hrow := iluRow_scale c hc A.nrows F.U.rows F.D (F.D.map (fun d => d * c⁻¹)) i (A.row i) (hs i) (hwf i) hU
      (fun k => getD_map_mul c⁻¹ F.D k)
    rw [scale_nrows', scale_row']
    show (match iluRow A.nrows (F.U.rows.map (srow c)) (F.D.map (fun d => d * c⁻¹)) i (srow c (A.row i)) with
      | .ok (l, d, u) => _ | .precondition => _ | .undefinedInput => _) = _
    rw [hrow]
    cases hr : iluRow A.nrows F.U.rows F.D i (A.row i) with
    | precondition => simp [SetupOutcome.map]
    | undefinedInput => simp [SetupOutcome.map]
    | ok ldu =>
      obtain ⟨l, d, u⟩ := ldu
      simp only [SetupOutcome.map]
      have := ih (i + 1) _ (IluInv.step A hs hwf F i hinv l u d hr)
      simp only [scaleFactors, Array.map_push] at this ⊢
      exact this

/-- **ILU(0) of `c·A`** (`c ≠ 0`, rows sorted): same outcome; on success the factors are `L`, `c·U`, `c⁻¹·D` -/
theorem ilu0Factor_scale (c : K) (hc : c ≠ 0) (A : CRS K) (hA : A.WF) (hsq : A.ncols = A.nrows)
    (hs : A.sortedb = true) :
    ilu0Factor (scale A c) = SetupOutcome.map (scaleFactors c) (ilu0Factor A) := by
  have hs' := K2.sortedb_iff.mp hs
  have hwf : ∀ i, ∀ cv ∈ A.row i, cv.1 < A.nrows := by
    intro i cv hcv; rw [← hsq]; exact K2.row_col_lt hA i hcv
  have h0 : IluInv A ({ L := ⟨A.nrows, #[]⟩, U := ⟨A.nrows, #[]⟩, D := #[] } : IluFactors K) 0 :=
    ⟨rfl, rfl, rfl, fun k hk => absurd hk (by omega), fun k hk => absurd hk (by omega),
     fun k hk => absurd hk (by omega), fun k hk => absurd hk (by omega), fun k hk => absurd hk (by omega),
     fun k hk => absurd hk (by omega), fun k hk => absurd hk (by omega)⟩
  have := iluLoop_scale c hc A hs' hwf A.nrows 0 _ h0
  unfold ilu0Factor
  rw [scale_nrows', List.range_eq_range']
  simpa [scaleFactors] using this

/-! ### the triangular solve and the sweep with the factors of `c·A` -/

/-- `c·v` entrywise -/
def vsmul (c : K) (v : Vec K) : Vec K := Array.ofFn (n := v.size) (fun i => c * v.getD i 0)

@[simp] theorem vsmul_size (c : K) (v : Vec K) : (vsmul c v).size = v.size := by simp [vsmul]

theorem getD_vsmul (c : K) (v : Vec K) (i : Nat) : (vsmul c v).getD i 0 = c * v.getD i 0 := by
  unfold vsmul
  rw [getD_ofFn]
  by_cases hi : i < v.size
  · simp [hi]
  · rw [dif_neg hi, getD_of_size_le _ _ _ (by omega)]; ring

theorem vsmul_eq_vlin (c : K) (v : Vec K) : vsmul c v = vlin c v 0 v := by
  apply ext_getD' (0 : K) (by simp)
  intro i
  rw [getD_vsmul, getD_vlin _ _ _ _ rfl]; ring

theorem scaleFactors_U_row (c : K) (F : IluFactors K) (i : Nat) : (scaleFactors c F).U.row i = srow c (F.U.row i) := by
  unfold scaleFactors CRS.row
  exact getD_map_srow c F.U.rows i

theorem scaleFactors_strictUpper (c : K) (F : IluFactors K) (h : strictUpperb F.U = true) :
    strictUpperb (scaleFactors c F).U = true := by
  unfold strictUpperb at h ⊢
  have hn : (scaleFactors c F).U.nrows = F.U.nrows := by simp [scaleFactors, CRS.nrows]
  rw [hn]
  rw [List.all_eq_true] at h ⊢
  intro i hi
  have := h i hi
  rw [scaleFactors_U_row]
  rw [List.all_eq_true] at this ⊢
  intro cv hcv
  unfold srow at hcv
  obtain ⟨a, ha, rfl⟩ := List.mem_map.mp hcv
  exact this a ha

theorem scaleFactors_U_wf (c : K) (F : IluFactors K) (h : F.U.WF) : (scaleFactors c F).U.WF := by
  intro r hr cv hcv
  simp only [scaleFactors, Array.toList_map] at hr
  obtain ⟨r0, hr0, rfl⟩ := List.mem_map.mp hr
  unfold srow at hcv
  obtain ⟨a, ha, rfl⟩ := List.mem_map.mp hcv
  exact h r0 hr0 a ha

theorem rowDot_srow (c : K) (r : Row K) (z z' : Vec K) (h : ∀ cv ∈ r, z'.getD cv.1 0 = c⁻¹ * z.getD cv.1 0)
    (hc : c ≠ 0) : rowDot (srow c r) z' = rowDot r z := by
  rw [rowDot_eq_listSum, rowDot_eq_listSum]
  unfold srow
  rw [List.map_map]
  congr 1
  apply List.map_congr_left
  intro cv hcv
  simp only [Function.comp]
  rw [h cv hcv]; field_simp

/-- **the triangular solve with the factors of `c·A` is `c⁻¹ ·` the triangular solve with the factors of `A`** -/
theorem iluSolve_scale (c : K) (hc : c ≠ 0) (F : IluFactors K) (hU : strictUpperb F.U = true) (hUwf : F.U.WF)
    (hn : F.U.nrows = F.L.nrows) (hcn : F.U.ncols = F.L.nrows) (b : Vec K) (hb : b.size = F.L.nrows) :
    iluSolve (scaleFactors c F) b = vsmul c⁻¹ (iluSolve F b) := by
  have hL : (scaleFactors c F).L = F.L := rfl
  have hlow : (List.range (scaleFactors c F).L.nrows).foldl (lowStep (scaleFactors c F)) b
      = (List.range F.L.nrows).foldl (lowStep F) b := rfl
  set y := (List.range F.L.nrows).foldl (lowStep F) b with hy
  have hys : y.size = F.L.nrows := by rw [hy, fold_size _ (lowStep_size F)]; exact hb
  have hn' : (scaleFactors c F).U.nrows = (scaleFactors c F).L.nrows := by
    show (scaleFactors c F).U.nrows = F.L.nrows
    rw [← hn]; simp [scaleFactors, CRS.nrows]
  have e1 : iluSolve (scaleFactors c F) b = (List.range F.L.nrows).reverse.foldl (upStep (scaleFactors c F)) y := by
    rw [iluSolve_eq, hlow]; rfl
  have e2 : iluSolve F b = (List.range F.L.nrows).reverse.foldl (upStep F) y := by rw [iluSolve_eq]
  have s1 : ∀ i, i < F.L.nrows → (iluSolve (scaleFactors c F) b).getD i 0
      = (scaleFactors c F).D.getD i 0 * (y.getD i 0 - rowDot ((scaleFactors c F).U.row i) (iluSolve (scaleFactors c F) b)) := by
    rw [e1]
    exact upPhase_spec (scaleFactors c F) (scaleFactors_strictUpper c F hU) (scaleFactors_U_wf c F hUwf) hn'
      (by show F.U.ncols = F.L.nrows; exact hcn) y hys
  have s2 := upPhase_spec F hU hUwf hn hcn y hys
  rw [← e2] at s2
  have hD : ∀ i, (scaleFactors c F).D.getD i 0 = F.D.getD i 0 * c⁻¹ := fun i => getD_map_mul c⁻¹ F.D i
  have key : ∀ k i, F.L.nrows - k ≤ i → i < F.L.nrows →
      (iluSolve (scaleFactors c F) b).getD i 0 = c⁻¹ * (iluSolve F b).getD i 0 := by
    intro k
    induction k with
    | zero => intro i h1 h2; omega
    | succ k ih =>
      intro i h1 h2
      rw [s1 i h2, s2 i h2, hD, scaleFactors_U_row]
      have hrow := strictUpper_row hU i (by omega)
      rw [rowDot_srow c (F.U.row i) (iluSolve F b) _ (fun cv hcv => by
        by_cases hlt : cv.1 < F.L.nrows
        · exact ih cv.1 (by have := hrow cv hcv; omega) hlt
        · rw [getD_of_size_le _ _ _ (by rw [iluSolve_size, hb]; omega),
            getD_of_size_le _ _ _ (by rw [iluSolve_size, hb]; omega)]; ring) hc]
      ring
  apply ext_getD' (0 : K) (by simp)
  intro i
  rw [getD_vsmul]
  by_cases hi : i < F.L.nrows
  · exact key F.L.nrows i (by omega) hi
  · rw [getD_of_size_le _ _ _ (by rw [iluSolve_size, hb]; omega),
      getD_of_size_le _ _ _ (by rw [iluSolve_size, hb]; omega)]; ring

theorem rowDot_srow_same (c : K) (r : Row K) (x : Vec K) : rowDot (srow c r) x = c * rowDot r x := by
  rw [rowDot_eq_listSum, rowDot_eq_listSum, ← List.sum_map_mul_left]
  unfold srow
  rw [List.map_map]
  congr 1
  apply List.map_congr_left
  intro cv _
  simp only [Function.comp]; ring

theorem residual_scale (c : K) (A : CRS K) (f x : Vec K) :
    residual (vsmul c f) (scale A c) x = vsmul c (residual f A x) := by
  apply ext_getD' (0 : K) (by simp [scale_nrows'])
  intro i
  rw [getD_vsmul]
  by_cases hi : i < A.nrows
  · rw [getD_residual _ _ _ _ (by rw [scale_nrows']; exact hi), getD_residual _ _ _ _ hi, scale_row', rowDot_srow_same,
      getD_vsmul]; ring
  · rw [getD_of_size_le _ _ _ (by simp [scale_nrows']; omega), getD_of_size_le _ _ _ (by simp; omega)]; ring

/-- **`N(cA) = c⁻¹ N(A)` for the ILU sweep**, in the form "the sweep for `(cA, c f)` from `x` is the sweep for `(A, f)`
from `x`" (new iterate AND the scratch vector up to the factor: `tmp' = solve(f − A x)` in both) -/
theorem iluSweep_scale (c : K) (hc : c ≠ 0) (ω : K) (F : IluFactors K) (A : CRS K) (hU : strictUpperb F.U = true)
    (hUwf : F.U.WF) (hn : F.U.nrows = F.L.nrows) (hcn : F.U.ncols = F.L.nrows) (hA : A.nrows = F.L.nrows)
    (f x t t' : Vec K) :
    iluSweep ω (scaleFactors c F) (scale A c) (vsmul c f) x t = iluSweep ω F A f x t' := by
  unfold iluSweep
  rw [residual_scale, iluSolve_scale c hc F hU hUwf hn hcn _ (by simp [hA]), vsmul_eq_vlin c,
    iluSolve_vlin F c 0 _ _ rfl, ← vsmul_eq_vlin]
  have : vsmul c⁻¹ (vsmul c (iluSolve F (residual f A x))) = iluSolve F (residual f A x) := by
    apply ext_getD' (0 : K) (by simp)
    intro i
    rw [getD_vsmul, getD_vsmul]; field_simp
  rw [this]

end scale

end Relax
end Amgcl
