import Amgcl.Proofs.QRCompute
import Mathlib.Analysis.Real.Sqrt
/-!
With a true square root (`Real.sqrt` on `ℝ`) the hypothesis `ExactRoots` of the QR theorems holds for every input: the
numbers `sqrt` is applied to are sums of squares.
-/
namespace Amgcl
namespace QRModel

theorem exactRoots_real_sqrt (m n rs cs : Nat) (A tau0 : Array ℝ) : ExactRoots Real.sqrt m n rs cs A tau0 := by
  intro i _ _
  apply Real.mul_self_sqrt
  unfold sqrtArg
  rw [sqrQ_absQ, xnorm2_eq]
  exact add_nonneg (mul_self_nonneg _) (Finset.sum_nonneg (fun _ _ => mul_self_nonneg _))

end QRModel
end Amgcl
