import Amgcl.Model.SolverGMRESC
import Amgcl.Proofs.SolverGMRES
import Amgcl.Proofs.SolverFGMRES
/-!
Lemmas about the `conj`-parametrised GMRES / FGMRES models (`Model/SolverGMRESC.lean`):

* at `conj = id` they ARE the real-valued models (`GMRES.runC_id`, `FGMRES.runC_id`, function by function);
* the control-flow facts behind truthfulness (`finalC_inv`: the returned state has just been through `head`) hold for every
  `conj` — the Givens part is never looked at.
-/
namespace Amgcl.Solver
set_option linter.unusedSectionVars false
set_option linter.unusedSimpArgs false

section givens
variable {K : Type} [Field K] [DecidableEq K] [LT K] [DecidableLT K]

theorem genRotHerm_id (sqrt : K → K) (dx dy : K) : genRotHerm sqrt id absLtK dx dy = genRot sqrt dx dy := by
  unfold genRotHerm genRot absLtK
  by_cases h0 : dy = 0
  · simp [h0]
  · by_cases h1 : absK dx < absK dy <;> simp [h0, h1]

theorem applyRotStar_id (dx dy cs sn : K) : applyRotStar id dx dy cs sn = applyRot dx dy cs sn := rfl

theorem rotColC_id (j : Nat) (H : FArr2 K) (cs sn : FArr K) : rotColC id j H cs sn = rotCol j H cs sn := rfl

theorem rotateC_id (sqrt : K → K) (j : Nat) (h : Hess K) (H2 : FArr2 K) : rotateC id sqrt j h H2 = rotate sqrt j h H2 := by
  unfold rotateC rotate
  simp only [genRotHerm_id, applyRotStar_id, rotColC_id]

theorem hessStepC_id (ip : Vec K → Vec K → K) (sqrt : K → K) (v : FArr (Vec K)) (j : Nat) (h : Hess K) (vnew : Vec K) :
    hessStepC id ip sqrt v j h vnew = hessStep ip sqrt v j h vnew := by
  unfold hessStepC hessStep
  simp only [rotateC_id]

end givens

namespace GMRES
variable {K : Type} [Field K] [DecidableEq K] [LT K] [DecidableLT K]

theorem stepC_id (side : Side) (ip : Vec K → Vec K → K) (sqrt : K → K) (A : CRS K) (P : Vec K → Vec K) :
    stepC id side ip sqrt A P = step side ip sqrt A P := by
  funext t
  unfold stepC step
  simp only [hessStepC_id]

theorem runC_id (prm : Params K) (ip : Vec K → Vec K → K) (sqrt : K → K) (eps : K) (A : CRS K) (P : Vec K → Vec K)
    (ws : Work K) (f x0 : Vec K) : runC id prm ip sqrt eps A P ws f x0 = run prm ip sqrt eps A P ws f x0 := by
  have hi : ∀ e st, innerC id prm ip sqrt A P e st = inner prm ip sqrt A P e st := by
    intro e st; unfold innerC inner; rw [stepC_id]
  have hc : ∀ e st, cycleC id prm ip sqrt A P e st = cycle prm ip sqrt A P e st := by
    intro e st; unfold cycleC cycle; rw [hi]
  have ho : ∀ e n st, outerC id prm ip sqrt A P f e n st = outer prm ip sqrt A P f e n st := by
    intro e n st; unfold outerC outer; simp only [hc]
  cases h : prologueA prm.nsSearch ip sqrt eps f <;> simp only [runC, run, h, ho]

/-- the state at the `break` of the `conj`-parametrised model -/
def finalC (conj : K → K) (prm : Params K) (ip : Vec K → Vec K → K) (sqrt : K → K) (A : CRS K) (P : Vec K → Vec K)
    (ws : Work K) (f x0 : Vec K) (nf : K) : St K :=
  outerC conj prm ip sqrt A P f (epsTol prm nf) prm.maxiter (init prm ip sqrt A P ws f x0)

theorem runC_trivial (conj : K → K) (prm : Params K) (ip : Vec K → Vec K → K) (sqrt : K → K) (eps : K) (A : CRS K)
    (P : Vec K → Vec K) (ws : Work K) (f x0 : Vec K) (n : K)
    (h : prologueA prm.nsSearch ip sqrt eps f = .trivial n) :
    runC conj prm ip sqrt eps A P ws f x0 = (.ok (0, n), vclear x0.size, ws) := by
  simp only [runC, h]

theorem runC_go (conj : K → K) (prm : Params K) (ip : Vec K → Vec K → K) (sqrt : K → K) (eps : K) (A : CRS K)
    (P : Vec K → Vec K) (ws : Work K) (f x0 : Vec K) (nf : K)
    (h : prologueA prm.nsSearch ip sqrt eps f = .go nf) :
    runC conj prm ip sqrt eps A P ws f x0 =
      (.ok ((finalC conj prm ip sqrt A P ws f x0 nf).iter, (finalC conj prm ip sqrt A P ws f x0 nf).normR / nf),
       (finalC conj prm ip sqrt A P ws f x0 nf).x, (finalC conj prm ip sqrt A P ws f x0 nf).w) := by
  simp only [runC, h, finalC, epsTol]

theorem finalC_inv (conj : K → K) (prm : Params K) (ip : Vec K → Vec K → K) (sqrt : K → K) (A : CRS K) (P : Vec K → Vec K)
    (ws : Work K) (f x0 : Vec K) (nf : K) :
    Inv prm.pside ip sqrt A P f (finalC conj prm ip sqrt A P ws f x0 nf) :=
  loopN_inv _ _ _ (fun _ _ _ => head_inv prm.pside ip sqrt A P f _) _ _ (head_inv prm.pside ip sqrt A P f _)

end GMRES

namespace FGMRES
variable {K : Type} [Field K] [DecidableEq K] [LT K] [DecidableLT K]

theorem stepC_id (ip : Vec K → Vec K → K) (sqrt : K → K) (A : CRS K) (P : Vec K → Vec K) :
    stepC id ip sqrt A P = step ip sqrt A P := by
  funext t
  unfold stepC step
  simp only [hessStepC_id]

theorem runC_id (prm : Params K) (ip : Vec K → Vec K → K) (sqrt : K → K) (eps : K) (A : CRS K) (P : Vec K → Vec K)
    (ws : Work K) (f x0 : Vec K) : runC id prm ip sqrt eps A P ws f x0 = run prm ip sqrt eps A P ws f x0 := by
  have hi : ∀ e st, innerC id prm ip sqrt A P e st = inner prm ip sqrt A P e st := by
    intro e st; unfold innerC inner; rw [stepC_id]
  have hc : ∀ e st, cycleC id prm ip sqrt A P e st = cycle prm ip sqrt A P e st := by
    intro e st; unfold cycleC cycle; rw [hi]
  have ho : ∀ e n st, outerC id prm ip sqrt A P f e n st = outer prm ip sqrt A P f e n st := by
    intro e n st; unfold outerC outer; simp only [hc]
  cases h : prologueA prm.nsSearch ip sqrt eps f <;> simp only [runC, run, h, ho]

def finalC (conj : K → K) (prm : Params K) (ip : Vec K → Vec K → K) (sqrt : K → K) (A : CRS K) (P : Vec K → Vec K)
    (ws : Work K) (f x0 : Vec K) (nf : K) : St K :=
  outerC conj prm ip sqrt A P f (epsTol prm nf) prm.maxiter (init ip sqrt A ws f x0)

theorem runC_trivial (conj : K → K) (prm : Params K) (ip : Vec K → Vec K → K) (sqrt : K → K) (eps : K) (A : CRS K)
    (P : Vec K → Vec K) (ws : Work K) (f x0 : Vec K) (n : K)
    (h : prologueA prm.nsSearch ip sqrt eps f = .trivial n) :
    runC conj prm ip sqrt eps A P ws f x0 = (.ok (0, n), vclear x0.size, ws) := by
  simp only [runC, h]

theorem runC_go (conj : K → K) (prm : Params K) (ip : Vec K → Vec K → K) (sqrt : K → K) (eps : K) (A : CRS K)
    (P : Vec K → Vec K) (ws : Work K) (f x0 : Vec K) (nf : K)
    (h : prologueA prm.nsSearch ip sqrt eps f = .go nf) :
    runC conj prm ip sqrt eps A P ws f x0 =
      (.ok ((finalC conj prm ip sqrt A P ws f x0 nf).iter, (finalC conj prm ip sqrt A P ws f x0 nf).normR / nf),
       (finalC conj prm ip sqrt A P ws f x0 nf).x, (finalC conj prm ip sqrt A P ws f x0 nf).w) := by
  simp only [runC, h, finalC, epsTol]

theorem finalC_inv (conj : K → K) (prm : Params K) (ip : Vec K → Vec K → K) (sqrt : K → K) (A : CRS K) (P : Vec K → Vec K)
    (ws : Work K) (f x0 : Vec K) (nf : K) :
    Inv ip sqrt A f (finalC conj prm ip sqrt A P ws f x0 nf) :=
  loopN_inv _ _ _ (fun _ _ _ => head_inv ip sqrt A f _) _ _ (head_inv ip sqrt A f _)

end FGMRES
end Amgcl.Solver
