import Amgcl.Proofs.SolverIDRsTruth
/-!
IDR(s) for `s = 1` (C05): one COMPLETE pass of the `while` body of `Model/SolverIDRs.lean` — the pass returns normally and
does not set `brk`, i.e. `kStep 0` took its non-`break` exit and the `omega` step was executed — in closed form
(`p1c … p1x2`, `body_s1`), without smoothing.  For `s = 1` the triangular solve, the bi-orthogonalisation loop and the
`f`-update loop are empty or have one pass.
-/
namespace Amgcl.Solver.IDRs
open Amgcl Amgcl.Solver
set_option linter.unusedSectionVars false
set_option linter.unusedSimpArgs false
variable {K : Type} [Field K] [DecidableEq K] [LT K] [DecidableLT K]

theorem kc_s1 (prm : Params K) (hs : prm.s = 1) (st : St K) :
    kc prm 0 st 0 = inv1 (st.w.M 0 0) * st.w.f 0 := by
  unfold kc solveC
  rw [hs]
  simp [List.range_succ]

theorem kv_s1 (prm : Params K) (hs : prm.s = 1) (st : St K) :
    kv prm 0 st = axpby (-(inv1 (st.w.M 0 0) * st.w.f 0)) (st.w.G 0) 1 (vcopy st.w.r) := by
  unfold kv solveC
  rw [hs]
  simp [List.range_succ]

theorem kuk1_s1 (prm : Params K) (hs : prm.s = 1) (Prec : Vec K → Vec K) (st : St K) :
    kuk1 prm Prec 0 st = axpby st.om (Prec (kv prm 0 st)) (kc prm 0 st 0) (st.w.U 0) := by
  unfold kuk1
  rw [hs]
  simp [List.range_succ]

theorem kgu_s1 (prm : Params K) (ip : Vec K → Vec K → K) (A : CRS K) (Prec : Vec K → Vec K) (Pv : FArr (Vec K)) (st : St K) :
    kgu prm ip A Prec Pv 0 st = (spmv 1 A (kuk1 prm Prec 0 st) 0 (st.w.G 0), kuk1 prm Prec 0 st) := by
  unfold kgu
  simp

theorem kM_s1 (prm : Params K) (hs : prm.s = 1) (ip : Vec K → Vec K → K) (A : CRS K) (Prec : Vec K → Vec K) (Pv : FArr (Vec K)) (st : St K) :
    (kM prm ip A Prec Pv 0 st) 0 0 = ip (kgu prm ip A Prec Pv 0 st).1 (Pv 0) := by
  unfold kM
  rw [hs]
  simp [List.range_succ]

theorem bodyF_s1 (prm : Params K) (hs : prm.s = 1) (ip : Vec K → Vec K → K) (Pv : FArr (Vec K)) (st : St K) :
    (bodyF prm ip Pv st).w.f 0 = ip st.w.r (Pv 0) ∧ (bodyF prm ip Pv st).w.M = st.w.M ∧
    (bodyF prm ip Pv st).w.G = st.w.G ∧ (bodyF prm ip Pv st).w.U = st.w.U ∧ (bodyF prm ip Pv st).w.r = st.w.r ∧
    (bodyF prm ip Pv st).om = st.om ∧ (bodyF prm ip Pv st).x = st.x ∧ (bodyF prm ip Pv st).iter = st.iter := by
  unfold bodyF
  rw [hs]
  simp [List.range_succ]

/-- a complete pass for `s = 1` goes through the non-`break` exit of `kStep 0` and through the `omega` step -/
theorem body_s1_shape (prm : Params K) (hs : prm.s = 1) (ip : Vec K → Vec K → K) (sqrt : K → K) (A : CRS K)
    (Prec : Vec K → Vec K) (Pv : FArr (Vec K)) (rhs : Vec K) (epsT : K) (st st' : St K)
    (h : body prm ip sqrt A Prec Pv rhs epsT st = .ok st') (hb : st'.brk = false) :
    ∃ st1, kStep prm ip sqrt A Prec Pv epsT 0 (bodyF prm ip Pv st) = .ok (st1, false) ∧
      tail prm ip sqrt A Prec rhs epsT st1 = .ok st' := by
  rw [body_eq, hs] at h
  unfold kLoop at h
  cases hk : kStep prm ip sqrt A Prec Pv epsT 0 (bodyF prm ip Pv st) with
  | error e => rw [hk] at h; cases h
  | ok sb =>
    obtain ⟨s1, b⟩ := sb
    rw [hk] at h
    cases b with
    | false =>
      simp only [kLoop] at h
      exact ⟨s1, rfl, h⟩
    | true =>
      exfalso
      simp only at h
      -- the `break` exits of `kStep` make `tail` set `brk`
      rw [kStep_eq] at hk
      split at hk
      · cases hk
      · split at hk
        · rename_i hres
          cases hk
          unfold tail at h
          rw [if_pos (Or.inl hres)] at h
          cases h
          cases hb
        · split at hk
          · rename_i hmax
            cases hk
            unfold tail at h
            rw [if_pos (Or.inr hmax)] at h
            cases h
            cases hb
          · cases hk

theorem kStep_nobreak (prm : Params K) (ip : Vec K → Vec K → K) (sqrt : K → K) (A : CRS K) (Prec : Vec K → Vec K)
    (Pv : FArr (Vec K)) (epsT : K) (k : Nat) (st st1 : St K)
    (h : kStep prm ip sqrt A Prec Pv epsT k st = .ok (st1, false)) :
    (kM prm ip A Prec Pv k st) k k ≠ 0 ∧
    st1 = { st with iter := st.iter + 1, resNorm := (kpost prm ip sqrt A Prec Pv k st).2,
                    x := kx prm ip A Prec Pv k st,
                    w := { (kpost prm ip sqrt A Prec Pv k st).1 with f := kf prm ip sqrt A Prec Pv k st } } := by
  rw [kStep_eq] at h
  split at h
  · cases h
  · rename_i hM
    split at h
    · cases h
    · split at h
      · cases h
      · cases h
        exact ⟨hM, rfl⟩

theorem tail_nobreak (prm : Params K) (ip : Vec K → Vec K → K) (sqrt : K → K) (A : CRS K) (Prec : Vec K → Vec K)
    (rhs : Vec K) (epsT : K) (st1 st' : St K) (h : tail prm ip sqrt A Prec rhs epsT st1 = .ok st')
    (hb : st'.brk = false) :
    bom prm ip sqrt A Prec st1 ≠ 0 ∧
    st' = { iter := st1.iter + 1,
            resNorm := (post prm ip sqrt (bw2 prm ip sqrt A Prec rhs st1) (bx prm ip sqrt A Prec st1)).2,
            om := bom prm ip sqrt A Prec st1, brk := false, x := bx prm ip sqrt A Prec st1,
            w := (post prm ip sqrt (bw2 prm ip sqrt A Prec rhs st1) (bx prm ip sqrt A Prec st1)).1 } := by
  unfold tail at h
  split at h
  · cases h; cases hb
  · split at h
    · cases h
    · rename_i hom
      cases h
      exact ⟨hom, rfl⟩

/-! closed forms of one complete pass for `s = 1` -/
def p1c (ip : Vec K → Vec K → K) (Pv : FArr (Vec K)) (st : St K) : K := inv1 (st.w.M 0 0) * ip st.w.r (Pv 0)
def p1v (ip : Vec K → Vec K → K) (Pv : FArr (Vec K)) (st : St K) : Vec K :=
  axpby (-(p1c ip Pv st)) (st.w.G 0) 1 (vcopy st.w.r)
def p1u (ip : Vec K → Vec K → K) (Prec : Vec K → Vec K) (Pv : FArr (Vec K)) (st : St K) : Vec K :=
  axpby st.om (Prec (p1v ip Pv st)) (p1c ip Pv st) (st.w.U 0)
def p1g (ip : Vec K → Vec K → K) (A : CRS K) (Prec : Vec K → Vec K) (Pv : FArr (Vec K)) (st : St K) : Vec K :=
  spmv 1 A (p1u ip Prec Pv st) 0 #[]
def p1mu (ip : Vec K → Vec K → K) (A : CRS K) (Prec : Vec K → Vec K) (Pv : FArr (Vec K)) (st : St K) : K :=
  ip (p1g ip A Prec Pv st) (Pv 0)
def p1beta (ip : Vec K → Vec K → K) (A : CRS K) (Prec : Vec K → Vec K) (Pv : FArr (Vec K)) (st : St K) : K :=
  inv1 (p1mu ip A Prec Pv st) * ip st.w.r (Pv 0)
def p1r (ip : Vec K → Vec K → K) (A : CRS K) (Prec : Vec K → Vec K) (Pv : FArr (Vec K)) (st : St K) : Vec K :=
  axpby (-(p1beta ip A Prec Pv st)) (p1g ip A Prec Pv st) 1 st.w.r
def p1x (ip : Vec K → Vec K → K) (A : CRS K) (Prec : Vec K → Vec K) (Pv : FArr (Vec K)) (st : St K) : Vec K :=
  axpby (p1beta ip A Prec Pv st) (p1u ip Prec Pv st) 1 st.x
def p1t (ip : Vec K → Vec K → K) (A : CRS K) (Prec : Vec K → Vec K) (Pv : FArr (Vec K)) (st : St K) : Vec K :=
  spmv 1 A (Prec (p1r ip A Prec Pv st)) 0 #[]
def p1om (prm : Params K) (ip : Vec K → Vec K → K) (sqrt : K → K) (A : CRS K) (Prec : Vec K → Vec K)
    (Pv : FArr (Vec K)) (st : St K) : K :=
  omegaFn ip sqrt prm.omega (p1t ip A Prec Pv st) (p1r ip A Prec Pv st)
def p1r2 (prm : Params K) (ip : Vec K → Vec K → K) (sqrt : K → K) (A : CRS K) (Prec : Vec K → Vec K)
    (Pv : FArr (Vec K)) (st : St K) : Vec K :=
  axpby (-(p1om prm ip sqrt A Prec Pv st)) (p1t ip A Prec Pv st) 1 (p1r ip A Prec Pv st)
def p1x2 (prm : Params K) (ip : Vec K → Vec K → K) (sqrt : K → K) (A : CRS K) (Prec : Vec K → Vec K)
    (Pv : FArr (Vec K)) (st : St K) : Vec K :=
  axpby (p1om prm ip sqrt A Prec Pv st) (Prec (p1r ip A Prec Pv st)) 1 (p1x ip A Prec Pv st)

theorem body_s1 (prm : Params K) (hs : prm.s = 1) (hsm : prm.smoothing = false) (ip : Vec K → Vec K → K) (sqrt : K → K)
    (A : CRS K) (Prec : Vec K → Vec K) (Pv : FArr (Vec K)) (rhs : Vec K) (epsT : K) (st st' : St K)
    (h : body prm ip sqrt A Prec Pv rhs epsT st = .ok st') (hb : st'.brk = false) :
    p1mu ip A Prec Pv st ≠ 0 ∧ p1om prm ip sqrt A Prec Pv st ≠ 0 ∧
    st'.w.r = (if prm.replacement then residual rhs A (p1x2 prm ip sqrt A Prec Pv st) else p1r2 prm ip sqrt A Prec Pv st) ∧
    st'.w.G 0 = p1g ip A Prec Pv st ∧ st'.w.U 0 = p1u ip Prec Pv st ∧ st'.w.M 0 0 = p1mu ip A Prec Pv st ∧
    st'.om = p1om prm ip sqrt A Prec Pv st ∧ st'.x = p1x2 prm ip sqrt A Prec Pv st ∧ st'.iter = st.iter + 2 ∧
    st'.resNorm = nrmA ip sqrt st'.w.r := by
  obtain ⟨st1, hk, ht⟩ := body_s1_shape prm hs ip sqrt A Prec Pv rhs epsT st st' h hb
  obtain ⟨hM, e1⟩ := kStep_nobreak prm ip sqrt A Prec Pv epsT 0 _ st1 hk
  obtain ⟨hom, e2⟩ := tail_nobreak prm ip sqrt A Prec rhs epsT st1 st' ht hb
  obtain ⟨b1, b2, b3, b4, b5, b6, b7, b8⟩ := bodyF_s1 prm hs ip Pv st
  -- the quantities of `kStep 0`
  have hc : kc prm 0 (bodyF prm ip Pv st) 0 = p1c ip Pv st := by rw [kc_s1 prm hs, b1, b2]; rfl
  have hv : kv prm 0 (bodyF prm ip Pv st) = p1v ip Pv st := by rw [kv_s1 prm hs, b1, b2, b3, b5]; rfl
  have hu : kuk1 prm Prec 0 (bodyF prm ip Pv st) = p1u ip Prec Pv st := by rw [kuk1_s1 prm hs, hc, hv, b4, b6]; rfl
  have hg : (kgu prm ip A Prec Pv 0 (bodyF prm ip Pv st)).1 = p1g ip A Prec Pv st := by
    rw [kgu_s1, hu]; exact spmv_z _ _ _ _
  have hgu : (kgu prm ip A Prec Pv 0 (bodyF prm ip Pv st)).2 = p1u ip Prec Pv st := by rw [kgu_s1, hu]
  have hmu : (kM prm ip A Prec Pv 0 (bodyF prm ip Pv st)) 0 0 = p1mu ip A Prec Pv st := by
    rw [kM_s1 prm hs, hg]; rfl
  have hbeta : kbeta prm ip A Prec Pv 0 (bodyF prm ip Pv st) = p1beta ip A Prec Pv st := by
    unfold kbeta; rw [hmu, b1]; rfl
  have hpost : ∀ w x, post prm ip sqrt w x = (w, nrmA ip sqrt w.r) := by
    intro w x; unfold post; rw [hsm]; rfl
  have hr1 : st1.w.r = p1r ip A Prec Pv st := by
    rw [e1]
    show (kpost prm ip sqrt A Prec Pv 0 (bodyF prm ip Pv st)).1.r = _
    unfold kpost; rw [hpost]
    show axpby (-(kbeta prm ip A Prec Pv 0 (bodyF prm ip Pv st))) (kgu prm ip A Prec Pv 0 (bodyF prm ip Pv st)).1 1
      (bodyF prm ip Pv st).w.r = _
    rw [hbeta, hg, b5]; rfl
  have hx1 : st1.x = p1x ip A Prec Pv st := by
    rw [e1]
    show kx prm ip A Prec Pv 0 (bodyF prm ip Pv st) = _
    unfold kx; rw [hbeta, hgu, b7]; rfl
  have hG1 : st1.w.G 0 = p1g ip A Prec Pv st := by
    rw [e1]
    show (kpost prm ip sqrt A Prec Pv 0 (bodyF prm ip Pv st)).1.G 0 = _
    unfold kpost; rw [hpost]
    show (setF (bodyF prm ip Pv st).w.G 0 (kgu prm ip A Prec Pv 0 (bodyF prm ip Pv st)).1).get 0 = _
    rw [setF_same, hg]
  have hU1 : st1.w.U 0 = p1u ip Prec Pv st := by
    rw [e1]
    show (kpost prm ip sqrt A Prec Pv 0 (bodyF prm ip Pv st)).1.U 0 = _
    unfold kpost; rw [hpost]
    show (setF (bodyF prm ip Pv st).w.U 0 (kgu prm ip A Prec Pv 0 (bodyF prm ip Pv st)).2).get 0 = _
    rw [setF_same, hgu]
  have hM1 : st1.w.M 0 0 = p1mu ip A Prec Pv st := by
    rw [e1]
    show (kpost prm ip sqrt A Prec Pv 0 (bodyF prm ip Pv st)).1.M 0 0 = _
    unfold kpost; rw [hpost]
    exact hmu
  have hit1 : st1.iter = st.iter + 1 := by rw [e1]; show (bodyF prm ip Pv st).iter + 1 = _; rw [b8]
  -- the `omega` step
  have hbt : bt A Prec st1 = p1t ip A Prec Pv st := by unfold bt; rw [hr1]; exact spmv_z _ _ _ _
  have hbom : bom prm ip sqrt A Prec st1 = p1om prm ip sqrt A Prec Pv st := by unfold bom; rw [hbt, hr1]; rfl
  have hbx : bx prm ip sqrt A Prec st1 = p1x2 prm ip sqrt A Prec Pv st := by unfold bx; rw [hbom, hr1, hx1]; rfl
  rw [hmu] at hM
  rw [hbom] at hom
  refine ⟨hM, hom, ?_, ?_, ?_, ?_, ?_, ?_, ?_, ?_⟩
  · rw [e2]; show (post prm ip sqrt _ _).1.r = _
    rw [hpost]
    show (if prm.replacement then residual rhs A (bx prm ip sqrt A Prec st1)
          else axpby (-(bom prm ip sqrt A Prec st1)) (bt A Prec st1) 1 st1.w.r) = _
    rw [hbx, hbom, hbt, hr1]; rfl
  · rw [e2]; show (post prm ip sqrt _ _).1.G 0 = _
    rw [hpost]; exact hG1
  · rw [e2]; show (post prm ip sqrt _ _).1.U 0 = _
    rw [hpost]; exact hU1
  · rw [e2]; show (post prm ip sqrt _ _).1.M 0 0 = _
    rw [hpost]; exact hM1
  · rw [e2]; exact hbom
  · rw [e2]; exact hbx
  · rw [e2]; show st1.iter + 1 = _; rw [hit1]
  · rw [e2]; show (post prm ip sqrt _ _).2 = nrmA ip sqrt (post prm ip sqrt _ _).1.r
    rw [hpost]

theorem kStep_iter_le (prm : Params K) (ip : Vec K → Vec K → K) (sqrt : K → K) (A : CRS K) (Prec : Vec K → Vec K)
    (Pv : FArr (Vec K)) (epsT : K) (k : Nat) (st st1 : St K) (b : Bool)
    (h : kStep prm ip sqrt A Prec Pv epsT k st = .ok (st1, b)) : st1.iter ≤ st.iter + 1 := by
  rw [kStep_eq] at h
  split at h
  · cases h
  · split at h
    · cases h; exact Nat.le_succ _
    · split at h
      · cases h; exact Nat.le_refl _
      · cases h; exact Nat.le_refl _

theorem tail_iter_le (prm : Params K) (ip : Vec K → Vec K → K) (sqrt : K → K) (A : CRS K) (Prec : Vec K → Vec K)
    (rhs : Vec K) (epsT : K) (st1 st' : St K) (h : tail prm ip sqrt A Prec rhs epsT st1 = .ok st') :
    st'.iter ≤ st1.iter + 1 := by
  unfold tail at h
  split at h
  · cases h; exact Nat.le_succ _
  · split at h
    · cases h
    · cases h; exact Nat.le_refl _

/-- for `s = 1` a pass of the `while` body adds at most `2` to `iter` -/
theorem body_iter_le_s1 (prm : Params K) (hs : prm.s = 1) (ip : Vec K → Vec K → K) (sqrt : K → K) (A : CRS K)
    (Prec : Vec K → Vec K) (Pv : FArr (Vec K)) (rhs : Vec K) (epsT : K) (st st' : St K)
    (h : body prm ip sqrt A Prec Pv rhs epsT st = .ok st') : st'.iter ≤ st.iter + 2 := by
  rw [body_eq, hs] at h
  unfold kLoop at h
  cases hk : kStep prm ip sqrt A Prec Pv epsT 0 (bodyF prm ip Pv st) with
  | error e => rw [hk] at h; cases h
  | ok sb =>
    obtain ⟨s1, b⟩ := sb
    rw [hk] at h
    have h1 := kStep_iter_le prm ip sqrt A Prec Pv epsT 0 _ s1 b hk
    have hb : (bodyF prm ip Pv st).iter = st.iter := rfl
    cases b with
    | false =>
      simp only [kLoop] at h
      have := tail_iter_le prm ip sqrt A Prec rhs epsT s1 st' h
      omega
    | true =>
      simp only at h
      have := tail_iter_le prm ip sqrt A Prec rhs epsT s1 st' h
      omega

end Amgcl.Solver.IDRs
