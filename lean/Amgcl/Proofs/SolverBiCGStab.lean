import Amgcl.Model.SolverBiCGStab
import Amgcl.Proofs.SolverCG
/-!
Lemmas about the BiCGStab model: the invariant "`r` is `f − A x` (right) / `P(f − A x)` (left) whenever the loop
continues, and `res` is the norm of that vector after every completed pass" — through both exits of a pass;
iteration counter; work-vector independence including the exception paths.
-/
namespace Amgcl.Solver.BiCGStab
open Amgcl Amgcl.Solver
set_option linter.unusedSectionVars false
set_option linter.unusedSimpArgs false

variable {K : Type} [Field K] [DecidableEq K] [LT K] [DecidableLT K]

/-- `eps = std::max(norm_rhs * prm.tol, prm.abstol)` -/
def epsTol (prm : Params K) (nf : K) : K := maxK (nf * prm.tol) prm.abstol

/-- the vector whose norm BiCGStab reports: `f − A x` (right) resp. `P(f − A x)` (left preconditioning) -/
def Rf (side : Side) (P : Vec K → Vec K) (f : Vec K) (A : CRS K) (x : Vec K) : Vec K :=
  match side with
  | .right => residual f A x
  | .left => P (residual f A x)

/-- shape/linearity hypotheses: `A` well formed, `P` returns vectors of length `ncols`; for LEFT preconditioning
additionally `A` square and `P` linear (the left-preconditioned recurrence `s = r − α P A p` equals
`P(f − A(x + α p))` only for additive, homogeneous `P`) -/
structure SideOK (side : Side) (A : CRS K) (P : Vec K → Vec K) : Prop where
  wf : A.WF
  psize : ∀ v, (P v).size = A.ncols
  left : side = .left → A.nrows = A.ncols ∧ PLin A.nrows P

theorem Rf_size_left (P : Vec K → Vec K) (f : Vec K) (A : CRS K) (x : Vec K) (h : ∀ v, (P v).size = A.ncols) :
    (Rf .left P f A x).size = A.ncols := h _

/-- `x ← x + α·(search direction)`: the direction is `d` itself (left) resp. `T = P d` (right) -/
def xupd (side : Side) (α : K) (d T x : Vec K) : Vec K :=
  match side with
  | .left => axpby α d 1 x
  | .right => axpby α T 1 x

/-- one preconditioned half step keeps the invariant, for ANY coefficient `α` and ANY direction `d` -/
theorem pstep (side : Side) (A : CRS K) (P : Vec K → Vec K) (ok : SideOK side A P) (f x r d X T z : Vec K)
    (α : K) (hr : r = Rf side P f A x) (hd : side = .left → A.ncols ≤ d.size) :
    axpbypcz 1 r (-α) (pspmv side P A d X T).1 0 z
      = Rf side P f A (xupd side α d (pspmv side P A d X T).2 x) := by
  subst hr
  cases side with
  | right =>
    simp only [pspmv, Rf, xupd]
    exact paired_update_inv' f A ok.wf α (P d) x X z (by rw [ok.psize])
  | left =>
    simp only [pspmv, Rf, xupd]
    obtain ⟨hsq, hlin⟩ := ok.left rfl
    rw [← paired_update_inv' f A ok.wf α d x T z (hd rfl)]
    rw [hlin (-α) (residual f A x) (spmv 1 A d 0 T) z z (residual_size' _ _ _) (spmv_size' _ _ _ _ _)]

theorem newP_size (st : St K) (rho1 : K) (p : Vec K) (h : newP st rho1 = .ok p) : p.size = st.w.r.size := by
  unfold newP at h
  simp only [] at h
  split at h
  · cases h; rw [vcopy_size]
  · split at h
    · cases h
    · cases h; rw [axpbypcz_size]

theorem half_x (side : Side) (ip : Vec K → Vec K → K) (sqrt : K → K) (A : CRS K) (P : Vec K → Vec K)
    (st : St K) (p : Vec K) :
    (half side ip sqrt A P st p).x
      = xupd side (half side ip sqrt A P st p).alpha p (pspmv side P A p st.w.v st.w.T).2 st.x := by
  cases side <;> rfl

/-- after the `alpha` half step `s` is the (preconditioned) true residual of the updated `x` -/
theorem half_inv (side : Side) (ip : Vec K → Vec K → K) (sqrt : K → K) (A : CRS K) (P : Vec K → Vec K)
    (ok : SideOK side A P) (f : Vec K) (st : St K) (p : Vec K)
    (hr : st.w.r = Rf side P f A st.x) (hp : side = .left → A.ncols ≤ p.size) :
    (half side ip sqrt A P st p).s = Rf side P f A (half side ip sqrt A P st p).x ∧
    (half side ip sqrt A P st p).res = nrm ip sqrt (half side ip sqrt A P st p).s ∧
    (half side ip sqrt A P st p).s.size = st.w.r.size := by
  refine ⟨?_, rfl, ?_⟩
  · rw [half_x]
    exact pstep side A P ok f st.x st.w.r p st.w.v st.w.T st.w.s _ hr hp
  · show (axpbypcz _ _ _ _ _ _).size = _
    rw [axpbypcz_size]

/-- after a completed `omega` half step `r` is the (preconditioned) true residual of `x` and `res = ‖r‖` -/
theorem full_inv (side : Side) (ip : Vec K → Vec K → K) (sqrt : K → K) (A : CRS K) (P : Vec K → Vec K)
    (ok : SideOK side A P) (f : Vec K) (st st' : St K) (h : Half K)
    (hs : h.s = Rf side P f A h.x) (hsz : side = .left → A.ncols ≤ h.s.size)
    (hb : full side ip sqrt A P st h = .ok st') :
    st'.w.r = Rf side P f A st'.x ∧ st'.res = nrm ip sqrt st'.w.r ∧ st'.iter = st.iter + 1 := by
  unfold full at hb
  simp only [] at hb
  split at hb
  · cases hb
  · cases hb
    refine ⟨?_, rfl, rfl⟩
    have := pstep side A P ok f h.x h.s h.s st.w.t h.T st.w.r
      (ip h.s (pspmv side P A h.s st.w.t h.T).1 /
        ip (pspmv side P A h.s st.w.t h.T).1 (pspmv side P A h.s st.w.t h.T).1) hs hsz
    cases side <;> exact this

/-- the loop invariant -/
def Inv (side : Side) (ip : Vec K → Vec K → K) (sqrt : K → K) (A : CRS K) (P : Vec K → Vec K) (f : Vec K)
    (epsT : K) (st : St K) : Prop :=
  (epsT < st.res → st.w.r = Rf side P f A st.x) ∧
  (st.iter ≠ 0 → st.res = nrm ip sqrt (Rf side P f A st.x))

theorem body_inv (side : Side) (ip : Vec K → Vec K → K) (sqrt : K → K) (A : CRS K) (P : Vec K → Vec K)
    (ok : SideOK side A P) (f : Vec K) (epsT : K) (st st' : St K)
    (h : Inv side ip sqrt A P f epsT st) (hc : cond epsT st = true)
    (hb : body side ip sqrt A P epsT st = .ok st') : Inv side ip sqrt A P f epsT st' := by
  have hlt : epsT < st.res := by simpa [cond] using hc
  have hr := h.1 hlt
  unfold body at hb
  simp only [] at hb
  split at hb
  · cases hb
  · rename_i p hp
    have hps : side = .left → A.ncols ≤ p.size := by
      intro hs; subst hs
      rw [newP_size st _ p hp, hr, Rf_size_left P f A st.x ok.psize]
    obtain ⟨h1, h2, h3⟩ := half_inv side ip sqrt A P ok f st p hr hps
    split at hb
    · -- full step
      have hsz : side = .left → A.ncols ≤ (half side ip sqrt A P st p).s.size := by
        intro hs; rw [h3, hr]; subst hs; rw [Rf_size_left P f A st.x ok.psize]
      obtain ⟨g1, g2, _⟩ := full_inv side ip sqrt A P ok f st st' _ h1 hsz hb
      exact ⟨fun _ => g1, fun _ => by rw [g2, g1]⟩
    · -- exit after the half step: res = ‖s‖ ≤ eps
      rename_i hres
      cases hb
      refine ⟨fun hcontra => absurd hcontra hres, fun _ => ?_⟩
      show (half side ip sqrt A P st p).res = nrm ip sqrt (Rf side P f A (half side ip sqrt A P st p).x)
      rw [h2, h1]

/-! #### the call as a whole -/

/-- result of the loop for a call that did not return early and uses `norm_rhs = nf` -/
def final (prm : Params K) (ip : Vec K → Vec K → K) (sqrt : K → K) (A : CRS K) (P : Vec K → Vec K)
    (ws : Work K) (f x0 : Vec K) (nf : K) : Option Err × St K :=
  loop prm.pside ip sqrt A P (epsTol prm nf) prm.maxiter (init prm ip sqrt A P ws f x0 (epsTol prm nf))

/-- the number the call divides by `norm_rhs` on a normal exit (bicgstab.hpp:242-246):
`if (prm.check_after && iter == 0) res = norm(*r);` -/
def repRes (prm : Params K) (ip : Vec K → Vec K → K) (sqrt : K → K) (st : St K) : K :=
  if prm.checkAfter && st.iter == 0 then nrm ip sqrt st.w.r else st.res

theorem repRes_of_not_ca (prm : Params K) (ip : Vec K → Vec K → K) (sqrt : K → K) (st : St K)
    (h : prm.checkAfter = false) : repRes prm ip sqrt st = st.res := by
  simp [repRes, h]

theorem repRes_of_iter_ne (prm : Params K) (ip : Vec K → Vec K → K) (sqrt : K → K) (st : St K)
    (h : st.iter ≠ 0) : repRes prm ip sqrt st = st.res := by
  simp [repRes, h]

theorem repRes_ca_zero (prm : Params K) (ip : Vec K → Vec K → K) (sqrt : K → K) (st : St K)
    (h : prm.checkAfter = true) (h0 : st.iter = 0) : repRes prm ip sqrt st = nrm ip sqrt st.w.r := by
  simp [repRes, h, h0]

theorem run_trivial (prm : Params K) (ip : Vec K → Vec K → K) (sqrt : K → K) (eps : K) (A : CRS K)
    (P : Vec K → Vec K) (ws : Work K) (f x0 : Vec K) (n : K)
    (h : prologue prm.nsSearch ip sqrt eps f = .trivial n) :
    run prm ip sqrt eps A P ws f x0 = (.ok (0, n), vclear x0.size, ws) := by
  simp only [run, h]

theorem run_go (prm : Params K) (ip : Vec K → Vec K → K) (sqrt : K → K) (eps : K) (A : CRS K)
    (P : Vec K → Vec K) (ws : Work K) (f x0 : Vec K) (nf : K)
    (h : prologue prm.nsSearch ip sqrt eps f = .go nf) :
    run prm ip sqrt eps A P ws f x0 =
      match final prm ip sqrt A P ws f x0 nf with
      | (none, st)   => (.ok (st.iter, repRes prm ip sqrt st / nf), st.x, st.w)
      | (some e, st) => (.error e, st.x, st.w) := by
  simp only [run, h, final, epsTol, repRes]
  rfl

theorem init_r (prm : Params K) (ip : Vec K → Vec K → K) (sqrt : K → K) (A : CRS K) (P : Vec K → Vec K)
    (ws : Work K) (f x0 : Vec K) (e : K) :
    (init prm ip sqrt A P ws f x0 e).w.r = Rf prm.pside P f A x0 := by
  unfold init Rf
  cases prm.pside <;> rfl

theorem init_inv (prm : Params K) (ip : Vec K → Vec K → K) (sqrt : K → K) (A : CRS K) (P : Vec K → Vec K)
    (ws : Work K) (f x0 : Vec K) (e : K) :
    Inv prm.pside ip sqrt A P f e (init prm ip sqrt A P ws f x0 e) :=
  ⟨fun _ => init_r prm ip sqrt A P ws f x0 e, fun h => absurd rfl h⟩

theorem full_iter (side : Side) (ip : Vec K → Vec K → K) (sqrt : K → K) (A : CRS K) (P : Vec K → Vec K)
    (st st' : St K) (h : Half K) (hb : full side ip sqrt A P st h = .ok st') : st'.iter = st.iter + 1 := by
  unfold full at hb
  simp only [] at hb
  split at hb <;> cases hb
  rfl

theorem body_iter (side : Side) (ip : Vec K → Vec K → K) (sqrt : K → K) (A : CRS K) (P : Vec K → Vec K)
    (epsT : K) (st st' : St K) (hb : body side ip sqrt A P epsT st = .ok st') : st'.iter = st.iter + 1 := by
  unfold body at hb
  simp only [] at hb
  split at hb
  · cases hb
  · split at hb
    · exact full_iter side ip sqrt A P st st' _ hb
    · cases hb; rfl

/-- normal exit: the invariant holds, at most `maxiter` passes, and a pass-free exit left the state untouched -/
theorem final_ok (prm : Params K) (ip : Vec K → Vec K → K) (sqrt : K → K) (A : CRS K) (P : Vec K → Vec K)
    (ok : SideOK prm.pside A P) (ws : Work K) (f x0 : Vec K) (nf : K) (st : St K)
    (h : final prm ip sqrt A P ws f x0 nf = (none, st)) :
    Inv prm.pside ip sqrt A P f (epsTol prm nf) st ∧ st.iter ≤ prm.maxiter ∧
    (st.iter = prm.maxiter ∨ ¬ epsTol prm nf < st.res) ∧
    (st.iter = 0 → st.res = (init prm ip sqrt A P ws f x0 (epsTol prm nf)).res ∧ st.x = x0 ∧
      st.w.r = Rf prm.pside P f A x0) := by
  unfold final loop at h
  refine ⟨?_, ?_, ?_, ?_⟩
  · exact loopE_inv _ _ (Inv prm.pside ip sqrt A P f (epsTol prm nf))
      (fun s s' hi hc hb => body_inv prm.pside ip sqrt A P ok f _ s s' hi hc hb) _ _ _
      (init_inv prm ip sqrt A P ws f x0 _) h
  · have := (loopE_exit _ _ St.iter (fun s s' hb => body_iter prm.pside ip sqrt A P _ s s' hb) _ _ _ h).1
    simpa [init] using this
  · have := (loopE_exit _ _ St.iter (fun s s' hb => body_iter prm.pside ip sqrt A P _ s s' hb) _ _ _ h).2.2
    rcases this with h1 | h1
    · left; simpa [init] using h1
    · right; simpa [cond] using h1
  · exact loopE_inv _ _
      (fun s => s.iter = 0 → s.res = (init prm ip sqrt A P ws f x0 (epsTol prm nf)).res ∧ s.x = x0 ∧
        s.w.r = Rf prm.pside P f A x0)
      (fun s s' _ _ hb h0 => by rw [body_iter prm.pside ip sqrt A P _ s s' hb] at h0; omega) _ _ _
      (fun _ => ⟨rfl, rfl, init_r prm ip sqrt A P ws f x0 _⟩) h

/-! #### work-vector independence -/

/-- what a pass reads from the state: not `w.s`, `w.t`, `w.T`, and `w.p`, `w.v` only after the first pass -/
def Rel (s s' : St K) : Prop :=
  s.first = s'.first ∧ s.iter = s'.iter ∧ s.rho1 = s'.rho1 ∧ s.alpha = s'.alpha ∧ s.omega = s'.omega ∧
  s.res = s'.res ∧ s.x = s'.x ∧ s.w.r = s'.w.r ∧ s.w.rh = s'.w.rh ∧
  (s.first = false → s.w.p = s'.w.p ∧ s.w.v = s'.w.v)

theorem Rel_refl (s : St K) : Rel s s := ⟨rfl, rfl, rfl, rfl, rfl, rfl, rfl, rfl, rfl, fun _ => ⟨rfl, rfl⟩⟩

/-- `preconditioner::spmv` never reads its two output vectors -/
theorem pspmv_indep (side : Side) (P : Vec K → Vec K) (A : CRS K) (F X T X' T' : Vec K) :
    pspmv side P A F X T = pspmv side P A F X' T' := by
  cases side <;> simp [pspmv, spmv]

theorem axpbypcz_c0_indep (a b : K) (x y z z' : Vec K) :
    axpbypcz a x b y 0 z = axpbypcz a x b y 0 z' := by simp [axpbypcz]

theorem newP_rel (s s' : St K) (rho : K) (h : Rel s s') : newP s rho = newP s' rho := by
  obtain ⟨h1, _, h3, h4, h5, _, _, h8, _, h10⟩ := h
  unfold newP
  simp only [h1, h3, h4, h5, h8]
  by_cases hf : s'.first = true
  · simp [hf]
  · have hf' : s.first = false := by rw [h1]; simpa using hf
    obtain ⟨hp, hv⟩ := h10 hf'
    simp only [hf, hp, hv]

theorem half_rel (side : Side) (ip : Vec K → Vec K → K) (sqrt : K → K) (A : CRS K) (P : Vec K → Vec K)
    (s s' : St K) (p : Vec K) (h : Rel s s') : half side ip sqrt A P s p = half side ip sqrt A P s' p := by
  obtain ⟨_, _, _, _, _, _, h7, h8, h9, _⟩ := h
  unfold half
  simp only [h7, h8, h9, pspmv_indep side P A p s.w.v s.w.T s'.w.v s'.w.T,
    axpbypcz_c0_indep _ _ _ _ s.w.s s'.w.s]

theorem full_rel (side : Side) (ip : Vec K → Vec K → K) (sqrt : K → K) (A : CRS K) (P : Vec K → Vec K)
    (s s' : St K) (hf : Half K) (h : Rel s s') :
    full side ip sqrt A P s hf = full side ip sqrt A P s' hf := by
  obtain ⟨_, h2, _, _, _, _, _, h8, h9, _⟩ := h
  unfold full
  simp only [h2, h8, h9, pspmv_indep side P A hf.s s.w.t hf.T s'.w.t hf.T]

theorem body_rel (side : Side) (ip : Vec K → Vec K → K) (sqrt : K → K) (A : CRS K) (P : Vec K → Vec K)
    (epsT : K) (s s' : St K) (h : Rel s s') :
    (∃ t t', body side ip sqrt A P epsT s = .ok t ∧ body side ip sqrt A P epsT s' = .ok t' ∧ Rel t t') ∨
    (∃ e t t', body side ip sqrt A P epsT s = .error (e, t) ∧ body side ip sqrt A P epsT s' = .error (e, t') ∧
      Rel t t') := by
  have hr := h.2.2.2.2.2.2.2.1
  have hrh := h.2.2.2.2.2.2.2.2.1
  unfold body
  simp only [hr, hrh, newP_rel s s' _ h]
  cases hp : newP s' (ip s'.w.r s'.w.rh) with
  | error e =>
    right
    refine ⟨e, _, _, rfl, rfl, ?_⟩
    obtain ⟨h1, h2, _, h4, h5, h6, h7, h8, h9, h10⟩ := h
    exact ⟨h1, h2, rfl, h4, h5, h6, h7, h8, h9, h10⟩
  | ok p =>
    simp only [half_rel side ip sqrt A P s s' p h]
    by_cases hres : epsT < (half side ip sqrt A P s' p).res
    · simp only [hres, if_true, full_rel side ip sqrt A P s s' _ h]
      cases hfull : full side ip sqrt A P s' (half side ip sqrt A P s' p) with
      | error et => obtain ⟨e, t⟩ := et; right; exact ⟨e, t, t, rfl, rfl, Rel_refl t⟩
      | ok t => left; exact ⟨t, t, rfl, rfl, Rel_refl t⟩
    · simp only [hres, if_false]
      left
      refine ⟨_, _, rfl, rfl, ?_⟩
      obtain ⟨_, h2, _, _, h5, _, _, h8, h9, _⟩ := h
      exact ⟨rfl, by simp only [h2], rfl, rfl, h5, rfl, rfl, rfl, rfl, fun _ => ⟨rfl, rfl⟩⟩

theorem final_rel (prm : Params K) (ip : Vec K → Vec K → K) (sqrt : K → K) (A : CRS K)
    (P : Vec K → Vec K) (ws ws' : Work K) (f x0 : Vec K) (nf : K) :
    (final prm ip sqrt A P ws f x0 nf).1 = (final prm ip sqrt A P ws' f x0 nf).1 ∧
    Rel (final prm ip sqrt A P ws f x0 nf).2 (final prm ip sqrt A P ws' f x0 nf).2 := by
  apply loopE_rel (cond (epsTol prm nf)) (body prm.pside ip sqrt A P (epsTol prm nf)) Rel
  · intro s s' h; simp only [cond, h.2.2.2.2.2.1]
  · intro s s' h _; exact body_rel prm.pside ip sqrt A P _ s s' h
  · unfold init
    exact ⟨rfl, rfl, rfl, rfl, rfl, rfl, rfl, rfl, rfl, fun h => by simp at h⟩

/-! #### exact preconditioner, right side -/

/-- the state after the first pass when `A·(P v) = v` (right preconditioning): `α = 1`, `s = 0`, exit after the
half step -/
theorem exact_first_pass (prm : Params K) (hside : prm.pside = .right) (_hca : prm.checkAfter = false)
    (ip : Vec K → Vec K → K) (sqrt : K → K) (A : CRS K) (P : Vec K → Vec K)
    (hAP : ∀ v z, v.size = A.nrows → spmv 1 A (P v) 0 z = v) (ws : Work K) (f x0 : Vec K) (e : K)
    (hne : ip (residual f A x0) (residual f A x0) ≠ 0)
    (hz : nrm ip sqrt (vclear A.nrows) = 0) (heps : ¬ e < 0) :
    ∃ st, body .right ip sqrt A P e (init prm ip sqrt A P ws f x0 e) = .ok st ∧
      st.iter = 1 ∧ st.res = 0 ∧ st.w.s = vclear A.nrows ∧
      st.x = axpby 1 (P (residual f A x0)) 1 x0 := by
  have hr : (init prm ip sqrt A P ws f x0 e).w.r = residual f A x0 := by
    rw [init_r, hside]; rfl
  have hrh : (init prm ip sqrt A P ws f x0 e).w.rh = residual f A x0 := by
    show vcopy _ = _
    rw [vcopy_eq]; simp only [hside]
  have hnp : newP (init prm ip sqrt A P ws f x0 e) (ip (residual f A x0) (residual f A x0))
      = .ok (residual f A x0) := by
    unfold newP
    simp only [init, if_true, hside, vcopy_eq]
  have hx0 : (init prm ip sqrt A P ws f x0 e).x = x0 := rfl
  have hit0 : (init prm ip sqrt A P ws f x0 e).iter = 0 := rfl
  have hhalf_s : (half .right ip sqrt A P (init prm ip sqrt A P ws f x0 e) (residual f A x0)).s
      = vclear A.nrows := by
    unfold half
    simp only [pspmv, hr, hrh, hAP _ _ (residual_size' f A x0), div_self hne]
    rw [axpbypcz_cancel, residual_size']
  have hhalf_x : (half .right ip sqrt A P (init prm ip sqrt A P ws f x0 e) (residual f A x0)).x
      = axpby 1 (P (residual f A x0)) 1 x0 := by
    unfold half
    simp only [pspmv, hr, hrh, hAP _ _ (residual_size' f A x0), div_self hne, hx0]
  have hhalf_res : (half .right ip sqrt A P (init prm ip sqrt A P ws f x0 e) (residual f A x0)).res = 0 := by
    show nrm ip sqrt (half .right ip sqrt A P (init prm ip sqrt A P ws f x0 e) (residual f A x0)).s = 0
    rw [hhalf_s, hz]
  unfold body
  simp only [hr, hrh, hnp, hhalf_res, heps, if_false]
  exact ⟨_, rfl, by simp only [hit0], rfl, hhalf_s, hhalf_x⟩

theorem exact_final (prm : Params K) (hside : prm.pside = .right) (hca : prm.checkAfter = false)
    (ip : Vec K → Vec K → K) (sqrt : K → K) (A : CRS K) (P : Vec K → Vec K)
    (hAP : ∀ v z, v.size = A.nrows → spmv 1 A (P v) 0 z = v) (ws : Work K) (f x0 : Vec K) (nf : K)
    (hne : ip (residual f A x0) (residual f A x0) ≠ 0) (hmax : 1 ≤ prm.maxiter)
    (hstart : epsTol prm nf < nrm ip sqrt (residual f A x0))
    (hz : nrm ip sqrt (vclear A.nrows) = 0) (heps : ¬ epsTol prm nf < 0) :
    ∃ st, final prm ip sqrt A P ws f x0 nf = (none, st) ∧ st.iter = 1 ∧ st.res = 0 ∧
      st.x = axpby 1 (P (residual f A x0)) 1 x0 := by
  obtain ⟨st, hb, h1, h2, _, h4⟩ :=
    exact_first_pass prm hside hca ip sqrt A P hAP ws f x0 (epsTol prm nf) hne hz heps
  refine ⟨st, ?_, h1, h2, h4⟩
  obtain ⟨m, hm⟩ : ∃ m, prm.maxiter = m + 1 := ⟨prm.maxiter - 1, by omega⟩
  unfold final loop
  rw [hm, loopE]
  have hres : (init prm ip sqrt A P ws f x0 (epsTol prm nf)).res = nrm ip sqrt (residual f A x0) := by
    have := init_r prm ip sqrt A P ws f x0 (epsTol prm nf)
    rw [hside] at this
    simp only [init, hca, hside]
    rfl
  have hc : cond (epsTol prm nf) (init prm ip sqrt A P ws f x0 (epsTol prm nf)) = true := by
    simp only [cond, hres]; exact decide_eq_true hstart
  rw [if_pos hc, hside, hb]
  apply loopE_of_not_cond
  simp only [cond, h2]
  exact decide_eq_false heps

end Amgcl.Solver.BiCGStab
