import Amgcl.Proofs.RSTranspose
import Amgcl.Proofs.RSSplit
import Amgcl.Proofs.KernelsCommon
/-!
`ruge_stuben::connect` as a whole: every cell of `S.ptr`, `S.val`, `S.col` that is read has been written (the result
does not depend on the `Garbage` argument), the strength rows are those of `connectRow`, the transposed pattern is the
bucket transposition; and the initial `lambda` of `cfsplit` stays below `n` when no row stores a column twice — the
precondition under which the bucket arrays of `cfsplit` are indexed in range.
-/
namespace Amgcl
namespace RS

section connect
variable {K : Type} [Mul K] [Zero K] [LT K] [DecidableLT K]

/-- the strength flags of all rows -/
def flagsOf (norm : K → K) (epsStrong eps : K) (A : CRS K) : Array (List Bool) :=
  Array.ofFn (n := A.nrows) fun i => (connectRow norm epsStrong eps i.val (A.row i.val)).2

/-- `cf` as `connect` leaves it -/
def cf0Of (norm : K → K) (epsStrong eps : K) (A : CRS K) : Array CF :=
  Array.ofFn (n := A.nrows) fun i => if (connectRow norm epsStrong eps i.val (A.row i.val)).1 = true then CF.F else CF.U

private def c1Step (norm : K → K) (epsStrong eps : K) (A : CRS K)
    (st : Array Nat × Array (List Bool) × Array CF) (i : Nat) : Array Nat × Array (List Bool) × Array CF :=
  let r := connectRow norm epsStrong eps i (A.row i)
  (st.1.setIfInBounds (i + 1) 0, st.2.1.setIfInBounds i r.2,
    if r.1 then st.2.2.setIfInBounds i CF.F else st.2.2)

private theorem c1_fold (norm : K → K) (epsStrong eps : K) (A : CRS K) (p0 : Array Nat) (v0 : Array (List Bool))
    (hp : p0.size = A.nrows + 1) (hv : v0.size = A.nrows) (m : Nat) (hm : m ≤ A.nrows) :
    ∃ st, (List.range m).foldl (c1Step norm epsStrong eps A) (p0, v0, Array.replicate A.nrows CF.U) = st ∧
      st.1.size = A.nrows + 1 ∧ st.2.1.size = A.nrows ∧ st.2.2.size = A.nrows ∧
      (∀ k, st.1.getD k 0 = if 1 ≤ k ∧ k ≤ m then 0 else p0.getD k 0) ∧
      (∀ i, st.2.1.getD i [] = if i < m then (connectRow norm epsStrong eps i (A.row i)).2 else v0.getD i []) ∧
      (∀ i, st.2.2.getD i CF.U
        = if i < m ∧ (connectRow norm epsStrong eps i (A.row i)).1 = true then CF.F else CF.U) := by
  induction m with
  | zero =>
    refine ⟨_, rfl, hp, hv, by simp, fun k => ?_, fun i => ?_, fun i => ?_⟩
    · have : ¬ (1 ≤ k ∧ k ≤ 0) := by omega
      rw [if_neg this]; rfl
    · rw [if_neg (by omega)]; rfl
    · have : ¬ (i < 0 ∧ (connectRow norm epsStrong eps i (A.row i)).1 = true) := by omega
      rw [if_neg this]
      simp only [List.range_zero, List.foldl_nil, Array.getD_eq_getD_getElem?, Array.getElem?_replicate]
      split <;> rfl
  | succ j ih =>
    obtain ⟨st, hst, s1, s2, s3, h1, h2, h3⟩ := ih (by omega)
    rw [List.range_succ, List.foldl_append, hst, List.foldl_cons, List.foldl_nil]
    refine ⟨_, rfl, ?_, ?_, ?_, fun k => ?_, fun i => ?_, fun i => ?_⟩
    · show (st.1.setIfInBounds _ _).size = _
      rw [Array.size_setIfInBounds, s1]
    · show (st.2.1.setIfInBounds _ _).size = _
      rw [Array.size_setIfInBounds, s2]
    · show (if (connectRow norm epsStrong eps j (A.row j)).1 = true then st.2.2.setIfInBounds j CF.F else st.2.2).size = _
      split
      · rw [Array.size_setIfInBounds, s3]
      · exact s3
    · show (st.1.setIfInBounds (j + 1) 0).getD k 0 = _
      rw [getD_set, s1, h1 k]
      by_cases hk : j + 1 = k
      · rw [if_pos ⟨hk, by omega⟩, if_pos (by omega)]
      · have : ¬ (j + 1 = k ∧ j + 1 < A.nrows + 1) := fun e => hk e.1
        rw [if_neg this]
        by_cases hk2 : 1 ≤ k ∧ k ≤ j
        · rw [if_pos hk2, if_pos (by omega)]
        · rw [if_neg hk2, if_neg (by omega)]
    · show (st.2.1.setIfInBounds j _).getD i [] = _
      rw [getD_set, s2, h2 i]
      by_cases hi : j = i
      · subst hi; rw [if_pos ⟨rfl, by omega⟩, if_pos (by omega)]
      · have : ¬ (j = i ∧ j < A.nrows) := fun e => hi e.1
        rw [if_neg this]
        by_cases hi2 : i < j
        · rw [if_pos hi2, if_pos (by omega)]
        · rw [if_neg hi2, if_neg (by omega)]
    · show (if (connectRow norm epsStrong eps j (A.row j)).1 = true then st.2.2.setIfInBounds j CF.F else st.2.2).getD i CF.U = _
      by_cases hr : (connectRow norm epsStrong eps j (A.row j)).1 = true
      · rw [if_pos hr, getD_set, s3, h3 i]
        by_cases hi : j = i
        · subst hi; rw [if_pos ⟨rfl, by omega⟩, if_pos ⟨by omega, hr⟩]
        · have : ¬ (j = i ∧ j < A.nrows) := fun e => hi e.1
          rw [if_neg this]
          by_cases hi2 : i < j
          · have e1 : (i < j ∧ (connectRow norm epsStrong eps i (A.row i)).1 = true)
                ↔ (i < j + 1 ∧ (connectRow norm epsStrong eps i (A.row i)).1 = true) :=
              ⟨fun h => ⟨by omega, h.2⟩, fun h => ⟨hi2, h.2⟩⟩
            rw [if_congr e1 rfl rfl]
          · have n1 : ¬ (i < j ∧ (connectRow norm epsStrong eps i (A.row i)).1 = true) := fun h => hi2 h.1
            have n2 : ¬ (i < j + 1 ∧ (connectRow norm epsStrong eps i (A.row i)).1 = true) := fun h => by omega
            rw [if_neg n1, if_neg n2]
      · rw [if_neg hr, h3 i]
        by_cases hi : i = j
        · subst hi
          have n1 : ¬ (i < i ∧ (connectRow norm epsStrong eps i (A.row i)).1 = true) := fun h => by omega
          have n2 : ¬ (i < i + 1 ∧ (connectRow norm epsStrong eps i (A.row i)).1 = true) := fun h => hr h.2
          rw [if_neg n1, if_neg n2]
        · have e1 : (i < j ∧ (connectRow norm epsStrong eps i (A.row i)).1 = true)
              ↔ (i < j + 1 ∧ (connectRow norm epsStrong eps i (A.row i)).1 = true) :=
            ⟨fun h => ⟨by omega, h.2⟩, fun h => ⟨by omega, h.2⟩⟩
          rw [if_congr e1 rfl rfl]

/-- the first loop of `connect` overwrites everything it was given: zeroed pointers, the flags of `connectRow`, `F`
marks on the rows without negative coupling -/
theorem connectLoop1_eq (norm : K → K) (epsStrong eps : K) (A : CRS K) (p0 : Array Nat) (v0 : Array (List Bool))
    (hp : p0.size = A.nrows + 1) (hv : v0.size = A.nrows) (h0 : p0.getD 0 0 = 0) :
    connectLoop1 norm epsStrong eps A (p0, v0, Array.replicate A.nrows CF.U)
      = (Array.replicate (A.nrows + 1) 0, flagsOf norm epsStrong eps A, cf0Of norm epsStrong eps A) := by
  obtain ⟨st, hst, s1, s2, s3, h1, h2, h3⟩ := c1_fold norm epsStrong eps A p0 v0 hp hv A.nrows (Nat.le_refl _)
  have : connectLoop1 norm epsStrong eps A (p0, v0, Array.replicate A.nrows CF.U) = st := hst
  rw [this]
  apply Prod.ext
  · apply Array.ext
    · rw [s1]; simp
    · intro k hk1 hk2
      have := h1 k
      rw [s1] at hk1
      simp only [Array.getD_eq_getD_getElem?, Array.getElem?_eq_getElem (by rw [s1]; exact hk1), Option.getD_some] at this
      rw [this]
      by_cases hk : 1 ≤ k ∧ k ≤ A.nrows
      · rw [if_pos hk]; simp
      · have : k = 0 := by omega
        subst this
        rw [if_neg hk]
        simp only [Array.getD_eq_getD_getElem?] at h0
        rw [h0]; simp
  · apply Prod.ext
    · apply Array.ext
      · rw [s2]; simp [flagsOf]
      · intro i hi1 hi2
        have := h2 i
        rw [s2] at hi1
        simp only [Array.getD_eq_getD_getElem?, Array.getElem?_eq_getElem (by rw [s2]; exact hi1), Option.getD_some] at this
        rw [this, if_pos hi1]
        simp [flagsOf]
    · apply Array.ext
      · rw [s3]; simp [cf0Of]
      · intro i hi1 hi2
        have := h3 i
        rw [s3] at hi1
        simp only [Array.getD_eq_getD_getElem?, Array.getElem?_eq_getElem (by rw [s3]; exact hi1), Option.getD_some] at this
        rw [this]
        simp only [cf0Of, Array.getElem_ofFn]
        by_cases hr : (connectRow norm epsStrong eps i (A.row i)).1 = true
        · rw [if_pos ⟨hi1, hr⟩, if_pos hr]
        · have : ¬ (i < A.nrows ∧ (connectRow norm epsStrong eps i (A.row i)).1 = true) := fun h => hr h.2
          rw [if_neg this, if_neg hr]

/-- `connect` in closed form -/
theorem connect_eq (g : Garbage K) (norm : K → K) (epsStrong eps : K) (A : CRS K) :
    connect g norm epsStrong eps A
      = ({ val := flagsOf norm epsStrong eps A,
           ptr := (transposeFlags g.scol (flagGraph A (flagsOf norm epsStrong eps A)) (Array.replicate (A.nrows + 1) 0)).1,
           col := (transposeFlags g.scol (flagGraph A (flagsOf norm epsStrong eps A)) (Array.replicate (A.nrows + 1) 0)).2 },
         cf0Of norm epsStrong eps A) := by
  unfold connect
  simp only
  rw [connectLoop1_eq norm epsStrong eps A _ _ (by simp) (by simp)
    (by rw [getD_set]; simp)]

omit [Mul K] [Zero K] [LT K] [DecidableLT K] in
theorem flagGraph_size (A : CRS K) (sval : Array (List Bool)) : (flagGraph A sval).size = A.nrows := by
  simp [flagGraph, zipGraph]

/-- row `i` of the flag graph: the columns of `A` with the flag of `connectRow` -/
theorem flagGraph_row (norm : K → K) (epsStrong eps : K) (A : CRS K) (i : Nat) (hi : i < A.nrows) :
    (flagGraph A (flagsOf norm epsStrong eps A)).row i
      = (A.row i).zipWith (fun cv s => (cv.1, s)) (connectRow norm epsStrong eps i (A.row i)).2 := by
  unfold flagGraph zipGraph SGraph.row flagsOf
  simp [Array.getD_eq_getD_getElem?, hi]

theorem connectRow_flags_length (norm : K → K) (epsStrong eps : K) (i : Nat) (r : Row K) :
    (connectRow norm epsStrong eps i r).2.length = r.length := by
  unfold connectRow; simp only; split <;> simp

/-- a row marked `F` by `connect` has no flag set; no diagonal entry is ever flagged -/
theorem connectRow_flag_true (norm : K → K) (epsStrong eps : K) (i : Nat) (r : Row K) :
    (connectRow norm epsStrong eps i r).1 = true → ∀ s ∈ (connectRow norm epsStrong eps i r).2, s = false := by
  unfold connectRow; simp only
  split
  · intro _ s hs; simp at hs; exact hs.2
  · intro h; cases h

theorem flagGraph_wf (norm : K → K) (epsStrong eps : K) (A : CRS K) (hA : A.WF) (hsq : A.ncols = A.nrows) :
    (flagGraph A (flagsOf norm epsStrong eps A)).WF := by
  intro r hr cs hcs
  rw [flagGraph_size]
  obtain ⟨i, hi, rfl⟩ := List.getElem_of_mem hr
  have hi' : i < A.nrows := by simpa [flagGraph_size] using hi
  have hrow : (flagGraph A (flagsOf norm epsStrong eps A)).toList[i]
      = (flagGraph A (flagsOf norm epsStrong eps A)).row i := by
    unfold SGraph.row
    have hi2 : i < (flagGraph A (flagsOf norm epsStrong eps A)).size := by rw [flagGraph_size]; exact hi'
    simp [Array.getD_eq_getD_getElem?, hi2]
  rw [hrow, flagGraph_row norm epsStrong eps A i hi'] at hcs
  obtain ⟨k, hk, rfl⟩ := List.getElem_of_mem hcs
  simp only [List.getElem_zipWith]
  rw [← hsq]
  exact K2.row_col_lt hA i (List.getElem_mem _)

end connect

/-! ### the initial lambda -/

theorem foldl_weight (P : Nat → Prop) [DecidablePred P] (l : List Nat) (h : ∀ c ∈ l, P c) (t : Nat) :
    l.foldl (fun t c => t + if P c then 1 else 2) t = t + l.length := by
  induction l generalizing t with
  | nil => rfl
  | cons c r ih =>
    rw [List.foldl_cons, if_pos (h c (List.mem_cons_self ..)), ih (fun x hx => h x (List.mem_cons_of_mem _ hx))]
    simp; omega

theorem sum_le_of_le_one (k : Nat → Nat) (c m : Nat) (h1 : ∀ i, k i ≤ 1) (hc : k c = 0) :
    ((List.range m).map k).sum + (if c < m then 1 else 0) ≤ m := by
  induction m with
  | zero => simp
  | succ j ih =>
    rw [List.range_succ, List.map_append, List.sum_append]
    simp only [List.map_cons, List.map_nil, List.sum_cons, List.sum_nil, Nat.add_zero]
    by_cases hcj : c = j
    · subst hcj
      rw [if_neg (by omega)] at ih
      rw [hc, if_pos (by omega)]; omega
    · have := h1 j
      by_cases h2 : c < j
      · rw [if_pos h2] at ih; rw [if_pos (by omega)]; omega
      · rw [if_neg h2] at ih; rw [if_neg (by omega)]; omega

/-- per row: at most one flagged entry in a given column when the row stores no column twice -/
theorem row_count_le_one (i c : Nat) (r : List (Nat × Bool)) (hnd : (r.map (·.1)).Nodup) :
    ((r.filterMap fun cs => if cs.2 = true then some (i, cs.1) else none).filter fun e => decide (e.2 = c)).length ≤ 1 ∧
    (c ∉ r.map (·.1) →
      ((r.filterMap fun cs => if cs.2 = true then some (i, cs.1) else none).filter fun e => decide (e.2 = c)).length = 0) := by
  induction r with
  | nil => simp
  | cons cs t ih =>
    rw [List.map_cons, List.nodup_cons] at hnd
    obtain ⟨ih1, ih2⟩ := ih hnd.2
    rw [List.filterMap_cons]
    by_cases hf : cs.2 = true
    · rw [if_pos hf]
      simp only [List.filter_cons]
      by_cases hc : cs.1 = c
      · subst hc
        simp only [decide_true, if_true, List.length_cons]
        rw [ih2 hnd.1]
        exact ⟨Nat.le_refl _, fun h => absurd (List.mem_cons_self ..) h⟩
      · simp only [hc, decide_false, Bool.false_eq_true, if_false]
        exact ⟨ih1, fun h => ih2 (fun h' => h (List.mem_cons_of_mem _ h'))⟩
    · rw [if_neg hf]
      exact ⟨ih1, fun h => ih2 (fun h' => h (List.mem_cons_of_mem _ h'))⟩

theorem cntE_ents_eq (G : SGraph) (c : Nat) :
    cntE (ents G) c = ((List.range G.size).map fun i =>
      (((G.row i).filterMap fun cs => if cs.2 = true then some (i, cs.1) else none).filter
        fun e => decide (e.2 = c)).length).sum := by
  unfold cntE ents
  rw [List.filter_flatMap, List.length_flatMap]

/-- a column is flagged by at most `n - 1` rows -/
theorem cntE_ents_lt (G : SGraph) (hnd : ∀ i, ((G.row i).map (·.1)).Nodup) (hod : G.OffDiag) (c : Nat)
    (hc : c < G.size) : cntE (ents G) c + 1 ≤ G.size := by
  rw [cntE_ents_eq]
  have := sum_le_of_le_one (fun i => (((G.row i).filterMap fun cs => if cs.2 = true then some (i, cs.1) else none).filter
        fun e => decide (e.2 = c)).length) c G.size
    (fun i => (row_count_le_one i c (G.row i) (hnd i)).1)
    (by
      show ((((G.row c).filterMap fun cs => if cs.2 = true then some (c, cs.1) else none).filter
        fun e => decide (e.2 = c))).length = 0
      rw [List.length_eq_zero_iff, List.filter_eq_nil_iff]
      intro e he
      rw [List.mem_filterMap] at he
      obtain ⟨cs, hcs, h⟩ := he
      split at h
      · rename_i hf
        injection h with h
        subst h
        simp only [decide_eq_true_eq]
        exact hod c cs hcs hf
      · cases h)
  rw [if_pos hc] at this
  exact this

/-- a member of a bucket is a row with a flagged entry -/
theorem mem_bucketE_ents {G : SGraph} {c i : Nat} (h : i ∈ bucketE (ents G) c) :
    i < G.size ∧ ∃ cs ∈ G.row i, cs.2 = true ∧ cs.1 = c := by
  unfold bucketE at h
  rw [List.mem_map] at h
  obtain ⟨e, he, rfl⟩ := h
  rw [List.mem_filter] at he
  obtain ⟨he, hc⟩ := he
  unfold ents at he
  rw [List.mem_flatMap] at he
  obtain ⟨j, hj, he⟩ := he
  rw [List.mem_filterMap] at he
  obtain ⟨cs, hcs, h⟩ := he
  split at h
  · rename_i hf
    injection h with h
    subst h
    simp only [decide_eq_true_eq] at hc
    exact ⟨by simpa using hj, cs, hcs, hf, hc⟩
  · cases h

section bound
variable {K : Type} [Mul K] [Zero K] [LT K] [DecidableLT K]

theorem flagGraph_row_map (norm : K → K) (epsStrong eps : K) (A : CRS K) (i : Nat) :
    ((flagGraph A (flagsOf norm epsStrong eps A)).row i).map (·.1) = (A.row i).map (·.1) := by
  by_cases hi : i < A.nrows
  · rw [flagGraph_row norm epsStrong eps A i hi]
    apply List.ext_getElem
    · simp [connectRow_flags_length]
    · intro k h1 h2
      simp
  · have h1 : (flagGraph A (flagsOf norm epsStrong eps A)).row i = [] := by
      unfold SGraph.row
      simp only [Array.getD_eq_getD_getElem?]
      rw [Array.getElem?_eq_none (by rw [flagGraph_size]; omega)]; rfl
    rw [h1, K2.row_eq_nil_of_ge A (by omega)]; rfl

theorem flagGraph_offdiag (norm : K → K) (epsStrong eps : K) (A : CRS K) :
    (flagGraph A (flagsOf norm epsStrong eps A)).OffDiag := by
  intro i cs hcs hf
  by_cases hi : i < A.nrows
  · rw [flagGraph_row norm epsStrong eps A i hi] at hcs
    obtain ⟨k, hk, rfl⟩ := List.getElem_of_mem hcs
    simp only [List.getElem_zipWith] at hf ⊢
    unfold connectRow at hf
    simp only at hf
    split at hf
    · simp at hf
    · simp only [List.getElem_map, Bool.and_eq_true, decide_eq_true_eq] at hf
      exact hf.1
  · have h1 : (flagGraph A (flagsOf norm epsStrong eps A)).row i = [] := by
      unfold SGraph.row
      simp only [Array.getD_eq_getD_getElem?]
      rw [Array.getElem?_eq_none (by rw [flagGraph_size]; omega)]; rfl
    rw [h1] at hcs; cases hcs

/-- `lambda[i]` after the initialisation loop is the number of rows strongly depending on `i`, below `n` -/
theorem lambdaInit_lt (g : Garbage K) (norm : K → K) (epsStrong eps : K) (A : CRS K) (hA : A.WF)
    (hsq : A.ncols = A.nrows) (hnd : ∀ i, ((A.row i).map (·.1)).Nodup) (i : Nat) (hi : i < A.nrows) :
    (lambdaInit (connect g norm epsStrong eps A).1.ptr (connect g norm epsStrong eps A).1.col
      (connect g norm epsStrong eps A).2 A.nrows).getD i 0 < A.nrows := by
  rw [connect_eq]
  simp only
  have hG := flagGraph_wf norm epsStrong eps A hA hsq
  have hsz := flagGraph_size A (flagsOf norm epsStrong eps A)
  unfold lambdaInit
  simp only [Array.getD_eq_getD_getElem?, Array.getElem?_ofFn, hi, dif_pos, Option.getD_some]
  rw [transposeFlags_spRow g.scol _ hG _ (by simp [hsz]) (fun k => by
    simp only [Array.getD_eq_getD_getElem?, Array.getElem?_replicate]; split <;> rfl) i (by rw [hsz]; exact hi)]
  have hw := foldl_weight (fun c => (cf0Of norm epsStrong eps A)[c]?.getD CF.U = CF.U)
    (bucketE (ents (flagGraph A (flagsOf norm epsStrong eps A))) i) (by
      intro c hc
      obtain ⟨hcn, cs, hcs, hf, _⟩ := mem_bucketE_ents hc
      rw [hsz] at hcn
      show (cf0Of norm epsStrong eps A)[c]?.getD CF.U = CF.U
      simp only [cf0Of, Array.getElem?_ofFn, hcn, dif_pos, Option.getD_some]
      split
      · rename_i hF
        rw [flagGraph_row norm epsStrong eps A c hcn] at hcs
        obtain ⟨k, hk, rfl⟩ := List.getElem_of_mem hcs
        simp only [List.getElem_zipWith] at hf
        have hb : k < (connectRow norm epsStrong eps c (A.row c)).2.length := by
          rw [List.length_zipWith] at hk; omega
        have := connectRow_flag_true norm epsStrong eps c (A.row c) hF _ (List.getElem_mem hb)
        rw [this] at hf; cases hf
      · rfl) 0
  rw [hw, Nat.zero_add, bucketE_length]
  have := cntE_ents_lt (flagGraph A (flagsOf norm epsStrong eps A))
    (fun j => by rw [flagGraph_row_map]; exact hnd j) (flagGraph_offdiag norm epsStrong eps A) i (by rw [hsz]; exact hi)
  rw [hsz] at this
  omega

end bound

end RS
end Amgcl
