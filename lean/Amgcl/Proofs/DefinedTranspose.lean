import Amgcl.Model.DefinedTranspose
import Amgcl.Proofs.DefinedKernels
import Amgcl.Proofs.RSTranspose
import Amgcl.Proofs.KernelsTranspose
/-!
# `backend::transpose` at cell level: the counting sort stores into every cell of `col` / `val`

`fill_foldG` is `RS.fill_fold` for an arbitrary payload type (here: heap cells); the count / scan / rotate parts are the
lemmas of `Proofs/RSTranspose.lean` and `Proofs/RSBucket.lean` re-used through the column projection `colsOf`.
-/
namespace Amgcl
namespace Defined
open RS

section generic
variable {β : Type}

/-- the columns of an entry list, in the shape `RS.cntE` expects -/
def colsOf (E : List (β × Nat)) : List (Nat × Nat) := E.map fun e => (0, e.2)
/-- number of entries in column `c` -/
def cntG (E : List (β × Nat)) (c : Nat) : Nat := cntE (colsOf E) c
/-- payloads of the entries of column `c`, in storage order -/
def bucketG (E : List (β × Nat)) (c : Nat) : List β := (E.filter fun e => decide (e.2 = c)).map (·.1)

theorem cntG_cons (e : β × Nat) (E : List (β × Nat)) (c : Nat) :
    cntG (e :: E) c = (if e.2 = c then 1 else 0) + cntG E c := by
  unfold cntG colsOf; rw [List.map_cons, cntE_cons]

theorem cntG_nil (c : Nat) : cntG ([] : List (β × Nat)) c = 0 := rfl

theorem bucketG_cons (e : β × Nat) (E : List (β × Nat)) (c : Nat) :
    bucketG (e :: E) c = if e.2 = c then e.1 :: bucketG E c else bucketG E c := by
  unfold bucketG
  rw [List.filter_cons]
  by_cases h : e.2 = c
  · simp [h]
  · simp [h]

theorem bucketG_length (E : List (β × Nat)) (c : Nat) : (bucketG E c).length = cntG E c := by
  unfold bucketG cntG cntE colsOf
  rw [List.length_map, List.filter_map, List.length_map]
  rfl

/-- `head = ptr[c]++; out[head] = payload` -/
def fillG (st : Array Nat × Array β) (e : β × Nat) : Array Nat × Array β :=
  (st.1.modify e.2 (· + 1), st.2.setIfInBounds (st.1.getD e.2 0) e.1)

/-- `RS.fill_fold` for an arbitrary payload -/
theorem fill_foldG (d : β) (n : Nat) (E : List (β × Nat)) (hE : ∀ e ∈ E, e.2 < n) (p : Array Nat) (out : Array β)
    (hp : p.size = n + 1)
    (hsep : ∀ c c', c < c' → c' < n → p.getD c 0 + cntG E c ≤ p.getD c' 0)
    (hroom : ∀ c, c < n → p.getD c 0 + cntG E c ≤ out.size) :
    (E.foldl fillG (p, out)).1.size = n + 1 ∧ (E.foldl fillG (p, out)).2.size = out.size ∧
    (∀ c, c < n → (E.foldl fillG (p, out)).1.getD c 0 = p.getD c 0 + cntG E c) ∧
    (∀ c, c < n → ∀ j, j < cntG E c →
      (E.foldl fillG (p, out)).2.getD (p.getD c 0 + j) d = (bucketG E c).getD j d) ∧
    (∀ q, (∀ c, c < n → ¬ (p.getD c 0 ≤ q ∧ q < p.getD c 0 + cntG E c)) →
      (E.foldl fillG (p, out)).2.getD q d = out.getD q d) := by
  induction E generalizing p out with
  | nil =>
    refine ⟨hp, rfl, fun c _ => by simp [cntG_nil], fun c _ j hj => ?_, fun q _ => rfl⟩
    simp [cntG_nil] at hj
  | cons e t ih =>
    rw [List.foldl_cons]
    have he := hE e (List.mem_cons_self ..)
    have hp' : ∀ c, (p.modify e.2 (· + 1)).getD c 0 = p.getD c 0 + if e.2 = c then 1 else 0 := by
      intro c
      rw [getD_modify, hp]
      by_cases h : e.2 = c
      · rw [if_pos ⟨h, by omega⟩, if_pos h]
      · have : ¬ (e.2 = c ∧ e.2 < n + 1) := fun x => h x.1
        rw [if_neg this, if_neg h]; rfl
    have hc1 : 1 ≤ cntG (e :: t) e.2 := by rw [cntG_cons, if_pos rfl]; omega
    have hin : p.getD e.2 0 < out.size := by have := hroom e.2 he; omega
    obtain ⟨i1, i2, i3, i4, i5⟩ := ih (fun x hx => hE x (List.mem_cons_of_mem _ hx)) (p.modify e.2 (· + 1))
      (out.setIfInBounds (p.getD e.2 0) e.1) (by rw [Array.size_modify, hp])
      (by
        intro c c' hcc hc'
        have := hsep c c' hcc hc'
        rw [hp' c, hp' c']
        have hk := cntG_cons e t c
        split at hk <;> split <;> split <;> omega)
      (by
        intro c hc
        have := hroom c hc
        rw [hp' c, Array.size_setIfInBounds]
        have hk := cntG_cons e t c
        split at hk <;> split <;> omega)
    have hfill : (fillG (p, out) e) = (p.modify e.2 (· + 1), out.setIfInBounds (p.getD e.2 0) e.1) := rfl
    rw [hfill]
    refine ⟨i1, by rw [i2, Array.size_setIfInBounds], fun c hc => ?_, fun c hc j hj => ?_, fun q hq => ?_⟩
    · rw [i3 c hc, hp' c, cntG_cons]; split <;> omega
    · rw [cntG_cons] at hj
      rw [bucketG_cons]
      by_cases hce : e.2 = c
      · rw [if_pos hce]
        rw [if_pos hce] at hj
        by_cases hj0 : j = 0
        · subst hj0
          rw [Nat.add_zero, ← hce]
          rw [i5 (p.getD e.2 0)]
          · rw [getD_set, if_pos ⟨rfl, hin⟩]; rfl
          · intro c' hc'
            rw [hp' c']
            by_cases hc'e : e.2 = c'
            · rw [if_pos hc'e, ← hc'e]; omega
            · rw [if_neg hc'e]
              rcases Nat.lt_or_gt_of_ne hc'e with hlt | hgt
              · have := hsep e.2 c' hlt hc'; omega
              · have := hsep c' e.2 hgt he
                rw [cntG_cons, if_neg hc'e] at this; omega
        · have := i4 c hc (j - 1) (by omega)
          rw [hp' c, if_pos hce] at this
          have e1 : p.getD c 0 + 1 + (j - 1) = p.getD c 0 + j := by omega
          rw [e1] at this
          rw [this]
          obtain ⟨j', rfl⟩ : ∃ j', j = j' + 1 := ⟨j - 1, by omega⟩
          simp
      · rw [if_neg hce]
        rw [if_neg hce] at hj
        have := i4 c hc j (by omega)
        rw [hp' c, if_neg hce] at this
        simpa using this
    · rw [i5 q]
      · rw [getD_set]
        have : ¬ (p.getD e.2 0 = q ∧ p.getD e.2 0 < out.size) := by
          intro h
          exact hq e.2 he ⟨by omega, by omega⟩
        rw [if_neg this]
      · intro c hc hh
        apply hq c hc
        rw [hp' c] at hh
        rw [cntG_cons]
        split at hh <;> rename_i hce
        · rw [if_pos hce]; omega
        · rw [if_neg hce]; omega

/-- the count pass through the column projection -/
theorem count_foldG (n : Nat) (E : List (β × Nat)) (hE : ∀ e ∈ E, e.2 < n) (p : Array Nat) (hp : p.size = n + 1) :
    (E.foldl (fun p e => p.modify (e.2 + 1) (· + 1)) p).size = n + 1 ∧
    ∀ k, (E.foldl (fun p e => p.modify (e.2 + 1) (· + 1)) p).getD k 0
      = p.getD k 0 + if k = 0 then 0 else cntG E (k - 1) := by
  have h := count_fold n (colsOf E) (by
    intro e he
    unfold colsOf at he
    obtain ⟨x, hx, rfl⟩ := List.mem_map.mp he
    exact hE x hx) p hp
  have e : (colsOf E).foldl (fun p e => p.modify (e.2 + 1) (· + 1)) p
      = E.foldl (fun p e => p.modify (e.2 + 1) (· + 1)) p := by
    unfold colsOf; rw [List.foldl_map]
  rw [e] at h
  exact h

theorem pre_cntG_eq (E : List (β × Nat)) (n : Nat) (hE : ∀ e ∈ E, e.2 < n) : pre (cntG E) n = E.length := by
  have := pre_cntE_eq (colsOf E) n (by
    intro e he
    unfold colsOf at he
    obtain ⟨x, hx, rfl⟩ := List.mem_map.mp he
    exact hE x hx)
  unfold colsOf at this
  rw [List.length_map] at this
  exact this

end generic

end Defined
end Amgcl
