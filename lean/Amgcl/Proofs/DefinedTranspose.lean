import Amgcl.Model.DefinedTranspose
import Amgcl.Proofs.DefinedKernels
import Amgcl.Proofs.RSTranspose
import Amgcl.Proofs.KernelsTranspose
/-!
# `backend::transpose` at cell level: the counting sort stores into every cell of `col` / `val`

`fill_foldG` is `RS.fill_fold` for an arbitrary payload type (here: heap cells); the count / scan / rotate parts are the
lemmas of `Proofs/RSTranspose.lean` and `Proofs/RSBucket.lean` re-used through the column projection `colsOf`.
-/
namespace Amgcl
namespace Defined
open RS

section generic
variable {β : Type}

/-- the columns of an entry list, in the shape `RS.cntE` expects -/
def colsOf (E : List (β × Nat)) : List (Nat × Nat) := E.map fun e => (0, e.2)
/-- number of entries in column `c` -/
def cntG (E : List (β × Nat)) (c : Nat) : Nat := cntE (colsOf E) c
/-- payloads of the entries of column `c`, in storage order -/
def bucketG (E : List (β × Nat)) (c : Nat) : List β := (E.filter fun e => decide (e.2 = c)).map (·.1)

theorem cntG_cons (e : β × Nat) (E : List (β × Nat)) (c : Nat) :
    cntG (e :: E) c = (if e.2 = c then 1 else 0) + cntG E c := by
  unfold cntG colsOf; rw [List.map_cons, cntE_cons]

theorem cntG_nil (c : Nat) : cntG ([] : List (β × Nat)) c = 0 := rfl

theorem bucketG_cons (e : β × Nat) (E : List (β × Nat)) (c : Nat) :
    bucketG (e :: E) c = if e.2 = c then e.1 :: bucketG E c else bucketG E c := by
  unfold bucketG
  rw [List.filter_cons]
  by_cases h : e.2 = c
  · simp [h]
  · simp [h]

theorem bucketG_length (E : List (β × Nat)) (c : Nat) : (bucketG E c).length = cntG E c := by
  unfold bucketG cntG cntE colsOf
  rw [List.length_map, List.filter_map, List.length_map]
  rfl

/-- `head = ptr[c]++; out[head] = payload` -/
def fillG (st : Array Nat × Array β) (e : β × Nat) : Array Nat × Array β :=
  (st.1.modify e.2 (· + 1), st.2.setIfInBounds (st.1.getD e.2 0) e.1)

/-- `RS.fill_fold` for an arbitrary payload -/
theorem fill_foldG (d : β) (n : Nat) (E : List (β × Nat)) (hE : ∀ e ∈ E, e.2 < n) (p : Array Nat) (out : Array β)
    (hp : p.size = n + 1)
    (hsep : ∀ c c', c < c' → c' < n → p.getD c 0 + cntG E c ≤ p.getD c' 0)
    (hroom : ∀ c, c < n → p.getD c 0 + cntG E c ≤ out.size) :
    (E.foldl fillG (p, out)).1.size = n + 1 ∧ (E.foldl fillG (p, out)).2.size = out.size ∧
    (∀ c, c < n → (E.foldl fillG (p, out)).1.getD c 0 = p.getD c 0 + cntG E c) ∧
    (∀ c, c < n → ∀ j, j < cntG E c →
      (E.foldl fillG (p, out)).2.getD (p.getD c 0 + j) d = (bucketG E c).getD j d) ∧
    (∀ q, (∀ c, c < n → ¬ (p.getD c 0 ≤ q ∧ q < p.getD c 0 + cntG E c)) →
      (E.foldl fillG (p, out)).2.getD q d = out.getD q d) := by
  induction E generalizing p out with
  | nil =>
    refine ⟨hp, rfl, fun c _ => by simp [cntG_nil], fun c _ j hj => ?_, fun q _ => rfl⟩
    simp [cntG_nil] at hj
  | cons e t ih =>
    rw [List.foldl_cons]
    have he := hE e (List.mem_cons_self ..)
    have hp' : ∀ c, (p.modify e.2 (· + 1)).getD c 0 = p.getD c 0 + if e.2 = c then 1 else 0 := by
      intro c
      rw [getD_modify, hp]
      by_cases h : e.2 = c
      · rw [if_pos ⟨h, by omega⟩, if_pos h]
      · have : ¬ (e.2 = c ∧ e.2 < n + 1) := fun x => h x.1
        rw [if_neg this, if_neg h]; rfl
    have hc1 : 1 ≤ cntG (e :: t) e.2 := by rw [cntG_cons, if_pos rfl]; omega
    have hin : p.getD e.2 0 < out.size := by have := hroom e.2 he; omega
    obtain ⟨i1, i2, i3, i4, i5⟩ := ih (fun x hx => hE x (List.mem_cons_of_mem _ hx)) (p.modify e.2 (· + 1))
      (out.setIfInBounds (p.getD e.2 0) e.1) (by rw [Array.size_modify, hp])
      (by
        intro c c' hcc hc'
        have := hsep c c' hcc hc'
        rw [hp' c, hp' c']
        have hk := cntG_cons e t c
        split at hk <;> split <;> split <;> omega)
      (by
        intro c hc
        have := hroom c hc
        rw [hp' c, Array.size_setIfInBounds]
        have hk := cntG_cons e t c
        split at hk <;> split <;> omega)
    have hfill : (fillG (p, out) e) = (p.modify e.2 (· + 1), out.setIfInBounds (p.getD e.2 0) e.1) := rfl
    rw [hfill]
    refine ⟨i1, by rw [i2, Array.size_setIfInBounds], fun c hc => ?_, fun c hc j hj => ?_, fun q hq => ?_⟩
    · rw [i3 c hc, hp' c, cntG_cons]; split <;> omega
    · rw [cntG_cons] at hj
      rw [bucketG_cons]
      by_cases hce : e.2 = c
      · rw [if_pos hce]
        rw [if_pos hce] at hj
        by_cases hj0 : j = 0
        · subst hj0
          rw [Nat.add_zero, ← hce]
          rw [i5 (p.getD e.2 0)]
          · rw [getD_set, if_pos ⟨rfl, hin⟩]; rfl
          · intro c' hc'
            rw [hp' c']
            by_cases hc'e : e.2 = c'
            · rw [if_pos hc'e, ← hc'e]; omega
            · rw [if_neg hc'e]
              rcases Nat.lt_or_gt_of_ne hc'e with hlt | hgt
              · have := hsep e.2 c' hlt hc'; omega
              · have := hsep c' e.2 hgt he
                rw [cntG_cons, if_neg hc'e] at this; omega
        · have := i4 c hc (j - 1) (by omega)
          rw [hp' c, if_pos hce] at this
          have e1 : p.getD c 0 + 1 + (j - 1) = p.getD c 0 + j := by omega
          rw [e1] at this
          rw [this]
          obtain ⟨j', rfl⟩ : ∃ j', j = j' + 1 := ⟨j - 1, by omega⟩
          simp
      · rw [if_neg hce]
        rw [if_neg hce] at hj
        have := i4 c hc j (by omega)
        rw [hp' c, if_neg hce] at this
        simpa using this
    · rw [i5 q]
      · rw [getD_set]
        have : ¬ (p.getD e.2 0 = q ∧ p.getD e.2 0 < out.size) := by
          intro h
          exact hq e.2 he ⟨by omega, by omega⟩
        rw [if_neg this]
      · intro c hc hh
        apply hq c hc
        rw [hp' c] at hh
        rw [cntG_cons]
        split at hh <;> rename_i hce
        · rw [if_pos hce]; omega
        · rw [if_neg hce]; omega

/-- the count pass through the column projection -/
theorem count_foldG (n : Nat) (E : List (β × Nat)) (hE : ∀ e ∈ E, e.2 < n) (p : Array Nat) (hp : p.size = n + 1) :
    (E.foldl (fun p e => p.modify (e.2 + 1) (· + 1)) p).size = n + 1 ∧
    ∀ k, (E.foldl (fun p e => p.modify (e.2 + 1) (· + 1)) p).getD k 0
      = p.getD k 0 + if k = 0 then 0 else cntG E (k - 1) := by
  have h := count_fold n (colsOf E) (by
    intro e he
    unfold colsOf at he
    obtain ⟨x, hx, rfl⟩ := List.mem_map.mp he
    exact hE x hx) p hp
  have e : (colsOf E).foldl (fun p e => p.modify (e.2 + 1) (· + 1)) p
      = E.foldl (fun p e => p.modify (e.2 + 1) (· + 1)) p := by
    unfold colsOf; rw [List.foldl_map]
  rw [e] at h
  exact h

theorem pre_cntG_eq (E : List (β × Nat)) (n : Nat) (hE : ∀ e ∈ E, e.2 < n) : pre (cntG E) n = E.length := by
  have := pre_cntE_eq (colsOf E) n (by
    intro e he
    unfold colsOf at he
    obtain ⟨x, hx, rfl⟩ := List.mem_map.mp he
    exact hE x hx)
  unfold colsOf at this
  rw [List.length_map] at this
  exact this

end generic

/-! ### projections of the three-array fill onto two generic fills -/
section proj
variable {K : Type}

/-- entries with the `col` payload as a written cell -/
def colEnts (E : List ((Nat × K) × Nat)) : List (Cell Nat × Nat) := E.map fun e => (⟨e.1.1, true⟩, e.2)
/-- entries with the `val` payload as a written cell -/
def valEnts (adj : K → K) (E : List ((Nat × K) × Nat)) : List (Cell K × Nat) := E.map fun e => (⟨adj e.1.2, true⟩, e.2)

theorem trFill_proj (adj : K → K) (E : List ((Nat × K) × Nat)) (p : Array Nat) (c : Array (Cell Nat))
    (v : Array (Cell K)) :
    (E.foldl (trFillStep adj) ⟨p, c, v⟩).ptr = ((colEnts E).foldl fillG (p, c)).1 ∧
    (E.foldl (trFillStep adj) ⟨p, c, v⟩).col = ((colEnts E).foldl fillG (p, c)).2 ∧
    (E.foldl (trFillStep adj) ⟨p, c, v⟩).val = ((valEnts adj E).foldl fillG (p, v)).2 := by
  induction E generalizing p c v with
  | nil => exact ⟨rfl, rfl, rfl⟩
  | cons e t ih =>
    simp only [List.foldl_cons, colEnts, valEnts, List.map_cons]
    exact ih _ _ _

theorem cntG_map {β γ : Type} (f : β → γ) (E : List (β × Nat)) (c : Nat) :
    cntG (E.map fun e => (f e.1, e.2)) c = cntG E c := by
  unfold cntG colsOf; rw [List.map_map]; rfl

theorem bucketG_map {β γ : Type} (f : β → γ) (E : List (β × Nat)) (c : Nat) :
    bucketG (E.map fun e => (f e.1, e.2)) c = (bucketG E c).map f := by
  induction E with
  | nil => rfl
  | cons e t ih =>
    rw [List.map_cons, bucketG_cons, bucketG_cons, ih]
    by_cases h : e.2 = c
    · simp [h]
    · simp [h]

theorem zeroFillRows_size [Zero K] (n : Nat) (ptr : Array Nat) (col : Array (Cell Nat)) (val : Array (Cell K)) :
    (zeroFillRows n ptr col val).1.size = col.size ∧ (zeroFillRows n ptr col val).2.size = val.size := by
  unfold zeroFillRows
  have inner : ∀ (l : List Nat) (cv : Array (Cell Nat) × Array (Cell K)),
      (l.foldl (fun (cv : Array (Cell Nat) × Array (Cell K)) j => (store cv.1 j 0, store cv.2 j 0)) cv).1.size = cv.1.size ∧
      (l.foldl (fun (cv : Array (Cell Nat) × Array (Cell K)) j => (store cv.1 j 0, store cv.2 j 0)) cv).2.size = cv.2.size := by
    intro l
    induction l with
    | nil => intro cv; exact ⟨rfl, rfl⟩
    | cons j t ih =>
      intro cv
      rw [List.foldl_cons]
      obtain ⟨a, b⟩ := ih (store cv.1 j 0, store cv.2 j 0)
      exact ⟨by rw [a, store_size], by rw [b, store_size]⟩
  have outer : ∀ (l : List Nat) (cv : Array (Cell Nat) × Array (Cell K)),
      (l.foldl (fun cv i =>
        (List.range' (ptr.getD i 0) (ptr.getD (i + 1) 0 - ptr.getD i 0)).foldl
          (fun (cv : Array (Cell Nat) × Array (Cell K)) j => (store cv.1 j 0, store cv.2 j 0)) cv) cv).1.size = cv.1.size ∧
      (l.foldl (fun cv i =>
        (List.range' (ptr.getD i 0) (ptr.getD (i + 1) 0 - ptr.getD i 0)).foldl
          (fun (cv : Array (Cell Nat) × Array (Cell K)) j => (store cv.1 j 0, store cv.2 j 0)) cv) cv).2.size = cv.2.size := by
    intro l
    induction l with
    | nil => intro cv; exact ⟨rfl, rfl⟩
    | cons i t ih =>
      intro cv
      rw [List.foldl_cons]
      obtain ⟨a, b⟩ := ih ((List.range' (ptr.getD i 0) (ptr.getD (i + 1) 0 - ptr.getD i 0)).foldl
          (fun (cv : Array (Cell Nat) × Array (Cell K)) j => (store cv.1 j 0, store cv.2 j 0)) cv)
      obtain ⟨a', b'⟩ := inner (List.range' (ptr.getD i 0) (ptr.getD (i + 1) 0 - ptr.getD i 0)) cv
      exact ⟨by rw [a, a'], by rw [b, b']⟩
  exact outer _ _

end proj

/-! ### flat indexing of a row-level matrix -/
section flat
variable {K : Type}

theorem flatUpTo_length_pre (rows : Array (Row K)) (k : Nat) (hk : k ≤ rows.size) :
    (flatUpTo rows k).length = pre (fun c => (rows.getD c []).length) k := by
  induction k with
  | zero => simp [flatUpTo_zero]
  | succ k ih => rw [flatUpTo_succ rows k (by omega), List.length_append, ih (by omega), pre_succ]

theorem flatRows_get_group (rows : Array (Row K)) (l j : Nat) (hl : l < rows.size)
    (hj : j < (rows.getD l []).length) :
    (flatRows rows)[(flatUpTo rows l).length + j]? = (rows.getD l [])[j]? := by
  have h1 : flatRows rows = flatUpTo rows (l + 1) ++ (rows.toList.drop (l + 1)).flatten := by
    unfold flatRows flatUpTo
    rw [← List.flatten_append, List.take_append_drop]
  rw [h1, flatUpTo_succ rows l hl]
  rw [List.getElem?_append_left (by rw [List.length_append]; omega)]
  rw [List.getElem?_append_right (by omega)]
  rw [show (flatUpTo rows l).length + j - (flatUpTo rows l).length = j by omega]

end flat

/-! ### the entries of `A` and the rows of `transpose adj A` -/
section entries
variable {K : Type}

theorem trEntries_col_lt (A : CRS K) (hcols : ∀ i, i < A.nrows → ∀ cv ∈ A.row i, cv.1 < A.ncols) :
    ∀ e ∈ trEntries A, e.2 < A.ncols := by
  intro e he
  unfold trEntries at he
  obtain ⟨i, hi, hm⟩ := List.mem_flatMap.mp he
  obtain ⟨cv, hcv, rfl⟩ := List.mem_map.mp hm
  exact hcols i (List.mem_range.mp hi) cv hcv

theorem bucket_trEntries (adj : K → K) (A : CRS K) (c : Nat) :
    (bucketG (trEntries A) c).map (fun x => (x.1, adj x.2)) = (List.range A.nrows).flatMap (trContrib adj A c) := by
  unfold bucketG trEntries
  rw [List.filter_flatMap, List.map_flatMap, List.map_flatMap]
  congr 1
  funext i
  unfold trContrib
  induction A.row i with
  | nil => rfl
  | cons cv t ih =>
    rw [List.map_cons, List.filter_cons, List.filterMap_cons]
    by_cases h : cv.1 = c
    · simp only [h, decide_true, if_true, List.map_cons]
      rw [ih]
    · simp only [h, decide_false, Bool.false_eq_true, if_false]
      exact ih

theorem transpose_row_bucket (adj : K → K) (A : CRS K) (c : Nat) (hc : c < A.ncols) :
    (transpose adj A).rows.getD c [] = (bucketG (trEntries A) c).map (fun x => (x.1, adj x.2)) := by
  rw [bucket_trEntries]
  exact transpose_row adj A c hc

end entries

/-! ### the whole transposition -/
section main
variable {K : Type}

theorem load_of_getD {α : Type} (a : Array (Cell α)) (i : Nat) (d : Cell α) (x : α) (hi : i < a.size)
    (h : a.getD i d = ⟨x, true⟩) : load a i = some x := by
  unfold load
  rw [Array.getElem?_eq_getElem hi]
  have : a[i] = ⟨x, true⟩ := by
    simpa [Array.getD_eq_getD_getElem?, Array.getElem?_eq_getElem hi] using h
  rw [this]
  rfl

/-- the fill pass from the scanned pointers, on ANY initial content of `col` / `val` of the right size -/
theorem trFill_spec [Zero K] (adj : K → K) (A : CRS K)
    (hcols : ∀ i, i < A.nrows → ∀ cv ∈ A.row i, cv.1 < A.ncols) (p2 : Array Nat) (hp2 : p2.size = A.ncols + 1)
    (hptr : ∀ l, l ≤ A.ncols → p2.getD l 0 = pre (cntG (trEntries A)) l)
    (c0 : Array (Cell Nat)) (v0 : Array (Cell K)) (hc0 : c0.size = (trEntries A).length)
    (hv0 : v0.size = (trEntries A).length) :
    ({ (trEntries A).foldl (trFillStep adj) ⟨p2, c0, v0⟩ with
        ptr := rotatePtr A.ncols ((trEntries A).foldl (trFillStep adj) ⟨p2, c0, v0⟩).ptr } : TrState K)
      = TrState.ofRows (transpose adj A).rows := by
  have hE := trEntries_col_lt A hcols
  have htot : pre (cntG (trEntries A)) A.ncols = (trEntries A).length := pre_cntG_eq _ _ hE
  obtain ⟨q1, q2, q3⟩ := trFill_proj adj (trEntries A) p2 c0 v0
  have hcntC : ∀ c, cntG (colEnts (trEntries A)) c = cntG (trEntries A) c :=
    fun c => cntG_map (fun x : Nat × K => (⟨x.1, true⟩ : Cell Nat)) (trEntries A) c
  have hcntV : ∀ c, cntG (valEnts adj (trEntries A)) c = cntG (trEntries A) c :=
    fun c => cntG_map (fun x : Nat × K => (⟨adj x.2, true⟩ : Cell K)) (trEntries A) c
  have hbC : ∀ c, bucketG (colEnts (trEntries A)) c
      = (bucketG (trEntries A) c).map (fun x : Nat × K => (⟨x.1, true⟩ : Cell Nat)) :=
    fun c => bucketG_map (fun x : Nat × K => (⟨x.1, true⟩ : Cell Nat)) (trEntries A) c
  have hbV : ∀ c, bucketG (valEnts adj (trEntries A)) c
      = (bucketG (trEntries A) c).map (fun x : Nat × K => (⟨adj x.2, true⟩ : Cell K)) :=
    fun c => bucketG_map (fun x : Nat × K => (⟨adj x.2, true⟩ : Cell K)) (trEntries A) c
  have hEC : ∀ e ∈ colEnts (trEntries A), e.2 < A.ncols := by
    intro e he
    unfold colEnts at he
    obtain ⟨x, hx, rfl⟩ := List.mem_map.mp he
    exact hE x hx
  have hEV : ∀ e ∈ valEnts adj (trEntries A), e.2 < A.ncols := by
    intro e he
    unfold valEnts at he
    obtain ⟨x, hx, rfl⟩ := List.mem_map.mp he
    exact hE x hx
  have hsep : ∀ c c', c < c' → c' < A.ncols → p2.getD c 0 + cntG (trEntries A) c ≤ p2.getD c' 0 := by
    intro c c' hcc hc'
    rw [hptr c (by omega), hptr c' (by omega)]
    exact pre_end_le _ hcc
  have hroom : ∀ c, c < A.ncols → p2.getD c 0 + cntG (trEntries A) c ≤ (trEntries A).length := by
    intro c hc
    rw [hptr c (by omega), ← htot]
    exact pre_end_le _ hc
  obtain ⟨f1, f2, f3, f4, _⟩ := fill_foldG (⟨0, false⟩ : Cell Nat) A.ncols (colEnts (trEntries A)) hEC p2 c0 hp2
    (by intro c c' a b; rw [hcntC]; exact hsep c c' a b) (by intro c a; rw [hcntC, hc0]; exact hroom c a)
  obtain ⟨_, g2, _, g4, _⟩ := fill_foldG (⟨0, false⟩ : Cell K) A.ncols (valEnts adj (trEntries A)) hEV p2 v0 hp2
    (by intro c c' a b; rw [hcntV]; exact hsep c c' a b) (by intro c a; rw [hcntV, hv0]; exact hroom c a)
  -- the rows of the row-level transpose
  have hsz : (transpose adj A).rows.size = A.ncols := transpose_nrows adj A
  have hrow : ∀ c, c < A.ncols → (transpose adj A).rows.getD c []
      = (bucketG (trEntries A) c).map (fun x => (x.1, adj x.2)) := fun c hc => transpose_row_bucket adj A c hc
  have hlen : ∀ c, c < A.ncols → ((transpose adj A).rows.getD c []).length = cntG (trEntries A) c := by
    intro c hc; rw [hrow c hc, List.length_map, bucketG_length]
  have hpre : ∀ k, k ≤ A.ncols → (flatUpTo (transpose adj A).rows k).length = pre (cntG (trEntries A)) k := by
    intro k hk
    rw [flatUpTo_length_pre _ k (by rw [hsz]; exact hk)]
    exact pre_congr (fun c hc => (hlen c (by omega)))
  have hnnz : (flatRows (transpose adj A).rows).length = (trEntries A).length := by
    rw [← flatUpTo_all, hsz, hpre _ (Nat.le_refl _), htot]
  have hP : rotatePtr A.ncols ((trEntries A).foldl (trFillStep adj) ⟨p2, c0, v0⟩).ptr
      = (ptrList (transpose adj A).rows).toArray := by
    rw [q1]
    apply Array.ext
    · rw [(rotatePtr_getD A.ncols _ f1 0).1]; simp [ptrList_length, hsz]
    · intro k h1 h2
      have hk : k ≤ A.ncols := by rw [(rotatePtr_getD A.ncols _ f1 0).1] at h1; omega
      have hr := (rotatePtr_getD A.ncols _ f1 k).2
      simp only [Array.getD_eq_getD_getElem?, Array.getElem?_eq_getElem h1, Option.getD_some] at hr
      rw [hr, ptrList_getElem, hpre k hk]
      by_cases hk0 : k = 0
      · subst hk0; rfl
      · rw [if_neg hk0, if_pos hk]
        have := f3 (k - 1) (by omega)
        simp only [Array.getD_eq_getD_getElem?] at this
        rw [this]
        have h3 := hptr (k - 1) (by omega)
        simp only [Array.getD_eq_getD_getElem?] at h3
        rw [h3, hcntC]
        have : k = (k - 1) + 1 := by omega
        conv_rhs => rw [this, pre_succ]
  have hC : ((trEntries A).foldl (trFillStep adj) ⟨p2, c0, v0⟩).col
      = written ((flatRows (transpose adj A).rows).map (·.1)).toArray := by
    rw [q2]
    apply eq_written_of_load
    · rw [f2, hc0]; simp [hnnz]
    · intro i hi
      have hi' : i < (trEntries A).length := by simpa [hnnz] using hi
      obtain ⟨l, hl, g1, g2'⟩ := exists_group (cntG (trEntries A)) A.ncols i (by rw [htot]; exact hi')
      have hj : i - pre (cntG (trEntries A)) l < cntG (trEntries A) l := by omega
      have hjb : i - pre (cntG (trEntries A)) l < (bucketG (trEntries A) l).length := by
        rw [bucketG_length]; exact hj
      have h4 := f4 l hl (i - pre (cntG (trEntries A)) l) (by rw [hcntC]; exact hj)
      rw [hptr l (by omega), show pre (cntG (trEntries A)) l + (i - pre (cntG (trEntries A)) l) = i by omega,
        hbC] at h4
      have hget := flatRows_get_group (transpose adj A).rows l (i - pre (cntG (trEntries A)) l) (by rw [hsz]; exact hl)
        (by rw [hlen l hl]; exact hj)
      rw [hpre l (by omega), show pre (cntG (trEntries A)) l + (i - pre (cntG (trEntries A)) l) = i by omega,
        hrow l hl] at hget
      have hv : (((flatRows (transpose adj A).rows).map (·.1)).toArray)[i]
          = ((bucketG (trEntries A) l)[i - pre (cntG (trEntries A)) l]).1 := by
        have : (((flatRows (transpose adj A).rows).map (·.1)).toArray)[i]?
            = some ((bucketG (trEntries A) l)[i - pre (cntG (trEntries A)) l]).1 := by
          simp only [List.getElem?_toArray, List.getElem?_map, hget]
          simp [hjb]
        rw [Array.getElem?_eq_getElem hi] at this
        exact Option.some.inj this
      rw [hv]
      apply load_of_getD _ _ (⟨0, false⟩ : Cell Nat) _ (by rw [f2, hc0]; exact hi')
      rw [h4]
      simp [List.getD_eq_getElem?_getD, hjb]
  have hV : ((trEntries A).foldl (trFillStep adj) ⟨p2, c0, v0⟩).val
      = written ((flatRows (transpose adj A).rows).map (·.2)).toArray := by
    rw [q3]
    apply eq_written_of_load
    · rw [g2, hv0]; simp [hnnz]
    · intro i hi
      have hi' : i < (trEntries A).length := by simpa [hnnz] using hi
      obtain ⟨l, hl, g1, g2'⟩ := exists_group (cntG (trEntries A)) A.ncols i (by rw [htot]; exact hi')
      have hj : i - pre (cntG (trEntries A)) l < cntG (trEntries A) l := by omega
      have hjb : i - pre (cntG (trEntries A)) l < (bucketG (trEntries A) l).length := by
        rw [bucketG_length]; exact hj
      have h4 := g4 l hl (i - pre (cntG (trEntries A)) l) (by rw [hcntV]; exact hj)
      rw [hptr l (by omega), show pre (cntG (trEntries A)) l + (i - pre (cntG (trEntries A)) l) = i by omega,
        hbV] at h4
      have hget := flatRows_get_group (transpose adj A).rows l (i - pre (cntG (trEntries A)) l) (by rw [hsz]; exact hl)
        (by rw [hlen l hl]; exact hj)
      rw [hpre l (by omega), show pre (cntG (trEntries A)) l + (i - pre (cntG (trEntries A)) l) = i by omega,
        hrow l hl] at hget
      have hv : (((flatRows (transpose adj A).rows).map (·.2)).toArray)[i]
          = adj ((bucketG (trEntries A) l)[i - pre (cntG (trEntries A)) l]).2 := by
        have : (((flatRows (transpose adj A).rows).map (·.2)).toArray)[i]?
            = some (adj ((bucketG (trEntries A) l)[i - pre (cntG (trEntries A)) l]).2) := by
          simp only [List.getElem?_toArray, List.getElem?_map, hget]
          simp [hjb]
        rw [Array.getElem?_eq_getElem hi] at this
        exact Option.some.inj this
      rw [hv]
      apply load_of_getD _ _ (⟨0, false⟩ : Cell K) _ (by rw [g2, hv0]; exact hi')
      rw [h4]
      simp [List.getD_eq_getElem?_getD, hjb]
  unfold TrState.ofRows
  simp only [hP, hC, hV]

/-- **`backend::transpose` at cell level** equals the flat image of the row-level model, with or without the zero fill
of `set_nonzeros()`, for every prior heap content -/
theorem transposeCells_spec [Zero K] (adj : K → K) (A : CRS K)
    (hcols : ∀ i, i < A.nrows → ∀ cv ∈ A.row i, cv.1 < A.ncols) (zf : Bool)
    (jc : Nat → Array Nat) (jv : Nat → Array K) (hc : ∀ k, (jc k).size = k) (hv : ∀ k, (jv k).size = k) :
    transposeCells adj A zf jc jv = TrState.ofRows (transpose adj A).rows := by
  have hE := trEntries_col_lt A hcols
  obtain ⟨c1, c2⟩ := count_foldG A.ncols (trEntries A) hE (Array.replicate (A.ncols + 1) 0) (by simp)
  obtain ⟨pss, psv⟩ := partialSumNat_spec
    ((trEntries A).foldl (fun p e => p.modify (e.2 + 1) (· + 1)) (Array.replicate (A.ncols + 1) 0))
  have hz : ∀ k, (Array.replicate (A.ncols + 1) 0).getD k 0 = 0 := by
    intro k
    simp only [Array.getD_eq_getD_getElem?, Array.getElem?_replicate]
    split <;> rfl
  have hptr1 : ∀ l, l ≤ A.ncols →
      (partialSumNat ((trEntries A).foldl (fun p e => p.modify (e.2 + 1) (· + 1))
        (Array.replicate (A.ncols + 1) 0))).getD l 0 = pre (cntG (trEntries A)) l := by
    intro l hl
    rw [psv l (by rw [c1]; omega), pre_shift _ (by rw [c2 0, hz]; rfl)]
    apply pre_congr
    intro k _
    show ((trEntries A).foldl (fun p e => p.modify (e.2 + 1) (· + 1)) (Array.replicate (A.ncols + 1) 0)).getD (k + 1) 0 = _
    rw [c2 (k + 1), hz, if_neg (by omega)]; simp
  have htot : pre (cntG (trEntries A)) A.ncols = (trEntries A).length := pre_cntG_eq _ _ hE
  unfold transposeCells
  simp only
  have hn := hptr1 A.ncols (Nat.le_refl _)
  rw [htot] at hn
  cases zf with
  | false =>
    simp only [Bool.false_eq_true, if_false]
    exact trFill_spec adj A hcols _ (by rw [pss, c1]) hptr1 _ _ (by rw [alloc_size, hc, hn]) (by rw [alloc_size, hv, hn])
  | true =>
    simp only [if_true]
    obtain ⟨z1, z2⟩ := zeroFillRows_size (K := K) A.ncols
      (partialSumNat ((trEntries A).foldl (fun p e => p.modify (e.2 + 1) (· + 1)) (Array.replicate (A.ncols + 1) 0)))
      (alloc (jc ((partialSumNat ((trEntries A).foldl (fun p e => p.modify (e.2 + 1) (· + 1))
        (Array.replicate (A.ncols + 1) 0))).getD A.ncols 0)))
      (alloc (jv ((partialSumNat ((trEntries A).foldl (fun p e => p.modify (e.2 + 1) (· + 1))
        (Array.replicate (A.ncols + 1) 0))).getD A.ncols 0)))
    exact trFill_spec adj A hcols _ (by rw [pss, c1]) hptr1 _ _ (by rw [z1, alloc_size, hc, hn])
      (by rw [z2, alloc_size, hv, hn])

end main

end Defined
end Amgcl
