import Amgcl.Proofs.IOMMLex
import Amgcl.Proofs.IOMMSlice
import Amgcl.Model.IOBinary
/-!
MatrixMarket round trip `read (write A) = A` (helper file for C19).
-/
namespace Amgcl.IO
variable {V : Type} {dom : V → Prop}

/-- what the round trip needs from a value kind, on the set `dom` of values it is claimed for (finite numbers;
`int`s inside the 32-bit range): the printed value contains no newline, and `read_value` applied to the printed
value (alone on a line, or behind the blank that separates it from the indices) returns that value -/
structure ValKind.RoundTrip (vk : ValKind V) (dom : V → Prop) : Prop where
  noNL : ∀ v, dom v → ∀ c ∈ vk.write v, c ≠ 10
  read_write : ∀ v, dom v → ∃ r, vk.read (vk.write v) = some (v, r)
  read_sp_write : ∀ v, dom v → ∃ r, vk.read (32 :: vk.write v) = some (v, r)
  flags : ¬ (vk.isComplex = true ∧ vk.isIntegral = true)

/-- the text line of one entry -/
def entryLine (vk : ValKind V) (e : Nat × Nat × V) : Bytes :=
  natDec (e.1 + 1) ++ 32 :: (natDec (e.2.1 + 1) ++ 32 :: vk.write e.2.2)

/-- the entries of the rows `rows` numbered from `i`, in writing order -/
def entriesFrom (i : Nat) : List (Row V) → List (Nat × Nat × V)
  | [] => []
  | r :: t => r.map (fun cv => (i, cv.1, cv.2)) ++ entriesFrom (i + 1) t

theorem natDec_no_nl (n : Nat) : ∀ c ∈ natDec n, c ≠ 10 :=
  fun c hc => isDigit_ne_nl c ((natDec_spec n).2.1 c hc)

theorem entryLine_no_nl (vk : ValKind V) (hvk : vk.RoundTrip dom) (e : Nat × Nat × V) (he : dom e.2.2) :
    ∀ c ∈ entryLine vk e, c ≠ 10 := by
  intro c hc
  unfold entryLine at hc
  simp only [List.mem_append, List.mem_cons] at hc
  rcases hc with hc | rfl | hc | rfl | hc
  · exact natDec_no_nl _ c hc
  · omega
  · exact natDec_no_nl _ c hc
  · omega
  · exact hvk.noNL _ he c hc

theorem splitLines_writeRow (vk : ValKind V) (hvk : vk.RoundTrip dom) (i : Nat) (r : Row V) (rest : Bytes)
    (hr : ∀ cv ∈ r, dom cv.2) :
    splitLines (writeRow vk i r ++ rest)
      = (r.map (fun cv => entryLine vk (i, cv.1, cv.2))) ++ splitLines rest := by
  induction r with
  | nil => rfl
  | cons cv t ih =>
    obtain ⟨c, v⟩ := cv
    have : writeRow vk i ((c, v) :: t) ++ rest = entryLine vk (i, c, v) ++ 10 :: (writeRow vk i t ++ rest) := by
      simp [writeRow, entryLine, List.append_assoc]
    rw [this, splitLines_append _ _ (entryLine_no_nl vk hvk _ (hr (c, v) (by simp))),
      ih (fun cv hcv => hr cv (by simp [hcv]))]
    rfl

theorem splitLines_writeRows (vk : ValKind V) (hvk : vk.RoundTrip dom) (i : Nat) (rows : List (Row V))
    (hrows : ∀ r ∈ rows, ∀ cv ∈ r, dom cv.2) :
    splitLines (writeRows vk i rows) = (entriesFrom i rows).map (entryLine vk) := by
  induction rows generalizing i with
  | nil => rfl
  | cons r t ih =>
    simp only [writeRows, entriesFrom, List.map_append, List.map_map]
    rw [splitLines_writeRow vk hvk _ _ _ (hrows r (by simp)), ih _ (fun r' hr' => hrows r' (by simp [hr']))]
    rfl

theorem parseEntry_entryLine (vk : ValKind V) (hvk : vk.RoundTrip dom) (n m : Nat) (e : Nat × Nat × V)
    (h1 : e.1 < n) (h2 : e.2.1 < m) (hd : dom e.2.2) (hn : n < 9223372036854775808) (hm : m < 9223372036854775808) :
    parseEntry true (n : Int) (m : Int) vk (entryLine vk e) = .ok ((e.1 : Int), (e.2.1 : Int), e.2.2) := by
  unfold parseEntry entryLine
  have p63 : (2 : Nat) ^ (64 - 1) = 9223372036854775808 := by decide
  rw [extractInt_natDec true 64 (e.1 + 1) _ (Or.inr ⟨_, rfl⟩) (by simp only [if_true]; rw [p63]; omega)]
  simp only []
  rw [extractInt_sp_natDec true 64 (e.2.1 + 1) _ (Or.inr ⟨_, rfl⟩) (by simp only [if_true]; rw [p63]; omega)]
  simp only []
  obtain ⟨r, hr⟩ := hvk.read_sp_write e.2.2 hd
  rw [hr]
  simp only []
  rw [if_neg]
  · congr 2
    · push_cast; omega
    · congr 1; push_cast; omega
  · simp; omega

theorem parseEntries_lines (vk : ValKind V) (hvk : vk.RoundTrip dom) (n m : Nat) (es : List (Nat × Nat × V))
    (hes : ∀ e ∈ es, e.1 < n ∧ e.2.1 < m ∧ dom e.2.2) (hn : n < 9223372036854775808) (hm : m < 9223372036854775808) :
    parseEntries true (n : Int) (m : Int) vk es.length (es.map (entryLine vk))
      = .ok (es.map (fun e => ((e.1 : Int), (e.2.1 : Int), e.2.2))) := by
  induction es with
  | nil => rfl
  | cons e t ih =>
    have he := hes e (by simp)
    simp only [List.length_cons, List.map_cons, parseEntries]
    rw [parseEntry_entryLine vk hvk n m e he.1 he.2.1 he.2.2 hn hm, ih (fun x hx => hes x (by simp [hx]))]

theorem keepEntries_general (n : Nat) (es : List (Nat × Nat × V)) (hes : ∀ e ∈ es, e.1 < n) :
    keepEntries false 0 (n : Int) (es.map (fun e => ((e.1 : Int), (e.2.1 : Int), e.2.2)))
      = es.map (fun e => (e.1, (e.2.1 : Int), e.2.2)) := by
  induction es with
  | nil => rfl
  | cons e t ih =>
    have he := hes e (by simp)
    simp only [List.map_cons, keepEntries, ih (fun x hx => hes x (by simp [hx]))]
    rw [if_pos (by omega), if_neg (by simp)]
    simp

theorem bucket_entriesFrom (i0 : Nat) (rows : List (Row V)) (r : Nat) :
    bucket ((entriesFrom i0 rows).map (fun e => (e.1, (e.2.1 : Int), e.2.2))) r
      = if i0 ≤ r then intRow (rows.getD (r - i0) []) else [] := by
  induction rows generalizing i0 with
  | nil => simp [entriesFrom, bucket, intRow]
  | cons row t ih =>
    simp only [entriesFrom, List.map_append, bucket_append, ih (i0 + 1), List.map_map]
    have hrow : bucket (row.map ((fun e : Nat × Nat × V => (e.1, (e.2.1 : Int), e.2.2)) ∘ fun cv => (i0, cv.1, cv.2))) r
        = if i0 = r then intRow row else [] := by
      unfold bucket intRow
      by_cases h : i0 = r
      · subst h
        rw [if_pos rfl, List.filter_eq_self.mpr (by intro a ha; simp at ha; obtain ⟨_, _, _, rfl⟩ := ha; simp)]
        simp [List.map_map, Function.comp]
      · rw [if_neg h, List.filter_eq_nil_iff.mpr (by
          intro a ha; simp at ha; obtain ⟨_, _, _, rfl⟩ := ha; simp [h])]
        rfl
    rw [hrow]
    by_cases h1 : i0 = r
    · subst h1
      simp only [if_true, Nat.le_refl, Nat.sub_self, List.getD_cons_zero]
      rw [if_neg (by omega), List.append_nil]
    · by_cases h2 : i0 ≤ r
      · have h3 : i0 + 1 ≤ r := by omega
        rw [if_neg h1, if_pos h3, if_pos h2]
        have : r - i0 = (r - (i0 + 1)) + 1 := by omega
        rw [this]; simp
      · rw [if_neg h1, if_neg (by omega), if_neg h2]; rfl

end Amgcl.IO

namespace Amgcl.IO
variable {V : Type} {dom : V → Prop}

/-- first line written by the sparse `mm_write` -/
def bannerSparse (kw : Bytes) : Bytes := kwBanner ++ 32 :: (kwMatrix ++ 32 :: (kwCoordinate ++ 32 :: (kw ++ kwGeneral)))
/-- first line written by the dense `mm_write` -/
def bannerDense (kw : Bytes) : Bytes := kwBanner ++ 32 :: (kwMatrix ++ 32 :: (kwArray ++ 32 :: (kw ++ kwGeneral)))

theorem banner_facts :
    parseBanner (bannerSparse (kwReal ++ [32])) = some (true, false, false, false) ∧
    parseBanner (bannerSparse (kwComplex ++ [32])) = some (true, false, true, false) ∧
    parseBanner (bannerSparse (kwInteger ++ [32])) = some (true, false, false, true) ∧
    parseBanner (bannerDense (kwReal ++ [32])) = some (false, false, false, false) ∧
    parseBanner (bannerDense (kwComplex ++ [32])) = some (false, false, true, false) ∧
    parseBanner (bannerDense (kwInteger ++ [32])) = some (false, false, false, true) := by
  decide

theorem banner_no_nl :
    (∀ c ∈ bannerSparse (kwReal ++ [32]), c ≠ 10) ∧ (∀ c ∈ bannerSparse (kwComplex ++ [32]), c ≠ 10) ∧
    (∀ c ∈ bannerSparse (kwInteger ++ [32]), c ≠ 10) ∧ (∀ c ∈ bannerDense (kwReal ++ [32]), c ≠ 10) ∧
    (∀ c ∈ bannerDense (kwComplex ++ [32]), c ≠ 10) ∧ (∀ c ∈ bannerDense (kwInteger ++ [32]), c ≠ 10) := by
  decide

/-- the flags the banner written for `vk` parses to are `vk`'s own -/
theorem banner_of_kind (vk : ValKind V) (hf : ¬ (vk.isComplex = true ∧ vk.isIntegral = true)) :
    parseBanner (bannerSparse (kindWord vk)) = some (true, false, vk.isComplex, vk.isIntegral) ∧
    parseBanner (bannerDense (kindWord vk)) = some (false, false, vk.isComplex, vk.isIntegral) ∧
    (∀ c ∈ bannerSparse (kindWord vk), c ≠ 10) ∧ (∀ c ∈ bannerDense (kindWord vk), c ≠ 10) := by
  obtain ⟨b1, b2, b3, b4, b5, b6⟩ := banner_facts
  obtain ⟨n1, n2, n3, n4, n5, n6⟩ := banner_no_nl
  unfold kindWord
  cases hc : vk.isComplex <;> cases hi : vk.isIntegral
  · simp only [Bool.false_eq_true, if_false]; exact ⟨b1, b4, n1, n4⟩
  · simp only [Bool.false_eq_true, if_false, if_true]; exact ⟨b3, b6, n3, n6⟩
  · simp only [if_true]; exact ⟨b2, b5, n2, n5⟩
  · exact absurd ⟨hc, hi⟩ hf

theorem head_natDec_ne_percent (n : Nat) (rest : Bytes) : (natDec n ++ rest).head? ≠ some 37 := by
  obtain ⟨hne, hd, _⟩ := natDec_spec n
  cases h : natDec n with
  | nil => exact absurd h hne
  | cons a t =>
    have := hd a (by rw [h]; simp)
    rw [isDigit_iff] at this
    simp; omega

theorem sizeLine_no_nl (a b c : Nat) : ∀ x ∈ natDec a ++ 32 :: (natDec b ++ 32 :: natDec c), x ≠ 10 := by
  intro x hx
  simp only [List.mem_append, List.mem_cons] at hx
  rcases hx with hx | rfl | hx | rfl | hx
  · exact natDec_no_nl _ x hx
  · omega
  · exact natDec_no_nl _ x hx
  · omega
  · exact natDec_no_nl _ x hx

theorem rows_getD_map {α β : Type} (f : α → β) (l : List α) (i : Nat) (d : α) (hi : i < l.length) :
    (l.map f).getD i (f d) = f (l.getD i d) := by
  simp [List.getD, List.getElem?_map, List.getElem?_eq_getElem hi]

theorem crs_nnz_eq (A : CRS V) : A.nnz = (entriesFrom 0 A.rows.toList).length := by
  unfold CRS.nnz
  rw [← Array.foldl_toList]
  generalize A.rows.toList = l
  suffices H : ∀ (acc i : Nat), List.foldl (fun s (r : Row V) => s + r.length) acc l
      = acc + (entriesFrom i l).length by simpa using H 0 0
  induction l with
  | nil => intro acc i; simp [entriesFrom]
  | cons r t ih => intro acc i; simp [List.foldl_cons, ih _ (i + 1), entriesFrom]; omega

theorem entriesFrom_bounds (i0 : Nat) (rows : List (Row V)) (m : Nat) (hwf : ∀ r ∈ rows, ∀ cv ∈ r, cv.1 < m ∧ dom cv.2) :
    ∀ e ∈ entriesFrom i0 rows, i0 ≤ e.1 ∧ e.1 < i0 + rows.length ∧ e.2.1 < m ∧ dom e.2.2 := by
  induction rows generalizing i0 with
  | nil => intro e he; cases he
  | cons r t ih =>
    intro e he
    simp only [entriesFrom, List.mem_append, List.mem_map] at he
    rcases he with ⟨cv, hcv, rfl⟩ | he
    · exact ⟨Nat.le_refl _, by simp, (hwf r (by simp) cv hcv).1, (hwf r (by simp) cv hcv).2⟩
    · have := ih (i0 + 1) (fun r' hr' => hwf r' (by simp [hr'])) e he
      simp only [List.length_cons]; exact ⟨by omega, by omega, this.2.2.1, this.2.2.2⟩

end Amgcl.IO

namespace Amgcl.IO
variable {V : Type} {dom : V → Prop}

theorem mmOpen_written (line1 sizeLine bodyText : Bytes) (sp sy cx ig : Bool)
    (hb : parseBanner line1 = some (sp, sy, cx, ig)) (hnl1 : ∀ c ∈ line1, c ≠ 10)
    (hnl2 : ∀ c ∈ sizeLine, c ≠ 10) (hnp : sizeLine.head? ≠ some 37)
    (v1 v2 : Int) (r1 r2 : Bytes) (h1 : extractInt false 64 sizeLine = some (v1, r1))
    (h2 : extractInt false 64 r1 = some (v2, r2)) :
    mmOpen (line1 ++ 10 :: (sizeLine ++ 10 :: bodyText))
      = .ok ⟨sp, sy, cx, ig, sizeLine, splitLines bodyText⟩ := by
  unfold mmOpen
  rw [splitLines_append _ _ hnl1, splitLines_append _ _ hnl2]
  simp only [hb]
  unfold skipComments
  rw [if_neg hnp]
  simp only [h1, h2]

theorem two63_lit : (2 : Nat) ^ (64 - 1) = 9223372036854775808 := by decide
theorem two64_lit : (2 : Nat) ^ 64 = 18446744073709551616 := by decide

theorem rowsOfN_written (narrow : Int → Int) (rows : List (Row V)) (n : Nat) (hlen : rows.length = n) :
    rowsOfN narrow ((entriesFrom 0 rows).map (fun e => (e.1, (e.2.1 : Int), e.2.2))) n
      = (rows.map intRow).map (sortRowN narrow) := by
  unfold rowsOfN
  rw [List.map_map, List.map_map]
  apply List.ext_getElem?
  intro i
  rw [List.getElem?_map, List.getElem?_map]
  by_cases hi : i < n
  · rw [List.getElem?_range hi, List.getElem?_eq_getElem (by rw [hlen]; exact hi)]
    simp only [Option.map_some, Function.comp]
    rw [bucket_entriesFrom 0 rows i, if_pos (Nat.zero_le _), Nat.sub_zero]
    simp [List.getD, List.getElem?_eq_getElem (show i < rows.length by rw [hlen]; exact hi)]
  · rw [List.getElem?_eq_none (by simp; omega), List.getElem?_eq_none (by rw [hlen]; omega)]
    rfl

/-- **MatrixMarket round trip, sparse**: reading back what `mm_write` wrote returns the same rows, each passed
through `sort_row` (for any value kind whose `read_value ∘ write_value` is the identity) -/
theorem mmReadSparse_write (memLimit : Nat) (vk : ValKind V) (hvk : vk.RoundTrip dom) (A : CRS V) (hA : A.WF)
    (hdom : ∀ r ∈ A.rows.toList, ∀ cv ∈ r, dom cv.2)
    (hn : A.nrows < 9223372036854775808) (hm : A.ncols < 9223372036854775808)
    (hnnz : A.nnz < 18446744073709551616) (hmem : (A.nrows + 1) * 8 ≤ memLimit) :
    mmReadSparse true memLimit vk (mmWriteSparse vk A) (-1) (-1)
      = .ok (RawCRS.ofRows A.nrows A.ncols ((A.rows.toList.map intRow).map (sortRowN wrap32))) := by
  obtain ⟨hb1, _, hnl, _⟩ := banner_of_kind vk hvk.flags
  -- the file, line by line
  have hfile : mmWriteSparse vk A = bannerSparse (kindWord vk) ++ 10 ::
      ((natDec A.nrows ++ 32 :: (natDec A.ncols ++ 32 :: natDec A.nnz)) ++ 10 :: writeRows vk 0 A.rows.toList) := by
    simp [mmWriteSparse, bannerSparse, List.append_assoc]
  have hs1 : extractInt false 64 (natDec A.nrows ++ 32 :: (natDec A.ncols ++ 32 :: natDec A.nnz))
      = some ((A.nrows : Int), 32 :: (natDec A.ncols ++ 32 :: natDec A.nnz)) :=
    extractInt_natDec false 64 _ _ (Or.inr ⟨_, rfl⟩) (by simp; omega)
  have hs2 : extractInt false 64 (32 :: (natDec A.ncols ++ 32 :: natDec A.nnz))
      = some ((A.ncols : Int), 32 :: natDec A.nnz) :=
    extractInt_sp_natDec false 64 _ _ (Or.inr ⟨_, rfl⟩) (by simp; omega)
  have ht1 : extractInt true 64 (natDec A.nrows ++ 32 :: (natDec A.ncols ++ 32 :: natDec A.nnz))
      = some ((A.nrows : Int), 32 :: (natDec A.ncols ++ 32 :: natDec A.nnz)) :=
    extractInt_natDec true 64 _ _ (Or.inr ⟨_, rfl⟩) (by simp only [if_true]; rw [two63_lit]; omega)
  have ht2 : extractInt true 64 (32 :: (natDec A.ncols ++ 32 :: natDec A.nnz))
      = some ((A.ncols : Int), 32 :: natDec A.nnz) :=
    extractInt_sp_natDec true 64 _ _ (Or.inr ⟨_, rfl⟩) (by simp only [if_true]; rw [two63_lit]; omega)
  have ht3 : extractInt false 64 (32 :: natDec A.nnz) = some ((A.nnz : Int), []) := by
    have := extractInt_sp_natDec false 64 A.nnz [] (Or.inl rfl) (by simp; omega)
    rwa [List.append_nil] at this
  have hopen := mmOpen_written (bannerSparse (kindWord vk))
    (natDec A.nrows ++ 32 :: (natDec A.ncols ++ 32 :: natDec A.nnz)) (writeRows vk 0 A.rows.toList)
    true false vk.isComplex vk.isIntegral hb1 hnl (sizeLine_no_nl _ _ _) (head_natDec_ne_percent _ _)
    _ _ _ _ hs1 hs2
  rw [← hfile] at hopen
  -- header
  have hheader : mmSparseHeader true vk (mmWriteSparse vk A)
      = .ok ⟨false, (A.nrows : Int), (A.ncols : Int), A.nnz, splitLines (writeRows vk 0 A.rows.toList)⟩ := by
    unfold mmSparseHeader
    rw [hopen]
    simp only [Bool.not_true, Bool.false_eq_true, if_false, bne_self_eq_false, ht1, ht2, ht3]
    rw [if_neg (by simp)]
    simp
  unfold mmReadSparse
  rw [hheader]
  simp only []
  have hrr : rowRange true (A.nrows : Int) (-1) (-1) = some (0, (A.nrows : Int)) := by
    unfold rowRange; simp
  rw [hrr]
  simp only []
  -- body
  have hrows : ∀ r ∈ A.rows.toList, ∀ cv ∈ r, cv.1 < A.ncols ∧ dom cv.2 := fun r hr cv hcv => ⟨hA r hr cv hcv, hdom r hr cv hcv⟩
  have hbounds := entriesFrom_bounds 0 A.rows.toList A.ncols hrows
  have hlen : A.rows.toList.length = A.nrows := by simp [CRS.nrows]
  have hes : ∀ e ∈ entriesFrom 0 A.rows.toList, e.1 < A.nrows ∧ e.2.1 < A.ncols ∧ dom e.2.2 := by
    intro e he; have := hbounds e he; rw [hlen] at this; exact ⟨by omega, this.2.2.1, this.2.2.2⟩
  have hparse : parseEntries true (A.nrows : Int) (A.ncols : Int) vk A.nnz (splitLines (writeRows vk 0 A.rows.toList))
      = .ok ((entriesFrom 0 A.rows.toList).map (fun e => ((e.1 : Int), (e.2.1 : Int), e.2.2))) := by
    rw [splitLines_writeRows vk hvk _ _ hdom, crs_nnz_eq]
    exact parseEntries_lines vk hvk A.nrows A.ncols _ hes hn hm
  have hbody := mmSparseBody_eq memLimit vk
    ⟨false, (A.nrows : Int), (A.ncols : Int), A.nnz, splitLines (writeRows vk 0 A.rows.toList)⟩ 0 (A.nrows : Int)
    (by simp) (by simp; omega) (by simp) (Int.le_refl 0) (by simp) (by simp) (by simp; omega) _ hparse
  rw [hbody]
  simp only [Int.sub_zero, Int.toNat_natCast]
  rw [keepEntries_general A.nrows _ (fun e he => (hes e he).1)]
  unfold rowsOf
  rw [rowsOfN_written wrap32 A.rows.toList A.nrows hlen]

end Amgcl.IO
