import Amgcl.Proofs.SolverLGMRESIndep
/-!
LGMRES: **what the augmentation slots hold** (C05, `lgmres_aug_are_corrections`).

Ghost state: a *log* `List (Nat × Vec K)`, newest entry first, of the writes `(outer_slot, dx / ‖dx‖)` that
lgmres.hpp:365-372 has made since `outer_v` was last empty (fresh object, or `outer_v.clear()` of `always_reset`).

* `CBuf.Holds cap b sl`   the circular buffer `b` holds exactly the newest `min |sl| cap` entries of the slot list `sl`
                          (newest first): `outer_v[size-1-i] = sl[i]`; `CBuf.Holds_push`: `push_back` = cons.
* `lastWrite log s`       the vector of the newest log entry with slot `s`.
* `Aug cap w log`         `Holds` for the slot numbers of `log`, and `outer_v_data[s] = lastWrite log s`.
* `InCall cap n log log0` the `n = n_outer` newest entries were written by the running call, to slots
                          `(n-1-i) % cap`; below them is the log `log0` the call started with.
* `pushed`, `outerG`      the write of one restart cycle, the outer loop with the ghost log threaded through.
* `outerG_inv`            `Aug ∧ InCall` is an invariant of the outer loop (`cycle_aug` = one cycle).
* `Aug.read`, `aug_recent` the read-out: slot contents in terms of the log.
-/
namespace Amgcl.Solver.LGMRES
open Amgcl Amgcl.Solver
set_option linter.unusedSectionVars false
set_option linter.unusedSimpArgs false
set_option linter.unusedVariables false

/-! ### arithmetic -/

theorem mod_ne_of_close (a b c : Nat) (h1 : a < b) (h2 : b - a < c) : a % c ≠ b % c := by
  intro h
  have h3 := Nat.sub_mod_eq_zero_of_mod_eq h.symm
  rw [Nat.mod_eq_of_lt h2] at h3
  omega

/-! ### the circular buffer as a window on a list of pushes -/

/-- `b` holds the newest `min |sl| cap` entries of `sl` (newest first), in the order `outer_v[size-1], …, outer_v[0]` -/
def CBuf.Holds (cap : Nat) (b : CBuf) (sl : List Nat) : Prop :=
  b.size = min sl.length cap ∧ (b.size < cap → b.start = 0) ∧ (b.start < cap ∨ b.start = 0) ∧
  ∀ i, i < b.size → sl[i]? = some (b.get cap (b.size - 1 - i))

theorem CBuf.Holds_empty (cap : Nat) : CBuf.Holds cap .empty [] :=
  ⟨by simp [CBuf.size, CBuf.empty], fun _ => rfl, Or.inr rfl, fun i hi => absurd hi (Nat.not_lt_zero i)⟩

theorem CBuf.Holds.WF {cap : Nat} {b : CBuf} {sl : List Nat} (h : CBuf.Holds cap b sl) : CBuf.WF cap b :=
  ⟨by have := h.1; unfold CBuf.size at this; omega, h.2.1⟩

theorem CBuf.Holds_push (cap : Nat) (hc : 0 < cap) (b : CBuf) (sl : List Nat) (v : Nat) (h : CBuf.Holds cap b sl) :
    CBuf.Holds cap (b.push cap v) (v :: sl) := by
  obtain ⟨h1, h2, h3, h4⟩ := h
  have hsz : b.size = b.buf.length := rfl
  rw [hsz] at h1 h2
  unfold CBuf.push
  by_cases hl : b.buf.length < cap
  · rw [if_pos hl]
    have hs0 : b.start = 0 := h2 hl
    have hsz' : (⟨b.start, b.buf ++ [v]⟩ : CBuf).size = b.buf.length + 1 := by simp [CBuf.size]
    refine ⟨?_, fun _ => hs0, Or.inr hs0, ?_⟩
    · rw [hsz', List.length_cons]; omega
    · intro i hi
      rw [hsz'] at hi ⊢
      unfold CBuf.get
      show (v :: sl)[i]? = some ((b.buf ++ [v]).getD ((b.start + (b.buf.length + 1 - 1 - i)) % cap) 0)
      rw [hs0, Nat.zero_add, Nat.mod_eq_of_lt (by omega)]
      cases i with
      | zero =>
        rw [List.getD_eq_getElem?_getD, List.getElem?_append_right (by omega)]
        simp
      | succ k =>
        have hk := h4 k (by rw [hsz]; omega)
        rw [hsz] at hk
        unfold CBuf.get at hk
        rw [hs0, Nat.zero_add, Nat.mod_eq_of_lt (by omega)] at hk
        rw [List.getElem?_cons_succ, hk, List.getD_eq_getElem?_getD, List.getD_eq_getElem?_getD,
          List.getElem?_append_left (by omega)]
        congr 3; omega
  · rw [if_neg hl]
    have hlen : b.buf.length = cap := by omega
    have hst : b.start < cap := by rcases h3 with h | h <;> omega
    have hsz' : (⟨(b.start + 1) % cap, b.buf.set b.start v⟩ : CBuf).size = cap := by simp [CBuf.size, hlen]
    refine ⟨?_, ?_, Or.inl (Nat.mod_lt _ hc), ?_⟩
    · rw [hsz', List.length_cons]; omega
    · intro hh; rw [hsz'] at hh; omega
    · intro i hi
      rw [hsz'] at hi ⊢
      unfold CBuf.get
      show (v :: sl)[i]? = some ((b.buf.set b.start v).getD (((b.start + 1) % cap + (cap - 1 - i)) % cap) 0)
      rw [Nat.mod_add_mod]
      cases i with
      | zero =>
        have e : b.start + 1 + (cap - 1 - 0) = b.start + cap := by omega
        rw [e, Nat.add_mod_right, Nat.mod_eq_of_lt hst, List.getD_eq_getElem?_getD,
          List.getElem?_set_self (by omega)]
        simp
      | succ k =>
        have hk := h4 k (by rw [hsz]; omega)
        rw [hsz, hlen] at hk
        unfold CBuf.get at hk
        have e : b.start + 1 + (cap - 1 - (k + 1)) = b.start + (cap - 1 - k) := by omega
        have hne : b.start ≠ (b.start + (cap - 1 - k)) % cap := by
          have := mod_ne_of_close b.start (b.start + (cap - 1 - k)) cap (by omega) (by omega)
          rwa [Nat.mod_eq_of_lt hst] at this
        rw [List.getElem?_cons_succ, hk, e, List.getD_eq_getElem?_getD, List.getD_eq_getElem?_getD,
          List.getElem?_set_ne hne]

/-! ### the ghost log -/
section log
variable {α : Type}

/-- the value of the newest entry of the log (newest first) written to slot `s` -/
def lastWrite : List (Nat × α) → Nat → Option α
  | [], _ => none
  | e :: l, s => if s = e.1 then some e.2 else lastWrite l s

theorem lastWrite_isSome_of_mem (log : List (Nat × α)) (e : Nat × α) (h : e ∈ log) :
    ∃ u, lastWrite log e.1 = some u := by
  induction log with
  | nil => exact absurd h (List.not_mem_nil)
  | cons a l ih =>
    unfold lastWrite
    by_cases ha : e.1 = a.1
    · exact ⟨a.2, by rw [if_pos ha]⟩
    · rw [if_neg ha]
      rcases List.mem_cons.mp h with rfl | h'
      · exact absurd rfl ha
      · exact ih h'

/-- an entry none of whose successors (newer entries) went to the same slot is the last write to its slot -/
theorem lastWrite_of_distinct (log : List (Nat × α)) (i : Nat) (e : Nat × α) (h : log[i]? = some e)
    (hd : ∀ j e', j < i → log[j]? = some e' → e'.1 ≠ e.1) : lastWrite log e.1 = some e.2 := by
  induction log generalizing i with
  | nil => simp at h
  | cons a l ih =>
    unfold lastWrite
    cases i with
    | zero =>
      have : a = e := by simpa using h
      rw [this, if_pos rfl]
    | succ k =>
      have ha : e.1 ≠ a.1 := fun hh => hd 0 a (Nat.succ_pos k) rfl hh.symm
      rw [if_neg ha]
      exact ih k (by simpa using h) (fun j e' hj he' => hd (j + 1) e' (by omega) (by simpa using he'))

/-- the `n` newest entries of `log` were written by the running call (`n = n_outer`), the `i`-th newest of them to
slot `(n - 1 - i) % cap` (lgmres.hpp:366 `outer_slot = n_outer % prm.K; ++n_outer`); the older entries are `log0` -/
def InCall (cap n : Nat) (log log0 : List (Nat × α)) : Prop :=
  log.length = n + log0.length ∧ log.drop n = log0 ∧ ∀ i, i < n → (log[i]?).map Prod.fst = some ((n - 1 - i) % cap)

theorem InCall_zero (cap : Nat) (log0 : List (Nat × α)) : InCall cap 0 log0 log0 :=
  ⟨by omega, rfl, fun i hi => absurd hi (Nat.not_lt_zero i)⟩

theorem InCall_push (cap n : Nat) (log log0 : List (Nat × α)) (v : α) (h : InCall cap n log log0) :
    InCall cap (n + 1) ((n % cap, v) :: log) log0 := by
  obtain ⟨h1, h2, h3⟩ := h
  refine ⟨by rw [List.length_cons]; omega, by simpa using h2, ?_⟩
  intro i hi
  cases i with
  | zero => simp
  | succ k =>
    rw [List.getElem?_cons_succ, h3 k (by omega)]
    congr 2; omega

/-- among the entries written by the running call, the newest `cap` went to pairwise different slots: each of them is
the last write to its slot -/
theorem InCall.lastWrite_recent {cap n : Nat} {log log0 : List (Nat × α)} (h : InCall cap n log log0)
    (i : Nat) (e : Nat × α) (hi : i < n) (hic : i < cap) (he : log[i]? = some e) : lastWrite log e.1 = some e.2 := by
  apply lastWrite_of_distinct log i e he
  intro j e' hj hj' heq
  have h1 := h.2.2 j (by omega)
  have h2 := h.2.2 i hi
  rw [hj'] at h1; rw [he] at h2
  simp only [Option.map_some, Option.some.injEq] at h1 h2
  rw [h1, h2] at heq
  exact mod_ne_of_close (n - 1 - i) (n - 1 - j) cap (by omega) (by omega) heq.symm

end log

variable {K : Type} [Field K] [DecidableEq K] [LT K] [DecidableLT K]

/-- **the augmentation state described by the ghost log** -/
def Aug (cap : Nat) (w : Work K) (log : List (Nat × Vec K)) : Prop :=
  CBuf.Holds cap w.ov (log.map Prod.fst) ∧ ∀ s v, lastWrite log s = some v → w.odata.get s = v

theorem Aug_fresh (cap n : Nat) : Aug cap (Work.fresh n : Work K) [] :=
  ⟨CBuf.Holds_empty cap, fun s v h => by simp [lastWrite] at h⟩

theorem Aug_push (cap : Nat) (hc : 0 < cap) (w : Work K) (log : List (Nat × Vec K)) (s : Nat) (v : Vec K)
    (h : Aug cap w log) : Aug cap { w with odata := setF w.odata s v, ov := w.ov.push cap s } ((s, v) :: log) := by
  refine ⟨CBuf.Holds_push cap hc w.ov _ s h.1, ?_⟩
  intro s' v' hv
  show (setF w.odata s v).get s' = v'
  unfold lastWrite at hv
  rw [setF_get]
  by_cases hs : s' = s
  · rw [if_pos hs] at hv ⊢; exact Option.some.inj hv
  · rw [if_neg hs] at hv ⊢; exact h.2 s' v' hv

/-- read-out: the `i`-th newest pointer of the buffer, `outer_v[size-1-i]`, is the slot of the `i`-th newest log entry,
and that slot holds the LAST vector written to it -/
theorem Aug.read {cap : Nat} {w : Work K} {log : List (Nat × Vec K)} (h : Aug cap w log) (i : Nat) (e : Nat × Vec K)
    (he : log[i]? = some e) (hic : i < cap) :
    i < w.ov.size ∧ w.ov.get cap (w.ov.size - 1 - i) = e.1 ∧
    lastWrite log e.1 = some (w.odata.get (w.ov.get cap (w.ov.size - 1 - i))) := by
  have hlen : i < log.length := by
    rcases Nat.lt_or_ge i log.length with h' | h'
    · exact h'
    · rw [List.getElem?_eq_none h'] at he; exact absurd he (by simp)
  have hi : i < w.ov.size := by rw [h.1.1, List.length_map]; omega
  have hp := h.1.2.2.2 i hi
  rw [List.getElem?_map, he] at hp
  have hp' : w.ov.get cap (w.ov.size - 1 - i) = e.1 := by simpa using hp.symm
  refine ⟨hi, hp', ?_⟩
  obtain ⟨u, hu⟩ := lastWrite_isSome_of_mem log e (List.mem_of_getElem? he)
  rw [hp', hu, h.2 e.1 u hu]

/-- **the newest `min(n_outer, K)` pointers hold the newest corrections of the running call**, whatever the call
inherited -/
theorem aug_recent {cap n : Nat} {w : Work K} {log log0 : List (Nat × Vec K)} (h : Aug cap w log)
    (hc : InCall cap n log log0) (i : Nat) (e : Nat × Vec K) (he : log[i]? = some e) (hi : i < n) (hic : i < cap) :
    i < w.ov.size ∧ w.ov.get cap (w.ov.size - 1 - i) = (n - 1 - i) % cap ∧
    w.odata.get (w.ov.get cap (w.ov.size - 1 - i)) = e.2 := by
  obtain ⟨h1, h2, h3⟩ := h.read i e he hic
  have h4 := hc.lastWrite_recent i e hi hic he
  have h5 := hc.2.2 i hi
  rw [he] at h5
  simp only [Option.map_some, Option.some.injEq] at h5
  refine ⟨h1, by rw [h2, h5], ?_⟩
  rw [h4] at h3
  exact (Option.some.inj h3).symm

/-! ### one restart cycle -/

/-- `dx` of the cycle started in `st` (lgmres.hpp:350-351: `dx = Σ s_i *ws[i]`) -/
def cycDx (prm : Params K) (ip : Vec K → Vec K → K) (sqrt : K → K) (A : CRS K) (P : Vec K → Vec K) (epsT : K)
    (st : St K) : Vec K := updDx (inner prm ip sqrt A P epsT st)

/-- `dx / ‖dx‖` as lgmres.hpp:369-370 forms it: `inverse(norm(dx)) * dx`, `norm = |sqrt(⟨dx,dx⟩)|` -/
def normed (ip : Vec K → Vec K → K) (sqrt : K → K) (dx : Vec K) : Vec K := axpby (inv1 (nrmA ip sqrt dx)) dx 0 dx

/-- the write of the cycle started in `st`: nothing if `prm.K = 0` or `norm(dx) = 0`, else `(n_outer % K, dx/‖dx‖)` -/
def pushed (prm : Params K) (ip : Vec K → Vec K → K) (sqrt : K → K) (A : CRS K) (P : Vec K → Vec K) (epsT : K)
    (st : St K) : Option (Nat × Vec K) :=
  if 0 < prm.K' ∧ nrmA ip sqrt (cycDx prm ip sqrt A P epsT st) ≠ 0 then
    some (st.nOuter % prm.K', normed ip sqrt (cycDx prm ip sqrt A P epsT st))
  else none

def logStep (o : Option (Nat × Vec K)) (log : List (Nat × Vec K)) : List (Nat × Vec K) :=
  match o with
  | some e => e :: log
  | none => log

/-- the inner loop touches neither the buffer nor the slots, and leaves `ws[0]` as set in its first pass -/
theorem inner_aug (prm : Params K) (ip : Vec K → Vec K → K) (sqrt : K → K) (A : CRS K) (P : Vec K → Vec K) (epsT : K)
    (st : St K) :
    (inner prm ip sqrt A P epsT st).w.ov = st.w.ov ∧ (inner prm ip sqrt A P epsT st).w.odata = st.w.odata ∧
    (inner prm ip sqrt A P epsT st).w.wsp.get 0 = pickZ prm.MM prm.K' st.w.ov 0 := by
  have h : (fun t : In K => t.w.ov = st.w.ov ∧ t.w.odata = st.w.odata ∧
      t.w.wsp.get 0 = pickZ prm.MM prm.K' st.w.ov 0 ∧ 1 ≤ t.j) (inner prm ip sqrt A P epsT st) := by
    unfold inner
    refine doWhile_inv _ _ (fun t : In K => t.w.ov = st.w.ov ∧ t.w.odata = st.w.odata ∧
      t.w.wsp.get 0 = pickZ prm.MM prm.K' st.w.ov 0 ∧ 1 ≤ t.j) _ _ ?_ ?_
    · refine ⟨rfl, rfl, ?_, by rw [step_j]; omega⟩
      rw [step_wsp]
      show (setF _ 0 _).get 0 = _
      rw [setF_same]; rfl
    · intro t ⟨h1, h2, h3, h4⟩ _
      refine ⟨by rw [step_ov, h1], by rw [step_odata, h2], ?_, by rw [step_j]; omega⟩
      rw [step_wsp, setF_other _ _ _ _ (by omega), h3]
  exact ⟨h.1, h.2.1, h.2.2.1⟩

/-- `x += dx` / `tmp = P dx; x += tmp` leaves the augmentation state alone unless `tmp = *ws[0]` IS an augmentation
vector -/
theorem updXW_aug (side : Side) (P : Vec K → Vec K) (x : Vec K) (t : In K)
    (hp : side = .left ∨ ∃ i, t.w.wsp.get 0 = .vs i) :
    (updXW side P x t).2.ov = t.w.ov ∧ (updXW side P x t).2.odata = t.w.odata ∧ (updXW side P x t).2.r = updDx t := by
  cases side with
  | left => exact ⟨rfl, rfl, rfl⟩
  | right =>
    rcases hp with hp | ⟨i, hp⟩
    · exact absurd hp (by simp)
    · unfold updXW
      simp only [hp]
      exact ⟨rfl, rfl, rfl⟩

theorem head_w_aug (side : Side) (ip : Vec K → Vec K → K) (sqrt : K → K) (A : CRS K) (P : Vec K → Vec K) (f : Vec K)
    (st : St K) : (head side ip sqrt A P f st).w.ov = st.w.ov ∧ (head side ip sqrt A P f st).w.odata = st.w.odata ∧
      (head side ip sqrt A P f st).nOuter = st.nOuter := by
  cases side <;> exact ⟨rfl, rfl, rfl⟩

/-- **one restart cycle**: the buffer/slots/`n_outer` after the cycle are those before it with the write `pushed`
applied.  Side condition: `tmp` must not alias an augmentation vector (left preconditioning, or `prm.M > 0`, whence
`ws[0] = vs[0]`). -/
theorem cycle_aug (prm : Params K) (ip : Vec K → Vec K → K) (sqrt : K → K) (A : CRS K) (P : Vec K → Vec K) (epsT : K)
    (st : St K) (log log0 : List (Nat × Vec K)) (hM : prm.pside = .left ∨ 0 < prm.M)
    (h : Aug prm.K' st.w log) (hc : InCall prm.K' st.nOuter log log0) :
    Aug prm.K' (cycle prm ip sqrt A P epsT st).w (logStep (pushed prm ip sqrt A P epsT st) log) ∧
    InCall prm.K' (cycle prm ip sqrt A P epsT st).nOuter (logStep (pushed prm ip sqrt A P epsT st) log) log0 := by
  obtain ⟨i1, i2, i3⟩ := inner_aug prm ip sqrt A P epsT st
  have hp : prm.pside = .left ∨ ∃ i, (inner prm ip sqrt A P epsT st).w.wsp.get 0 = .vs i := by
    rcases hM with hM | hM
    · exact Or.inl hM
    · refine Or.inr ⟨0, ?_⟩
      rw [i3]
      unfold pickZ
      have := h.1.1
      rw [List.length_map] at this
      rw [if_neg (by unfold Params.MM; omega)]
  obtain ⟨u1, u2, u3⟩ := updXW_aug prm.pside P st.x (inner prm ip sqrt A P epsT st) hp
  unfold cycle
  rw [update_eq]
  unfold updFin pushed cycDx
  rw [u3]
  by_cases hcond : 0 < prm.K' ∧ nrmA ip sqrt (updDx (inner prm ip sqrt A P epsT st)) ≠ 0
  · rw [if_pos hcond, if_pos hcond]
    have hA : Aug prm.K' (updXW prm.pside P st.x (inner prm ip sqrt A P epsT st)).2 log := by
      unfold Aug; rw [u1, u2, i1, i2]; exact h
    have e : axpby (inv1 (nrmA ip sqrt (updDx (inner prm ip sqrt A P epsT st))))
        (updDx (inner prm ip sqrt A P epsT st)) 0
        ((updXW prm.pside P st.x (inner prm ip sqrt A P epsT st)).2.odata.get (st.nOuter % prm.K'))
        = normed ip sqrt (updDx (inner prm ip sqrt A P epsT st)) := Solver.axpby_b0_indep _ _ _ _
    rw [e]
    exact ⟨Aug_push prm.K' hcond.1 _ log _ _ hA, InCall_push prm.K' st.nOuter log log0 _ hc⟩
  · rw [if_neg hcond, if_neg hcond]
    refine ⟨?_, hc⟩
    show Aug prm.K' (updXW prm.pside P st.x (inner prm ip sqrt A P epsT st)).2 log
    unfold Aug; rw [u1, u2, i1, i2]; exact h

/-- the new iterate: `x + dx` (left) resp. `x + P dx` (right) — `dx` is the correction BEFORE the right preconditioner -/
theorem cycle_x (prm : Params K) (ip : Vec K → Vec K → K) (sqrt : K → K) (A : CRS K) (P : Vec K → Vec K) (epsT : K)
    (st : St K) :
    (cycle prm ip sqrt A P epsT st).x =
      match prm.pside with
      | .left => axpby 1 (cycDx prm ip sqrt A P epsT st) 1 st.x
      | .right => axpby 1 (P (cycDx prm ip sqrt A P epsT st)) 1 st.x := by
  unfold cycle
  rw [update_eq]
  unfold updFin
  have : (updXW prm.pside P st.x (inner prm ip sqrt A P epsT st)).1 =
      match prm.pside with
      | .left => axpby 1 (cycDx prm ip sqrt A P epsT st) 1 st.x
      | .right => axpby 1 (P (cycDx prm ip sqrt A P epsT st)) 1 st.x := by
    cases prm.pside <;> rfl
  split <;> exact this

/-! ### the outer loop with the ghost log -/

/-- `outer` with the ghost log threaded through -/
def outerG (prm : Params K) (ip : Vec K → Vec K → K) (sqrt : K → K) (A : CRS K) (P : Vec K → Vec K) (f : Vec K)
    (epsT : K) : Nat → St K × List (Nat × Vec K) → St K × List (Nat × Vec K) :=
  loopN (fun s => !stop prm.maxiter epsT s.1)
    (fun s => (head prm.pside ip sqrt A P f (cycle prm ip sqrt A P epsT s.1),
               logStep (pushed prm ip sqrt A P epsT s.1) s.2))

/-- the ghost log is an observer: the first component IS the model's outer loop -/
theorem outerG_fst (prm : Params K) (ip : Vec K → Vec K → K) (sqrt : K → K) (A : CRS K) (P : Vec K → Vec K) (f : Vec K)
    (epsT : K) : ∀ (c : Nat) (s : St K × List (Nat × Vec K)),
    (outerG prm ip sqrt A P f epsT c s).1 = outer prm ip sqrt A P f epsT c s.1 := by
  intro c
  induction c with
  | zero => intro s; rfl
  | succ n ih =>
    intro s
    unfold outerG outer loopN
    by_cases hs : (!stop prm.maxiter epsT s.1) = true
    · rw [if_pos hs, if_pos hs]; exact ih _
    · rw [if_neg hs, if_neg hs]

theorem outerG_inv (prm : Params K) (ip : Vec K → Vec K → K) (sqrt : K → K) (A : CRS K) (P : Vec K → Vec K) (f : Vec K)
    (epsT : K) (hM : prm.pside = .left ∨ 0 < prm.M) (log0 : List (Nat × Vec K)) (c : Nat)
    (s : St K × List (Nat × Vec K)) (h : Aug prm.K' s.1.w s.2 ∧ InCall prm.K' s.1.nOuter s.2 log0) :
    Aug prm.K' (outerG prm ip sqrt A P f epsT c s).1.w (outerG prm ip sqrt A P f epsT c s).2 ∧
    InCall prm.K' (outerG prm ip sqrt A P f epsT c s).1.nOuter (outerG prm ip sqrt A P f epsT c s).2 log0 := by
  unfold outerG
  apply loopN_inv _ _ (fun s : St K × List (Nat × Vec K) => Aug prm.K' s.1.w s.2 ∧ InCall prm.K' s.1.nOuter s.2 log0)
  · intro s hs _
    obtain ⟨g1, g2, g3⟩ := head_w_aug prm.pside ip sqrt A P f (cycle prm ip sqrt A P epsT s.1)
    have := cycle_aug prm ip sqrt A P epsT s.1 s.2 log0 hM hs.1 hs.2
    refine ⟨?_, ?_⟩
    · show Aug prm.K' (head prm.pside ip sqrt A P f (cycle prm ip sqrt A P epsT s.1)).w _
      unfold Aug; rw [g1, g2]; exact this.1
    · show InCall prm.K' (head prm.pside ip sqrt A P f (cycle prm ip sqrt A P epsT s.1)).nOuter _ log0
      rw [g3]; exact this.2
  · exact h

/-! ### a whole call -/

/-- `if (prm.always_reset) outer_v.clear();` on the ghost log -/
def resetLog (prm : Params K) (log : List (Nat × Vec K)) : List (Nat × Vec K) := if prm.alwaysReset then [] else log

theorem reset_augLog (prm : Params K) (ws : Work K) (log : List (Nat × Vec K)) (h : Aug prm.K' ws log) :
    Aug prm.K' (reset prm ws) (resetLog prm log) := by
  unfold reset resetLog
  by_cases ha : prm.alwaysReset = true
  · rw [if_pos ha, if_pos ha]
    exact ⟨CBuf.Holds_empty _, fun s v hv => by simp [lastWrite] at hv⟩
  · rw [if_neg ha, if_neg ha]; exact h

theorem init_aug (prm : Params K) (ip : Vec K → Vec K → K) (sqrt : K → K) (A : CRS K) (P : Vec K → Vec K)
    (ws : Work K) (f x0 : Vec K) :
    (init prm ip sqrt A P ws f x0).w.ov = ws.ov ∧ (init prm ip sqrt A P ws f x0).w.odata = ws.odata ∧
    (init prm ip sqrt A P ws f x0).nOuter = 0 := by
  unfold init
  exact head_w_aug prm.pside ip sqrt A P f _

/-- the ghost log after the call `run prm ip sqrt eps A P ws f x0` on an object whose log was `log` -/
def runLog (prm : Params K) (ip : Vec K → Vec K → K) (sqrt : K → K) (eps : K) (A : CRS K) (P : Vec K → Vec K)
    (ws : Work K) (f x0 : Vec K) (log : List (Nat × Vec K)) : List (Nat × Vec K) :=
  match prologueA prm.nsSearch ip sqrt eps f with
  | .trivial _ => resetLog prm log
  | .go normRhs =>
    (outerG prm ip sqrt A P f (maxK (prm.tol * normRhs) prm.abstol) prm.maxiter
      (init prm ip sqrt A P (reset prm ws) f x0, resetLog prm log)).2

/-- **a call maps described objects to described objects** -/
theorem run_aug (prm : Params K) (ip : Vec K → Vec K → K) (sqrt : K → K) (eps : K) (A : CRS K) (P : Vec K → Vec K)
    (ws : Work K) (f x0 : Vec K) (log : List (Nat × Vec K)) (hM : prm.pside = .left ∨ 0 < prm.M)
    (h : Aug prm.K' ws log) :
    Aug prm.K' (run prm ip sqrt eps A P ws f x0).2.2 (runLog prm ip sqrt eps A P ws f x0 log) := by
  have hr := reset_augLog prm ws log h
  unfold run runLog
  cases hp : prologueA prm.nsSearch ip sqrt eps f with
  | trivial n => exact hr
  | go normRhs =>
    show Aug prm.K' (outer prm ip sqrt A P f _ prm.maxiter _).w _
    obtain ⟨j1, j2, j3⟩ := init_aug prm ip sqrt A P (reset prm ws) f x0
    have := outerG_inv prm ip sqrt A P f (maxK (prm.tol * normRhs) prm.abstol) hM (resetLog prm log) prm.maxiter
      (init prm ip sqrt A P (reset prm ws) f x0, resetLog prm log)
      ⟨by unfold Aug; rw [j1, j2]; exact hr, by rw [j3]; exact InCall_zero _ _⟩
    rw [outerG_fst] at this
    exact this.1

/-! ### the inherited pointers (`always_reset = false`) in closed form -/

theorem lastWrite_drop {α : Type} (n : Nat) : ∀ (log : List (Nat × α)) (s : Nat)
    (h : ∀ j e', j < n → log[j]? = some e' → e'.1 ≠ s), lastWrite log s = lastWrite (log.drop n) s := by
  induction n with
  | zero => intro log s _; rfl
  | succ k ih =>
    intro log s h
    cases log with
    | nil => rfl
    | cons a l =>
      have ha : s ≠ a.1 := fun hh => h 0 a (Nat.succ_pos k) rfl hh.symm
      show lastWrite (a :: l) s = lastWrite (l.drop k) s
      have hu : lastWrite (a :: l) s = if s = a.1 then some a.2 else lastWrite l s := rfl
      rw [hu, if_neg ha]
      exact ih l s (fun j e' hj he' => h (j + 1) e' (by omega) (by simpa using he'))

/-- an INHERITED pointer `outer_v[size-1-i]`, `n_outer ≤ i`, refers to the slot `s` its correction was written to by an
earlier call; if `s < n_outer` the running call has overwritten the slot with its own correction number `s` (counted
from `0`), which is the `(n_outer-1-s)`-th newest entry of the log; otherwise the slot holds what the inherited log
says -/
theorem aug_inherited {cap n : Nat} {w : Work K} {log log0 : List (Nat × Vec K)} (h : Aug cap w log)
    (hc : InCall cap n log log0) (i : Nat) (e : Nat × Vec K) (he : log[i]? = some e) (hi : n ≤ i) (hic : i < cap) :
    w.ov.get cap (w.ov.size - 1 - i) = e.1 ∧
    (e.1 < n → ∃ e', log[n - 1 - e.1]? = some e' ∧ w.odata.get (w.ov.get cap (w.ov.size - 1 - i)) = e'.2) ∧
    (n ≤ e.1 → lastWrite log0 e.1 = some (w.odata.get (w.ov.get cap (w.ov.size - 1 - i)))) := by
  obtain ⟨_, h2, h3⟩ := h.read i e he hic
  refine ⟨h2, ?_, ?_⟩
  · intro hs
    have hj : n - 1 - e.1 < log.length := by have := hc.1; omega
    refine ⟨log[n - 1 - e.1], List.getElem?_eq_getElem hj, ?_⟩
    have hslot := hc.2.2 (n - 1 - e.1) (by omega)
    rw [List.getElem?_eq_getElem hj] at hslot
    simp only [Option.map_some, Option.some.injEq] at hslot
    have e1 : n - 1 - (n - 1 - e.1) = e.1 := by omega
    rw [e1, Nat.mod_eq_of_lt (by omega)] at hslot
    have hl := hc.lastWrite_recent (n - 1 - e.1) log[n - 1 - e.1] (by omega) (by omega) (List.getElem?_eq_getElem hj)
    rw [hslot, h3] at hl
    exact Option.some.inj hl
  · intro hs
    rw [← h3, ← hc.2.1]
    symm
    apply lastWrite_drop
    intro j e' hj he' heq
    have hslot := hc.2.2 j hj
    rw [he'] at hslot
    simp only [Option.map_some, Option.some.injEq] at hslot
    rw [Nat.mod_eq_of_lt (by omega)] at hslot
    omega

end Amgcl.Solver.LGMRES
