import Amgcl.Proofs.InversePhase1
/-!
The solve phase of `detail::inverse` (forward / backward substitution per unit vector, in the workspace `t`), the
final copy, and the main result: `B · inverse(B) = 1` entrywise for every nonsingular `B`.
-/
namespace Amgcl
open Arr2
open Finset

variable {K : Type} [Field K]

/-- the in-place `j` loop of `bwdRow` after `len` iterations -/
theorem bwdInner_spec (n k i row : Nat) (A t : Array K) (ht : t.size = n * n) (hi : i < n) (hk : k < n)
    (len : Nat) (hlen : i + 1 + len ≤ n) :
    ((List.range' (i + 1) len).foldl
        (fun t j => set2 n t i k (get2 n t i k - get2 n A row j * get2 n t j k)) t).size = n * n ∧
    get2 n ((List.range' (i + 1) len).foldl
        (fun t j => set2 n t i k (get2 n t i k - get2 n A row j * get2 n t j k)) t) i k
      = get2 n t i k - ∑ j ∈ Ico (i + 1) (i + 1 + len), get2 n A row j * get2 n t j k ∧
    ∀ i' j', ¬ (i' = i ∧ j' = k) → j' < n →
      get2 n ((List.range' (i + 1) len).foldl
        (fun t j => set2 n t i k (get2 n t i k - get2 n A row j * get2 n t j k)) t) i' j' = get2 n t i' j' := by
  induction len with
  | zero =>
    refine ⟨by simpa using ht, by simp, ?_⟩
    intro i' j' _ _; rfl
  | succ len ih =>
    obtain ⟨hs, hv, ho⟩ := ih (by omega)
    rw [List.range'_concat, List.foldl_append]
    simp only [List.foldl_cons, List.foldl_nil, Nat.one_mul]
    generalize (List.range' (i + 1) len).foldl _ t = T at hs hv ho ⊢
    refine ⟨by simpa using hs, ?_, ?_⟩
    · rw [get2_set2_self T _ hs hi hk, hv, ho (i + 1 + len) k (by omega) hk]
      rw [show i + 1 + (len + 1) = (i + 1 + len) + 1 from rfl, sum_Ico_succ_top (by omega)]
      ring
    · intro i' j' hne hj'
      rw [get2_set2_ne T _ hs hi hk hj' (fun h => hne ⟨h.1.symm, h.2.symm⟩)]
      exact ho i' j' hne hj'

theorem bwdRow_spec (n k : Nat) (A : Array K) (p : Array Nat) (t : Array K) (i : Nat) (ht : t.size = n * n)
    (hi : i < n) (hk : k < n) :
    (bwdRow n k A p t i).size = n * n ∧
    get2 n (bwdRow n k A p t i) i k
      = (get2 n t i k - ∑ j ∈ Ico (i + 1) n, LM n A p i j * get2 n t j k) * LM n A p i i ∧
    ∀ i' j', ¬ (i' = i ∧ j' = k) → j' < n → get2 n (bwdRow n k A p t i) i' j' = get2 n t i' j' := by
  unfold bwdRow
  simp only
  obtain ⟨hs, hv, ho⟩ := bwdInner_spec n k i (p.getD i 0) A t ht hi hk (n - (i + 1)) (by omega)
  generalize (List.range' (i + 1) (n - (i + 1))).foldl _ t = T at hs hv ho ⊢
  have hn : i + 1 + (n - (i + 1)) = n := by omega
  rw [hn] at hv
  refine ⟨by simpa using hs, ?_, ?_⟩
  · rw [get2_set2_self T _ hs hi hk, hv]; rfl
  · intro i' j' hne hj'
    rw [get2_set2_ne T _ hs hi hk hj' (fun h => hne ⟨h.1.symm, h.2.symm⟩)]
    exact ho i' j' hne hj'

theorem fwdRow_spec (n k : Nat) (A : Array K) (p : Array Nat) (t : Array K) (i : Nat) (ht : t.size = n * n)
    (hi : i < n) (hk : k < n) :
    (fwdRow n k A p t i).size = n * n ∧
    get2 n (fwdRow n k A p t i) i k
      = (if p.getD i 0 = k then 1 else 0) - ∑ j ∈ range i, LM n A p i j * get2 n t j k ∧
    ∀ i' j', ¬ (i' = i ∧ j' = k) → j' < n → get2 n (fwdRow n k A p t i) i' j' = get2 n t i' j' := by
  unfold fwdRow
  simp only
  refine ⟨by simpa using ht, ?_, ?_⟩
  · rw [get2_set2_self t _ ht hi hk, foldl_sub_range (fun j => get2 n A (p.getD i 0) j * get2 n t j k)]; rfl
  · intro i' j' hne hj'
    exact get2_set2_ne t _ ht hi hk hj' (fun h => hne ⟨h.1.symm, h.2.symm⟩)

/-- the forward loop after `m` rows -/
theorem fwdLoop_spec (n k : Nat) (A : Array K) (p : Array Nat) (t : Array K) (ht : t.size = n * n) (hk : k < n)
    (m : Nat) (hm : m ≤ n) :
    ((List.range m).foldl (fwdRow n k A p) t).size = n * n ∧
    (∀ i, i < m → get2 n ((List.range m).foldl (fwdRow n k A p) t) i k
        = (if p.getD i 0 = k then 1 else 0)
          - ∑ j ∈ range i, LM n A p i j * get2 n ((List.range m).foldl (fwdRow n k A p) t) j k) ∧
    ∀ i' j', (j' ≠ k ∨ m ≤ i') → j' < n →
      get2 n ((List.range m).foldl (fwdRow n k A p) t) i' j' = get2 n t i' j' := by
  induction m with
  | zero =>
    refine ⟨by simpa using ht, ?_, ?_⟩
    · intro i hi; omega
    · intro i' j' _ _; rfl
  | succ m ih =>
    obtain ⟨hs, hin, hout⟩ := ih (by omega)
    rw [List.range_succ, List.foldl_append]
    simp only [List.foldl_cons, List.foldl_nil]
    generalize (List.range m).foldl (fwdRow n k A p) t = T at hs hin hout ⊢
    obtain ⟨hs', hv', ho'⟩ := fwdRow_spec n k A p T m hs (by omega) hk
    refine ⟨hs', ?_, ?_⟩
    · intro i hi
      have hsum : ∀ i0, i0 ≤ m → ∑ j ∈ range i0, LM n A p i0 j * get2 n (fwdRow n k A p T m) j k
          = ∑ j ∈ range i0, LM n A p i0 j * get2 n T j k := by
        intro i0 hi0
        apply sum_congr rfl; intro j hj
        have : j < i0 := mem_range.mp hj
        rw [ho' j k (by omega) hk]
      by_cases him : i = m
      · subst him
        rw [hv', hsum i (le_refl i)]
      · rw [ho' i k (fun h => him h.1) hk, hsum i (by omega)]
        exact hin i (by omega)
    · intro i' j' hc hj'
      rw [ho' i' j' (by rintro ⟨h1, h2⟩; rcases hc with h | h <;> omega) hj']
      exact hout i' j' (by rcases hc with h | h; exact Or.inl h; exact Or.inr (by omega)) hj'

/-- the backward loop over rows `m-1, …, 0`, started from any `t` -/
theorem bwdLoop_spec (n k : Nat) (A : Array K) (p : Array Nat) (hk : k < n) (m : Nat) (hm : m ≤ n) :
    ∀ t : Array K, t.size = n * n →
    ((List.range m).reverse.foldl (bwdRow n k A p) t).size = n * n ∧
    (∀ i, i < m → get2 n ((List.range m).reverse.foldl (bwdRow n k A p) t) i k
        = (get2 n t i k - ∑ j ∈ Ico (i + 1) n, LM n A p i j * get2 n ((List.range m).reverse.foldl (bwdRow n k A p) t) j k)
          * LM n A p i i) ∧
    ∀ i' j', (j' ≠ k ∨ m ≤ i') → j' < n →
      get2 n ((List.range m).reverse.foldl (bwdRow n k A p) t) i' j' = get2 n t i' j' := by
  induction m with
  | zero =>
    intro t ht
    refine ⟨by simpa using ht, ?_, ?_⟩
    · intro i hi; omega
    · intro i' j' _ _; rfl
  | succ m ih =>
    intro t ht
    rw [List.range_succ, List.reverse_append]
    simp only [List.reverse_cons, List.reverse_nil, List.nil_append, List.cons_append, List.foldl_cons]
    obtain ⟨hs1, hv1, ho1⟩ := bwdRow_spec n k A p t m ht (by omega) hk
    obtain ⟨hs, hin, hout⟩ := ih (by omega) (bwdRow n k A p t m) hs1
    generalize (List.range m).reverse.foldl (bwdRow n k A p) (bwdRow n k A p t m) = R at hs hin hout ⊢
    refine ⟨hs, ?_, ?_⟩
    · intro i hi
      by_cases him : i = m
      · subst him
        rw [hout i k (Or.inr (le_refl i)) hk, hv1]
        congr 2
        apply sum_congr rfl; intro j hj
        have := (mem_Ico.mp hj).1
        rw [hout j k (Or.inr (by omega)) hk, ho1 j k (by omega) hk]
      · rw [hin i (by omega), ho1 i k (fun h => him h.1) hk]
    · intro i' j' hc hj'
      rw [hout i' j' (by rcases hc with h | h; exact Or.inl h; exact Or.inr (by omega)) hj']
      exact ho1 i' j' (by rintro ⟨h1, h2⟩; rcases hc with h | h <;> omega) hj'

/-- one unit vector: after `solveCol`, column `k` of `t` solves `B x = e_k`; the other columns are untouched -/
theorem solveCol_spec {n : Nat} {B : Nat → Nat → K} (A : Array K) (p : Array Nat) (t : Array K) (k : Nat)
    (ht : t.size = n * n) (hk : k < n) (hinv : LUInv n n B (fun i => p.getD i 0) (LM n A p))
    (hd : ∀ m, m < n → LM n A p m m ≠ 0) :
    (solveCol n A p t k).size = n * n ∧
    (∀ i, i < n → ∑ j ∈ range n, B (p.getD i 0) j * get2 n (solveCol n A p t k) j k
        = if p.getD i 0 = k then 1 else 0) ∧
    ∀ i' j', j' ≠ k → j' < n → get2 n (solveCol n A p t k) i' j' = get2 n t i' j' := by
  unfold solveCol
  simp only
  obtain ⟨hs1, hin1, hout1⟩ := fwdLoop_spec n k A p t ht hk n (le_refl n)
  generalize (List.range n).foldl (fwdRow n k A p) t = Y at hs1 hin1 hout1 ⊢
  obtain ⟨hs2, hin2, hout2⟩ := bwdLoop_spec n k A p hk n (le_refl n) Y hs1
  generalize (List.range n).reverse.foldl (bwdRow n k A p) Y = X at hs2 hin2 hout2 ⊢
  refine ⟨hs2, ?_, ?_⟩
  · exact solve_alg hinv hd (fun i => if p.getD i 0 = k then 1 else 0) (fun i => get2 n Y i k)
      (fun i => get2 n X i k) hin1 hin2
  · intro i' j' hne hj'
    rw [hout2 i' j' (Or.inl hne) hj', hout1 i' j' (Or.inl hne) hj']

/-- all unit vectors -/
theorem solveAll_spec {n : Nat} {B : Nat → Nat → K} (A : Array K) (p : Array Nat) (t : Array K)
    (ht : t.size = n * n) (hinv : LUInv n n B (fun i => p.getD i 0) (LM n A p))
    (hd : ∀ m, m < n → LM n A p m m ≠ 0) (m : Nat) (hm : m ≤ n) :
    ((List.range m).foldl (solveCol n A p) t).size = n * n ∧
    ∀ k, k < m → ∀ i, i < n →
      ∑ j ∈ range n, B (p.getD i 0) j * get2 n ((List.range m).foldl (solveCol n A p) t) j k
        = if p.getD i 0 = k then 1 else 0 := by
  induction m with
  | zero => exact ⟨by simpa using ht, by intro k hk; omega⟩
  | succ m ih =>
    obtain ⟨hs, hprev⟩ := ih (by omega)
    rw [List.range_succ, List.foldl_append]
    simp only [List.foldl_cons, List.foldl_nil]
    generalize (List.range m).foldl (solveCol n A p) t = T at hs hprev ⊢
    obtain ⟨hs', hcol, hout⟩ := solveCol_spec (B := B) A p T m hs (by omega) hinv hd
    refine ⟨hs', ?_⟩
    intro k hk i hi
    by_cases hkm : k = m
    · subst hkm; exact hcol i hi
    · rw [← hprev k (by omega) i hi]
      apply sum_congr rfl; intro j _
      rw [hout j k hkm (by omega)]

theorem getD_copyN (m : Nat) (t A : Array K) (i : Nat) (hi : i < m) (hA : m ≤ A.size) :
    (copyN m t A).getD i 0 = t.getD i 0 := by
  unfold copyN
  have : ∀ m', m' ≤ m → ((List.range m').foldl (fun A i => A.setIfInBounds i (t.getD i 0)) A).size = A.size ∧
      ∀ i, i < m' → ((List.range m').foldl (fun A i => A.setIfInBounds i (t.getD i 0)) A).getD i 0 = t.getD i 0 := by
    intro m'
    induction m' with
    | zero => intro _; exact ⟨rfl, by intro i hi; omega⟩
    | succ m' ih =>
      intro hm'
      obtain ⟨hs, hg⟩ := ih (by omega)
      rw [List.range_succ, List.foldl_append]
      simp only [List.foldl_cons, List.foldl_nil]
      refine ⟨by rw [Array.size_setIfInBounds]; exact hs, ?_⟩
      intro i hi
      rw [getD_setIfInBounds]
      by_cases h : m' = i
      · subst h; rw [if_pos ⟨rfl, by rw [hs]; omega⟩]
      · rw [if_neg (fun e => h e.1)]; exact hg i (by omega)
  exact (this m (le_refl m)).2 i hi

section main
variable [LinearOrder K] [IsStrictOrderedRing K]

/-- **Main result for `detail::inverse`** (entrywise form): for every nonsingular `n×n` matrix in the buffer `A`,
whatever the workspaces `t`, `p` contain, the returned buffer holds a right inverse. -/
theorem inverse_right_inv {n : Nat} (A t : Array K) (p : Array Nat) (hA : A.size = n * n) (ht : t.size = n * n)
    (hp : p.size = n) (hns : Nonsing n (get2 n A)) :
    ∀ r k, r < n → k < n →
      ∑ j ∈ range n, get2 n A r j * get2 n (inverse n A t p).1 j k = if r = k then 1 else 0 := by
  have hst := luPhase_state A p hA hp hns
  unfold inverse
  generalize luPhase n A p = st at hst
  obtain ⟨F, q⟩ := st
  simp only at hst ⊢
  obtain ⟨hsT, hT⟩ := solveAll_spec (B := get2 n A) F q t ht hst.inv hst.diag n (le_refl n)
  generalize (List.range n).foldl (solveCol n F q) t = T at hsT hT ⊢
  intro r k hr hk
  obtain ⟨i, hi, rfl⟩ := hst.perm.surj r hr
  rw [← hT k hk i hi]
  apply sum_congr rfl; intro j hj
  have hj' := mem_range.mp hj
  congr 1
  unfold get2
  exact getD_copyN (n * n) T F _ (idx2_lt hj' hk) (by rw [hst.size])

end main
end Amgcl
