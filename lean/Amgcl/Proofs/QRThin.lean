import Amgcl.Proofs.QRFactor
/-!
From the full factorisation `A = Q_full·R_full` (`Q_full` `m×m` orthogonal, `R_full(l,c) = getR F l c`) and `q = Q_full·E` to
the thin one returned through the accessors: `A = Q_k·R_k`, `Q_kᵀ·Q_k = 1` with `Q_k = Q(·, 0:k)`, `R_k = R(0:k, ·)`,
`k = min m n`; the columns `≥ k` of `q` (wide case) vanish.
-/
set_option linter.unusedSectionVars false
namespace Amgcl
namespace QRModel
open Finset Matrix

variable {K : Type} [Field K] [LinearOrder K] [IsStrictOrderedRing K]

theorem mul_Emat_apply_lt {m n : Nat} (Q : Matrix (Fin m) (Fin m) K) (l : Fin m) (c : Fin n) (h : c.val < m) :
    (Q * (Emat m n : Matrix (Fin m) (Fin n) K)) l c = Q l ⟨c.val, h⟩ := by
  rw [Matrix.mul_apply, Finset.sum_eq_single (⟨c.val, h⟩ : Fin m)]
  · simp [Emat, natMat]
  · intro b _ hb
    have : b.val ≠ c.val := fun e => hb (Fin.ext e)
    simp [Emat, natMat, this]
  · intro hc; exact absurd (Finset.mem_univ _) hc

theorem mul_Emat_apply_ge {m n : Nat} (Q : Matrix (Fin m) (Fin m) K) (l : Fin m) (c : Fin n) (h : m ≤ c.val) :
    (Q * (Emat m n : Matrix (Fin m) (Fin n) K)) l c = 0 := by
  rw [Matrix.mul_apply]
  apply Finset.sum_eq_zero
  intro b _
  have : b.val ≠ c.val := by have := b.isLt; omega
  simp [Emat, natMat, this]

/-- the leading `k` columns of `Q(i,j)` -/
def Qthin (q : Array K) (rs cs m n : Nat) : Matrix (Fin m) (Fin (min m n)) K := fun l c => getQ q rs cs l.val c.val
/-- the leading `k` rows of `R(i,j)` -/
def Rthin (F : Array K) (rs cs m n : Nat) : Matrix (Fin (min m n)) (Fin n) K := fun l c => getR F rs cs l.val c.val

theorem thin_QR (F q : Array K) (rs cs m n : Nat) (Qf : Matrix (Fin m) (Fin m) K) (hQ : Qfᵀ * Qf = 1)
    (A : Matrix (Fin m) (Fin n) K) (hA : A = Qf * Rfull F rs cs m n)
    (hq : matOf q rs cs m n = Qf * (Emat m n : Matrix (Fin m) (Fin n) K)) :
    A = Qthin q rs cs m n * Rthin F rs cs m n ∧ (Qthin q rs cs m n)ᵀ * Qthin q rs cs m n = 1 ∧
    ∀ l c, l < m → min m n ≤ c → c < n → getQ q rs cs l c = 0 := by
  have hqe : ∀ (l : Fin m) (c : Nat) (hc : c < min m n), getQ q rs cs l.val c = Qf l ⟨c, by omega⟩ := by
    intro l c hc
    have := congrFun (congrFun hq l) ⟨c, by omega⟩
    rw [mul_Emat_apply_lt Qf l ⟨c, by omega⟩ (by show c < m; omega)] at this
    exact this
  refine ⟨?_, ?_, ?_⟩
  · ext l c
    rw [hA, Matrix.mul_apply, Matrix.mul_apply]
    have h1 : ∑ j, Qthin q rs cs m n l j * Rthin F rs cs m n j c
        = ∑ r ∈ range (min m n), toNat Qf l.val r * getR F rs cs r c.val := by
      rw [← Fin.sum_univ_eq_sum_range (fun r => toNat Qf l.val r * getR F rs cs r c.val) (min m n)]
      refine Finset.sum_congr rfl (fun r _ => ?_)
      unfold Qthin Rthin
      rw [hqe l r.val r.isLt, toNat_apply Qf l.val r.val l.isLt (by have := r.isLt; omega)]
    have h2 : ∑ j, Qf l j * Rfull F rs cs m n j c = ∑ r ∈ range m, toNat Qf l.val r * getR F rs cs r c.val := by
      rw [← Fin.sum_univ_eq_sum_range (fun r => toNat Qf l.val r * getR F rs cs r c.val) m]
      refine Finset.sum_congr rfl (fun r _ => ?_)
      rw [toNat_apply Qf l.val r.val l.isLt r.isLt]; rfl
    rw [h1, h2]
    rw [Finset.range_eq_Ico, ← Finset.sum_Ico_consecutive _ (Nat.zero_le (min m n)) (Nat.min_le_left m n)]
    rw [Finset.sum_eq_zero (s := Ico (min m n) m) (fun r hr => by
      have hr' := Finset.mem_Ico.mp hr
      have hc := c.isLt
      have : getR F rs cs r c.val = 0 := by
        unfold getR; rw [if_pos (by omega)]
      rw [this, mul_zero]), add_zero, Finset.range_eq_Ico]
  · ext a b
    rw [Matrix.mul_apply, Matrix.one_apply]
    have ha := a.isLt
    have hb := b.isLt
    have e : ∀ l : Fin m, (Qthin q rs cs m n)ᵀ a l * Qthin q rs cs m n l b
        = Qfᵀ ⟨a.val, by omega⟩ l * Qf l ⟨b.val, by omega⟩ := by
      intro l
      rw [Matrix.transpose_apply, Matrix.transpose_apply]
      unfold Qthin
      rw [hqe l a.val ha, hqe l b.val hb]
    rw [Finset.sum_congr rfl (fun l _ => e l), ← Matrix.mul_apply, hQ, Matrix.one_apply]
    simp only [Fin.ext_iff]
  · intro l c hl hkc hcn
    have := congrFun (congrFun hq ⟨l, hl⟩) ⟨c, hcn⟩
    rw [mul_Emat_apply_ge Qf ⟨l, hl⟩ ⟨c, hcn⟩ (by show m ≤ c; omega)] at this
    exact this

end QRModel
end Amgcl
