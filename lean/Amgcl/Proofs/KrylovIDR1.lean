import Amgcl.Proofs.SolverIDRs1
import Amgcl.Proofs.KrylovIDR
import Amgcl.Proofs.KrylovGMRESVec
/-!
# IDR(1): the residuals of the model run through the Sonneveld spaces; finite termination (C05)

Subject: `Model/SolverIDRs.lean` with `s = 1`, no smoothing (residual replacement on or off), inner product `stdIp`, `A`
well formed `n × n`, the preconditioner denoting a linear map `Pl` (`PDenotes`), shadow vector `p = P[0]` of length `n`.
`T = A Pl` is the (right-)preconditioned operator, `S = p^⊥`, `G_j` the Sonneveld spaces of `Proofs/KrylovIDR.lean` for
the `ω`'s the run itself computes.

* `idrPass … j`     the loop state after `j` COMPLETE passes of the `while` body (each returned normally without setting
                    `brk`: no exception, no exit inside the pass), `none` if fewer complete passes exist;
* `IdrInv`          the invariant: `r = f − A x`, `G[0] = A U[0]`, `r ∈ G_j`, and (for `j ≥ 1`) `G[0] ∈ G_{j−1}`,
                    `M(0,0) = ⟨G[0], p⟩ ≠ 0`, `om = ω_j ≠ 0`, `iter = 2j`;
* `idrPass_inv`     it holds after every number of complete passes;
* `idrPass_residual_zero`   every complete pass lowers `dim G_j` (its new `G[0] ∈ G_j` is not orthogonal to `p`, else the
                    pass throws), so at most `n` complete passes exist and after `n` of them (`2n = n + n/s`
                    matrix-vector products) the carried residual — which is the true one — is the zero vector;
* `loop_iter_le`    and a call makes at most `2n` iterations (`‖0‖ = 0`, threshold not negative).
-/
set_option linter.unusedSectionVars false
set_option linter.unusedVariables false
namespace Amgcl.Krylov
open Amgcl Amgcl.Solver Amgcl.Solver.IDRs Amgcl.Energy.Bridge Matrix

section idr1
variable {K : Type} [Field K] [DecidableEq K] [LT K] [DecidableLT K]

/-- the orthogonal complement of the shadow vector: `S = {v | ⟨v, p⟩ = 0}` -/
def shadowSpace {n : ℕ} (pv : Fin n → K) : Submodule K (Fin n → K) where
  carrier := {v | v ⬝ᵥ pv = 0}
  add_mem' := by
    intro a b ha hb
    show (a + b) ⬝ᵥ pv = 0
    have ha' : a ⬝ᵥ pv = 0 := ha
    have hb' : b ⬝ᵥ pv = 0 := hb
    rw [add_dotProduct, ha', hb', add_zero]
  zero_mem' := zero_dotProduct _
  smul_mem' := by
    intro c x hx
    show (c • x) ⬝ᵥ pv = 0
    have hx' : x ⬝ᵥ pv = 0 := hx
    rw [smul_dotProduct, hx', smul_zero]

theorem mem_shadowSpace {n : ℕ} (pv v : Fin n → K) : v ∈ shadowSpace pv ↔ v ⬝ᵥ pv = 0 := Iff.rfl

/-- the invariant of the IDR(1) loop after `j` complete passes -/
structure IdrInv (n : ℕ) (A : CRS K) (rhs : Vec K) (sqrt : K → K) (Pv : FArr (Vec K))
    (T : (Fin n → K) →ₗ[K] (Fin n → K)) (ω : ℕ → K) (j : ℕ) (st : IDRs.St K) : Prop where
  res : st.w.r = residual rhs A st.x
  gu : st.w.G 0 = spmv 1 A (st.w.U 0) 0 #[] ∧ A.ncols ≤ (st.w.U 0).size
  nrm : st.resNorm = nrmA stdIp sqrt st.w.r
  mem : vecOf n st.w.r ∈ idrSpace T (shadowSpace (vecOf n (Pv 0))) ω j
  prev : 1 ≤ j → vecOf n (st.w.G 0) ∈ idrSpace T (shadowSpace (vecOf n (Pv 0))) ω (j - 1) ∧
    st.w.M 0 0 = stdIp (st.w.G 0) (Pv 0) ∧ st.w.M 0 0 ≠ 0 ∧ st.om = ω j
  om : ∀ i, 1 ≤ i → i ≤ j → ω i ≠ 0
  iter : st.iter = 2 * j
  dim : Module.finrank K (idrSpace T (shadowSpace (vecOf n (Pv 0))) ω j) + j ≤ n

variable (n : ℕ) (A : CRS K) (hA : A.WF) (hn : A.nrows = n) (hm : A.ncols = n)
  (Prec : Vec K → Vec K) (Pl : (Fin n → K) →ₗ[K] (Fin n → K)) (hP : PDenotes n Prec Pl)
  (Pv : FArr (Vec K)) (hp : (Pv 0).size = n)
include hA hn hm hP hp

/-- **one complete pass keeps the invariant** (with the `ω` of the pass as `ω_{j+1}`) -/
theorem idr1_step (prm : IDRs.Params K) (hs : prm.s = 1) (hsm : prm.smoothing = false) (sqrt : K → K) (rhs : Vec K)
    (epsT : K) (ω : ℕ → K) (j : ℕ) (st st' : IDRs.St K)
    (hi : IdrInv n A rhs sqrt Pv (Tl .right (matOf A n n) Pl) ω j st)
    (h : IDRs.body prm stdIp sqrt A Prec Pv rhs epsT st = .ok st') (hb : st'.brk = false)
    (hω : ω (j + 1) = st'.om) :
    IdrInv n A rhs sqrt Pv (Tl .right (matOf A n n) Pl) ω (j + 1) st' := by
  obtain ⟨hmu, hom, er, eG, eU, eM, eom, ex, eit, enrm⟩ :=
    body_s1 prm hs hsm stdIp sqrt A Prec Pv rhs epsT st st' h hb
  have hcA : ColsLt A n := by rw [← hm]; exact colsLt_of_wf A hA
  obtain ⟨ires, ⟨igu1, igu2⟩, inrm, imem, iprev, iom, iiter, idim⟩ := hi
  -- sizes
  have hrs : st.w.r.size = n := by rw [ires, residual_size', hn]
  have hgs : (st.w.G 0).size = n := by rw [igu1, spmv_size', hn]
  have hvs : (p1v stdIp Pv st).size = n := by unfold p1v; rw [axpby_size]; exact hgs
  obtain ⟨hPv1, hPv2⟩ := hP _ hvs
  have hus : (p1u stdIp Prec Pv st).size = n := by unfold p1u; rw [axpby_size]; exact hPv1
  have hg1s : (p1g stdIp A Prec Pv st).size = n := by unfold p1g; rw [spmv_size', hn]
  have hr1s : (p1r stdIp A Prec Pv st).size = n := by unfold p1r; rw [axpby_size]; exact hg1s
  obtain ⟨hPr1, hPr2⟩ := hP _ hr1s
  have ht1s : (p1t stdIp A Prec Pv st).size = n := by unfold p1t; rw [spmv_size', hn]
  -- the vectors
  set rv := vecOf n st.w.r with hrv
  set gv := vecOf n (st.w.G 0) with hgv
  set pv := vecOf n (Pv 0) with hpv
  set T := Tl .right (matOf A n n) Pl with hT
  have hTapp : ∀ u, T u = matOf A n n *ᵥ Pl u := fun _ => rfl
  have hgAu : gv = matOf A n n *ᵥ vecOf n (st.w.U 0) := by
    rw [hgv, igu1, vecOf_spmv0 A hn hcA]
  have hvv : vecOf n (p1v stdIp Pv st) = rv - p1c stdIp Pv st • gv := by
    unfold p1v
    rw [vecOf_axpby n _ _ _ _ hgs, vcopy_eq, one_smul, neg_smul]; abel
  have hg1v : vecOf n (p1g stdIp A Prec Pv st)
      = st.om • T (vecOf n (p1v stdIp Pv st)) + p1c stdIp Pv st • gv := by
    unfold p1g
    rw [vecOf_spmv0 A hn hcA]
    unfold p1u
    rw [vecOf_axpby n _ _ _ _ hPv1, hPv2, mulVec_add, mulVec_smul, mulVec_smul, ← hgAu, hTapp]
  have hr1v : vecOf n (p1r stdIp A Prec Pv st) = rv - p1beta stdIp A Prec Pv st • vecOf n (p1g stdIp A Prec Pv st) := by
    unfold p1r
    rw [vecOf_axpby n _ _ _ _ hg1s, one_smul, neg_smul]; abel
  have hr2v : vecOf n (p1r2 prm stdIp sqrt A Prec Pv st)
      = vecOf n (p1r stdIp A Prec Pv st) - p1om prm stdIp sqrt A Prec Pv st • T (vecOf n (p1r stdIp A Prec Pv st)) := by
    unfold p1r2
    rw [vecOf_axpby n _ _ _ _ ht1s, one_smul, neg_smul]
    unfold p1t
    rw [vecOf_spmv0 A hn hcA, hPr2, hTapp]; abel
  -- inner products
  have hf0 : stdIp st.w.r (Pv 0) = rv ⬝ᵥ pv := stdIp_vecOf n _ _ hrs hp
  have hmu1 : p1mu stdIp A Prec Pv st = vecOf n (p1g stdIp A Prec Pv st) ⬝ᵥ pv := stdIp_vecOf n _ _ hg1s hp
  -- `r₁ ⟂ p`
  have hr1S : vecOf n (p1r stdIp A Prec Pv st) ∈ shadowSpace pv := by
    rw [mem_shadowSpace, hr1v, sub_dotProduct, smul_dotProduct, ← hmu1, ← hf0]
    unfold p1beta inv1
    rw [smul_eq_mul]
    field_simp
    ring
  -- truthfulness of the two paired updates
  have hr1res : p1r stdIp A Prec Pv st = residual rhs A (p1x stdIp A Prec Pv st) := by
    unfold p1r p1x p1g
    rw [ires]
    exact paired_update_inv rhs A hA _ _ _ _ (by rw [hus, hm])
  have hr2res : p1r2 prm stdIp sqrt A Prec Pv st = residual rhs A (p1x2 prm stdIp sqrt A Prec Pv st) := by
    have := paired_update_inv rhs A hA (p1om prm stdIp sqrt A Prec Pv st) (Prec (p1r stdIp A Prec Pv st))
      (p1x stdIp A Prec Pv st) #[] (by rw [hPr1, hm])
    rw [← hr1res] at this
    exact this
  have er' : st'.w.r = p1r2 prm stdIp sqrt A Prec Pv st := by
    rw [er]; split
    · exact hr2res.symm
    · rfl
  -- the membership of `g₁` and `r₁` in `G_j`
  have hg1G : vecOf n (p1g stdIp A Prec Pv st) ∈ idrSpace T (shadowSpace pv) ω j := by
    cases j with
    | zero => exact Submodule.mem_top
    | succ j' =>
      obtain ⟨pg, pM, pMne, pom⟩ := iprev (by omega)
      rw [Nat.add_sub_cancel] at pg
      have hmuv : st.w.M 0 0 = gv ⬝ᵥ pv := by rw [pM]; exact stdIp_vecOf n _ _ hgs hp
      -- `v ⟂ p`
      have hvS : vecOf n (p1v stdIp Pv st) ∈ shadowSpace pv := by
        rw [mem_shadowSpace, hvv, sub_dotProduct, smul_dotProduct, ← hmuv, ← hf0]
        unfold p1c inv1
        rw [smul_eq_mul]
        field_simp
        ring
      have hle := idrSpace_succ_le T (shadowSpace pv) ω j' (fun i h1 h2 => iom i h1 (by omega))
      have hvG : vecOf n (p1v stdIp Pv st) ∈ idrSpace T (shadowSpace pv) ω j' := by
        rw [hvv]
        exact Submodule.sub_mem _ (hle imem) (Submodule.smul_mem _ _ pg)
      have hstep := mem_idrSpace_succ T (shadowSpace pv) ω j' _ hvG hvS
      have : vecOf n (p1g stdIp A Prec Pv st)
          = rv - (vecOf n (p1v stdIp Pv st) - ω (j' + 1) • T (vecOf n (p1v stdIp Pv st))) := by
        rw [hg1v, pom]
        have : p1c stdIp Pv st • gv = rv - vecOf n (p1v stdIp Pv st) := by rw [hvv]; abel
        rw [this]; abel
      rw [this]
      exact Submodule.sub_mem _ imem hstep
  have hr1G : vecOf n (p1r stdIp A Prec Pv st) ∈ idrSpace T (shadowSpace pv) ω j := by
    rw [hr1v]
    exact Submodule.sub_mem _ imem (Submodule.smul_mem _ _ hg1G)
  have hω' : ω (j + 1) = p1om prm stdIp sqrt A Prec Pv st := by rw [hω, eom]
  -- a complete pass lowers the dimension: `g₁ ∈ G_j` is not orthogonal to `p`
  have hdim : Module.finrank K (idrSpace T (shadowSpace pv) ω (j + 1)) + (j + 1) ≤ n := by
    have h1 : Module.finrank K (idrSpace T (shadowSpace pv) ω (j + 1))
        ≤ Module.finrank K (idrSpace T (shadowSpace pv) ω j ⊓ shadowSpace pv : Submodule K (Fin n → K)) := by
      rw [idrSpace_succ]; exact Submodule.finrank_map_le _ _
    have hlt : idrSpace T (shadowSpace pv) ω j ⊓ shadowSpace pv < idrSpace T (shadowSpace pv) ω j := by
      refine lt_of_le_of_ne inf_le_left (fun heq => ?_)
      have : vecOf n (p1g stdIp A Prec Pv st) ∈ idrSpace T (shadowSpace pv) ω j ⊓ shadowSpace pv := by
        rw [heq]; exact hg1G
      have h0 : vecOf n (p1g stdIp A Prec Pv st) ⬝ᵥ pv = 0 := this.2
      rw [← hmu1] at h0
      exact hmu h0
    have h2 := Submodule.finrank_lt_finrank_of_lt hlt
    omega
  refine ⟨?_, ?_, ?_, ?_, ?_, ?_, ?_, hdim⟩
  · rw [er', ex]; exact hr2res
  · rw [eG, eU]; exact ⟨rfl, by rw [hus, hm]⟩
  · exact enrm
  · rw [er', hr2v, ← hω']
    exact mem_idrSpace_succ T (shadowSpace pv) ω j _ hr1G hr1S
  · intro _
    rw [Nat.add_sub_cancel, eG, eM, eom]
    exact ⟨hg1G, rfl, hmu, hω'.symm⟩
  · intro i h1 h2
    by_cases hij : i = j + 1
    · rw [hij, hω']; exact hom
    · exact iom i h1 (by omega)
  · rw [eit, iiter]; ring

/-! ### the passes of the loop -/

omit hA hn hm hP hp in
/-- the loop state after `j` COMPLETE passes of the `while` body (`none`: there are fewer) -/
def idrPass (prm : IDRs.Params K) (sqrt : K → K) (A : CRS K) (Prec : Vec K → Vec K) (Pv : FArr (Vec K)) (rhs : Vec K)
    (epsT : K) (st0 : IDRs.St K) : ℕ → Option (IDRs.St K)
  | 0 => some st0
  | j + 1 =>
    match idrPass prm sqrt A Prec Pv rhs epsT st0 j with
    | none => none
    | some st =>
      match IDRs.body prm stdIp sqrt A Prec Pv rhs epsT st with
      | .ok st' => if st'.brk then none else some st'
      | .error _ => none

/-- the `ω` computed in pass `j` (the `om` of the state after `j` complete passes) -/
def idrOmega (prm : IDRs.Params K) (sqrt : K → K) (A : CRS K) (Prec : Vec K → Vec K) (Pv : FArr (Vec K)) (rhs : Vec K)
    (epsT : K) (st0 : IDRs.St K) (j : ℕ) : K :=
  match idrPass prm sqrt A Prec Pv rhs epsT st0 j with
  | some st => st.om
  | none => 1

omit hA hn hm hP hp in
theorem idrPass_succ_some (prm : IDRs.Params K) (sqrt : K → K) (rhs : Vec K) (epsT : K) (st0 : IDRs.St K) (j : ℕ)
    (st' : IDRs.St K) (h : idrPass prm sqrt A Prec Pv rhs epsT st0 (j + 1) = some st') :
    ∃ st, idrPass prm sqrt A Prec Pv rhs epsT st0 j = some st ∧
      IDRs.body prm stdIp sqrt A Prec Pv rhs epsT st = .ok st' ∧ st'.brk = false := by
  unfold idrPass at h
  cases hj : idrPass prm sqrt A Prec Pv rhs epsT st0 j with
  | none => rw [hj] at h; cases h
  | some st =>
    rw [hj] at h
    simp only at h
    cases hb : IDRs.body prm stdIp sqrt A Prec Pv rhs epsT st with
    | error e => rw [hb] at h; cases h
    | ok s' =>
      rw [hb] at h
      simp only at h
      by_cases hbrk : s'.brk = true
      · rw [if_pos hbrk] at h; cases h
      · rw [if_neg hbrk] at h
        cases h
        exact ⟨st, rfl, hb, by simpa using hbrk⟩

omit hA hn hm hP hp in
theorem idrPass_succ_of (prm : IDRs.Params K) (sqrt : K → K) (rhs : Vec K) (epsT : K) (st0 : IDRs.St K) (j : ℕ)
    (st st' : IDRs.St K) (hj : idrPass prm sqrt A Prec Pv rhs epsT st0 j = some st)
    (hb : IDRs.body prm stdIp sqrt A Prec Pv rhs epsT st = .ok st') (hbrk : st'.brk = false) :
    idrPass prm sqrt A Prec Pv rhs epsT st0 (j + 1) = some st' := by
  show (match idrPass prm sqrt A Prec Pv rhs epsT st0 j with
    | none => none
    | some st => match IDRs.body prm stdIp sqrt A Prec Pv rhs epsT st with
      | .ok st' => if st'.brk then none else some st'
      | .error _ => none) = some st'
  rw [hj]
  simp only [hb, hbrk]
  rfl

omit hP hp in
/-- the state on loop entry satisfies the invariant for `j = 0` -/
theorem idr1_init (prm : IDRs.Params K) (hs : prm.s = 1) (sqrt : K → K) (rhs : Vec K) (ws : IDRs.Work K) (x0 : Vec K)
    (ω : ℕ → K) :
    IdrInv n A rhs sqrt Pv (Tl .right (matOf A n n) Pl) ω 0
      (IDRs.init prm ws x0 (residual rhs A x0) (nrmA stdIp sqrt (residual rhs A x0))) := by
  obtain ⟨h1, _, h3, _⟩ := IDRs.initW_spec prm ws x0 (residual rhs A x0)
  obtain ⟨g1, g2⟩ := h3 0 (by rw [hs]; exact Nat.zero_lt_one)
  refine ⟨?_, ?_, ?_, Submodule.mem_top, fun h => absurd h (by omega), fun i h1 h2 => absurd h1 (by omega), rfl, ?_⟩
  rotate_left 3
  · show Module.finrank K (⊤ : Submodule K (Fin n → K)) + 0 ≤ n
    rw [finrank_top, Module.finrank_fin_fun]; omega
  · rw [IDRs.init_w, IDRs.init_x, h1]
  · rw [IDRs.init_w, g1, g2, IDRs.spmv_vclear, residual_size', IDRs.vclear_size]
    exact ⟨rfl, by rw [hm, hn]⟩
  · rw [IDRs.init_resNorm, IDRs.init_w, h1]

/-- **after every number of complete passes the invariant holds**, for the `ω`'s the run computes -/
theorem idrPass_inv (prm : IDRs.Params K) (hs : prm.s = 1) (hsm : prm.smoothing = false) (sqrt : K → K) (rhs : Vec K)
    (epsT : K) (ws : IDRs.Work K) (x0 : Vec K) :
    ∀ j st, idrPass prm sqrt A Prec Pv rhs epsT
        (IDRs.init prm ws x0 (residual rhs A x0) (nrmA stdIp sqrt (residual rhs A x0))) j = some st →
      IdrInv n A rhs sqrt Pv (Tl .right (matOf A n n) Pl)
        (idrOmega prm sqrt A Prec Pv rhs epsT
          (IDRs.init prm ws x0 (residual rhs A x0) (nrmA stdIp sqrt (residual rhs A x0)))) j st := by
  intro j
  induction j with
  | zero =>
    intro st h
    have : st = IDRs.init prm ws x0 (residual rhs A x0) (nrmA stdIp sqrt (residual rhs A x0)) := by
      unfold idrPass at h; cases h; rfl
    rw [this]
    exact idr1_init n A hA hn hm Pl Pv prm hs sqrt rhs ws x0 _
  | succ j ih =>
    intro st' h
    obtain ⟨st, hj, hb, hbrk⟩ := idrPass_succ_some A Prec Pv prm sqrt rhs epsT _ j st' h
    refine idr1_step n A hA hn hm Prec Pl hP Pv hp prm hs hsm sqrt rhs epsT _ j st st' (ih st hj) hb hbrk ?_
    unfold idrOmega
    rw [h]

/-- **finite termination of IDR(1)**: every complete pass lowers the dimension of the Sonneveld space (`dim G_j ≤ n − j`:
the new `G[0] ∈ G_j` is not orthogonal to `p`, or the pass would have thrown), so at most `n` complete passes exist, and
after `n` complete passes — `2n = n + n/s` matrix-vector products — the carried residual is the zero vector, and it is
the true residual `f − A x` of the iterate.  No genericity hypothesis on the shadow vector. -/
theorem idrPass_residual_zero (prm : IDRs.Params K) (hs : prm.s = 1) (hsm : prm.smoothing = false) (sqrt : K → K)
    (rhs : Vec K) (epsT : K) (ws : IDRs.Work K) (x0 : Vec K)
    (j : ℕ) (st : IDRs.St K)
    (h : idrPass prm sqrt A Prec Pv rhs epsT
      (IDRs.init prm ws x0 (residual rhs A x0) (nrmA stdIp sqrt (residual rhs A x0))) j = some st) :
    j ≤ n ∧ (j = n → st.w.r = vclear n ∧ residual rhs A st.x = vclear n) := by
  have hi := idrPass_inv n A hA hn hm Prec Pl hP Pv hp prm hs hsm sqrt rhs epsT ws x0 j st h
  have hd := hi.dim
  refine ⟨by omega, fun hjn => ?_⟩
  have h0 : Module.finrank K (idrSpace (Tl .right (matOf A n n) Pl) (shadowSpace (vecOf n (Pv 0)))
      (idrOmega prm sqrt A Prec Pv rhs epsT
        (IDRs.init prm ws x0 (residual rhs A x0) (nrmA stdIp sqrt (residual rhs A x0)))) j) = 0 := by omega
  have hbot := Submodule.finrank_eq_zero.mp h0
  have hmem := hi.mem
  rw [hbot, Submodule.mem_bot] at hmem
  have hrs : st.w.r.size = n := by rw [hi.res, residual_size', hn]
  have hr0 : st.w.r = vclear n := by
    apply eq_of_vecOf_eq n _ _ hrs (by simp [vclear])
    rw [hmem]
    funext τ
    simp [vecOf, vclear]
  exact ⟨hr0, by rw [← hi.res]; exact hr0⟩

/-- **the loop cannot go on beyond `n` complete passes**: every normal exit of the `while` loop has `iter ≤ 2n` -/
theorem loop_iter_le (prm : IDRs.Params K) (hs : prm.s = 1) (hsm : prm.smoothing = false) (sqrt : K → K)
    (rhs : Vec K) (epsT : K) (ws : IDRs.Work K) (x0 : Vec K)
    (hz : nrmA stdIp sqrt (vclear n) = 0) (heps : ¬ epsT < 0) :
    ∀ (fuel j : ℕ) (st : IDRs.St K), idrPass prm sqrt A Prec Pv rhs epsT
        (IDRs.init prm ws x0 (residual rhs A x0) (nrmA stdIp sqrt (residual rhs A x0))) j = some st → j ≤ n →
      ∀ stf, IDRs.loop prm stdIp sqrt A Prec Pv rhs epsT fuel st = (none, stf) → stf.iter ≤ 2 * n := by
  intro fuel
  induction fuel with
  | zero =>
    intro j st hj hjn stf h
    have hi := idrPass_inv n A hA hn hm Prec Pl hP Pv hp prm hs hsm sqrt rhs epsT ws x0 j st hj
    unfold IDRs.loop loopE at h
    cases h
    rw [hi.iter]; omega
  | succ fuel ih =>
    intro j st hj hjn stf h
    have hi := idrPass_inv n A hA hn hm Prec Pl hP Pv hp prm hs hsm sqrt rhs epsT ws x0 j st hj
    unfold IDRs.loop loopE at h
    by_cases hc : IDRs.cond prm.maxiter epsT st = true
    · rw [if_pos hc] at h
      obtain ⟨_, _, hlt⟩ := IDRs.cond_iter _ _ _ hc
      -- the residual is not yet zero, so fewer than `n` complete passes have been made
      have hjlt : j < n := by
        by_contra hge
        have hr0 := ((idrPass_residual_zero n A hA hn hm Prec Pl hP Pv hp prm hs hsm sqrt rhs epsT ws x0 j st hj).2
          (by omega)).1
        rw [hi.nrm, hr0, hz] at hlt
        exact heps hlt
      cases hb : IDRs.body prm stdIp sqrt A Prec Pv rhs epsT st with
      | error e =>
        rw [hb] at h
        obtain ⟨e', s'⟩ := e
        simp only at h
        cases h
      | ok st' =>
        rw [hb] at h
        simp only at h
        have hle := IDRs.body_iter_le_s1 prm hs stdIp sqrt A Prec Pv rhs epsT st st' hb
        by_cases hbrk : st'.brk = true
        · have hnc : IDRs.cond prm.maxiter epsT st' = false := by simp [IDRs.cond, hbrk]
          rw [loopE_of_not_cond _ _ _ _ hnc] at h
          cases h
          rw [hi.iter] at hle
          omega
        · have hbrk' : st'.brk = false := by simpa using hbrk
          exact ih (j + 1) st' (idrPass_succ_of A Prec Pv prm sqrt rhs epsT _ j st st' hj hb hbrk') (by omega) stf h
    · rw [if_neg hc] at h
      cases h
      rw [hi.iter]; omega

/-- **a call of IDR(1) makes at most `2n = n + n/s` iterations** (no smoothing; `‖0‖ = 0`; threshold not negative; NO
hypothesis on the shadow vector beyond its length): every normal return reports `it ≤ 2n` -/
theorem idrs1_call_iter_le (prm : IDRs.Params K) (hs : prm.s = 1) (hsm : prm.smoothing = false) (sqrt : K → K)
    (eps : K) (rhs : Vec K) (ws : IDRs.Work K) (x0 : Vec K)
    (hz : nrmA stdIp sqrt (vclear n) = 0)
    (heps : ∀ nf, prologueA prm.nsSearch stdIp sqrt eps rhs = .go nf → ¬ IDRs.epsTol prm nf < 0)
    (it : ℕ) (res : K) (x : Vec K) (w : IDRs.Work K)
    (h : IDRs.solve prm stdIp sqrt eps A Prec Pv ws rhs x0 = .ok (it, res, x, w)) : it ≤ 2 * n := by
  rw [IDRs.solve, Run.toExcept_ok] at h
  have h' : (IDRs.run prm stdIp sqrt eps A Prec Pv ws rhs x0).out = .ok (it, res) := by rw [h]; rfl
  cases hpro : prologueA prm.nsSearch stdIp sqrt eps rhs with
  | trivial nn =>
    rw [IDRs.run_trivial prm stdIp sqrt eps A Prec Pv ws rhs x0 nn hpro] at h'
    simp only [Run.out, Except.ok.injEq, Prod.mk.injEq] at h'
    omega
  | go nf =>
    rw [IDRs.run_go prm stdIp sqrt eps A Prec Pv ws rhs x0 nf hpro] at h'
    split at h'
    · simp only [Run.out, Except.ok.injEq, Prod.mk.injEq] at h'
      omega
    · cases hfin : IDRs.final prm stdIp sqrt A Prec Pv ws rhs x0 nf with
      | mk oe st =>
        rw [hfin] at h'
        cases oe with
        | some e => simp [Run.out] at h'
        | none =>
          simp only [Run.out, Except.ok.injEq, Prod.mk.injEq] at h'
          rw [← h'.1]
          unfold IDRs.final at hfin
          exact loop_iter_le n A hA hn hm Prec Pl hP Pv hp prm hs hsm sqrt rhs _ ws x0 hz (heps nf hpro)
            prm.maxiter 0 _ rfl (Nat.zero_le n) st hfin

end idr1
end Amgcl.Krylov
