import Amgcl.Proofs.KernelsSaad2
import Amgcl.Proofs.SortRowPerm
/-!
`spgemm_saad`: the two outer loops (all rows, marker arrays shared across rows as one OpenMP thread does) and the
final statements.
-/
namespace Amgcl
open Finset

-- scan_row_sizes ---------------------------------------------------------------------------------------------

def scanPair (ws : List Nat) : List Nat × Nat :=
  ws.foldl (fun (acc : List Nat × Nat) w => (acc.1 ++ [acc.2 + w], acc.2 + w)) ([0], 0)

theorem scanWidths_eq (ws : List Nat) : scanWidths ws = (scanPair ws).1 := rfl

theorem scanPair_snoc (ws : List Nat) (w : Nat) :
    scanPair (ws ++ [w]) = ((scanPair ws).1 ++ [(scanPair ws).2 + w], (scanPair ws).2 + w) := by
  unfold scanPair; rw [List.foldl_append]; rfl

theorem scanPair_spec (ws : List Nat) :
    (scanPair ws).2 = ws.sum ∧ (scanPair ws).1.length = ws.length + 1 ∧
      ∀ i, i ≤ ws.length → (scanPair ws).1.getD i 0 = (ws.take i).sum := by
  induction ws using List.reverseRecOn with
  | nil => refine ⟨rfl, rfl, ?_⟩; intro i hi; have : i = 0 := by simpa using hi
           subst this; rfl
  | append_singleton ws w ih =>
    obtain ⟨h1, h2, h3⟩ := ih
    rw [scanPair_snoc]
    refine ⟨by simp [h1], by simp [h2], ?_⟩
    intro i hi
    simp only [List.length_append, List.length_singleton] at hi
    by_cases hlt : i ≤ ws.length
    · have hl : i < (scanPair ws).1.length := by omega
      rw [List.getD_eq_getElem?_getD, List.getElem?_append_left hl, ← List.getD_eq_getElem?_getD, h3 i hlt,
        List.take_append_of_le_length hlt]
    · have hi' : i = ws.length + 1 := by omega
      subst hi'
      rw [List.getD_eq_getElem?_getD, List.getElem?_append_right (by omega), h2]
      simp [h1]

theorem scanWidths_getD (ws : List Nat) (i : Nat) (hi : i ≤ ws.length) :
    (scanWidths ws).getD i 0 = (ws.take i).sum := (scanPair_spec ws).2.2 i hi

section
variable {K : Type} [Semiring K]

theorem saadTerms_cols_lt (A B : CRS K) (hB : B.WF) (ia : Nat) : ∀ t ∈ saadTerms A B ia, t.1 < B.ncols := by
  intro t ht
  unfold saadTerms at ht
  simp only [List.mem_flatMap, List.mem_map] at ht
  obtain ⟨ca, _, cb, hcb, rfl⟩ := ht
  exact hB.row_lt ca.1 cb hcb

/-- number of distinct columns of the product row `ia` -/
def saadCard (A B : CRS K) (ia : Nat) : Nat := (cols (saadTerms A B ia)).toFinset.card

/-- first pass: the widths are the numbers of distinct columns, for every row -/
theorem saadWidths_eq (A B : CRS K) (hB : B.WF) :
    saadWidths A B = (List.range A.nrows).map (saadCard A B) := by
  unfold saadWidths
  suffices h : ∀ k, let r := (List.range k).foldl (fun (acc : List Nat × Array Int) ia =>
        let r := saadWidthRow A B acc.2 ia
        (acc.1 ++ [r.1], r.2)) ([], Array.replicate B.ncols (-1))
      r.1 = (List.range k).map (saadCard A B) ∧ r.2.size = B.ncols ∧ ∀ c, r.2.getD c (-1) < (k : Int) by
    exact (h A.nrows).1
  intro k
  induction k with
  | zero =>
    refine ⟨rfl, by simp, ?_⟩
    intro c
    simp only [List.range_zero, List.foldl_nil, Array.getD_eq_getD_getElem?, Array.getElem?_replicate]
    split <;> simp
  | succ k ih =>
    obtain ⟨h1, h2, h3⟩ := ih
    simp only [List.range_succ, List.foldl_append, List.foldl_cons, List.foldl_nil, List.map_append,
      List.map_cons, List.map_nil]
    set acc := (List.range k).foldl (fun (acc : List Nat × Array Int) ia =>
        let r := saadWidthRow A B acc.2 ia
        (acc.1 ++ [r.1], r.2)) ([], Array.replicate B.ncols (-1)) with hacc
    rw [saadWidthRow_eq]
    have hclean : ∀ c, acc.2.getD c (-1) = (k : Int) ↔ c ∈ ([] : List Nat) := by
      intro c; have := h3 c; constructor
      · intro h; omega
      · intro h; cases h
    obtain ⟨c1, c2, _, c4⟩ := cnt_foldl k (cols (saadTerms A B k)) B.ncols
      (by intro c hc; obtain ⟨t, ht, rfl⟩ := List.mem_map.mp hc; exact saadTerms_cols_lt A B hB k t ht)
      [] 0 acc.2 h2 hclean
    simp only [List.toFinset_nil, Finset.card_empty, add_zero, zero_add, List.nil_append] at c1
    refine ⟨by rw [h1, c1]; rfl, c2, ?_⟩
    intro c
    rcases c4 c with h | h
    · rw [h]; push_cast; omega
    · rw [h]; have := h3 c; push_cast; omega

/-- what the second pass guarantees about a finished product row -/
structure SaadRowOk (A B : CRS K) (i : Nat) (row : Row K) : Prop where
  get : ∀ j, rowGet row j = rowGet (saadTerms A B i) j
  nodup : (cols row).Nodup
  len : row.length = saadCard A B i
  mem : ∀ e ∈ row, e.1 ∈ cols (saadTerms A B i)

/-- body of the second-pass row loop -/
def saadOuterStep (A B : CRS K) (sort : Bool) (ptr : List Nat) (acc : Array (Row K) × Array Int) (ia : Nat) :
    Array (Row K) × Array Int :=
  let r := saadRow A B acc.2 ia (ptr.getD ia 0)
  let row := if sort then sortRow r.1.toList else r.1.toList
  (acc.1.push row, r.2)

theorem spgemmSaad_eq (A B : CRS K) (sort : Bool) :
    spgemmSaad A B sort = { ncols := B.ncols, rows := ((List.range A.nrows).foldl
      (saadOuterStep A B sort (scanWidths (saadWidths A B))) (#[], Array.replicate B.ncols (-1))).1 } := rfl

theorem foldl_range_succ {β : Type} (f : β → Nat → β) (init : β) (k : Nat) :
    (List.range (k + 1)).foldl f init = f ((List.range k).foldl f init) k := by
  simp [List.range_succ]

theorem saadRows_spec (A B : CRS K) (hB : B.WF) (sort : Bool) (k : Nat) (hk : k ≤ A.nrows) :
    let ptr := scanWidths (saadWidths A B)
    let r := (List.range k).foldl (saadOuterStep A B sort ptr) (#[], Array.replicate B.ncols (-1))
    r.1.size = k ∧ r.2.size = B.ncols ∧ (∀ c, r.2.getD c (-1) < (ptr.getD k 0 : Int)) ∧
      ∀ i, i < k → SaadRowOk A B i (r.1.getD i []) := by
  intro ptr
  have hws := saadWidths_eq A B hB
  have hptr : ∀ i, i ≤ A.nrows → ptr.getD i 0 = (((List.range A.nrows).map (saadCard A B)).take i).sum := by
    intro i hi
    show (scanWidths (saadWidths A B)).getD i 0 = _
    rw [hws, scanWidths_getD _ _ (by simpa using hi)]
  induction k with
  | zero =>
    refine ⟨rfl, by simp, ?_, ?_⟩
    · intro c
      have : ptr.getD 0 0 = 0 := by rw [hptr 0 (Nat.zero_le _)]; simp
      rw [this]
      simp only [List.range_zero, List.foldl_nil, Array.getD_eq_getD_getElem?, Array.getElem?_replicate]
      split <;> simp
    · intro i hi; omega
  | succ k ih =>
    obtain ⟨h1, h2, h3, h4⟩ := ih (Nat.le_of_succ_le hk)
    simp only [foldl_range_succ]
    generalize (List.range k).foldl (saadOuterStep A B sort ptr) (#[], Array.replicate B.ncols (-1)) = acc at *
    unfold saadOuterStep
    simp only
    rw [saadRow_eq]
    have I0 : AccInv (K := K) (ptr.getD k 0) B.ncols [] #[] acc.2 := AccInv.init _ _ _ h2 h3
    have I := AccInv.foldl (saadTerms A B k) (saadTerms_cols_lt A B hB k) I0
    simp only [List.nil_append] at I
    generalize (saadTerms A B k).foldl (accStep (ptr.getD k 0)) (#[], acc.2) = res at *
    have hnext : ptr.getD (k + 1) 0 = ptr.getD k 0 + res.1.size := by
      rw [hptr (k + 1) hk, hptr k (Nat.le_of_succ_le hk), I.card]
      have hklt : k < ((List.range A.nrows).map (saadCard A B)).length := by simp; omega
      rw [List.take_succ_eq_append_getElem hklt, List.sum_append]
      simp [saadCard]
    have hrow : SaadRowOk A B k (if sort then sortRow res.1.toList else res.1.toList) := by
      cases sort with
      | false =>
        exact ⟨I.get, I.nodup, by simpa [saadCard] using I.card, I.cols_mem⟩
      | true =>
        refine ⟨fun j => by simp only [if_true]; rw [rowGet_sortRow]; exact I.get j, ?_, ?_, ?_⟩
        · simp only [if_true]; exact (sortRow_cols_perm _).nodup_iff.mpr I.nodup
        · simp only [if_true]; rw [sortRow_length]; simpa [saadCard] using I.card
        · intro e he; simp only [if_true] at he
          exact I.cols_mem e ((sortRow_perm _).mem_iff.mp he)
    refine ⟨by simp [h1], I.size, ?_, ?_⟩
    · intro c
      have := I.marker_lt c
      rw [hnext]; exact_mod_cast this
    · intro i hi
      by_cases hik : i < k
      · have : (acc.1.push (if sort then sortRow res.1.toList else res.1.toList)).getD i [] = acc.1.getD i [] := by
          simp [Array.getD, Array.getElem_push, h1, hik, Nat.lt_succ_of_lt hik]
        rw [this]; exact h4 i hik
      · have hk' : i = k := by omega
        subst hk'
        have : (acc.1.push (if sort then sortRow res.1.toList else res.1.toList)).getD i [] =
            (if sort then sortRow res.1.toList else res.1.toList) := by
          simp [Array.getD, Array.getElem_push, h1]
        rw [this]; exact hrow

theorem spgemmSaad_row (A B : CRS K) (hB : B.WF) (sort : Bool) (i : Nat) (hi : i < A.nrows) :
    (spgemmSaad A B sort).nrows = A.nrows ∧ SaadRowOk A B i ((spgemmSaad A B sort).row i) := by
  obtain ⟨h1, _, _, h4⟩ := saadRows_spec A B hB sort A.nrows (Nat.le_refl _)
  rw [spgemmSaad_eq]
  exact ⟨h1, h4 i hi⟩

/-- the value denoted by the flat term list is the dense product entry -/
theorem rowGet_saadTerms (A B : CRS K) (hA : A.WF) (i j : Nat) :
    rowGet (saadTerms A B i) j = ∑ k ∈ range A.ncols, A.get i k * B.get k j := by
  unfold saadTerms
  rw [rowGet_flatMap]
  have : ((A.row i).map (fun ca => rowGet ((B.row ca.1).map (fun cb => (cb.1, ca.2 * cb.2))) j))
      = (A.row i).map (fun ca => ca.2 * B.get ca.1 j) := by
    apply List.map_congr_left; intro ca _; rw [rowGet_map_mul_left]; rfl
  rw [this, sum_map_mul_eq_sum_rowGet (A.row i) (fun k => B.get k j) A.ncols (hA.row_lt i)]
  rfl

end
end Amgcl
