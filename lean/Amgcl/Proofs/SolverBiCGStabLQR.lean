import Amgcl.Proofs.SolverBiCGStabLLin
/-!
Work-space independence of BiCGStab(L), part 1: the small dense part.

Two runs whose map-modelled arrays AGREE ON THE CELLS THAT ARE READ produce results that agree on those cells:
`genReflector`, `applyReflMat`, `applyReflVec`, `compute`, `QR.solve` (relation `Agree2 S` on the matrix block,
`tau[0..cols)`, `Y` on a set that contains `[yo, yo+cols)`), the Gram matrix `gram` (agreement is CREATED on
`(L+1)×(L+1)`: every cell is written before it is read) and `polyCoef` (`Y0` on `0..L`).
-/
namespace Amgcl.Solver.QR
open Amgcl Amgcl.Solver
set_option linter.unusedSectionVars false
set_option linter.unusedSimpArgs false
set_option linter.unusedVariables false

variable {K : Type} [Field K] [DecidableEq K] [LT K] [DecidableLT K]

/-- two matrices agree on the cells in `S` -/
def Agree2 (S : Nat → Nat → Prop) (A A' : FArr2 K) : Prop := ∀ a b, S a b → A.get a b = A'.get a b
/-- two arrays agree on the cells in `S` -/
def Agree1 (S : Nat → Prop) (f f' : FArr K) : Prop := ∀ a, S a → f.get a = f'.get a

theorem Agree2.set {S : Nat → Nat → Prop} {A A' : FArr2 K} (h : Agree2 S A A') (i j : Nat) (x x' : K)
    (hx : x = x') : Agree2 S (setF2 A i j x) (setF2 A' i j x') := by
  intro a b hab
  rw [setF2_get, setF2_get, hx, h a b hab]

theorem Agree1.set {S : Nat → Prop} {f f' : FArr K} (h : Agree1 S f f') (i : Nat) (x x' : K)
    (hx : x = x') : Agree1 S (setF f i x) (setF f' i x') := by
  intro a ha
  rw [setF_get, setF_get, hx, h a ha]

theorem foldl_range_congr {σ : Type} (f g : σ → Nat → σ) (n : Nat) (a : σ)
    (h : ∀ k, k < n → ∀ s, f s k = g s k) : (List.range n).foldl f a = (List.range n).foldl g a :=
  foldl_range_rel f g (fun _ s t => s = t) n a a rfl (fun k s t hk hst => by rw [hst, h k hk])

theorem foldl_mem_congr {σ β : Type} (f g : σ → β → σ) (l : List β) (a : σ)
    (h : ∀ x, x ∈ l → ∀ s, f s x = g s x) : l.foldl f a = l.foldl g a :=
  foldl_mem_rel f g (fun s t => s = t) l a a rfl (fun s t x hx hst => by rw [hst, h x hx])

/-- `gen_reflector` reads the pivot and the column below it -/
theorem genReflector_rel (sqrt : K → K) (S : Nat → Nat → Prop) (order : Nat) (A A' : FArr2 K) (ri ci : Nat)
    (h : Agree2 S A A') (h0 : S ri ci) (h1 : ∀ t, t < order - 1 → S (ri + 1 + t) ci) :
    (genReflector sqrt order A ri ci).1 = (genReflector sqrt order A' ri ci).1 ∧
    Agree2 S (genReflector sqrt order A ri ci).2 (genReflector sqrt order A' ri ci).2 := by
  unfold genReflector
  by_cases ho : order ≤ 1
  · rw [if_pos ho, if_pos ho]; exact ⟨rfl, h⟩
  · rw [if_neg ho, if_neg ho]
    simp only []
    have hx : (List.range (order - 1)).foldl (fun acc t => acc + sqr (absK (A.get (ri + 1 + t) ci))) 0
        = (List.range (order - 1)).foldl (fun acc t => acc + sqr (absK (A'.get (ri + 1 + t) ci))) 0 :=
      foldl_range_congr _ _ _ _ (fun k hk s => by rw [h _ _ (h1 k hk)])
    rw [hx, h ri ci h0]
    split
    · exact ⟨rfl, h⟩
    · refine ⟨rfl, ?_⟩
      apply Agree2.set _ _ _ _ _ rfl
      refine foldl_range_rel _ _ (fun _ (M M' : FArr2 K) => Agree2 S M M') _ _ _ h ?_
      intro k M M' hk hM
      exact hM.set _ _ _ _ (by rw [hM _ _ (h1 k hk)])

/-- `apply_reflector` on a block of the same matrix reads the block and the Householder vector -/
theorem applyReflMat_rel (S : Nat → Nat → Prop) (m n vr vc : Nat) (tau : K) (A A' : FArr2 K) (cr cc : Nat)
    (h : Agree2 S A A') (hC0 : ∀ i, i < n → S cr (cc + i))
    (hC : ∀ j i, 1 ≤ j → j < m → i < n → S (cr + j) (cc + i)) (hV : ∀ j, 1 ≤ j → j < m → S (vr + j) vc) :
    Agree2 S (applyReflMat m n vr vc tau A cr cc) (applyReflMat m n vr vc tau A' cr cc) := by
  unfold applyReflMat
  split
  · exact h
  · refine foldl_range_rel _ _ (fun _ (M M' : FArr2 K) => Agree2 S M M') _ _ _ h ?_
    intro i M M' hi hM
    have hs : ((List.range m).drop 1).foldl (fun s j => s + M.get (cr + j) (cc + i) * M.get (vr + j) vc)
          (M.get cr (cc + i))
        = ((List.range m).drop 1).foldl (fun s j => s + M'.get (cr + j) (cc + i) * M'.get (vr + j) vc)
          (M'.get cr (cc + i)) := by
      rw [hM _ _ (hC0 i hi)]
      apply foldl_mem_congr
      intro j hj s
      obtain ⟨j1, j2⟩ := mem_range_drop hj
      rw [hM _ _ (hC j i j1 j2 hi), hM _ _ (hV j j1 j2)]
    simp only []
    rw [hs, hM _ _ (hC0 i hi)]
    refine foldl_mem_rel _ _ (fun (M M' : FArr2 K) => Agree2 S M M') _ _ _ (hM.set _ _ _ _ rfl) ?_
    intro N N' j hj hN
    obtain ⟨j1, j2⟩ := mem_range_drop hj
    exact hN.set _ _ _ _ (by rw [hN _ _ (hC j i j1 j2 hi), hN _ _ (hV j j1 j2)])

/-- `apply_reflector` on the right-hand side vector -/
theorem applyReflVec_rel (S : Nat → Nat → Prop) (Sf : Nat → Prop) (m : Nat) (A A' : FArr2 K) (vr vc : Nat) (tau : K)
    (f f' : FArr K) (fo : Nat) (h : Agree2 S A A') (hf : Agree1 Sf f f') (hF0 : Sf fo)
    (hF : ∀ j, 1 ≤ j → j < m → Sf (fo + j)) (hV : ∀ j, 1 ≤ j → j < m → S (vr + j) vc) :
    Agree1 Sf (applyReflVec m A vr vc tau f fo) (applyReflVec m A' vr vc tau f' fo) := by
  unfold applyReflVec
  split
  · exact hf
  · have hs : ((List.range m).drop 1).foldl (fun s j => s + f.get (fo + j) * A.get (vr + j) vc) (f.get fo)
        = ((List.range m).drop 1).foldl (fun s j => s + f'.get (fo + j) * A'.get (vr + j) vc) (f'.get fo) := by
      rw [hf _ hF0]
      apply foldl_mem_congr
      intro j hj s
      obtain ⟨j1, j2⟩ := mem_range_drop hj
      rw [hf _ (hF j j1 j2), h _ _ (hV j j1 j2)]
    simp only []
    rw [hs, hf _ hF0]
    refine foldl_mem_rel _ _ (fun (g g' : FArr K) => Agree1 Sf g g') _ _ _ (hf.set _ _ _ rfl) ?_
    intro g g' j hj hg
    obtain ⟨j1, j2⟩ := mem_range_drop hj
    exact hg.set _ _ _ (by rw [hg _ (hF j j1 j2), h _ _ (hV j j1 j2)])

/-- the block `[o, o+rows) × [o, o+cols)` -/
def Block (o rows cols : Nat) : Nat → Nat → Prop := fun a b => o ≤ a ∧ a < o + rows ∧ o ≤ b ∧ b < o + cols

/-- `compute` (Householder QR in place) reads only the block; `tau[0..min(rows,cols))` is written before it is read -/
theorem compute_rel (sqrt : K → K) (rows cols o : Nat) (A A' : FArr2 K) (tau tau' : FArr K)
    (h : Agree2 (Block o rows cols) A A') :
    Agree2 (Block o rows cols) (compute sqrt rows cols o A tau).1 (compute sqrt rows cols o A' tau').1 ∧
    ∀ t, t < min rows cols → (compute sqrt rows cols o A tau).2.get t = (compute sqrt rows cols o A' tau').2.get t := by
  unfold compute
  simp only []
  refine foldl_range_rel _ _ (fun i (p p' : FArr2 K × FArr K) =>
    Agree2 (Block o rows cols) p.1 p'.1 ∧ ∀ t, t < i → p.2.get t = p'.2.get t) _ _ _ ⟨h, fun t ht => by omega⟩ ?_
  intro i p p' hi ⟨hp1, hp2⟩
  have hi1 : i < rows := by omega
  have hi2 : i < cols := by omega
  obtain ⟨g1, g2⟩ := genReflector_rel sqrt (Block o rows cols) (rows - i) p.1 p'.1 (o + i) (o + i) hp1
    ⟨by omega, by omega, by omega, by omega⟩ (fun t ht => ⟨by omega, by omega, by omega, by omega⟩)
  simp only [setF_same]
  refine ⟨?_, ?_⟩
  · split
    · rw [g1]
      exact applyReflMat_rel _ _ _ _ _ _ _ _ _ _ g2
        (fun k hk => ⟨by omega, by omega, by omega, by omega⟩)
        (fun j k j1 j2 hk => ⟨by omega, by omega, by omega, by omega⟩)
        (fun j j1 j2 => ⟨by omega, by omega, by omega, by omega⟩)
    · exact g2
  · intro t ht
    rw [setF_get, setF_get, g1]
    by_cases hti : t = i
    · simp only [hti, if_true]
    · simp only [hti, if_false]; exact hp2 t (by omega)

/-- `qr.solve` (branch `rows ≥ cols`): the matrix block, `tau[0..cols)` (only if `computed`), the right-hand side
`b[0..rows)` and the cells of `Y` in `SY` OUTSIDE `[yo, yo+cols)` are all that is read; `f` and `tau` (if not
`computed`) are overwritten first. -/
theorem solve_rel (sqrt : K → K) (rows cols o : Nat) (hrc : cols ≤ rows) (A A' : FArr2 K) (q q' : QRSt K)
    (b b' : Nat → K) (Y Y' : FArr K) (yo : Nat) (computed : Bool) (SY : Nat → Prop)
    (hA : Agree2 (Block o rows cols) A A') (hb : ∀ t, t < rows → b t = b' t)
    (htau : computed = true → ∀ t, t < cols → q.tau.get t = q'.tau.get t)
    (hSY : ∀ t, t < cols → SY (yo + t))
    (hY : ∀ k, SY k → ¬ (yo ≤ k ∧ k < yo + cols) → Y.get k = Y'.get k) :
    Agree2 (Block o rows cols) (solve sqrt rows cols o A q b Y yo computed).1
      (solve sqrt rows cols o A' q' b' Y' yo computed).1 ∧
    (∀ t, t < cols → (solve sqrt rows cols o A q b Y yo computed).2.1.tau.get t
      = (solve sqrt rows cols o A' q' b' Y' yo computed).2.1.tau.get t) ∧
    Agree1 SY (solve sqrt rows cols o A q b Y yo computed).2.2
      (solve sqrt rows cols o A' q' b' Y' yo computed).2.2 := by
  have hct : Agree2 (Block o rows cols) (if computed = true then (A, q.tau) else compute sqrt rows cols o A q.tau).1
        (if computed = true then (A', q'.tau) else compute sqrt rows cols o A' q'.tau).1 ∧
      ∀ t, t < cols → (if computed = true then (A, q.tau) else compute sqrt rows cols o A q.tau).2.get t
        = (if computed = true then (A', q'.tau) else compute sqrt rows cols o A' q'.tau).2.get t := by
    cases computed with
    | true => exact ⟨hA, htau rfl⟩
    | false =>
      obtain ⟨c1, c2⟩ := compute_rel sqrt rows cols o A A' q.tau q'.tau hA
      exact ⟨c1, fun t ht => c2 t (by omega)⟩
  unfold solve
  simp only []
  generalize (if computed = true then (A, q.tau) else compute sqrt rows cols o A q.tau) = ct at hct ⊢
  generalize (if computed = true then (A', q'.tau) else compute sqrt rows cols o A' q'.tau) = ct' at hct ⊢
  obtain ⟨hc1, hc2⟩ := hct
  -- f0
  have hf0 : Agree1 (fun k => k < rows) ((List.range rows).foldl (fun f t => setF f t (b t)) q.f)
      ((List.range rows).foldl (fun f t => setF f t (b' t)) q'.f) := by
    have := foldl_range_rel (fun (f : FArr K) t => setF f t (b t)) (fun (f : FArr K) t => setF f t (b' t))
      (fun t (f f' : FArr K) => ∀ k, k < t → f.get k = f'.get k) rows q.f q'.f (fun k hk => by omega) (by
        intro t f f' ht hff k hk
        rw [setF_get, setF_get, hb t ht]
        by_cases hkt : k = t
        · simp only [hkt, if_true]
        · simp only [hkt, if_false]; exact hff k (by omega))
    exact this
  -- f
  have hf : Agree1 (fun k => k < rows)
      ((List.range cols).foldl (fun f i => applyReflVec (rows - i) ct.1 (o + i) (o + i) (ct.2.get i) f i)
        ((List.range rows).foldl (fun f t => setF f t (b t)) q.f))
      ((List.range cols).foldl (fun f i => applyReflVec (rows - i) ct'.1 (o + i) (o + i) (ct'.2.get i) f i)
        ((List.range rows).foldl (fun f t => setF f t (b' t)) q'.f)) := by
    refine foldl_range_rel _ _ (fun _ (g g' : FArr K) => Agree1 (fun k => k < rows) g g') _ _ _ hf0 ?_
    intro i g g' hi hg
    rw [hc2 i hi]
    exact applyReflVec_rel (Block o rows cols) _ _ _ _ _ _ _ _ _ _ hc1 hg (by show i < rows; omega)
      (fun j j1 j2 => by show i + j < rows; omega) (fun j j1 j2 => ⟨by omega, by omega, by omega, by omega⟩)
  refine ⟨hc1, hc2, ?_⟩
  -- Y1
  have hY1 : Agree1 SY
      ((List.range cols).foldl (fun Y t => setF Y (yo + t)
        (((List.range cols).foldl (fun f i => applyReflVec (rows - i) ct.1 (o + i) (o + i) (ct.2.get i) f i)
          ((List.range rows).foldl (fun f t => setF f t (b t)) q.f)).get t)) Y)
      ((List.range cols).foldl (fun Y t => setF Y (yo + t)
        (((List.range cols).foldl (fun f i => applyReflVec (rows - i) ct'.1 (o + i) (o + i) (ct'.2.get i) f i)
          ((List.range rows).foldl (fun f t => setF f t (b' t)) q'.f)).get t)) Y') := by
    have := foldl_range_rel
      (fun (Y : FArr K) t => setF Y (yo + t)
        (((List.range cols).foldl (fun f i => applyReflVec (rows - i) ct.1 (o + i) (o + i) (ct.2.get i) f i)
          ((List.range rows).foldl (fun f t => setF f t (b t)) q.f)).get t))
      (fun (Y : FArr K) t => setF Y (yo + t)
        (((List.range cols).foldl (fun f i => applyReflVec (rows - i) ct'.1 (o + i) (o + i) (ct'.2.get i) f i)
          ((List.range rows).foldl (fun f t => setF f t (b' t)) q'.f)).get t))
      (fun t (Z Z' : FArr K) => ∀ k, SY k → ((yo ≤ k ∧ k < yo + cols) → k < yo + t) → Z.get k = Z'.get k)
      cols Y Y' (fun k hk hr => hY k hk (fun hin => by have := hr hin; omega)) (by
        intro t Z Z' ht hZ k hk hr
        rw [setF_get, setF_get, hf t (by show t < rows; omega)]
        by_cases hkt : k = yo + t
        · simp only [hkt, if_true]
        · simp only [hkt, if_false]
          exact hZ k hk (fun hin => by have := hr hin; omega))
    intro k hk
    exact this k hk (fun hin => hin.2)
  -- Y2
  refine foldl_mem_rel _ _ (fun (Z Z' : FArr K) => Agree1 SY Z Z') _ _ _ hY1 ?_
  intro Z Z' i hi hZ
  have hi' : i < cols := by simpa using hi
  rw [hc1 (o + i) (o + i) ⟨by omega, by omega, by omega, by omega⟩]
  split
  · exact hZ
  · refine foldl_range_rel _ _ (fun _ (W W' : FArr K) => Agree1 SY W W') _ _ _
      (hZ.set _ _ _ (by rw [hZ _ (hSY i hi')])) ?_
    intro j W W' hj hW
    exact hW.set _ _ _ (by
      rw [hW _ (hSY j (by omega)), hW _ (hSY i hi'), hc1 (o + j) (o + i) ⟨by omega, by omega, by omega, by omega⟩])

end Amgcl.Solver.QR

namespace Amgcl.Solver.BiCGStabL
open Amgcl Amgcl.Solver Amgcl.Solver.QR
set_option linter.unusedSectionVars false
set_option linter.unusedSimpArgs false
set_option linter.unusedVariables false

variable {K : Type} [Field K] [DecidableEq K] [LT K] [DecidableLT K]

/-- a loop whose passes CREATE agreement: if pass `x` turns agreement on any `T' ⊇ T` into agreement on `T' ∪ W x`,
the whole loop turns agreement on `T` into agreement on `T ∪ ⋃ W x` -/
theorem foldl_grow {σ τ β ι : Type} (Ag : (ι → Prop) → σ → τ → Prop)
    (hmono : ∀ (T1 T2 : ι → Prop) (s : σ) (t : τ), (∀ i, T2 i → T1 i) → Ag T1 s t → Ag T2 s t)
    (f : σ → β → σ) (g : τ → β → τ) (W : β → ι → Prop) :
    ∀ (l : List β) (T : ι → Prop),
      (∀ x, x ∈ l → ∀ (T' : ι → Prop) (s : σ) (t : τ), (∀ i, T i → T' i) → Ag T' s t →
        Ag (fun i => T' i ∨ W x i) (f s x) (g t x)) →
      ∀ (a : σ) (b : τ), Ag T a b → Ag (fun i => T i ∨ ∃ x, x ∈ l ∧ W x i) (l.foldl f a) (l.foldl g b) := by
  intro l
  induction l with
  | nil =>
    intro T _ a b h
    exact hmono T _ a b (fun i hi => by rcases hi with hi | ⟨x, hx, _⟩; exact hi; cases hx) h
  | cons x t ih =>
    intro T hstep a b h
    simp only [List.foldl_cons]
    have h1 := hstep x List.mem_cons_self T a b (fun i hi => hi) h
    have h2 := ih (fun i => T i ∨ W x i)
      (fun y hy T' s u hT' hs => hstep y (List.mem_cons_of_mem _ hy) T' s u (fun i hi => hT' i (Or.inl hi)) hs)
      _ _ h1
    refine hmono _ _ _ _ ?_ h2
    intro i hi
    rcases hi with hi | ⟨y, hy, hw⟩
    · exact Or.inl (Or.inl hi)
    · rcases List.mem_cons.mp hy with rfl | hy'
      · exact Or.inl (Or.inr hw)
      · exact Or.inr ⟨y, hy', hw⟩

/-- agreement of two matrices on a set of cells (index pairs) -/
def AgP (T : Nat × Nat → Prop) (M M' : FArr2 K) : Prop := ∀ a b, T (a, b) → M.get a b = M'.get a b

theorem AgP_mono (T1 T2 : Nat × Nat → Prop) (M M' : FArr2 K) (h : ∀ i, T2 i → T1 i) (hA : AgP T1 M M') :
    AgP T2 M M' := fun a b hab => hA a b (h _ hab)

/-- **the Gram matrix is written before it is read**: if `R[0..L]` agree, `MZa` agrees on `(L+1)×(L+1)` afterwards,
whatever it held before -/
theorem gram_rel (ip : Vec K → Vec K → K) (L : Nat) (R R' : FArr (Vec K)) (M M' : FArr2 K)
    (hR : ∀ i, i ≤ L → R.get i = R'.get i) :
    ∀ a b, a ≤ L → b ≤ L → (gram ip L R M).get a b = (gram ip L R' M').get a b := by
  -- lower triangle
  have h1 := foldl_grow (AgP (K := K)) AgP_mono
    (fun (M : FArr2 K) i => (List.range (i + 1)).foldl (fun M j => setF2 M i j (ip (R.get i) (R.get j))) M)
    (fun (M : FArr2 K) i => (List.range (i + 1)).foldl (fun M j => setF2 M i j (ip (R'.get i) (R'.get j))) M)
    (fun i p => ∃ j, j ∈ List.range (i + 1) ∧ p = (i, j)) (List.range (L + 1)) (fun _ => False)
    (by
      intro i hi T' N N' _ hN
      rw [List.mem_range] at hi
      refine foldl_grow (AgP (K := K)) AgP_mono _ _ (fun j p => p = (i, j)) (List.range (i + 1)) T' ?_ N N' hN
      intro j hj T'' Z Z' _ hZ a b hab
      rw [List.mem_range] at hj
      rw [setF2_get, setF2_get, hR i (by omega), hR j (by omega)]
      by_cases hc : a = i ∧ b = j
      · simp only [hc, and_self, if_true]
      · simp only [hc, if_false]
        rcases hab with hab | hab
        · exact hZ a b hab
        · exact absurd (by simpa using hab) hc)
    M M' (fun a b hab => hab.elim)
  -- symmetrisation
  have h2 := foldl_grow (AgP (K := K)) AgP_mono
    (fun (M : FArr2 K) i => ((List.range (L + 1)).drop (i + 1)).foldl
      (fun M j => setF2 (setF2 M j i (M.get j i)) i j (M.get j i)) M)
    (fun (M : FArr2 K) i => ((List.range (L + 1)).drop (i + 1)).foldl
      (fun M j => setF2 (setF2 M j i (M.get j i)) i j (M.get j i)) M)
    (fun i p => ∃ j, j ∈ (List.range (L + 1)).drop (i + 1) ∧ p = (i, j)) (List.range (L + 1))
    (fun p => False ∨ ∃ i, i ∈ List.range (L + 1) ∧ ∃ j, j ∈ List.range (i + 1) ∧ p = (i, j))
    (by
      intro i hi T' N N' hT' hN
      rw [List.mem_range] at hi
      refine foldl_grow (AgP (K := K)) AgP_mono _ _ (fun j p => p = (i, j)) _ T' ?_ N N' hN
      intro j hj T'' Z Z' hT'' hZ a b hab
      obtain ⟨j1, j2⟩ := mem_range_drop hj
      have hji : Z.get j i = Z'.get j i :=
        hZ j i (hT'' _ (hT' _ (Or.inr ⟨j, List.mem_range.mpr j2, i, List.mem_range.mpr (by omega), rfl⟩)))
      rw [setF2_get, setF2_get, setF2_get, setF2_get, hji]
      by_cases hc : a = i ∧ b = j
      · simp only [hc, and_self, if_true]
      · simp only [hc, if_false]
        by_cases hc' : a = j ∧ b = i
        · simp only [hc', and_self, if_true]
        · simp only [hc', if_false]
          rcases hab with hab | hab
          · exact hZ a b hab
          · exact absurd (by simpa using hab) hc)
    _ _ h1
  intro a b ha hb
  unfold gram
  apply h2 a b
  by_cases hab : b ≤ a
  · exact Or.inl (Or.inr ⟨a, List.mem_range.mpr (by omega), b, List.mem_range.mpr (by omega), rfl⟩)
  · exact Or.inr ⟨a, List.mem_range.mpr (by omega), b,
      (mem_range_drop_iff _ _ _).mpr ⟨by omega, by omega⟩, rfl⟩

end Amgcl.Solver.BiCGStabL

namespace Amgcl.Solver.BiCGStabL
open Amgcl Amgcl.Solver Amgcl.Solver.QR
set_option linter.unusedSectionVars false
set_option linter.unusedSimpArgs false
set_option linter.unusedVariables false

variable {K : Type} [Field K] [DecidableEq K] [LT K] [DecidableLT K]

/-- the convex combination of the two polynomials (bicgstabl.hpp:336-365) as a function of `MZb`, `Y0`, `YL` -/
def convexY (sqrt : K → K) (c07 : K) (L : Nat) (MZb : FArr2 K) (Y0 YL : FArr K) : FArr K :=
  let dots := (List.range (L + 1)).foldl (fun (d : K × K × K) i =>
      let ss := (List.range (L + 1)).foldl (fun (s : K × K) j =>
          let M := MZb.get i j
          (s.1 + M * Y0.get j, s.2 + M * YL.get j)) ((0 : K), (0 : K))
      (d.1 + Y0.get i * ss.1, d.2.1 + YL.get i * ss.1, d.2.2 + YL.get i * ss.2)) ((0 : K), (0 : K), (0 : K))
  let dot0 := dots.1
  let dotA := dots.2.1
  let dot1 := dots.2.2
  let kappa0 := sqrt (absK dot0)
  let kappa1 := sqrt (absK dot1)
  let kappaA := dotA
  if kappa0 ≠ 0 ∧ kappa1 ≠ 0 then
    let ghat :=
      if kappaA < c07 * kappa0 * kappa1 then
        (if kappaA < 0 then (-c07) * kappa0 / kappa1 else c07 * kappa0 / kappa1)
      else kappaA / (kappa1 * kappa1)
    (List.range (L + 1)).foldl (fun Y i => setF Y i (Y.get i - ghat * YL.get i)) Y0
  else Y0

theorem convexY_rel (sqrt : K → K) (c07 : K) (L : Nat) (MZb MZb' : FArr2 K) (Y0 Y0' YL YL' : FArr K)
    (hM : ∀ a b, a ≤ L → b ≤ L → MZb.get a b = MZb'.get a b)
    (h0 : Agree1 (fun k => k ≤ L) Y0 Y0') (hL : Agree1 (fun k => k ≤ L) YL YL') :
    Agree1 (fun k => k ≤ L) (convexY sqrt c07 L MZb Y0 YL) (convexY sqrt c07 L MZb' Y0' YL') := by
  have hdots : (List.range (L + 1)).foldl (fun (d : K × K × K) i =>
      let ss := (List.range (L + 1)).foldl (fun (s : K × K) j =>
          let M := MZb.get i j
          (s.1 + M * Y0.get j, s.2 + M * YL.get j)) ((0 : K), (0 : K))
      (d.1 + Y0.get i * ss.1, d.2.1 + YL.get i * ss.1, d.2.2 + YL.get i * ss.2)) ((0 : K), (0 : K), (0 : K))
    = (List.range (L + 1)).foldl (fun (d : K × K × K) i =>
      let ss := (List.range (L + 1)).foldl (fun (s : K × K) j =>
          let M := MZb'.get i j
          (s.1 + M * Y0'.get j, s.2 + M * YL'.get j)) ((0 : K), (0 : K))
      (d.1 + Y0'.get i * ss.1, d.2.1 + YL'.get i * ss.1, d.2.2 + YL'.get i * ss.2)) ((0 : K), (0 : K), (0 : K)) := by
    apply foldl_range_congr
    intro i hi d
    have hss : (List.range (L + 1)).foldl (fun (s : K × K) j =>
          let M := MZb.get i j
          (s.1 + M * Y0.get j, s.2 + M * YL.get j)) ((0 : K), (0 : K))
        = (List.range (L + 1)).foldl (fun (s : K × K) j =>
          let M := MZb'.get i j
          (s.1 + M * Y0'.get j, s.2 + M * YL'.get j)) ((0 : K), (0 : K)) := by
      apply foldl_range_congr
      intro j hj s
      simp only []
      rw [hM i j (by omega) (by omega), h0 j (by show j ≤ L; omega), hL j (by show j ≤ L; omega)]
    simp only []
    rw [hss, h0 i (by show i ≤ L; omega), hL i (by show i ≤ L; omega)]
  unfold convexY
  simp only []
  rw [hdots]
  split
  · refine foldl_range_rel _ _ (fun _ (Z Z' : FArr K) => Agree1 (fun k => k ≤ L) Z Z') _ _ _ h0 ?_
    intro i Z Z' hi hZ
    exact hZ.set _ _ _ (by rw [hZ i (by show i ≤ L; omega), hL i (by show i ≤ L; omega)])
  · exact h0

/-- `std::copy(MZa.data(), MZa.data() + MZa.size(), MZb.data())` -/
def mzb (L : Nat) (w : Work K) : FArr2 K := ⟨fun i j => if i ≤ L ∧ j ≤ L then w.MZa.get i j else w.MZb.get i j⟩

/-- the first `qr.solve` of the non-convex branch -/
def pq0 (sqrt : K → K) (L : Nat) (w : Work K) : FArr2 K × QRSt K × FArr K :=
  QR.solve sqrt (L - 1) (L - 1) 1 w.MZa w.qr (fun t => (mzb L w).get 0 (1 + t)) (setF (setF w.Y0 0 (-1)) L 0) 1 false

/-- the second `qr.solve` (`computed = true`) of the non-convex branch -/
def pq1 (sqrt : K → K) (L : Nat) (w : Work K) : FArr2 K × QRSt K × FArr K :=
  QR.solve sqrt (L - 1) (L - 1) 1 (pq0 sqrt L w).1 (pq0 sqrt L w).2.1 (fun t => (mzb L w).get L (1 + t))
    (setF (setF w.YL 0 0) L (-1)) 1 true

theorem polyCoef_Y0_convex (sqrt : K → K) (c07 : K) (L : Nat) (convex : Bool) (w : Work K)
    (hc : convex = true ∨ L = 1) :
    (polyCoef sqrt c07 L convex w).Y0
      = (QR.solve sqrt L L 1 w.MZa w.qr (fun t => (mzb L w).get 0 (1 + t)) (setF w.Y0 0 (-1)) 1 false).2.2 := by
  unfold polyCoef
  simp only []
  rw [if_pos hc]
  rfl

theorem polyCoef_Y0_general (sqrt : K → K) (c07 : K) (L : Nat) (convex : Bool) (w : Work K)
    (hc : ¬ (convex = true ∨ L = 1)) :
    (polyCoef sqrt c07 L convex w).Y0
      = convexY sqrt c07 L (mzb L w) (pq0 sqrt L w).2.2 (pq1 sqrt L w).2.2 := by
  unfold polyCoef
  simp only []
  rw [if_neg hc]
  rfl

theorem mzb_rel (L : Nat) (w w' : Work K) (hM : ∀ a b, a ≤ L → b ≤ L → w.MZa.get a b = w'.MZa.get a b) :
    ∀ a b, a ≤ L → b ≤ L → (mzb L w).get a b = (mzb L w').get a b := by
  intro a b ha hb
  show (if a ≤ L ∧ b ≤ L then _ else _) = (if a ≤ L ∧ b ≤ L then _ else _)
  rw [if_pos ⟨ha, hb⟩, if_pos ⟨ha, hb⟩]; exact hM a b ha hb

/-- **`polyCoef` reads `MZa` on `(L+1)×(L+1)` only**: `MZb`, `qr.tau`, `qr.f`, `Y0`, `YL` are overwritten before they
are read; the coefficients `Y0[0..L]` (all that is used afterwards) agree. -/
theorem polyCoef_rel (sqrt : K → K) (c07 : K) (L : Nat) (convex : Bool) (w w' : Work K)
    (hM : ∀ a b, a ≤ L → b ≤ L → w.MZa.get a b = w'.MZa.get a b) :
    Agree1 (fun k => k ≤ L) (polyCoef sqrt c07 L convex w).Y0 (polyCoef sqrt c07 L convex w').Y0 := by
  have hMb := mzb_rel L w w' hM
  by_cases hc : convex = true ∨ L = 1
  · rw [polyCoef_Y0_convex sqrt c07 L convex w hc, polyCoef_Y0_convex sqrt c07 L convex w' hc]
    refine (solve_rel sqrt L L 1 (Nat.le_refl _) w.MZa w'.MZa w.qr w'.qr _ _ _ _ 1 false (fun k => k ≤ L)
      (fun a b hab => hM a b (by have := hab.2.1; omega) (by have := hab.2.2.2; omega))
      (fun t ht => hMb 0 (1 + t) (by omega) (by omega)) (fun h => by cases h)
      (fun t ht => by show 1 + t ≤ L; omega) ?_).2.2
    intro k hk hnot
    have hk0 : k = 0 := by
      have : k ≤ L := hk
      omega
    subst hk0
    rw [setF_same, setF_same]
  · rw [polyCoef_Y0_general sqrt c07 L convex w hc, polyCoef_Y0_general sqrt c07 L convex w' hc]
    have hA0 : Agree2 (Block 1 (L - 1) (L - 1)) w.MZa w'.MZa :=
      fun a b hab => hM a b (by have := hab.2.1; omega) (by have := hab.2.2.2; omega)
    have hYend : ∀ (Y Y' : FArr K) (x y : K) (k : Nat), k ≤ L → ¬ (1 ≤ k ∧ k < 1 + (L - 1)) →
        (setF (setF Y 0 x) L y).get k = (setF (setF Y' 0 x) L y).get k := by
      intro Y Y' x y k hk hnot
      rw [setF_get, setF_get, setF_get, setF_get]
      by_cases hkL : k = L
      · simp only [hkL, if_true]
      · have hk0 : k = 0 := by omega
        simp only [hkL, hk0, if_true, if_false]
    obtain ⟨a1, a2, a3⟩ := solve_rel sqrt (L - 1) (L - 1) 1 (Nat.le_refl _) w.MZa w'.MZa w.qr w'.qr
      (fun t => (mzb L w).get 0 (1 + t)) (fun t => (mzb L w').get 0 (1 + t))
      (setF (setF w.Y0 0 (-1)) L 0) (setF (setF w'.Y0 0 (-1)) L 0) 1 false (fun k => k ≤ L) hA0
      (fun t ht => hMb 0 (1 + t) (by omega) (by omega)) (fun h => by cases h)
      (fun t ht => by show 1 + t ≤ L; omega) (fun k hk hnot => hYend _ _ _ _ k hk hnot)
    obtain ⟨b1, b2, b3⟩ := solve_rel sqrt (L - 1) (L - 1) 1 (Nat.le_refl _) (pq0 sqrt L w).1 (pq0 sqrt L w').1
      (pq0 sqrt L w).2.1 (pq0 sqrt L w').2.1
      (fun t => (mzb L w).get L (1 + t)) (fun t => (mzb L w').get L (1 + t))
      (setF (setF w.YL 0 0) L (-1)) (setF (setF w'.YL 0 0) L (-1)) 1 true (fun k => k ≤ L) a1
      (fun t ht => hMb L (1 + t) (by omega) (by omega)) (fun _ => a2)
      (fun t ht => by show 1 + t ≤ L; omega) (fun k hk hnot => hYend _ _ _ _ k hk hnot)
    exact convexY_rel sqrt c07 L _ _ _ _ _ _ hMb a3 b3

end Amgcl.Solver.BiCGStabL
