import Amgcl.Proofs.DistAmgSmoother
/-!
`apply` (the preconditioner call), and the GATHERED hierarchy: every rank's blocks of `A`, `P`, `R` assembled
(`Dist.assemble`), the consolidated matrix of the coarse solver, the ranks' smoother states gathered.  A well-formed
distributed hierarchy (`DHierOK`) is the distribution of its gathered hierarchy (`href_gather`), so `dcycle_sim`
applies to it.
-/
namespace Amgcl.DistAmg
open Amgcl Amgcl.Dist Amgcl.Lockstep

section
variable {K S T : Type} [CommRing K] [DecidableEq K]

/-- `mpi::amg::apply` is a simulation of `amg::apply` -/
theorem dapply_sim (prm : Amg.Params) (dsm : DSmoother K S) (sm : Relax.Smoother K T) (direct : CRS K → Vec K → Vec K)
    (dls : List (DLevel K S)) (ls : List (Amg.Level K T)) (d : DLevel K S) (l : Amg.Level K T)
    (hH : HRef dsm sm direct (d :: dls) (l :: ls))
    (dscr : List (DScratch K)) (scr : List (Amg.Scratch K)) (rhs : Vec K)
    (hscr : ScrsRef ((d :: dls).map (·.part)) dscr scr) (hrhs : rhs.size = d.part.sum) :
    CycOut d.part ((d :: dls).map (·.part))
      (dapply prm dsm direct (d :: dls) dscr (splitVec rhs d.part))
      (Amg.apply prm sm direct (l :: ls) scr rhs) := by
  unfold dapply Amg.apply
  by_cases h0 : prm.pre_cycles = 0
  · rw [if_pos h0, if_pos h0]
    exact ⟨map_copy_split rhs d.part hrhs, by simp [vcopy, hrhs], hscr⟩
  · rw [if_neg h0, if_neg h0]
    apply iter_rel (CycOut d.part ((d :: dls).map (·.part)))
    · intro a b hab
      obtain ⟨h1, h2, h3⟩ := hab
      have := dcycle_sim prm dsm sm direct dls ls d l hH a.2 b.2 rhs b.1 h3 hrhs h2
      rw [← h1] at this
      exact this
    · exact ⟨map_clear_split rhs d.part hrhs, by rw [size_vclear]; exact hrhs, hscr⟩

end

/-! ### the gathered hierarchy -/
section gather
variable {K S T : Type}

/-- the consolidated matrix of the coarse solver: what the (first) master holds -/
def gatherSolve (st : List (DirectRank K)) : CRS K := (st.findSome? (·.cons)).getD ⟨0, #[]⟩

/-- gather every rank's blocks: the serial hierarchy that the distributed one is a distribution of.  `gs` gathers
the per-rank smoother states (`concatVec` for Jacobi / SPAI-0). -/
def gatherLevels (gs : List S → T) : List (DLevel K S) → List (Amg.Level K T)
  | [] => []
  | lv :: rest =>
    { rows := lv.part.sum,
      A := lv.A.map (fun D => assemble D lv.part),
      P := lv.P.map (fun D => assemble D (nextPart rest)),
      R := lv.R.map (fun D => assemble D lv.part),
      solve := lv.solve.map gatherSolve,
      relax := lv.relax.map gs } :: gatherLevels gs rest

/-- the slices of a level's vectors / the gathered level vectors -/
def splitScratch (s : Amg.Scratch K) (p : List Nat) : DScratch K :=
  { f := splitVec s.f p, u := splitVec s.u p, t := splitVec s.t p }

def gatherScratch (d : DScratch K) : Amg.Scratch K :=
  { f := concatVec d.f, u := concatVec d.u, t := concatVec d.t }

theorem findSome_range_first {β : Type} (g : Nat → Option β) (n a0 : Nat) (X : β) (ha : a0 < n)
    (hnone : ∀ r, r < a0 → g r = none) (hsome : g a0 = some X) : (List.range n).findSome? g = some X := by
  have hn : n = a0 + ((n - a0 - 1) + 1) := by omega
  rw [hn, List.range_add, List.findSome?_append]
  have h1 : (List.range a0).findSome? g = none := by
    rw [List.findSome?_eq_none_iff]
    intro r hr
    exact hnone r (List.mem_range.1 hr)
  rw [h1, List.range_succ_eq_map]
  simp [hsome]

theorem sum_eq_zero_of_inactive (p : List Nat) (h : activeRanks p = []) : p.sum = 0 := by
  have hz : ∀ i, i < p.length → p.getD i 0 = 0 := by
    intro i hi
    by_contra hne
    have : i ∈ activeRanks p := (mem_activeRanks p i).2 ⟨hi, Nat.pos_of_ne_zero hne⟩
    rw [h] at this; cases this
  have key : ∀ k, k ≤ p.length → dom p k = 0 := by
    intro k
    induction k with
    | zero => intro _; exact dom_zero p
    | succ k ih => intro hk; rw [dom_succ p k (by omega), hz k (by omega), ih (by omega)]
  rw [← dom_length p]
  exact key _ (Nat.le_refl _)

/-- with one master, the consolidated matrix is the gathered matrix -/
theorem gatherSolve_init (Ds : List (DistMat K)) (p : List Nat) (h : DistOK Ds p p) :
    gatherSolve (directInit 1 Ds p) = assemble Ds p := by
  have hcnt := cnt_eq Ds p p h.wf
  have hlen : Ds.length = p.length := h.wf.len
  have hrows : (assemble Ds p).rows
      = ((activeRanks p).flatMap (fun i => assembleRank p i (Ds.getD i default))).toArray := by
    rw [assemble_rows_eq, hlen, active_flatMap p _ (by
      intro i hi hzi
      exact assembleRank_nil p i _ (by rw [h.wf.locRows i hi, hzi]))]
  unfold gatherSolve directInit
  simp only
  rw [List.findSome?_map, hcnt, hlen]
  cases hact : activeRanks p with
  | nil =>
    have hnone : (List.range p.length).findSome? ((fun s : DirectRank K => s.cons) ∘ fun r =>
        ({ n := p.getD r 0, group := groupOf p 1 r,
           cons := if p.getD r 0 ≠ 0 ∧ r = (groupOf p 1 r).master then
              some ⟨p.sum, (assembleRank p r (Ds.getD r default)
                ++ (groupOf p 1 r).slaves.flatMap (fun i => assembleRank p i (Ds.getD i default))).toArray⟩
            else none } : DirectRank K)) = none := by
      rw [List.findSome?_eq_none_iff]
      intro r hr
      have hr' := List.mem_range.1 hr
      have hz : p.getD r 0 = 0 := by
        by_contra hne
        have : r ∈ activeRanks p := (mem_activeRanks p r).2 ⟨hr', Nat.pos_of_ne_zero hne⟩
        rw [hact] at this; cases this
      simp only [Function.comp]
      rw [if_neg (by rw [hz]; simp)]
    rw [hnone]
    rw [hact] at hrows
    have : assemble Ds p = ⟨p.sum, (assemble Ds p).rows⟩ := rfl
    rw [this, hrows, sum_eq_zero_of_inactive p hact]
    rfl
  | cons a0 tl =>
    have ha0 : a0 ∈ activeRanks p := by rw [hact]; simp
    obtain ⟨ha0l, ha0p⟩ := (mem_activeRanks p a0).1 ha0
    have hs := activeRanks_sorted p
    rw [hact] at hs
    have hfirst := findSome_range_first ((fun s : DirectRank K => s.cons) ∘ fun r =>
        ({ n := p.getD r 0, group := groupOf p 1 r,
           cons := if p.getD r 0 ≠ 0 ∧ r = (groupOf p 1 r).master then
              some ⟨p.sum, (assembleRank p r (Ds.getD r default)
                ++ (groupOf p 1 r).slaves.flatMap (fun i => assembleRank p i (Ds.getD i default))).toArray⟩
            else none } : DirectRank K)) p.length a0
      ⟨p.sum, (assembleRank p a0 (Ds.getD a0 default)
                ++ tl.flatMap (fun i => assembleRank p i (Ds.getD i default))).toArray⟩ ha0l
      (by
        intro r hr
        have hz : p.getD r 0 = 0 := by
          by_contra hne
          have hm : r ∈ activeRanks p := (mem_activeRanks p r).2 ⟨by omega, Nat.pos_of_ne_zero hne⟩
          rw [hact] at hm
          rcases List.mem_cons.1 hm with e | hm
          · omega
          · have := (List.pairwise_cons.1 hs).1 r hm; omega
        simp only [Function.comp]
        rw [if_neg (by rw [hz]; simp)])
      (by
        simp only [Function.comp]
        rw [groupOf_one' p a0 tl hact a0 ha0]
        dsimp only
        rw [if_pos ⟨by omega, rfl⟩])
    rw [hfirst]
    rw [hact, List.flatMap_cons] at hrows
    have : assemble Ds p = ⟨p.sum, (assemble Ds p).rows⟩ := rfl
    rw [this, hrows]
    rfl

end gather

section ok
variable {K S T : Type} [CommRing K] [DecidableEq K]

/-- the distributed smoother refines the serial smoother, constructor included: when the distributed constructor
succeeds on the distribution of `A`, the serial one succeeds on `A` with the gathered state, and the sweeps refine -/
def SmootherRef (dsm : DSmoother K S) (sm : Relax.Smoother K T) (gs : List S → T) : Prop :=
  ∀ (A : CRS K) (p : List Nat), PartOK A p p → ∀ ss, dsm.setup (split A p p) p = .ok ss →
    sm.setup A = .ok (gs ss) ∧
    SweepRef (dsm.applyPre ss (split A p p) p) (sm.applyPre (gs ss) A) p ∧
    SweepRef (dsm.applyPost ss (split A p p) p) (sm.applyPost (gs ss) A) p

/-- a level of `mpi::amg` as the constructor leaves it; `np` is the partition of the next level -/
structure DLevelOK (dsm : DSmoother K S) (direct : CRS K → Vec K → Vec K) (d : DLevel K S) (np : List Nat) : Prop where
  /-- `A`: rows and columns partitioned by `part` -/
  A : ∀ dA, d.A = some dA → DistOK dA d.part d.part
  /-- `P`: rows by `part`, columns by the next level's partition -/
  P : ∀ dP, d.P = some dP → DistOK dP d.part np
  /-- `R`: rows by the next level's partition, columns by `part` -/
  R : ∀ dR, d.R = some dR → DistOK dR np d.part
  /-- the coarse solver was initialised (`solver_base::init`, one master) from a matrix partitioned by `part`, and the
  serial solver returns vectors of the system's size -/
  solve : ∀ st, d.solve = some st → ∃ dA, DistOK dA d.part d.part ∧ st = directInit 1 dA d.part ∧
    ∀ f : Vec K, f.size = d.part.sum → (direct (assemble dA d.part) f).size = d.part.sum
  /-- the relaxation was constructed from the level matrix -/
  relax : ∀ ss, d.relax = some ss → ∃ dA, d.A = some dA ∧ dsm.setup dA d.part = .ok ss

def DHierOK (dsm : DSmoother K S) (direct : CRS K → Vec K → Vec K) : List (DLevel K S) → Prop
  | [] => True
  | d :: ds => DLevelOK dsm direct d (nextPart ds) ∧ DHierOK dsm direct ds

/-- **a well-formed distributed hierarchy is the distribution of its gathered hierarchy** -/
theorem href_gather (dsm : DSmoother K S) (sm : Relax.Smoother K T) (gs : List S → T) (direct : CRS K → Vec K → Vec K)
    (hsm : SmootherRef dsm sm gs) :
    ∀ dls : List (DLevel K S), DHierOK dsm direct dls → HRef dsm sm direct dls (gatherLevels gs dls) := by
  intro dls
  induction dls with
  | nil => intro _; trivial
  | cons d rest ih =>
    intro hOK
    obtain ⟨hL, hrest⟩ := hOK
    refine ⟨?_, ih hrest⟩
    obtain ⟨p, dA, dP, dR, dsolve, drelax⟩ := d
    obtain ⟨hA, hP, hR, hsolve, hrelax⟩ := hL
    simp only at hA hP hR hsolve hrelax
    refine ⟨rfl, ?_, ?_, ?_, ?_, ?_⟩
    · cases dA with
      | none => trivial
      | some D => exact ⟨assemble_partOK D p p (hA D rfl), split_assemble_ok D p p (hA D rfl)⟩
    · cases dP with
      | none => trivial
      | some D => exact ⟨assemble_partOK D p _ (hP D rfl), split_assemble_ok D p _ (hP D rfl)⟩
    · cases dR with
      | none => trivial
      | some D => exact ⟨assemble_partOK D _ p (hR D rfl), split_assemble_ok D _ p (hR D rfl)⟩
    · cases dsolve with
      | none => trivial
      | some st =>
        obtain ⟨D, hD, rfl, hsz⟩ := hsolve st rfl
        show DirectRef direct (directInit 1 D p) (gatherSolve (directInit 1 D p)) p
        rw [gatherSolve_init D p hD]
        exact directSolve_ref direct D p hD hsz
    · cases drelax with
      | none => trivial
      | some ss =>
        obtain ⟨D, hDA, hset⟩ := hrelax ss rfl
        intro D' A' hD' hA'
        simp only at hDA hD' hA'
        rw [hDA] at hD' hA'
        cases hD'
        simp only [Option.map_some, Option.some.injEq] at hA'
        subst hA'
        have hOKD := hA D hDA
        have hPA := assemble_partOK D p p hOKD
        have hsp := split_assemble_ok D p p hOKD
        rw [hsp] at hset
        obtain ⟨_, h1, h2⟩ := hsm _ p hPA ss hset
        rw [← hsp] at h1 h2
        exact ⟨h1, h2⟩

end ok
end Amgcl.DistAmg
