import Amgcl.Model.Dist
import Mathlib.Data.List.Basic
/-!
List lemmas behind the communication pattern: `sortUnique`, association lists built from a key list, and the
segmentation of a key-sorted buffer into per-neighbour segments (`segsFrom`).
-/
namespace Amgcl.Dist

/-! ### sort + unique -/

theorem mem_insertU (c x : Nat) (l : List Nat) : x ∈ insertU c l ↔ x = c ∨ x ∈ l := by
  induction l with
  | nil => simp [insertU]
  | cons a t ih =>
    unfold insertU
    split
    · simp
    · split
      · next h => subst h; simp
      · simp [ih]; tauto

theorem insertU_sorted (c : Nat) (l : List Nat) (h : l.Pairwise (· < ·)) : (insertU c l).Pairwise (· < ·) := by
  induction l with
  | nil => simp [insertU]
  | cons a t ih =>
    obtain ⟨h1, h2⟩ := List.pairwise_cons.1 h
    unfold insertU
    split
    · next hc =>
      refine List.pairwise_cons.2 ⟨?_, h⟩
      intro x hx
      rcases List.mem_cons.1 hx with rfl | hx
      · exact hc
      · exact Nat.lt_trans hc (h1 x hx)
    · split
      · exact h
      · next h3 h4 =>
        refine List.pairwise_cons.2 ⟨?_, ih h2⟩
        intro x hx
        rcases (mem_insertU c x t).1 hx with rfl | hx
        · omega
        · exact h1 x hx

theorem mem_sortUnique (x : Nat) (l : List Nat) : x ∈ sortUnique l ↔ x ∈ l := by
  induction l with
  | nil => simp [sortUnique]
  | cons a t ih =>
    have : sortUnique (a :: t) = insertU a (sortUnique t) := rfl
    rw [this, mem_insertU, ih]; simp

theorem sortUnique_sorted (l : List Nat) : (sortUnique l).Pairwise (· < ·) := by
  induction l with
  | nil => simp [sortUnique]
  | cons a t ih => exact insertU_sorted a _ ih

theorem sortUnique_nodup (l : List Nat) : (sortUnique l).Nodup :=
  (sortUnique_sorted l).imp (fun h => Nat.ne_of_lt h)

/-- two strictly increasing lists with the same members are equal: `sortUnique` IS `std::sort` + `std::unique` -/
theorem sorted_ext : ∀ (l₁ l₂ : List Nat), l₁.Pairwise (· < ·) → l₂.Pairwise (· < ·) → (∀ x, x ∈ l₁ ↔ x ∈ l₂) → l₁ = l₂
  | [], [], _, _, _ => rfl
  | [], b :: _, _, _, h => by have := (h b).2 List.mem_cons_self; simp at this
  | a :: _, [], _, _, h => by have := (h a).1 List.mem_cons_self; simp at this
  | a :: s, b :: t, h1, h2, h => by
    obtain ⟨ha, hs⟩ := List.pairwise_cons.1 h1
    obtain ⟨hb, ht⟩ := List.pairwise_cons.1 h2
    have hab : a = b := by
      rcases List.mem_cons.1 ((h a).1 List.mem_cons_self) with e | e
      · exact e
      · rcases List.mem_cons.1 ((h b).2 List.mem_cons_self) with e' | e'
        · exact e'.symm
        · have := hb a e; have := ha b e'; omega
    subst hab
    congr 1
    apply sorted_ext s t hs ht
    intro x
    constructor
    · intro hx
      rcases List.mem_cons.1 ((h x).1 (List.mem_cons_of_mem _ hx)) with e | e
      · have := ha x hx; omega
      · exact e
    · intro hx
      rcases List.mem_cons.1 ((h x).2 (List.mem_cons_of_mem _ hx)) with e | e
      · have := hb x hx; omega
      · exact e

/-! ### association lists keyed by a list of ranks -/

theorem lookup_map_key {β : Type} (g : Nat → β) (r : Nat) (l : List Nat) :
    (l.map (fun d => (d, g d))).lookup r = if r ∈ l then some (g r) else none := by
  induction l with
  | nil => simp
  | cons a t ih =>
    rw [List.map_cons, List.lookup_cons]
    by_cases h : r = a
    · subst h; simp
    · have : (r == a) = false := by simpa using h
      rw [this]; simp only [ih, List.mem_cons, h, false_or]

theorem flatMap_filter_of_nil {α β : Type} (p : α → Bool) (g : α → List β) (l : List α)
    (h : ∀ a ∈ l, p a = false → g a = []) : (l.filter p).flatMap g = l.flatMap g := by
  induction l with
  | nil => rfl
  | cons a t ih =>
    have iht := ih (fun b hb => h b (List.mem_cons_of_mem _ hb))
    by_cases hp : p a = true
    · rw [List.filter_cons_of_pos hp, List.flatMap_cons, List.flatMap_cons, iht]
    · have hp' : p a = false := by simpa using hp
      rw [List.filter_cons_of_neg hp, List.flatMap_cons, iht, h a List.mem_cons_self hp']; rfl

/-! ### a key-sorted buffer is the concatenation of its key classes -/
section classes
variable {α : Type} (f : α → Nat)

/-- in a key-sorted list whose keys are all `≥ d`, the elements with key `d` form a prefix -/
theorem take_drop_class (d : Nat) (l : List α) (hs : l.Pairwise (fun a b => f a ≤ f b)) (hd : ∀ a ∈ l, d ≤ f a) :
    l.take (l.countP (fun a => f a = d)) = l.filter (fun a => f a = d)
    ∧ l.drop (l.countP (fun a => f a = d)) = l.filter (fun a => f a ≠ d) := by
  induction l with
  | nil => simp
  | cons a t ih =>
    obtain ⟨h1, h2⟩ := List.pairwise_cons.1 hs
    have ih' := ih h2 (fun b hb => hd b (List.mem_cons_of_mem _ hb))
    by_cases ha : f a = d
    · rw [List.countP_cons]
      simp only [ha, decide_true, if_true, List.take_succ_cons, List.drop_succ_cons, ne_eq, not_true_eq_false,
        decide_false, Bool.false_eq_true, not_false_eq_true, List.filter_cons_of_neg, List.filter_cons_of_pos]
      exact ⟨by rw [ih'.1], ih'.2⟩
    · have hgt : ∀ b ∈ t, f b ≠ d := by
        intro b hb; have := h1 b hb; have := hd a List.mem_cons_self; omega
      have hc : (a :: t).countP (fun a => f a = d) = 0 := by
        rw [List.countP_eq_zero]; intro b hb
        rcases List.mem_cons.1 hb with rfl | hb
        · simpa using ha
        · simpa using hgt b hb
      rw [hc]
      refine ⟨?_, ?_⟩
      · rw [List.take_zero]; symm; rw [List.filter_eq_nil_iff]; intro b hb
        rcases List.mem_cons.1 hb with rfl | hb
        · simpa using ha
        · simpa using hgt b hb
      · rw [List.drop_zero]; symm; rw [List.filter_eq_self]; intro b hb
        rcases List.mem_cons.1 hb with rfl | hb
        · simpa using ha
        · simpa using hgt b hb

theorem class_append (d : Nat) (l : List α) (hs : l.Pairwise (fun a b => f a ≤ f b)) (hd : ∀ a ∈ l, d ≤ f a) :
    l.filter (fun a => f a = d) ++ l.filter (fun a => f a ≠ d) = l := by
  obtain ⟨h1, h2⟩ := take_drop_class f d l hs hd
  rw [← h1, ← h2, List.take_append_drop]

theorem filter_ne_filter_eq (d d' : Nat) (h : d' ≠ d) (l : List α) :
    (l.filter (fun a => f a ≠ d)).filter (fun a => f a = d') = l.filter (fun a => f a = d') := by
  rw [List.filter_filter]
  apply List.filter_congr
  intro a _
  by_cases h2 : f a = d' <;> simp [h2, h]

theorem countP_filter_ne (d d' : Nat) (h : d' ≠ d) (l : List α) :
    (l.filter (fun a => f a ≠ d)).countP (fun a => f a = d') = l.countP (fun a => f a = d') := by
  rw [List.countP_eq_length_filter, List.countP_eq_length_filter, filter_ne_filter_eq f d d' h]

/-- the loops building `nbr` / `ptr` cut a key-sorted buffer exactly into its non-empty key classes -/
theorem segsFrom_eq (cands : List Nat) : ∀ (l : List α) (cnt : Nat → Nat),
    cands.Pairwise (· < ·) → l.Pairwise (fun a b => f a ≤ f b) → (∀ a ∈ l, f a ∈ cands) →
    (∀ d ∈ cands, cnt d = l.countP (fun a => f a = d)) →
    segsFrom cnt l cands
      = (cands.filter (fun d => l.countP (fun a => f a = d) ≠ 0)).map (fun d => (d, l.filter (fun a => f a = d))) := by
  induction cands with
  | nil => intro l cnt _ _ _ _; rfl
  | cons d t ih =>
    intro l cnt hc hs hm hcnt
    obtain ⟨hc1, hc2⟩ := List.pairwise_cons.1 hc
    have hge : ∀ a ∈ l, d ≤ f a := by
      intro a ha
      rcases List.mem_cons.1 (hm a ha) with e | e
      · omega
      · exact Nat.le_of_lt (hc1 _ e)
    obtain ⟨htk, hdr⟩ := take_drop_class f d l hs hge
    have hcd := hcnt d List.mem_cons_self
    unfold segsFrom
    by_cases h0 : cnt d = 0
    · rw [if_pos h0]
      have hz : l.countP (fun a => f a = d) = 0 := by rw [← hcd]; exact h0
      have hm' : ∀ a ∈ l, f a ∈ t := by
        intro a ha
        rcases List.mem_cons.1 (hm a ha) with e | e
        · exact absurd (by simpa using e) ((List.countP_eq_zero.1 hz) a ha)
        · exact e
      rw [ih l cnt hc2 hs hm' (fun d' hd' => hcnt d' (List.mem_cons_of_mem _ hd'))]
      rw [List.filter_cons_of_neg (by simp [hz])]
    · rw [if_neg h0]
      have hz : l.countP (fun a => f a = d) ≠ 0 := by rw [← hcd]; exact h0
      rw [List.filter_cons_of_pos (by simpa using hz), List.map_cons, hcd, htk, hdr]
      congr 1
      have hm' : ∀ a ∈ l.filter (fun a => f a ≠ d), f a ∈ t := by
        intro a ha
        obtain ⟨ha1, ha2⟩ := List.mem_filter.1 ha
        rcases List.mem_cons.1 (hm a ha1) with e | e
        · exact absurd e (by simpa using ha2)
        · exact e
      rw [ih (l.filter (fun a => f a ≠ d)) cnt hc2 (hs.filter _) hm'
        (fun d' hd' => by
          rw [hcnt d' (List.mem_cons_of_mem _ hd'), countP_filter_ne f d d' (Nat.ne_of_gt (hc1 d' hd'))])]
      have e1 : t.filter (fun d' => (l.filter (fun a => f a ≠ d)).countP (fun a => f a = d') ≠ 0)
          = t.filter (fun d' => l.countP (fun a => f a = d') ≠ 0) := by
        apply List.filter_congr
        intro d' hd'
        rw [countP_filter_ne f d d' (Nat.ne_of_gt (hc1 d' hd'))]
      rw [e1]
      apply List.map_congr_left
      intro d' hd'
      rw [filter_ne_filter_eq f d d' (Nat.ne_of_gt (hc1 d' (List.mem_filter.1 hd').1))]

/-- … and their concatenation is the buffer -/
theorem flatMap_classes (cands : List Nat) : ∀ (l : List α),
    cands.Pairwise (· < ·) → l.Pairwise (fun a b => f a ≤ f b) → (∀ a ∈ l, f a ∈ cands) →
    cands.flatMap (fun d => l.filter (fun a => f a = d)) = l := by
  induction cands with
  | nil =>
    intro l _ _ hm
    cases l with
    | nil => rfl
    | cons a t => exact absurd (hm a List.mem_cons_self) (by simp)
  | cons d t ih =>
    intro l hc hs hm
    obtain ⟨hc1, hc2⟩ := List.pairwise_cons.1 hc
    have hge : ∀ a ∈ l, d ≤ f a := by
      intro a ha
      rcases List.mem_cons.1 (hm a ha) with e | e
      · omega
      · exact Nat.le_of_lt (hc1 _ e)
    have hm' : ∀ a ∈ l.filter (fun a => f a ≠ d), f a ∈ t := by
      intro a ha
      obtain ⟨ha1, ha2⟩ := List.mem_filter.1 ha
      rcases List.mem_cons.1 (hm a ha1) with e | e
      · exact absurd e (by simpa using ha2)
      · exact e
    rw [List.flatMap_cons]
    have e1 : t.flatMap (fun d' => l.filter (fun a => f a = d'))
        = t.flatMap (fun d' => (l.filter (fun a => f a ≠ d)).filter (fun a => f a = d')) := by
      apply List.flatMap_congr
      intro d' hd'
      rw [filter_ne_filter_eq f d d' (Nat.ne_of_gt (hc1 d' hd'))]
    rw [e1, ih _ hc2 (hs.filter _) hm', class_append f d l hs hge]

end classes

theorem range_pairwise_lt (n : Nat) : (List.range n).Pairwise (· < ·) := List.pairwise_lt_range

end Amgcl.Dist
