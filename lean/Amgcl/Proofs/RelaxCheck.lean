import Amgcl.Model.RelaxCheck
import Amgcl.Proofs.RelaxIlu
/-!
Soundness of the V-grade checkers: a `true` verdict of `luOnPatternb` / `luExactb` / `leastSquaresRowsb` implies the
corresponding clause of property C06 for the checked output.
-/
namespace Amgcl
namespace Relax
open Finset

section sums
variable {K : Type} [CommRing K]

theorem foldl_range_sum (g : Nat → K) (n : Nat) :
    (List.range n).foldl (fun s k => s + g k) 0 = ∑ k ∈ range n, g k := by
  induction n with
  | zero => simp
  | succ m ih => rw [List.range_succ, List.foldl_append, ih, sum_range_succ]; simp

end sums

section lu
variable {K : Type} [Field K] [DecidableEq K]

theorem luEntry_eq_sum (F : IluFactors K) (n i j : Nat) :
    luEntry F n i j = ∑ k ∈ range n, lowEntry F i k * upEntry F k j := by
  unfold luEntry; exact foldl_range_sum _ n

/-- `luOnPatternb` is sound: on every admitted position the product of the factors reproduces the matrix entry -/
theorem luOnPattern_sound (adm : Nat → Nat → Bool) (A : CRS K) (F : IluFactors K)
    (h : luOnPatternb adm A F = true) (i j : Nat) (hi : i < A.nrows) (hj : j < A.nrows) (ha : adm i j = true) :
    ∑ k ∈ range A.nrows, lowEntry F i k * upEntry F k j = A.get i j := by
  unfold luOnPatternb at h
  rw [List.all_eq_true] at h
  have h1 := h i (List.mem_range.mpr hi)
  rw [List.all_eq_true] at h1
  have h2 := h1 j (List.mem_range.mpr hj)
  rw [ha] at h2
  simp only [Bool.not_true, Bool.false_or, decide_eq_true_eq] at h2
  rw [← luEntry_eq_sum]; exact h2

theorem luExact_sound (A : CRS K) (F : IluFactors K) (h : luExactb A F = true) (i j : Nat)
    (hi : i < A.nrows) (hj : j < A.nrows) :
    ∑ k ∈ range A.nrows, lowEntry F i k * upEntry F k j = A.get i j :=
  luOnPattern_sound _ A F h i j hi hj rfl

/-- `factorsInPatternb` is sound: a factor entry outside the admitted pattern vanishes (stated for the stored
entries of `L`; `U` alike) -/
theorem factorsInPattern_sound (adm : Nat → Nat → Bool) (F : IluFactors K) (h : factorsInPatternb adm F = true) :
    (∀ i, i < F.L.nrows → ∀ cv ∈ F.L.row i, cv.2 ≠ 0 → adm i cv.1 = true)
    ∧ (∀ i, i < F.U.nrows → ∀ cv ∈ F.U.row i, cv.2 ≠ 0 → adm i cv.1 = true) := by
  unfold factorsInPatternb at h
  rw [Bool.and_eq_true, List.all_eq_true, List.all_eq_true] at h
  constructor
  · intro i hi cv hcv hne
    have := h.1 i (List.mem_range.mpr hi)
    unfold rowInPatternb at this
    rw [List.all_eq_true] at this
    have := this cv hcv
    simpa [hne] using this
  · intro i hi cv hcv hne
    have := h.2 i (List.mem_range.mpr hi)
    unfold rowInPatternb at this
    rw [List.all_eq_true] at this
    have := this cv hcv
    simpa [hne] using this

end lu

section spai1
variable {K : Type} [Field K] [LinearOrder K] [IsStrictOrderedRing K] [DecidableEq K]

theorem spaiResid_eq (A M : CRS K) (n i j : Nat) :
    spaiResid A M n i j = (if i = j then 1 else 0) - ∑ l ∈ range n, M.get i l * A.get l j := by
  unfold spaiResid; rw [foldl_range_sum]

theorem spaiNormal_eq (A M : CRS K) (n i k : Nat) :
    spaiNormal A M n i k = ∑ j ∈ range n, spaiResid A M n i j * A.get k j := by
  unfold spaiNormal; rw [foldl_range_sum]

/-- `leastSquaresRowsb` is sound: if the normal equations hold on the pattern of row `i`, then row `i` of `M`
minimises `‖e_i − m A‖₂²` among all rows `m` that agree with it off the pattern (i.e. vanish there, when `M` has the
pattern of `A`) -/
theorem leastSquaresRows_sound (A M : CRS K) (h : leastSquaresRowsb A M = true) (i : Nat) (hi : i < A.nrows)
    (m : Nat → K) (hm : ∀ l, l < A.nrows → (∀ cv ∈ A.row i, cv.1 ≠ l) → m l = M.get i l) :
    ∑ j ∈ range A.nrows, (spaiResid A M A.nrows i j) ^ 2
      ≤ ∑ j ∈ range A.nrows, ((if i = j then 1 else 0) - ∑ l ∈ range A.nrows, m l * A.get l j) ^ 2 := by
  -- the normal equations on the pattern
  have hN : ∀ l, l < A.nrows → (m l - M.get i l) * spaiNormal A M A.nrows i l = 0 := by
    intro l hl
    by_cases hp : ∀ cv ∈ A.row i, cv.1 ≠ l
    · rw [hm l hl hp]; ring
    · push_neg at hp
      obtain ⟨cv, hcv, hc⟩ := hp
      unfold leastSquaresRowsb at h
      rw [List.all_eq_true] at h
      have h1 := h i (List.mem_range.mpr hi)
      rw [List.all_eq_true] at h1
      have h2 := h1 cv hcv
      simp only [decide_eq_true_eq] at h2
      rw [← hc, h2]; ring
  let r : Nat → K := fun j => spaiResid A M A.nrows i j
  let w : Nat → K := fun j => ∑ l ∈ range A.nrows, (m l - M.get i l) * A.get l j
  have hsplit : ∀ j ∈ range A.nrows,
      ((if i = j then (1 : K) else 0) - ∑ l ∈ range A.nrows, m l * A.get l j) ^ 2 = (r j - w j) ^ 2 := by
    intro j _
    show _ = (spaiResid A M A.nrows i j - ∑ l ∈ range A.nrows, (m l - M.get i l) * A.get l j) ^ 2
    rw [spaiResid_eq]
    have : ∑ l ∈ range A.nrows, (m l - M.get i l) * A.get l j
        = ∑ l ∈ range A.nrows, m l * A.get l j - ∑ l ∈ range A.nrows, M.get i l * A.get l j := by
      rw [← sum_sub_distrib]; apply sum_congr rfl; intro l _; ring
    rw [this]; ring
  have hcross : ∑ j ∈ range A.nrows, r j * w j = 0 := by
    show ∑ j ∈ range A.nrows, spaiResid A M A.nrows i j * ∑ l ∈ range A.nrows, (m l - M.get i l) * A.get l j = 0
    simp only [mul_sum]
    rw [sum_comm]
    apply sum_eq_zero
    intro l hl
    have := hN l (mem_range.mp hl)
    rw [spaiNormal_eq, mul_sum] at this
    rw [← this]
    apply sum_congr rfl; intro j _; ring
  have hexp : ∑ j ∈ range A.nrows, (r j - w j) ^ 2
      = ∑ j ∈ range A.nrows, r j ^ 2 - 2 * ∑ j ∈ range A.nrows, r j * w j + ∑ j ∈ range A.nrows, w j ^ 2 := by
    rw [mul_sum, ← sum_sub_distrib, ← sum_add_distrib]
    apply sum_congr rfl; intro j _; ring
  rw [sum_congr rfl hsplit, hexp, hcross]
  have h0 : 0 ≤ ∑ j ∈ range A.nrows, w j ^ 2 := sum_nonneg (fun j _ => sq_nonneg _)
  show ∑ j ∈ range A.nrows, r j ^ 2 ≤ _
  linarith

end spai1

end Relax
end Amgcl
