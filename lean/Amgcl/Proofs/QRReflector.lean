import Amgcl.Proofs.QRArray
import Amgcl.Proofs.QRHouse
/-!
The elementary reflector lemma for `gen_reflector` (ZLARFG, `Model/QR.lean: genReflector`) with its own parameters
(`order`, the cell `ai` of `alpha`, the cells `xi + l·stride` of `x`): with `w = (1, v)` read from the buffer it returns and
`tau` the value it returns,

* `tau·(2 - tau·wᵀw) = 0` (hence `H = 1 - tau·w·wᵀ` is an involution, `QRHouse.house_mul_self`),
* `H·(alpha, x) = (beta, 0, …, 0)` with `beta` the new content of the cell `ai`,
* `beta² = alpha² + ‖x‖²`.

The only hypothesis on `sqrt`: it returns an exact root of `alpha² + ‖x‖²` in case `gen_reflector` gets as far as taking the
root (`order ≥ 2` and `x ≠ 0`).
-/
set_option linter.unusedSectionVars false
namespace Amgcl
namespace QRModel
open Finset

variable {K : Type} [Field K] [LinearOrder K] [IsStrictOrderedRing K]

theorem sum_range_head (order : Nat) (ho : 0 < order) (F : Nat → K) :
    ∑ l ∈ range order, F l = F 0 + ∑ l ∈ range (order - 1), F (l + 1) := by
  obtain ⟨k, rfl⟩ : ∃ k, order = k + 1 := ⟨order - 1, by omega⟩
  rw [Finset.sum_range_succ', add_comm]; rfl

theorem genReflector_house (sqrt : K → K) (order : Nat) (A : Array K) (ai xi stride : Nat) (ho : 0 < order)
    (hai : ai < A.size) (hlt : ∀ l, l < order - 1 → xi + l * stride < A.size)
    (hne : ∀ l, l < order - 1 → xi + l * stride ≠ ai)
    (hinj : ∀ l l', l < order - 1 → l' < order - 1 → xi + l * stride = xi + l' * stride → l = l')
    (hsq : ¬ GenTrivial order A xi stride →
      sqrt (sqrtArg order A ai xi stride) * sqrt (sqrtArg order A ai xi stride) = sqrtArg order A ai xi stride) :
    let r := genReflector sqrt order A ai xi stride
    let xN : Nat → K := fun l => if l = 0 then A.getD ai 0 else A.getD (xi + (l - 1) * stride) 0
    let wN : Nat → K := fun l => if l = 0 then 1 else r.2.getD (xi + (l - 1) * stride) 0
    r.1 * (2 - r.1 * ∑ l ∈ range order, wN l * wN l) = 0 ∧
    (∀ l, l < order → xN l - wN l * (r.1 * ∑ l' ∈ range order, wN l' * xN l') = if l = 0 then r.2.getD ai 0 else 0) ∧
    r.2.getD ai 0 * r.2.getD ai 0 = ∑ l ∈ range order, xN l * xN l := by
  intro r xN wN
  have hxx : ∑ l ∈ range order, xN l * xN l = A.getD ai 0 * A.getD ai 0 + xnorm2 A xi stride (order - 1) := by
    rw [sum_range_head order ho, xnorm2_eq]
    congr 1
  by_cases htr : GenTrivial order A xi stride
  · have hr : r = (0, A) := genReflector_trivial sqrt order A ai xi stride htr
    have hS : xnorm2 A xi stride (order - 1) = 0 := by
      rcases htr with h | h
      · have : order - 1 = 0 := by omega
        rw [this]; rfl
      · exact h
    refine ⟨by rw [hr, zero_mul], ?_, ?_⟩
    · intro l hl
      rw [hr, zero_mul, mul_zero, sub_zero]
      by_cases h0 : l = 0
      · simp [xN, h0]
      · rw [if_neg h0]
        rw [xnorm2_eq] at hS
        have := sq_sum_eq_zero _ _ hS (l - 1) (Finset.mem_range.mpr (by omega))
        simp only [xN, if_neg h0]
        exact this
    · rw [hxx, hS, add_zero, hr]
  · obtain ⟨n1, _, n2, n3, _⟩ := genReflector_spec sqrt order A ai xi stride htr hai hlt hne hinj
    set beta := betaOf sqrt order A ai xi stride with hbeta
    set alpha := A.getD ai 0 with halpha
    set S := xnorm2 A xi stride (order - 1) with hSdef
    have hS0 : 0 ≤ S := by rw [hSdef, xnorm2_eq]; exact Finset.sum_nonneg (fun l _ => mul_self_nonneg _)
    have hSne : S ≠ 0 := fun h => htr (Or.inr h)
    have hb : beta * beta = alpha * alpha + S := by
      rw [hbeta, betaOf_mul_self, hsq htr]
      unfold sqrtArg
      rw [sqrQ_absQ]
    have hb0 : beta ≠ 0 := larfg_beta_ne hb hSne hS0
    have hab : alpha - beta ≠ 0 := larfg_alpha_ne hb hSne
    have hS : S = ∑ l ∈ range (order - 1), A.getD (xi + l * stride) 0 * A.getD (xi + l * stride) 0 := xnorm2_eq _ _ _ _
    have hwl : ∀ l, l < order - 1 → wN (l + 1) = (1 / (alpha - beta)) * A.getD (xi + l * stride) 0 := by
      intro l hl
      simp only [wN, if_neg (Nat.succ_ne_zero l), Nat.add_sub_cancel]
      exact n3 l hl
    have hxl : ∀ l, xN (l + 1) = A.getD (xi + l * stride) 0 := by
      intro l
      simp only [xN, if_neg (Nat.succ_ne_zero l), Nat.add_sub_cancel]
    have hww : ∑ l ∈ range order, wN l * wN l = 1 + (1 / (alpha - beta)) * (1 / (alpha - beta)) * S := by
      rw [sum_range_head order ho, hS, Finset.mul_sum]
      congr 1
      · simp [wN]
      · refine Finset.sum_congr rfl (fun l hl => ?_)
        rw [hwl l (Finset.mem_range.mp hl)]; ring
    have hwx : ∑ l ∈ range order, wN l * xN l = alpha + (1 / (alpha - beta)) * S := by
      rw [sum_range_head order ho, hS, Finset.mul_sum]
      congr 1
      · show (if (0:Nat) = 0 then (1:K) else _) * (if (0:Nat) = 0 then A.getD ai 0 else _) = alpha
        rw [if_pos rfl, if_pos rfl, one_mul]
      · refine Finset.sum_congr rfl (fun l hl => ?_)
        rw [hwl l (Finset.mem_range.mp hl), hxl]; ring
    have ht : r.1 = 1 - 1 / beta * alpha := n1
    refine ⟨?_, ?_, ?_⟩
    · rw [hww, ht, larfg_tau_norm hb hSne hb0]; ring
    · intro l hl
      rw [hwx, ht, larfg_tau_dot hb hSne hb0]
      by_cases h0 : l = 0
      · rw [if_pos h0, n2]
        simp only [xN, wN, if_pos h0]; ring
      · rw [if_neg h0]
        obtain ⟨l', rfl⟩ : ∃ l', l = l' + 1 := ⟨l - 1, by omega⟩
        rw [hwl l' (by omega), hxl]
        field_simp
        ring
    · rw [hxx, n2, hb]

end QRModel
end Amgcl
