import Amgcl.Proofs.KrylovGMRESMain
import Mathlib.LinearAlgebra.Span.Basic
/-!
# GMRES: the cycle of the model returns `cycleIterate`, the Arnoldi span is the Krylov space (C05)

* `inner_eq_innerPass`  the inner `do … while` of the model ends in `innerPass … j` for its own pass count `j ≥ 1`;
* `cycle_x`             hence `(GMRES.cycle … st).x = cycleIterate … st j`;
* `run_one_cycle`       a call whose first stopping test fails and whose second succeeds returns `cycleIterate … init j`,
                        `j` iterations and the norm of the true (measured) residual of that iterate;
* `span_eq_krylov`      for an orthonormal-or-not family with an Arnoldi relation with non-zero sub-diagonal and
                        `r₀ = β V₀`, `β ≠ 0`: `span{V_0..V_{m-1}} = span{T^i r₀ : i < m}`.
-/
set_option linter.unusedSectionVars false
set_option linter.unusedVariables false
namespace Amgcl.Krylov
open Amgcl Amgcl.Solver Amgcl.Solver.GMRES Amgcl.Energy.Bridge Matrix Finset

section run
variable {K : Type} [Field K] [LinearOrder K] [IsStrictOrderedRing K]

theorem inner_eq_innerPass (prm : GMRES.Params K) (sqrt : K → K) (A : CRS K) (P : Vec K → Vec K) (epsT : K)
    (st : GMRES.St K) :
    inner prm stdIp sqrt A P epsT st = innerPass prm.pside sqrt A P st (inner prm stdIp sqrt A P epsT st).j ∧
    1 ≤ (inner prm stdIp sqrt A P epsT st).j := by
  have hge : 1 ≤ (inner prm stdIp sqrt A P epsT st).j := by
    unfold inner
    apply doWhile_inv _ _ (fun t : In K => 1 ≤ t.j)
    · show 1 ≤ 0 + 1; omega
    · intro t ht _; rw [step_j]; omega
  refine ⟨?_, hge⟩
  have hit := loopN_iterate (cont prm.maxiter prm.M epsT) (GMRES.step prm.pside stdIp sqrt A P) In.j
    (step_j prm.pside stdIp sqrt A P) prm.M (GMRES.step prm.pside stdIp sqrt A P (cycleStart st))
  have h1 : (GMRES.step prm.pside stdIp sqrt A P (cycleStart st)).j = 1 := rfl
  rw [h1] at hit
  have hdef : inner prm stdIp sqrt A P epsT st
      = loopN (cont prm.maxiter prm.M epsT) (GMRES.step prm.pside stdIp sqrt A P) prm.M
          (GMRES.step prm.pside stdIp sqrt A P (cycleStart st)) := rfl
  rw [← hdef] at hit
  obtain ⟨m, hm⟩ : ∃ m, (inner prm stdIp sqrt A P epsT st).j = m + 1 := ⟨_, (Nat.sub_add_cancel hge).symm⟩
  rw [hm, Nat.add_sub_cancel] at hit
  rw [hm]
  unfold innerPass
  rw [Function.iterate_succ_apply]
  exact hit

/-- the cycle of the model returns the iterate after `j` passes, `j` its own pass count -/
theorem cycle_x (prm : GMRES.Params K) (sqrt : K → K) (A : CRS K) (P : Vec K → Vec K) (epsT : K) (st : GMRES.St K) :
    (cycle prm stdIp sqrt A P epsT st).x
      = cycleIterate prm.pside sqrt A P st (inner prm stdIp sqrt A P epsT st).j := by
  unfold cycle cycleIterate
  rw [← (inner_eq_innerPass prm sqrt A P epsT st).1]

/-- **a call that makes exactly one restart cycle** (first stopping test fails, second succeeds — e.g. `maxiter ≤ M`
and no convergence before `maxiter`) returns `j = ` its number of inner passes, the iterate after `j` passes of the
inner loop started from `init`, and the norm of the measured residual of that iterate divided by `norm_rhs` -/
theorem run_one_cycle (prm : GMRES.Params K) (sqrt : K → K) (eps : K) (A : CRS K) (P : Vec K → Vec K)
    (ws : GMRES.Work K) (f x0 : Vec K) (nf : K) (hp : prologueA prm.nsSearch stdIp sqrt eps f = .go nf)
    (h0 : stop prm.maxiter (epsTol prm nf) (init prm stdIp sqrt A P ws f x0) = false)
    (h1 : stop prm.maxiter (epsTol prm nf) (head prm.pside stdIp sqrt A P f
      (cycle prm stdIp sqrt A P (epsTol prm nf) (init prm stdIp sqrt A P ws f x0))) = true) :
    ∃ j w, 1 ≤ j ∧ j ≤ prm.maxiter ∧
      j = (inner prm stdIp sqrt A P (epsTol prm nf) (init prm stdIp sqrt A P ws f x0)).j ∧
      GMRES.solve prm stdIp sqrt eps A P ws f x0
        = .ok (j, nrmA stdIp sqrt (GMRES.Rf prm.pside P f A
              (cycleIterate prm.pside sqrt A P (init prm stdIp sqrt A P ws f x0) j)) / nf,
            cycleIterate prm.pside sqrt A P (init prm stdIp sqrt A P ws f x0) j, w) := by
  have hlt : (init prm stdIp sqrt A P ws f x0).iter < prm.maxiter := (stop_false prm.maxiter (epsTol prm nf) _ (by rw [h0]; rfl)).1
  obtain ⟨_, i2, i3, i4⟩ := inner_iter prm stdIp sqrt A P (epsTol prm nf) _ hlt
  rw [init_iter, Nat.zero_add] at i3
  have hfin : final prm stdIp sqrt A P ws f x0 nf = head prm.pside stdIp sqrt A P f
      (cycle prm stdIp sqrt A P (epsTol prm nf) (init prm stdIp sqrt A P ws f x0)) := by
    obtain ⟨m, hm⟩ : ∃ m, prm.maxiter = m + 1 := ⟨prm.maxiter - 1, by omega⟩
    unfold final outer
    rw [hm, loopN, if_pos (by simp [← hm, h0])]
    apply loopN_of_not_cond
    simp [← hm, h1]
  refine ⟨_, (final prm stdIp sqrt A P ws f x0 nf).w, i4, by rw [← i3]; exact i2, rfl, ?_⟩
  rw [GMRES.solve, Run.toExcept_ok, GMRES.run_go _ _ _ _ _ _ _ _ _ nf hp, hfin, head_iter, head_normR, head_x,
    cycle_x]
  have : (cycle prm stdIp sqrt A P (epsTol prm nf) (init prm stdIp sqrt A P ws f x0)).iter
      = (inner prm stdIp sqrt A P (epsTol prm nf) (init prm stdIp sqrt A P ws f x0)).j := by
    unfold cycle; rw [update_iter, i3]
  rw [this]

/-- every state at the `break` test of the outer loop is produced by `head`; with a non-zero residual norm it is a
`CycleStart` -/
theorem cycleStart_head (side : Side) (sqrt : K → K) (A : CRS K) (P : Vec K → Vec K) (f : Vec K) (st' : GMRES.St K)
    (hne : (head side stdIp sqrt A P f st').normR ≠ 0) :
    CycleStart side sqrt A P f (head side stdIp sqrt A P f st') := by
  refine ⟨?_, ?_, hne⟩
  · rw [head_r, head_x]
  · rw [head_normR, head_r]

end run

/-! ### the Arnoldi span is the Krylov space -/
section krylov
variable {K V : Type*} [Field K] [AddCommGroup V] [Module K V]

/-- `span{V_0..V_{m-1}} = span{T^i r₀ : i < m}` for `m ≤ j + 1`, from the Arnoldi relation with non-zero sub-diagonal -/
theorem span_eq_krylov (T : V →ₗ[K] V) (v : ℕ → V) (Ht : ℕ → ℕ → K) (β : K) (r0 : V) (j : ℕ) (hβ : β ≠ 0)
    (hr0 : r0 = β • v 0) (harn : ∀ i, i < j → T (v i) = ∑ k ∈ range (i + 2), Ht k i • v k)
    (hsub : ∀ i, i < j → Ht (i + 1) i ≠ 0) (m : ℕ) (hm : m ≤ j + 1) :
    Submodule.span K (v '' Set.Iio m) = Submodule.span K ((fun i : ℕ => (⇑T)^[i] r0) '' Set.Iio m) := by
  -- abbreviations
  have kmono : ∀ a b, a ≤ b → Submodule.span K ((fun i : ℕ => (⇑T)^[i] r0) '' Set.Iio a)
      ≤ Submodule.span K ((fun i : ℕ => (⇑T)^[i] r0) '' Set.Iio b) :=
    fun a b hab => Submodule.span_mono (Set.image_mono (fun _ hi => lt_of_lt_of_le hi hab))
  have vmono : ∀ a b, a ≤ b → Submodule.span K (v '' Set.Iio a) ≤ Submodule.span K (v '' Set.Iio b) :=
    fun a b hab => Submodule.span_mono (Set.image_mono (fun _ hi => lt_of_lt_of_le hi hab))
  -- `T` maps `K_a` into `K_{a+1}`
  have kT : ∀ a x, x ∈ Submodule.span K ((fun i : ℕ => (⇑T)^[i] r0) '' Set.Iio a) →
      T x ∈ Submodule.span K ((fun i : ℕ => (⇑T)^[i] r0) '' Set.Iio (a + 1)) := by
    intro a x hx
    induction hx using Submodule.span_induction with
    | mem x hx =>
      obtain ⟨i, hi, rfl⟩ := hx
      have : T ((⇑T)^[i] r0) = (⇑T)^[i + 1] r0 := by rw [Function.iterate_succ_apply']
      rw [this]
      exact Submodule.subset_span ⟨i + 1, Nat.succ_lt_succ hi, rfl⟩
    | zero => simp
    | add u w _ _ hu hw => rw [map_add]; exact Submodule.add_mem _ hu hw
    | smul c u _ hu => rw [map_smul]; exact Submodule.smul_mem _ _ hu
  -- `T` maps `span{V_0..V_{a-1}}` into `span{V_0..V_a}` for `a ≤ j`
  have vT : ∀ a, a ≤ j → ∀ x, x ∈ Submodule.span K (v '' Set.Iio a) → T x ∈ Submodule.span K (v '' Set.Iio (a + 1)) := by
    intro a ha x hx
    induction hx using Submodule.span_induction with
    | mem x hx =>
      obtain ⟨i, hi, rfl⟩ := hx
      have hi' : i < a := hi
      rw [harn i (by omega)]
      apply Submodule.sum_mem
      intro k hk
      apply Submodule.smul_mem
      exact Submodule.subset_span ⟨k, by have := mem_range.mp hk; show k < a + 1; omega, rfl⟩
    | zero => simp
    | add u w _ _ hu hw => rw [map_add]; exact Submodule.add_mem _ hu hw
    | smul c u _ hu => rw [map_smul]; exact Submodule.smul_mem _ _ hu
  -- `V_i ∈ K_{i+1}` for `i ≤ j`
  have hv : ∀ i, i ≤ j → v i ∈ Submodule.span K ((fun i : ℕ => (⇑T)^[i] r0) '' Set.Iio (i + 1)) := by
    intro i
    induction i using Nat.strong_induction_on with
    | _ i ih =>
      intro hi
      cases i with
      | zero =>
        have : v 0 = β⁻¹ • r0 := by rw [hr0, smul_smul, inv_mul_cancel₀ hβ, one_smul]
        rw [this]
        exact Submodule.smul_mem _ _ (Submodule.subset_span ⟨0, Nat.zero_lt_one, rfl⟩)
      | succ i =>
        have hrel := harn i (by omega)
        rw [sum_range_succ] at hrel
        have hne := hsub i (by omega)
        have : v (i + 1) = (Ht (i + 1) i)⁻¹ • (T (v i) - ∑ k ∈ range (i + 1), Ht k i • v k) := by
          rw [hrel, add_sub_cancel_left, smul_smul, inv_mul_cancel₀ hne, one_smul]
        rw [this]
        apply Submodule.smul_mem
        apply Submodule.sub_mem
        · exact kT (i + 1) _ (ih i (Nat.lt_succ_self i) (by omega))
        · apply Submodule.sum_mem
          intro k hk
          apply Submodule.smul_mem
          have hk' : k < i + 1 := mem_range.mp hk
          exact kmono (k + 1) (i + 1 + 1) (by omega) (ih k hk' (by omega))
  -- `T^i r₀ ∈ span{V_0..V_i}` for `i ≤ j`
  have hk : ∀ i, i ≤ j → (⇑T)^[i] r0 ∈ Submodule.span K (v '' Set.Iio (i + 1)) := by
    intro i
    induction i with
    | zero =>
      intro _
      show r0 ∈ _
      rw [hr0]
      exact Submodule.smul_mem _ _ (Submodule.subset_span ⟨0, Nat.zero_lt_one, rfl⟩)
    | succ i ih =>
      intro hi
      rw [Function.iterate_succ_apply']
      exact vT (i + 1) hi _ (ih (by omega))
  apply le_antisymm
  · apply Submodule.span_le.mpr
    rintro _ ⟨i, hi, rfl⟩
    have hi' : i < m := hi
    exact kmono (i + 1) m hi' (hv i (by omega))
  · apply Submodule.span_le.mpr
    rintro _ ⟨i, hi, rfl⟩
    have hi' : i < m := hi
    exact vmono (i + 1) m hi' (hk i (by omega))

end krylov

/-! ### the Arnoldi span of a cycle is the Krylov space of the preconditioned operator -/
section arnoldiKrylov
variable {K : Type} [Field K] [LinearOrder K] [IsStrictOrderedRing K]

/-- the Krylov space `K_j(T, r₀) = span{T^i r₀ : i < j}` of the preconditioned operator `T = A Pl` (right) / `Pl A`
(left) and the measured residual `r₀` at the start of the cycle -/
def gmresKrylov (side : Side) (n : ℕ) (A : CRS K) (Pl : (Fin n → K) →ₗ[K] (Fin n → K)) (r0 : Fin n → K) (j : ℕ) :
    Submodule K (Fin n → K) :=
  Submodule.span K ((fun i : ℕ => (⇑(Tl side (matOf A n n) Pl))^[i] r0) '' Set.Iio j)

theorem arnoldiSpan_eq_krylov (n : ℕ) (A : CRS K) (hA : A.WF) (hn : A.nrows = n) (hm : A.ncols = n)
    (P : Vec K → Vec K) (Pl : (Fin n → K) →ₗ[K] (Fin n → K)) (hP : PDenotes n P Pl) (side : Side) (sqrt : K → K)
    (f : Vec K) (st : GMRES.St K) (hst : CycleStart side sqrt A P f st) (j : ℕ)
    (hroots : RootsExact side sqrt A P st j) (hnb : ∀ i, i < j → arnoldiNorm side sqrt A P st i ≠ 0) :
    arnoldiSpan side sqrt A P st n j = gmresKrylov side n A Pl (vecOf n st.w.r) j := by
  obtain ⟨_, _, harn, hr0⟩ := cycle_basis n A hA hn hm P Pl hP side sqrt f st hst j hroots hnb
  have h := span_eq_krylov (Tl side (matOf A n n) Pl)
    (fun a => vecOf n ((innerPass side sqrt A P st j).w.v.get a)) (hTilde side sqrt A P st j) st.normR
    (vecOf n st.w.r) j hst.ne hr0 harn
    (fun i hi => by
      show (innerPassG side sqrt A P st g00 j).2.Ht.get (i + 1) i ≠ 0
      rw [ghost_sub side sqrt A P st g00 j i hi]; exact hnb i hi)
    j (Nat.le_succ j)
  unfold arnoldiSpan gmresKrylov
  rw [← h]
  congr 1
  ext x
  constructor
  · rintro ⟨i, rfl⟩; exact ⟨i.val, i.isLt, rfl⟩
  · rintro ⟨i, hi, rfl⟩; exact ⟨⟨i, hi⟩, rfl⟩

end arnoldiKrylov

end Amgcl.Krylov
