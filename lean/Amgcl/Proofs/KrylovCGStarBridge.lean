import Amgcl.Proofs.KrylovCGStar
import Amgcl.Proofs.KrylovCGBridge
/-!
# The CG MODEL with an arbitrary inner-product functor `ip` is the abstract recurrence over the form `ip` denotes (C05g)

`Proofs/KrylovCGBridge.lean` ties `CG.body stdIp` to `CGData` (bilinear dot product).  Here the same bridging theorem is proved for
`CG.body ip` with ANY `ip` that is a function of the denoted vectors, `ip x y = Bs (vecOf n x) (vecOf n y)` on arrays of length `n`
(`IpDenotes`), and the recurrence `CGDataS` over the plain function `Bs`.  No property of `Bs` is used in the bridge; the
sesquilinear / Hermitian hypotheses enter only through `CGDataS.conj_of_noBreakdown`.

`ipC_denotes`: amgcl's inner product `ipC conj x y = Σ x_i · conj y_i` denotes `hermDot conj u v = Σ_i u_i · conj (v_i)`;
`hermDot_sesq`: for a ring homomorphism `conj` with `conj ∘ conj = id`, a Hermitian matrix (`A i j = conj (A j i)`) and a
preconditioner that is self-adjoint for `hermDot`, the hypotheses `Sesq` hold.
-/
set_option linter.unusedSectionVars false
set_option linter.unusedVariables false
namespace Amgcl.Krylov
open Amgcl Amgcl.Solver Amgcl.Energy.Bridge Matrix

variable {K : Type} [Field K] [DecidableEq K] [LT K] [DecidableLT K]

/-- `ip` is a function of the denoted vectors -/
def IpDenotes (n : ℕ) (ip : Vec K → Vec K → K) (Bs : (Fin n → K) → (Fin n → K) → K) : Prop :=
  ∀ x y : Vec K, x.size = n → y.size = n → ip x y = Bs (vecOf n x) (vecOf n y)

def cgDataS (n : ℕ) (A : CRS K) (Pl : (Fin n → K) →ₗ[K] (Fin n → K)) (Bs : (Fin n → K) → (Fin n → K) → K) (f x0 : Vec K) :
    CGDataS K (Fin n → K) :=
  ⟨Matrix.mulVecLin (matOf A n n), Pl, Bs, vecOf n x0, vecOf n (residual f A x0)⟩

/-- the model's loop state after `k` passes of the body, inner product `ip` -/
def cgPassI (ip : Vec K → Vec K → K) (sqrt : K → K) (A : CRS K) (P : Vec K → Vec K) (ws : CG.Work K) (f x0 : Vec K) (e : K)
    (k : ℕ) : CG.St K :=
  (CG.body ip sqrt A P)^[k] (CG.init ip sqrt A ws f x0 e)

theorem cgPassI_succ (ip : Vec K → Vec K → K) (sqrt : K → K) (A : CRS K) (P : Vec K → Vec K) (ws : CG.Work K) (f x0 : Vec K)
    (e : K) (k : ℕ) :
    cgPassI ip sqrt A P ws f x0 e (k + 1) = CG.body ip sqrt A P (cgPassI ip sqrt A P ws f x0 e k) := by
  unfold cgPassI; rw [Function.iterate_succ_apply']

structure BrS (n : ℕ) (c : CGDataS K (Fin n → K)) (k : ℕ) (st : CG.St K) : Prop where
  iter : st.iter = k
  x : vecOf n st.x = (c.st k).x
  rsz : st.w.r.size = n
  r : vecOf n st.w.r = (c.st k).r
  prev : k ≠ 0 → st.w.p.size = n ∧ vecOf n st.w.p = (c.st k).p ∧ st.rho1 = (c.st k).rho ∧
    st.w.q.size = n ∧ vecOf n st.w.q = c.A (c.st k).p

theorem init_brS (n : ℕ) (ip : Vec K → Vec K → K) (sqrt : K → K) (A : CRS K) (hn : A.nrows = n)
    (Pl : (Fin n → K) →ₗ[K] (Fin n → K)) (Bs : (Fin n → K) → (Fin n → K) → K) (ws : CG.Work K) (f x0 : Vec K) (e : K) :
    BrS n (cgDataS n A Pl Bs f x0) 0 (CG.init ip sqrt A ws f x0 e) :=
  ⟨rfl, rfl, by show (residual f A x0).size = n; rw [residual_size', hn], rfl, fun h => absurd rfl h⟩

theorem body_brS (n : ℕ) (ip : Vec K → Vec K → K) (sqrt : K → K) (A : CRS K) (hA : A.WF) (hn : A.nrows = n) (hm : A.ncols = n)
    (P : Vec K → Vec K) (Pl : (Fin n → K) →ₗ[K] (Fin n → K)) (hP : PDenotes n P Pl)
    (Bs : (Fin n → K) → (Fin n → K) → K) (hip : IpDenotes n ip Bs) (f x0 : Vec K) (k : ℕ)
    (st : CG.St K) (h : BrS n (cgDataS n A Pl Bs f x0) k st) :
    BrS n (cgDataS n A Pl Bs f x0) (k + 1) (CG.body ip sqrt A P st) := by
  obtain ⟨hi, hx, hrs, hr, hprev⟩ := h
  obtain ⟨hss, hsv⟩ := hP st.w.r hrs
  have hcA : ColsLt A n := by rw [← hm]; exact colsLt_of_wf A hA
  have hrho : ip st.w.r (P st.w.r)
      = (cgDataS n A Pl Bs f x0).B ((cgDataS n A Pl Bs f x0).st k).r
          ((cgDataS n A Pl Bs f x0).P ((cgDataS n A Pl Bs f x0).st k).r) := by
    rw [hip _ _ hrs hss, hsv, hr]; rfl
  have hp : ((if st.iter ≠ 0 then axpby 1 (P st.w.r) (ip st.w.r (P st.w.r) / st.rho1) st.w.p
        else vcopy (P st.w.r)) : Vec K).size = n ∧
      vecOf n (if st.iter ≠ 0 then axpby 1 (P st.w.r) (ip st.w.r (P st.w.r) / st.rho1) st.w.p
        else vcopy (P st.w.r)) = ((cgDataS n A Pl Bs f x0).st (k + 1)).p := by
    show _ ∧ _ = (if k = 0 then (cgDataS n A Pl Bs f x0).P ((cgDataS n A Pl Bs f x0).st k).r
      else (cgDataS n A Pl Bs f x0).P ((cgDataS n A Pl Bs f x0).st k).r
        + ((cgDataS n A Pl Bs f x0).B ((cgDataS n A Pl Bs f x0).st k).r
              ((cgDataS n A Pl Bs f x0).P ((cgDataS n A Pl Bs f x0).st k).r) / ((cgDataS n A Pl Bs f x0).st k).rho)
          • ((cgDataS n A Pl Bs f x0).st k).p)
    by_cases hk : k = 0
    · have : ¬ st.iter ≠ 0 := by rw [hi, hk]; simp
      rw [if_neg this, if_pos hk, vcopy_eq]
      exact ⟨hss, by rw [hsv, hr]; rfl⟩
    · have : st.iter ≠ 0 := by rw [hi]; exact hk
      obtain ⟨_, hpv, hrh, _, _⟩ := hprev hk
      rw [if_pos this, if_neg hk]
      refine ⟨by rw [axpby_size, hss], ?_⟩
      rw [vecOf_axpby n _ _ _ _ hss, hsv, hr, hpv, hrho, hrh, one_smul]
      rfl
  obtain ⟨hps, hpv⟩ := hp
  have hqs : ∀ z : Vec K, (spmv 1 A (if st.iter ≠ 0 then axpby 1 (P st.w.r) (ip st.w.r (P st.w.r) / st.rho1) st.w.p
        else vcopy (P st.w.r)) 0 z).size = n := fun z => by rw [spmv_size', hn]
  have hqv : ∀ z : Vec K, vecOf n (spmv 1 A (if st.iter ≠ 0 then
        axpby 1 (P st.w.r) (ip st.w.r (P st.w.r) / st.rho1) st.w.p else vcopy (P st.w.r)) 0 z)
      = (cgDataS n A Pl Bs f x0).A ((cgDataS n A Pl Bs f x0).st (k + 1)).p := by
    intro z
    rw [vecOf_spmv0 A hn hcA, hpv]; rfl
  have hal : ip st.w.r (P st.w.r) / ip (spmv 1 A (if st.iter ≠ 0 then
        axpby 1 (P st.w.r) (ip st.w.r (P st.w.r) / st.rho1) st.w.p else vcopy (P st.w.r)) 0 st.w.q)
        (if st.iter ≠ 0 then axpby 1 (P st.w.r) (ip st.w.r (P st.w.r) / st.rho1) st.w.p else vcopy (P st.w.r))
      = ((cgDataS n A Pl Bs f x0).st (k + 1)).rho
        / (cgDataS n A Pl Bs f x0).B ((cgDataS n A Pl Bs f x0).A ((cgDataS n A Pl Bs f x0).st (k + 1)).p)
            ((cgDataS n A Pl Bs f x0).st (k + 1)).p := by
    rw [hip _ _ (hqs _) hps, hqv, hpv, hrho]; rfl
  refine ⟨by show st.iter + 1 = k + 1; rw [hi], ?_, ?_, ?_, fun _ => ⟨hps, hpv, hrho, hqs _, hqv _⟩⟩
  · show vecOf n (axpby _ _ 1 st.x) = _
    rw [vecOf_axpby n _ _ _ _ hps, hal, hpv, hx, one_smul, add_comm]; rfl
  · show (axpby _ _ 1 st.w.r).size = n
    rw [axpby_size]; exact hqs _
  · show vecOf n (axpby (-_) _ 1 st.w.r) = _
    rw [vecOf_axpby n _ _ _ _ (hqs _), hal, hqv, hr, one_smul, neg_smul, neg_add_eq_sub]; rfl

theorem cgPassI_br (n : ℕ) (ip : Vec K → Vec K → K) (sqrt : K → K) (A : CRS K) (hA : A.WF) (hn : A.nrows = n) (hm : A.ncols = n)
    (P : Vec K → Vec K) (Pl : (Fin n → K) →ₗ[K] (Fin n → K)) (hP : PDenotes n P Pl)
    (Bs : (Fin n → K) → (Fin n → K) → K) (hip : IpDenotes n ip Bs) (ws : CG.Work K) (f x0 : Vec K)
    (e : K) (k : ℕ) : BrS n (cgDataS n A Pl Bs f x0) k (cgPassI ip sqrt A P ws f x0 e k) := by
  induction k with
  | zero => exact init_brS n ip sqrt A hn Pl Bs ws f x0 e
  | succ k ih => rw [cgPassI_succ]; exact body_brS n ip sqrt A hA hn hm P Pl hP Bs hip f x0 k _ ih

/-- no breakdown before pass `k`, read off the model's loop states -/
def ModelNoBreakdownI (ip : Vec K → Vec K → K) (pass : ℕ → CG.St K) (k : ℕ) : Prop :=
  ∀ i, i < k → (pass (i + 1)).rho1 ≠ 0 ∧ ip (pass (i + 1)).w.q (pass (i + 1)).w.p ≠ 0

section facts
variable (n : ℕ) (ip : Vec K → Vec K → K) (sqrt : K → K) (A : CRS K) (hA : A.WF) (hn : A.nrows = n) (hm : A.ncols = n)
  (P : Vec K → Vec K) (Pl : (Fin n → K) →ₗ[K] (Fin n → K)) (hP : PDenotes n P Pl)
  (Bs : (Fin n → K) → (Fin n → K) → K) (hip : IpDenotes n ip Bs) (ws : CG.Work K) (f x0 : Vec K) (e : K)
include hA hn hm hP hip

theorem passI_r (k : ℕ) : (cgPassI ip sqrt A P ws f x0 e k).w.r.size = n ∧
    vecOf n (cgPassI ip sqrt A P ws f x0 e k).w.r = (cgDataS n A Pl Bs f x0).r k :=
  ⟨(cgPassI_br n ip sqrt A hA hn hm P Pl hP Bs hip ws f x0 e k).rsz, (cgPassI_br n ip sqrt A hA hn hm P Pl hP Bs hip ws f x0 e k).r⟩

theorem passI_p (k : ℕ) : (cgPassI ip sqrt A P ws f x0 e (k + 1)).w.p.size = n ∧
    vecOf n (cgPassI ip sqrt A P ws f x0 e (k + 1)).w.p = (cgDataS n A Pl Bs f x0).p k := by
  obtain ⟨h1, h2, _⟩ := (cgPassI_br n ip sqrt A hA hn hm P Pl hP Bs hip ws f x0 e (k + 1)).prev (Nat.succ_ne_zero k)
  exact ⟨h1, h2⟩

theorem passI_q (k : ℕ) : (cgPassI ip sqrt A P ws f x0 e (k + 1)).w.q.size = n ∧
    vecOf n (cgPassI ip sqrt A P ws f x0 e (k + 1)).w.q = (cgDataS n A Pl Bs f x0).q k := by
  obtain ⟨_, _, _, h1, h2⟩ := (cgPassI_br n ip sqrt A hA hn hm P Pl hP Bs hip ws f x0 e (k + 1)).prev (Nat.succ_ne_zero k)
  exact ⟨h1, h2⟩

theorem passI_rho (k : ℕ) : (cgPassI ip sqrt A P ws f x0 e (k + 1)).rho1 = (cgDataS n A Pl Bs f x0).rho k := by
  obtain ⟨_, _, h, _⟩ := (cgPassI_br n ip sqrt A hA hn hm P Pl hP Bs hip ws f x0 e (k + 1)).prev (Nat.succ_ne_zero k)
  exact h

theorem passI_d (k : ℕ) : ip (cgPassI ip sqrt A P ws f x0 e (k + 1)).w.q (cgPassI ip sqrt A P ws f x0 e (k + 1)).w.p
    = (cgDataS n A Pl Bs f x0).d k := by
  obtain ⟨h1, h2⟩ := passI_q n ip sqrt A hA hn hm P Pl hP Bs hip ws f x0 e k
  obtain ⟨h3, h4⟩ := passI_p n ip sqrt A hA hn hm P Pl hP Bs hip ws f x0 e k
  rw [hip _ _ h1 h3, h2, h4]; rfl

theorem noBreakdown_of_modelI (k : ℕ) (h : ModelNoBreakdownI ip (cgPassI ip sqrt A P ws f x0 e) k) :
    (cgDataS n A Pl Bs f x0).NoBreakdown k := by
  intro i hi
  rw [← passI_rho n ip sqrt A hA hn hm P Pl hP Bs hip ws f x0 e i, ← passI_d n ip sqrt A hA hn hm P Pl hP Bs hip ws f x0 e i]
  exact h i hi

/-- **conjugacy for the model over a sesquilinear Hermitian form** -/
theorem model_conjugacy_star (conj : K →+* K) (hs : (cgDataS n A Pl Bs f x0).Sesq conj)
    (k : ℕ) (hnb : ModelNoBreakdownI ip (cgPassI ip sqrt A P ws f x0 e) k) (i j : ℕ) (hi : i ≤ k)
    (hj : j ≤ k) (hij : i ≠ j) (z : Vec K) :
    ip (cgPassI ip sqrt A P ws f x0 e i).w.r (P (cgPassI ip sqrt A P ws f x0 e j).w.r) = 0 ∧
    ip (cgPassI ip sqrt A P ws f x0 e (i + 1)).w.p (spmv 1 A (cgPassI ip sqrt A P ws f x0 e (j + 1)).w.p 0 z) = 0 := by
  have hnb' := noBreakdown_of_modelI n ip sqrt A hA hn hm P Pl hP Bs hip ws f x0 e k hnb
  obtain ⟨ri1, ri2⟩ := passI_r n ip sqrt A hA hn hm P Pl hP Bs hip ws f x0 e i
  obtain ⟨rj1, rj2⟩ := passI_r n ip sqrt A hA hn hm P Pl hP Bs hip ws f x0 e j
  obtain ⟨pi1, pi2⟩ := passI_p n ip sqrt A hA hn hm P Pl hP Bs hip ws f x0 e i
  obtain ⟨pj1, pj2⟩ := passI_p n ip sqrt A hA hn hm P Pl hP Bs hip ws f x0 e j
  obtain ⟨z1, z2⟩ := hP _ rj1
  have hcA : ColsLt A n := by rw [← hm]; exact colsLt_of_wf A hA
  constructor
  · rw [hip _ _ ri1 z1, z2, ri2, rj2]
    exact CGDataS.r_orthogonal hs hnb' i j hi hj hij
  · rw [hip _ _ pi1 (by rw [spmv_size', hn]), vecOf_spmv0 A hn hcA, pi2, pj2]
    exact CGDataS.p_conjugate hs hnb' i j hi hj hij

end facts
end Amgcl.Krylov
