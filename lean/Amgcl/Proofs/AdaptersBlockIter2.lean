import Amgcl.Proofs.AdaptersBlockIter
import Mathlib.Data.List.GetD
/-!
The row iterator of `block_matrix_adapter`, part 2: the whole iteration on `b` strictly sorted scalar rows.
-/
namespace Amgcl.Adapters
open Amgcl Amgcl.K2

variable {K : Type}

/-- total number of scalar entries of the rows (the fuel `blockRow` hands to the iterator) -/
def totalLen (rs : List (Row K)) : Nat := rs.foldl (fun s r => s + r.length) 0

theorem totalLen_eq (rs : List (Row K)) : totalLen rs = (rs.map List.length).sum := by
  unfold totalLen
  suffices h : ∀ s, rs.foldl (fun s r => s + r.length) s = s + (rs.map List.length).sum by simpa using h 0
  induction rs with
  | nil => intro s; simp
  | cons r t ih => intro s; rw [List.foldl_cons, ih, List.map_cons, List.sum_cons, Nat.add_assoc]

theorem totalLen_cons (r : Row K) (rs : List (Row K)) : totalLen (r :: rs) = r.length + totalLen rs := by
  rw [totalLen_eq, totalLen_eq, List.map_cons, List.sum_cons]

theorem totalLen_map_lt (f : Row K → Row K) (rs : List (Row K)) (hle : ∀ r, (f r).length ≤ r.length)
    (hlt : ∃ r ∈ rs, (f r).length < r.length) : totalLen (rs.map f) < totalLen rs := by
  induction rs with
  | nil => obtain ⟨r, hr, _⟩ := hlt; cases hr
  | cons r t ih =>
    rw [List.map_cons, totalLen_cons, totalLen_cons]
    have hle' : totalLen (t.map f) ≤ totalLen t := by
      clear ih hlt
      induction t with
      | nil => exact Nat.le_refl _
      | cons r' t' ih' =>
        rw [List.map_cons, totalLen_cons, totalLen_cons]
        have := hle r'
        omega
    obtain ⟨r0, hr0, hl0⟩ := hlt
    rcases List.mem_cons.1 hr0 with rfl | hmem
    · omega
    · have := ih ⟨r0, hmem, hl0⟩
      have := hle r
      omega

theorem totalLen_zero (rs : List (Row K)) (h : totalLen rs = 0) : ∀ r ∈ rs, r = [] := by
  induction rs with
  | nil => intro r hr; cases hr
  | cons r0 t ih =>
    rw [totalLen_cons] at h
    intro r hr
    rcases List.mem_cons.1 hr with rfl | hm
    · exact List.length_eq_zero_iff.1 (by omega)
    · exact ih (by omega) r hm

/-- in a strictly sorted row everything that survives `dropWhile (col < e)` has column `≥ e` -/
theorem dropWhile_ge {r : Row K} (hs : StrictCols r) (e : Nat) :
    ∀ cv ∈ r.dropWhile (fun cv => decide (cv.1 < e)), e ≤ cv.1 := by
  induction r with
  | nil => intro cv h; cases h
  | cons hd t ih =>
    intro cv hcv
    by_cases h : hd.1 < e
    · rw [List.dropWhile_cons_of_pos (by simpa using h)] at hcv
      exact ih (List.pairwise_cons.1 hs).2 cv hcv
    · rw [List.dropWhile_cons_of_neg (by simpa using h)] at hcv
      rcases List.mem_cons.1 hcv with rfl | hm
      · omega
      · have := (List.pairwise_cons.1 hs).1 cv hm
        omega

section main
variable [AddCommMonoid K]

/-- what the iterator guarantees on `b` strictly sorted rows -/
structure IterSpec (b : Nat) (rs : List (Row K)) (out : Row (Blk K)) : Prop where
  /-- unblocking the produced block row gives back the denotation of every scalar row -/
  get : ∀ i, i < rs.length → ∀ col, rowGet (unblockRow b i out) col = rowGet (rs.getD i []) col
  /-- every produced block column is the block column of some scalar entry -/
  cols : ∀ o ∈ out, ∃ r ∈ rs, ∃ cv ∈ r, o.1 = cv.1 / b
  /-- every scalar entry lies in a produced block -/
  complete : ∀ r ∈ rs, ∀ cv ∈ r, ∃ o ∈ out, o.1 = cv.1 / b
  /-- block columns strictly increase -/
  sorted : out.Pairwise (fun a c => a.1 < c.1)
  /-- every block has `b*b` slots -/
  size : ∀ o ∈ out, o.2.size = b * b

theorem blockIter_spec (b : Nat) (hb : 0 < b) (fuel : Nat) (rs : List (Row K)) (hlen : rs.length = b)
    (hs : ∀ r ∈ rs, StrictCols r) (hfuel : totalLen rs ≤ fuel) : IterSpec b rs (blockIter b fuel rs) := by
  induction fuel generalizing rs with
  | zero =>
    -- no entries at all
    have hall : ∀ r ∈ rs, r = [] := totalLen_zero rs (Nat.le_zero.1 hfuel)
    show IterSpec b rs []
    refine ⟨?_, (by intro o ho; cases ho), (by intro r hr cv hcv; rw [hall r hr] at hcv; cases hcv),
      List.Pairwise.nil, (by intro o ho; cases ho)⟩
    intro i hi col
    have : rs.getD i [] = [] := by
      rw [List.getD_eq_getElem _ _ hi]; exact hall _ (List.getElem_mem hi)
    rw [this]; rfl
  | succ fuel ih =>
    unfold blockIter
    cases hcur : curCol b rs with
    | none =>
      have hall := (curCol_none_iff b rs).1 hcur
      refine ⟨?_, (by intro o ho; cases ho), (by intro r hr cv hcv; rw [hall r hr] at hcv; cases hcv),
      List.Pairwise.nil, (by intro o ho; cases ho)⟩
      intro i hi col
      have : rs.getD i [] = [] := by
        rw [List.getD_eq_getElem _ _ hi]; exact hall _ (List.getElem_mem hi)
      rw [this]; rfl
    | some c =>
      simp only
      set e := (c + 1) * b with he
      set v0 : Blk K := Array.replicate (b * b) (0 : K) with hv0
      have hcall := curCol_le_all b rs c hcur hs
      have hfst := gatherAll_fst b e 0 rs v0
      set rests := rs.map (fun r => r.dropWhile (fun cv => decide (cv.1 < e))) with hrests
      rw [hfst]
      -- the remaining rows: still `b` strictly sorted rows, all in block columns > c, strictly fewer entries
      have hlen' : rests.length = b := by rw [hrests, List.length_map, hlen]
      have hs' : ∀ r ∈ rests, StrictCols r := by
        intro r hr
        obtain ⟨r0, hr0, rfl⟩ := List.mem_map.1 hr
        exact (hs r0 hr0).sublist (List.dropWhile_sublist _)
      have hgt : ∀ r ∈ rests, ∀ cv ∈ r, c + 1 ≤ cv.1 / b := by
        intro r hr cv hcv
        obtain ⟨r0, hr0, rfl⟩ := List.mem_map.1 hr
        have := dropWhile_ge (hs r0 hr0) e cv hcv
        exact (Nat.le_div_iff_mul_le hb).2 this
      have hlt : totalLen rests < totalLen rs := by
        apply totalLen_map_lt
        · intro r; exact (List.dropWhile_sublist _).length_le
        · obtain ⟨r, hr, cv, t, rfl, hcv⟩ := (curCol_some b rs c hcur).1
          refine ⟨cv :: t, hr, ?_⟩
          have hlt' : cv.1 < e := by
            have : cv.1 / b < c + 1 := by omega
            exact (Nat.div_lt_iff_lt_mul hb).1 this
          rw [List.dropWhile_cons_of_pos (by simpa using hlt')]
          exact Nat.lt_succ_of_le (List.dropWhile_sublist _).length_le
      have IH := ih rests hlen' hs' (by omega)
      -- the gathered block
      have hV : ∀ i, i < b → ∀ k, k < b →
          (gatherAll b e 0 rs v0).2.getD (i * b + k) 0
            = rowGet ((rs.getD i []).takeWhile (fun cv => decide (cv.1 < e))) (c * b + k) := by
        intro i hi k hk
        have hi' : i < rs.length := by rw [hlen]; exact hi
        have hsz : (0 + i) * b + k < v0.size := by
          rw [hv0, Array.size_replicate, Nat.zero_add]
          calc i * b + k < i * b + b := by omega
            _ = (i + 1) * b := by ring
            _ ≤ b * b := Nat.mul_le_mul_right b hi
        have hz : v0.getD ((0 + i) * b + k) 0 = 0 := by
          rw [hv0]; simp [Array.getD]
        have := gatherAll_snd b hb c 0 rs v0 hs hcall i k hi' hk hsz hz
        rw [Nat.zero_add] at this
        rw [this, List.getD_eq_getElem _ _ hi']
      refine ⟨?_, ?_, ?_, ?_, ?_⟩
      · intro i hi col
        have hib : i < b := by rw [← hlen]; exact hi
        rw [unblockRow_cons, rowGet_append, rowGet_block_entries b hb, IH.get i (by rw [hlen', ← hlen]; exact hi) col]
        have hrest : rests.getD i [] = (rs.getD i []).dropWhile (fun cv => decide (cv.1 < e)) := by
          rw [List.getD_eq_getElem _ _ (by rw [hlen', ← hlen]; exact hi), List.getD_eq_getElem _ _ hi]
          simp only [hrests, List.getElem_map]
        rw [hrest]
        set r := rs.getD i [] with hr
        have hrmem : r ∈ rs := by rw [hr, List.getD_eq_getElem _ _ hi]; exact List.getElem_mem hi
        conv_rhs => rw [← List.takeWhile_append_dropWhile (p := fun cv => decide (cv.1 < e)) (l := r), rowGet_append]
        congr 1
        simp only
        by_cases hcc : c = col / b
        · rw [if_pos hcc, hV i hib _ (Nat.mod_lt _ hb), hcc]
          congr 1
          rw [Nat.mul_comm]; exact Nat.div_add_mod col b
        · rw [if_neg hcc]
          symm
          apply rowGet_eq_zero_of_not_mem
          intro cv hcv e'
          have h1 : c ≤ cv.1 / b := hcall r hrmem cv (List.takeWhile_subset _ hcv)
          have h2 : cv.1 < e := by simpa using List.mem_takeWhile_imp hcv
          have h3 : cv.1 / b < c + 1 := (Nat.div_lt_iff_lt_mul hb).2 h2
          apply hcc
          rw [← e']; omega
      · intro o ho
        rcases List.mem_cons.1 ho with rfl | ho'
        · obtain ⟨r, hr, cv, t, rfl, hcv⟩ := (curCol_some b rs c hcur).1
          exact ⟨cv :: t, hr, cv, List.mem_cons_self, hcv.symm⟩
        · obtain ⟨r, hr, cv, hcv, e'⟩ := IH.cols o ho'
          obtain ⟨r0, hr0, rfl⟩ := List.mem_map.1 hr
          exact ⟨r0, hr0, cv, (List.dropWhile_sublist _).subset hcv, e'⟩
      · intro r hr cv hcv
        rw [← List.takeWhile_append_dropWhile (p := fun cv => decide (cv.1 < e)) (l := r)] at hcv
        rcases List.mem_append.1 hcv with hcv | hcv
        · refine ⟨_, List.mem_cons_self, ?_⟩
          have h1 : c ≤ cv.1 / b := hcall r hr cv (List.takeWhile_subset _ hcv)
          have h2 : cv.1 < e := by simpa using List.mem_takeWhile_imp hcv
          have h3 : cv.1 / b < c + 1 := (Nat.div_lt_iff_lt_mul hb).2 h2
          show c = cv.1 / b
          omega
        · obtain ⟨o, ho, e'⟩ := IH.complete _ (List.mem_map.2 ⟨r, hr, rfl⟩) cv hcv
          exact ⟨o, List.mem_cons_of_mem _ ho, e'⟩
      · refine List.pairwise_cons.2 ⟨?_, IH.sorted⟩
        intro o ho
        obtain ⟨r, hr, cv, hcv, e'⟩ := IH.cols o ho
        have := hgt r hr cv hcv
        show c < o.1
        omega
      · intro o ho
        rcases List.mem_cons.1 ho with rfl | ho'
        · show (gatherAll b e 0 rs v0).2.size = b * b
          rw [gatherAll_size, hv0, Array.size_replicate]
        · exact IH.size o ho'

end main

end Amgcl.Adapters
