import Amgcl.Model.Amg
import Amgcl.Proofs.Vlin
/-!
The multigrid cycle is one fixed linear operator (C02, first sentence): for a hierarchy whose smoothers are
`Relax.Smoother.Good` (scratch-independent, jointly linear, size preserving — discharged per smoother in C06) and
whose direct solver is linear, the result of `cycle` / `apply`
* does not depend on the contents of ANY scratch vector (hence not on earlier applications), and
* is jointly linear in `(rhs, x)`.
-/
namespace Amgcl
namespace Amg
open Relax

variable {K S : Type} [CommRing K] [DecidableEq K]

theorem iter_succ {α : Type} (f : α → α) (n : Nat) (a : α) : iter f (n + 1) a = iter f n (f a) := rfl

-- sweeps -----------------------------------------------------------------------------------------------------

theorem sweeps_zero (sw : Sweep K) (rhs x t : Vec K) : sweeps sw 0 rhs x t = (x, t) := rfl

theorem sweeps_succ (sw : Sweep K) (n : Nat) (rhs x t : Vec K) :
    sweeps sw (n + 1) rhs x t = sweeps sw n rhs (sw rhs x t).1 (sw rhs x t).2 := rfl

theorem sweeps_indep (sw : Sweep K) (h : Sweep.ScratchIndep sw) (n : Nat) (rhs x t t' : Vec K) :
    (sweeps sw n rhs x t).1 = (sweeps sw n rhs x t').1 := by
  induction n generalizing x t t' with
  | zero => rfl
  | succ n ih => rw [sweeps_succ, sweeps_succ, h rhs x t t']; exact ih _ _ _

theorem sweeps_size (sw : Sweep K) (m : Nat) (h : Sweep.SizeOk sw m) (n : Nat) (rhs x t : Vec K)
    (hr : rhs.size = m) (hx : x.size = m) : (sweeps sw n rhs x t).1.size = m := by
  induction n generalizing x t with
  | zero => exact hx
  | succ n ih => rw [sweeps_succ]; exact ih _ _ (h rhs x t hr hx)

theorem sweeps_linear (sw : Sweep K) (m : Nat) (hl : Sweep.JointlyLinear sw m) (hs : Sweep.SizeOk sw m) (n : Nat)
    (a b : K) (f g x y t t1 t2 : Vec K) (hf : f.size = m) (hg : g.size = m) (hx : x.size = m) (hy : y.size = m) :
    (sweeps sw n (vlin a f b g) (vlin a x b y) t).1 = vlin a (sweeps sw n f x t1).1 b (sweeps sw n g y t2).1 := by
  induction n generalizing x y t t1 t2 with
  | zero => rfl
  | succ n ih =>
    rw [sweeps_succ, sweeps_succ, sweeps_succ, hl a b f g x y t t1 t2 hf hg hx hy]
    exact ih _ _ _ _ _ (hs f x t1 hf hx) (hs g y t2 hg hy)

-- what a (sub)cycle must satisfy to be used as the coarse-level correction ------------------------------------

/-- `rc scr rhs x`: a cycle on a sub-hierarchy with `len` levels acting on vectors of size `n` -/
structure CycOK (rc : List (Scratch K) → Vec K → Vec K → Vec K × List (Scratch K)) (len n : Nat) : Prop where
  len_out : ∀ scr f x, scr.length = len → (rc scr f x).2.length = len
  indep : ∀ scr scr' f x, scr.length = len → scr'.length = len → (rc scr f x).1 = (rc scr' f x).1
  size : ∀ scr f x, scr.length = len → f.size = n → x.size = n → (rc scr f x).1.size = n
  linear : ∀ (a b : K) scr scr1 scr2 f g x y, scr.length = len → scr1.length = len → scr2.length = len →
    f.size = n → g.size = n → x.size = n → y.size = n →
    (rc scr (vlin a f b g) (vlin a x b y)).1 = vlin a (rc scr1 f x).1 b (rc scr2 g y).1

/-- the direct coarse solver acts linearly on right-hand sides of size `n` -/
structure DirectOK (d : Vec K → Vec K) (n : Nat) : Prop where
  size : ∀ f, f.size = n → (d f).size = n
  linear : ∀ (a b : K) f g, f.size = n → g.size = n → d (vlin a f b g) = vlin a (d f) b (d g)

/-- shape requirements on an inner level (only sizes matter for linearity) -/
structure InnerShape (A P R : CRS K) (n m : Nat) : Prop where
  hA : A.nrows = n
  hP : P.nrows = n
  hR : R.nrows = m

section body
variable [Nontrivial K]
variable (prm : Params) (sm : Smoother K S) (s : S) (A P R : CRS K) (n m len : Nat)
variable (rc : List (Scratch K) → Vec K → Vec K → Vec K × List (Scratch K))

theorem cycleBody_x (rhs : Vec K) (st : CycSt K) :
    (cycleBody prm sm s A P R m rc rhs st).1 =
      (sweeps (sm.applyPost s A) prm.npost rhs
        (spmv 1 P (rc ({ st.2.2.1 with
            f := spmv 1 R (residual rhs A (sweeps (sm.applyPre s A) prm.npre rhs st.1 st.2.1.t).1) 0 st.2.2.1.f,
            u := vclear m } :: st.2.2.2)
          (spmv 1 R (residual rhs A (sweeps (sm.applyPre s A) prm.npre rhs st.1 st.2.1.t).1) 0 st.2.2.1.f)
          (vclear m)).1 1 (sweeps (sm.applyPre s A) prm.npre rhs st.1 st.2.1.t).1)
        (residual rhs A (sweeps (sm.applyPre s A) prm.npre rhs st.1 st.2.1.t).1)).1 := by
  unfold cycleBody
  simp only
  split <;> rfl

theorem cycleBody_len (hrc : CycOK rc len m) (rhs : Vec K) (st : CycSt K) (hst : st.2.2.2.length + 1 = len) :
    (cycleBody prm sm s A P R m rc rhs st).2.2.2.length + 1 = len := by
  unfold cycleBody
  simp only
  have hl := hrc.len_out ({ st.2.2.1 with
      f := spmv 1 R (residual rhs A (sweeps (sm.applyPre s A) prm.npre rhs st.1 st.2.1.t).1) 0 st.2.2.1.f,
      u := vclear m } :: st.2.2.2)
    (spmv 1 R (residual rhs A (sweeps (sm.applyPre s A) prm.npre rhs st.1 st.2.1.t).1) 0 st.2.2.1.f)
    (vclear m) (by simpa using hst)
  split
  · next scn' scr' heq => rw [heq] at hl; simpa using hl
  · exact hst

/-- hypotheses about the smoother on this level, as provided by `Relax.Smoother.Good` -/
structure SmOK (pre post : Sweep K) (n : Nat) : Prop where
  pre_indep : Sweep.ScratchIndep pre
  post_indep : Sweep.ScratchIndep post
  pre_linear : Sweep.JointlyLinear pre n
  post_linear : Sweep.JointlyLinear post n
  pre_size : Sweep.SizeOk pre n
  post_size : Sweep.SizeOk post n

variable {prm sm s A P R n m len rc}

theorem cycleBody_indep (hsm : SmOK (sm.applyPre s A) (sm.applyPost s A) n) (hrc : CycOK rc len m)
    (rhs : Vec K) (st st' : CycSt K) (hx : st.1 = st'.1)
    (hl : st.2.2.2.length + 1 = len) (hl' : st'.2.2.2.length + 1 = len) :
    (cycleBody prm sm s A P R m rc rhs st).1 = (cycleBody prm sm s A P R m rc rhs st').1 := by
  rw [cycleBody_x, cycleBody_x]
  have e1 : (sweeps (sm.applyPre s A) prm.npre rhs st.1 st.2.1.t).1 =
      (sweeps (sm.applyPre s A) prm.npre rhs st'.1 st'.2.1.t).1 := by
    rw [hx]; exact sweeps_indep _ hsm.pre_indep _ _ _ _ _
  rw [e1]
  have e2 : ∀ o o' : Vec K, spmv (1 : K) R (residual rhs A (sweeps (sm.applyPre s A) prm.npre rhs st'.1 st'.2.1.t).1) 0 o
      = spmv 1 R (residual rhs A (sweeps (sm.applyPre s A) prm.npre rhs st'.1 st'.2.1.t).1) 0 o' := by
    intro o o'; simp [spmv]
  rw [e2 st.2.2.1.f st'.2.2.1.f]
  rw [hrc.indep _ ({ st'.2.2.1 with
      f := spmv 1 R (residual rhs A (sweeps (sm.applyPre s A) prm.npre rhs st'.1 st'.2.1.t).1) 0 st'.2.2.1.f,
      u := vclear m } :: st'.2.2.2) _ _ (by simpa using hl) (by simpa using hl')]

theorem cycleBody_size (hsm : SmOK (sm.applyPre s A) (sm.applyPost s A) n) (hsh : InnerShape A P R n m)
    (rhs : Vec K) (st : CycSt K) (hr : rhs.size = n) :
    (cycleBody prm sm s A P R m rc rhs st).1.size = n := by
  rw [cycleBody_x]
  apply sweeps_size _ n hsm.post_size _ _ _ _ hr
  rw [spmv_size', hsh.hP]

theorem cycleBody_linear (hsm : SmOK (sm.applyPre s A) (sm.applyPost s A) n) (hsh : InnerShape A P R n m)
    (hrc : CycOK rc len m) (a b : K) (f g : Vec K) (st st1 st2 : CycSt K)
    (hf : f.size = n) (hg : g.size = n) (hx1 : st1.1.size = n) (hx2 : st2.1.size = n)
    (hx : st.1 = vlin a st1.1 b st2.1)
    (hl : st.2.2.2.length + 1 = len) (hl1 : st1.2.2.2.length + 1 = len) (hl2 : st2.2.2.2.length + 1 = len) :
    (cycleBody prm sm s A P R m rc (vlin a f b g) st).1 =
      vlin a (cycleBody prm sm s A P R m rc f st1).1 b (cycleBody prm sm s A P R m rc g st2).1 := by
  rw [cycleBody_x, cycleBody_x, cycleBody_x, hx]
  -- pre-smoothing
  have p1 := sweeps_linear (sm.applyPre s A) n hsm.pre_linear hsm.pre_size prm.npre a b f g st1.1 st2.1
    st.2.1.t st1.2.1.t st2.2.1.t hf hg hx1 hx2
  rw [p1]
  set xf := (sweeps (sm.applyPre s A) prm.npre f st1.1 st1.2.1.t).1 with hxf
  set xg := (sweeps (sm.applyPre s A) prm.npre g st2.1 st2.2.1.t).1 with hxg
  have sxf : xf.size = n := sweeps_size _ n hsm.pre_size _ _ _ _ hf hx1
  have sxg : xg.size = n := sweeps_size _ n hsm.pre_size _ _ _ _ hg hx2
  -- residual
  rw [residual_vlin A a b f g xf xg (by rw [hf, hg]) (by rw [sxf, sxg]) (by rw [hf, hsh.hA])]
  set tf := residual f A xf
  set tg := residual g A xg
  have stf : tf.size = tg.size := by simp [tf, tg, residual_size']
  -- restriction
  rw [spmv0_vlin R a b tf tg st.2.2.1.f st1.2.2.1.f st2.2.2.1.f stf]
  set ff := spmv 1 R tf 0 st1.2.2.1.f
  set fg := spmv 1 R tg 0 st2.2.2.1.f
  have sff : ff.size = m := by simp [ff, spmv_size', hsh.hR]
  have sfg : fg.size = m := by simp [fg, spmv_size', hsh.hR]
  -- coarse correction
  have hz : (vclear m : Vec K) = vlin a (vclear m) b (vclear m) := vclear_vlin a b m
  have c1 := hrc.linear a b
    ({ st.2.2.1 with f := vlin a ff b fg, u := vclear m } :: st.2.2.2)
    ({ st1.2.2.1 with f := ff, u := vclear m } :: st1.2.2.2)
    ({ st2.2.2.1 with f := fg, u := vclear m } :: st2.2.2.2)
    ff fg (vclear m) (vclear m) (by simpa using hl) (by simpa using hl1) (by simpa using hl2)
    sff sfg (vclear_size m) (vclear_size m)
  rw [← hz] at c1
  rw [c1]
  set uf := (rc ({ st1.2.2.1 with f := ff, u := vclear m } :: st1.2.2.2) ff (vclear m)).1
  set ug := (rc ({ st2.2.2.1 with f := fg, u := vclear m } :: st2.2.2.2) fg (vclear m)).1
  have suf : uf.size = m := hrc.size _ _ _ (by simpa using hl1) sff (vclear_size m)
  have sug : ug.size = m := hrc.size _ _ _ (by simpa using hl2) sfg (vclear_size m)
  -- prolongation
  rw [spmv1_vlin P a b uf ug xf xg (by rw [suf, sug]) (by rw [sxf, sxg])]
  -- post-smoothing
  exact sweeps_linear (sm.applyPost s A) n hsm.post_linear hsm.post_size prm.npost a b f g _ _ _ _ _ hf hg
    (by rw [spmv_size', hsh.hP]) (by rw [spmv_size', hsh.hP])

end body

end Amg
end Amgcl
