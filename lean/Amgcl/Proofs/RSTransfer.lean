import Amgcl.Proofs.RSConnect
import Amgcl.Proofs.RSInterp
import Amgcl.Proofs.KernelsTranspose
/-!
`ruge_stuben::transfer_operators` as a whole (`RS.transferFull`): the pieces put together.
-/
namespace Amgcl
namespace RS

/-- **no undecided point**: whatever the pattern `G`, the strength flags in it and the transposed pattern
`(sptr, scol)`, `cfsplit` leaves no `'U'` — provided the initial lambdas are below `n`, the condition under which the
code indexes its bucket arrays in range -/
theorem cfsplit_no_undecided (G : SGraph) (hG : G.WF) (sptr scol : Array Nat) (cf : Array CF)
    (hcf : cf.size = G.size)
    (hlam : ∀ i, i < G.size → (lambdaInit sptr scol cf G.size).getD i 0 < G.size) (i : Nat) (hi : i < G.size) :
    (cfsplit G sptr scol cf).getD i CF.U ≠ CF.U := by
  have h0 := bucketInit_inv cf (lambdaInit sptr scol cf G.size) G.size hcf (by simp [lambdaInit]) hlam
  exact cfsplit_decides_of_inv G rfl hG sptr scol _ h0 i hi

theorem cfsplit_size (G : SGraph) (hG : G.WF) (sptr scol : Array Nat) (cf : Array CF)
    (hcf : cf.size = G.size)
    (hlam : ∀ i, i < G.size → (lambdaInit sptr scol cf G.size).getD i 0 < G.size) :
    (cfsplit G sptr scol cf).size = G.size := by
  have h0 := bucketInit_inv cf (lambdaInit sptr scol cf G.size) G.size hcf (by simp [lambdaInit]) hlam
  exact cfsplit_size_of_inv G rfl hG sptr scol _ h0

/-- hypotheses on the input matrix: well-formed, square, no column stored twice in a row (what `amg` hands to the
coarsening: sorted rows of a valid matrix) -/
structure Input {K : Type} (A : CRS K) : Prop where
  wf : A.WF
  sq : A.ncols = A.nrows
  nodup : ∀ i, ((A.row i).map (·.1)).Nodup

/-- the executable form of `Input` -/
theorem Input.of_bool {K : Type} (A : CRS K) (h : (A.wfb && decide (A.ncols = A.nrows) && A.nodupb) = true) : Input A := by
  simp only [Bool.and_eq_true, decide_eq_true_eq] at h
  refine ⟨?_, h.1.2, K2.nodupb_iff.mp h.2⟩
  intro r hr cv hcv
  have := h.1.1
  unfold CRS.wfb at this
  rw [List.all_eq_true] at this
  have := this r hr
  rw [List.all_eq_true] at this
  simpa using this cv hcv

/-- the executable form of `SGraph.WF` -/
theorem sgraph_wf_of_wfb (G : SGraph) (h : G.wfb = true) : G.WF := by
  intro r hr cs hcs
  unfold SGraph.wfb at h
  rw [List.all_eq_true] at h
  have := h r hr
  rw [List.all_eq_true] at this
  simpa using this cs hcs

/-- `backend::transpose` produces a well-formed matrix (row indices of `A` become the columns) -/
theorem transpose_wf {K : Type} (adj : K → K) (A : CRS K) : (transpose adj A).WF := by
  rw [K2.wf_iff_row]
  intro c hc cv hcv
  rw [Amgcl.transpose_nrows] at hc
  rw [Amgcl.transpose_row adj A c hc, List.mem_flatMap] at hcv
  obtain ⟨i, hi, hcv⟩ := hcv
  simp only [Amgcl.trContrib, List.mem_filterMap] at hcv
  obtain ⟨cv0, _, h⟩ := hcv
  split at h
  · cases h; exact List.mem_range.mp hi
  · cases h

section transfer
variable {K : Type} [Add K] [Sub K] [Neg K] [Mul K] [Div K] [Zero K] [One K] [LinearOrder K]

theorem transferFull_cf (g : Garbage K) (norm : K → K) (epsStrong : K) (doTrunc : Bool) (epsTrunc eps : K)
    (A : CRS K) (hA : Input A) :
    (transferFull g norm epsStrong doTrunc epsTrunc eps A).cf.size = A.nrows ∧
    ∀ i, i < A.nrows → (transferFull g norm epsStrong doTrunc epsTrunc eps A).cf.getD i CF.U ≠ CF.U := by
  have hlam := lambdaInit_lt g norm epsStrong eps A hA.wf hA.sq hA.nodup
  have hval : (connect g norm epsStrong eps A).1.val = flagsOf norm epsStrong eps A := by rw [connect_eq]
  have hcf0 : (connect g norm epsStrong eps A).2.size = A.nrows := by rw [connect_eq]; simp [cf0Of]
  have hG := flagGraph_wf norm epsStrong eps A hA.wf hA.sq
  have hsz := flagGraph_size A (flagsOf norm epsStrong eps A)
  unfold transferFull
  simp only
  rw [hval]
  constructor
  · rw [cfsplit_size _ hG _ _ _ (by rw [hsz]; exact hcf0) (by rw [hsz]; exact hlam), hsz]
  · intro i hi
    exact cfsplit_no_undecided _ hG _ _ _ (by rw [hsz]; exact hcf0) (by rw [hsz]; exact hlam) i (by rw [hsz]; exact hi)

/-- the result of `transfer_operators` does not depend on the contents of the uninitialised allocations -/
theorem transferFull_indep (g g' : Garbage K) (norm : K → K) (epsStrong : K) (doTrunc : Bool) (epsTrunc eps : K)
    (A : CRS K) (hA : A.WF) (hsq : A.ncols = A.nrows) :
    transferFull g norm epsStrong doTrunc epsTrunc eps A = transferFull g' norm epsStrong doTrunc epsTrunc eps A := by
  have hG := flagGraph_wf norm epsStrong eps A hA hsq
  have hsz := flagGraph_size A (flagsOf norm epsStrong eps A)
  have hc : connect g norm epsStrong eps A = connect g' norm epsStrong eps A := by
    rw [connect_eq, connect_eq]
    rw [transposeFlags_indep g.scol g'.scol _ hG _ (by simp [hsz]) (fun k => by
      simp only [Array.getD_eq_getD_getElem?, Array.getElem?_replicate]; split <;> rfl)]
  unfold transferFull
  simp only
  rw [hc]
  congr 1
  unfold interpolation
  simp only
  split
  · rfl
  · congr 2
    apply congrArg
    funext i
    rw [prolongRow_eq, prolongRow_eq]

end transfer

end RS
end Amgcl
