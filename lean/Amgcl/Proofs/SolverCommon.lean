import Amgcl.Model.SolverCommon
import Amgcl.Proofs.Primitives
import Mathlib.Algebra.Field.Basic
import Mathlib.Algebra.Order.Field.Basic
import Mathlib.Tactic.Ring
import Mathlib.Tactic.Linarith
/-!
Helper lemmas shared by all Krylov-solver proofs (C01, C05, C15):

* generic loop lemmas for `loopN` / `loopE` (invariant, iteration counter, relational/“two-run” form),
* the **paired-update lemma**: `x ← x + α d` together with `r ← r − α·A d` keeps `r = f − A x` for ANY `α`,
* linearity of a preconditioner (`PLin`) and the fact that every matrix preconditioner `r ↦ M r` has it,
* the prologue (`norm_rhs < eps` early return), the generic history theorem.
-/
namespace Amgcl.Solver
open Amgcl
set_option linter.unusedSectionVars false
set_option linter.unusedSimpArgs false

/-! ### generic loops -/
section loops
variable {σ ε : Type}

theorem loopN_inv (cond : σ → Bool) (body : σ → σ) (Inv : σ → Prop)
    (hstep : ∀ s, Inv s → cond s = true → Inv (body s)) :
    ∀ fuel s, Inv s → Inv (loopN cond body fuel s) := by
  intro fuel
  induction fuel with
  | zero => intro s h; simpa [loopN] using h
  | succ n ih =>
    intro s h
    unfold loopN
    by_cases hc : cond s = true
    · simp only [hc, if_true]; exact ih _ (hstep s h hc)
    · simp only [hc]; exact h

/-- on exit either the fuel is exhausted (`iter = maxiter`) or the guard is false -/
theorem loopN_exit (cond : σ → Bool) (body : σ → σ) (cnt : σ → Nat)
    (hcnt : ∀ s, cnt (body s) = cnt s + 1) :
    ∀ fuel s, cnt (loopN cond body fuel s) ≤ cnt s + fuel ∧
      (cnt (loopN cond body fuel s) = cnt s + fuel ∨ cond (loopN cond body fuel s) = false) := by
  intro fuel
  induction fuel with
  | zero => intro s; simp [loopN]
  | succ n ih =>
    intro s
    unfold loopN
    by_cases hc : cond s = true
    · simp only [hc, if_true]
      obtain ⟨h1, h2⟩ := ih (body s)
      rw [hcnt] at h1 h2
      refine ⟨by omega, ?_⟩
      rcases h2 with h2 | h2
      · left; omega
      · right; exact h2
    · simp only [hc]
      constructor
      · simp
      · right; simpa using hc

/-- the loop is the `k`-fold iterate of its body, `k` = number of passes made -/
theorem loopN_iterate (cond : σ → Bool) (body : σ → σ) (cnt : σ → Nat)
    (hcnt : ∀ s, cnt (body s) = cnt s + 1) :
    ∀ fuel s, loopN cond body fuel s = body^[cnt (loopN cond body fuel s) - cnt s] s := by
  intro fuel
  induction fuel with
  | zero => intro s; simp [loopN]
  | succ n ih =>
    intro s
    unfold loopN
    by_cases hc : cond s = true
    · simp only [hc, if_true]
      have h1 := ih (body s)
      have h2 := (loopN_exit cond body cnt hcnt n (body s)).1
      have h3 : cnt (body s) ≤ cnt (loopN cond body n (body s)) := by
        have := loopN_inv cond body (fun t => cnt (body s) ≤ cnt t)
          (fun t ht _ => by have := hcnt t; omega) n (body s) (Nat.le_refl _)
        exact this
      rw [hcnt] at h1 h3
      have e : cnt (loopN cond body n (body s)) - cnt s = (cnt (loopN cond body n (body s)) - (cnt s + 1)) + 1 := by
        omega
      rw [e, Function.iterate_succ_apply]
      exact h1
    · simp [hc]

/-- relational form: two runs from related states stay related (used for work-vector independence) -/
theorem loopN_rel (cond : σ → Bool) (body : σ → σ) (R : σ → σ → Prop)
    (hcond : ∀ s s', R s s' → cond s = cond s')
    (hstep : ∀ s s', R s s' → cond s = true → R (body s) (body s')) :
    ∀ fuel s s', R s s' → R (loopN cond body fuel s) (loopN cond body fuel s') := by
  intro fuel
  induction fuel with
  | zero => intro s s' h; simpa [loopN] using h
  | succ n ih =>
    intro s s' h
    unfold loopN
    rw [← hcond s s' h]
    by_cases hc : cond s = true
    · simp only [hc, if_true]; exact ih _ _ (hstep s s' h hc)
    · simp only [hc]; exact h

theorem loopE_inv (cond : σ → Bool) (body : σ → Except (ε × σ) σ) (Inv : σ → Prop)
    (hstep : ∀ s s', Inv s → cond s = true → body s = .ok s' → Inv s') :
    ∀ fuel s s', Inv s → loopE cond body fuel s = (none, s') → Inv s' := by
  intro fuel
  induction fuel with
  | zero => intro s s' h he; simp [loopE] at he; exact he ▸ h
  | succ n ih =>
    intro s s' h he
    unfold loopE at he
    by_cases hc : cond s = true
    · simp only [hc, if_true] at he
      cases hb : body s with
      | error es => obtain ⟨e, s1⟩ := es; rw [hb] at he; simp at he
      | ok s1 => rw [hb] at he; exact ih s1 s' (hstep s s1 h hc hb) he
    · simp only [hc] at he; simp at he; exact he ▸ h

/-- relational form of `loopE`: related start states give the same exception kind and related end states -/
theorem loopE_rel (cond : σ → Bool) (body : σ → Except (ε × σ) σ) (R : σ → σ → Prop)
    (hcond : ∀ s s', R s s' → cond s = cond s')
    (hstep : ∀ s s', R s s' → cond s = true →
      (∃ t t', body s = .ok t ∧ body s' = .ok t' ∧ R t t') ∨
      (∃ e t t', body s = .error (e, t) ∧ body s' = .error (e, t') ∧ R t t')) :
    ∀ fuel s s', R s s' →
      (loopE cond body fuel s).1 = (loopE cond body fuel s').1 ∧
      R (loopE cond body fuel s).2 (loopE cond body fuel s').2 := by
  intro fuel
  induction fuel with
  | zero => intro s s' h; simpa [loopE] using h
  | succ n ih =>
    intro s s' h
    unfold loopE
    rw [← hcond s s' h]
    by_cases hc : cond s = true
    · simp only [hc, if_true]
      rcases hstep s s' h hc with ⟨t, t', h1, h2, h3⟩ | ⟨e, t, t', h1, h2, h3⟩
      · rw [h1, h2]; exact ih t t' h3
      · rw [h1, h2]; exact ⟨rfl, h3⟩
    · simp only [hc]; exact ⟨rfl, h⟩

theorem loopN_of_not_cond (cond : σ → Bool) (body : σ → σ) (fuel : Nat) (s : σ)
    (h : cond s = false) : loopN cond body fuel s = s := by
  cases fuel <;> simp [loopN, h]

theorem loopE_of_not_cond (cond : σ → Bool) (body : σ → Except (ε × σ) σ) (fuel : Nat) (s : σ)
    (h : cond s = false) : loopE cond body fuel s = (none, s) := by
  cases fuel <;> simp [loopE, h]

/-- iteration counter of `loopE` on a normal exit: at most `fuel` passes, and fewer only if the guard failed -/
theorem loopE_exit (cond : σ → Bool) (body : σ → Except (ε × σ) σ) (cnt : σ → Nat)
    (hcnt : ∀ s s', body s = .ok s' → cnt s' = cnt s + 1) :
    ∀ fuel s s', loopE cond body fuel s = (none, s') →
      cnt s' ≤ cnt s + fuel ∧ cnt s ≤ cnt s' ∧ (cnt s' = cnt s + fuel ∨ cond s' = false) := by
  intro fuel
  induction fuel with
  | zero => intro s s' he; simp [loopE] at he; subst he; simp
  | succ n ih =>
    intro s s' he
    unfold loopE at he
    by_cases hc : cond s = true
    · simp only [hc, if_true] at he
      cases hb : body s with
      | error es => obtain ⟨e, s1⟩ := es; rw [hb] at he; simp at he
      | ok s1 =>
        rw [hb] at he
        obtain ⟨h1, h2, h3⟩ := ih s1 s' he
        have := hcnt s s1 hb
        refine ⟨by omega, by omega, ?_⟩
        rcases h3 with h3 | h3
        · left; omega
        · right; exact h3
    · simp only [hc] at he; simp at he; subst he
      refine ⟨by omega, Nat.le_refl _, Or.inr ?_⟩
      simpa using hc

end loops

/-! ### history -/
section hist
variable {W C O : Type}

/-- **Generic reuse theorem**: if the observable result of a call does not depend on the work-vector state
the object is in, then every call of every history (including histories through calls that threw — their
post-exception state is just another `w`) returns what a fresh object `w0` returns for that call. -/
theorem history_eq_fresh_of_indep (step : W → C → O × W)
    (hindep : ∀ w w' c, (step w c).1 = (step w' c).1) (w0 : W) :
    ∀ (w : W) (cs : List C), history step w cs = cs.map (fun c => (step w0 c).1) := by
  intro w cs
  induction cs generalizing w with
  | nil => rfl
  | cons c cs ih => simp only [history, List.map_cons]; rw [ih, hindep w w0 c]

end hist

/-! ### vectors -/
section vec
variable {K : Type} [Field K] [DecidableEq K]

theorem axpby_size (a b : K) (x y : Vec K) : (axpby a x b y).size = x.size := by
  unfold axpby; split <;> simp

theorem axpbypcz_size (a b c : K) (x y z : Vec K) : (axpbypcz a x b y c z).size = x.size := by
  unfold axpbypcz; split <;> simp

theorem spmv_size' (α β : K) (A : CRS K) (x y : Vec K) : (spmv α A x β y).size = A.nrows := by
  unfold spmv; split <;> simp

theorem residual_size' (f : Vec K) (A : CRS K) (x : Vec K) : (residual f A x).size = A.nrows := by
  simp [residual]

theorem vcopy_size (x : Vec K) : (vcopy x).size = x.size := by simp [vcopy]

theorem vcopy_eq (x : Vec K) : vcopy x = x := by
  apply Vec.ext_getD (0 : K) (by simp [vcopy])
  intro i hi
  have hi' : i < x.size := by simpa [vcopy] using hi
  simp [vcopy, getD_ofFn_lt _ _ _ hi']

theorem getD_of_size_le (x : Vec K) (i : Nat) (h : x.size ≤ i) : x.getD i 0 = 0 := by
  simp [Array.getD, Nat.not_lt.mpr h]

theorem axpby_getD (a b : K) (x y : Vec K) (i : Nat) (hi : i < x.size) :
    (axpby a x b y).getD i 0 = a * x.getD i 0 + b * y.getD i 0 := by
  unfold axpby
  by_cases hb : b = 0
  · rw [if_pos hb, getD_ofFn_lt _ _ _ hi, hb]; ring
  · rw [if_neg hb, getD_ofFn_lt _ _ _ hi]

theorem axpbypcz_getD (a b c : K) (x y z : Vec K) (i : Nat) (hi : i < x.size) :
    (axpbypcz a x b y c z).getD i 0 = a * x.getD i 0 + b * y.getD i 0 + c * z.getD i 0 := by
  unfold axpbypcz
  by_cases hb : c = 0
  · rw [if_pos hb, getD_ofFn_lt _ _ _ hi, hb]; ring
  · rw [if_neg hb, getD_ofFn_lt _ _ _ hi]

theorem spmv_getD (α β : K) (A : CRS K) (x y : Vec K) (i : Nat) (hi : i < A.nrows) :
    (spmv α A x β y).getD i 0 = α * rowDot (A.row i) x + β * y.getD i 0 := by
  unfold spmv
  by_cases hb : β = 0
  · rw [if_pos hb, getD_ofFn_lt _ _ _ hi, hb]; ring
  · rw [if_neg hb, getD_ofFn_lt _ _ _ hi]

theorem residual_getD (f : Vec K) (A : CRS K) (x : Vec K) (i : Nat) (hi : i < A.nrows) :
    (residual f A x).getD i 0 = f.getD i 0 - rowDot (A.row i) x := by
  unfold residual; rw [getD_ofFn_lt _ _ _ hi]

theorem vclear_getD (n i : Nat) : (vclear n : Vec K).getD i 0 = 0 := by
  unfold vclear; rw [getD_ofFn]; split <;> rfl

/-- the columns of a stored row of a well-formed matrix are in range -/
theorem row_cols_lt (A : CRS K) (hA : A.WF) (i : Nat) : ∀ cv ∈ A.row i, cv.1 < A.ncols := by
  intro cv hcv
  by_cases hi : i < A.nrows
  · apply hA (A.row i) _ cv hcv
    unfold CRS.row CRS.nrows at *
    simp [Array.getD, hi]
  · unfold CRS.row CRS.nrows at *
    simp [Array.getD, hi] at hcv

/-- the row product is linear: if `y = a·u + b·w` on the columns of the row then
`row·y = a·(row·u) + b·(row·w)` -/
theorem rowDot_lin (r : Row K) (y u w : Vec K) (a b : K)
    (h : ∀ cv ∈ r, y.getD cv.1 0 = a * u.getD cv.1 0 + b * w.getD cv.1 0) :
    rowDot r y = a * rowDot r u + b * rowDot r w := by
  simp only [rowDot_eq_listSum]
  induction r with
  | nil => simp
  | cons cv t ih =>
    simp only [List.map_cons, List.sum_cons]
    rw [ih (fun c hc => h c (List.mem_cons_of_mem _ hc)), h cv List.mem_cons_self]
    ring

theorem rowDot_zero (r : Row K) (y : Vec K) (h : ∀ cv ∈ r, y.getD cv.1 0 = 0) : rowDot r y = 0 := by
  simp only [rowDot_eq_listSum]
  induction r with
  | nil => simp
  | cons cv t ih =>
    simp only [List.map_cons, List.sum_cons]
    rw [ih (fun c hc => h c (List.mem_cons_of_mem _ hc)), h cv List.mem_cons_self]
    ring

/-- **Paired update, entrywise** (the one generic lemma behind every truthfulness theorem):
for ANY coefficient `α` and ANY direction `d` (of full length), the true residual of `x + α d` is the old true
residual minus `α·(A d)`. -/
theorem paired_update_getD (f : Vec K) (A : CRS K) (hA : A.WF) (α : K) (d x q : Vec K)
    (hd : A.ncols ≤ d.size) (i : Nat) (hi : i < A.nrows) :
    (residual f A (axpby α d 1 x)).getD i 0
      = (residual f A x).getD i 0 - α * (spmv 1 A d 0 q).getD i 0 := by
  rw [residual_getD _ _ _ _ hi, residual_getD _ _ _ _ hi, spmv_getD _ _ _ _ _ _ hi]
  have hl : rowDot (A.row i) (axpby α d 1 x) = α * rowDot (A.row i) d + 1 * rowDot (A.row i) x := by
    apply rowDot_lin
    intro cv hcv
    exact axpby_getD _ _ _ _ _ (lt_of_lt_of_le (row_cols_lt A hA i cv hcv) hd)
  rw [hl]; ring

/-- **Paired update, `axpby` form** (CG: `axpby(alpha, p, 1, x); axpby(-alpha, q, 1, r)` with `q = A p`) -/
theorem paired_update_inv (f : Vec K) (A : CRS K) (hA : A.WF) (α : K) (d x q : Vec K)
    (hd : A.ncols ≤ d.size) :
    axpby (-α) (spmv 1 A d 0 q) 1 (residual f A x) = residual f A (axpby α d 1 x) := by
  apply Vec.ext_getD (0 : K)
  · rw [axpby_size, spmv_size', residual_size']
  · intro i hi
    rw [axpby_size, spmv_size'] at hi
    rw [paired_update_getD f A hA α d x q hd i hi, axpby_getD _ _ _ _ _ (by rw [spmv_size']; exact hi)]
    ring

/-- **Paired update, `axpbypcz` form** (BiCGStab: `axpby(alpha, d, 1, x); axpbypcz(1, r, -alpha, v, 0, s)`
with `v = A d`) -/
theorem paired_update_inv' (f : Vec K) (A : CRS K) (hA : A.WF) (α : K) (d x q z : Vec K)
    (hd : A.ncols ≤ d.size) :
    axpbypcz 1 (residual f A x) (-α) (spmv 1 A d 0 q) 0 z = residual f A (axpby α d 1 x) := by
  apply Vec.ext_getD (0 : K)
  · rw [axpbypcz_size, residual_size', residual_size']
  · intro i hi
    rw [axpbypcz_size, residual_size'] at hi
    rw [paired_update_getD f A hA α d x q hd i hi,
      axpbypcz_getD _ _ _ _ _ _ _ (by rw [residual_size']; exact hi)]
    ring

/-- the true residual of the zero vector is the right-hand side -/
theorem residual_vclear (f : Vec K) (A : CRS K) (m : Nat) (hf : f.size = A.nrows) :
    residual f A (vclear m) = f := by
  apply Vec.ext_getD (0 : K)
  · rw [residual_size', hf]
  · intro i hi
    rw [residual_size'] at hi
    rw [residual_getD _ _ _ _ hi, rowDot_zero _ _ (fun cv _ => vclear_getD m cv.1)]
    ring

/-- `r − 1·r` is the zero vector -/
theorem axpby_cancel (r : Vec K) : axpby (-1) r 1 r = vclear r.size := by
  apply Vec.ext_getD (0 : K)
  · rw [axpby_size]; simp [vclear]
  · intro i hi
    rw [axpby_size] at hi
    rw [axpby_getD _ _ _ _ _ hi, vclear_getD]; ring

theorem axpbypcz_cancel (r z : Vec K) : axpbypcz 1 r (-1) r 0 z = vclear r.size := by
  apply Vec.ext_getD (0 : K)
  · rw [axpbypcz_size]; simp [vclear]
  · intro i hi
    rw [axpbypcz_size] at hi
    rw [axpbypcz_getD _ _ _ _ _ _ _ hi, vclear_getD]; ring

/-- linearity of a preconditioner on vectors of length `n`, in the form the solvers use it:
`P(u + a·w) = P u + a·P w` (written with the backend primitive `axpbypcz(1, u, a, w, 0, ·)`) -/
def PLin (n : Nat) (P : Vec K → Vec K) : Prop :=
  ∀ (a : K) (u w z z' : Vec K), u.size = n → w.size = n →
    P (axpbypcz 1 u a w 0 z) = axpbypcz 1 (P u) a (P w) 0 z'

/-- every explicit matrix preconditioner `r ↦ M·r` (`backend::spmv(1, M, rhs, 0, x)`) is linear -/
theorem PLin_spmv (M : CRS K) (hM : M.WF) (y0 : Vec K) :
    PLin M.ncols (fun v => spmv 1 M v 0 y0) := by
  intro a u w z z' hu hw
  apply Vec.ext_getD (0 : K)
  · rw [spmv_size', axpbypcz_size, spmv_size']
  · intro i hi
    rw [spmv_size'] at hi
    rw [spmv_getD _ _ _ _ _ _ hi, axpbypcz_getD _ _ _ _ _ _ _ (by rw [spmv_size']; exact hi),
      spmv_getD _ _ _ _ _ _ hi, spmv_getD _ _ _ _ _ _ hi]
    have hl : rowDot (M.row i) (axpbypcz 1 u a w 0 z) = 1 * rowDot (M.row i) u + a * rowDot (M.row i) w := by
      apply rowDot_lin
      intro cv hcv
      have : cv.1 < u.size := by rw [hu]; exact row_cols_lt M hM i cv hcv
      rw [axpbypcz_getD _ _ _ _ _ _ _ this]; ring
    rw [hl]; ring

/-- the identity preconditioner (`preconditioner::dummy`: `backend::copy`) is linear -/
theorem PLin_copy (n : Nat) : PLin n (fun v : Vec K => vcopy v) := by
  intro a u w z z' _ _
  simp only [vcopy_eq]
  unfold axpbypcz; simp

end vec

/-! ### prologue -/
section prologue
variable {K : Type} [Field K] [DecidableEq K] [LT K] [DecidableLT K]

/-- **the reported number, in the exact form the code computes it**: on the early return (`‖f‖ < eps(1)`, no
`ns_search`) the solvers return `norm_rhs = ‖f‖` itself — which is the ABSOLUTE residual of the returned `x = 0`;
otherwise they return `absRes / norm_rhs` where `absRes` is the norm of the (preconditioned) residual vector and
`norm_rhs` is `‖f‖`, or `1` when `ns_search` replaced a tiny `‖f‖`. -/
def reported (pl : Prologue K) (absRes : K) : K :=
  match pl with
  | .trivial n => n
  | .go nf => absRes / nf

theorem absK_zero : absK (0 : K) = 0 := by
  unfold absK; split <;> simp

theorem prologue_trivial (ns : Bool) (ip : Vec K → Vec K → K) (sqrt : K → K) (eps : K) (f : Vec K) (n : K) :
    prologue ns ip sqrt eps f = .trivial n ↔ (nrm ip sqrt f < eps ∧ ns = false ∧ n = nrm ip sqrt f) := by
  unfold prologue
  by_cases h1 : nrm ip sqrt f < eps <;> cases ns <;> simp [h1, eq_comm]

theorem prologue_go (ns : Bool) (ip : Vec K → Vec K → K) (sqrt : K → K) (eps : K) (f : Vec K) (n : K) :
    prologue ns ip sqrt eps f = .go n ↔
      ((nrm ip sqrt f < eps ∧ ns = true ∧ n = 1) ∨ (¬ nrm ip sqrt f < eps ∧ n = nrm ip sqrt f)) := by
  unfold prologue
  by_cases h1 : nrm ip sqrt f < eps <;> cases ns <;> simp [h1, eq_comm]

end prologue

section ordered
variable {K : Type} [Field K] [LinearOrder K] [IsStrictOrderedRing K]

/-- when the call does not return early, the `norm_rhs` it divides by is positive (given `eps(1) > 0`) -/
theorem prologue_go_pos (ns : Bool) (ip : Vec K → Vec K → K) (sqrt : K → K) (eps : K) (heps : 0 < eps)
    (f : Vec K) (n : K) (h : prologue ns ip sqrt eps f = .go n) : 0 < n := by
  rcases (prologue_go ns ip sqrt eps f n).mp h with ⟨_, _, rfl⟩ | ⟨h1, rfl⟩
  · exact one_pos
  · exact lt_of_lt_of_le heps (not_lt.mp h1)

/-- a reported value `a / norm_rhs` below `tol` means `a < tol · norm_rhs` -/
theorem below_tol_of_div (a nf tol : K) (hnf : 0 < nf) (h : a / nf < tol) : a < tol * nf :=
  (div_lt_iff₀ hnf).mp h

end ordered

end Amgcl.Solver
