import Amgcl.Proofs.DistMisc
import Amgcl.Proofs.KernelsGershgorin
/-!
`spectral_radius<scale>(distributed_matrix, 0)`: the maximum over the ranks of the rank-local maxima is the
serial Gershgorin value.
-/
namespace Amgcl.Dist
open Amgcl Amgcl.K2

section
variable {K : Type} [Field K] [LinearOrder K] [IsStrictOrderedRing K]

theorem foldl_abs (r : Row K) (s0 : K) : r.foldl (fun s cv => s + absK cv.2) s0 = s0 + absRowSum r := by
  induction r generalizing s0 with
  | nil => simp [absRowSum_nil]
  | cons cv t ih => rw [List.foldl_cons, ih, absRowSum_cons, absK_eq_abs, add_assoc]

/-- the value the rank-local loop computes for local row `i` -/
def localRowVal (scaled : Bool) (D : DistMat K) (i : Nat) : K :=
  if scaled then (absRowSum (D.loc.row i) + absRowSum (D.rem.row i)) * |(lastDiag i (D.loc.row i) 1)⁻¹|
  else absRowSum (D.loc.row i) + absRowSum (D.rem.row i)

theorem gershLocal_fold (scaled : Bool) (D : DistMat K) (l : List Nat) (m0 d0 : K)
    (hdiag : scaled = true → ∀ i ∈ l, i ∈ (D.loc.row i).map (·.1)) :
    (l.foldl (fun (acc : K × K) i =>
      let sd := (D.loc.row i).foldl (fun (sd : K × K) cv =>
          (sd.1 + absK cv.2, if (scaled && decide (cv.1 = i)) = true then cv.2 else sd.2)) ((0 : K), acc.2)
      let s1 := (D.rem.row i).foldl (fun s cv => s + absK cv.2) sd.1
      let s := if scaled = true then s1 * absK sd.2⁻¹ else s1
      (maxK acc.1 s, sd.2)) (m0, d0)).1 = maxOver (localRowVal scaled D) l m0 := by
  induction l generalizing m0 d0 with
  | nil => rfl
  | cons i l ih =>
    rw [List.foldl_cons, maxOver_cons]
    dsimp only
    rw [gershgorin_inner scaled i (D.loc.row i) 0 d0, foldl_abs, zero_add, maxK_eq_max, absK_eq_abs]
    have hval : (if scaled = true then (absRowSum (D.loc.row i) + absRowSum (D.rem.row i)) *
          |(if scaled = true then lastDiag i (D.loc.row i) d0 else d0)⁻¹|
        else absRowSum (D.loc.row i) + absRowSum (D.rem.row i)) = localRowVal scaled D i := by
      unfold localRowVal
      cases scaled
      · simp
      · simp only [if_true]
        rw [lastDiag_of_mem i (D.loc.row i) d0 1 (hdiag rfl i List.mem_cons_self)]
    rw [hval]
    exact ih _ _ (fun hs j hj => hdiag hs j (List.mem_cons_of_mem _ hj))

theorem gershLocal_eq (scaled : Bool) (D : DistMat K)
    (hdiag : scaled = true → ∀ i, i < D.loc.nrows → i ∈ (D.loc.row i).map (·.1)) :
    gershLocal scaled D = maxOver (localRowVal scaled D) (List.range D.loc.nrows) 0 := by
  unfold gershLocal
  exact gershLocal_fold scaled D _ 0 1 (fun hs i hi => hdiag hs i (List.mem_range.1 hi))

/-! ### maxima over chunks -/

omit [Field K] [IsStrictOrderedRing K] in
theorem maxOver_max (f : Nat → K) (l : List Nat) (a b : K) : maxOver f l (max a b) = max a (maxOver f l b) := by
  induction l generalizing b with
  | nil => rfl
  | cons i l ih => rw [maxOver_cons, maxOver_cons, max_assoc, ih]

omit [Field K] [IsStrictOrderedRing K] in
theorem maxOver_append (f : Nat → K) (l1 l2 : List Nat) (m0 : K) :
    maxOver f (l1 ++ l2) m0 = maxOver f l2 (maxOver f l1 m0) := by
  unfold maxOver; rw [List.foldl_append]

omit [Field K] [IsStrictOrderedRing K] in
theorem maxOver_map (f : Nat → K) (g : Nat → Nat) (l : List Nat) (m0 : K) :
    maxOver f (l.map g) m0 = maxOver (fun i => f (g i)) l m0 := by
  unfold maxOver; rw [List.foldl_map]

omit [Field K] [IsStrictOrderedRing K] in
theorem maxOver_congr (f g : Nat → K) (l : List Nat) (m0 : K) (h : ∀ i ∈ l, f i = g i) :
    maxOver f l m0 = maxOver g l m0 := by
  induction l generalizing m0 with
  | nil => rfl
  | cons i l ih =>
    rw [maxOver_cons, maxOver_cons, h i List.mem_cons_self]
    exact ih _ (fun j hj => h j (List.mem_cons_of_mem _ hj))

omit [IsStrictOrderedRing K] in
/-- folding the per-rank maxima (each started from `0`) gives the maximum over all rows -/
theorem max_chunks (F : Nat → K) (part : List Nat) : ∀ k, k ≤ part.length →
    ((List.range k).map (fun r => maxOver (fun i => F (dom part r + i)) (List.range (part.getD r 0)) 0)).foldl max 0
      = maxOver F (List.range (dom part k)) 0 := by
  intro k
  induction k with
  | zero => intro _; simp [dom_zero, maxOver]
  | succ k ih =>
    intro hk
    rw [List.range_succ, List.map_append, List.foldl_append, ih (Nat.le_of_succ_le hk)]
    simp only [List.map_cons, List.map_nil, List.foldl_cons, List.foldl_nil]
    rw [dom_succ part k hk, List.range_add, maxOver_append, maxOver_map]
    have h0 : maxOver F (List.range (dom part k)) 0 = max (maxOver F (List.range (dom part k)) 0) 0 :=
      (max_eq_left (le_maxOver _ _ _)).symm
    conv_rhs => rw [h0, maxOver_max]

omit [IsStrictOrderedRing K] in
theorem allreduceMax_eq (locals : List K) (h : ∀ a ∈ locals, 0 ≤ a) : allreduceMax locals = locals.foldl max 0 := by
  unfold allreduceMax
  cases locals with
  | nil => rfl
  | cons a t =>
    simp only [List.foldl_cons]
    rw [max_eq_right (h a List.mem_cons_self)]
    congr 1
    funext x y
    exact maxK_eq_max x y

/-! ### the parts of a row -/

omit [IsStrictOrderedRing K] in
theorem absRowSum_parts (cb ce : Nat) (row : Row K) :
    absRowSum (locPart cb ce row) + absRowSum (remPart cb ce row) = absRowSum row := by
  unfold absRowSum locPart remPart
  rw [List.map_map]
  exact sum_filter_split (fun cv => inRange cb ce cv.1) (fun cv => |cv.2|) row

omit [Field K] [LinearOrder K] [IsStrictOrderedRing K] in
theorem lastDiag_locPart (cb ce i : Nat) (hi : cb + i < ce) (row : Row K) (d0 : K) :
    lastDiag i (locPart cb ce row) d0 = lastDiag (cb + i) row d0 := by
  induction row generalizing d0 with
  | nil => rfl
  | cons cv t ih =>
    unfold locPart at ih ⊢
    rw [lastDiag_cons]
    by_cases hin : inRange cb ce cv.1 = true
    · simp only [List.filter_cons, hin, if_true, List.map_cons]
      rw [lastDiag_cons]
      have h2 : cb ≤ cv.1 := by unfold inRange at hin; simp at hin; exact hin.1
      have : (cv.1 - cb = i) ↔ (cv.1 = cb + i) := by omega
      simp only [this]
      exact ih _
    · have hin' : inRange cb ce cv.1 = false := by simpa using hin
      simp only [List.filter_cons, hin', Bool.false_eq_true, if_false]
      have : ¬ cv.1 = cb + i := by
        intro e; apply hin; unfold inRange; simp; omega
      rw [if_neg this]
      exact ih _

omit [Field K] [LinearOrder K] [IsStrictOrderedRing K] in
theorem mem_locPart_cols (cb ce i : Nat) (hi : cb + i < ce) (row : Row K) (h : cb + i ∈ row.map (·.1)) :
    i ∈ (locPart cb ce row).map (·.1) := by
  obtain ⟨cv, hcv, he⟩ := List.mem_map.1 h
  unfold locPart
  rw [List.map_map]
  refine List.mem_map.2 ⟨cv, List.mem_filter.2 ⟨hcv, ?_⟩, ?_⟩
  · unfold inRange; simp; omega
  · simp only [Function.comp]; omega

/-- **the distributed Gershgorin estimate (local maxima + `MPI_MAX`) equals the serial one** -/
theorem dist_gershgorin_eq (scaled : Bool) (A : CRS K) (p : List Nat) (hrows : p.sum = A.nrows)
    (hdiag : scaled = true → ∀ i, i < A.nrows → i ∈ (A.row i).map (·.1)) :
    distGershgorin scaled (split A p p) = gershgorin scaled A := by
  -- the global row function
  let F : Nat → K := fun g => if scaled then absRowSum (A.row g) * |(lastDiag g (A.row g) 1)⁻¹| else absRowSum (A.row g)
  have hw : ∀ r, r < p.length → dom p (r + 1) - dom p r = p.getD r 0 := fun r hr => by rw [dom_succ p r hr]; omega
  have hloc : ∀ r, r < p.length →
      gershLocal scaled (splitRank A p p r) = maxOver (fun i => F (dom p r + i)) (List.range (p.getD r 0)) 0 := by
    intro r hr
    have hn := (splitRank_nrows A p p r).1
    have hlt : ∀ i, i < p.getD r 0 → dom p r + i < dom p (r + 1) := fun i hi => by rw [dom_succ p r hr]; omega
    have hA : ∀ i, i < p.getD r 0 → dom p r + i < A.nrows := fun i hi => by
      have := hlt i hi; have := dom_le_sum p (show r + 1 ≤ p.length from hr); omega
    rw [gershLocal_eq scaled _ (fun hs i hi => by
      rw [hn, hw r hr] at hi
      rw [splitRank_loc_row A p p r i (by rw [hw r hr]; exact hi)]
      exact mem_locPart_cols _ _ i (hlt i hi) _ (hdiag hs _ (hA i hi))), hn, hw r hr]
    apply maxOver_congr
    intro i hi
    have hi' := List.mem_range.1 hi
    unfold localRowVal
    rw [splitRank_loc_row A p p r i (by rw [hw r hr]; exact hi'), splitRank_rem_row A p p r i (by rw [hw r hr]; exact hi'),
      absRowSum_parts, lastDiag_locPart _ _ i (hlt i hi')]
  have hlocals : (split A p p).map (gershLocal scaled)
      = (List.range p.length).map (fun r => maxOver (fun i => F (dom p r + i)) (List.range (p.getD r 0)) 0) := by
    unfold split
    rw [List.map_map]
    apply List.map_congr_left
    intro r hr
    exact hloc r (List.mem_range.1 hr)
  have hserial : gershgorin scaled A = maxOver F (List.range A.nrows) 0 := by
    cases hs : scaled
    · rw [gershgorin_unscaled_eq]
      show maxOver (fun i => absRowSum (A.row i)) _ 0 = _
      apply maxOver_congr
      intro i _
      show _ = F i
      simp [F, hs]
    · rw [gershgorin_scaled_eq A (hdiag hs)]
      apply maxOver_congr
      intro i _
      show _ = F i
      simp [F, hs]
  unfold distGershgorin
  simp only
  rw [hlocals, allreduceMax_eq _ (by
    intro a ha
    obtain ⟨r, _, rfl⟩ := List.mem_map.1 ha
    exact le_maxOver _ _ _), max_chunks F p p.length (Nat.le_refl _), dom_length, hrows,
    if_neg (not_lt.2 (le_maxOver _ _ _)), hserial]

end
end Amgcl.Dist
