import Amgcl.Model.CApiTable
/-!
# C20 — a REFERENCE entry-point table (hand-kept copy)

The table `tools/capi_extract.py` extracted from lib/amgcl.cpp + lib/amgcl.h of the repository as found when the
translator was written.  It is NOT what the check decides the property on (that is the table regenerated on every
run, `Amgcl/Generated/CApiTableData.lean`); it only serves the non-vacuity examples of `Properties/C20b.lean`, which
must keep building when the regenerated table is inconsistent.
-/
namespace Amgcl.CApi

def refTable : Table where
  classes := [(.params, "boost::property_tree::ptree"), (.precond, "amgcl::amg<amgcl::backend::builtin<double>,amgcl::runtime::coarsening::wrapper,amgcl::runtime::relaxation::wrapper>"), (.solver, "amgcl::make_solver<amgcl::amg<amgcl::backend::builtin<double>,amgcl::runtime::coarsening::wrapper,amgcl::runtime::relaxation::wrapper>,amgcl::runtime::solver::wrapper<amgcl::backend::builtin<double>>>")]
  convInfo := [("iterations", .int), ("residual", .double)]
  entries := [
    { name := "amgcl_params_create", family := .params, verb := "create", fortran := false, line := 34,
      ret := .handle,
      params := [],
      declared := some (.handle, []),
      body := .paramsNew },
    { name := "amgcl_params_seti", family := .params, verb := "seti", fortran := false, line := 39,
      ret := .void,
      params := [⟨"prm", .handle⟩, ⟨"name", .cstr⟩, ⟨"value", .int⟩],
      declared := some (.void, [.handle, .cstr, .int]),
      body := .put 0 1 2 },
    { name := "amgcl_params_setf", family := .params, verb := "setf", fortran := false, line := 44,
      ret := .void,
      params := [⟨"prm", .handle⟩, ⟨"name", .cstr⟩, ⟨"value", .float⟩],
      declared := some (.void, [.handle, .cstr, .float]),
      body := .put 0 1 2 },
    { name := "amgcl_params_sets", family := .params, verb := "sets", fortran := false, line := 49,
      ret := .void,
      params := [⟨"prm", .handle⟩, ⟨"name", .cstr⟩, ⟨"value", .cstr⟩],
      declared := some (.void, [.handle, .cstr, .cstr]),
      body := .put 0 1 2 },
    { name := "amgcl_params_read_json", family := .params, verb := "read_json", fortran := false, line := 54,
      ret := .void,
      params := [⟨"prm", .handle⟩, ⟨"fname", .cstr⟩],
      declared := some (.void, [.handle, .cstr]),
      body := .readJson 0 1 },
    { name := "amgcl_params_destroy", family := .params, verb := "destroy", fortran := false, line := 59,
      ret := .void,
      params := [⟨"prm", .handle⟩],
      declared := some (.void, [.handle]),
      body := .destroy .params 0 },
    { name := "amgcl_precond_create", family := .precond, verb := "create", fortran := false, line := 64,
      ret := .handle,
      params := [⟨"n", .int⟩, ⟨"ptr", .cintp⟩, ⟨"col", .cintp⟩, ⟨"val", .cdoublep⟩, ⟨"prm", .handle⟩],
      declared := some (.handle, [.int, .cintp, .cintp, .cdoublep, .handle]),
      body := .create .precond
        { n := (.param 0),
          ptr := ⟨⟨1, 0, (.const 0)⟩, ⟨1, 0, (.size (.param 0) 1)⟩⟩,
          col := ⟨⟨2, 0, (.const 0)⟩, ⟨2, 0, (.rawAt 1 (.param 0) 0)⟩⟩,
          val := ⟨⟨3, 0, (.const 0)⟩, ⟨3, 0, (.rawAt 1 (.param 0) 0)⟩⟩ }
        (some (4, .params)) true },
    { name := "amgcl_precond_create_f", family := .precond, verb := "create", fortran := true, line := 85,
      ret := .handle,
      params := [⟨"n", .int⟩, ⟨"ptr", .cintp⟩, ⟨"col", .cintp⟩, ⟨"val", .cdoublep⟩, ⟨"prm", .handle⟩],
      declared := some (.handle, [.int, .cintp, .cintp, .cdoublep, .handle]),
      body := .create .precond
        { n := (.param 0),
          ptr := ⟨⟨1, 1, (.const 0)⟩, ⟨1, 1, (.size (.param 0) 1)⟩⟩,
          col := ⟨⟨2, 1, (.const 0)⟩, ⟨2, 1, (.rawAt 1 (.param 0) 0)⟩⟩,
          val := ⟨⟨3, 0, (.const 0)⟩, ⟨3, 0, (.rawAt 1 (.param 0) 0)⟩⟩ }
        (some (4, .params)) true },
    { name := "amgcl_precond_apply", family := .precond, verb := "apply", fortran := false, line := 109,
      ret := .void,
      params := [⟨"handle", .handle⟩, ⟨"rhs", .cdoublep⟩, ⟨"x", .doublep⟩],
      declared := some (.void, [.handle, .cdoublep, .doublep]),
      body := .apply .precond 0
        ⟨⟨1, 0, (.const 0)⟩, ⟨1, 0, (.size (.objRows .precond 0) 0)⟩⟩
        ⟨⟨2, 0, (.const 0)⟩, ⟨2, 0, (.size (.objRows .precond 0) 0)⟩⟩ },
    { name := "amgcl_precond_report", family := .precond, verb := "report", fortran := false, line := 122,
      ret := .void,
      params := [⟨"handle", .handle⟩],
      declared := some (.void, [.handle]),
      body := .report .precond 0 "self" true },
    { name := "amgcl_precond_destroy", family := .precond, verb := "destroy", fortran := false, line := 127,
      ret := .void,
      params := [⟨"handle", .handle⟩],
      declared := some (.void, [.handle]),
      body := .destroy .precond 0 },
    { name := "amgcl_solver_create", family := .solver, verb := "create", fortran := false, line := 132,
      ret := .handle,
      params := [⟨"n", .int⟩, ⟨"ptr", .cintp⟩, ⟨"col", .cintp⟩, ⟨"val", .cdoublep⟩, ⟨"prm", .handle⟩],
      declared := some (.handle, [.int, .cintp, .cintp, .cdoublep, .handle]),
      body := .create .solver
        { n := (.param 0),
          ptr := ⟨⟨1, 0, (.const 0)⟩, ⟨1, 0, (.size (.param 0) 1)⟩⟩,
          col := ⟨⟨2, 0, (.const 0)⟩, ⟨2, 0, (.rawAt 1 (.param 0) 0)⟩⟩,
          val := ⟨⟨3, 0, (.const 0)⟩, ⟨3, 0, (.rawAt 1 (.param 0) 0)⟩⟩ }
        (some (4, .params)) true },
    { name := "amgcl_solver_create_f", family := .solver, verb := "create", fortran := true, line := 153,
      ret := .handle,
      params := [⟨"n", .int⟩, ⟨"ptr", .cintp⟩, ⟨"col", .cintp⟩, ⟨"val", .cdoublep⟩, ⟨"prm", .handle⟩],
      declared := some (.handle, [.int, .cintp, .cintp, .cdoublep, .handle]),
      body := .create .solver
        { n := (.param 0),
          ptr := ⟨⟨1, 1, (.const 0)⟩, ⟨1, 1, (.size (.param 0) 1)⟩⟩,
          col := ⟨⟨2, 1, (.const 0)⟩, ⟨2, 1, (.rawAt 1 (.param 0) 0)⟩⟩,
          val := ⟨⟨3, 0, (.const 0)⟩, ⟨3, 0, (.rawAt 1 (.param 0) 0)⟩⟩ }
        (some (4, .params)) true },
    { name := "amgcl_solver_report", family := .solver, verb := "report", fortran := false, line := 177,
      ret := .void,
      params := [⟨"handle", .handle⟩],
      declared := some (.void, [.handle]),
      body := .report .solver 0 "precond()" true },
    { name := "amgcl_solver_destroy", family := .solver, verb := "destroy", fortran := false, line := 182,
      ret := .void,
      params := [⟨"handle", .handle⟩],
      declared := some (.void, [.handle]),
      body := .destroy .solver 0 },
    { name := "amgcl_solver_solve", family := .solver, verb := "solve", fortran := false, line := 187,
      ret := .convInfo,
      params := [⟨"handle", .handle⟩, ⟨"rhs", .cdoublep⟩, ⟨"x", .doublep⟩],
      declared := some (.convInfo, [.handle, .cdoublep, .doublep]),
      body := .solve .solver 0
        none
        ⟨⟨1, 0, (.const 0)⟩, ⟨1, 0, (.size (.objSize .solver 0) 0)⟩⟩
        ⟨⟨2, 0, (.const 0)⟩, ⟨2, 0, (.size (.objSize .solver 0) 0)⟩⟩
        (.tieReturn ["iterations", "residual"]) },
    { name := "amgcl_solver_solve_f", family := .solver, verb := "solve", fortran := true, line := 209,
      ret := .void,
      params := [⟨"handle", .handle⟩, ⟨"rhs", .cdoublep⟩, ⟨"x", .doublep⟩, ⟨"cnv", .convInfoP⟩],
      declared := some (.void, [.handle, .cdoublep, .doublep, .convInfoP]),
      body := .forward "amgcl_solver_solve" [0, 1, 2] (.assignOut 3) },
    { name := "amgcl_solver_solve_mtx", family := .solver, verb := "solve_mtx", fortran := false, line := 220,
      ret := .convInfo,
      params := [⟨"handle", .handle⟩, ⟨"A_ptr", .cintp⟩, ⟨"A_col", .cintp⟩, ⟨"A_val", .cdoublep⟩, ⟨"rhs", .cdoublep⟩, ⟨"x", .doublep⟩],
      declared := some (.convInfo, [.handle, .cintp, .cintp, .cdoublep, .cdoublep, .doublep]),
      body := .solve .solver 0
        (some
        { n := (.objSize .solver 0),
          ptr := ⟨⟨1, 0, (.const 0)⟩, ⟨1, 0, (.size (.objSize .solver 0) 1)⟩⟩,
          col := ⟨⟨2, 0, (.const 0)⟩, ⟨2, 0, (.rawAt 1 (.objSize .solver 0) 0)⟩⟩,
          val := ⟨⟨3, 0, (.const 0)⟩, ⟨3, 0, (.rawAt 1 (.objSize .solver 0) 0)⟩⟩ })
        ⟨⟨4, 0, (.const 0)⟩, ⟨4, 0, (.size (.objSize .solver 0) 0)⟩⟩
        ⟨⟨5, 0, (.const 0)⟩, ⟨5, 0, (.size (.objSize .solver 0) 0)⟩⟩
        (.tieReturn ["iterations", "residual"]) },
    { name := "amgcl_solver_solve_mtx_f", family := .solver, verb := "solve_mtx", fortran := true, line := 251,
      ret := .void,
      params := [⟨"handle", .handle⟩, ⟨"A_ptr", .cintp⟩, ⟨"A_col", .cintp⟩, ⟨"A_val", .cdoublep⟩, ⟨"rhs", .cdoublep⟩, ⟨"x", .doublep⟩, ⟨"cnv", .convInfoP⟩],
      declared := some (.void, [.handle, .cintp, .cintp, .cdoublep, .cdoublep, .doublep, .convInfoP]),
      body := .solve .solver 0
        (some
        { n := (.objSize .solver 0),
          ptr := ⟨⟨1, 1, (.const 0)⟩, ⟨1, 1, (.size (.objSize .solver 0) 1)⟩⟩,
          col := ⟨⟨2, 1, (.const 0)⟩, ⟨2, 1, (.rawAt 1 (.objSize .solver 0) 0)⟩⟩,
          val := ⟨⟨3, 0, (.const 0)⟩, ⟨3, 0, (.rawAt 1 (.objSize .solver 0) 0)⟩⟩ })
        ⟨⟨4, 0, (.const 0)⟩, ⟨4, 0, (.size (.objSize .solver 0) 0)⟩⟩
        ⟨⟨5, 0, (.const 0)⟩, ⟨5, 0, (.size (.objSize .solver 0) 0)⟩⟩
        (.tieOut 6 ["iterations", "residual"]) }]


theorem refTable_consistent : refTable.Consistent := by decide +kernel

end Amgcl.CApi
