import Mathlib.Algebra.BigOperators.Group.Finset.Basic
import Mathlib.Algebra.BigOperators.Intervals
import Mathlib.Algebra.BigOperators.Ring.Finset
import Mathlib.Algebra.Ring.Defs
import Mathlib.Tactic.Abel
/-!
Algebra of Crout's factorisation on index functions over a NON-COMMUTATIVE ring (no arrays).  `E` is the matrix being
factorised, `ld i j` (`j < i`) the strictly lower part of `L`, `ud i j` (`i < j`) the strictly upper part of the unit
upper `U`, `dd i` the stored **inverted** pivots, `pv i` the pivots themselves.  `croutRed pv ld ud i j` is the `(i,j)`
entry of `L̃·Ũ` (lower factor on the LEFT).  The update formulas are those of skyline_lu.hpp:257-306 with every product
on the side the code writes it: `U(i,c) = D[i] * (U(i,c) − Σ L(i,j)*U(j,c))`, `L(c,j) = L(c,j) − Σ L(c,m)*U(m,j)`,
pivot `= D[c] − Σ L(c,m)*U(m,c)`.  The only fact used about the stored inverse is `pv i * dd i = 1`
(`dd i` is a RIGHT inverse of the pivot); in particular no `mul_comm`.
-/
namespace Amgcl
open Finset
namespace SkyNC
variable {K : Type} [Ring K]

/-- entry `(i,j)` of the product of the lower factor (pivots `pv` on the diagonal) and the unit upper factor -/
def croutRed (pv : Nat → K) (ld ud : Nat → Nat → K) (i j : Nat) : K :=
  ∑ m ∈ range (min i j), ld i m * ud m j + (if i < j then pv i * ud i j else if i = j then pv i else ld i j)

/-- the invariant of the main loop: indices `< c` are final, everything else is still raw -/
structure CroutInv (n c : Nat) (E ld ud : Nat → Nat → K) (dd pv : Nat → K) : Prop where
  done : ∀ i j, i < c → j < c → E i j = croutRed pv ld ud i j
  rawL : ∀ i j, i < n → j < i → c ≤ i → ld i j = E i j
  rawU : ∀ i j, j < n → i < j → c ≤ j → ud i j = E i j
  rawD : ∀ i, i < n → c ≤ i → dd i = E i i
  piv : ∀ i, i < c → pv i * dd i = 1

theorem croutInv_init (n : Nat) (E ld ud : Nat → Nat → K) (dd pv : Nat → K)
    (hL : ∀ i j, i < n → j < i → ld i j = E i j) (hU : ∀ i j, j < n → i < j → ud i j = E i j)
    (hD : ∀ i, i < n → 1 ≤ i → dd i = E i i) (hpv0 : pv 0 = E 0 0) (h0 : pv 0 * dd 0 = 1) :
    CroutInv n 1 E ld ud dd pv := by
  refine ⟨?_, fun i j hi h _ => hL i j hi h, fun i j hj h _ => hU i j hj h, hD, ?_⟩
  · intro i j hi hj
    have : i = 0 := by omega
    have : j = 0 := by omega
    subst_vars
    unfold croutRed
    simp only [Nat.min_self, range_zero, sum_empty, zero_add, lt_irrefl, if_false, if_true]
    exact hpv0.symm
  · intro i hi
    have : i = 0 := by omega
    subst this
    exact h0

/-- one iteration of Crout's loop -/
theorem croutInv_step {n c : Nat} {E ld ud ld' ud' : Nat → Nat → K} {dd dd' pv pv' : Nat → K} (hc : c < n)
    (h : CroutInv n c E ld ud dd pv)
    (hU : ∀ i, i < c → ud' i c = dd i * (ud i c - ∑ j ∈ range i, ld i j * ud' j c))
    (hL : ∀ j, j < c → ld' c j = ld c j - ∑ m ∈ range j, ld' c m * ud' m j)
    (hpv : pv' c = dd c - ∑ m ∈ range c, ld' c m * ud' m c)
    (hinv : pv' c * dd' c = 1)
    (fU : ∀ i j, j < n → j ≠ c → ud' i j = ud i j) (fL : ∀ i j, i < n → i ≠ c → ld' i j = ld i j)
    (fD : ∀ i, i ≠ c → dd' i = dd i) (fP : ∀ i, i ≠ c → pv' i = pv i) :
    CroutInv n (c + 1) E ld' ud' dd' pv' := by
  refine ⟨?_, ?_, ?_, ?_, ?_⟩
  · intro i j hi hj
    unfold croutRed
    by_cases hic : i = c
    · subst hic
      by_cases hjc : j = i
      · subst hjc
        -- diagonal entry
        simp only [Nat.min_self, lt_irrefl, if_false, if_true]
        rw [hpv, ← h.rawD j hc (le_refl j)]
        abel
      · have hjlt : j < i := by omega
        have e : min i j = j := by omega
        rw [e, if_neg (by omega), if_neg (by omega), hL j hjlt, ← h.rawL i j hc hjlt (le_refl i)]
        abel
    · have hilt : i < c := by omega
      by_cases hjc : j = c
      · subst hjc
        have e : min i j = i := by omega
        rw [e, if_pos hilt, fP i hic, hU i hilt, ← h.rawU i j hc hilt (le_refl j)]
        have hs : ∑ m ∈ range i, ld' i m * ud' m j = ∑ m ∈ range i, ld i m * ud' m j := by
          apply sum_congr rfl; intro m _; rw [fL i m (by omega) hic]
        rw [hs, ← mul_assoc, h.piv i hilt, one_mul]
        abel
      · have hjlt : j < c := by omega
        rw [h.done i j hilt hjlt]
        unfold croutRed
        have hs : ∑ m ∈ range (min i j), ld' i m * ud' m j = ∑ m ∈ range (min i j), ld i m * ud m j := by
          apply sum_congr rfl; intro m _; rw [fL i m (by omega) hic, fU m j (by omega) hjc]
        rw [hs, fP i hic, fU i j (by omega) hjc, fL i j (by omega) hic]
  · intro i j hi hji hci
    rw [fL i j hi (by omega)]; exact h.rawL i j hi hji (by omega)
  · intro i j hj hij hcj
    rw [fU i j hj (by omega)]; exact h.rawU i j hj hij (by omega)
  · intro i hi hci
    rw [fD i (by omega)]; exact h.rawD i hi (by omega)
  · intro i hi
    by_cases hic : i = c
    · subst hic; exact hinv
    · rw [fP i hic, fD i hic]; exact h.piv i (by omega)

end SkyNC
end Amgcl
