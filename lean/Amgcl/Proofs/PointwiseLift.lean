import Amgcl.Proofs.Transfer
/-!
`pointwise_matrix` and `pointwise_aggregates` on a Kronecker product `A ⊗ I_b`: every `while(!done)` round of
`pointwise_matrix` consumes exactly one node column of every scalar row of the block row, so the reduced matrix is
`|A|`; the flag expansion walks the scalar row in step with the node row, so the flags are the node flags.
-/
set_option linter.unusedSectionVars false
namespace Amgcl
namespace Coarsening

/-- scalar row `k` of the block row of `A ⊗ I_b` built from the node row `l` -/
def shiftRow {K : Type} (b k : Nat) (l : Row K) : Row K := l.map (fun cv => (cv.1 * b + k, cv.2))

/-- strictly increasing columns -/
def RowSortedP {K : Type} : Row K → Prop
  | [] => True
  | [_] => True
  | a :: b :: t => a.1 < b.1 ∧ RowSortedP (b :: t)

section
variable {K : Type}
theorem sorted_tail {a : Nat × K} {t : Row K} (h : RowSortedP (a :: t)) : RowSortedP t := by
  cases t with
  | nil => trivial
  | cons b t' => exact h.2

theorem sorted_head_lt {a : Nat × K} {t : Row K} (h : RowSortedP (a :: t)) : ∀ cv ∈ t, a.1 < cv.1 := by
  induction t generalizing a with
  | nil => intro cv hcv; cases hcv
  | cons b t' ih =>
    intro cv hcv
    rcases List.mem_cons.1 hcv with rfl | hcv
    · exact h.1
    · exact Nat.lt_trans h.1 (ih h.2 cv hcv)

end

section
variable {K : Type} [Zero K] [LT K] [DecidableLT K]

theorem stdMax_self (hirr : ∀ x : K, ¬ x < x) (x : K) : stdMax x x = x := by
  unfold stdMax; rw [if_neg (hirr x)]

/-- abstract effect of one scan on the state -/
theorem pwScan_head (norm : K → K) (b k c0 : Nat) (v0 : K) (t : Row K) (hk : k < b)
    (ht : ∀ cv ∈ t, c0 < cv.1) (s : PwRound K) :
    pwScan norm ((c0 + 1) * b) (shiftRow b k ((c0, v0) :: t)) s =
      match t with
      | [] => (s.val (norm v0), [])
      | (c1, _) :: _ => ((s.val (norm v0)).see (c1 * b + k), shiftRow b k t) := by
  have h0 : ¬ (c0 * b + k ≥ (c0 + 1) * b) := by
    have : (c0 + 1) * b = c0 * b + b := by rw [Nat.add_mul, Nat.one_mul]
    omega
  cases t with
  | nil =>
    simp only [shiftRow, List.map_cons, List.map_nil]
    unfold pwScan
    rw [if_neg h0]
    rfl
  | cons hd t' =>
    have h1 : hd.1 * b + k ≥ (c0 + 1) * b := by
      have := ht hd List.mem_cons_self
      have : (c0 + 1) * b ≤ hd.1 * b := Nat.mul_le_mul_right b this
      omega
    simp only [shiftRow, List.map_cons]
    unfold pwScan
    rw [if_neg h0]
    unfold pwScan
    rw [if_pos h1]


/-- effect of scanning row `k` during the round of node column `c0` on the state -/
def scanEff (norm : K → K) (b : Nat) (v0 : K) (t : Row K) (s : PwRound K) (k : Nat) : PwRound K :=
  match t with
  | [] => s.val (norm v0)
  | (c1, _) :: _ => (s.val (norm v0)).see (c1 * b + k)

theorem pwRound_fold (norm : K → K) (b c0 : Nat) (v0 : K) (t : Row K) (ht : ∀ cv ∈ t, c0 < cv.1)
    (ks : List Nat) (hks : ∀ k ∈ ks, k < b) (s : PwRound K) (accRows : List (Row K)) :
    (ks.map (fun k => shiftRow b k ((c0, v0) :: t))).foldl (fun (acc : PwRound K × List (Row K)) r =>
        let res := pwScan norm ((c0 + 1) * b) r acc.1
        (res.1, acc.2 ++ [res.2])) (s, accRows) =
      (ks.foldl (scanEff norm b v0 t) s, accRows ++ ks.map (fun k => shiftRow b k t)) := by
  induction ks generalizing s accRows with
  | nil => simp
  | cons k ks ih =>
    rw [List.map_cons, List.foldl_cons, List.foldl_cons]
    have hk : k < b := hks k List.mem_cons_self
    have hscan := pwScan_head norm b k c0 v0 t hk ht s
    simp only
    rw [hscan]
    cases t with
    | nil =>
      simp only
      rw [ih (fun k' hk' => hks k' (List.mem_cons_of_mem _ hk'))]
      simp [scanEff, shiftRow]
    | cons hd t' =>
      simp only
      rw [ih (fun k' hk' => hks k' (List.mem_cons_of_mem _ hk'))]
      simp [scanEff]

theorem mul_add_div (b c k : Nat) (hk : k < b) : (c * b + k) / b = c := by
  rw [Nat.add_comm, Nat.add_mul_div_right _ _ (by omega), Nat.div_eq_of_lt hk, Nat.zero_add]
theorem mul_add_mod (b c k : Nat) (hk : k < b) : (c * b + k) % b = k := by
  rw [Nat.add_comm, Nat.add_mul_mod_self_right, Nat.mod_eq_of_lt hk]

/-- what holds before a scan of the round -/
structure RoundPre (norm : K → K) (b : Nat) (v0 : K) (t : Row K) (s : PwRound K) : Prop where
  val : s.first = false → s.curVal = norm v0
  done : t = [] → s.done = true
  col : ∀ c1 v1 t', t = (c1, v1) :: t' → s.done = false → s.curCol / b = c1

/-- what holds after at least one scan of the round -/
structure RoundPost (norm : K → K) (b : Nat) (v0 : K) (t : Row K) (s : PwRound K) : Prop where
  first : s.first = false
  val : s.curVal = norm v0
  done : s.done = t.isEmpty
  col : ∀ c1 v1 t', t = (c1, v1) :: t' → s.curCol / b = c1

theorem RoundPost.toPre {norm : K → K} {b : Nat} {v0 : K} {t : Row K} {s : PwRound K}
    (h : RoundPost norm b v0 t s) : RoundPre norm b v0 t s :=
  ⟨fun _ => h.val, fun ht => by rw [h.done, ht]; rfl, fun c1 v1 t' ht _ => h.col c1 v1 t' ht⟩

theorem scanEff_post (hirr : ∀ x : K, ¬ x < x) (norm : K → K) (b : Nat) (v0 : K) (t : Row K) (s : PwRound K)
    (k : Nat) (hk : k < b) (h : RoundPre norm b v0 t s) : RoundPost norm b v0 t (scanEff norm b v0 t s k) := by
  have hval : (s.val (norm v0)).first = false ∧ (s.val (norm v0)).curVal = norm v0 ∧
      (s.val (norm v0)).done = s.done ∧ (s.val (norm v0)).curCol = s.curCol := by
    unfold PwRound.val
    by_cases hf : s.first = true
    · rw [if_pos hf]; exact ⟨rfl, rfl, rfl, rfl⟩
    · rw [if_neg hf]
      have hf' : s.first = false := by cases h' : s.first <;> simp_all
      refine ⟨hf', ?_, rfl, rfl⟩
      simp only
      rw [h.val hf', stdMax_self hirr]
  cases t with
  | nil =>
    unfold scanEff
    simp only
    exact ⟨hval.1, hval.2.1, by rw [hval.2.2.1, h.done rfl]; rfl, fun c1 v1 t' ht => by cases ht⟩
  | cons hd t' =>
    unfold scanEff
    simp only
    unfold PwRound.see
    by_cases hd' : (s.val (norm v0)).done = true
    · rw [if_pos hd']
      refine ⟨hval.1, hval.2.1, rfl, fun c1 v1 t'' ht => ?_⟩
      injection ht with h1 _
      simp only
      rw [mul_add_div b hd.1 k hk, h1]
    · rw [if_neg hd']
      have hdone : s.done = false := by rw [← hval.2.2.1]; cases h' : (s.val (norm v0)).done <;> simp_all
      refine ⟨hval.1, hval.2.1, by simp only; rw [hval.2.2.1, hdone]; rfl, fun c1 v1 t'' ht => ?_⟩
      injection ht with h1 _
      simp only
      unfold stdMin
      split
      · rw [mul_add_div b hd.1 k hk, h1]
      · rw [hval.2.2.2, h.col hd.1 hd.2 t' rfl hdone, h1]

theorem scanEff_fold_post (hirr : ∀ x : K, ¬ x < x) (norm : K → K) (b : Nat) (v0 : K) (t : Row K)
    (ks : List Nat) (hne : ks ≠ []) (hks : ∀ k ∈ ks, k < b) (s : PwRound K) (h : RoundPre norm b v0 t s) :
    RoundPost norm b v0 t (ks.foldl (scanEff norm b v0 t) s) := by
  induction ks generalizing s with
  | nil => exact absurd rfl hne
  | cons k ks ih =>
    rw [List.foldl_cons]
    have hpost := scanEff_post hirr norm b v0 t s k (hks k List.mem_cons_self) h
    cases ks with
    | nil => exact hpost
    | cons k' ks' =>
      exact ih (by simp) (fun x hx => hks x (List.mem_cons_of_mem _ hx)) _ hpost.toPre

/-! ### the initial scan (l.596-610) -/

/-- the step function of `pwInit` -/
def pwInitStep (s : PwRound K) (r : Row K) : PwRound K :=
  match r with
  | [] => s
  | (c, _) :: _ => s.see c

theorem pwInit_eq (rows : List (Row K)) :
    pwInit rows = rows.foldl pwInitStep ({ done := true, curCol := 0, first := true, curVal := 0 } : PwRound K) := rfl

theorem see_col (b c0 : Nat) (s : PwRound K) (k : Nat) (hk : k < b) (h : s.done = false → s.curCol / b = c0) :
    (s.see (c0 * b + k)).done = false ∧ (s.see (c0 * b + k)).curCol / b = c0 := by
  unfold PwRound.see
  by_cases hd : s.done = true
  · rw [if_pos hd]; exact ⟨rfl, mul_add_div b c0 k hk⟩
  · rw [if_neg hd]
    have hdone : s.done = false := by cases h' : s.done <;> simp_all
    refine ⟨hdone, ?_⟩
    simp only
    unfold stdMin
    split
    · exact mul_add_div b c0 k hk
    · exact h hdone

theorem pwInit_fold_nil (ks : List Nat) (b : Nat) (s : PwRound K) :
    (ks.map (fun k => shiftRow b k ([] : Row K))).foldl pwInitStep s = s := by
  induction ks generalizing s with
  | nil => rfl
  | cons k ks ih => rw [List.map_cons, List.foldl_cons]; exact ih s

theorem pwInit_fold_cons (b c0 : Nat) (v0 : K) (t : Row K) (ks : List Nat) (hks : ∀ k ∈ ks, k < b)
    (s : PwRound K) (h : s.done = false → s.curCol / b = c0) :
    let s' := (ks.map (fun k => shiftRow b k ((c0, v0) :: t))).foldl pwInitStep s
    (ks ≠ [] → s'.done = false) ∧ (s'.done = false → s'.curCol / b = c0) := by
  induction ks generalizing s with
  | nil => exact ⟨fun h' => absurd rfl h', h⟩
  | cons k ks ih =>
    intro s'
    have hk : k < b := hks k List.mem_cons_self
    have hsee := see_col b c0 s k hk h
    have hs' : s' = (ks.map (fun k => shiftRow b k ((c0, v0) :: t))).foldl pwInitStep (s.see (c0 * b + k)) := rfl
    have ih' := ih (fun x hx => hks x (List.mem_cons_of_mem _ hx)) (s.see (c0 * b + k)) (fun _ => hsee.2)
    rw [hs']
    refine ⟨fun _ => ?_, ih'.2⟩
    cases ks with
    | nil => exact hsee.1
    | cons k' ks' => exact ih'.1 (by simp)

/-! ### the `while(!done)` loop on a Kronecker block row -/

theorem pwWhile_kron (hirr : ∀ x : K, ¬ x < x) (norm : K → K) (b : Nat) (ks : List Nat) (hne : ks ≠ [])
    (hks : ∀ k ∈ ks, k < b) (l : Row K) (hl : RowSortedP l) (fuel : Nat) (hf : l.length < fuel)
    (done : Bool) (hdone : done = l.isEmpty) (curCol : Nat)
    (hcc : ∀ c v t, l = (c, v) :: t → curCol / b = c) (acc : Row K) :
    pwWhile norm b fuel done curCol (ks.map (fun k => shiftRow b k l)) acc =
      acc ++ l.map (fun cv => (cv.1, norm cv.2)) := by
  induction l generalizing fuel done curCol acc with
  | nil =>
    cases fuel with
    | zero => exact absurd hf (Nat.not_lt_zero _)
    | succ f =>
      subst hdone
      unfold pwWhile
      simp
  | cons hd t ih =>
    cases fuel with
    | zero => exact absurd hf (Nat.not_lt_zero _)
    | succ f =>
      subst hdone
      have hcol : curCol / b = hd.1 := hcc hd.1 hd.2 t rfl
      have ht : ∀ cv ∈ t, hd.1 < cv.1 := sorted_head_lt hl
      unfold pwWhile
      simp only [List.isEmpty_cons, Bool.false_eq_true, if_false]
      rw [hcol]
      unfold pwRoundRows
      have hfold := pwRound_fold norm b hd.1 hd.2 t ht ks hks
        { done := true, curCol := hd.1, first := true, curVal := 0 } []
      rw [hfold]
      have hpost := scanEff_fold_post hirr norm b hd.2 t ks hne hks
        { done := true, curCol := hd.1, first := true, curVal := 0 }
        ⟨fun h => by simp at h, fun _ => rfl, fun _ _ _ _ h => by simp at h⟩
      simp only [List.nil_append]
      rw [ih (sorted_tail hl) f (by simpa using hf) _ hpost.done _ hpost.col, hpost.val]
      simp

theorem foldl_len_ge (rows : List (Row K)) (n0 : Nat) : n0 ≤ rows.foldl (fun n r => n + r.length) n0 := by
  induction rows generalizing n0 with
  | nil => exact Nat.le_refl _
  | cons r rest ih => rw [List.foldl_cons]; exact Nat.le_trans (Nat.le_add_right _ _) (ih _)

/-- one block row of `A ⊗ I_b` reduces to the node row with `norm` applied -/
theorem pwBlockRow_kron (hirr : ∀ x : K, ¬ x < x) (norm : K → K) (b : Nat) (hb : 0 < b) (l : Row K)
    (hl : RowSortedP l) :
    pwBlockRow norm b ((List.range b).map (fun k => shiftRow b k l)) = l.map (fun cv => (cv.1, norm cv.2)) := by
  have hne : List.range b ≠ [] := by
    intro h; have := congrArg List.length h; simp at this; omega
  have hks : ∀ k ∈ List.range b, k < b := fun k hk => List.mem_range.1 hk
  have hfuel : l.length < ((List.range b).map (fun k => shiftRow b k l)).foldl (fun n r => n + r.length) 0 + 1 := by
    obtain ⟨k0, ks', hk⟩ := List.exists_cons_of_ne_nil hne
    rw [hk, List.map_cons, List.foldl_cons]
    have := foldl_len_ge (ks'.map (fun k => shiftRow b k l)) (0 + (shiftRow b k0 l).length)
    have hlen : (shiftRow b k0 l).length = l.length := by simp [shiftRow]
    omega
  unfold pwBlockRow
  simp only
  have hgoal := fun (d : Bool) (hd : d = l.isEmpty) (cc : Nat) (hcc : ∀ c v t, l = (c, v) :: t → cc / b = c) =>
    pwWhile_kron hirr norm b (List.range b) hne hks l hl _ hfuel d hd cc hcc []
  rw [hgoal]
  · simp
  · cases l with
    | nil => rw [pwInit_eq, pwInit_fold_nil]; rfl
    | cons hd t =>
      rw [pwInit_eq]
      have := pwInit_fold_cons b hd.1 hd.2 t (List.range b) hks
        { done := true, curCol := 0, first := true, curVal := 0 } (fun h => by simp at h)
      exact this.1 hne
  · intro c v t hlt
    subst hlt
    rw [pwInit_eq]
    have := pwInit_fold_cons b c v t (List.range b) hks
      { done := true, curCol := 0, first := true, curVal := 0 } (fun h => by simp at h)
    exact this.2 (this.1 hne)

end

/-- `A ⊗ I_b`: scalar row `i·b+k` holds `(j·b+k, a_ij)` for every stored `(j, a_ij)` of row `i` -/
def kronI {K : Type} (A : CRS K) (b : Nat) : CRS K :=
  { ncols := A.ncols * b,
    rows := Array.ofFn (n := A.nrows * b) fun r => shiftRow b (r.val % b) (A.row (r.val / b)) }

/-- entrywise `norm`, same pattern -/
def mapVals {K : Type} (f : K → K) (A : CRS K) : CRS K :=
  { ncols := A.ncols, rows := A.rows.map (fun r => r.map (fun cv => (cv.1, f cv.2))) }

section
variable {K : Type} [Zero K] [LT K] [DecidableLT K]

theorem kronI_row (A : CRS K) (b : Nat) (ip k : Nat) (hip : ip < A.nrows) (hk : k < b) :
    (kronI A b).row (ip * b + k) = shiftRow b k (A.row ip) := by
  have hlt : ip * b + k < A.nrows * b := by
    have : (ip + 1) * b ≤ A.nrows * b := Nat.mul_le_mul_right b hip
    rw [Nat.add_mul, Nat.one_mul] at this
    omega
  unfold CRS.row kronI
  simp only [Array.getD_eq_getD_getElem?, Array.size_ofFn, hlt, getElem?_pos, Array.getElem_ofFn,
    Option.getD_some]
  rw [mul_add_div b ip k hk, mul_add_mod b ip k hk]
  simp [CRS.row, Array.getD_eq_getD_getElem?]

/-- **`pointwise_matrix(A ⊗ I_b, b) = |A|`** for sorted rows -/
theorem pointwiseMatrix_kron (hirr : ∀ x : K, ¬ x < x) (norm : K → K) (A : CRS K) (b : Nat) (hb : 0 < b)
    (hs : ∀ i, i < A.nrows → RowSortedP (A.row i)) :
    pointwiseMatrix norm (kronI A b) b = .ok (mapVals norm A) := by
  have hn : (kronI A b).nrows = A.nrows * b := by simp [kronI, CRS.nrows]
  have hnp : (kronI A b).nrows / b = A.nrows := by rw [hn]; exact Nat.mul_div_cancel _ hb
  unfold pointwiseMatrix
  rw [if_neg (by omega), hnp, if_neg (by rw [hn]; simp)]
  congr 1
  unfold mapVals
  have hm : (kronI A b).ncols / b = A.ncols := by
    show A.ncols * b / b = A.ncols; exact Nat.mul_div_cancel _ hb
  rw [hm]
  congr 1
  apply Array.ext
  · simp [CRS.nrows]
  · intro i h1 h2
    simp only [Array.getElem_ofFn, Array.getElem_map]
    have hi : i < A.nrows := by simpa using h1
    have hrows : (List.range b).map (fun k => (kronI A b).row (i * b + k)) =
        (List.range b).map (fun k => shiftRow b k (A.row i)) := by
      apply List.map_congr_left
      intro k hk
      exact kronI_row A b i k hi (List.mem_range.1 hk)
    rw [hrows, pwBlockRow_kron hirr norm b hb (A.row i) (hs i hi)]
    unfold CRS.row
    unfold CRS.nrows at hi
    simp [Array.getD_eq_getD_getElem?, hi]

end

/-! ### expansion of the strength flags on a Kronecker block row -/

theorem expandRow_kron (b ip k : Nat) (hk : k < b) (l : Row Bool) (hl : RowSortedP l)
    (hoff : ∀ cs ∈ l, cs.2 = true → cs.1 ≠ ip) :
    expandRow b ip k l (l.map (fun cs => cs.1 * b + k)) = l.map (·.2) := by
  induction l with
  | nil => rfl
  | cons hd t ih =>
    have hb : 0 < b := by omega
    have hlt : hd.1 * b + k < (hd.1 + 1) * b := by rw [Nat.add_mul, Nat.one_mul]; omega
    have hrest : ∀ cs ∈ t, ¬ (cs.1 * b + k < (hd.1 + 1) * b) := by
      intro cs hcs
      have h1 := sorted_head_lt hl cs hcs
      have : (hd.1 + 1) * b ≤ cs.1 * b := Nat.mul_le_mul_right b h1
      omega
    have htake : (t.map (fun cs => cs.1 * b + k)).takeWhile (· < (hd.1 + 1) * b) = [] := by
      cases t with
      | nil => rfl
      | cons x xs =>
        rw [List.map_cons, List.takeWhile_cons, if_neg]
        simpa using hrest x List.mem_cons_self
    have hdrop : (t.map (fun cs => cs.1 * b + k)).dropWhile (· < (hd.1 + 1) * b) = t.map (fun cs => cs.1 * b + k) := by
      cases t with
      | nil => rfl
      | cons x xs =>
        rw [List.map_cons, List.dropWhile_cons, if_neg]
        simpa using hrest x List.mem_cons_self
    rw [List.map_cons, List.map_cons]
    obtain ⟨cp, sflag⟩ := hd
    unfold expandRow
    simp only
    rw [List.takeWhile_cons, if_pos (by simpa using hlt), List.dropWhile_cons, if_pos (by simpa using hlt), htake, hdrop,
      ih (sorted_tail hl) (fun cs hcs => hoff cs (List.mem_cons_of_mem _ hcs))]
    simp only [List.map_cons, List.map_nil, List.cons_append, List.nil_append, List.cons.injEq, and_true]
    by_cases hc : cp = ip
    · subst hc
      have hs : sflag = false := by
        cases h : sflag
        · rfl
        · exact absurd rfl (hoff (cp, sflag) List.mem_cons_self h)
      simp [hs]
    · have hne : (cp * b + k != ip * b + k) = true := by
        simp only [bne_iff_ne, ne_eq]
        intro h
        have h2 : cp * b = ip * b := by omega
        exact hc (Nat.eq_of_mul_eq_mul_right hb h2)
      have hbeq : (cp == ip) = false := by simpa using hc
      rw [hne, hbeq]; simp

/-! ### the lift -/

theorem sorted_map_fst {K L : Type} (g : Nat × K → L) (l : Row K) (h : RowSortedP l) :
    RowSortedP (l.map (fun cv => (cv.1, g cv))) := by
  induction l with
  | nil => trivial
  | cons a t ih =>
    cases t with
    | nil => trivial
    | cons b t' => exact ⟨h.1, ih h.2⟩

theorem mapVals_nrows {K : Type} (f : K → K) (A : CRS K) : (mapVals f A).nrows = A.nrows := by
  simp [mapVals, CRS.nrows]

theorem mapVals_row {K : Type} (f : K → K) (A : CRS K) (i : Nat) (hi : i < A.nrows) :
    (mapVals f A).row i = (A.row i).map (fun cv => (cv.1, f cv.2)) := by
  unfold CRS.nrows at hi
  simp [mapVals, CRS.row, Array.getD_eq_getD_getElem?, hi]

section
variable {K : Type} [Mul K] [Zero K] [LT K] [DecidableLT K]

theorem pointwise_lift_ok (hirr : ∀ x : K, ¬ x < x) (norm : K → K) (epsSq : K) (b : Nat) (hb : 1 < b) (m : Nat)
    (hm : m ≤ 1) (A : CRS K) (hs : ∀ i, i < A.nrows → RowSortedP (A.row i)) (pw : Aggregates)
    (hpw : plainAggregates epsSq (mapVals norm A) = .ok pw) :
    ∃ agg, pointwiseAggregates norm epsSq b m (kronI A b) = .ok agg ∧
      agg.count = pw.count * b ∧ agg.id.size = A.nrows * b ∧ agg.strong.size = A.nrows * b ∧
      ∀ i k, i < A.nrows → k < b →
        agg.id.getD (i * b + k) 0 = (b : Int) * pw.id.getD i 0 + (k : Int) ∧
        agg.strong.getD (i * b + k) [] = pw.strong.getD i [] := by
  obtain ⟨hS1, hS2, _, _, _⟩ := plainAggregates_spec epsSq (mapVals norm A) pw hpw
  unfold pointwiseAggregates
  rw [if_neg (by omega), pointwiseMatrix_kron hirr norm A b (by omega) hs]
  simp only
  rw [hpw]
  simp only [removeSmall_id b m hm]
  rw [if_neg (fun h => absurd h.1 (by omega))]
  refine ⟨_, rfl, rfl, by simp [mapVals_nrows], by simp [mapVals_nrows], fun i k hi hk => ?_⟩
  have hlt : i * b + k < (mapVals norm A).nrows * b := by
    rw [mapVals_nrows]
    have : (i + 1) * b ≤ A.nrows * b := Nat.mul_le_mul_right b hi
    rw [Nat.add_mul, Nat.one_mul] at this
    omega
  have hi' : i < (mapVals norm A).nrows := by rw [mapVals_nrows]; exact hi
  constructor
  · simp only [Array.getD_eq_getD_getElem?, Array.size_ofFn, hlt, getElem?_pos, Array.getElem_ofFn,
      Option.getD_some]
    rw [mul_add_div b i k hk, mul_add_mod b i k hk]
  · simp only [Array.getD_eq_getD_getElem?, Array.size_ofFn, hlt, getElem?_pos, Array.getElem_ofFn,
      Option.getD_some]
    rw [mul_add_div b i k hk, mul_add_mod b i k hk, kronI_row A b i k hi hk]
    have hrow : (zipGraph (mapVals norm A) pw.strong).row i =
        ((mapVals norm A).row i).map (fun cv => (cv.1, strongFlag epsSq (mapVals norm A) i cv)) := by
      rw [hS1]; exact strongGraph_row epsSq (mapVals norm A) i hi'
    rw [hrow]
    have hcols : (shiftRow b k (A.row i)).map (·.1) =
        (((mapVals norm A).row i).map (fun cv => (cv.1, strongFlag epsSq (mapVals norm A) i cv))).map
          (fun cs => cs.1 * b + k) := by
      rw [mapVals_row norm A i hi]
      simp [shiftRow, List.map_map, Function.comp_def]
    rw [hcols, expandRow_kron b i k hk _ (sorted_map_fst _ _ (by
      rw [mapVals_row norm A i hi]; exact sorted_map_fst _ _ (hs i hi)))]
    · have := hS2 i hi'
      simp only [Array.getD_eq_getD_getElem?] at this
      rw [this, List.map_map]
      rfl
    · intro cs hcs hflag
      obtain ⟨cv, _, rfl⟩ := List.mem_map.1 hcs
      unfold strongFlag at hflag
      simp only [Bool.and_eq_true, decide_eq_true_eq] at hflag
      exact hflag.1

theorem pointwise_lift_empty (hirr : ∀ x : K, ¬ x < x) (norm : K → K) (epsSq : K) (b : Nat) (hb : 1 < b) (m : Nat)
    (A : CRS K) (hs : ∀ i, i < A.nrows → RowSortedP (A.row i))
    (hpw : plainAggregates epsSq (mapVals norm A) = .emptyLevel) :
    pointwiseAggregates norm epsSq b m (kronI A b) = .emptyLevel := by
  unfold pointwiseAggregates
  rw [if_neg (by omega), pointwiseMatrix_kron hirr norm A b (by omega) hs]
  simp only
  rw [hpw]

end

/-- sortedness as the executable predicate of `Model/Basic.lean` -/
theorem sortedP_of_rowSorted {K : Type} (l : Row K) (h : CRS.rowSorted l = true) : RowSortedP l := by
  induction l with
  | nil => trivial
  | cons a t ih =>
    cases t with
    | nil => trivial
    | cons b t' =>
      unfold CRS.rowSorted at h
      simp only [Bool.and_eq_true, decide_eq_true_eq] at h
      exact ⟨h.1, ih h.2⟩

theorem sortedP_of_sortedb {K : Type} (A : CRS K) (h : A.sortedb = true) :
    ∀ i, i < A.nrows → RowSortedP (A.row i) := by
  intro i hi
  unfold CRS.sortedb at h
  rw [List.all_eq_true] at h
  exact sortedP_of_rowSorted _ (h _ (row_mem_rows A i hi))

end Coarsening
end Amgcl
