import Amgcl.Proofs.BridgeLast
/-!
# Bridge, part 9: hierarchies with an arbitrary (e.g. rescaled) coarse operator

`Chain.realizes` identifies the constructed hierarchy with `Hier.build`, whose coarse matrices are the exact Galerkin
products — this needs `PolicyOK.coarse`.  For a coarse operator that is merely shape correct (`PolicyShape`: in particular
`scaled_galerkin(A, P, R, s)` of plain aggregation for **every** `s = 1/over_interp`) the hierarchy still realises *some*
abstract hierarchy `h` with top matrix `matOf A` (`Chain.realizes_exists`): the model `cycle` / `apply` is the matrix
recursion `Hier.B h` — one fixed matrix for all scratch contents.  What is lost is `Hier.OK` (`next.A = Pᵀ A P`), i.e. the
SPD / contraction conclusion; that case is open.
-/
set_option linter.unusedSectionVars false
namespace Amgcl.Energy.Bridge
open Amgcl Amgcl.Amg Amgcl.Relax Matrix Finset

variable {K S : Type} [Field K] [DecidableEq K]

/-- the shape part of `PolicyOK`: nothing is said about the entries of the coarse operator -/
structure PolicyShape (pol : Policy K) : Prop where
  transfer : ∀ idx (A P0 R0 : CRS K), A.WF → A.ncols = A.nrows → pol.transfer idx A = some (P0, R0) →
    R0 = transpose id P0 ∧ P0.WF ∧ P0.nrows = A.nrows
  coarse : ∀ (A P R : CRS K) (n m : Nat), A.WF → P.WF → R.WF → A.nrows = n → A.ncols = n → P.nrows = n →
    P.ncols = m → R.nrows = m → R.ncols = n →
    (pol.coarseOp A P R).WF ∧ (pol.coarseOp A P R).nrows = m ∧ (pol.coarseOp A P R).ncols = m

theorem PolicyOK.shape {pol : Policy K} (h : PolicyOK pol) : PolicyShape pol :=
  ⟨h.transfer, fun A P R n m a b c d e f g i j =>
    let ⟨x, y, z, _⟩ := h.coarse A P R n m a b c d e f g i j; ⟨x, y, z⟩⟩

theorem cons_step_shape {pol : Policy K} {sm : Smoother K S} {allow : Bool} (hpol : PolicyShape pol) {idx : Nat}
    {A P R : CRS K} {lv nxt : Level K S} {rest : List (Level K S)} (hl : InnerLevel pol sm allow idx A lv P R)
    (hA : A.WF) (hsq : A.ncols = A.nrows)
    (hc : Chain pol sm allow (idx + 1) (sortRows (pol.coarseOp A P R)) (nxt :: rest)) :
    P.WF ∧ R.WF ∧ P.nrows = A.nrows ∧ P.ncols = nxt.rows ∧ R.nrows = nxt.rows ∧ R.ncols = A.nrows ∧
    (sortRows (pol.coarseOp A P R)).WF ∧ (sortRows (pol.coarseOp A P R)).nrows = nxt.rows ∧
    (sortRows (pol.coarseOp A P R)).ncols = (sortRows (pol.coarseOp A P R)).nrows := by
  obtain ⟨P0, R0, ht, hP, hR⟩ := hl.htr
  obtain ⟨hR0, hP0wf, hP0n⟩ := hpol.transfer idx A P0 R0 hA hsq ht
  obtain ⟨_, _, hcons, _, hrows⟩ := hc.head_matrix
  obtain ⟨rfl, rfl⟩ := List.cons.inj hcons
  have hPwf : P.WF := hP ▸ sortRows_wf' P0 hP0wf
  have hRwf : R.WF := by rw [hR, hR0]; exact sortRows_wf' _ (transpose_wf id P0)
  have hPn : P.nrows = A.nrows := by rw [hP, Amg.sortRows_nrows, hP0n]
  have hPc : P.ncols = P0.ncols := by rw [hP]; rfl
  have hRn : R.nrows = P0.ncols := by rw [hR, hR0, Amg.sortRows_nrows, transpose_nrows]
  have hRc : R.ncols = A.nrows := by rw [hR, hR0, ← hP0n]; rfl
  obtain ⟨d1, d2, d3⟩ := hpol.coarse A P R A.nrows P0.ncols hA hPwf hRwf rfl hsq hPn hPc hRn hRc
  have hm : P0.ncols = nxt.rows := by rw [hrows, Amg.sortRows_nrows, d2]
  exact ⟨hPwf, hRwf, hPn, hPc.trans hm, hRn.trans hm, hRc, sortRows_wf' _ d1, by rw [Amg.sortRows_nrows, d2, hm],
    by rw [Amg.sortRows_nrows, Amg.sortRows_ncols, d2, d3]⟩

/-- **a constructed hierarchy with any shape-correct coarse operator realises an abstract hierarchy** whose top matrix is
`matOf A` -/
theorem Chain.realizes_exists {pol : Policy K} {sm : Smoother K S} {direct : CRS K → Vec K → Vec K} {allow : Bool}
    {Adm : CRS K → Prop} {pre post : SmootherFamily K} (hpol : PolicyShape pol) (hsm : SmootherSpec sm Adm pre post)
    {idx : Nat} {A : CRS K} {ls : List (Level K S)} (hc : Chain pol sm allow idx A ls) (hA : A.WF)
    (hsq : A.ncols = A.nrows)
    (hadm : ∀ lv ∈ ls, lv.solve = none → ∀ M, lv.A = some M → Adm M)
    (hdir : ∀ lv ∈ ls, ∀ Ad, lv.solve = some Ad → DirectExact direct Ad) :
    ∃ h : Hier K A.nrows, Realizes sm direct A.nrows ls h ∧ h.A = matOf A A.nrows A.nrows := by
  induction hc with
  | relaxLast idx A lv hl =>
    obtain ⟨s, hs, hr⟩ := hl.hrelax
    obtain ⟨h0, h1, h2⟩ := hsm.sweeps A s A.nrows hA rfl hsq
      (hadm lv List.mem_cons_self hl.hsolve A hl.hA) hs
    exact ⟨_, Realizes.relaxLast _ lv A s _ _ hl.hsolve hl.hA hr h0 h1 h2, rfl⟩
  | solveLast idx A lv hl =>
    exact ⟨_, realizes_solveLast sm lv hl.hsolve (hdir lv List.mem_cons_self A hl.hsolve) rfl, rfl⟩
  | cons idx A lv P R rest hl hne hc ih =>
    obtain ⟨nxt, rest', rfl⟩ := List.exists_cons_of_ne_nil hne
    obtain ⟨hPwf, hRwf, hPn, hPc, hRn, hRc, hA'wf, hA'n, hA'sq⟩ := cons_step_shape hpol hl hA hsq hc
    obtain ⟨s, hs, hr⟩ := hl.hrelax
    obtain ⟨h0, h1, h2⟩ := hsm.sweeps A s A.nrows hA rfl hsq
      (hadm lv List.mem_cons_self hl.hsolve A hl.hA) hs
    have ih' := ih hA'wf hA'sq (fun lv' hlv' => hadm lv' (List.mem_cons_of_mem _ hlv'))
      (fun lv' hlv' => hdir lv' (List.mem_cons_of_mem _ hlv'))
    rw [hA'n] at ih'
    obtain ⟨hn, ihr, _⟩ := ih'
    exact ⟨_, Realizes.cons A.nrows nxt.rows lv nxt rest' A P R s _ _ hn hl.hA hr hl.hP hl.hR h0 ⟨rfl, hPn, hRn⟩ rfl
      (colsLt_of_wf' hA hsq) (colsLt_of_wf' hPwf hPc) (colsLt_of_wf' hRwf hRc) h1 h2 ihr, rfl⟩

/-- for the built hierarchy, with the per-level direct-solver hypothesis -/
theorem build_realizes_exists (r : RealSmoother K) (hr : r.NormOK) {pol : Policy K} (hpol : PolicyShape pol)
    (prm : Params) (directOk : CRS K → Bool) (direct : CRS K → Vec K → Vec K) (A : CRS K) (hA : A.WF)
    (hsq : A.ncols = A.nrows) (ls : List (Level K r.State)) (hb : build prm pol r.model directOk A = .ok ls)
    (hadm : ∀ lv ∈ ls, lv.solve = none → ∀ M, lv.A = some M → r.Adm M)
    (hdir : ∀ lv ∈ ls, ∀ Ad, lv.solve = some Ad → DirectExact direct Ad) :
    ∃ h : Hier K A.nrows, Realizes r.model direct A.nrows ls h ∧ h.A = matOf A A.nrows A.nrows := by
  have hc := C03.build_chain prm pol r.model directOk A ls hb
  have h := Chain.realizes_exists (direct := direct) hpol (r.spec hr) hc (sortRows_wf' A hA)
    (by rw [Amg.sortRows_ncols, Amg.sortRows_nrows]; exact hsq) hadm hdir
  rwa [Amg.sortRows_nrows, matOf_sortRows] at h

section aggregation
variable {K : Type} [Field K] [LinearOrder K] [IsStrictOrderedRing K] [DecidableEq K]

/-- plain aggregation with **any** rescaling factor `s = 1/over_interp` is shape correct -/
theorem policyShape_aggregation (norm : K → K) (aprm : AggrParams K) (hb : aprm.blockSize = 1)
    (hm : aprm.minAggregate ≤ 1) (nt : Nat) (s : K) : PolicyShape (aggregationPolicy norm aprm nt s) := by
  refine ⟨fun idx A P0 R0 hA hsq ht => ?_, fun A P R n m _ hP _ _ _ _ hPc hRn _ => ?_⟩
  · obtain ⟨agg, hagg, hP0, hR0⟩ := aggregation_transfer_spec norm aprm hb hm nt s idx A P0 R0 ht
    have ht1 : (aggregationPolicy norm aprm nt 1).transfer idx A = some (P0, R0) := ht
    exact (policyOK_aggregation norm aprm hb hm nt).transfer idx A P0 R0 hA hsq ht1
  · obtain ⟨g1, g2, g3⟩ := scaledGalerkin_wf nt s A P R hP
    exact ⟨g3, by rw [← hRn]; exact g1, by rw [← hPc]; exact g2⟩

end aggregation

end Amgcl.Energy.Bridge
