import Amgcl.Proofs.LockstepGMRES
/-!
The serial semantics of the FGMRES program of `Model/LockstepGMRES.lean` is the statement-by-statement model
`Solver.FGMRES.run` (the one the C01/C05/C15 theorems are about).
-/
namespace Amgcl.Lockstep.FGMRES
open Amgcl Amgcl.Solver Amgcl.Lockstep Amgcl.Lockstep.GMRES

variable {K : Type} [Add K] [Mul K] [Sub K] [Neg K] [Zero K] [One K] [Div K] [DecidableEq K] [LT K] [DecidableLT K]

theorem vV_inj : ∀ a b, vV a = vV b → a = b := by
  intro a b h; unfold vV at h; omega

theorem vZ_inj : ∀ a b, vZ a = vZ b → a = b := by
  intro a b h; unfold vZ at h; omega

/-- the model states a machine state stands for -/
def decSt (s : St K (GS K)) : Solver.FGMRES.St K := ⟨s.scal.iter, s.scal.normR, s.vec vX, workOf s⟩
def decIn (s : St K (GS K)) : Solver.FGMRES.In K := ⟨s.scal.j, s.scal.iter, s.scal.innerRes, workOf s⟩

/-- what the statements of the inner loop leave alone -/
structure Frame (s s' : St K (GS K)) : Prop where
  vf : s'.vec vF = s.vec vF
  vx : s'.vec vX = s.vec vX
  normR : s'.scal.normR = s.scal.normR
  nrhs : s'.scal.nrhs = s.scal.nrhs
  eps : s'.scal.epsT = s.scal.epsT

theorem Frame.trans {a b c : St K (GS K)} (h1 : Frame a b) (h2 : Frame b c) : Frame a c :=
  ⟨h2.vf.trans h1.vf, h2.vx.trans h1.vx, h2.normR.trans h1.normR, h2.nrhs.trans h1.nrhs, h2.eps.trans h1.eps⟩

/-! ### reading `*v[i]`, `*z[i]` back from an updated register file -/

theorem vV_if_eq (a : Nat) (X : Vec K) (g : Nat → Vec K) :
    (fun i => if vV i = vV a then X else g i) = fun i => if i = a then X else g i := by
  funext i
  by_cases hi : i = a
  · subst hi; simp
  · have h1 : vV i ≠ vV a := fun h => hi (vV_inj _ _ h)
    simp only [if_neg h1, if_neg hi]

theorem vZ_if_eq (a : Nat) (X : Vec K) (g : Nat → Vec K) :
    (fun i => if vZ i = vZ a then X else g i) = fun i => if i = a then X else g i := by
  funext i
  by_cases hi : i = a
  · subst hi; simp
  · have h1 : vZ i ≠ vZ a := fun h => hi (vZ_inj _ _ h)
    simp only [if_neg h1, if_neg hi]

theorem vV_if_Z (i a : Nat) : (vV i = vZ a) ↔ False := ⟨fun h => by unfold vV vZ at h; omega, False.elim⟩
theorem vZ_if_V (i a : Nat) : (vZ i = vV a) ↔ False := ⟨fun h => by unfold vV vZ at h; omega, False.elim⟩
theorem vV_if_X (i : Nat) : (vV i = vX) ↔ False := ⟨fun h => by unfold vV vX at h; omega, False.elim⟩
theorem vZ_if_X (i : Nat) : (vZ i = vX) ↔ False := ⟨fun h => by unfold vZ vX at h; omega, False.elim⟩
theorem vX_if_V (i : Nat) : (vX = vV i) ↔ False := ⟨fun h => by unfold vV vX at h; omega, False.elim⟩
theorem vX_if_Z (i : Nat) : (vX = vZ i) ↔ False := ⟨fun h => by unfold vZ vX at h; omega, False.elim⟩
theorem vF_if_V (i : Nat) : (vF = vV i) ↔ False := ⟨fun h => by unfold vV vF at h; omega, False.elim⟩
theorem vF_if_Z (i : Nat) : (vF = vZ i) ↔ False := ⟨fun h => by unfold vZ vF at h; omega, False.elim⟩
theorem vF_if_X : (vF = vX) ↔ False := ⟨fun h => by unfold vF vX at h; omega, False.elim⟩

/-- the state after `P.apply(*v[j], *z[j]); spmv(one, A, *z[j], zero, v_new)` -/
def afterP (A : CRS K) (P : Vec K → Vec K) (s : St K (GS K)) : St K (GS K) :=
  let zj := P (s.vec (vV s.scal.j))
  { s with vec := upd (upd s.vec (vZ s.scal.j) zj) (vV (s.scal.j + 1)) (spmv 1 A zj 0 (s.vec (vV (s.scal.j + 1)))) }

theorem pre_run (ip : Vec K → Vec K → K) (A : CRS K) (P : Vec K → Vec K) (s : St K (GS K)) :
    step A P ip (.spmv (fun _ => 1) (fun e => vZ e.j) (fun _ => 0) (fun e => vV (e.j + 1)))
      (step A P ip (.precond (fun e => vV e.j) (fun e => vZ e.j)) s) = afterP A P s := by
  simp only [step, afterP, upd_apply, vV_if_Z, if_false, if_true]

theorem step_dec (ip : Vec K → Vec K → K) (sqrt : K → K) (A : CRS K) (P : Vec K → Vec K) (s : St K (GS K)) :
    decIn (run A P ip (stepProg sqrt) s) = Solver.FGMRES.step ip sqrt A P (decIn s) ∧
    Frame s (run A P ip (stepProg sqrt) s) := by
  have hrun : run A P ip (stepProg sqrt) s
      = step A P ip (.sset (fun e => { e with j := e.j + 1, iter := e.iter + 1 }))
          (run A P ip (hessProg sqrt vV) (afterP A P s)) := by
    simp only [stepProg, seqs, run, pre_run]
  obtain ⟨k', hk⟩ := hess_run A P ip sqrt vV vV_inj (afterP A P s)
  rw [hrun, hk]
  have hc := hessStep_congr ip sqrt (decIn s).w.v ⟨fun i => (afterP A P s).vec (vV i)⟩ s.scal.j s.scal.h
    (spmv 1 A (P (s.vec (vV s.scal.j))) 0 (s.vec (vV (s.scal.j + 1))))
    (fun k hk => by
      have h1 : vV k ≠ vV (s.scal.j + 1) := fun h => by have := vV_inj _ _ h; omega
      simp only [afterP, upd_apply, if_neg h1, vV_if_Z, if_false, decIn, workOf])
  have e1 : (afterP A P s).scal = s.scal := rfl
  have e2 : (afterP A P s).vec (vV (s.scal.j + 1))
      = spmv 1 A (P (s.vec (vV s.scal.j))) 0 (s.vec (vV (s.scal.j + 1))) := by
    simp only [afterP, upd_apply, if_true]
  refine ⟨?_, ?_⟩
  · have hv : ∀ X : Vec K, (fun i => if vV i = vV (s.scal.j + 1) then X else (afterP A P s).vec (vV i))
        = (fun k => if k = s.scal.j + 1 then X else s.vec (vV k)) := by
      intro X
      funext i
      by_cases hi : i = s.scal.j + 1
      · subst hi; simp
      · have h1 : vV i ≠ vV (s.scal.j + 1) := fun h => hi (vV_inj _ _ h)
        simp only [if_neg h1, if_neg hi, afterP, upd_apply, vV_if_Z, if_false]
    have hz : (fun i => (afterP A P s).vec (vZ i))
        = (fun k => if k = s.scal.j then P (s.vec (vV s.scal.j)) else s.vec (vZ k)) := by
      simp only [afterP, upd_apply, vZ_if_V, if_false, vZ_if_eq]
    simp only [e1, e2, hc, step, decIn, workOf, Solver.FGMRES.step, upd_apply, vZ_if_V, if_false, hv, hz, setF]
    rfl
  · constructor <;> simp only [step, afterP, upd_apply, vX_if_V, vX_if_Z, vF_if_V, vF_if_Z, if_false]

theorem start_dec (ip : Vec K → Vec K → K) (A : CRS K) (P : Vec K → Vec K) (s : St K (GS K)) :
    decIn (run A P ip startProg s) = Solver.FGMRES.cycleStart (decSt s) ∧ Frame s (run A P ip startProg s) := by
  refine ⟨?_, ?_⟩
  · simp only [startProg, seqs, run, step, R, startS, decIn, decSt, workOf, Solver.FGMRES.cycleStart, upd_apply,
      vV_if_eq, vZ_if_V, if_false, setF]
  · constructor <;> simp only [startProg, seqs, run, step, R, startS, upd_apply, vX_if_V, vF_if_V, if_false]

theorem upd_dec (ip : Vec K → Vec K → K) (A : CRS K) (P : Vec K → Vec K) (m : St K (GS K))
    (st : Solver.FGMRES.St K) (hn : st.normR = m.scal.normR) (hx : st.x = m.vec vX) :
    decSt (run A P ip updProg m) = Solver.FGMRES.update st (decIn m) ∧
    (run A P ip updProg m).vec vF = m.vec vF ∧
    (run A P ip updProg m).scal.nrhs = m.scal.nrhs ∧
    (run A P ip updProg m).scal.epsT = m.scal.epsT := by
  simp only [updProg, seqs, run, step, R, backS, decIn, decSt, workOf, Solver.FGMRES.update, combList, upd_apply,
    vV_if_X, vZ_if_X, vF_if_X, if_false, if_true, hn, hx]
  repeat' (first | trivial | rfl | apply And.intro)

theorem head_dec (ip : Vec K → Vec K → K) (sqrt : K → K) (A : CRS K) (P : Vec K → Vec K) (s : St K (GS K)) :
    decSt (run A P ip (headProg sqrt) s) = Solver.FGMRES.head ip sqrt A (s.vec vF) (decSt s) ∧
    (run A P ip (headProg sqrt) s).vec vF = s.vec vF ∧
    (run A P ip (headProg sqrt) s).scal.nrhs = s.scal.nrhs ∧
    (run A P ip (headProg sqrt) s).scal.epsT = s.scal.epsT := by
  simp only [headProg, seqs, run, step, R, decSt, workOf, Solver.FGMRES.head, nrmA, upd_apply,
    vX_if_V, vF_if_V, vZ_if_V, vV_if_eq, if_false, if_true, setF]
  repeat' (first | trivial | rfl | apply And.intro)

theorem cycle_dec (prm : Solver.FGMRES.Params K) (ip : Vec K → Vec K → K) (sqrt : K → K) (A : CRS K)
    (P : Vec K → Vec K) (s : St K (GS K)) :
    decSt (run A P ip (cycleProg prm sqrt) s) = Solver.FGMRES.cycle prm ip sqrt A P s.scal.epsT (decSt s) ∧
    (run A P ip (cycleProg prm sqrt) s).vec vF = s.vec vF ∧
    (run A P ip (cycleProg prm sqrt) s).scal.nrhs = s.scal.nrhs ∧
    (run A P ip (cycleProg prm sqrt) s).scal.epsT = s.scal.epsT := by
  have hrun : run A P ip (cycleProg prm sqrt) s = run A P ip updProg
      (iter (fun m : St K (GS K) => contC prm.maxiter prm.M m.scal) (run A P ip (stepProg sqrt)) prm.M
        (run A P ip (stepProg sqrt) (run A P ip startProg s))) := by
    simp [cycleProg, seqs, run]
  obtain ⟨hs1, fr1⟩ := start_dec ip A P s
  obtain ⟨hs2, fr2⟩ := step_dec ip sqrt A P (run A P ip startProg s)
  have hl := iter_rel (fun (t : Solver.FGMRES.In K) (m : St K (GS K)) => decIn m = t ∧ Frame s m)
    (Solver.FGMRES.cont prm.maxiter prm.M s.scal.epsT) (fun m : St K (GS K) => contC prm.maxiter prm.M m.scal)
    (Solver.FGMRES.step ip sqrt A P) (run A P ip (stepProg sqrt))
    (fun a b hr => by
      obtain ⟨h1, h2⟩ := hr
      subst h1
      simp only [contC, Solver.FGMRES.cont, decIn, h2.eps]
      rfl)
    (fun a b hr _ => by
      obtain ⟨h1, h2⟩ := hr
      subst h1
      obtain ⟨g1, g2⟩ := step_dec ip sqrt A P b
      exact ⟨g1, h2.trans g2⟩)
    prm.M _ _ ⟨hs2, fr1.trans fr2⟩
  obtain ⟨hl1, hl2⟩ := hl
  obtain ⟨u1, u2, u3, u4⟩ := upd_dec ip A P _ (decSt s) hl2.normR.symm hl2.vx.symm
  rw [hrun, u1, u2, u3, u4, hl1, hs1]
  exact ⟨rfl, hl2.vf, hl2.nrhs, hl2.eps⟩

/-- machine state `s` stands for the model state `st` at the `break` test of the outer loop -/
structure CorrSt (f : Vec K) (nrhs epsT : K) (st : Solver.FGMRES.St K) (s : St K (GS K)) : Prop where
  vf : s.vec vF = f
  st : decSt s = st
  eps : s.scal.epsT = epsT
  nrhs : s.scal.nrhs = nrhs

theorem outer_corr (prm : Solver.FGMRES.Params K) (ip : Vec K → Vec K → K) (sqrt : K → K) (A : CRS K)
    (P : Vec K → Vec K) (f : Vec K) (nrhs epsT : K) (st : Solver.FGMRES.St K) (s : St K (GS K))
    (h : CorrSt f nrhs epsT st s) :
    CorrSt f nrhs epsT (Solver.FGMRES.outer prm ip sqrt A P f epsT prm.maxiter (Solver.FGMRES.head ip sqrt A f st))
      (run A P ip (outerProg prm sqrt) s) := by
  have hrun : run A P ip (outerProg prm sqrt) s
      = iter (fun m : St K (GS K) => goC prm.maxiter m.scal)
          (run A P ip (seqs [cycleProg prm sqrt, headProg sqrt])) prm.maxiter
          (run A P ip (headProg sqrt) s) := by
    simp [outerProg, seqs, run]
  have hhead : ∀ (st : Solver.FGMRES.St K) (s : St K (GS K)), CorrSt f nrhs epsT st s →
      CorrSt f nrhs epsT (Solver.FGMRES.head ip sqrt A f st) (run A P ip (headProg sqrt) s) := by
    intro st s h
    obtain ⟨g1, g2, g3, g4⟩ := head_dec ip sqrt A P s
    exact ⟨g2.trans h.vf, by rw [g1, h.vf, h.st], g4.trans h.eps, g3.trans h.nrhs⟩
  rw [hrun]
  unfold Solver.FGMRES.outer
  apply iter_rel (CorrSt f nrhs epsT)
  · intro a b hr
    have h1 : b.scal.iter = a.iter := congrArg Solver.FGMRES.St.iter hr.st
    have h2 : b.scal.normR = a.normR := congrArg Solver.FGMRES.St.normR hr.st
    simp only [goC, Solver.FGMRES.stop, h1, h2, hr.eps]
  · intro a b hr _
    obtain ⟨c1, c2, c3, c4⟩ := cycle_dec prm ip sqrt A P b
    have : CorrSt f nrhs epsT (Solver.FGMRES.cycle prm ip sqrt A P epsT a) (run A P ip (cycleProg prm sqrt) b) :=
      ⟨c2.trans hr.vf, by rw [c1, hr.eps, hr.st], c4.trans hr.eps, c3.trans hr.nrhs⟩
    exact hhead _ _ this
  · exact hhead _ _ h

theorem workOf_init (ws : Solver.FGMRES.Work K) (f x0 : Vec K) (sc : GS K) (hh : sc.h = ws.h) :
    workOf { vec := (initState ws f x0).vec, scal := sc } = ws := by
  obtain ⟨h, v, z⟩ := ws
  have e : ∀ i, (initState ⟨h, v, z⟩ f x0).vec (vV i) = v i := by
    intro i
    have a1 : vV i ≠ vF := by unfold vV vF; omega
    have a2 : vV i ≠ vX := by unfold vV vX; omega
    have a3 : vV i % 2 = 0 := by unfold vV; omega
    have a4 : (vV i - 2) / 2 = i := by unfold vV; omega
    simp only [initState, if_neg a1, if_neg a2, a3, if_true, a4]
  have e2 : ∀ i, (initState ⟨h, v, z⟩ f x0).vec (vZ i) = z i := by
    intro i
    have a1 : vZ i ≠ vF := by unfold vZ vF; omega
    have a2 : vZ i ≠ vX := by unfold vZ vX; omega
    have a3 : ¬ (vZ i % 2 = 0) := by unfold vZ; omega
    have a4 : (vZ i - 3) / 2 = i := by unfold vZ; omega
    simp only [initState, if_neg a1, if_neg a2, if_neg a3, a4]
  simp only [workOf, e, e2, hh]

theorem main_corr (prm : Solver.FGMRES.Params K) (ip : Vec K → Vec K → K) (sqrt : K → K) (A : CRS K)
    (P : Vec K → Vec K) (ws : Solver.FGMRES.Work K) (f x0 : Vec K) (s : St K (GS K)) (nrhs : K)
    (hvec : s.vec = (initState ws f x0).vec) (hh : s.scal.h = ws.h) (hnr : s.scal.nrhs = nrhs) :
    CorrSt f nrhs (Solver.maxK (prm.tol * nrhs) prm.abstol)
      (Solver.FGMRES.outer prm ip sqrt A P f (Solver.maxK (prm.tol * nrhs) prm.abstol) prm.maxiter
        (Solver.FGMRES.init ip sqrt A ws f x0))
      (run A P ip (outerProg prm sqrt)
        (step A P ip (.sset (fun e => { e with epsT := Solver.maxK (prm.tol * e.nrhs) prm.abstol, normR := 0, iter := 0 })) s)) := by
  unfold Solver.FGMRES.init
  apply outer_corr
  constructor
  · simp [step, hvec, initState, vF]
  · simp only [decSt, step, hvec]
    rw [workOf_init ws f x0 _ (by exact hh)]
    simp [initState, vX, vF]
  · simp [step, hnr]
  · simp [step, hnr]

/-- **the serial semantics of the FGMRES program is `Solver.FGMRES.run`**: the same `(iters, residual)`, the same `x`,
the same work arrays (`H, s, cs, sn`, all `v[i]`, `z[i]`) -/
theorem prog_eq_run (prm : Solver.FGMRES.Params K) (ip : Vec K → Vec K → K) (sqrt : K → K) (eps : K) (A : CRS K)
    (P : Vec K → Vec K) (ws : Solver.FGMRES.Work K) (f x0 : Vec K) :
    Solver.FGMRES.run prm ip sqrt eps A P ws f x0
      = (.ok (outOf (run A P ip (prog prm sqrt eps) (initState ws f x0)).scal),
         (run A P ip (prog prm sqrt eps) (initState ws f x0)).vec vX,
         workOf (run A P ip (prog prm sqrt eps) (initState ws f x0))) := by
  have hs1 : step A P ip (.ip (fun e w => { e with nrhs := Solver.absK (sqrt w) }) (R vF) (R vF)) (initState ws f x0)
      = { vec := (initState ws f x0).vec, scal := { (initState ws f x0).scal with nrhs := nrmA ip sqrt f } } := by
    simp [step, R, nrmA, initState, vF]
  unfold Solver.FGMRES.run prologueA
  simp only [prog, frame, run, hs1]
  by_cases hlt : nrmA ip sqrt f < eps
  · simp only [hlt, decide_true, if_true]
    cases hns : prm.nsSearch
    · simp only [Bool.false_eq_true, if_false, seqs, run, step, R, outOf]
      rw [show workOf _ = workOf { vec := (initState ws f x0).vec, scal := _ } from by
        simp only [workOf, upd_apply, vV_if_X, vZ_if_X, if_false]; rfl]
      rw [workOf_init ws f x0 _ (by rfl)]
      simp [upd_apply, initState, vX, vF]
    · simp only [if_true, seqs, run]
      obtain ⟨_, hst, _, hn⟩ := main_corr prm ip sqrt A P ws f x0
        (step A P ip (.sset (fun e => { e with nrhs := 1 }))
          { vec := (initState ws f x0).vec, scal := { (initState ws f x0).scal with nrhs := nrmA ip sqrt f } }) 1
        rfl rfl rfl
      generalize run A P ip (outerProg prm sqrt) _ = X at hst hn ⊢
      rw [← hst]
      simp only [step, outOf, decSt, workOf, hn]
  · simp only [hlt, decide_false, Bool.false_eq_true, if_false, seqs, run]
    obtain ⟨_, hst, _, hn⟩ := main_corr prm ip sqrt A P ws f x0
        { vec := (initState ws f x0).vec, scal := { (initState ws f x0).scal with nrhs := nrmA ip sqrt f } }
        (nrmA ip sqrt f) rfl rfl rfl
    generalize run A P ip (outerProg prm sqrt) _ = X at hst hn ⊢
    rw [← hst]
    simp only [step, outOf, decSt, workOf, hn]

end Amgcl.Lockstep.FGMRES
