import Amgcl.Model.CPR
/-!
`cpr::first_scalar_pass(K, get_app = true)` counts one `App` entry per visited block column (`App->ptr[ip+1]`), the
second pass of `init` pushes one entry per visited block column into the arrays sized by those counts.  Both loops walk
the same `B` row iterators with the same "next block column" rule, so — unless a zero pivot stopped the first pass —
the count of the first pass IS the number of entries the second pass writes: no overrun, no slot left unwritten.
No hypothesis on the rows (unsorted rows, duplicates, any `active_rows`).
-/
set_option linter.unusedSectionVars false
namespace Amgcl.CPR
open Amgcl

section widths
variable {K : Type} [Add K] [Sub K] [Mul K] [Div K] [Zero K] [One K] [DecidableEq K]

theorem appLoop_length (B N : Nat) (d : Array K) :
    ∀ (fuel : Nat) (ks : List (Row K)) (acc : Row K),
      (appLoop B N d fuel ks acc).length = acc.length + (appLoop B N d fuel ks []).length := by
  intro fuel
  induction fuel with
  | zero => intro ks acc; simp [appLoop]
  | succ fuel ih =>
    intro ks acc
    unfold appLoop
    cases curCol B N ks with
    | none => simp
    | some cur =>
      simp only
      rw [ih _ (acc ++ _), ih _ ([] ++ _)]
      simp only [List.length_append, List.length_cons, List.length_nil, List.nil_append]
      omega

theorem passLoop_cnt (B N ip : Nat) (d : Array K) :
    ∀ (fuel : Nat) (s : PassState K), (passLoop B N ip true fuel s).zeroPivot = false →
      (passLoop B N ip true fuel s).cnt = s.cnt + (appLoop B N d fuel s.ks []).length := by
  intro fuel
  induction fuel with
  | zero => intro s _; simp [passLoop, appLoop]
  | succ fuel ih =>
    intro s hz
    unfold passLoop at hz ⊢
    unfold appLoop
    cases hc : curCol B N s.ks with
    | none => simp
    | some cur =>
      simp only [hc] at hz ⊢
      by_cases hd : cur = ip
      · simp only [hd, if_true] at hz ⊢
        cases hi : invert B (diagCapture B ((ip + 1) * B) s.ks) with
        | none => rw [hi] at hz; simp at hz
        | some y =>
          simp only [hi] at hz ⊢
          rw [ih _ hz, appLoop_length B N d fuel _ ([] ++ _)]
          simp only [List.nil_append, List.length_cons, List.length_nil]
          omega
      · simp only [hd, if_false] at hz ⊢
        rw [ih _ hz, appLoop_length B N d fuel _ ([] ++ _)]
        simp only [List.nil_append, List.length_cons, List.length_nil, if_true]
        omega

/-- the first-pass count of block row `ip` is the length of the `App` row the second pass writes -/
theorem passRow_cnt_eq_appRow_length (A : CRS K) (B N ip : Nat) (d : Array K)
    (hz : (passRow A B N ip true).zeroPivot = false) :
    (passRow A B N ip true).cnt = (appRow A B N ip d).length := by
  unfold passRow appRow at *
  simp only at hz ⊢
  rw [passLoop_cnt B N ip d _ _ hz]
  simp

end widths
end Amgcl.CPR
