import Amgcl.Proofs.SkylineFactor
/-!
Transfer of a run of the skyline model along maps of the carriers: if `φ : V → V'` preserves `0`, `*`, `-` (and
`ψ : R → R'` is compatible with the action), then `factorize` / `solve` commute with the entrywise maps.  This is the
generic half of the tie between the array-backed block carrier of the driver (`SMat K b b`) and the carrier of the
theorems of `Properties/C16d.lean` (`Matrix (Fin b) (Fin b) K`): `SMat.toMatrix` is such a map.  No algebraic law of
the carriers is used.
-/
namespace Amgcl

/-- image of an outcome -/
def SkyOutcome.map {α β : Type} (f : α → β) : SkyOutcome α → SkyOutcome β
  | .precondition => .precondition
  | .ok a => .ok (f a)

namespace Skyline
variable {V V' R R' : Type}

/-- entrywise image of the object state -/
def map (φ : V → V') (ψ : R → R') (S : Skyline V R) : Skyline V' R' :=
  { n := S.n, perm := S.perm, ptr := S.ptr, L := S.L.map φ, U := S.U.map φ, D := S.D.map φ, y := S.y.map ψ }

theorem getD_map {α β : Type} [Zero α] [Zero β] (f : α → β) (h0 : f 0 = 0) (a : Array α) (i : Nat) :
    (a.map f).getD i 0 = f (a.getD i 0) := by
  unfold Array.getD
  by_cases h : i < a.size
  · simp [h]
  · simp [h, h0]

/-- `φ` preserves the operations the factorisation uses -/
structure OpHom [Zero V] [Mul V] [Sub V] [Zero V'] [Mul V'] [Sub V'] (φ : V → V') : Prop where
  zero : φ 0 = 0
  mul : ∀ a b, φ (a * b) = φ a * φ b
  sub : ∀ a b, φ (a - b) = φ a - φ b

section factor
variable [Zero V] [Mul V] [Sub V] [Zero V'] [Mul V'] [Sub V']
variable {φ : V → V'} (ψ : R → R')

theorem P_map (S : Skyline V R) (i : Nat) : (S.map φ ψ).P i = S.P i := rfl

theorem dotSub_map (h : OpHom φ) (L U : Array V) (iL iU cnt : Nat) (s : V) :
    dotSub (L.map φ) (U.map φ) iL iU cnt (φ s) = φ (dotSub L U iL iU cnt s) := by
  unfold dotSub
  apply List.foldl_hom φ
  intro x t
  rw [h.sub, h.mul, getD_map φ h.zero, getD_map φ h.zero]

theorem factorColU_map (h : OpHom φ) (S : Skyline V R) (k : Nat) :
    factorColU (S.map φ ψ) k = (factorColU S k).map φ := by
  unfold factorColU
  simp only [P_map]
  apply List.foldl_hom (Array.map φ)
  intro U i
  by_cases hi : i = 0
  · simp only [hi, if_true]
  · simp only [hi, if_false]
    have e : (map φ ψ S).D.getD i 0 = φ (S.D.getD i 0) := getD_map φ h.zero S.D i
    rw [Array.map_setIfInBounds, h.mul, ← dotSub_map h, getD_map φ h.zero, e]
    rfl

theorem factorRowL_map (h : OpHom φ) (S : Skyline V R) (U : Array V) (k : Nat) :
    factorRowL (S.map φ ψ) (U.map φ) k = (factorRowL S U k).map φ := by
  unfold factorRowL
  simp only [P_map]
  apply List.foldl_hom (Array.map φ)
  intro L i
  by_cases hi : i = 0
  · simp only [hi, if_true]
  · simp only [hi, if_false]
    rw [Array.map_setIfInBounds, ← dotSub_map h, getD_map φ h.zero]

theorem pivotSum_map (h : OpHom φ) (S : Skyline V R) (k : Nat) :
    pivotSum (S.map φ ψ) k = φ (pivotSum S k) := by
  unfold pivotSum
  simp only [P_map]
  have e : (map φ ψ S).D.getD (k + 1) 0 = φ (S.D.getD (k + 1) 0) := getD_map φ h.zero S.D (k + 1)
  rw [← dotSub_map h, e]
  rfl

theorem ext7 {W Q : Type} (A B : Skyline W Q) (h1 : A.n = B.n) (h2 : A.perm = B.perm) (h3 : A.ptr = B.ptr)
    (h4 : A.L = B.L) (h5 : A.U = B.U) (h6 : A.D = B.D) (h7 : A.y = B.y) : A = B := by
  cases A; cases B; simp_all

/-- the scaling of `U(0,k+1)` by `D[0]` -/
def scaleU (S : Skyline V R) (k : Nat) : Skyline V R :=
  if S.P (k + 1) + k + 1 = S.P (k + 2)
  then { S with U := S.U.setIfInBounds (S.P (k + 1)) (S.D.getD 0 0 * S.U.getD (S.P (k + 1)) 0) } else S

theorem factorStepLU_eq_scale (S : Skyline V R) (k : Nat) :
    factorStepLU S k = { scaleU S k with L := factorRowL (scaleU S k) (factorColU (scaleU S k) k) k,
                                          U := factorColU (scaleU S k) k } := rfl

theorem scaleU_map (h : OpHom φ) (S : Skyline V R) (k : Nat) : scaleU (S.map φ ψ) k = (scaleU S k).map φ ψ := by
  unfold scaleU
  by_cases hc : S.P (k + 1) + k + 1 = S.P (k + 2)
  · rw [if_pos hc, if_pos (show (map φ ψ S).P (k + 1) + k + 1 = (map φ ψ S).P (k + 2) from hc)]
    apply ext7 <;> try rfl
    show (S.U.map φ).setIfInBounds (S.P (k + 1)) ((S.D.map φ).getD 0 0 * (S.U.map φ).getD (S.P (k + 1)) 0)
      = (S.U.setIfInBounds (S.P (k + 1)) (S.D.getD 0 0 * S.U.getD (S.P (k + 1)) 0)).map φ
    rw [Array.map_setIfInBounds, h.mul, getD_map φ h.zero, getD_map φ h.zero]
  · rw [if_neg hc, if_neg (show ¬ (map φ ψ S).P (k + 1) + k + 1 = (map φ ψ S).P (k + 2) from hc)]

theorem factorStepLU_map (h : OpHom φ) (S : Skyline V R) (k : Nat) :
    factorStepLU (S.map φ ψ) k = (factorStepLU S k).map φ ψ := by
  rw [factorStepLU_eq_scale, factorStepLU_eq_scale, scaleU_map ψ h]
  apply ext7 <;> try rfl
  · show factorRowL (map φ ψ (scaleU S k)) (factorColU (map φ ψ (scaleU S k)) k) k
      = (factorRowL (scaleU S k) (factorColU (scaleU S k) k) k).map φ
    rw [factorColU_map ψ h, factorRowL_map ψ h]
  · exact factorColU_map ψ h _ k

theorem factorStepLU_D (S : Skyline V R) (k : Nat) : (factorStepLU S k).D = S.D := by
  rw [factorStepLU_eq_scale]
  show (scaleU S k).D = S.D
  unfold scaleU
  split <;> rfl

theorem factorStep_map (h : OpHom φ) {isZero : V → Bool} {inv : V → V} {isZero' : V' → Bool} {inv' : V' → V'}
    (S : Skyline V R) (k : Nat)
    (hz : isZero' (φ (pivotSum (factorStepLU S k) k)) = isZero (pivotSum (factorStepLU S k) k))
    (hi : φ (inv (pivotSum (factorStepLU S k) k)) = inv' (φ (pivotSum (factorStepLU S k) k))) :
    factorStep isZero' inv' (S.map φ ψ) k = (factorStep isZero inv S k).map (map φ ψ) := by
  unfold factorStep
  simp only
  rw [factorStepLU_map ψ h, pivotSum_map ψ h, hz]
  split
  · rfl
  · show SkyOutcome.ok _ = SkyOutcome.ok _
    congr 1
    apply ext7 <;> try rfl
    show ((factorStepLU S k).D.map φ).setIfInBounds (k + 1) (inv' (φ (pivotSum (factorStepLU S k) k)))
      = ((factorStepLU S k).D.setIfInBounds (k + 1) (inv (pivotSum (factorStepLU S k) k))).map φ
    rw [Array.map_setIfInBounds, hi]

theorem factorLoop_succ (isZero : V → Bool) (inv : V → V) (S : Skyline V R) (m : Nat) :
    factorLoop isZero inv S (m + 1) = match factorLoop isZero inv S m with
      | .precondition => .precondition
      | .ok S' => factorStep isZero inv S' m := rfl

/-- `G` is a set of "good" values (well-formed buffers) on which the zero test and the inverse commute with `φ`;
differences are always good -/
structure TestHom (G : V → Prop) (φ : V → V') (isZero : V → Bool) (inv : V → V) (isZero' : V' → Bool) (inv' : V' → V') :
    Prop where
  gsub : ∀ a b, G (a - b)
  isz : ∀ a, G a → isZero' (φ a) = isZero a
  inv : ∀ a, G a → φ (inv a) = inv' (φ a)

theorem dotSub_G {G : V → Prop} (hs : ∀ a b, G (a - b)) (L U : Array V) (iL iU cnt : Nat) (s : V) (h : G s) :
    G (dotSub L U iL iU cnt s) := by
  unfold dotSub
  cases cnt with
  | zero => simpa using h
  | succ n => rw [List.range_succ, List.foldl_append]; simp only [List.foldl_cons, List.foldl_nil]; exact hs _ _

theorem pivotSum_G {G : V → Prop} (hs : ∀ a b, G (a - b)) (S : Skyline V R) (k : Nat) (hD : G (S.D.getD (k + 1) 0)) :
    G (pivotSum (factorStepLU S k) k) := by
  unfold pivotSum
  apply dotSub_G hs
  rw [factorStepLU_D]; exact hD

theorem factorLoop_map {G : V → Prop} {isZero : V → Bool} {inv : V → V} {isZero' : V' → Bool} {inv' : V' → V'}
    (h : OpHom φ) (t : TestHom G φ isZero inv isZero' inv') (S : Skyline V R)
    (hD : ∀ i, 0 < i → G (S.D.getD i 0)) (m : Nat) :
    factorLoop isZero' inv' (S.map φ ψ) m = (factorLoop isZero inv S m).map (map φ ψ) ∧
    ∀ S', factorLoop isZero inv S m = .ok S' → ∀ i, m < i → G (S'.D.getD i 0) := by
  induction m with
  | zero => exact ⟨rfl, fun S' e i hi => by injection e with e; subst e; exact hD i hi⟩
  | succ m ih =>
    obtain ⟨ih1, ih2⟩ := ih
    rw [factorLoop_succ, factorLoop_succ, ih1]
    cases hl : factorLoop isZero inv S m with
    | precondition => exact ⟨rfl, fun S' e => by simp at e⟩
    | ok S1 =>
      have hg : G (pivotSum (factorStepLU S1 m) m) := pivotSum_G t.gsub S1 m (ih2 S1 hl (m + 1) (by omega))
      refine ⟨factorStep_map ψ h S1 m (t.isz _ hg) (t.inv _ hg), ?_⟩
      intro S' e i hi
      obtain ⟨_, rfl⟩ := factorStep_ok e
      show ((factorStepLU S1 m).D.setIfInBounds (m + 1) _).getD i 0 ∈ {a | G a}
      rw [Arr2.getD_setIfInBounds_ne _ _ _ (by omega), factorStepLU_D]
      exact ih2 S1 hl i (by omega)

/-- **`factorize()` commutes with the entrywise image** when every diagonal entry of the incoming storage is good -/
theorem factorize_map {G : V → Prop} {isZero : V → Bool} {inv : V → V} {isZero' : V' → Bool} {inv' : V' → V'}
    (h : OpHom φ) (t : TestHom G φ isZero inv isZero' inv') (S : Skyline V R) (hD : ∀ i, G (S.D.getD i 0)) :
    factorize isZero' inv' (S.map φ ψ) = (factorize isZero inv S).map (map φ ψ) := by
  by_cases hn : S.n = 0
  · rw [factorize_empty hn, factorize_empty (S := S.map φ ψ) hn]; rfl
  · rw [factorize_of_pos hn, factorize_of_pos (S := S.map φ ψ) hn]
    have e0 : (map φ ψ S).D.getD 0 0 = φ (S.D.getD 0 0) := getD_map φ h.zero S.D 0
    rw [e0, t.isz _ (hD 0)]
    split
    · rfl
    · rw [← t.inv _ (hD 0)]
      have := (factorLoop_map ψ h t { S with D := S.D.setIfInBounds 0 (inv (S.D.getD 0 0)) } (by
        intro i hi
        show (S.D.setIfInBounds 0 _).getD i 0 ∈ {a | G a}
        rw [Arr2.getD_setIfInBounds_ne _ _ _ (by omega)]; exact hD i) (S.n - 1)).1
      have es : ({ map φ ψ S with D := (map φ ψ S).D.setIfInBounds 0 (φ (inv (S.D.getD 0 0))) } : Skyline V' R')
          = map φ ψ { S with D := S.D.setIfInBounds 0 (inv (S.D.getD 0 0)) } := by
        apply ext7 <;> try rfl
        show (S.D.map φ).setIfInBounds 0 (φ (inv (S.D.getD 0 0))) = (S.D.setIfInBounds 0 (inv (S.D.getD 0 0))).map φ
        rw [Array.map_setIfInBounds]
      rw [es]
      exact this

theorem map_setD (S : Skyline V R) (i : Nat) (v : V) :
    ({ map φ ψ S with D := (map φ ψ S).D.setIfInBounds i (φ v) } : Skyline V' R')
      = map φ ψ { S with D := S.D.setIfInBounds i v } := by
  apply ext7 <;> try rfl
  show (S.D.map φ).setIfInBounds i (φ v) = (S.D.setIfInBounds i v).map φ
  rw [Array.map_setIfInBounds]

/-- the pivot candidates of the image run are the images of the pivot candidates, and they are good values -/
theorem pivots_map {G : V → Prop} {isZero : V → Bool} {inv : V → V} {isZero' : V' → Bool} {inv' : V' → V'}
    (h : OpHom φ) (t : TestHom G φ isZero inv isZero' inv') (S : Skyline V R) (hD : ∀ i, G (S.D.getD i 0))
    (k : Nat) (Sk' : Skyline V' R')
    (hrun : factorLoop isZero' inv'
      { map φ ψ S with D := (map φ ψ S).D.setIfInBounds 0 (inv' ((map φ ψ S).D.getD 0 0)) } k = .ok Sk') :
    ∃ Sk, factorLoop isZero inv { S with D := S.D.setIfInBounds 0 (inv (S.D.getD 0 0)) } k = .ok Sk ∧
      G (pivotSum (factorStepLU Sk k) k) ∧
      pivotSum (factorStepLU Sk' k) k = φ (pivotSum (factorStepLU Sk k) k) := by
  have e0 : (map φ ψ S).D.getD 0 0 = φ (S.D.getD 0 0) := getD_map φ h.zero S.D 0
  rw [e0, ← t.inv _ (hD 0), map_setD] at hrun
  have hS1 : ∀ i, 0 < i → G (({ S with D := S.D.setIfInBounds 0 (inv (S.D.getD 0 0)) } : Skyline V R).D.getD i 0) := by
    intro i hi
    show (S.D.setIfInBounds 0 _).getD i 0 ∈ {a | G a}
    rw [Arr2.getD_setIfInBounds_ne _ _ _ (by omega)]; exact hD i
  obtain ⟨hm1, hm2⟩ := factorLoop_map ψ h t { S with D := S.D.setIfInBounds 0 (inv (S.D.getD 0 0)) } hS1 k
  rw [hm1] at hrun
  cases hl : factorLoop isZero inv { S with D := S.D.setIfInBounds 0 (inv (S.D.getD 0 0)) } k with
  | precondition => rw [hl] at hrun; simp [SkyOutcome.map] at hrun
  | ok Sk =>
    rw [hl] at hrun
    have e : map φ ψ Sk = Sk' := by
      simp only [SkyOutcome.map] at hrun
      injection hrun
    refine ⟨Sk, rfl, pivotSum_G t.gsub Sk k (hm2 Sk hl (k + 1) (by omega)), ?_⟩
    rw [← e, factorStepLU_map ψ h, pivotSum_map ψ h]

end factor
section solve
variable [Zero V] [Zero V'] [Zero R] [Sub R] [HMul V R R] [Zero R'] [Sub R'] [HMul V' R' R']
variable {φ : V → V'} {ψ : R → R'}

/-- `ψ` is compatible with the product `V * R → R` and with `-` -/
structure ActHom (φ : V → V') (ψ : R → R') : Prop where
  zeroV : φ 0 = 0
  zero : ψ 0 = 0
  act : ∀ (a : V) (r : R), ψ (a * r) = φ a * ψ r
  sub : ∀ r s : R, ψ (r - s) = ψ r - ψ s

theorem fwdStep_map (h : ActHom φ ψ) (S : Skyline V R) (rhs y : Array R) (i : Nat) :
    fwdStep (S.map φ ψ) (rhs.map ψ) (y.map ψ) i = (fwdStep S rhs y i).map ψ := by
  unfold fwdStep
  show (y.map ψ).setIfInBounds i ((S.D.map φ).getD i 0 * (List.range' (S.P i) (S.P (i + 1) - S.P i)).foldl
      (fun s k => s - (S.L.map φ).getD k 0 * (y.map ψ).getD (i + k - S.P (i + 1)) 0)
      ((rhs.map ψ).getD (S.perm.getD i 0) 0)) = _
  rw [Array.map_setIfInBounds, h.act, getD_map φ h.zeroV, getD_map ψ h.zero]
  congr 2
  apply List.foldl_hom ψ
  intro x k
  rw [h.sub, h.act, getD_map φ h.zeroV, getD_map ψ h.zero]

theorem bwdStep_map (h : ActHom φ ψ) (S : Skyline V R) (y : Array R) (j : Nat) :
    bwdStep (S.map φ ψ) (y.map ψ) j = (bwdStep S y j).map ψ := by
  unfold bwdStep
  show (List.range' (S.P j) (S.P (j + 1) - S.P j)).foldl (fun y k =>
      y.setIfInBounds (j + k - S.P (j + 1)) (y.getD (j + k - S.P (j + 1)) 0 - (S.U.map φ).getD k 0 * y.getD j 0)) (y.map ψ) = _
  apply List.foldl_hom (Array.map ψ)
  intro y k
  rw [Array.map_setIfInBounds, h.sub, h.act, getD_map φ h.zeroV, getD_map ψ h.zero, getD_map ψ h.zero]

/-- **`operator()` commutes with the entrywise image** -/
theorem solve_map (h : ActHom φ ψ) (S : Skyline V R) (rhs x : Array R) :
    solve (S.map φ ψ) (rhs.map ψ) (x.map ψ) = ((solve S rhs x).1.map ψ, (solve S rhs x).2.map ψ) := by
  unfold solve
  have e1 : (List.range S.n).foldl (fwdStep (S.map φ ψ) (rhs.map ψ)) (S.y.map ψ)
      = ((List.range S.n).foldl (fwdStep S rhs) S.y).map ψ :=
    List.foldl_hom (Array.map ψ) (fun y i => fwdStep_map h S rhs y i)
  have e2 : ∀ Y : Array R, (List.range S.n).reverse.foldl (bwdStep (S.map φ ψ)) (Y.map ψ)
      = ((List.range S.n).reverse.foldl (bwdStep S) Y).map ψ :=
    fun Y => List.foldl_hom (Array.map ψ) (fun y j => bwdStep_map h S y j)
  have e3 : ∀ Y : Array R, (List.range S.n).foldl (fun x i => x.setIfInBounds (S.perm.getD i 0) ((Y.map ψ).getD i 0)) (x.map ψ)
      = ((List.range S.n).foldl (fun x i => x.setIfInBounds (S.perm.getD i 0) (Y.getD i 0)) x).map ψ :=
    fun Y => List.foldl_hom (Array.map ψ) (fun x i => by rw [Array.map_setIfInBounds, getD_map ψ h.zero])
  show ((List.range S.n).foldl (fun x i => x.setIfInBounds (S.perm.getD i 0)
        (((List.range S.n).reverse.foldl (bwdStep (S.map φ ψ))
          ((List.range S.n).foldl (fwdStep (S.map φ ψ) (rhs.map ψ)) (S.y.map ψ))).getD i 0)) (x.map ψ),
      (List.range S.n).reverse.foldl (bwdStep (S.map φ ψ))
          ((List.range S.n).foldl (fwdStep (S.map φ ψ) (rhs.map ψ)) (S.y.map ψ))) = _
  rw [e1, e2, e3]

end solve

/-! ### the constructor -/
section build
variable [Zero V] [Zero V'] [Zero R] [Zero R']

theorem getD_map' {α β : Type} (f : α → β) (a : Array α) (i : Nat) (d : α) (d' : β) (h : f d = d') :
    (a.map f).getD i d' = f (a.getD i d) := by
  unfold Array.getD
  by_cases hi : i < a.size
  · simp [hi]
  · simp [hi, h]

theorem foldl_hom_mem {α₁ α₂ β : Type} (f : α₁ → α₂) (g₁ : α₁ → β → α₁) (g₂ : α₂ → β → α₂) (l : List β)
    (H : ∀ x, ∀ y ∈ l, g₂ (f x) y = f (g₁ x y)) (init : α₁) : l.foldl g₂ (f init) = f (l.foldl g₁ init) := by
  induction l generalizing init with
  | nil => rfl
  | cons a t ih =>
    simp only [List.foldl_cons]
    rw [H init a List.mem_cons_self]
    exact ih (fun x y hy => H x y (List.mem_cons_of_mem _ hy)) _

/-- entrywise image of a CRS matrix -/
def _root_.Amgcl.CRS.mapVal (φ : V → V') (A : CRS V) : CRS V' :=
  ⟨A.ncols, A.rows.map (fun r => r.map (fun cv => (cv.1, φ cv.2)))⟩

theorem row_mapVal (φ : V → V') (A : CRS V) (i : Nat) :
    (A.mapVal φ).row i = (A.row i).map (fun cv => (cv.1, φ cv.2)) := by
  unfold CRS.row CRS.mapVal
  exact getD_map' _ A.rows i [] [] rfl

theorem nrows_mapVal (φ : V → V') (A : CRS V) : (A.mapVal φ).nrows = A.nrows := by
  unfold CRS.nrows CRS.mapVal; simp

theorem profileLens_mapVal (φ : V → V') (isZero : V → Bool) (isZero' : V' → Bool) (A : CRS V) (n : Nat) (ip : Array Nat)
    (hz : ∀ i, ∀ cv ∈ A.row i, isZero' (φ cv.2) = isZero cv.2) :
    profileLens isZero' (A.mapVal φ) n ip = profileLens isZero A n ip := by
  unfold profileLens
  apply foldl_congr_mem
  intro ptr i _
  rw [row_mapVal, List.foldl_map]
  apply foldl_congr_mem
  intro ptr cv hcv
  simp only [hz i cv hcv]

theorem fillLUD_mapVal (φ : V → V') (h0 : φ 0 = 0) (isZero : V → Bool) (isZero' : V' → Bool) (A : CRS V) (n : Nat)
    (ip ptr : Array Nat) (hz : ∀ i, ∀ cv ∈ A.row i, isZero' (φ cv.2) = isZero cv.2)
    (LUD : Array V × Array V × Array V) :
    fillLUD isZero' (A.mapVal φ) n ip ptr (LUD.1.map φ, LUD.2.1.map φ, LUD.2.2.map φ)
      = ((fillLUD isZero A n ip ptr LUD).1.map φ, (fillLUD isZero A n ip ptr LUD).2.1.map φ,
         (fillLUD isZero A n ip ptr LUD).2.2.map φ) := by
  unfold fillLUD
  apply List.foldl_hom (fun X : Array V × Array V × Array V => (X.1.map φ, X.2.1.map φ, X.2.2.map φ))
  intro X i
  rw [row_mapVal, List.foldl_map]
  apply foldl_hom_mem (fun X : Array V × Array V × Array V => (X.1.map φ, X.2.1.map φ, X.2.2.map φ))
  intro X cv hcv
  simp only [hz i cv hcv]
  split
  · split
    · simp only [Array.map_setIfInBounds]
    · split
      · simp only [Array.map_setIfInBounds]
      · simp only [Array.map_setIfInBounds]
  · rfl

/-- **the constructor commutes with the entrywise image** -/
theorem build_mapVal (φ : V → V') (ψ : R → R') (h0 : φ 0 = 0) (hψ : ψ 0 = 0) (isZero : V → Bool) (isZero' : V' → Bool)
    (A : CRS V) (perm : Array Nat) (hz : ∀ i, ∀ cv ∈ A.row i, isZero' (φ cv.2) = isZero cv.2) :
    build (R := R') isZero' (A.mapVal φ) perm = (build (R := R) isZero A perm).map φ ψ := by
  unfold build
  simp only [nrows_mapVal, profileLens_mapVal φ isZero isZero' A _ _ hz]
  have hf := fillLUD_mapVal φ h0 isZero isZero' A A.nrows (invPerm A.nrows perm)
    (prefixPtr A.nrows (profileLens isZero A A.nrows (invPerm A.nrows perm))) hz
    (Array.replicate ((prefixPtr A.nrows (profileLens isZero A A.nrows (invPerm A.nrows perm))).getD A.nrows 0) 0,
     Array.replicate ((prefixPtr A.nrows (profileLens isZero A A.nrows (invPerm A.nrows perm))).getD A.nrows 0) 0,
     Array.replicate A.nrows 0)
  simp only [Array.map_replicate, h0] at hf
  apply ext7
  · rfl
  · rfl
  · rfl
  · exact congrArg (·.1) hf
  · exact congrArg (·.2.1) hf
  · exact congrArg (·.2.2) hf
  · show Array.replicate A.nrows (0 : R') = (Array.replicate A.nrows (0 : R)).map ψ
    rw [Array.map_replicate, hψ]

end build

/-! ### hypotheses of the end-to-end theorems along `CRS.mapVal` -/
section crs

theorem ncols_mapVal (φ : V → V') (A : CRS V) : (A.mapVal φ).ncols = A.ncols := rfl

theorem wf_mapVal (φ : V → V') (A : CRS V) (h : A.WF) : (A.mapVal φ).WF := by
  intro r hr cv hcv
  have hr' : r ∈ (A.rows.map (fun r => r.map (fun cv => (cv.1, φ cv.2)))).toList := hr
  rw [Array.toList_map, List.mem_map] at hr'
  obtain ⟨r0, hr0, rfl⟩ := hr'
  rw [List.mem_map] at hcv
  obtain ⟨cv0, hcv0, rfl⟩ := hcv
  exact h r0 hr0 cv0 hcv0

theorem nodup_mapVal [Zero V] [Zero V'] (φ : V → V') (A : CRS V) (h : ∀ i, ((A.row i).map (·.1)).Nodup) :
    ∀ i, (((A.mapVal φ).row i).map (·.1)).Nodup := by
  intro i
  rw [row_mapVal, List.map_map]
  exact h i

theorem get_mapVal [Zero V] [Add V] [Zero V'] [Add V'] (φ : V → V') (h0 : φ 0 = 0)
    (hadd : ∀ a b, φ (a + b) = φ a + φ b) (A : CRS V) (i j : Nat) : (A.mapVal φ).get i j = φ (A.get i j) := by
  unfold CRS.get
  rw [row_mapVal]
  unfold rowGet
  rw [List.foldr_map]
  have := List.foldr_hom φ (g₁ := fun (cv : Nat × V) s => if cv.1 = j then cv.2 + s else s)
    (g₂ := fun (cv : Nat × V) s => if cv.1 = j then φ cv.2 + s else s) (l := A.row i) (init := 0)
    (by intro x y; by_cases hx : x.1 = j
        · simp only [hx, if_true]; rw [hadd]
        · simp only [hx, if_false])
  rw [h0] at this
  exact this

theorem foldl_inv_mem {α β : Type} (Q : β → Prop) (f : β → α → β) (l : List α) (b : β) (hb : Q b)
    (h : ∀ b, ∀ a ∈ l, Q b → Q (f b a)) : Q (l.foldl f b) := by
  induction l generalizing b with
  | nil => exact hb
  | cons a t ih =>
    simp only [List.foldl_cons]
    exact ih _ (h b a List.mem_cons_self hb) (fun b a ha => h b a (List.mem_cons_of_mem _ ha))

/-- every diagonal entry the constructor stores is `0` or a stored value of the matrix -/
theorem build_D_good [Zero V] [Zero R] (G : V → Prop) (g0 : G 0) (isZero : V → Bool) (A : CRS V) (perm : Array Nat)
    (hA : ∀ i, ∀ cv ∈ A.row i, G cv.2) : ∀ i, G ((build (R := R) isZero A perm).D.getD i 0) := by
  unfold build
  show ∀ i, G ((fillLUD isZero A A.nrows _ _ _).2.2.getD i 0)
  unfold fillLUD
  apply foldl_inv (fun X : Array V × Array V × Array V => ∀ i, G (X.2.2.getD i 0))
  · intro i
    show G ((Array.replicate A.nrows (0 : V)).getD i 0)
    unfold Array.getD
    split
    · simp only [Array.getInternal_eq_getElem, Array.getElem_replicate]; exact g0
    · exact g0
  · intro X i hX
    apply foldl_inv_mem (fun X : Array V × Array V × Array V => ∀ i, G (X.2.2.getD i 0)) _ _ _ hX
    intro X cv hcv hX
    simp only
    split
    · split
      · exact hX
      · split
        · intro i'
          show G ((X.2.2.setIfInBounds _ cv.2).getD i' 0)
          rw [Arr2.getD_setIfInBounds]
          split
          · exact hA i cv hcv
          · exact hX i'
        · exact hX
    · exact hX

end crs

end Skyline
end Amgcl
