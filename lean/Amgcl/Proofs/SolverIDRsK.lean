import Amgcl.Proofs.SolverIDRs1
import Mathlib.Algebra.BigOperators.Intervals
import Mathlib.Tactic.Ring
import Mathlib.Tactic.FieldSimp
/-!
IDR(s), general `s` (C05): what the small loops of one `k`-step of `Model/SolverIDRs.lean` compute.

* `foldl_drop_range_inv`   invariant of a `for (i = k; i < s; ++i)` loop (`(List.range s).drop k`);
* `solveC_c`               the triangular solve: row `i` of `M[k..s,k..s] c = f[k..s)` holds whenever `M(i,i) ≠ 0`, entries of
                           `c` outside `[k,s)` are untouched;
* `kM_spec`, `kf_spec`     the new column of `M`, the update of `f`;
* `bodyF_spec`             the right-hand side `f = P'r` at the start of a pass.
-/
namespace Amgcl.Solver.IDRs
open Amgcl Amgcl.Solver Finset
set_option linter.unusedSectionVars false
set_option linter.unusedSimpArgs false
set_option linter.unusedVariables false

section folds
variable {σ : Type}

theorem drop_range_succ (k s : ℕ) (hks : k ≤ s) :
    (List.range (s + 1)).drop k = (List.range s).drop k ++ [s] := by
  rw [List.range_succ, List.drop_append_of_le_length (by rw [List.length_range]; exact hks)]

/-- invariant of a `for (i = k; i < s; ++i)` loop -/
theorem foldl_drop_range_inv (f : σ → ℕ → σ) (I : ℕ → σ → Prop) (k : ℕ) :
    ∀ (s : ℕ), k ≤ s → ∀ a, I k a → (∀ i a, k ≤ i → i < s → I i a → I (i + 1) (f a i)) →
      I s (((List.range s).drop k).foldl f a) := by
  intro s
  induction s with
  | zero =>
    intro hks a h0 _
    have : k = 0 := by omega
    subst this
    simpa using h0
  | succ s ih =>
    intro hks a h0 hstep
    by_cases hk : k = s + 1
    · subst hk
      have : (List.range (s + 1)).drop (s + 1) = [] := by
        apply List.drop_eq_nil_of_le; rw [List.length_range]
      rw [this]; exact h0
    · have hks' : k ≤ s := by omega
      rw [drop_range_succ k s hks', List.foldl_append]
      exact hstep s _ hks' (Nat.lt_succ_self s) (ih hks' a h0 (fun i a h1 h2 => hstep i a h1 (by omega)))

end folds

variable {K : Type} [Field K] [DecidableEq K] [LT K] [DecidableLT K]

/-- the inner loop of the triangular solve: `c[i] -= Σ_{k ≤ j < i} M(i,j) c[j]` -/
theorem solveC_inner (M : FArr2 K) (k i : ℕ) (hki : k ≤ i) (c0 : FArr K) :
    let c1 := ((List.range i).drop k).foldl (fun (c : FArr K) j => setF c i (c.get i - M.get i j * c.get j)) c0
    c1.get i = c0.get i - ∑ j ∈ Ico k i, M.get i j * c0.get j ∧ ∀ t, t ≠ i → c1.get t = c0.get t := by
  apply foldl_drop_range_inv (fun (c : FArr K) j => setF c i (c.get i - M.get i j * c.get j))
    (fun m (c : FArr K) => c.get i = c0.get i - ∑ j ∈ Ico k m, M.get i j * c0.get j ∧ ∀ t, t ≠ i → c.get t = c0.get t)
    k i hki c0
  · simp
  · intro j c hkj hji ⟨h1, h2⟩
    refine ⟨?_, fun t ht => ?_⟩
    · rw [setF_same, h1, h2 j (by omega), sum_Ico_succ_top hkj]; ring
    · rw [setF_other _ _ _ _ ht]; exact h2 t ht

/-- **the triangular solve of a `k`-step**: every row `i ∈ [k,s)` with `M(i,i) ≠ 0` is satisfied by the computed `c`,
`M(i,i)·c_i + Σ_{k ≤ l < i} M(i,l)·c_l = f_i`; entries outside `[k,s)` keep their old value -/
theorem solveC_c (s k : ℕ) (hks : k ≤ s) (w : Work K) (v0 : Vec K) :
    (∀ i, k ≤ i → i < s → w.M.get i i ≠ 0 →
      w.M.get i i * (solveC s k w v0).1.get i + ∑ l ∈ Ico k i, w.M.get i l * (solveC s k w v0).1.get l = w.f.get i) ∧
    (∀ t, (t < k ∨ s ≤ t) → (solveC s k w v0).1.get t = w.c.get t) := by
  unfold solveC
  have h := foldl_drop_range_inv
    (fun (acc : FArr K × Vec K) i =>
      ((setF (((List.range i).drop k).foldl (fun (c : FArr K) j => setF c i (c.get i - w.M.get i j * c.get j))
            (setF acc.1 i (w.f.get i))) i
          (inv1 (w.M.get i i) * (((List.range i).drop k).foldl
            (fun (c : FArr K) j => setF c i (c.get i - w.M.get i j * c.get j)) (setF acc.1 i (w.f.get i))).get i)),
       axpby (-((setF (((List.range i).drop k).foldl (fun (c : FArr K) j => setF c i (c.get i - w.M.get i j * c.get j))
            (setF acc.1 i (w.f.get i))) i
          (inv1 (w.M.get i i) * (((List.range i).drop k).foldl
            (fun (c : FArr K) j => setF c i (c.get i - w.M.get i j * c.get j)) (setF acc.1 i (w.f.get i))).get i)).get i))
          (w.G.get i) 1 acc.2))
    (fun m (acc : FArr K × Vec K) =>
      (∀ i, k ≤ i → i < m → w.M.get i i ≠ 0 →
        w.M.get i i * acc.1.get i + ∑ l ∈ Ico k i, w.M.get i l * acc.1.get l = w.f.get i) ∧
      (∀ t, (t < k ∨ m ≤ t) → acc.1.get t = w.c.get t))
    k s hks (w.c, v0) ⟨fun i h1 h2 => absurd h2 (by omega), fun _ _ => rfl⟩
    (by
      intro i acc hki his ⟨h1, h2⟩
      obtain ⟨g1, g2⟩ := solveC_inner w.M k i hki (setF acc.1 i (w.f.get i))
      refine ⟨fun i' hk' hi' hne => ?_, fun t ht => ?_⟩
      · by_cases hii : i' = i
        · subst hii
          rw [setF_same, g1, setF_same]
          have hsum : ∑ l ∈ Ico k i', w.M.get i' l * (setF (((List.range i').drop k).foldl
                (fun (c : FArr K) j => setF c i' (c.get i' - w.M.get i' j * c.get j)) (setF acc.1 i' (w.f.get i'))) i'
                (inv1 (w.M.get i' i') * (w.f.get i' - ∑ j ∈ Ico k i', w.M.get i' j * (setF acc.1 i' (w.f.get i')).get j))).get l
              = ∑ l ∈ Ico k i', w.M.get i' l * acc.1.get l := by
            apply sum_congr rfl
            intro l hl
            have hl' : l ≠ i' := by have := (mem_Ico.mp hl).2; omega
            rw [setF_other _ _ _ _ hl', g2 l hl', setF_other _ _ _ _ hl']
          have hsum2 : ∑ j ∈ Ico k i', w.M.get i' j * (setF acc.1 i' (w.f.get i')).get j
              = ∑ l ∈ Ico k i', w.M.get i' l * acc.1.get l := by
            apply sum_congr rfl
            intro l hl
            have hl' : l ≠ i' := by have := (mem_Ico.mp hl).2; omega
            rw [setF_other _ _ _ _ hl']
          rw [hsum, hsum2]
          unfold inv1
          field_simp
          ring
        · have hlt : i' < i := by omega
          have hsum : ∑ l ∈ Ico k i', w.M.get i' l * (setF (((List.range i).drop k).foldl
                (fun (c : FArr K) j => setF c i (c.get i - w.M.get i j * c.get j)) (setF acc.1 i (w.f.get i))) i
                (inv1 (w.M.get i i) * (((List.range i).drop k).foldl
                  (fun (c : FArr K) j => setF c i (c.get i - w.M.get i j * c.get j)) (setF acc.1 i (w.f.get i))).get i)).get l
              = ∑ l ∈ Ico k i', w.M.get i' l * acc.1.get l := by
            apply sum_congr rfl
            intro l hl
            have hl' : l ≠ i := by have := (mem_Ico.mp hl).2; omega
            rw [setF_other _ _ _ _ hl', g2 l hl', setF_other _ _ _ _ hl']
          rw [setF_other _ _ _ _ hii, g2 i' hii, setF_other _ _ _ _ hii, hsum]
          exact h1 i' hk' hlt hne
      · have hti : t ≠ i := by rcases ht with h | h <;> omega
        rw [setF_other _ _ _ _ hti, g2 t hti, setF_other _ _ _ _ hti]
        exact h2 t (by rcases ht with h | h; exact Or.inl h; exact Or.inr (by omega)))
  exact h

/-- the new column `k` of `M`: `M(i,k) = ⟨G[k], P[i]⟩` for `k ≤ i < s`, everything else untouched -/
theorem kM_spec (prm : Params K) (ip : Vec K → Vec K → K) (A : CRS K) (Prec : Vec K → Vec K) (Pv : FArr (Vec K))
    (k : ℕ) (hks : k ≤ prm.s) (st : St K) :
    (∀ i, k ≤ i → i < prm.s → (kM prm ip A Prec Pv k st).get i k = ip (kgu prm ip A Prec Pv k st).1 (Pv.get i)) ∧
    (∀ a b, (b ≠ k ∨ a < k ∨ prm.s ≤ a) → (kM prm ip A Prec Pv k st).get a b = st.w.M.get a b) := by
  unfold kM
  have h := foldl_drop_range_inv (fun (M : FArr2 K) i => setF2 M i k (ip (kgu prm ip A Prec Pv k st).1 (Pv.get i)))
    (fun m (M : FArr2 K) =>
      (∀ i, k ≤ i → i < m → M.get i k = ip (kgu prm ip A Prec Pv k st).1 (Pv.get i)) ∧
      (∀ a b, (b ≠ k ∨ a < k ∨ m ≤ a) → M.get a b = st.w.M.get a b))
    k prm.s hks st.w.M ⟨fun i h1 h2 => absurd h2 (by omega), fun _ _ _ => rfl⟩
    (by
      intro i M hki his ⟨h1, h2⟩
      refine ⟨fun i' hk' hi' => ?_, fun a b hab => ?_⟩
      · rw [setF2_get]
        by_cases hii : i' = i
        · rw [if_pos ⟨hii, rfl⟩, hii]
        · rw [if_neg (fun h => hii h.1)]; exact h1 i' hk' (by omega)
      · rw [setF2_get]
        have : ¬ (a = i ∧ b = k) := by
          rintro ⟨rfl, rfl⟩
          rcases hab with h | h | h
          · exact h rfl
          · omega
          · omega
        rw [if_neg this]
        exact h2 a b (by rcases hab with h | h | h; exact Or.inl h; exact Or.inr (Or.inl h); exact Or.inr (Or.inr (by omega))))
  exact h

/-- the block `res_norm = norm(*r); if (smoothing) {…}` writes `t`, `r_s`, `x_s` only -/
theorem post_fields (prm : Params K) (ip : Vec K → Vec K → K) (sqrt : K → K) (w : Work K) (x : Vec K) :
    (post prm ip sqrt w x).1.r = w.r ∧ (post prm ip sqrt w x).1.G = w.G ∧ (post prm ip sqrt w x).1.U = w.U ∧
    (post prm ip sqrt w x).1.M = w.M ∧ (post prm ip sqrt w x).1.f = w.f := by
  unfold post
  split
  · exact ⟨rfl, rfl, rfl, rfl, rfl⟩
  · exact ⟨rfl, rfl, rfl, rfl, rfl⟩

/-- the update of `f` after the `beta` step: `f[i] -= beta·M(i,k)` for `k < i < s` -/
theorem kf_spec (prm : Params K) (ip : Vec K → Vec K → K) (sqrt : K → K) (A : CRS K)
    (Prec : Vec K → Vec K) (Pv : FArr (Vec K)) (k : ℕ) (hks : k < prm.s) (st : St K) :
    (∀ i, k < i → i < prm.s → (kf prm ip sqrt A Prec Pv k st).get i
      = st.w.f.get i - kbeta prm ip A Prec Pv k st * (kM prm ip A Prec Pv k st).get i k) ∧
    (∀ t, (t ≤ k ∨ prm.s ≤ t) → (kf prm ip sqrt A Prec Pv k st).get t = st.w.f.get t) := by
  have hbase : (kpost prm ip sqrt A Prec Pv k st).1.f = st.w.f := by
    unfold kpost; rw [(post_fields prm ip sqrt _ _).2.2.2.2]; rfl
  unfold kf
  rw [hbase]
  have h := foldl_drop_range_inv
    (fun (f : FArr K) i => setF f i (f.get i - kbeta prm ip A Prec Pv k st * (kM prm ip A Prec Pv k st).get i k))
    (fun m (f : FArr K) =>
      (∀ i, k < i → i < m → f.get i = st.w.f.get i - kbeta prm ip A Prec Pv k st * (kM prm ip A Prec Pv k st).get i k) ∧
      (∀ t, (t ≤ k ∨ m ≤ t) → f.get t = st.w.f.get t))
    (k + 1) prm.s hks st.w.f ⟨fun i h1 h2 => absurd h2 (by omega), fun _ _ => rfl⟩
    (by
      intro i f hki his ⟨h1, h2⟩
      refine ⟨fun i' hk' hi' => ?_, fun t ht => ?_⟩
      · rw [setF_get]
        by_cases hii : i' = i
        · rw [if_pos hii, hii, h2 i (Or.inr (Nat.le_refl i))]
        · rw [if_neg hii]; exact h1 i' hk' (by omega)
      · have hti : t ≠ i := by rcases ht with h | h <;> omega
        rw [setF_other _ _ _ _ hti]
        exact h2 t (by rcases ht with h | h; exact Or.inl h; exact Or.inr (by omega)))
  exact h

/-- the right-hand side of the small system at the start of a pass: `f[i] = ⟨r, P[i]⟩`, `i < s`; nothing else changes -/
theorem bodyF_spec (prm : Params K) (ip : Vec K → Vec K → K) (Pv : FArr (Vec K)) (st : St K) :
    (∀ i, i < prm.s → (bodyF prm ip Pv st).w.f.get i = ip st.w.r (Pv.get i)) ∧
    (bodyF prm ip Pv st).w.M = st.w.M ∧ (bodyF prm ip Pv st).w.G = st.w.G ∧ (bodyF prm ip Pv st).w.U = st.w.U ∧
    (bodyF prm ip Pv st).w.r = st.w.r ∧ (bodyF prm ip Pv st).om = st.om ∧ (bodyF prm ip Pv st).x = st.x ∧
    (bodyF prm ip Pv st).iter = st.iter ∧ (bodyF prm ip Pv st).resNorm = st.resNorm := by
  refine ⟨?_, rfl, rfl, rfl, rfl, rfl, rfl, rfl, rfl⟩
  show ∀ i, i < prm.s → ((List.range prm.s).foldl (fun (f : FArr K) i => setF f i (ip st.w.r (Pv.get i))) st.w.f).get i = _
  have h := foldl_range_inv (fun (f : FArr K) i => setF f i (ip st.w.r (Pv.get i)))
    (fun m (f : FArr K) => ∀ i, i < m → f.get i = ip st.w.r (Pv.get i)) prm.s st.w.f
    (fun i hi => absurd hi (Nat.not_lt_zero i))
    (by
      intro k f hk h1 i hi
      rw [setF_get]
      by_cases hik : i = k
      · rw [if_pos hik, hik]
      · rw [if_neg hik]; exact h1 i (by omega))
  exact h

end Amgcl.Solver.IDRs
