import Amgcl.Proofs.QRCompute
/-!
`QR::factorize` (ZUNG2R, `Model/QR.lean: factorizeS`): the explicit `Q`.

`orgStep_spec` — what one iteration of the backward loop does to the cells of `q`; `org_inv` — after the iterations
`k-1, …, i` the columns `≥ i` of `q` are those of `H_i·…·H_{k-1}·E` (`E` the `m×n` identity pattern), whatever `q` held before
(stale content of a reused object is overwritten); `factorize_q` — on return `q = Q_full·E`.
-/
set_option linter.unusedSectionVars false
namespace Amgcl
namespace QRModel
open Finset Matrix Arr2

variable {K : Type} [Field K] [LinearOrder K] [IsStrictOrderedRing K]

/-- the initialisation loop of `factorize` (columns `k..n-1`) -/
def orgInit (m n rs cs k : Nat) (q : Array K) : Array K :=
  (List.range m).foldl (fun q i =>
    (List.range' k (n - k)).foldl (fun q j => q.setIfInBounds (i * rs + j * cs) (if i = j then 1 else 0)) q) q

/-- the body of the backward loop of `factorize` -/
def orgStep (m n rs cs : Nat) (F tau : Array K) (q : Array K) (i : Nat) : Array K :=
  let ic := i * cs
  let ii := i * (rs + cs)
  let t := tau.getD i 0
  let q := if i + 1 < n then applyReflector (m - i) (n - i - 1) F ii rs t q (ii + cs) rs cs else q
  let q := (List.range i).foldl (fun q j => q.setIfInBounds (j * rs + ic) 0) q
  let q := q.setIfInBounds ii (1 - t)
  (List.range' (i + 1) (m - (i + 1))).foldl (fun q j => q.setIfInBounds (j * rs + ic) (- t * F.getD (j * rs + ic) 0)) q

theorem factorizeS_eq (sqrt : K → K) (m n rs cs : Nat) (A : Array K) (o : Obj K) :
    factorizeS sqrt m n rs cs A o
      = ((computeS sqrt m n rs cs A o.tau).1,
          { o with tau := (computeS sqrt m n rs cs A o.tau).2,
                   q := (List.range (min m n)).reverse.foldl
                      (orgStep m n rs cs (computeS sqrt m n rs cs A o.tau).1 (computeS sqrt m n rs cs A o.tau).2)
                      (orgInit m n rs cs (min m n) (resizeZ o.q (m * n))) }) := rfl

theorem resizeZ_size (a : Array K) (k : Nat) : (resizeZ a k).size = k := by
  unfold resizeZ; rw [Array.size_ofFn]

/-! ### the initialisation loop -/

theorem orgInit_spec (m n rs cs k : Nat) (q : Array K) (L : Layout m n rs cs q.size) :
    (orgInit m n rs cs k q).size = q.size ∧
    ∀ r c, r < m → k ≤ c → c < n → (orgInit m n rs cs k q).getD (r * rs + c * cs) 0 = if r = c then 1 else 0 := by
  unfold orgInit
  have key : ∀ m', m' ≤ m →
      ((List.range m').foldl (fun q i =>
        (List.range' k (n - k)).foldl (fun q j => q.setIfInBounds (i * rs + j * cs) (if i = j then (1 : K) else 0)) q) q).size = q.size ∧
      ∀ r c, r < m' → k ≤ c → c < n → ((List.range m').foldl (fun q i =>
        (List.range' k (n - k)).foldl (fun q j => q.setIfInBounds (i * rs + j * cs) (if i = j then (1 : K) else 0)) q) q).getD
          (r * rs + c * cs) 0 = if r = c then 1 else 0 := by
    intro m'
    induction m' with
    | zero => intro _; exact ⟨rfl, fun r c hr => absurd hr (Nat.not_lt_zero _)⟩
    | succ m' ih =>
      intro hm'
      obtain ⟨i1, i2⟩ := ih (by omega)
      rw [List.range_succ, List.foldl_append]
      simp only [List.foldl_cons, List.foldl_nil]
      set q' := (List.range m').foldl (fun q i =>
        (List.range' k (n - k)).foldl (fun q j => q.setIfInBounds (i * rs + j * cs) (if i = j then (1 : K) else 0)) q) q with hq'
      have hpw : (List.range' k (n - k)).Pairwise (fun a b => m' * rs + a * cs ≠ m' * rs + b * cs) := by
        refine List.Pairwise.imp_of_mem ?_ (List.pairwise_lt_range' (s := k) (n := n - k) (step := 1) (by omega))
        intro a b ha hb hab e
        have ha' := List.mem_range'_1.mp ha
        have hb' := List.mem_range'_1.mp hb
        have := (L.inj _ _ _ _ (by omega) (by omega) (by omega) (by omega) e).2
        omega
      refine ⟨?_, ?_⟩
      · rw [foldl_update_size (List.range' k (n - k)) (fun j => m' * rs + j * cs) (fun j _ => if m' = j then (1 : K) else 0) q', i1]
      · intro r c hr hkc hcn
        by_cases hrm : r = m'
        · subst hrm
          exact foldl_update_getD_mem (List.range' k (n - k)) (fun j => r * rs + j * cs)
            (fun j _ => if r = j then (1 : K) else 0) q' hpw
            (fun a ha => by
              have ha' := List.mem_range'_1.mp ha
              rw [i1]; exact L.lt _ _ (by omega) (by omega)) c (List.mem_range'_1.mpr (by omega))
        · rw [foldl_update_getD_other (List.range' k (n - k)) (fun j => m' * rs + j * cs)
            (fun j _ => if m' = j then (1 : K) else 0) q']
          · exact i2 r c (by omega) hkc hcn
          · intro a ha e
            have ha' := List.mem_range'_1.mp ha
            exact hrm (L.inj _ _ _ _ (by omega) (by omega) (by omega) hcn e).1.symm
  exact key m (Nat.le_refl m)

/-! ### one iteration of the backward loop -/

theorem orgStep_spec (m n rs cs : Nat) (F tau q : Array K) (i : Nat) (L : Layout m n rs cs q.size)
    (him : i < m) (hin : i < n) :
    (orgStep m n rs cs F tau q i).size = q.size ∧
    (∀ r c, r < m → c < i → (orgStep m n rs cs F tau q i).getD (r * rs + c * cs) 0 = q.getD (r * rs + c * cs) 0) ∧
    (∀ r, r < m → (orgStep m n rs cs F tau q i).getD (r * rs + i * cs) 0
        = if r < i then 0 else if r = i then 1 - tau.getD i 0 else - tau.getD i 0 * F.getD (r * rs + i * cs) 0) ∧
    (∀ r c, r < m → i < c → c < n → (orgStep m n rs cs F tau q i).getD (r * rs + c * cs) 0
        = q.getD (r * rs + c * cs) 0 - wnat F rs cs i r
            * (tau.getD i 0 * ∑ r' ∈ range m, wnat F rs cs i r' * q.getD (r' * rs + c * cs) 0)) := by
  set t := tau.getD i 0 with ht
  -- stage 1: apply_reflector
  set q1 := (if i + 1 < n then applyReflector (m - i) (n - i - 1) F (i * (rs + cs)) rs t q (i * (rs + cs) + cs) rs cs else q)
    with hq1
  obtain ⟨a1, a2, a3⟩ := applyReflector_spec (m - i) (n - i - 1) (by omega) F (i * (rs + cs)) rs t q (i * (rs + cs) + cs) rs cs
    (by
      intro i' j hi' hj
      rw [addr_c]; exact L.lt _ _ (by omega) (by omega))
    (by
      intro i' j i'' j' hi' hj hi'' hj' e
      rw [addr_c, addr_c] at e
      have := L.inj _ _ _ _ (by omega) (by omega) (by omega) (by omega) e
      omega)
  have s1 : q1.size = q.size := by
    rw [hq1]; split
    · exact a1
    · rfl
  have k1 : ∀ r c, r < m → c ≤ i → q1.getD (r * rs + c * cs) 0 = q.getD (r * rs + c * cs) 0 := by
    intro r c hr hc
    rw [hq1]; split
    · apply a3
      intro i' j hi' hj e
      rw [addr_c] at e
      have := (L.inj _ _ _ _ hr (by omega) (by omega) (by omega) e).2
      omega
    · rfl
  have u1 : ∀ r c, r < m → i < c → c < n → q1.getD (r * rs + c * cs) 0
      = q.getD (r * rs + c * cs) 0 - wnat F rs cs i r * (t * ∑ r' ∈ range m, wnat F rs cs i r' * q.getD (r' * rs + c * cs) 0) := by
    intro r c hr hic hcn
    have hn1 : i + 1 < n := by omega
    rw [hq1, if_pos hn1]
    by_cases hri : r < i
    · have : wnat F rs cs i r = 0 := by simp [wnat, hri]
      rw [this, zero_mul, sub_zero]
      apply a3
      intro i' j hi' hj e
      rw [addr_c] at e
      have := (L.inj _ _ _ _ hr hcn (by omega) (by omega) e).1
      omega
    · have e1 := a2 (c - i - 1) (r - i) (by omega) (by omega)
      rw [addr_c, show i + (r - i) = r by omega, show i + 1 + (c - i - 1) = c by omega] at e1
      rw [e1, colDot_step m rs cs F q i (c - i - 1) him, vv_step, show i + (r - i) = r by omega,
        show i + 1 + (c - i - 1) = c by omega]
  -- stage 2: zeros above the diagonal of column i
  set q2 := (List.range i).foldl (fun q j => q.setIfInBounds (j * rs + i * cs) 0) q1 with hq2
  have s2 : q2.size = q1.size :=
    foldl_update_size (List.range i) (fun j => j * rs + i * cs) (fun _ _ => (0 : K)) q1
  have pw2 : (List.range i).Pairwise (fun a b => a * rs + i * cs ≠ b * rs + i * cs) := by
    refine List.Pairwise.imp_of_mem ?_ (List.pairwise_lt_range (n := i))
    intro a b ha hb hab e
    have := (L.inj _ _ _ _ (by have := List.mem_range.mp ha; omega) hin (by have := List.mem_range.mp hb; omega) hin e).1
    omega
  have z2 : ∀ r, r < i → q2.getD (r * rs + i * cs) 0 = 0 := by
    intro r hr
    exact foldl_update_getD_mem (List.range i) (fun j => j * rs + i * cs) (fun _ _ => (0 : K)) q1 pw2
      (fun a ha => by have := List.mem_range.mp ha; rw [s1]; exact L.lt _ _ (by omega) hin) r (List.mem_range.mpr hr)
  have k2 : ∀ r c, r < m → c < n → (c ≠ i ∨ i ≤ r) → q2.getD (r * rs + c * cs) 0 = q1.getD (r * rs + c * cs) 0 := by
    intro r c hr hc h
    apply foldl_update_getD_other (List.range i) (fun j => j * rs + i * cs) (fun _ _ => (0 : K)) q1
    intro a ha e
    have ha' := List.mem_range.mp ha
    have := L.inj _ _ _ _ (by omega) hin hr hc e
    omega
  -- stage 3: the diagonal cell
  set q3 := q2.setIfInBounds (i * (rs + cs)) (1 - t) with hq3
  have s3 : q3.size = q2.size := Array.size_setIfInBounds
  have d3 : q3.getD (i * rs + i * cs) 0 = 1 - t := by
    rw [hq3, addr_ii, getD_setIfInBounds_self]
    rw [s2, s1]; exact L.lt _ _ him hin
  have k3 : ∀ r c, r < m → c < n → (c ≠ i ∨ r ≠ i) → q3.getD (r * rs + c * cs) 0 = q2.getD (r * rs + c * cs) 0 := by
    intro r c hr hc h
    rw [hq3, addr_ii, getD_setIfInBounds_ne]
    intro e
    have := L.inj _ _ _ _ him hin hr hc e
    omega
  -- stage 4: the reflector below the diagonal
  have hq4 : orgStep m n rs cs F tau q i
      = (List.range' (i + 1) (m - (i + 1))).foldl (fun q j => q.setIfInBounds (j * rs + i * cs) (- t * F.getD (j * rs + i * cs) 0)) q3 := rfl
  have pw4 : (List.range' (i + 1) (m - (i + 1))).Pairwise (fun a b => a * rs + i * cs ≠ b * rs + i * cs) := by
    refine List.Pairwise.imp_of_mem ?_ (List.pairwise_lt_range' (s := i + 1) (n := m - (i + 1)) (step := 1) (by omega))
    intro a b ha hb hab e
    have ha' := List.mem_range'_1.mp ha
    have hb' := List.mem_range'_1.mp hb
    have := (L.inj _ _ _ _ (by omega) hin (by omega) hin e).1
    omega
  have s4 : (orgStep m n rs cs F tau q i).size = q3.size := by
    rw [hq4]
    exact foldl_update_size _ (fun j => j * rs + i * cs) (fun j _ => - t * F.getD (j * rs + i * cs) 0) q3
  have b4 : ∀ r, i < r → r < m → (orgStep m n rs cs F tau q i).getD (r * rs + i * cs) 0 = - t * F.getD (r * rs + i * cs) 0 := by
    intro r hir hr
    rw [hq4]
    exact foldl_update_getD_mem _ (fun j => j * rs + i * cs) (fun j _ => - t * F.getD (j * rs + i * cs) 0) q3 pw4
      (fun a ha => by
        have ha' := List.mem_range'_1.mp ha
        rw [s3, s2, s1]; exact L.lt _ _ (by omega) hin) r (List.mem_range'_1.mpr (by omega))
  have k4 : ∀ r c, r < m → c < n → (c ≠ i ∨ r ≤ i) → (orgStep m n rs cs F tau q i).getD (r * rs + c * cs) 0
      = q3.getD (r * rs + c * cs) 0 := by
    intro r c hr hc h
    rw [hq4]
    apply foldl_update_getD_other _ (fun j => j * rs + i * cs) (fun j _ => - t * F.getD (j * rs + i * cs) 0) q3
    intro a ha e
    have ha' := List.mem_range'_1.mp ha
    have := L.inj _ _ _ _ (by omega) hin hr hc e
    omega
  refine ⟨by rw [s4, s3, s2, s1], ?_, ?_, ?_⟩
  · intro r c hr hc
    rw [k4 r c hr (by omega) (Or.inl (by omega)), k3 r c hr (by omega) (Or.inl (by omega)),
      k2 r c hr (by omega) (Or.inl (by omega)), k1 r c hr (by omega)]
  · intro r hr
    by_cases h1 : r < i
    · rw [if_pos h1, k4 r i hr hin (Or.inr (by omega)), k3 r i hr hin (Or.inr (by omega)), z2 r h1]
    · rw [if_neg h1]
      by_cases h2 : r = i
      · rw [if_pos h2, h2, k4 i i him hin (Or.inr (Nat.le_refl i)), d3]
      · rw [if_neg h2, b4 r (by omega) hr]
  · intro r c hr hic hcn
    rw [k4 r c hr hcn (Or.inl (by omega)), k3 r c hr hcn (Or.inl (by omega)), k2 r c hr hcn (Or.inl (by omega)),
      u1 r c hr hic hcn]

/-! ### the backward loop -/

/-- the `m×n` identity pattern -/
def Emat (m n : Nat) : Matrix (Fin m) (Fin n) K := natMat (fun l c => if l = c then 1 else 0) m n

/-- `H_i · H_{i+1} · … · H_{k-1}` -/
def Qtail (F T : Array K) (rs cs m i k : Nat) : Matrix (Fin m) (Fin m) K :=
  ((List.range' i (k - i)).map (Hmat F T rs cs m)).prod

theorem Qtail_self (F T : Array K) (rs cs m k : Nat) : Qtail F T rs cs m k k = 1 := by
  unfold Qtail; simp

theorem Qtail_step (F T : Array K) (rs cs m i k : Nat) (h : i < k) :
    Qtail F T rs cs m i k = Hmat F T rs cs m i * Qtail F T rs cs m (i + 1) k := by
  unfold Qtail
  rw [show k - i = (k - (i + 1)) + 1 by omega, List.range'_succ, List.map_cons, List.prod_cons]

theorem Qtail_zero (F T : Array K) (rs cs m k : Nat) : Qtail F T rs cs m 0 k = Qacc F T rs cs m k := by
  unfold Qtail Qacc
  rw [List.range_eq_range', Nat.sub_zero]

/-- the reflectors `H_j`, `j > c`, fix the unit vector `e_c` -/
theorem Hmat_mul_E (F T : Array K) (rs cs m n j : Nat) (M : Matrix (Fin m) (Fin n) K) (c : Fin n) (hcj : c.val < j)
    (hM : ∀ r : Fin m, M r c = if r.val = c.val then 1 else 0) (l : Fin m) :
    (Hmat F T rs cs m j * M) l c = M l c := by
  unfold Hmat
  rw [house_mul_apply]
  have : ∑ r, wvec F rs cs m j r * M r c = 0 := by
    apply Finset.sum_eq_zero
    intro r _
    rw [hM r]
    by_cases h : r.val = c.val
    · have : wvec F rs cs m j r = 0 := by unfold wvec wnat; rw [if_pos (by omega)]
      rw [this, zero_mul]
    · rw [if_neg h, mul_zero]
  rw [this, mul_zero, mul_zero, sub_zero]

/-- the columns `< j` of `H_j·…·H_{k-1}·E` are those of `E` -/
theorem Qtail_mul_E_low (F T : Array K) (rs cs m n k : Nat) : ∀ d j, j + d = k → ∀ (l : Fin m) (c : Fin n), c.val < j →
    (Qtail F T rs cs m j k * (Emat m n : Matrix (Fin m) (Fin n) K)) l c = Emat (K := K) m n l c := by
  intro d
  induction d with
  | zero =>
    intro j hj l c _
    have : j = k := by omega
    rw [this, Qtail_self, Matrix.one_mul]
  | succ d ih =>
    intro j hj l c hc
    rw [Qtail_step _ _ _ _ _ _ _ (by omega), Matrix.mul_assoc]
    rw [Hmat_mul_E F T rs cs m n j _ c hc (fun r => by rw [ih (j + 1) (by omega) r c (by omega)]; rfl)]
    exact ih (j + 1) (by omega) l c (by omega)

/-- a matrix as a `Nat`-indexed table (0 outside) -/
def toNat {m n : Nat} (M : Matrix (Fin m) (Fin n) K) : Nat → Nat → K :=
  fun r c => if h : r < m ∧ c < n then M ⟨r, h.1⟩ ⟨c, h.2⟩ else 0

theorem toNat_apply {m n : Nat} (M : Matrix (Fin m) (Fin n) K) (r c : Nat) (hr : r < m) (hc : c < n) :
    toNat M r c = M ⟨r, hr⟩ ⟨c, hc⟩ := by
  unfold toNat; rw [dif_pos ⟨hr, hc⟩]

theorem natMat_toNat {m n : Nat} (M : Matrix (Fin m) (Fin n) K) : natMat (toNat M) m n = M := by
  ext l c
  unfold natMat
  rw [toNat_apply M l.val c.val l.isLt c.isLt]

/-- the invariant of the backward loop -/
theorem org_inv (m n rs cs : Nat) (F T : Array K) (k : Nat) (hkm : k ≤ m) (hkn : k ≤ n) :
    ∀ i, i ≤ k → ∀ q : Array K, Layout m n rs cs q.size →
    (∀ r c, r < m → i ≤ c → c < n → q.getD (r * rs + c * cs) 0
        = toNat (Qtail F T rs cs m i k * (Emat m n : Matrix (Fin m) (Fin n) K)) r c) →
    (((List.range i).reverse.foldl (orgStep m n rs cs F T) q).size = q.size ∧
    ∀ r c, r < m → c < n → ((List.range i).reverse.foldl (orgStep m n rs cs F T) q).getD (r * rs + c * cs) 0
        = toNat (Qtail F T rs cs m 0 k * (Emat m n : Matrix (Fin m) (Fin n) K)) r c) := by
  intro i
  induction i with
  | zero =>
    intro _ q _ h
    exact ⟨rfl, fun r c hr hc => h r c hr (Nat.zero_le c) hc⟩
  | succ i ih =>
    intro hi q L h
    rw [List.range_succ, List.reverse_append, List.reverse_singleton, List.singleton_append, List.foldl_cons]
    obtain ⟨o1, o2, o3, o4⟩ := orgStep_spec m n rs cs F T q i L (by omega) (by omega)
    obtain ⟨r1, r2⟩ := ih (by omega) (orgStep m n rs cs F T q i) (by rw [o1]; exact L) (by
      intro r c hr hic hcn
      rw [toNat_apply _ r c hr hcn, Qtail_step _ _ _ _ _ _ _ (by omega), Matrix.mul_assoc]
      have hmul := Hmat_mul_apply F T rs cs m n i
        (toNat (Qtail F T rs cs m (i + 1) k * (Emat m n : Matrix (Fin m) (Fin n) K))) ⟨r, hr⟩ ⟨c, hcn⟩
      rw [natMat_toNat] at hmul
      rw [hmul]
      simp only []
      by_cases hci : c = i
      · -- the new column: `H_i e_i`
        subst hci
        have hlow : ∀ r', r' < m → toNat (Qtail F T rs cs m (c + 1) k * (Emat m n : Matrix (Fin m) (Fin n) K)) r' c
            = if r' = c then 1 else 0 := by
          intro r' hr'
          rw [toNat_apply _ r' c hr' hcn,
            Qtail_mul_E_low F T rs cs m n k (k - (c + 1)) (c + 1) (by omega) ⟨r', hr'⟩ ⟨c, hcn⟩ (by simp)]
          rfl
        have hsum : ∑ r' ∈ range m, wnat F rs cs c r' *
            toNat (Qtail F T rs cs m (c + 1) k * (Emat m n : Matrix (Fin m) (Fin n) K)) r' c = 1 := by
          rw [Finset.sum_eq_single c]
          · rw [hlow c (by omega)]
            simp [wnat]
          · intro b hb hbc
            rw [hlow b (Finset.mem_range.mp hb), if_neg hbc, mul_zero]
          · intro hc
            exact absurd (Finset.mem_range.mpr (by omega)) hc
        rw [o3 r hr, hsum, mul_one, hlow r hr]
        unfold wnat
        by_cases h1 : r < c
        · rw [if_pos h1, if_pos h1, if_neg (by omega)]; ring
        · rw [if_neg h1, if_neg h1]
          by_cases h2 : r = c
          · rw [if_pos h2, if_pos h2, if_pos h2]; ring
          · rw [if_neg h2, if_neg h2, if_neg h2]; ring
      · -- a column that apply_reflector updates
        rw [o4 r c hr (by omega) hcn, h r c hr (by omega) hcn]
        congr 3
        refine Finset.sum_congr rfl (fun r' hr' => ?_)
        rw [h r' c (Finset.mem_range.mp hr') (by omega) hcn])
    exact ⟨by rw [r1, o1], r2⟩

/-- `factorize`: the member `q` holds `Q_full·E` (`Q_full = H_0·…·H_{k-1}`, `E` the `m×n` identity pattern), whatever the
object's `q` held before -/
theorem factorize_q (sqrt : K → K) (m n rs cs : Nat) (A : Array K) (o : Obj K) (Lq : Layout m n rs cs (m * n)) :
    (factorizeS sqrt m n rs cs A o).1 = (computeS sqrt m n rs cs A o.tau).1 ∧
    (factorizeS sqrt m n rs cs A o).2.tau = (computeS sqrt m n rs cs A o.tau).2 ∧
    (factorizeS sqrt m n rs cs A o).2.q.size = m * n ∧
    matOf (factorizeS sqrt m n rs cs A o).2.q rs cs m n
      = Qacc (computeS sqrt m n rs cs A o.tau).1 (computeS sqrt m n rs cs A o.tau).2 rs cs m (min m n)
          * (Emat m n : Matrix (Fin m) (Fin n) K) := by
  rw [factorizeS_eq]
  simp only []
  set F' := (computeS sqrt m n rs cs A o.tau).1
  set T' := (computeS sqrt m n rs cs A o.tau).2
  have hs0 : (resizeZ o.q (m * n)).size = m * n := resizeZ_size _ _
  obtain ⟨i1, i2⟩ := orgInit_spec m n rs cs (min m n) (resizeZ o.q (m * n)) (by rw [hs0]; exact Lq)
  obtain ⟨r1, r2⟩ := org_inv m n rs cs F' T' (min m n) (Nat.min_le_left _ _) (Nat.min_le_right _ _) (min m n) (Nat.le_refl _)
    (orgInit m n rs cs (min m n) (resizeZ o.q (m * n))) (by rw [i1, hs0]; exact Lq) (by
      intro r c hr hkc hcn
      rw [i2 r c hr hkc hcn, Qtail_self, Matrix.one_mul, toNat_apply _ r c hr hcn]
      rfl)
  refine ⟨trivial, trivial, by rw [r1, i1, hs0], ?_⟩
  ext l c
  rw [← Qtail_zero]
  have := r2 l.val c.val l.isLt c.isLt
  rw [toNat_apply _ l.val c.val l.isLt c.isLt] at this
  exact this

end QRModel
end Amgcl
