import Amgcl.Proofs.KrylovCG
import Mathlib.LinearAlgebra.Dimension.Finite
import Mathlib.LinearAlgebra.Dimension.Constructions
import Mathlib.Algebra.BigOperators.Group.Finset.Basic
/-!
# Finite termination of the CG recurrence (C05)

In a space of dimension `n`, with `P` and `A` definite (`⟨v, P v⟩ = 0 → v = 0`, `⟨A v, v⟩ = 0 → v = 0`; any field), the
residual of the recurrence of `KrylovCG.lean` vanishes after at most `n` passes: `n + 1` non-zero mutually
`P`-orthogonal residuals would be linearly independent.
-/
namespace Amgcl.Krylov.CGData
variable {𝕜 V : Type*} [Field 𝕜] [AddCommGroup V] [Module 𝕜 V] (c : CGData 𝕜 V)

/-- non-zero mutually `P`-orthogonal residuals `r_0..r_k` are linearly independent -/
theorem r_linearIndependent (hs : c.Symm) (hP : ∀ v, c.B v (c.P v) = 0 → v = 0) {k : ℕ} (hnb : c.NoBreakdown k)
    (hr : ∀ i, i ≤ k → c.r i ≠ 0) : LinearIndependent 𝕜 (fun i : Fin (k + 1) => c.r i.val) := by
  rw [linearIndependent_iff']
  intro s g hsum j hj
  have h := congrArg (fun v => c.B v (c.P (c.r j.val))) hsum
  simp only [map_sum, map_smul, LinearMap.sum_apply, LinearMap.smul_apply, smul_eq_mul, map_zero,
    LinearMap.zero_apply] at h
  rw [Finset.sum_eq_single j] at h
  · rcases mul_eq_zero.mp h with h | h
    · exact h
    · exact absurd (hP _ h) (hr j.val (Nat.le_of_lt_succ j.isLt))
  · intro i _ hij
    rw [c.r_orthogonal hs hnb i.val j.val (Nat.le_of_lt_succ i.isLt) (Nat.le_of_lt_succ j.isLt)
      (fun e => hij (Fin.ext e)), mul_zero]
  · intro hj'; exact absurd hj hj'

/-- **finite termination**: in dimension `≤ n` the residual after `n` passes is zero (and stays zero) -/
theorem r_eq_zero_of_finrank [Module.Finite 𝕜 V] (hs : c.Symm) (hP : ∀ v, c.B v (c.P v) = 0 → v = 0)
    (hA : ∀ v, c.B (c.A v) v = 0 → v = 0) (n : ℕ) (hn : Module.finrank 𝕜 V ≤ n) : c.r n = 0 := by
  by_contra hne
  have hr : ∀ i, i ≤ n → c.r i ≠ 0 := fun i hi h => hne (c.r_zero_of_le h hi).1
  have hnb : c.NoBreakdown n := c.noBreakdown_of_definite hs hP hA n (fun i hi => hr i (Nat.le_of_lt hi))
  have := (c.r_linearIndependent hs hP hnb hr).fintype_card_le_finrank
  simp at this
  omega

end Amgcl.Krylov.CGData
