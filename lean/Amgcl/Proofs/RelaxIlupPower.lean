import Amgcl.Proofs.RelaxIlupSymb
import Amgcl.Proofs.RowGet
import Amgcl.Model.RelaxCheck
import Mathlib.Logic.Function.Iterate
/-!
ILUP (`Model/RelaxIlup.lean`): the symbolic pattern built by the repeated `symb_product` is the pattern of the `(k+1)`-fold boolean
product `patPower A k` of `Model/RelaxCheck.lean`.
-/
set_option linter.unusedSectionVars false
set_option linter.unusedVariables false
namespace Amgcl
namespace Relax

variable {K : Type}

/-- the rows of `X` are the rows of the boolean table `p` (columns `< n`) -/
def PatRel (X : Pat) (p : Nat → Nat → Bool) (n : Nat) : Prop :=
  X.size = n ∧ ∀ i, i < n → ∀ j, j ∈ X.getD i [] ↔ (j < n ∧ p i j = true)

theorem patGet_patTab (n : Nat) (p : Nat → Nat → Bool) (i j : Nat) :
    patGet (patTab n p) i j = (decide (i < n) && decide (j < n) && p i j) := by
  unfold patGet patTab
  by_cases hi : i < n
  · by_cases hj : j < n
    · simp [Array.getD, hi, hj]
    · simp [Array.getD, hi, hj]
  · simp [Array.getD, hi]

theorem patRows_getD (A : CRS K) (i : Nat) : (patRows A).getD i [] = (A.row i).map (·.1) := by
  unfold patRows CRS.row
  by_cases hi : i < A.rows.size
  · simp [Array.getD, hi]
  · simp [Array.getD, hi]

theorem patOf_iff_mem (A : CRS K) (i j : Nat) : patOf A i j = true ↔ j ∈ (A.row i).map (·.1) := by
  unfold patOf
  rw [List.any_eq_true, List.mem_map]
  constructor
  · rintro ⟨cv, h, e⟩; exact ⟨cv, h, by simpa using e⟩
  · rintro ⟨cv, h, e⟩; exact ⟨cv, h, by simpa using e⟩

theorem patRel_base (A : CRS K) (hA : A.WF) (hsq : A.ncols = A.nrows) :
    PatRel (patRows A) (patGet (patTab A.nrows (patOf A))) A.nrows := by
  refine ⟨by simp [patRows, CRS.nrows], ?_⟩
  intro i hi j
  rw [patRows_getD, patGet_patTab, ← patOf_iff_mem]
  constructor
  · intro h
    have hj : j < A.nrows := by
      obtain ⟨cv, hcv, e⟩ := List.mem_map.mp ((patOf_iff_mem A i j).mp h)
      rw [← e, ← hsq]; exact hA.row_lt i cv hcv
    exact ⟨hj, by simp [hi, hj, h]⟩
  · rintro ⟨hj, h⟩
    simpa [hi, hj] using h

theorem patOK_right (A : CRS K) (hA : A.WF) (X : Pat) : PatOK X (patRows A) A.ncols := by
  intro ia c hc
  unfold visitedP at hc
  rw [List.mem_flatMap] at hc
  obtain ⟨ca, _, hc⟩ := hc
  rw [patRows_getD] at hc
  obtain ⟨cv, hcv, e⟩ := List.mem_map.mp hc
  rw [← e]; exact hA.row_lt ca cv hcv

/-- one `symb_product` by `A` on the right is one boolean multiplication by the pattern of `A` -/
theorem patRel_step (A : CRS K) (hA : A.WF) (hsq : A.ncols = A.nrows) (X : Pat) (p : Nat → Nat → Bool)
    (h : PatRel X p A.nrows) :
    PatRel (symbProduct X (patRows A) A.ncols)
      (patGet (patTab A.nrows (patMul A.nrows p (patGet (patTab A.nrows (patOf A)))))) A.nrows ∧
    ∀ i, i < A.nrows → ((symbProduct X (patRows A) A.ncols).getD i []).Pairwise (· < ·) := by
  obtain ⟨s1, s2⟩ := symbProduct_spec X (patRows A) A.ncols (patOK_right A hA X)
  refine ⟨⟨by rw [s1, h.1], ?_⟩, fun i hi => (s2 i (by rw [h.1]; exact hi)).1.strict⟩
  intro i hi j
  obtain ⟨rf, _⟩ := s2 i (by rw [h.1]; exact hi)
  rw [rf.mem j, patGet_patTab]
  unfold visitedP patMul
  rw [List.mem_flatMap]
  constructor
  · rintro ⟨ca, hca, hj⟩
    rw [patRows_getD] at hj
    have hj' : j < A.nrows := by
      obtain ⟨cv, hcv, e⟩ := List.mem_map.mp hj
      rw [← e, ← hsq]; exact hA.row_lt ca cv hcv
    obtain ⟨hca', hp⟩ := (h.2 i hi ca).mp hca
    refine ⟨hj', ?_⟩
    simp only [hi, hj', decide_true, Bool.true_and]
    rw [List.any_eq_true]
    refine ⟨ca, List.mem_range.mpr hca', ?_⟩
    rw [hp, patGet_patTab]
    simp [hca', hj', (patOf_iff_mem A ca j).mpr hj]
  · rintro ⟨hj, hp⟩
    simp only [hi, hj, decide_true, Bool.true_and] at hp
    rw [List.any_eq_true] at hp
    obtain ⟨ca, hca, hh⟩ := hp
    rw [Bool.and_eq_true, patGet_patTab] at hh
    have hca' := List.mem_range.mp hca
    simp only [hca', hj, decide_true, Bool.true_and] at hh
    exact ⟨ca, (h.2 i hi ca).mpr ⟨hca', hh.1⟩, by rw [patRows_getD]; exact (patOf_iff_mem A ca j).mp hh.2⟩

theorem foldl_range_const {α : Type} (f : α → α) (x : α) (s : Nat) :
    (List.range s).foldl (fun P _ => f P) x = f^[s] x := by
  induction s with
  | zero => rfl
  | succ s ih => rw [List.range_succ, List.foldl_append, ih, Function.iterate_succ_apply']; rfl

theorem ilupPattern_eq_iter (k : Nat) (hk : k ≠ 0) (A : CRS K) :
    ilupPattern k A = (fun P => symbProduct P (patRows A) A.ncols)^[k] (patRows A) := by
  unfold ilupPattern
  rw [foldl_range_const (fun P => symbProduct P (patRows A) A.ncols)]
  obtain ⟨k', rfl⟩ := Nat.exists_eq_succ_of_ne_zero hk
  rw [Nat.succ_sub_one, Function.iterate_succ_apply]

theorem patPower_eq_iter (A : CRS K) (k : Nat) :
    patPower A k = patGet ((fun t => patTab A.nrows (patMul A.nrows (patGet t) (patGet (patTab A.nrows (patOf A)))))^[k]
      (patTab A.nrows (patOf A))) := by
  unfold patPower
  simp only []
  rw [foldl_range_const (fun t => patTab A.nrows (patMul A.nrows (patGet t) (patGet (patTab A.nrows (patOf A)))))]

theorem patRel_iter (A : CRS K) (hA : A.WF) (hsq : A.ncols = A.nrows) (s : Nat) :
    PatRel ((fun P => symbProduct P (patRows A) A.ncols)^[s] (patRows A))
      (patGet ((fun t => patTab A.nrows (patMul A.nrows (patGet t) (patGet (patTab A.nrows (patOf A)))))^[s]
        (patTab A.nrows (patOf A)))) A.nrows ∧
    (s ≠ 0 → ∀ i, i < A.nrows →
      (((fun P => symbProduct P (patRows A) A.ncols)^[s] (patRows A)).getD i []).Pairwise (· < ·)) := by
  induction s with
  | zero => exact ⟨patRel_base A hA hsq, fun h => absurd rfl h⟩
  | succ s ih =>
    rw [Function.iterate_succ_apply', Function.iterate_succ_apply']
    obtain ⟨h1, h2⟩ := patRel_step A hA hsq _ _ ih.1
    exact ⟨h1, fun _ => h2⟩

/-- **the symbolic pattern of `ilup` is the pattern of `A^(k+1)`** -/
theorem ilupPattern_spec (k : Nat) (hk : k ≠ 0) (A : CRS K) (hA : A.WF) (hsq : A.ncols = A.nrows) :
    (ilupPattern k A).size = A.nrows ∧
    ∀ i, i < A.nrows → ((ilupPattern k A).getD i []).Pairwise (· < ·) ∧
      ∀ j, j ∈ (ilupPattern k A).getD i [] ↔ (j < A.nrows ∧ patPower A k i j = true) := by
  rw [ilupPattern_eq_iter k hk, patPower_eq_iter]
  obtain ⟨h1, h2⟩ := patRel_iter A hA hsq k
  exact ⟨h1.1, fun i hi => ⟨h2 hk i hi, h1.2 i hi⟩⟩

end Relax
end Amgcl
