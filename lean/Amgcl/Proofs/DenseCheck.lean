import Amgcl.Model.DenseCheck
import Amgcl.Proofs.StaticMatrix
/-!
Soundness of the executable QR predicate: `qrExact A Qk R = true` implies the Mathlib `Matrix` statements
`A = Qk·R`, `QkᵀQk = 1`, `R` upper trapezoidal.
-/
namespace Amgcl
namespace Dense
open Finset
variable {K : Type} [Field K] [LinearOrder K] [DecidableEq K]

theorem allIdx_iff (m n : Nat) (f : Nat → Nat → Bool) :
    allIdx m n f = true ↔ ∀ i, i < m → ∀ j, j < n → f i j = true := by
  unfold allIdx
  simp only [List.all_eq_true, List.mem_range]

/-- the denotation with an explicit shape -/
def mat (A : Dense K) (r c : Nat) : Matrix (Fin r) (Fin c) K := fun i j => A.get i.val j.val

theorem mulGet_eq (A B : Dense K) (i j : Nat) : mulGet A B i j = ∑ l ∈ range A.n, A.get i l * B.get l j := by
  unfold mulGet; rw [foldl_add_eq_sum, zero_add]

theorem gramGet_eq (A : Dense K) (i j : Nat) : gramGet A i j = ∑ l ∈ range A.m, A.get l i * A.get l j := by
  unfold gramGet; rw [foldl_add_eq_sum, zero_add]

/-- soundness of the exact QR checker -/
theorem qrExact_sound (A Qk R : Dense K) (h : qrExact A Qk R = true) :
    Qk.m = A.m ∧ Qk.n = min A.m A.n ∧ R.m = min A.m A.n ∧ R.n = A.n ∧
    A.mat A.m A.n = Qk.mat A.m (min A.m A.n) * R.mat (min A.m A.n) A.n ∧
    (Qk.mat A.m (min A.m A.n)).transpose * Qk.mat A.m (min A.m A.n) = 1 ∧
    ∀ i j, i < min A.m A.n → j < i → R.get i j = 0 := by
  unfold qrExact at h
  simp only [Bool.and_eq_true] at h
  obtain ⟨⟨⟨hsh, hprod⟩, horth⟩, hup⟩ := h
  unfold shapesOk at hsh
  simp only [Bool.and_eq_true, beq_iff_eq] at hsh
  obtain ⟨⟨⟨⟨⟨⟨_, _⟩, _⟩, h1⟩, h2⟩, h3⟩, h4⟩ := hsh
  refine ⟨h1, h2, h3, h4, ?_, ?_, ?_⟩
  · ext i j
    have := (allIdx_iff _ _ _).mp hprod i.val i.isLt j.val j.isLt
    simp only [decide_eq_true_eq] at this
    show A.get i.val j.val = _
    rw [this, mulGet_eq, Matrix.mul_apply, h2]
    exact (Fin.sum_univ_eq_sum_range (fun l => Qk.get i.val l * R.get l j.val) (min A.m A.n)).symm
  · ext i j
    have := (allIdx_iff _ _ _).mp horth i.val (by rw [h2]; exact i.isLt) j.val (by rw [h2]; exact j.isLt)
    simp only [decide_eq_true_eq] at this
    rw [Matrix.mul_apply, Matrix.one_apply]
    have e : ∑ l : Fin A.m, (Qk.mat A.m (min A.m A.n)).transpose i l * Qk.mat A.m (min A.m A.n) l j
        = ∑ l ∈ range A.m, Qk.get l i.val * Qk.get l j.val :=
      Fin.sum_univ_eq_sum_range (fun l => Qk.get l i.val * Qk.get l j.val) A.m
    have g := gramGet_eq Qk i.val j.val
    rw [h1] at g
    rw [e, ← g, this]
    simp only [Fin.ext_iff]
  · intro i j hi hj
    have := (allIdx_iff _ _ _).mp hup i (by rw [h3]; exact hi) j (by rw [h4]; omega)
    rw [if_pos hj] at this
    simpa using this

end Dense
end Amgcl
