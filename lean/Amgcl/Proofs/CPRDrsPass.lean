import Amgcl.Model.CPRDrs
import Amgcl.Proofs.CPRPass
import Amgcl.Proofs.Primitives
import Mathlib.Algebra.Order.Ring.Defs
/-!
`cpr_drs::first_scalar_pass` (C18): facts that need no hypothesis on the rows.

* the accumulators keep their size `B`;
* the weights do not depend on `get_app` (only the count of `App` entries does) — so `update_transfer` recomputes the
  constructor's `Fpp`;
* a block row's result depends on the incoming scratch vectors only through their sizes (`std::fill` at the top of the
  iteration), so the pass over all block rows is the map of the per-row function.
-/
set_option linter.unusedSectionVars false
namespace Amgcl.CPRDrs
open Amgcl Amgcl.CPR

section sizes
variable {K : Type} [Field K] [LinearOrder K]

/-- all three accumulators have size `B` -/
def Acc.Sized (B : Nat) (a : Acc K) : Prop := a.dia.size = B ∧ a.off.size = B ∧ a.top.size = B

theorem Acc.zero_sized (B : Nat) : (Acc.zero B : Acc K).Sized B := by
  simp [Acc.zero, Acc.Sized]

theorem Acc.fill0_eq {B : Nat} {a : Acc K} (h : a.Sized B) : a.fill0 = Acc.zero B := by
  obtain ⟨h1, h2, h3⟩ := h
  simp [Acc.fill0, Acc.zero, h1, h2, h3]

theorem visitEntry_sized (B ip cur i : Nat) (a : Acc K) (cv : Nat × K) (h : a.Sized B) :
    (visitEntry B ip cur i a cv).Sized B := by
  obtain ⟨h1, h2, h3⟩ := h
  unfold visitEntry Acc.Sized
  simp only
  split_ifs <;> simp [h1, h2, h3]

theorem foldl_visitEntry_sized (B ip cur i : Nat) (l : Row K) (a : Acc K) (h : a.Sized B) :
    (l.foldl (visitEntry B ip cur i) a).Sized B := by
  induction l generalizing a with
  | nil => exact h
  | cons x t ih => exact ih _ (visitEntry_sized B ip cur i a x h)

theorem visit_sized (B ip cur endc : Nat) (ks : List (Row K)) (a : Acc K) (h : a.Sized B) :
    (visit B ip cur endc ks a).Sized B := by
  unfold visit
  generalize ks.zipIdx = L
  induction L generalizing a with
  | nil => exact h
  | cons x t ih => exact ih _ (foldl_visitEntry_sized B ip cur x.2 _ a h)

theorem passLoop_sized (B N ip : Nat) (g : Bool) (fuel : Nat) (s : PassState K) (h : s.acc.Sized B) :
    (passLoop B N ip g fuel s).acc.Sized B := by
  induction fuel generalizing s with
  | zero => exact h
  | succ f ih =>
    unfold passLoop
    cases curCol B N s.ks with
    | none => exact h
    | some cur => exact ih _ (visit_sized B ip cur _ s.ks s.acc h)

/-- the accumulators (hence the weights) do not depend on `get_app`; the iterators do not either -/
theorem passLoop_mode (B N ip : Nat) (fuel : Nat) (ks : List (Row K)) (c c' : Nat) (a : Acc K) :
    (passLoop B N ip true fuel { ks := ks, cnt := c, acc := a }).acc
      = (passLoop B N ip false fuel { ks := ks, cnt := c', acc := a }).acc := by
  induction fuel generalizing ks c c' a with
  | zero => rfl
  | succ f ih =>
    unfold passLoop
    cases curCol B N ks with
    | none => rfl
    | some cur => exact ih _ _ _ _

end sizes

section rows
variable {K : Type} [Field K] [LinearOrder K]

/-- the per-row function with fresh (zero) scratch -/
def passRow0 (A : CRS K) (p : Params K) (N ip : Nat) (g : Bool) : RowOut K := (passRow A p N ip g (Acc.zero p.B)).1

/-- **a block row's weights and count do not depend on what the thread's scratch vectors hold on entry** -/
theorem passRow_scratch (A : CRS K) (p : Params K) (N ip : Nat) (g : Bool) (s : Acc K) (hs : s.Sized p.B) :
    passRow A p N ip g s = passRow A p N ip g (Acc.zero p.B) := by
  unfold passRow
  rw [Acc.fill0_eq hs, Acc.fill0_eq (Acc.zero_sized p.B)]

theorem passRow_out_sized (A : CRS K) (p : Params K) (N ip : Nat) (g : Bool) (s : Acc K) (hs : s.Sized p.B) :
    (passRow A p N ip g s).2.Sized p.B := by
  unfold passRow
  simp only
  apply passLoop_sized
  rw [Acc.fill0_eq hs]
  exact Acc.zero_sized p.B

theorem passRow0_mode (A : CRS K) (p : Params K) (N ip : Nat) :
    (passRow0 A p N ip true).w = (passRow0 A p N ip false).w := by
  unfold passRow0 passRow
  simp only
  rw [passLoop_mode]

/-- the pass over the block rows with threaded scratch is the map of the per-row function -/
theorem firstScalarPass_eq_map (A : CRS K) (p : Params K) (n : Nat) (g : Bool) (s : Acc K) (hs : s.Sized p.B) :
    (firstScalarPass A p n g s).1
      = (List.range ((if p.activeRows = 0 then n else p.activeRows) / p.B)).map
          (fun ip => passRow0 A p (if p.activeRows = 0 then n else p.activeRows) ip g) := by
  unfold firstScalarPass
  simp only
  generalize (if p.activeRows = 0 then n else p.activeRows) = N
  have key : ∀ (l : List Nat) (acc : List (RowOut K)) (s : Acc K), s.Sized p.B →
      ((l.foldl (fun (st : List (RowOut K) × Acc K) ip =>
        ((st.1 ++ [(passRow A p N ip g st.2).1], (passRow A p N ip g st.2).2))) (acc, s)).1
        = acc ++ l.map (fun ip => passRow0 A p N ip g)) ∧
      (l.foldl (fun (st : List (RowOut K) × Acc K) ip =>
        ((st.1 ++ [(passRow A p N ip g st.2).1], (passRow A p N ip g st.2).2))) (acc, s)).2.Sized p.B := by
    intro l
    induction l with
    | nil => intro acc s hs; exact ⟨by simp, hs⟩
    | cons x t ih =>
      intro acc s hs
      simp only [List.foldl_cons, List.map_cons]
      have h := ih (acc ++ [(passRow A p N x g s).1]) (passRow A p N x g s).2 (passRow_out_sized A p N x g s hs)
      refine ⟨?_, h.2⟩
      rw [h.1, passRow_scratch A p N x g s hs]
      simp [passRow0]
  have := (key (List.range (N / p.B)) [] s hs).1
  simpa using this

theorem rowW_map (f : Nat → RowOut K) (m ip : Nat) (h : ip < m) :
    rowW ((List.range m).map f) ip = (f ip).w := by
  unfold rowW
  simp [List.getD_eq_getElem?_getD, h]

theorem passRow0_w_getD (A : CRS K) (p : Params K) (N ip : Nat) (g : Bool) (i : Nat) (hi : i < p.B) :
    (passRow0 A p N ip g).w.getD i 0
      = delta p (ip * p.B) i (passLoop p.B N ip g (remaining (blockRows A p.B ip) + 1)
          { ks := blockRows A p.B ip, cnt := 0, acc := Acc.zero p.B }).acc := by
  unfold passRow0 passRow
  simp only
  rw [getD_ofFn_lt _ _ _ hi, Acc.fill0_eq (Acc.zero_sized p.B)]

end rows

end Amgcl.CPRDrs
