import Amgcl.Proofs.RelaxSpai1Normal
import Mathlib.LinearAlgebra.Matrix.ToLin
import Mathlib.LinearAlgebra.Dimension.StrongRankCondition
import Mathlib.LinearAlgebra.Dimension.Constructions
/-!
SPAI-1: the rank hypothesis in terms of `A`, and minimality / uniqueness of a row satisfying the normal equations.

* `RowsIndep A i` — the rows of `A` indexed by the stored columns of row `i` are linearly independent;
* `local_rank` — then the local matrix `B` has linearly independent columns, `local_tall` — and at least as many rows as columns
  (so that `QR::solve` takes its least-squares branch);
* `leastSquaresRow_of_normal` — the normal equations of one row give minimality of that row (one-row form of
  `leastSquaresRows_sound`); `leastSquaresRow_unique` — with `RowsIndep` the minimiser is unique.
-/
set_option linter.unusedSectionVars false
set_option linter.unusedVariables false
namespace Amgcl
namespace Relax
open QRModel Finset Matrix

variable {K : Type} [Field K] [LinearOrder K] [IsStrictOrderedRing K]

/-- the rows of `A` indexed by the stored columns `I[0], I[1], …` of row `i` are linearly independent -/
def RowsIndep (A : CRS K) (i : Nat) : Prop :=
  ∀ y : Nat → K,
    (∀ j, j < A.nrows → ∑ q ∈ range ((A.row i).map (·.1)).length, y q * A.get (((A.row i).map (·.1)).getD q 0) j = 0) →
    ∀ q, q < ((A.row i).map (·.1)).length → y q = 0

theorem local_rank (A : CRS K) (hA : A.WF) (hsq : A.ncols = A.nrows) (hnd : A.nodupb = true) (i : Nat) (h : RowsIndep A i) :
    ∀ y : Fin (spai1LocalAt A i).I.length → K,
      matOf (spai1LocalAt A i).B 1 (spai1LocalAt A i).J.length (spai1LocalAt A i).J.length (spai1LocalAt A i).I.length *ᵥ y = 0
        → y = 0 := by
  have F := localFacts A hA hnd i
  set P := spai1LocalAt A i with hP
  have hI : P.I = (A.row i).map (·.1) := rfl
  intro y hy
  let y' : Nat → K := fun q => if hq : q < P.I.length then y ⟨q, hq⟩ else 0
  have hsum : ∀ p, p < P.J.length → ∑ q ∈ range P.I.length, y' q * A.get (P.I.getD q 0) (P.J.getD p 0) = 0 := by
    intro p hp
    have := congrFun hy ⟨p, hp⟩
    simp only [Matrix.mulVec, dotProduct, matOf, Pi.zero_apply] at this
    rw [← this, ← Fin.sum_univ_eq_sum_range (fun q => y' q * A.get (P.I.getD q 0) (P.J.getD p 0)) P.I.length]
    apply sum_congr rfl
    intro q _
    show (if hq : q.val < P.I.length then y ⟨q.val, hq⟩ else 0) * _ = _
    rw [dif_pos q.isLt, F.B q.val q.isLt p hp]
    ring
  have hall : ∀ q, q < ((A.row i).map (·.1)).length → y' q = 0 := by
    apply h y'
    intro j hj
    by_cases hjJ : j ∈ P.J
    · obtain ⟨p, hp, e⟩ := List.getElem_of_mem hjJ
      have := hsum p hp
      rw [getD_lt _ _ hp, e] at this
      exact this
    · apply sum_eq_zero
      intro q hq
      have : A.get (P.I.getD q 0) j = 0 := by
        unfold CRS.get
        apply rowGet_eq_zero_of_not_mem
        intro hmj
        obtain ⟨a, ha, e⟩ := List.mem_map.mp hmj
        exact hjJ (e ▸ F.cover q (mem_range.mp hq) a ha)
      show y' q * A.get (P.I.getD q 0) j = 0
      rw [this, mul_zero]
  funext q
  have := hall q.val q.isLt
  show y q = 0
  have e : y' q.val = y q := by
    show (if hq : q.val < P.I.length then y ⟨q.val, hq⟩ else 0) = y q
    rw [dif_pos q.isLt]
  rw [← e]; exact this

/-- a matrix with linearly independent columns has at least as many rows as columns -/
theorem cols_le_rows_of_injective {m n : Nat} (B : Matrix (Fin m) (Fin n) K) (h : ∀ y : Fin n → K, B *ᵥ y = 0 → y = 0) :
    n ≤ m := by
  have hinj : Function.Injective (Matrix.mulVecLin B) := by
    rw [injective_iff_map_eq_zero]
    intro y hy
    exact h y (by simpa using hy)
  have := LinearMap.finrank_le_finrank_of_injective hinj
  simpa using this

theorem local_tall (A : CRS K) (hA : A.WF) (hsq : A.ncols = A.nrows) (hnd : A.nodupb = true) (i : Nat) (h : RowsIndep A i) :
    (spai1LocalAt A i).I.length ≤ (spai1LocalAt A i).J.length :=
  cols_le_rows_of_injective _ (local_rank A hA hsq hnd i h)

/-! ### one row: normal equations ⟹ minimiser, unique under `RowsIndep` -/

/-- the cross term vanishes: `Σ_j r_j·w_j = 0` for every perturbation `w = (m − M_i)·A` supported on the pattern of row `i` -/
theorem normal_cross (A M : CRS K) (i : Nat)
    (hN : ∀ cv ∈ A.row i, spaiNormal A M A.nrows i cv.1 = 0)
    (m : Nat → K) (hm : ∀ l, l < A.nrows → (∀ cv ∈ A.row i, cv.1 ≠ l) → m l = M.get i l) :
    ∑ j ∈ range A.nrows, spaiResid A M A.nrows i j * ∑ l ∈ range A.nrows, (m l - M.get i l) * A.get l j = 0 := by
  have hN' : ∀ l, l < A.nrows → (m l - M.get i l) * spaiNormal A M A.nrows i l = 0 := by
    intro l hl
    by_cases hp : ∀ cv ∈ A.row i, cv.1 ≠ l
    · rw [hm l hl hp]; ring
    · push_neg at hp
      obtain ⟨cv, hcv, hc⟩ := hp
      rw [← hc, hN cv hcv]; ring
  simp only [mul_sum]
  rw [sum_comm]
  apply sum_eq_zero
  intro l hl
  have := hN' l (mem_range.mp hl)
  rw [spaiNormal_eq, mul_sum] at this
  rw [← this]
  apply sum_congr rfl; intro j _; ring

theorem resid_split (A M : CRS K) (i : Nat) (m : Nat → K) (j : Nat) :
    (if i = j then (1 : K) else 0) - ∑ l ∈ range A.nrows, m l * A.get l j
      = spaiResid A M A.nrows i j - ∑ l ∈ range A.nrows, (m l - M.get i l) * A.get l j := by
  rw [spaiResid_eq]
  have : ∑ l ∈ range A.nrows, (m l - M.get i l) * A.get l j
      = ∑ l ∈ range A.nrows, m l * A.get l j - ∑ l ∈ range A.nrows, M.get i l * A.get l j := by
    rw [← sum_sub_distrib]; apply sum_congr rfl; intro l _; ring
  rw [this]; ring

/-- `‖e_i − m A‖² = ‖e_i − M_i A‖² + ‖(m − M_i) A‖²` -/
theorem pythagoras (A M : CRS K) (i : Nat)
    (hN : ∀ cv ∈ A.row i, spaiNormal A M A.nrows i cv.1 = 0)
    (m : Nat → K) (hm : ∀ l, l < A.nrows → (∀ cv ∈ A.row i, cv.1 ≠ l) → m l = M.get i l) :
    ∑ j ∈ range A.nrows, ((if i = j then (1 : K) else 0) - ∑ l ∈ range A.nrows, m l * A.get l j) ^ 2
      = ∑ j ∈ range A.nrows, (spaiResid A M A.nrows i j) ^ 2
        + ∑ j ∈ range A.nrows, (∑ l ∈ range A.nrows, (m l - M.get i l) * A.get l j) ^ 2 := by
  have hc := normal_cross A M i hN m hm
  have : ∀ j ∈ range A.nrows,
      ((if i = j then (1 : K) else 0) - ∑ l ∈ range A.nrows, m l * A.get l j) ^ 2
      = (spaiResid A M A.nrows i j) ^ 2
        - 2 * (spaiResid A M A.nrows i j * ∑ l ∈ range A.nrows, (m l - M.get i l) * A.get l j)
        + (∑ l ∈ range A.nrows, (m l - M.get i l) * A.get l j) ^ 2 := by
    intro j _
    rw [resid_split A M i m j]; ring
  rw [sum_congr rfl this, sum_add_distrib, sum_sub_distrib, ← mul_sum, hc]
  ring

theorem leastSquaresRow_of_normal (A M : CRS K) (i : Nat)
    (hN : ∀ cv ∈ A.row i, spaiNormal A M A.nrows i cv.1 = 0)
    (m : Nat → K) (hm : ∀ l, l < A.nrows → (∀ cv ∈ A.row i, cv.1 ≠ l) → m l = M.get i l) :
    ∑ j ∈ range A.nrows, ((if i = j then (1 : K) else 0) - ∑ l ∈ range A.nrows, M.get i l * A.get l j) ^ 2
      ≤ ∑ j ∈ range A.nrows, ((if i = j then (1 : K) else 0) - ∑ l ∈ range A.nrows, m l * A.get l j) ^ 2 := by
  rw [pythagoras A M i hN m hm]
  have h0 : 0 ≤ ∑ j ∈ range A.nrows, (∑ l ∈ range A.nrows, (m l - M.get i l) * A.get l j) ^ 2 :=
    sum_nonneg (fun j _ => sq_nonneg _)
  have : ∀ j ∈ range A.nrows, ((if i = j then (1 : K) else 0) - ∑ l ∈ range A.nrows, M.get i l * A.get l j) ^ 2
      = (spaiResid A M A.nrows i j) ^ 2 := by
    intro j _; rw [spaiResid_eq]
  rw [sum_congr rfl this]
  linarith

/-- a competitor `m` (supported on the pattern of row `i`, agreeing with `M` off it) whose residual is not larger has
`(m − M_i)·A = 0` -/
theorem leastSquaresRow_tie (A M : CRS K) (i : Nat)
    (hN : ∀ cv ∈ A.row i, spaiNormal A M A.nrows i cv.1 = 0)
    (m : Nat → K) (hm : ∀ l, l < A.nrows → (∀ cv ∈ A.row i, cv.1 ≠ l) → m l = M.get i l)
    (hle : ∑ j ∈ range A.nrows, ((if i = j then (1 : K) else 0) - ∑ l ∈ range A.nrows, m l * A.get l j) ^ 2
      ≤ ∑ j ∈ range A.nrows, ((if i = j then (1 : K) else 0) - ∑ l ∈ range A.nrows, M.get i l * A.get l j) ^ 2) :
    ∀ j, j < A.nrows → ∑ l ∈ range A.nrows, (m l - M.get i l) * A.get l j = 0 := by
  rw [pythagoras A M i hN m hm] at hle
  have : ∀ j ∈ range A.nrows, ((if i = j then (1 : K) else 0) - ∑ l ∈ range A.nrows, M.get i l * A.get l j) ^ 2
      = (spaiResid A M A.nrows i j) ^ 2 := by
    intro j _; rw [spaiResid_eq]
  rw [sum_congr rfl this] at hle
  have h0 : ∑ j ∈ range A.nrows, (∑ l ∈ range A.nrows, (m l - M.get i l) * A.get l j) ^ 2 = 0 :=
    le_antisymm (by linarith) (sum_nonneg (fun j _ => sq_nonneg _))
  intro j hj
  have := (sum_eq_zero_iff_of_nonneg (fun j _ => sq_nonneg _)).mp h0 j (mem_range.mpr hj)
  exact pow_eq_zero_iff (two_ne_zero) |>.mp this

/-! ### the hypotheses on `sqrt` and on the computed `R`, and the normal equations of the rows of `M` -/

/-- `sqrt` returns an exact root of every number `QR::compute` takes the root of on the local matrix `B` of row `i`
(`QRModel.ExactRoots`, see `Properties/C16b.lean`) -/
def Spai1ExactRoots (sqrt : K → K) (A : CRS K) (i : Nat) : Prop :=
  ExactRoots sqrt (spai1LocalAt A i).J.length (spai1LocalAt A i).I.length 1 (spai1LocalAt A i).J.length (spai1LocalAt A i).B #[]

instance (sqrt : K → K) (A : CRS K) (i : Nat) : Decidable (Spai1ExactRoots sqrt A i) := by
  unfold Spai1ExactRoots; infer_instance

/-- the local problem of row `i` has at least as many rows as columns and no diagonal entry `R(q,q)` of the factor computed by
`QR::compute` vanishes — i.e. the back substitution of `QR::solve` skips nothing (`if (is_zero(rii)) continue;`) -/
def Spai1DiagNonzero (sqrt : K → K) (A : CRS K) (i : Nat) : Prop :=
  (spai1LocalAt A i).I.length ≤ (spai1LocalAt A i).J.length ∧
  ∀ q, q < (spai1LocalAt A i).I.length →
    (computeS sqrt (spai1LocalAt A i).J.length (spai1LocalAt A i).I.length 1 (spai1LocalAt A i).J.length
      (spai1LocalAt A i).B #[]).1.getD (q * 1 + q * (spai1LocalAt A i).J.length) 0 ≠ 0

instance (sqrt : K → K) (A : CRS K) (i : Nat) : Decidable (Spai1DiagNonzero sqrt A i) := by
  unfold Spai1DiagNonzero; infer_instance

theorem local_layout (A : CRS K) (hA : A.WF) (hnd : A.nodupb = true) (i : Nat) :
    Layout (spai1LocalAt A i).J.length (spai1LocalAt A i).I.length 1 (spai1LocalAt A i).J.length (spai1LocalAt A i).B.size := by
  rw [(localFacts A hA hnd i).Bsize]
  exact Layout.colMajor _ _

/-- nothing skipped ⟹ normal equations of row `i` -/
theorem spai1_normal_of_diag (sqrt : K → K) (A : CRS K) (hA : A.WF) (hsq : A.ncols = A.nrows) (hnd : A.nodupb = true)
    (i : Nat) (hi : i < A.nrows) (hex : Spai1ExactRoots sqrt A i) (hd : Spai1DiagNonzero sqrt A i) :
    ∀ cv ∈ A.row i, spaiNormal A (spai1Setup sqrt A) A.nrows i cv.1 = 0 := by
  apply spai1_normal_of_local sqrt A hA hsq hnd i hi
  exact (C16b.qr_solve_least_squares_of_diag sqrt _ _ 1 _ (spai1LocalAt A i).B (spai1LocalAt A i).ek Obj.fresh hd.1
    (local_layout A hA hnd i) hex hd.2).2.1

/-- linearly independent rows ⟹ nothing is skipped -/
theorem spai1_diag_of_indep (sqrt : K → K) (A : CRS K) (hA : A.WF) (hsq : A.ncols = A.nrows) (hnd : A.nodupb = true)
    (i : Nat) (hex : Spai1ExactRoots sqrt A i) (hr : RowsIndep A i) : Spai1DiagNonzero sqrt A i := by
  have hle := local_tall A hA hsq hnd i hr
  refine ⟨hle, ?_⟩
  have L := local_layout A hA hnd i
  obtain ⟨_, _, _, h4⟩ := compute_QR sqrt _ _ 1 _ (spai1LocalAt A i).B #[] L hex
  rw [Nat.min_eq_right hle] at h4
  intro q hq
  have := qr_diag_ne_zero hle _ (Rfull (computeS sqrt (spai1LocalAt A i).J.length (spai1LocalAt A i).I.length 1
      (spai1LocalAt A i).J.length (spai1LocalAt A i).B #[]).1 1 (spai1LocalAt A i).J.length (spai1LocalAt A i).J.length
      (spai1LocalAt A i).I.length)
    (matOf (spai1LocalAt A i).B 1 (spai1LocalAt A i).J.length (spai1LocalAt A i).J.length (spai1LocalAt A i).I.length) h4
    (fun l c hl => by unfold Rfull getR; rw [if_pos (by have := c.isLt; omega)])
    (fun l c hl => by unfold Rfull getR; rw [if_pos hl]) (local_rank A hA hsq hnd i hr) ⟨q, hq⟩
  unfold Rfull getR at this
  rw [if_neg (Nat.lt_irrefl q)] at this
  exact this

/-! ### a non-singular matrix has `RowsIndep` in every row -/

theorem rowsIndep_of_nonsingular (A : CRS K) (hA : A.WF) (hsq : A.ncols = A.nrows) (hnd : A.nodupb = true)
    (hns : ∀ z : Nat → K, (∀ j, j < A.nrows → ∑ l ∈ range A.nrows, z l * A.get l j = 0) → ∀ l, l < A.nrows → z l = 0)
    (i : Nat) : RowsIndep A i := by
  intro y hy
  set I := (A.row i).map (·.1) with hI
  have hInd : I.Nodup := row_nodup_of_nodupb A hnd i
  have hIlt : ∀ c ∈ I, c < A.nrows := by
    intro c hc
    obtain ⟨a, ha, e⟩ := List.mem_map.mp hc
    rw [← e, ← hsq]; exact hA.row_lt i a ha
  -- z l := y at the position of l in I (0 off I)
  let z : Nat → K := fun l => ∑ q ∈ range I.length, if I.getD q 0 = l then y q else 0
  have hz : ∀ j, j < A.nrows → ∑ l ∈ range A.nrows, z l * A.get l j = 0 := by
    intro j hj
    rw [← hy j hj]
    simp only [z, sum_mul]
    rw [sum_comm]
    apply sum_congr rfl
    intro q hq
    have hq' := mem_range.mp hq
    have hlt : I.getD q 0 < A.nrows := by rw [getD_lt _ _ hq']; exact hIlt _ (List.getElem_mem hq')
    rw [sum_eq_single (I.getD q 0)]
    · rw [if_pos rfl]
    · intro l _ hne; rw [if_neg (Ne.symm hne), zero_mul]
    · intro hh; exact absurd (mem_range.mpr hlt) hh
  have hz0 := hns z hz
  intro q hq
  have hlt : I.getD q 0 < A.nrows := by rw [getD_lt _ _ hq]; exact hIlt _ (List.getElem_mem hq)
  have := hz0 (I.getD q 0) hlt
  simp only [z] at this
  rw [sum_eq_single q] at this
  · rwa [if_pos rfl] at this
  · intro q' hq' hne
    rw [if_neg]
    intro e
    apply hne
    have hq'' := mem_range.mp hq'
    rw [getD_lt _ _ hq'', getD_lt _ _ hq] at e
    exact (List.Nodup.getElem_inj_iff hInd).mp e
  · intro hh; exact absurd (mem_range.mpr hq) hh

/-- a vector supported on the stored columns of row `i` against the rows of `A`: `Σ_l d_l a(l,j) = Σ_q d_{I[q]} a(I[q],j)` -/
theorem sum_supported (A : CRS K) (hA : A.WF) (hsq : A.ncols = A.nrows) (hnd : A.nodupb = true) (i : Nat) (d g : Nat → K)
    (hd : ∀ l, l < A.nrows → (∀ cv ∈ A.row i, cv.1 ≠ l) → d l = 0) :
    ∑ l ∈ range A.nrows, d l * g l
      = ∑ q ∈ range ((A.row i).map (·.1)).length, d (((A.row i).map (·.1)).getD q 0) * g (((A.row i).map (·.1)).getD q 0) := by
  have hInd : ((A.row i).map (·.1)).Nodup := row_nodup_of_nodupb A hnd i
  rw [sum_range_getD _ (fun l => d l * g l), sum_list_eq_sum_range _ hInd A.nrows]
  · intro c hc
    obtain ⟨a, ha, e⟩ := List.mem_map.mp hc
    rw [← e, ← hsq]; exact hA.row_lt i a ha
  · intro l hl hnm
    show d l * g l = 0
    rw [hd l hl (fun cv hcv e => hnm (List.mem_map.mpr ⟨cv, hcv, e⟩)), zero_mul]

end Relax
end Amgcl
