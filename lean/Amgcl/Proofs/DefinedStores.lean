import Amgcl.Model.DefinedStores
import Amgcl.Proofs.DefinedPasses
/-!
# Store-only constructions: every cell is written iff every index is the target of a store
-/
namespace Amgcl
namespace Defined
variable {α : Type}

theorem applyStores_size (S : List (Nat × α)) (a : Array (Cell α)) : (applyStores S a).size = a.size := by
  unfold applyStores
  induction S generalizing a with
  | nil => rfl
  | cons s t ih => rw [List.foldl_cons, ih, store_size]

theorem load_applyStores_not_mem (S : List (Nat × α)) (a : Array (Cell α)) (q : Nat) (h : ∀ s ∈ S, s.1 ≠ q) :
    load (applyStores S a) q = load a q := by
  unfold applyStores
  induction S generalizing a with
  | nil => rfl
  | cons s t ih =>
    rw [List.foldl_cons, ih _ (fun x hx => h x (List.mem_cons_of_mem _ hx))]
    exact load_store_ne _ _ _ _ (h s (List.mem_cons_self ..))

/-- a stored-to index holds a value that depends on the store list only -/
theorem load_applyStores_mem (S : List (Nat × α)) (q : Nat) (h : ∃ s ∈ S, s.1 = q) :
    ∃ v, ∀ a : Array (Cell α), q < a.size → load (applyStores S a) q = some v := by
  induction S with
  | nil => obtain ⟨s, hs, _⟩ := h; cases hs
  | cons s t ih =>
    by_cases ht : ∃ x ∈ t, x.1 = q
    · obtain ⟨v, hv⟩ := ih ht
      refine ⟨v, fun a hq => ?_⟩
      show load (applyStores t (store a s.1 s.2)) q = some v
      exact hv _ (by rw [store_size]; exact hq)
    · have hs : s.1 = q := by
        obtain ⟨x, hx, hxq⟩ := h
        rcases List.mem_cons.mp hx with rfl | hx'
        · exact hxq
        · exact absurd ⟨x, hx', hxq⟩ ht
      refine ⟨s.2, fun a hq => ?_⟩
      show load (applyStores t (store a s.1 s.2)) q = some s.2
      rw [load_applyStores_not_mem t _ q (fun x hx hxq => ht ⟨x, hx, hxq⟩), hs]
      exact load_store_same _ _ _ hq

/-- **store-only construction that covers every index**: all cells written, same result for any two prior contents -/
theorem applyStores_covered (S : List (Nat × α)) (n : Nat) (hcov : ∀ q, q < n → ∃ s ∈ S, s.1 = q)
    (a a' : Array (Cell α)) (ha : a.size = n) (ha' : a'.size = n) :
    allWritten (applyStores S a) = true ∧ applyStores S a = applyStores S a' := by
  constructor
  · unfold allWritten
    rw [Array.all_eq_true]
    intro i hi
    have hin : i < n := by rw [applyStores_size, ha] at hi; exact hi
    obtain ⟨v, hv⟩ := load_applyStores_mem S i (hcov i hin)
    have := getElem?_of_load _ _ _ (hv a (by rw [ha]; exact hin))
    rw [Array.getElem?_eq_getElem hi] at this
    simp only [Option.some.injEq] at this
    rw [this]
  · apply Array.ext
    · rw [applyStores_size, applyStores_size, ha, ha']
    · intro i h1 h2
      have hin : i < n := by rw [applyStores_size, ha] at h1; exact h1
      obtain ⟨v, hv⟩ := load_applyStores_mem S i (hcov i hin)
      have e1 := getElem?_of_load _ _ _ (hv a (by rw [ha]; exact hin))
      have e2 := getElem?_of_load _ _ _ (hv a' (by rw [ha']; exact hin))
      rw [Array.getElem?_eq_getElem h1] at e1
      rw [Array.getElem?_eq_getElem h2] at e2
      simp only [Option.some.injEq] at e1 e2
      rw [e1, e2]

/-! ### coverage of the `fpp` / `scatter` store lists -/

theorem strided_cover (np B : Nat) (q : Nat) (hq : q < np * B) : ∃ ip, ip < np ∧ ∃ i, i < B ∧ ip * B + i = q := by
  have hB : 0 < B := by
    rcases Nat.eq_zero_or_pos B with h | h
    · subst h; simp at hq
    · exact h
  refine ⟨q / B, (Nat.div_lt_iff_lt_mul hB).mpr hq, q % B, Nat.mod_lt _ hB, ?_⟩
  rw [Nat.mul_comm]; exact Nat.div_add_mod q B

theorem fppPtr_cover (np B : Nat) : ∀ q, q < np + 1 → ∃ s ∈ fppPtrStores np B, s.1 = q := by
  intro q hq
  unfold fppPtrStores
  rcases Nat.eq_zero_or_pos q with h | h
  · exact ⟨(0, 0), List.mem_cons_self .., h.symm⟩
  · refine ⟨(q - 1 + 1, (q - 1) * B + B), List.mem_cons_of_mem _ (List.mem_map.mpr ⟨q - 1, List.mem_range.mpr (by omega), rfl⟩), ?_⟩
    show q - 1 + 1 = q
    omega

theorem fppCol_cover (np B : Nat) : ∀ q, q < np * B → ∃ s ∈ fppColStores np B, s.1 = q := by
  intro q hq
  obtain ⟨ip, hip, i, hi, e⟩ := strided_cover np B q hq
  unfold fppColStores
  exact ⟨(ip * B + i, ip * B + i), List.mem_flatMap.mpr ⟨ip, List.mem_range.mpr hip,
    List.mem_map.mpr ⟨i, List.mem_range.mpr hi, rfl⟩⟩, e⟩

theorem fppVal_cover {K : Type} (np B : Nat) (hasDiag : Nat → Bool) (dval : Nat → Nat → K)
    (hd : ∀ ip, ip < np → hasDiag ip = true) : ∀ q, q < np * B → ∃ s ∈ fppValStores np B hasDiag dval, s.1 = q := by
  intro q hq
  obtain ⟨ip, hip, i, hi, e⟩ := strided_cover np B q hq
  unfold fppValStores
  refine ⟨(ip * B + i, dval ip i), List.mem_flatMap.mpr ⟨ip, List.mem_range.mpr hip, ?_⟩, e⟩
  rw [if_pos (hd ip hip)]
  exact List.mem_map.mpr ⟨i, List.mem_range.mpr hi, rfl⟩

theorem scatterPtr_cover (np B : Nat) : ∀ q, q < np * B + 1 → ∃ s ∈ scatterPtrStores np B, s.1 = q := by
  intro q hq
  unfold scatterPtrStores
  rcases Nat.eq_zero_or_pos q with h | h
  · exact ⟨(0, 0), List.mem_cons_self .., h.symm⟩
  · obtain ⟨ip, hip, i, hi, e⟩ := strided_cover np B (q - 1) (by omega)
    refine ⟨(ip * B + i + 1, ip + 1), List.mem_cons_of_mem _ (List.mem_flatMap.mpr ⟨ip, List.mem_range.mpr hip,
      List.mem_map.mpr ⟨i, List.mem_range.mpr hi, rfl⟩⟩), ?_⟩
    show ip * B + i + 1 = q
    omega

theorem range_cover {β : Type} (np : Nat) (f : Nat → β) : ∀ q, q < np → ∃ s ∈ (List.range np).map (fun ip => (ip, f ip)), s.1 = q :=
  fun q hq => ⟨(q, f q), List.mem_map.mpr ⟨q, List.mem_range.mpr hq, rfl⟩, rfl⟩

/-! ### the tail loop of `scatter->ptr` -/

theorem carryPass_spec (N cnt : Nat) (p : Array (Cell Nat)) (v : Nat) (hs : N + cnt + 1 ≤ p.size)
    (hN : load p N = some v) :
    (carryPass N cnt (p, true)).2 = true ∧ (carryPass N cnt (p, true)).1.size = p.size ∧
      (∀ j, N ≤ j → j ≤ N + cnt → load (carryPass N cnt (p, true)).1 j = some v) ∧
      (∀ j, j < N → load (carryPass N cnt (p, true)).1 j = load p j) := by
  unfold carryPass
  induction cnt with
  | zero =>
    simp only [List.range'_zero, List.foldl_nil]
    refine ⟨by first | rfl | trivial, by first | rfl | trivial, ?_, fun j _ => by first | rfl | trivial⟩
    intro j h1 h2
    have : j = N := by omega
    subst this; exact hN
  | succ c ih =>
    obtain ⟨a1, a2, a3, a4⟩ := ih (by omega)
    rw [List.range'_concat, List.foldl_append]
    simp only [List.foldl_cons, List.foldl_nil, Nat.one_mul]
    rw [rd_of_load _ _ 0 _ (a3 (N + c) (by omega) (by omega))]
    simp only
    refine ⟨by rw [a1]; rfl, by rw [store_size, a2], ?_, ?_⟩
    · intro j h1 h2
      by_cases hj : j = N + c + 1
      · subst hj; exact load_store_same _ _ _ (by rw [a2]; omega)
      · rw [load_store_ne _ _ _ _ (Ne.symm hj)]; exact a3 j h1 (by omega)
    · intro j hj
      rw [load_store_ne _ _ _ _ (by omega)]; exact a4 j hj

theorem appWidth_eq {K V : Type} (np : Nat) (app : Nat × V → K) (r : List (Nat × V)) :
    appWidth np r = (appFillRow np app r).length := by
  unfold appWidth appFillRow
  have key : ∀ (r : List (Nat × V)) (w : Nat),
      r.foldl (fun w cv => if cv.1 < np then w + 1 else w) w
        = w + (r.filterMap fun cv => if cv.1 < np then some (cv.1, app cv) else none).length := by
    intro r
    induction r with
    | nil => intro w; rfl
    | cons cv t ih =>
      intro w
      rw [List.foldl_cons, ih, List.filterMap_cons]
      by_cases h : cv.1 < np
      · simp [h]; omega
      · simp [h]
  rw [key]; omega

end Defined
end Amgcl
