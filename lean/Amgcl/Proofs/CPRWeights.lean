import Amgcl.Proofs.CPRPass
import Amgcl.Proofs.CPRInvert
import Amgcl.Proofs.Primitives
/-!
The weights computed by `first_scalar_pass` (C18): for sorted rows the diagonal block is visited exactly once, what is
captured there is the transposed diagonal block, hence (`invert_spec`) the weights are the first row of the inverse
diagonal block.
-/
namespace Amgcl.CPR
open Amgcl Finset

section visit
variable {K : Type} [Field K] [DecidableEq K]

theorem lt_succ_mul_of_div_eq {c B cur : Nat} (hB : 0 < B) (h : c / B = cur) : c < (cur + 1) * B := by
  subst h
  have := Nat.div_add_mod c B
  have := Nat.mod_lt c hB
  rw [Nat.add_mul, Nat.one_mul, Nat.mul_comm]; omega

/-- if the pass ends with weights `y` (none before), they were computed at a visit of block column `ip`: from the
capture of the rows cut at some `lo ≤ ip·B` below which nothing of block column `≥ ip` … was dropped -/
theorem passLoop_visit (B N ip : Nat) (hB : 0 < B) (rows : List (Row K)) (hs : ∀ r ∈ rows, Sorted r) (y : Array K) :
    ∀ (fuel lo cnt : Nat), lo ≤ ip * B →
      (passLoop B N ip true fuel { ks := rows.map (geC lo), cnt := cnt, w := none, zeroPivot := false }).w = some y →
      ∃ lo', lo' ≤ ip * B ∧ invert B (diagCapture B ((ip + 1) * B) (rows.map (geC lo'))) = some y ∧
        (∀ r ∈ rows, ∀ cv ∈ r, lo' ≤ cv.1 → cv.1 < N → ip ≤ cv.1 / B) := by
  intro fuel
  induction fuel with
  | zero => intro lo cnt _ h; cases h
  | succ f ih =>
    intro lo cnt hlo h
    unfold passLoop at h
    cases hcur : curCol B N (rows.map (geC lo)) with
    | none => rw [hcur] at h; cases h
    | some cur =>
      rw [hcur] at h
      simp only at h
      obtain ⟨hmin, r0, hr0, cv0, hcv0, hlo0, hN0, hdiv0⟩ := curCol_geC_some rows hs lo cur hcur
      have hcv0lt : cv0.1 < (cur + 1) * B := lt_succ_mul_of_div_eq hB hdiv0
      have hle : lo ≤ (cur + 1) * B := by omega
      by_cases hci : cur = ip
      · rw [if_pos hci] at h
        cases hinv : invert B (diagCapture B ((cur + 1) * B) (rows.map (geC lo))) with
        | none => rw [hinv] at h; cases h
        | some y' =>
          rw [hinv] at h
          simp only [if_true] at h
          rw [advance_geC rows hs lo _ hle] at h
          have hnv := fun c => passLoop_novisit B N ip hB rows hs true f ((cur + 1) * B) c (some y') false
            (by
              intro r hr cv hcv h1 _
              rw [hci] at h1
              have : ip + 1 ≤ cv.1 / B := (Nat.le_div_iff_mul_le hB).2 h1
              omega)
          rw [(hnv _).1] at h
          cases h
          refine ⟨lo, hlo, by rw [← hci]; exact hinv, ?_⟩
          intro r hr cv hcv h1 h2
          rw [← hci]; exact hmin r hr cv hcv h1 h2
      · rw [if_neg hci, advance_geC rows hs lo _ hle] at h
        by_cases hlt : cur < ip
        · have : (cur + 1) * B ≤ ip * B := Nat.mul_le_mul_right _ hlt
          exact ih ((cur + 1) * B) _ this h
        · -- beyond the diagonal block: it is never visited, the weights stay `none`
          exfalso
          have hnv := fun c => passLoop_novisit B N ip hB rows hs true f ((cur + 1) * B) c none false
            (by
              intro r hr cv hcv h1 _
              have h2 : cur + 1 ≤ cv.1 / B := (Nat.le_div_iff_mul_le hB).2 h1
              omega)
          rw [(hnv _).1] at h
          cases h

end visit

end Amgcl.CPR

namespace Amgcl.CPR
open Amgcl Finset

section capture
variable {K : Type} [Field K] [DecidableEq K]

/-- the capture loop for one iterator `i`: the entries of one block column written into column `i` of `v` -/
theorem capRow (B ip i : Nat) (hB : 0 < B) (hi : i < B) (l : Row K) (hnd : (l.map (·.1)).Nodup)
    (hblk : ∀ cv ∈ l, cv.1 / B = ip) (v : Array K) (hv : v.size = B * B) :
    (l.foldl (fun (v : Array K) cv => v.setIfInBounds ((cv.1 % B) * B + i) cv.2) v).size = B * B ∧
    ∀ cB i', cB < B → i' < B →
      get2 B (l.foldl (fun (v : Array K) cv => v.setIfInBounds ((cv.1 % B) * B + i) cv.2) v) cB i'
        = if i' = i ∧ (ip * B + cB) ∈ l.map (·.1) then rowGet l (ip * B + cB) else get2 B v cB i' := by
  induction l using List.reverseRecOn with
  | nil =>
    refine ⟨hv, ?_⟩
    intro cB i' _ _
    simp
  | append_singleton t x ih =>
    have hnd' : (t.map (·.1)).Nodup ∧ x.1 ∉ t.map (·.1) := by
      rw [List.map_append, List.nodup_append] at hnd
      refine ⟨hnd.1, ?_⟩
      intro hx
      exact hnd.2.2 x.1 hx x.1 (by simp) rfl
    obtain ⟨hs, hg⟩ := ih hnd'.1 (fun cv hcv => hblk cv (List.mem_append_left _ hcv))
    have hx : x.1 / B = ip := hblk x (by simp)
    have hxeq : x.1 = ip * B + x.1 % B := by
      have := Nat.div_add_mod x.1 B
      rw [hx, Nat.mul_comm] at this; omega
    have hmod : x.1 % B < B := Nat.mod_lt _ hB
    rw [List.foldl_append]
    simp only [List.foldl_cons, List.foldl_nil]
    set vt := t.foldl (fun (v : Array K) cv => v.setIfInBounds ((cv.1 % B) * B + i) cv.2) v with hvt
    refine ⟨by simp [hs], ?_⟩
    intro cB i' hcB hi'
    show get2 B (set2 B vt (x.1 % B) i x.2) cB i' = _
    rw [get2_set2 vt _ hs hmod hi hi', hg cB i' hcB hi']
    by_cases hc : x.1 % B = cB ∧ i = i'
    · obtain ⟨hc1, hc2⟩ := hc
      subst hc2
      have hmem : (ip * B + cB) ∈ (t ++ [x]).map (·.1) := by
        rw [← hc1, ← hxeq]; simp
      rw [if_pos ⟨hc1, rfl⟩, if_pos ⟨rfl, hmem⟩, rowGet_append, rowGet_singleton]
      have hxc : x.1 = ip * B + cB := by rw [← hc1]; exact hxeq
      rw [if_pos hxc, rowGet_eq_zero_of_not_mem, zero_add]
      intro cv hcv he
      apply hnd'.2
      rw [hxc, ← he]
      exact List.mem_map_of_mem hcv
    · rw [if_neg hc]
      have hne : i' = i → ¬ x.1 = ip * B + cB := by
        intro hii hxc
        apply hc
        refine ⟨?_, hii.symm⟩
        rw [hxc, Nat.mul_comm, Nat.mul_add_mod, Nat.mod_eq_of_lt hcB]
      by_cases hii : i' = i
      · have hx' := hne hii
        have hiff : ((ip * B + cB) ∈ (t ++ [x]).map (·.1)) ↔ ((ip * B + cB) ∈ t.map (·.1)) := by
          rw [List.map_append, List.mem_append]
          constructor
          · rintro (h | h)
            · exact h
            · simp at h; exact absurd h.symm hx'
          · intro h; exact Or.inl h
        rw [rowGet_append, rowGet_singleton, if_neg hx', add_zero]
        by_cases hm : (ip * B + cB) ∈ t.map (·.1)
        · rw [if_pos ⟨hii, hm⟩, if_pos ⟨hii, hiff.2 hm⟩]
        · rw [if_neg (fun h => hm h.2), if_neg (fun h => hm (hiff.1 h.2))]
      · rw [if_neg (fun h => hii h.1), if_neg (fun h => hii h.1)]

/-- the capture of a list of iterators (already restricted to one block column) -/
def capFold (B : Nat) (L : List (Row K)) : Array K :=
  L.zipIdx.foldl (fun (v : Array K) ki =>
    ki.1.foldl (fun (v : Array K) cv => v.setIfInBounds ((cv.1 % B) * B + ki.2) cv.2) v) (Array.replicate (B * B) 0)

theorem capFold_spec (B ip : Nat) (hB : 0 < B) (L : List (Row K)) (hL : L.length ≤ B)
    (hnd : ∀ l ∈ L, (l.map (·.1)).Nodup) (hblk : ∀ l ∈ L, ∀ cv ∈ l, cv.1 / B = ip) :
    (capFold B L).size = B * B ∧
    ∀ cB i, cB < B → i < B → get2 B (capFold B L) cB i = rowGet (L.getD i []) (ip * B + cB) := by
  induction L using List.reverseRecOn with
  | nil =>
    refine ⟨by simp [capFold], ?_⟩
    intro cB i hcB hi
    have hlt : cB * B + i < B * B := idx2_lt hcB hi
    simp [capFold, get2, Array.getD, hlt]
  | append_singleton T r ih =>
    have hlen : T.length < B := by simp at hL; omega
    obtain ⟨hs, hg⟩ := ih (by omega) (fun l hl => hnd l (List.mem_append_left _ hl))
      (fun l hl => hblk l (List.mem_append_left _ hl))
    have hcap : capFold B (T ++ [r])
        = r.foldl (fun (v : Array K) cv => v.setIfInBounds ((cv.1 % B) * B + T.length) cv.2) (capFold B T) := by
      unfold capFold
      rw [List.zipIdx_append, List.foldl_append]
      simp
    obtain ⟨hs', hg'⟩ := capRow B ip T.length hB hlen r (hnd r (by simp)) (hblk r (by simp)) (capFold B T) hs
    rw [hcap]
    refine ⟨hs', ?_⟩
    intro cB i hcB hi
    rw [hg' cB i hcB hi, hg cB i hcB hi]
    by_cases hiT : i = T.length
    · subst hiT
      have h1 : (T ++ [r]).getD T.length [] = r := by simp [List.getD_eq_getElem?_getD]
      have h2 : T.getD T.length [] = [] := by simp [List.getD_eq_getElem?_getD]
      rw [h1, h2]
      by_cases hm : (ip * B + cB) ∈ r.map (·.1)
      · rw [if_pos ⟨rfl, hm⟩]
      · rw [if_neg (fun h => hm h.2), rowGet_nil']
        symm
        apply rowGet_eq_zero_of_not_mem
        intro cv hcv he
        exact hm (he ▸ List.mem_map_of_mem hcv)
    · rw [if_neg (fun h => hiT h.1)]
      congr 1
      simp only [List.getD_eq_getElem?_getD]
      by_cases hlt : i < T.length
      · rw [List.getElem?_append_left hlt]
      · have : T.length < i := by omega
        have e1 : (T ++ [r])[i]? = none := List.getElem?_eq_none (by simp; omega)
        have e2 : T[i]? = none := List.getElem?_eq_none (by omega)
        rw [e1, e2]

theorem foldl_congr_mem {α β : Type} (f g : β → α → β) (l : List α) (b : β) (h : ∀ b a, a ∈ l → f b a = g b a) :
    l.foldl f b = l.foldl g b := by
  induction l generalizing b with
  | nil => rfl
  | cons a t ih =>
    simp only [List.foldl_cons]
    rw [h b a List.mem_cons_self]
    exact ih _ (fun b' a' ha' => h b' a' (List.mem_cons_of_mem _ ha'))

/-- `diagCapture` on cut sorted rows is the capture of the rows restricted to `[lo, e)` -/
theorem diagCapture_eq (B lo e : Nat) (rows : List (Row K)) (hs : ∀ r ∈ rows, Sorted r) :
    diagCapture B e (rows.map (geC lo))
      = capFold B (rows.map (fun r => r.filter (fun cv => decide (lo ≤ cv.1 ∧ cv.1 < e)))) := by
  unfold diagCapture capFold
  rw [List.zipIdx_map, List.zipIdx_map, List.foldl_map, List.foldl_map]
  apply foldl_congr_mem
  intro v ri hri
  have hr : ri.1 ∈ rows := by
    have := (List.mem_zipIdx' (x := ri.1) (i := ri.2) hri).2
    rw [this]; exact List.getElem_mem _
  show ((geC lo ri.1).takeWhile _).foldl _ v = _
  rw [takeWhile_geC (hs ri.1 hr)]
  rfl

end capture

end Amgcl.CPR

namespace Amgcl.CPR
open Amgcl Finset

section weights
variable {K : Type} [Field K] [DecidableEq K]

/-- **the weights are the first row of the inverse diagonal block**: `y · D = e₀ᵀ` for `D = A[ip·B .. , ip·B ..]` -/
theorem passRow_weights (A : CRS K) (hs : A.sortedb = true) (B N ip q : Nat) (hB : 0 < B) (hN : N = q * B)
    (hip : ip < q) (y : Array K) (hw : (passRow A B N ip true).w = some y) :
    y.size = B ∧ ∀ c, c < B →
      ∑ i ∈ range B, y.getD i 0 * A.get (ip * B + i) (ip * B + c) = if c = 0 then 1 else 0 := by
  have hsr := blockRows_sorted A hs B ip
  unfold passRow at hw
  simp only at hw
  rw [← map_geC_zero (blockRows A B ip)] at hw
  conv at hw => rw [show remaining ((blockRows A B ip).map (geC 0)) = remaining (blockRows A B ip) by rw [map_geC_zero]]
  obtain ⟨lo', hlo', hinv, hmin⟩ := passLoop_visit B N ip hB (blockRows A B ip) hsr y _ 0 0 (Nat.zero_le _) hw
  rw [diagCapture_eq B lo' _ (blockRows A B ip) hsr] at hinv
  set L := (blockRows A B ip).map (fun r => r.filter (fun cv => decide (lo' ≤ cv.1 ∧ cv.1 < (ip + 1) * B))) with hL
  have hLlen : L.length = B := by simp [hL, blockRows]
  have heN : (ip + 1) * B ≤ N := by rw [hN]; exact Nat.mul_le_mul_right _ hip
  have hLnd : ∀ l ∈ L, (l.map (·.1)).Nodup := by
    intro l hl
    obtain ⟨r, hr, rfl⟩ := List.mem_map.1 hl
    exact K2.StrictCols.nodup ((hsr r hr).filter _)
  have hLblk : ∀ l ∈ L, ∀ cv ∈ l, cv.1 / B = ip := by
    intro l hl cv hcv
    obtain ⟨r, hr, rfl⟩ := List.mem_map.1 hl
    simp only [List.mem_filter, decide_eq_true_eq] at hcv
    have h1 := hmin r hr cv hcv.1 hcv.2.1 (by omega)
    have h2 : cv.1 / B < ip + 1 := (Nat.div_lt_iff_lt_mul hB).2 hcv.2.2
    omega
  obtain ⟨hvs, hvg⟩ := capFold_spec B ip hB L (by omega) hLnd hLblk
  obtain ⟨hys, hyeq⟩ := invert_spec B (capFold B L) y hvs hinv
  refine ⟨hys, ?_⟩
  intro c hc
  rw [← hyeq c hc]
  apply Finset.sum_congr rfl
  intro i hi
  have hi' := Finset.mem_range.1 hi
  rw [hvg c i hc hi']
  have hLi : L.getD i [] = (A.row (ip * B + i)).filter (fun cv => decide (lo' ≤ cv.1 ∧ cv.1 < (ip + 1) * B)) := by
    simp [hL, blockRows, List.getD_eq_getElem?_getD, hi']
  rw [hLi, rowGet_filter (fun cc => decide (lo' ≤ cc ∧ cc < (ip + 1) * B))]
  have hcond : lo' ≤ ip * B + c ∧ ip * B + c < (ip + 1) * B := by
    refine ⟨by omega, ?_⟩
    rw [Nat.add_mul, Nat.one_mul]; omega
  simp only [hcond, and_self, decide_true, if_true]
  unfold CRS.get
  ring

end weights

end Amgcl.CPR

namespace Amgcl.CPR
open Amgcl Finset

section fpp
variable {K : Type} [Field K] [DecidableEq K]

/-- the weights of block row `ip` are what `Fpp` stores in its row `ip` -/
theorem initScalar_Fpp_get (A : CRS K) (B act q : Nat) (hB : 0 < B)
    (hN : (if act = 0 then A.nrows else act) = q * B) (ip : Nat) (hip : ip < q) (i : Nat) (hi : i < B) :
    (initScalar A B act).Fpp.get ip (ip * B + i) = (weights B (passRow A B (q * B) ip true)).getD i 0 := by
  have hnp : (if act = 0 then A.nrows else act) / B = q := by rw [hN]; exact Nat.mul_div_cancel _ hB
  have hip' : ip < (if act = 0 then A.nrows else act) / B := by rw [hnp]; exact hip
  set w := weights B (passRow A B (q * B) ip true) with hw
  have hFpp : (initScalar A B act).Fpp.row ip = (List.range B).map (fun i => (ip * B + i, w.getD i 0)) := by
    unfold initScalar fppOf CRS.row
    simp only
    rw [getD_ofFn_lt _ _ _ hip']
    simp only [hN]
    rfl
  unfold CRS.get
  rw [hFpp]
  have : ∀ (l : List Nat), l.Nodup → i ∈ l →
      rowGet (l.map (fun t => (ip * B + t, w.getD t 0))) (ip * B + i) = w.getD i 0 := by
    intro l
    induction l with
    | nil => intro _ h; cases h
    | cons a t ih =>
      intro hnd hmem
      rw [List.map_cons, rowGet_cons']
      have hnd' := List.nodup_cons.1 hnd
      by_cases hai : a = i
      · subst hai
        rw [if_pos rfl, rowGet_eq_zero_of_not_mem, add_zero]
        intro cv hcv
        obtain ⟨t', ht', rfl⟩ := List.mem_map.1 hcv
        intro he
        have : t' = a := by simpa using he
        exact hnd'.1 (this ▸ ht')
      · rw [if_neg (by intro he; exact hai (by omega)), zero_add]
        exact ih hnd'.2 (by rcases List.mem_cons.1 hmem with h | h; exact absurd h.symm hai; exact h)
  exact this (List.range B) List.nodup_range (List.mem_range.2 hi)

/-- without the `uninit` / `zero_pivot` outcome every block row has computed weights -/
theorem initScalar_ok_isSome (A : CRS K) (B act q : Nat) (hB : 0 < B)
    (hN : (if act = 0 then A.nrows else act) = q * B)
    (hu : (initScalar A B act).uninit = false) (hz : (initScalar A B act).zeroPivot = false) (ip : Nat) (hip : ip < q) :
    ∃ y, (passRow A B (q * B) ip true).w = some y := by
  have hnp : (if act = 0 then A.nrows else act) / B = q := by rw [hN]; exact Nat.mul_div_cancel _ hB
  unfold initScalar at hu hz
  simp only [hN] at hu hz
  rw [List.any_eq_false] at hu hz
  have hq : q * B / B = q := Nat.mul_div_cancel _ hB
  have h1 := hu ip (List.mem_range.2 (by rw [hq]; exact hip))
  have h2 := hz ip (List.mem_range.2 (by rw [hq]; exact hip))
  cases hw : (passRow A B (q * B) ip true).w with
  | some y => exact ⟨y, rfl⟩
  | none =>
    exfalso
    rw [hw] at h1
    simp at h1 h2
    rw [h1] at h2; cases h2

end fpp

end Amgcl.CPR
