import Amgcl.Model.PTree
/-!
Helper lemmas for C14: lookups in a property tree after `put`, the import list, the export fold, `sameSet`.
(core Lean only; the property theorems are in `Amgcl/Properties/C14.lean`)
-/
namespace Amgcl.Params

namespace PTree

theorem lookup_upsert_same (k : String) (g : PTree → PTree) (l : List (String × PTree)) :
    lookup k (upsert k g l) = some (g ((lookup k l).getD empty)) := by
  induction l with
  | nil => simp [upsert, lookup]
  | cons hd tl ih =>
    obtain ⟨k', c⟩ := hd
    by_cases h : k' = k
    · simp [upsert, lookup, h]
    · simp [upsert, lookup, h, ih]

theorem lookup_upsert_ne (k k' : String) (g : PTree → PTree) (l : List (String × PTree)) (h : k' ≠ k) :
    lookup k' (upsert k g l) = lookup k' l := by
  induction l with
  | nil => simp [upsert, lookup, Ne.symm h]
  | cons hd tl ih =>
    obtain ⟨k'', c⟩ := hd
    by_cases h1 : k'' = k
    · subst h1
      have : k'' ≠ k' := Ne.symm h
      simp [upsert, lookup, this]
    · by_cases h2 : k'' = k'
      · subst h2
        simp [upsert, lookup, h1]
      · simp [upsert, lookup, h1, h2, ih]

@[simp] theorem kids_node (d : String) (ks : List (String × PTree)) : (node d ks).kids = ks := rfl
@[simp] theorem data_node (d : String) (ks : List (String × PTree)) : (node d ks).data = d := rfl

theorem get?_put_same (p : PTree) (k v : String) : (p.put k v).get? k = some v := by
  simp [put, putPath, get?, child?, lookup_upsert_same]

theorem child?_put_ne (p : PTree) (k k' v : String) (h : k' ≠ k) : (p.put k v).child? k' = p.child? k' := by
  simp [put, putPath, child?, lookup_upsert_ne _ _ _ _ h]

theorem get?_put_ne (p : PTree) (k k' v : String) (h : k' ≠ k) : (p.put k v).get? k' = p.get? k' := by
  simp [get?, child?_put_ne _ _ _ _ h]

theorem child?_setChild_ne (p : PTree) (k k' : String) (c : PTree) (h : k' ≠ k) :
    (p.setChild k c).child? k' = p.child? k' := by
  simp [setChild, child?, lookup_upsert_ne _ _ _ _ h]

theorem get_put_same (p : PTree) (k v d : String) : (p.put k v).get k d = v := by
  have h := get?_put_same p k v
  simp only [get?, Option.map_eq_some_iff] at h
  obtain ⟨c, hc, hd⟩ := h
  simp [get, hc, hd]

theorem get_eq_of_get? (p : PTree) (k d : String) : p.get k d = (p.get? k).getD d := by
  unfold get get?
  cases p.child? k <;> simp

theorem keys_put_empty (k v : String) : (empty.put k v).keys = [k] := by
  simp [put, putPath, keys, empty, upsert]

end PTree

namespace ParamTable

/-- looking a name up in `l.map (fun n => (n, g n))` -/
theorem find?_map_pair {β : Type} (g : String → β) (l : List String) (f : String) (hf : f ∈ l) :
    (l.map fun n => (n, g n)).find? (·.1 = f) = some (f, g f) := by
  induction l with
  | nil => cases hf
  | cons a tl ih =>
    by_cases h : a = f
    · subst h; simp
    · have : f ∈ tl := by
        cases hf with
        | head => exact absurd rfl h
        | tail _ h' => exact h'
      simp [h, ih this]

theorem value?_importT (t : ParamTable) (dflt : String → String) (p : PTree) (f : String)
    (hf : f ∈ t.importValue) : (t.importT dflt p).value? f = some (p.get f (dflt f)) := by
  unfold Imported.value? importT
  simp only
  rw [find?_map_pair (fun n => p.get n (dflt n)) t.importValue f hf]
  rfl

/-- a child exporter only touches its own key -/
def ChildLocal (ce : String → PTree → PTree → PTree) : Prop :=
  ∀ (n : String) (sub acc : PTree) (k : String), k ≠ n → (ce n sub acc).child? k = acc.child? k

theorem rawChildExp_local : ChildLocal rawChildExp := by
  intro n sub acc k hk
  unfold rawChildExp
  split
  · rfl
  · exact PTree.child?_setChild_ne _ _ _ _ hk

/-- one step of the export fold -/
def exportStep (ce : String → PTree → PTree → PTree) (prm : Imported) (acc : PTree) (e : String × Via) : PTree :=
  match e.2 with
  | Via.value => match prm.value? e.1 with
      | some v => acc.put e.1 v
      | none => acc.put e.1 "default"
  | Via.child => ce e.1 ((prm.child? e.1).getD PTree.empty) acc

theorem exportT_eq_foldl (t : ParamTable) (ce) (prm : Imported) (acc : PTree) :
    t.exportT ce prm acc = t.exports.foldl (exportStep ce prm) acc := by
  unfold exportT
  congr 1

theorem exportStep_ne (ce) (hce : ChildLocal ce) (prm : Imported) (acc : PTree) (e : String × Via) (f : String)
    (h : f ≠ e.1) : (exportStep ce prm acc e).get? f = acc.get? f := by
  obtain ⟨n, via⟩ := e
  cases via with
  | value =>
    simp only [exportStep]
    cases prm.value? n <;> simp [PTree.get?_put_ne _ _ _ _ h]
  | child =>
    simp only [exportStep, PTree.get?]
    rw [hce n _ acc f h]

theorem foldl_export_not_mem (ce) (hce : ChildLocal ce) (prm : Imported) (l : List (String × Via)) (acc : PTree)
    (f : String) (h : f ∉ l.map (·.1)) : (l.foldl (exportStep ce prm) acc).get? f = acc.get? f := by
  induction l generalizing acc with
  | nil => rfl
  | cons e tl ih =>
    simp only [List.map_cons, List.mem_cons, not_or] at h
    simp only [List.foldl_cons]
    rw [ih _ h.2, exportStep_ne ce hce prm acc e f h.1]

theorem foldl_export_mem (ce) (hce : ChildLocal ce) (prm : Imported) (l : List (String × Via)) (acc : PTree)
    (f v : String) (hv : prm.value? f = some v) (hmem : (f, Via.value) ∈ l) (hnd : (l.map (·.1)).Nodup) :
    (l.foldl (exportStep ce prm) acc).get? f = some v := by
  induction l generalizing acc with
  | nil => cases hmem
  | cons e tl ih =>
    simp only [List.map_cons, List.nodup_cons] at hnd
    simp only [List.foldl_cons]
    cases hmem with
    | head =>
      rw [foldl_export_not_mem ce hce prm tl _ f hnd.1]
      simp [exportStep, hv, PTree.get?_put_same]
    | tail _ h' => exact ih _ h' hnd.2

theorem mem_exportValue (t : ParamTable) (f : String) (h : f ∈ t.exportValue) : (f, Via.value) ∈ t.exports := by
  unfold exportValue at h
  simp only [List.mem_map, List.mem_filter, decide_eq_true_eq] at h
  obtain ⟨⟨n, via⟩, ⟨hm, hv⟩, hn⟩ := h
  simp only at hv hn
  subst hv; subst hn
  exact hm

theorem sameSet_mem {a b : List String} (h : sameSet a b = true) (x : String) : x ∈ a ↔ x ∈ b := by
  unfold sameSet at h
  simp only [Bool.and_eq_true, List.all_eq_true, List.contains_iff_mem] at h
  exact ⟨fun hx => h.1 x hx, fun hx => h.2 x hx⟩

/-! ### unpacking `Consistent` -/

/-- the clauses of `Consistent` the proofs below use -/
theorem consistent_unpack {t : ParamTable} (h : t.Consistent) :
    (t.exports.map (·.1)).Nodup ∧
    (∀ x ∈ t.settableFields, x ∈ t.importValue ∨ x ∈ exportExempt t.name ∧ x ∈ t.manualKeys) ∧
    (∀ x ∈ t.valueFields, x ∈ t.exportValue) ∧
    ((if t.emptyLike = true then t.understood.isEmpty && t.checks.isEmpty && t.imports.isEmpty && t.exports.isEmpty
      else !t.checks.isEmpty && t.checks.all fun c => sameSet c.names t.understood) = true) := by
  unfold Consistent consistentB at h
  simp only [Bool.and_eq_true, List.all_eq_true, decide_eq_true_eq, Bool.or_eq_true, List.contains_iff_mem] at h
  obtain ⟨⟨⟨⟨⟨⟨⟨⟨⟨_, _⟩, _⟩, h1c⟩, _⟩, h3⟩, h4⟩, _⟩, _⟩, h7⟩ := h
  exact ⟨h1c, h3, h4, h7⟩

/-- a member that must round-trip is imported by `AMGCL_PARAMS_IMPORT_VALUE` -/
theorem value_imported {t : ParamTable} (h : t.Consistent) {f : String} (hf : f ∈ t.valueFields) :
    f ∈ t.importValue := by
  obtain ⟨_, h3, _, _⟩ := consistent_unpack h
  have hs : f ∈ t.settableFields := by
    unfold valueFields at hf; unfold settableFields
    exact (List.mem_filter.mp hf).1
  have hne : f ∉ exportExempt t.name := by
    unfold valueFields at hf
    simpa using (List.mem_filter.mp hf).2
  rcases h3 f hs with h' | h'
  · exact h'
  · exact absurd h'.1 hne

end ParamTable

namespace EnumTable

theorem assoc_some_mem {k v : String} {l : List (String × String)} (h : assoc k l = some v) : (k, v) ∈ l := by
  induction l with
  | nil => simp [assoc] at h
  | cons hd tl ih =>
    obtain ⟨a, b⟩ := hd
    by_cases hk : a = k
    · simp [assoc, hk] at h
      subst hk; subst h
      exact List.mem_cons_self
    · simp [assoc, hk] at h
      exact List.mem_cons_of_mem _ (ih h)

theorem consistent_unpack {E : EnumTable} (h : E.Consistent) :
    (∀ e ∈ E.values, E.parse (E.print e) = some e) ∧
    (∀ x ∈ E.parses, x.1 ∈ E.printedNames) ∧
    (∀ sw ∈ E.switches, sw.mustCover = true → ∀ e ∈ E.values, e ∈ sw.cases) := by
  unfold EnumTable.Consistent EnumTable.consistentB at h
  simp only [Bool.and_eq_true, List.all_eq_true, decide_eq_true_eq, Bool.or_eq_true, List.contains_iff_mem,
    beq_iff_eq, Bool.not_eq_true'] at h
  obtain ⟨⟨⟨⟨_, _⟩, h1⟩, h2⟩, h3⟩ := h
  refine ⟨h1, h2, ?_⟩
  intro sw hsw hm e he
  rcases h3 sw hsw with h' | h'
  · rw [hm] at h'; cases h'
  · exact h' e he

end EnumTable

end Amgcl.Params

/-! ### dotted paths: `put(path + name, v)` below an arbitrary prefix -/
namespace Amgcl.Params
namespace PTree

theorem childPath?_cons (p : PTree) (k : String) (ks : List String) :
    p.childPath? (k :: ks) = (lookup k p.kids).bind (fun c => c.childPath? ks) := by
  simp only [childPath?, child?]
  cases lookup k p.kids <;> rfl

theorem childPath?_empty_ne_nil (path : List String) (h : path ≠ []) : empty.childPath? path = none := by
  cases path with
  | nil => exact absurd rfl h
  | cons k ks => simp [childPath?_cons, empty, lookup]

theorem getPath?_putPath_same (p : PTree) (path : List String) (v : String) :
    (p.putPath path v).getPath? path = some v := by
  induction path generalizing p with
  | nil => simp [putPath, getPath?, childPath?]
  | cons k ks ih =>
    have := ih ((lookup k p.kids).getD empty)
    simp only [getPath?] at this ⊢
    simp only [putPath, childPath?_cons, kids_node, lookup_upsert_same, Option.bind_some]
    exact this

theorem getPath?_putPath_ne (p : PTree) (pre : List String) (n f v : String) (h : f ≠ n) :
    (p.putPath (pre ++ [n]) v).getPath? (pre ++ [f]) = p.getPath? (pre ++ [f]) := by
  induction pre generalizing p with
  | nil =>
    simp only [List.nil_append, getPath?, putPath, childPath?_cons, kids_node, lookup_upsert_ne _ _ _ _ h]
  | cons k ks ih =>
    simp only [List.cons_append, getPath?, putPath, childPath?_cons, kids_node, lookup_upsert_same, Option.bind_some]
    have := ih ((lookup k p.kids).getD empty)
    simp only [getPath?] at this
    rw [this]
    cases hl : lookup k p.kids with
    | some c => simp
    | none =>
      simp only [Option.getD_none, Option.bind_none, Option.map_none]
      rw [childPath?_empty_ne_nil _ (by simp)]
      rfl

end PTree

namespace ParamTable

theorem foldl_exportAt_not_mem (prm : Imported) (path : List String) (l : List (String × Via)) (acc : PTree)
    (f : String) (h : f ∉ l.map (·.1)) :
    (l.foldl (fun acc (e : String × Via) => match e.2 with
        | Via.value => acc.putPath (path ++ [e.1]) ((prm.value? e.1).getD "default")
        | Via.child => acc) acc).getPath? (path ++ [f]) = acc.getPath? (path ++ [f]) := by
  induction l generalizing acc with
  | nil => rfl
  | cons e tl ih =>
    simp only [List.map_cons, List.mem_cons, not_or] at h
    simp only [List.foldl_cons]
    rw [ih _ h.2]
    obtain ⟨n, via⟩ := e
    cases via with
    | value => exact PTree.getPath?_putPath_ne _ _ _ _ _ h.1
    | child => rfl

theorem foldl_exportAt_mem (prm : Imported) (path : List String) (l : List (String × Via)) (acc : PTree)
    (f v : String) (hv : prm.value? f = some v) (hmem : (f, Via.value) ∈ l) (hnd : (l.map (·.1)).Nodup) :
    (l.foldl (fun acc (e : String × Via) => match e.2 with
        | Via.value => acc.putPath (path ++ [e.1]) ((prm.value? e.1).getD "default")
        | Via.child => acc) acc).getPath? (path ++ [f]) = some v := by
  induction l generalizing acc with
  | nil => cases hmem
  | cons e tl ih =>
    simp only [List.map_cons, List.nodup_cons] at hnd
    simp only [List.foldl_cons]
    cases hmem with
    | head =>
      rw [foldl_exportAt_not_mem prm path tl _ f hnd.1]
      simp [hv, PTree.getPath?_putPath_same]
    | tail _ h' => exact ih _ h' hnd.2

theorem exportValuesAt_eq (t : ParamTable) (prm : Imported) (path : List String) (acc : PTree) :
    t.exportValuesAt prm path acc = t.exports.foldl (fun acc (e : String × Via) => match e.2 with
        | Via.value => acc.putPath (path ++ [e.1]) ((prm.value? e.1).getD "default")
        | Via.child => acc) acc := by
  unfold exportValuesAt
  congr 1

end ParamTable
end Amgcl.Params
