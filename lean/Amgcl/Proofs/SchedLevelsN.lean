import Amgcl.Model.ScheduleSort
import Amgcl.Proofs.SchedLevels
import Amgcl.Proofs.SchedTasks
/-!
Step 1 of the constructors with the accumulator `nlev = std::max(nlev, l+1)` (`levelsGenN`, Model/ScheduleSort.lean):
its first component is `levelsGen`, its second is `nlev` of the final level vector (`levelsGenN_eq`) — because a row's
level is final once the row has been visited: the repair loop only raises rows that are visited later.  Core Lean only.
-/
namespace Amgcl.Sched

theorem foldl_levelStepN_fst (take raise : Nat → Nat → Bool) (A : Pattern) (l : List Nat) (st : Array Nat × Nat) :
    (l.foldl (levelStepN take raise A) st).1 = l.foldl (levelStep take raise A) st.1 := by
  induction l generalizing st with
  | nil => rfl
  | cons a t ih => simp only [List.foldl_cons]; rw [ih]; rfl

/-- `nlev` is attained (or 0) -/
theorem foldl_max_attained (l : List Nat) (m0 : Nat) :
    l.foldl (fun m x => max m (x + 1)) m0 = m0 ∨ ∃ x ∈ l, x + 1 = l.foldl (fun m x => max m (x + 1)) m0 := by
  induction l generalizing m0 with
  | nil => exact Or.inl rfl
  | cons a t ih =>
    simp only [List.foldl_cons]
    rcases ih (max m0 (a + 1)) with h | ⟨x, hx, h⟩
    · rw [h]
      rcases Nat.le_total (a + 1) m0 with h' | h'
      · exact Or.inl (Nat.max_eq_left h')
      · exact Or.inr ⟨a, List.mem_cons_self, (Nat.max_eq_right h').symm⟩
    · exact Or.inr ⟨x, List.mem_cons_of_mem _ hx, h⟩

theorem nlev_attained (level : Array Nat) : nlev level = 0 ∨ ∃ i, i < level.size ∧ level.getD i 0 + 1 = nlev level := by
  unfold nlev
  rw [← Array.foldl_toList]
  rcases foldl_max_attained level.toList 0 with h | ⟨x, hx, h⟩
  · exact Or.inl h
  · obtain ⟨i, hi, rfl⟩ := List.mem_iff_getElem.mp hx
    have hi' : i < level.size := by simpa using hi
    refine Or.inr ⟨i, hi', ?_⟩
    rw [← h]
    simp [Array.getD, hi']

/-- the accumulator after `k` iterations -/
def nlevUpTo (take raise : Nat → Nat → Bool) (fwd : Bool) (A : Pattern) (k : Nat) : Array Nat × Nat :=
  (List.range k).foldl (fun st k' => levelStepN take raise A st (rowAt fwd A.size k')) (Array.replicate A.size 0, 0)

theorem levelsGenN_eq_upTo (take raise : Nat → Nat → Bool) (fwd : Bool) (A : Pattern) :
    levelsGenN take raise fwd A = nlevUpTo take raise fwd A A.size := by
  simp [levelsGenN, nlevUpTo, rowOrder, List.foldl_map]

/-- after `k` iterations `nlev` is the maximum of `level[j] + 1` over the rows visited so far -/
structure NlevInv (fwd : Bool) (n k : Nat) (st : Array Nat × Nat) : Prop where
  size : st.1.size = n
  ub : ∀ j, Done fwd n k j → st.1.getD j 0 + 1 ≤ st.2
  att : st.2 = 0 ∨ ∃ j, Done fwd n k j ∧ st.1.getD j 0 + 1 = st.2

theorem nlevUpTo_inv (take raise : Nat → Nat → Bool) (fwd : Bool) (A : Pattern)
    (hr : ∀ j, j < A.size → ∀ c ∈ A.getD j [], raise c j = true → before fwd j c = true) :
    ∀ k, k ≤ A.size → NlevInv fwd A.size k (nlevUpTo take raise fwd A k) := by
  intro k
  induction k with
  | zero =>
    intro _
    refine ⟨by simp [nlevUpTo], ?_, Or.inl rfl⟩
    intro j hj
    exfalso; unfold Done at hj; cases fwd <;> simp at hj <;> omega
  | succ k ih =>
    intro hk
    have hkn : k < A.size := by omega
    have inv := ih (by omega)
    have e : nlevUpTo take raise fwd A (k + 1)
        = levelStepN take raise A (nlevUpTo take raise fwd A k) (rowAt fwd A.size k) := by
      simp [nlevUpTo, List.range_succ, List.foldl_append]
    rw [e]
    generalize nlevUpTo take raise fwd A k = st at inv
    obtain ⟨hcur, hiN⟩ := cur_not_done fwd A.size k hkn
    generalize hi : rowAt fwd A.size k = i at *
    -- rows visited earlier keep their level; row `i` gets `l`
    have hkeep : ∀ j, j ≠ i → ¬ (before fwd i j = true) →
        (levelStepN take raise A st i).1.getD j 0 = st.1.getD j 0 := by
      intro j hji hnb
      show (raiseRow raise i _ (A.getD i []) (st.1.setIfInBounds i _)).getD j 0 = _
      rw [raiseRow_unchanged _ _ _ _ _ j (fun c hc hrc hcj => hnb (by rw [← hcj]; exact hr i hiN c hc hrc)),
        getD_set_ne _ _ _ _ _ hji]
    have hself : (levelStepN take raise A st i).1.getD i 0 = rowLevel take st.1 i (A.getD i []) := by
      show (raiseRow raise i _ (A.getD i []) (st.1.setIfInBounds i _)).getD i 0 = _
      rw [raiseRow_unchanged _ _ _ _ _ i (fun c hc hrc hci => by
          have := hr i hiN c hc hrc
          rw [hci] at this
          unfold before at this; cases fwd <;> simp at this),
        getD_set_eq _ _ _ _ (by rw [inv.size]; exact hiN)]
    have hacc : (levelStepN take raise A st i).2 = max st.2 (rowLevel take st.1 i (A.getD i []) + 1) := rfl
    have hdone : ∀ j, Done fwd A.size k j → j ≠ i ∧ ¬ (before fwd i j = true) := by
      intro j hj
      refine ⟨fun h => hcur (h ▸ hj), fun hb => ?_⟩
      have := not_done_of_after_cur fwd A.size k j hkn (by rw [hi]; exact hb)
      exact this.1 hj
    refine ⟨by show (raiseRow _ _ _ _ _).size = _; rw [raiseRow_size]; simp [inv.size], ?_, ?_⟩
    · intro j hj
      rcases (done_succ fwd A.size k j hkn).mp hj with hj | hj
      · obtain ⟨h1, h2⟩ := hdone j hj
        rw [hkeep j h1 h2, hacc]
        have := inv.ub j hj
        omega
      · rw [hi] at hj; subst hj
        rw [hself, hacc]; omega
    · rw [hacc]
      rcases Nat.le_total (rowLevel take st.1 i (A.getD i []) + 1) st.2 with h | h
      · rw [Nat.max_eq_left h]
        rcases inv.att with h0 | ⟨j, hj, hjv⟩
        · omega
        · obtain ⟨h1, h2⟩ := hdone j hj
          exact Or.inr ⟨j, (done_succ fwd A.size k j hkn).mpr (Or.inl hj), by rw [hkeep j h1 h2]; exact hjv⟩
      · rw [Nat.max_eq_right h]
        exact Or.inr ⟨i, (done_succ fwd A.size k i hkn).mpr (Or.inr hi.symm), by rw [hself]⟩

/-- **step 1 with the accumulator = `levelsGen` and `nlev` of its result**, for every pattern, provided the repair
loop only raises rows that the outer loop visits later (true for all three instances) -/
theorem levelsGenN_eq (take raise : Nat → Nat → Bool) (fwd : Bool) (A : Pattern)
    (hr : ∀ j, j < A.size → ∀ c ∈ A.getD j [], raise c j = true → before fwd j c = true) :
    levelsGenN take raise fwd A = (levelsGen take raise fwd A, nlev (levelsGen take raise fwd A)) := by
  have h1 : (levelsGenN take raise fwd A).1 = levelsGen take raise fwd A := by
    unfold levelsGenN levelsGen; rw [foldl_levelStepN_fst]
  have inv := nlevUpTo_inv take raise fwd A hr A.size (Nat.le_refl _)
  rw [← levelsGenN_eq_upTo] at inv
  have hdone : ∀ j, Done fwd A.size A.size j ↔ j < A.size := by
    intro j; unfold Done; cases fwd <;> simp
  apply Prod.ext h1
  show (levelsGenN take raise fwd A).2 = _
  rw [← h1]
  generalize levelsGenN take raise fwd A = st at inv
  apply Nat.le_antisymm
  · rcases inv.att with h | ⟨j, hj, hjv⟩
    · omega
    · have := lt_nlev st.1 j (by rw [inv.size]; exact (hdone j).mp hj)
      omega
  · rcases nlev_attained st.1 with h | ⟨i, hi, hiv⟩
    · omega
    · have := inv.ub i ((hdone i).mpr (by rw [← inv.size]; exact hi))
      omega

theorem iluLevelsN_eq (lower : Bool) (A : Pattern) : iluLevelsN lower A = (iluLevels lower A, nlev (iluLevels lower A)) :=
  levelsGenN_eq _ _ lower A (fun _ _ _ _ h => by cases h)

theorem gsLevelsAsIsN_eq (fwd : Bool) (A : Pattern) :
    gsLevelsAsIsN fwd A = (gsLevelsAsIs fwd A, nlev (gsLevelsAsIs fwd A)) :=
  levelsGenN_eq _ _ fwd A (fun _ _ _ _ h => by cases h)

theorem gsLevelsN_eq (fwd : Bool) (A : Pattern) : gsLevelsN fwd A = (gsLevels fwd A, nlev (gsLevels fwd A)) :=
  levelsGenN_eq _ _ fwd A (fun _ _ _ _ h => h)

end Amgcl.Sched
