import Amgcl.Proofs.SchurIdx
import Amgcl.Proofs.Primitives
/-!
Entrywise description of the extracted sub-blocks and of the gather / scatter matrices (C18):
`block(pi,pj).get k l = A.get (cls pi)[k] (cls pj)[l]`, `x2·.get k j = [cls[k] = j]`, `·2x.get i l = [i = cls[l]]`.
-/
namespace Amgcl.Schur
open Amgcl

theorem toArray_getD {α : Type} (l : List α) (k : Nat) (d : α) : l.toArray.getD k d = l.getD k d := by
  simp [Array.getD, List.getD_eq_getElem?_getD]
  split <;> simp_all

section rows
variable {K : Type}

theorem extractBlock_fold (A : CRS K) (pm : Array Bool) (pi pj : Bool) (m : Nat) (hm : m ≤ pm.size) :
    (List.range m).foldl (fun (acc : Array (Row K)) i =>
      if pm.getD i false = pi then acc.setIfInBounds ((mkIdx pm).1.getD i 0) (extractRow pm (mkIdx pm).1 pj (A.row i))
      else acc) (Array.replicate (cls pm pi).length [])
    = Array.ofFn (n := (cls pm pi).length) (fun k =>
        if k.val < cnt pm pi m then extractRow pm (mkIdx pm).1 pj (A.row (clsAt pm pi k.val)) else []) := by
  induction m with
  | zero =>
    apply Array.ext
    · simp
    · intro k h1 h2; simp [cnt]
  | succ j ih =>
    have hj : j < pm.size := by omega
    rw [List.range_succ, List.foldl_append, ih (by omega)]
    simp only [List.foldl_cons, List.foldl_nil]
    rw [cnt_succ]
    by_cases hc : pm.getD j false = pi
    · rw [if_pos hc, if_pos hc, mkIdx_getD pm j hj, hc]
      obtain ⟨hlt, hget⟩ := cls_getElem_cnt pm pi j hj hc
      apply Array.ext
      · simp
      · intro k h1 h2
        have hk : k < (cls pm pi).length := by simpa using h2
        rw [Array.getElem_setIfInBounds (by simpa using hk)]
        simp only [Array.getElem_ofFn]
        by_cases hkj : cnt pm pi j = k
        · subst hkj
          rw [if_pos rfl, if_pos (Nat.lt_succ_self _), clsAt_lt pm pi _ hlt, hget]
        · rw [if_neg hkj]
          have : (k < cnt pm pi j + 1) ↔ (k < cnt pm pi j) := by omega
          simp only [this]
    · rw [if_neg hc, if_neg hc]

theorem extractBlock_rows (A : CRS K) (pm : Array Bool) (hn : A.nrows = pm.size) (pi pj : Bool) (nc : Nat) :
    (extractBlock A pm (mkIdx pm).1 pi pj (cls pm pi).length nc).rows
      = Array.ofFn (n := (cls pm pi).length) (fun k => extractRow pm (mkIdx pm).1 pj (A.row (clsAt pm pi k.val))) := by
  unfold extractBlock
  simp only [hn]
  rw [extractBlock_fold A pm pi pj pm.size (Nat.le_refl _)]
  apply Array.ext
  · simp
  · intro k h1 h2
    have hk : k < (cls pm pi).length := by simpa using h2
    simp only [Array.getElem_ofFn]
    rw [if_pos (by rw [← cls_length]; exact hk)]

theorem extractBlock_row (A : CRS K) (pm : Array Bool) (hn : A.nrows = pm.size) (pi pj : Bool) (nc k : Nat)
    (hk : k < (cls pm pi).length) :
    (extractBlock A pm (mkIdx pm).1 pi pj (cls pm pi).length nc).row k
      = extractRow pm (mkIdx pm).1 pj (A.row (cls pm pi)[k]) := by
  unfold CRS.row
  rw [extractBlock_rows A pm hn, getD_ofFn_lt _ _ _ hk]
  simp only [clsAt_lt pm pi k hk]
  rfl

theorem extractBlock_nrows (A : CRS K) (pm : Array Bool) (hn : A.nrows = pm.size) (pi pj : Bool) (nc : Nat) :
    (extractBlock A pm (mkIdx pm).1 pi pj (cls pm pi).length nc).nrows = (cls pm pi).length := by
  unfold CRS.nrows; rw [extractBlock_rows A pm hn]; simp

end rows

section get
variable {K : Type} [AddCommMonoid K]

/-- the renumbered row denotes, at position `l` of the class list, what the original row denotes at `cls[l]` -/
theorem rowGet_extractRow (pm : Array Bool) (pj : Bool) (r : Row K) (hr : ∀ cv ∈ r, cv.1 < pm.size) (l : Nat)
    (hl : l < (cls pm pj).length) :
    rowGet (extractRow pm (mkIdx pm).1 pj r) l = rowGet r (cls pm pj)[l] := by
  induction r with
  | nil => rfl
  | cons cv t ih =>
    have hcv : cv.1 < pm.size := hr cv List.mem_cons_self
    have ht : ∀ c ∈ t, c.1 < pm.size := fun c hc => hr c (List.mem_cons_of_mem _ hc)
    have ih' := ih ht
    unfold extractRow at ih' ⊢
    rw [List.filterMap_cons]
    by_cases hc : pm.getD cv.1 false = pj
    · simp only [hc, if_true]
      rw [rowGet_cons', rowGet_cons', ih', mkIdx_getD pm cv.1 hcv, hc]
      congr 1
      have hiff := cls_getElem_eq_iff pm pj l hl cv.1 hcv
      by_cases h1 : cnt pm pj cv.1 = l
      · rw [if_pos h1, if_pos (hiff.2 ⟨hc, h1⟩).symm]
      · rw [if_neg h1, if_neg (fun e => h1 (hiff.1 e.symm).2)]
    · simp only [hc, if_false]
      rw [rowGet_cons', ih']
      have : ¬ cv.1 = (cls pm pj)[l] := fun e => hc (e ▸ (cls_mem pm pj l hl).2)
      rw [if_neg this, zero_add]

/-- **sub-block entries**: the block with row class `pi` and column class `pj` is `A` restricted to the two
class lists -/
theorem extractBlock_get (A : CRS K) (pm : Array Bool) (hA : A.WF) (hn : A.nrows = pm.size) (hc : A.ncols = pm.size)
    (pi pj : Bool) (nc k l : Nat) (hk : k < (cls pm pi).length) (hl : l < (cls pm pj).length) :
    (extractBlock A pm (mkIdx pm).1 pi pj (cls pm pi).length nc).get k l = A.get (cls pm pi)[k] (cls pm pj)[l] := by
  unfold CRS.get
  rw [extractBlock_row A pm hn pi pj nc k hk]
  apply rowGet_extractRow
  intro cv hcv
  rw [← hc]; exact hA.row_lt _ cv hcv

/-- every stored column of an extracted block is in range -/
theorem extractBlock_wf (A : CRS K) (pm : Array Bool) (hA : A.WF) (hn : A.nrows = pm.size) (hc : A.ncols = pm.size)
    (pi pj : Bool) : (extractBlock A pm (mkIdx pm).1 pi pj (cls pm pi).length (cls pm pj).length).WF := by
  rw [K2.wf_iff_row]
  intro k hk cv hcv
  rw [extractBlock_nrows A pm hn] at hk
  rw [extractBlock_row A pm hn pi pj _ k hk] at hcv
  unfold extractRow at hcv
  rw [List.mem_filterMap] at hcv
  obtain ⟨e, he, hee⟩ := hcv
  have hecol : e.1 < pm.size := by rw [← hc]; exact hA.row_lt _ e he
  by_cases hq : pm.getD e.1 false = pj
  · rw [if_pos hq] at hee
    cases hee
    show (mkIdx pm).1.getD e.1 0 < (cls pm pj).length
    rw [mkIdx_getD pm e.1 hecol, hq]
    exact (cls_getElem_cnt pm pj e.1 hecol hq).1
  · rw [if_neg hq] at hee
    cases hee

end get

section gather
variable {K : Type} [AddCommMonoid K] [One K]

theorem gatherMat_nrows (pm : Array Bool) (pj : Bool) : (gatherMat pm pj : CRS K).nrows = (cls pm pj).length := by
  unfold gatherMat CRS.nrows cls; simp

theorem gatherMat_row (pm : Array Bool) (pj : Bool) (k : Nat) (hk : k < (cls pm pj).length) :
    (gatherMat pm pj : CRS K).row k = [((cls pm pj)[k], (1 : K))] := by
  unfold gatherMat CRS.row
  rw [toArray_getD, List.getD_eq_getElem?_getD, List.getElem?_map]
  have : ((List.range pm.size).filter (fun i => pm.getD i false = pj))[k]? = some (cls pm pj)[k] :=
    List.getElem?_eq_getElem hk
  rw [this]; rfl

theorem gatherMat_wf (pm : Array Bool) (pj : Bool) : (gatherMat pm pj : CRS K).WF := by
  rw [K2.wf_iff_row]
  intro k hk cv hcv
  rw [gatherMat_nrows] at hk
  rw [gatherMat_row pm pj k hk] at hcv
  simp only [List.mem_singleton] at hcv
  subst hcv
  exact (cls_mem pm pj k hk).1

theorem scatterMat_row (pm : Array Bool) (pj : Bool) (nc i : Nat) (hi : i < pm.size) :
    (scatterMat pm (mkIdx pm).1 pj nc : CRS K).row i
      = if pm.getD i false = pj then [(cnt pm pj i, (1 : K))] else [] := by
  unfold scatterMat CRS.row
  rw [getD_ofFn_lt _ _ _ hi]
  show (if pm.getD i false = pj then [((mkIdx pm).1.getD i 0, (1 : K))] else []) = _
  by_cases h : pm.getD i false = pj
  · rw [if_pos h, if_pos h, mkIdx_getD pm i hi, h]
  · rw [if_neg h, if_neg h]

theorem scatterMat_nrows (pm : Array Bool) (pj : Bool) (nc : Nat) :
    (scatterMat pm (mkIdx pm).1 pj nc : CRS K).nrows = pm.size := by
  unfold scatterMat CRS.nrows; simp

theorem scatterMat_wf (pm : Array Bool) (pj : Bool) :
    (scatterMat pm (mkIdx pm).1 pj (cls pm pj).length : CRS K).WF := by
  rw [K2.wf_iff_row]
  intro i hi cv hcv
  rw [scatterMat_nrows] at hi
  rw [scatterMat_row pm pj _ i hi] at hcv
  by_cases h : pm.getD i false = pj
  · rw [if_pos h] at hcv
    simp only [List.mem_singleton] at hcv
    subst hcv
    exact (cls_getElem_cnt pm pj i hi h).1
  · rw [if_neg h] at hcv; cases hcv

end gather

end Amgcl.Schur
