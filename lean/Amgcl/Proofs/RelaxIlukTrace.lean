import Amgcl.Model.RelaxIlukTrace
import Amgcl.Proofs.RelaxIlu0
/-!
# ILU(k) as written: what one call of `add`, one pivot step and one row do to values, levels and the drop list

Helper lemmas for the residual identity `(I+L)(D⁻¹+U) + R = A` of `iluk.hpp` (`Properties/C06.lean`), `R` being the
matrix of discarded contributions recorded by `Model/RelaxIlukTrace.lean`.

1. `ilukAddT`: the traced `add` is the model's `add` in the first component; at the addressed column the sum
   "slot value + discarded so far" grows by exactly `val`, nothing else moves; levels never exceed the bound of the
   incoming level; nothing is discarded when `lev ≤ lfil`.
2. `ilukAddsT`: a sequence of `add`s (the initial scatter of the row of `A`, the update by a finished row of `U`).
3. `ilukPivotT`: one pivot step.
-/
set_option linter.unusedSectionVars false
namespace Amgcl
namespace Relax
open Finset

/-! ### 0. the traced run is the run -/
section fst
variable {K : Type} [Add K] [Mul K] [Sub K] [Neg K] [Zero K] [One K] [Div K]

theorem ilukAddT_fst (lfil : Nat) (s : IlukRow K × Row K) (col : Nat) (val : K) (lev : Nat) :
    (ilukAddT lfil s col val lev).1 = ilukAdd lfil s.1 col val lev := rfl

theorem foldl_ilukAddT_fst {α : Type} (lfil : Nat) (g : α → Nat × K × Nat) (l : List α) (s : IlukRow K × Row K) :
    (l.foldl (fun s e => ilukAddT lfil s (g e).1 (g e).2.1 (g e).2.2) s).1
      = l.foldl (fun w e => ilukAdd lfil w (g e).1 (g e).2.1 (g e).2.2) s.1 := by
  induction l generalizing s with
  | nil => rfl
  | cons e t ih => rw [List.foldl_cons, List.foldl_cons, ih]; rfl

theorem ilukPivotT_fst (lfil : Nat) (U : Array (IlukURow K)) (D : Vec K) (s : IlukRow K × Row K) (c : Nat) :
    (ilukPivotT lfil U D s c).1 = ilukPivot lfil U D s.1 c := by
  unfold ilukPivotT ilukPivot
  cases h : s.1.getD c none with
  | none => rfl
  | some e =>
    obtain ⟨v, l⟩ := e
    exact foldl_ilukAddT_fst lfil (fun e : Nat × K × Nat => (e.1, -(v * D.getD c 0) * e.2.1, max l e.2.2 + 1)) _ _

theorem foldl_ilukPivotT_fst (lfil : Nat) (U : Array (IlukURow K)) (D : Vec K) (l : List Nat)
    (s : IlukRow K × Row K) :
    (l.foldl (ilukPivotT lfil U D) s).1 = l.foldl (ilukPivot lfil U D) s.1 := by
  induction l generalizing s with
  | nil => rfl
  | cons e t ih => rw [List.foldl_cons, List.foldl_cons, ih, ilukPivotT_fst]

/-- the working row of the traced row is the working row of `ilukRow` -/
theorem ilukRowT_fst (lfil n : Nat) (S : IlukState K) (i : Nat) (r : Row K) :
    (ilukRowT lfil n S i r).1
      = (List.range i).foldl (ilukPivot lfil S.U S.D)
          (r.foldl (fun w cv => ilukAdd lfil w cv.1 cv.2 0) (Array.replicate n none)) := by
  unfold ilukRowT
  rw [foldl_ilukPivotT_fst]
  congr 1
  exact foldl_ilukAddT_fst lfil (fun cv : Nat × K => (cv.1, cv.2, 0)) r _

/-- the `L` row read off a working row -/
def ilukLrow (i : Nat) (w : IlukRow K) : Row K :=
  (List.range i).filterMap (fun c => (w.getD c none).map (fun e => (c, e.1)))
/-- the `U` row (with levels) read off a working row -/
def ilukUrow (n i : Nat) (w : IlukRow K) : IlukURow K :=
  (List.range n).filterMap (fun c => if i < c then (w.getD c none).map (fun e => (c, e.1, e.2)) else none)

/-- `ilukRow` in terms of the traced working row -/
theorem ilukRow_eq (lfil n : Nat) (S : IlukState K) (i : Nat) (r : Row K) :
    ilukRow lfil n S i r
      = match (ilukRowT lfil n S i r).1.getD i none with
        | none => .undefinedInput
        | some (d, _) =>
          .ok { L := S.L.push (ilukLrow i (ilukRowT lfil n S i r).1),
                U := S.U.push (ilukUrow n i (ilukRowT lfil n S i r).1), D := S.D.push (1 / d) } := by
  rw [ilukRowT_fst]; rfl

end fst

/-! ### 1. one call of `add` -/
section add
variable {K : Type} [Field K]

/-- value of a slot of the working row (`0` when there is no slot) -/
def wval (w : IlukRow K) (j : Nat) : K :=
  match w.getD j none with
  | some e => e.1
  | none => 0

theorem wval_of_getD_eq {w w' : IlukRow K} {j : Nat} (h : w'.getD j none = w.getD j none) : wval w' j = wval w j := by
  unfold wval; rw [h]

@[simp] theorem ilukAdd_size (lfil : Nat) (w : IlukRow K) (col : Nat) (val : K) (lev : Nat) :
    (ilukAdd lfil w col val lev).size = w.size := by
  unfold ilukAdd
  split
  · split <;> simp
  · simp

theorem ilukAdd_getD_ne (lfil : Nat) (w : IlukRow K) (col : Nat) (val : K) (lev : Nat) (j : Nat) (h : col ≠ j) :
    (ilukAdd lfil w col val lev).getD j none = w.getD j none := by
  unfold ilukAdd
  split
  · split
    · exact getD_setIfInBounds_ne _ _ _ _ _ h
    · rfl
  · exact getD_setIfInBounds_ne _ _ _ _ _ h

theorem ilukAddDrop_ne (lfil : Nat) (w : IlukRow K) (col : Nat) (val : K) (lev : Nat) (d : Row K) (j : Nat)
    (h : col ≠ j) : rowGet (ilukAddDrop lfil w col val lev d) j = rowGet d j := by
  unfold ilukAddDrop
  split
  · split
    · rfl
    · rw [rowGet_cons, if_neg h]
  · rfl

/-- at the addressed column: slot value + discarded grows by `val`, whichever branch `add` takes -/
theorem ilukAddT_total (lfil : Nat) (w : IlukRow K) (col : Nat) (val : K) (lev : Nat) (d : Row K)
    (hc : col < w.size) :
    wval (ilukAdd lfil w col val lev) col + rowGet (ilukAddDrop lfil w col val lev d) col
      = wval w col + rowGet d col + val := by
  unfold ilukAdd ilukAddDrop wval
  cases h : w.getD col none with
  | none =>
    simp only []
    by_cases hl : lev ≤ lfil
    · rw [if_pos hl, if_pos hl, getD_setIfInBounds_self _ _ _ _ hc]; ring
    · rw [if_neg hl, if_neg hl, h, rowGet_cons, if_pos rfl]; ring
  | some e =>
    obtain ⟨v, l⟩ := e
    simp only []
    rw [getD_setIfInBounds_self _ _ _ _ hc]; ring

/-- nothing is discarded when the level is admissible -/
theorem ilukAddDrop_of_le (lfil : Nat) (w : IlukRow K) (col : Nat) (val : K) (lev : Nat) (d : Row K)
    (h : lev ≤ lfil) : ilukAddDrop lfil w col val lev d = d := by
  unfold ilukAddDrop
  split
  · rw [if_pos h]
  · rfl

/-- all slots carry a level `≤ B` -/
def LevLe (w : IlukRow K) (B : Nat) : Prop := ∀ j e, w.getD j none = some e → e.2 ≤ B

theorem LevLe.mono {w : IlukRow K} {B B' : Nat} (h : LevLe w B) (hb : B ≤ B') : LevLe w B' :=
  fun j e he => Nat.le_trans (h j e he) hb

theorem ilukAdd_levLe (lfil : Nat) (w : IlukRow K) (col : Nat) (val : K) (lev : Nat) (B : Nat)
    (hw : LevLe w B) (hl : lev ≤ B) : LevLe (ilukAdd lfil w col val lev) B := by
  intro j e he
  by_cases hj : col = j
  · subst hj
    unfold ilukAdd at he
    cases h : w.getD col none with
    | none =>
      rw [h] at he
      simp only [] at he
      by_cases hl' : lev ≤ lfil
      · rw [if_pos hl', getD_setIfInBounds] at he
        split at he
        · injection he with he; rw [← he]; exact hl
        · rw [h] at he; cases he
      · rw [if_neg hl', h] at he; cases he
    | some e' =>
      obtain ⟨v, l⟩ := e'
      rw [h] at he
      simp only [] at he
      rw [getD_setIfInBounds] at he
      split at he
      · injection he with he; rw [← he]
        exact Nat.le_trans (Nat.min_le_right _ _) hl
      · rw [h] at he; injection he with he; rw [← he]; exact hw col _ h
  · rw [ilukAdd_getD_ne _ _ _ _ _ _ hj] at he
    exact hw j e he

end add

/-! ### 2. a sequence of `add`s -/
section adds
variable {K : Type} [Field K]

/-- `add` applied to a list of `(col, val, lev)` triples -/
def ilukAddsT (lfil : Nat) (s : IlukRow K × Row K) (ts : List (Nat × K × Nat)) : IlukRow K × Row K :=
  ts.foldl (fun s t => ilukAddT lfil s t.1 t.2.1 t.2.2) s

theorem ilukAddsT_cons (lfil : Nat) (s : IlukRow K × Row K) (t : Nat × K × Nat) (ts : List (Nat × K × Nat)) :
    ilukAddsT lfil s (t :: ts) = ilukAddsT lfil (ilukAddT lfil s t.1 t.2.1 t.2.2) ts := rfl

@[simp] theorem ilukAddsT_size (lfil : Nat) (s : IlukRow K × Row K) (ts : List (Nat × K × Nat)) :
    (ilukAddsT lfil s ts).1.size = s.1.size := by
  induction ts generalizing s with
  | nil => rfl
  | cons t ts ih => rw [ilukAddsT_cons, ih, ilukAddT_fst, ilukAdd_size]

/-- columns that are not addressed keep their slot and their discarded sum -/
theorem ilukAddsT_untouched (lfil : Nat) (s : IlukRow K × Row K) (ts : List (Nat × K × Nat)) (j : Nat)
    (h : ∀ t ∈ ts, t.1 ≠ j) :
    (ilukAddsT lfil s ts).1.getD j none = s.1.getD j none ∧ rowGet (ilukAddsT lfil s ts).2 j = rowGet s.2 j := by
  induction ts generalizing s with
  | nil => exact ⟨rfl, rfl⟩
  | cons t ts ih =>
    rw [ilukAddsT_cons]
    obtain ⟨h1, h2⟩ := ih (ilukAddT lfil s t.1 t.2.1 t.2.2) (fun t' ht' => h t' (List.mem_cons_of_mem _ ht'))
    have ht := h t List.mem_cons_self
    rw [h1, h2]
    exact ⟨ilukAdd_getD_ne _ _ _ _ _ _ ht, ilukAddDrop_ne _ _ _ _ _ _ _ ht⟩

/-- the balance of a sequence of `add`s at every column: slot value + discarded = old + the denoted row of the
added values -/
theorem ilukAddsT_total (lfil : Nat) (s : IlukRow K × Row K) (ts : List (Nat × K × Nat))
    (h : ∀ t ∈ ts, t.1 < s.1.size) (j : Nat) :
    wval (ilukAddsT lfil s ts).1 j + rowGet (ilukAddsT lfil s ts).2 j
      = wval s.1 j + rowGet s.2 j + rowGet (ts.map (fun t => (t.1, t.2.1))) j := by
  induction ts generalizing s with
  | nil => simp [ilukAddsT]
  | cons t ts ih =>
    rw [ilukAddsT_cons, ih _ (fun t' ht' => by rw [ilukAddT_fst, ilukAdd_size]; exact h t' (List.mem_cons_of_mem _ ht'))]
    rw [List.map_cons, rowGet_cons]
    have ht := h t List.mem_cons_self
    by_cases hj : t.1 = j
    · subst hj
      rw [if_pos rfl]
      have := ilukAddT_total lfil s.1 t.1 t.2.1 t.2.2 s.2 ht
      show wval (ilukAdd lfil s.1 t.1 t.2.1 t.2.2) t.1 + rowGet (ilukAddDrop lfil s.1 t.1 t.2.1 t.2.2 s.2) t.1 + _ = _
      rw [this]; ring
    · rw [if_neg hj]
      show wval (ilukAdd lfil s.1 t.1 t.2.1 t.2.2) j + rowGet (ilukAddDrop lfil s.1 t.1 t.2.1 t.2.2 s.2) j + _ = _
      rw [wval_of_getD_eq (ilukAdd_getD_ne _ _ _ _ _ _ hj), ilukAddDrop_ne _ _ _ _ _ _ _ hj]

/-- admissible levels: nothing discarded -/
theorem ilukAddsT_nodrop (lfil : Nat) (s : IlukRow K × Row K) (ts : List (Nat × K × Nat))
    (h : ∀ t ∈ ts, t.2.2 ≤ lfil) : (ilukAddsT lfil s ts).2 = s.2 := by
  induction ts generalizing s with
  | nil => rfl
  | cons t ts ih =>
    rw [ilukAddsT_cons, ih _ (fun t' ht' => h t' (List.mem_cons_of_mem _ ht'))]
    exact ilukAddDrop_of_le _ _ _ _ _ _ (h t List.mem_cons_self)

theorem ilukAddsT_levLe (lfil : Nat) (s : IlukRow K × Row K) (ts : List (Nat × K × Nat)) (B : Nat)
    (hw : LevLe s.1 B) (h : ∀ t ∈ ts, t.2.2 ≤ B) : LevLe (ilukAddsT lfil s ts).1 B := by
  induction ts generalizing s with
  | nil => exact hw
  | cons t ts ih =>
    rw [ilukAddsT_cons]
    exact ih _ (ilukAdd_levLe _ _ _ _ _ _ hw (h t List.mem_cons_self)) (fun t' ht' => h t' (List.mem_cons_of_mem _ ht'))

end adds

/-! ### 3. one pivot step -/
section pivot
variable {K : Type} [Field K]

/-- the denoted value of a finished row of `U` (levels forgotten) -/
def uval (U : Array (IlukURow K)) (c j : Nat) : K := rowGet ((U.getD c []).map (fun e => (e.1, e.2.1))) j

theorem uval_zero (U : Array (IlukURow K)) (c j : Nat) (h : ∀ e ∈ U.getD c [], e.1 ≠ j) : uval U c j = 0 := by
  unfold uval
  apply Amgcl.rowGet_eq_zero_of_not_mem
  intro cv hcv
  obtain ⟨e, he, rfl⟩ := List.mem_map.mp hcv
  exact h e he

theorem rowGet_map_smul (a : K) (r : Row K) (j : Nat) :
    rowGet (r.map (fun e => (e.1, a * e.2))) j = a * rowGet r j := by
  induction r with
  | nil => simp
  | cons e t ih =>
    rw [List.map_cons, rowGet_cons, rowGet_cons, ih]
    split <;> ring

/-- the pivot step as a sequence of `add`s -/
theorem ilukPivotT_eq (lfil : Nat) (U : Array (IlukURow K)) (D : Vec K) (s : IlukRow K × Row K) (c : Nat) :
    ilukPivotT lfil U D s c
      = match s.1.getD c none with
        | none => s
        | some (v, l) =>
          ilukAddsT lfil (s.1.setIfInBounds c (some (v * D.getD c 0, l)), s.2)
            ((U.getD c []).map (fun e => (e.1, -(v * D.getD c 0) * e.2.1, max l e.2.2 + 1))) := by
  unfold ilukPivotT
  cases h : s.1.getD c none with
  | none => rfl
  | some e =>
    obtain ⟨v, l⟩ := e
    simp only [ilukAddsT, List.foldl_map]

theorem ilukPivotT_spec (lfil : Nat) (U : Array (IlukURow K)) (D : Vec K) (s : IlukRow K × Row K) (c : Nat)
    (hc : c < s.1.size) (hU : ∀ e ∈ U.getD c [], c < e.1 ∧ e.1 < s.1.size) :
    (ilukPivotT lfil U D s c).1.size = s.1.size
    ∧ wval (ilukPivotT lfil U D s c).1 c = wval s.1 c * D.getD c 0
    ∧ rowGet (ilukPivotT lfil U D s c).2 c = rowGet s.2 c
    ∧ (∀ j, j < c → (ilukPivotT lfil U D s c).1.getD j none = s.1.getD j none
        ∧ rowGet (ilukPivotT lfil U D s c).2 j = rowGet s.2 j)
    ∧ (∀ j, j ≠ c → wval (ilukPivotT lfil U D s c).1 j + rowGet (ilukPivotT lfil U D s c).2 j
        = wval s.1 j + rowGet s.2 j - wval s.1 c * D.getD c 0 * uval U c j) := by
  cases h : s.1.getD c none with
  | none =>
    have hv : wval s.1 c = 0 := by unfold wval; rw [h]
    have hp : ilukPivotT lfil U D s c = s := by rw [ilukPivotT_eq, h]
    rw [hp]
    refine ⟨rfl, by rw [hv]; ring, rfl, fun j _ => ⟨rfl, rfl⟩, fun j _ => by rw [hv]; ring⟩
  | some e =>
    obtain ⟨v, l⟩ := e
    have hv : wval s.1 c = v := by unfold wval; rw [h]
    have hp : ilukPivotT lfil U D s c = ilukAddsT lfil (s.1.setIfInBounds c (some (v * D.getD c 0, l)), s.2)
            ((U.getD c []).map (fun e => (e.1, -(v * D.getD c 0) * e.2.1, max l e.2.2 + 1))) := by
      rw [ilukPivotT_eq, h]
    rw [hp]
    set a := v * D.getD c 0 with ha
    set s1 : IlukRow K × Row K := (s.1.setIfInBounds c (some (a, l)), s.2) with hs1
    set ts := (U.getD c []).map (fun e => (e.1, -a * e.2.1, max l e.2.2 + 1)) with hts
    have hts_col : ∀ t ∈ ts, c < t.1 ∧ t.1 < s1.1.size := by
      intro t ht
      obtain ⟨e, he, rfl⟩ := List.mem_map.mp ht
      have := hU e he
      simpa [hs1] using this
    have hsum : ∀ j, rowGet (ts.map (fun t => (t.1, t.2.1))) j = -a * uval U c j := by
      intro j
      unfold uval
      rw [hts, List.map_map, ← rowGet_map_smul, List.map_map]
      rfl
    have hs1c : wval s1.1 c = a := by
      unfold wval; rw [hs1]; simp only []
      rw [getD_setIfInBounds_self _ _ _ _ hc]
    have hs1ne : ∀ j, j ≠ c → s1.1.getD j none = s.1.getD j none := by
      intro j hj; rw [hs1]; simp only []
      exact getD_setIfInBounds_ne _ _ _ _ _ (Ne.symm hj)
    refine ⟨by rw [ilukAddsT_size, hs1]; simp, ?_, ?_, ?_, ?_⟩
    · have := (ilukAddsT_untouched lfil s1 ts c (fun t ht => by have := (hts_col t ht).1; omega)).1
      rw [wval_of_getD_eq this, hs1c, hv]
    · exact (ilukAddsT_untouched lfil s1 ts c (fun t ht => by have := (hts_col t ht).1; omega)).2
    · intro j hj
      have := ilukAddsT_untouched lfil s1 ts j (fun t ht => by have := (hts_col t ht).1; omega)
      exact ⟨by rw [this.1, hs1ne j (by omega)], this.2⟩
    · intro j hj
      rw [ilukAddsT_total lfil s1 ts (fun t ht => (hts_col t ht).2) j, hsum j,
        wval_of_getD_eq (hs1ne j hj), hv]
      ring

/-- levels after a pivot step: if all slots have level `≤ c` and the finished row `c` of `U` too, then all slots
have level `≤ c + 1`, and nothing is discarded when `c + 1 ≤ lfil` -/
theorem ilukPivotT_lev (lfil : Nat) (U : Array (IlukURow K)) (D : Vec K) (s : IlukRow K × Row K) (c : Nat)
    (hw : LevLe s.1 c) (hU : ∀ e ∈ U.getD c [], e.2.2 ≤ c) :
    LevLe (ilukPivotT lfil U D s c).1 (c + 1) ∧ (c + 1 ≤ lfil → (ilukPivotT lfil U D s c).2 = s.2) := by
  cases h : s.1.getD c none with
  | none =>
    have hp : ilukPivotT lfil U D s c = s := by rw [ilukPivotT_eq, h]
    rw [hp]
    exact ⟨hw.mono (Nat.le_succ c), fun _ => rfl⟩
  | some e =>
    obtain ⟨v, l⟩ := e
    have hp : ilukPivotT lfil U D s c = ilukAddsT lfil (s.1.setIfInBounds c (some (v * D.getD c 0, l)), s.2)
            ((U.getD c []).map (fun e => (e.1, -(v * D.getD c 0) * e.2.1, max l e.2.2 + 1))) := by
      rw [ilukPivotT_eq, h]
    rw [hp]
    have hl : l ≤ c := hw c _ h
    have hts : ∀ t ∈ (U.getD c []).map (fun e => (e.1, -(v * D.getD c 0) * e.2.1, max l e.2.2 + 1)), t.2.2 ≤ c + 1 := by
      intro t ht
      obtain ⟨e, he, rfl⟩ := List.mem_map.mp ht
      have := hU e he
      simp only []
      omega
    constructor
    · apply ilukAddsT_levLe _ _ _ _ _ hts
      intro j e he
      simp only [] at he
      rw [getD_setIfInBounds] at he
      split at he
      · injection he with he; rw [← he]; simp only []; omega
      · exact Nat.le_trans (hw j e he) (Nat.le_succ c)
    · intro hle
      exact ilukAddsT_nodrop _ _ _ (fun t ht => Nat.le_trans (hts t ht) hle)

end pivot

end Relax
end Amgcl
