import Amgcl.Model.BlockValue
import Amgcl.Proofs.StaticMatrix
import Mathlib.Tactic.Abel
/-!
Helper lemmas for `Model/BlockValue.lean`: the mixed scalar/block residual is the mixed SpMV with coefficients
`(-1, 1)` applied to the right-hand side — in particular it reads `f` as the right-hand side and `x` as the
multiplied vector (the argument order `residual(rhs, A, x, res)` of the backend interface).
-/
namespace Amgcl
variable {K : Type} [CommRing K] [Nontrivial K] [DecidableEq K]

theorem blockResidual_eq_blockSpmv {b : Nat} (F : Vec (SMat K b 1)) (A : CRS (SMat K b b)) (X : Vec (SMat K b 1)) :
    blockResidual F A X = blockSpmv (-1) A X 1 F := by
  unfold blockResidual blockSpmv
  rw [if_neg one_ne_zero]
  congr 1; funext i
  apply SMat.ext_of_toMatrix (SMat.wf_sub _ _) (SMat.wf_add _ _)
  rw [SMat.toMatrix_sub, SMat.toMatrix_add, SMat.toMatrix_smul, SMat.toMatrix_smul]
  simp only [neg_smul, one_smul]
  abel

/-- **mixed residual = mixed SpMV with (-1, 1)**: `residual(f, A, x, r)` with a block matrix and scalar vectors is
`r = f; r = (-1) * A * x + 1 * r` of the same mixed path -/
theorem mixedResidual_eq_mixedSpmv {b : Nat} (f : Vec K) (A : CRS (SMat K b b)) (x : Vec K) :
    mixedResidual f A x = mixedSpmv (-1) A x 1 f := by
  unfold mixedResidual mixedSpmv
  rw [blockResidual_eq_blockSpmv]

end Amgcl
