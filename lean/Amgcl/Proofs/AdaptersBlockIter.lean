import Amgcl.Proofs.AdaptersUnblock
import Mathlib.Data.List.TakeDrop
import Mathlib.Data.List.TakeWhile
/-!
The row iterator of `block_matrix_adapter` (block_matrix.hpp:73-161), part 1: the pieces of one iterator step —
`curCol` (the scan for the next block column), `gather` (one base iterator), `gatherAll` (all `b` of them).
-/
namespace Amgcl.Adapters
open Amgcl Amgcl.K2

variable {K : Type}

/-! ## `curCol` -/

/-- the scan with an explicit accumulator -/
def curColFrom (b : Nat) (acc : Option Nat) (rs : List (Row K)) : Option Nat :=
  rs.foldl (fun acc r =>
    match r with
    | [] => acc
    | cv :: _ =>
      match acc with
      | none => some (cv.1 / b)
      | some c => some (min c (cv.1 / b))) acc

theorem curCol_eq (b : Nat) (rs : List (Row K)) : curCol b rs = curColFrom b none rs := rfl

theorem curColFrom_nil (b : Nat) (acc : Option Nat) : curColFrom b acc ([] : List (Row K)) = acc := rfl

theorem curColFrom_cons_nil (b : Nat) (acc : Option Nat) (rs : List (Row K)) :
    curColFrom b acc ([] :: rs) = curColFrom b acc rs := rfl

theorem curColFrom_cons_cons (b : Nat) (acc : Option Nat) (cv : Nat × K) (t : Row K) (rs : List (Row K)) :
    curColFrom b acc ((cv :: t) :: rs)
      = curColFrom b (some (match acc with | none => cv.1 / b | some c => min c (cv.1 / b))) rs := by
  unfold curColFrom
  rw [List.foldl_cons]
  cases acc <;> rfl

/-- the scan returns the minimum of the accumulator and all head block columns -/
theorem curColFrom_spec (b : Nat) (rs : List (Row K)) (acc : Option Nat) :
    (curColFrom b acc rs = none ↔ acc = none ∧ ∀ r ∈ rs, r = []) ∧
    (∀ c, curColFrom b acc rs = some c →
      (acc = some c ∨ ∃ r ∈ rs, ∃ cv t, r = cv :: t ∧ cv.1 / b = c) ∧
      (∀ a, acc = some a → c ≤ a) ∧
      (∀ r ∈ rs, ∀ cv t, r = cv :: t → c ≤ cv.1 / b)) := by
  induction rs generalizing acc with
  | nil =>
    refine ⟨by simp [curColFrom_nil], ?_⟩
    intro c hc
    rw [curColFrom_nil] at hc
    exact ⟨Or.inl hc, fun a ha => by rw [hc] at ha; cases ha; exact Nat.le_refl _, by simp⟩
  | cons r rs ih =>
    cases r with
    | nil =>
      rw [curColFrom_cons_nil]
      obtain ⟨h1, h2⟩ := ih acc
      refine ⟨?_, ?_⟩
      · rw [h1]; simp
      · intro c hc
        obtain ⟨ha, hb', hc'⟩ := h2 c hc
        refine ⟨?_, hb', ?_⟩
        · rcases ha with ha | ⟨r, hr, cv, t, e1, e2⟩
          · exact Or.inl ha
          · exact Or.inr ⟨r, List.mem_cons_of_mem _ hr, cv, t, e1, e2⟩
        · intro r hr cv t e
          rcases List.mem_cons.1 hr with rfl | hr
          · cases e
          · exact hc' r hr cv t e
    | cons cv t =>
      rw [curColFrom_cons_cons]
      obtain ⟨h1, h2⟩ := ih (some (match acc with | none => cv.1 / b | some c => min c (cv.1 / b)))
      refine ⟨?_, ?_⟩
      · rw [h1]; simp
      · intro c hc
        obtain ⟨ha, hb', hc'⟩ := h2 c hc
        have hle := hb' _ rfl
        refine ⟨?_, ?_, ?_⟩
        · rcases ha with ha | ⟨r, hr, cv', t', e1, e2⟩
          · cases acc with
            | none =>
              simp only [Option.some.injEq] at ha
              exact Or.inr ⟨cv :: t, List.mem_cons_self, cv, t, rfl, ha⟩
            | some a =>
              simp only [Option.some.injEq] at ha
              by_cases hm : a ≤ cv.1 / b
              · left; rw [← ha, Nat.min_eq_left hm]
              · right
                refine ⟨cv :: t, List.mem_cons_self, cv, t, rfl, ?_⟩
                rw [← ha, Nat.min_eq_right (by omega)]
          · exact Or.inr ⟨r, List.mem_cons_of_mem _ hr, cv', t', e1, e2⟩
        · intro a ha
          subst ha
          simp only at hle
          exact Nat.le_trans hle (Nat.min_le_left _ _)
        · intro r hr cv' t' e
          rcases List.mem_cons.1 hr with rfl | hr
          · cases e
            cases acc with
            | none => exact hle
            | some a => exact Nat.le_trans hle (Nat.min_le_right _ _)
          · exact hc' r hr cv' t' e

theorem curCol_none_iff (b : Nat) (rs : List (Row K)) : curCol b rs = none ↔ ∀ r ∈ rs, r = [] := by
  rw [curCol_eq, (curColFrom_spec b rs none).1]; simp

theorem curCol_some (b : Nat) (rs : List (Row K)) (c : Nat) (h : curCol b rs = some c) :
    (∃ r ∈ rs, ∃ cv t, r = cv :: t ∧ cv.1 / b = c) ∧ (∀ r ∈ rs, ∀ cv t, r = cv :: t → c ≤ cv.1 / b) := by
  obtain ⟨ha, _, hc⟩ := (curColFrom_spec b rs none).2 c (by rw [← curCol_eq]; exact h)
  refine ⟨?_, hc⟩
  rcases ha with ha | ha
  · cases ha
  · exact ha

/-- in strictly sorted rows every entry lies in a block column `≥` the one found by the scan -/
theorem curCol_le_all (b : Nat) (rs : List (Row K)) (c : Nat) (h : curCol b rs = some c)
    (hs : ∀ r ∈ rs, StrictCols r) : ∀ r ∈ rs, ∀ cv ∈ r, c ≤ cv.1 / b := by
  intro r hr cv hcv
  cases r with
  | nil => cases hcv
  | cons hd t =>
    have h1 := (curCol_some b rs c h).2 _ hr hd t rfl
    rcases List.mem_cons.1 hcv with rfl | hmem
    · exact h1
    · have := (List.pairwise_cons.1 (hs _ hr)).1 cv hmem
      exact Nat.le_trans h1 (Nat.div_le_div_right (Nat.le_of_lt this))

/-! ## `gather` -/

/-- the writes of one base iterator into the current block -/
def writeTaken (b i : Nat) (taken : Row K) (v : Blk K) : Blk K :=
  taken.foldl (fun v cv => v.setIfInBounds (i * b + cv.1 % b) cv.2) v

theorem gather_eq (b e i : Nat) (r : Row K) (v : Blk K) :
    gather b e i r v = (r.dropWhile (fun cv => decide (cv.1 < e)),
      writeTaken b i (r.takeWhile (fun cv => decide (cv.1 < e))) v) := by
  induction r generalizing v with
  | nil => rfl
  | cons cv t ih =>
    unfold gather
    by_cases h : cv.1 < e
    · rw [if_pos h, ih, List.dropWhile_cons_of_pos (by simpa using h), List.takeWhile_cons_of_pos (by simpa using h)]
      rfl
    · rw [if_neg h, List.dropWhile_cons_of_neg (by simpa using h), List.takeWhile_cons_of_neg (by simpa using h)]
      rfl

theorem writeTaken_size (b i : Nat) (t : Row K) (v : Blk K) : (writeTaken b i t v).size = v.size := by
  unfold writeTaken
  induction t generalizing v with
  | nil => rfl
  | cons cv t ih => rw [List.foldl_cons, ih]; simp

theorem getD_setIfInBounds' {α : Type} (a : Array α) (i j : Nat) (v d : α) :
    (a.setIfInBounds i v).getD j d = if i = j ∧ j < a.size then v else a.getD j d := by
  simp only [Array.getD_eq_getD_getElem?, Array.getElem?_setIfInBounds]
  by_cases h : i = j
  · subst h
    by_cases h2 : i < a.size
    · simp [h2]
    · simp [h2]
  · simp [h]

/-- a base iterator writes only into its own row of the block -/
theorem writeTaken_frame (b : Nat) (hb : 0 < b) (i : Nat) (t : Row K) (v : Blk K) (idx : Nat) (d : K)
    (h : idx / b ≠ i) : (writeTaken b i t v).getD idx d = v.getD idx d := by
  unfold writeTaken
  induction t generalizing v with
  | nil => rfl
  | cons cv t ih =>
    rw [List.foldl_cons, ih, getD_setIfInBounds']
    have : ¬ (i * b + cv.1 % b = idx) := by
      intro e
      apply h
      rw [← e, Nat.add_comm, Nat.add_mul_div_right _ _ hb, Nat.div_eq_of_lt (Nat.mod_lt _ hb), Nat.zero_add]
    simp [this]

/-- what a base iterator leaves in its row of the block: for taken entries that all lie in block column `c` and have
strictly increasing columns, slot `k` holds the entry of column `c*b+k` if there is one -/
theorem writeTaken_own [AddCommMonoid K] (b : Nat) (hb : 0 < b) (i c k : Nat) (hk : k < b) (t : Row K) (v : Blk K)
    (hs : StrictCols t) (hc : ∀ cv ∈ t, cv.1 / b = c) (hsz : i * b + k < v.size) :
    (writeTaken b i t v).getD (i * b + k) 0
      = if c * b + k ∈ t.map (·.1) then rowGet t (c * b + k) else v.getD (i * b + k) 0 := by
  induction t generalizing v with
  | nil => simp [writeTaken]
  | cons cv t ih =>
    have hs' : StrictCols t := (List.pairwise_cons.1 hs).2
    have hgt : ∀ e ∈ t, cv.1 < e.1 := (List.pairwise_cons.1 hs).1
    have hc' : ∀ e ∈ t, e.1 / b = c := fun e he => hc e (List.mem_cons_of_mem _ he)
    have hcv : cv.1 / b = c := hc cv List.mem_cons_self
    have hdecomp : cv.1 = c * b + cv.1 % b := by
      rw [← hcv, Nat.mul_comm]; exact (Nat.div_add_mod cv.1 b).symm
    show (writeTaken b i t (v.setIfInBounds (i * b + cv.1 % b) cv.2)).getD (i * b + k) 0 = _
    rw [ih _ hs' hc' (by simpa using hsz), getD_setIfInBounds']
    by_cases he : cv.1 = c * b + k
    · -- this entry is the one of slot `k`; no later entry has the same column
      have hmod : cv.1 % b = k := by omega
      have hnot : c * b + k ∉ t.map (·.1) := by
        intro hm
        obtain ⟨e, he', ee⟩ := List.mem_map.1 hm
        have := hgt e he'
        omega
      rw [if_neg hnot, if_pos ⟨by rw [hmod], hsz⟩, if_pos (by simp [he]), rowGet_cons', if_pos he,
        rowGet_eq_zero hnot, add_zero]
    · have hmod : cv.1 % b ≠ k := by omega
      have hne : ¬ (i * b + cv.1 % b = i * b + k ∧ i * b + k < v.size) := by
        rintro ⟨e, _⟩; exact hmod (by omega)
      rw [if_neg hne, rowGet_cons', if_neg he, zero_add]
      have hiff : c * b + k ∈ (cv :: t).map (·.1) ↔ c * b + k ∈ t.map (·.1) := by
        simp only [List.map_cons, List.mem_cons]
        constructor
        · rintro (h | h)
          · exact absurd h.symm he
          · exact h
        · exact Or.inr
      by_cases hm : c * b + k ∈ t.map (·.1)
      · rw [if_pos hm, if_pos (hiff.2 hm)]
      · rw [if_neg hm, if_neg (fun h => hm (hiff.1 h))]

/-! ## `gatherAll` -/

theorem gatherAll_fst (b e : Nat) (i0 : Nat) (rs : List (Row K)) (v : Blk K) :
    (gatherAll b e i0 rs v).1 = rs.map (fun r => r.dropWhile (fun cv => decide (cv.1 < e))) := by
  induction rs generalizing i0 v with
  | nil => rfl
  | cons r rest ih =>
    unfold gatherAll
    simp only [List.map_cons]
    rw [ih, gather_eq]

theorem gatherAll_size (b e : Nat) (i0 : Nat) (rs : List (Row K)) (v : Blk K) :
    (gatherAll b e i0 rs v).2.size = v.size := by
  induction rs generalizing i0 v with
  | nil => rfl
  | cons r rest ih =>
    unfold gatherAll
    simp only
    rw [ih, gather_eq, writeTaken_size]

/-- rows of the block below the first base iterator are not touched -/
theorem gatherAll_frame (b : Nat) (hb : 0 < b) (e i0 : Nat) (rs : List (Row K)) (v : Blk K) (idx : Nat) (d : K)
    (h : idx / b < i0) : (gatherAll b e i0 rs v).2.getD idx d = v.getD idx d := by
  induction rs generalizing i0 v with
  | nil => rfl
  | cons r rest ih =>
    unfold gatherAll
    simp only
    rw [ih (i0 + 1) _ (by omega), gather_eq, writeTaken_frame b hb i0 _ v idx d (by omega)]

/-- **the gathered block**: for `b` strictly sorted rows all of whose entries lie in block columns `≥ c`, gathering up to
`e = (c+1)*b` into a block that is zero at the slot in question leaves in slot `(i0+p, k)` the denoted entry
`(c*b+k)` of the taken part of row `p`. -/
theorem gatherAll_snd [AddCommMonoid K] (b : Nat) (hb : 0 < b) (c i0 : Nat) (rs : List (Row K)) (v : Blk K)
    (hs : ∀ r ∈ rs, StrictCols r) (hc : ∀ r ∈ rs, ∀ cv ∈ r, c ≤ cv.1 / b)
    (p k : Nat) (hp : p < rs.length) (hk : k < b) (hsz : (i0 + p) * b + k < v.size)
    (hz : v.getD ((i0 + p) * b + k) 0 = 0) :
    (gatherAll b ((c + 1) * b) i0 rs v).2.getD ((i0 + p) * b + k) 0
      = rowGet ((rs[p]).takeWhile (fun cv => decide (cv.1 < (c + 1) * b))) (c * b + k) := by
  induction rs generalizing i0 v p with
  | nil => simp at hp
  | cons r rest ih =>
    unfold gatherAll
    simp only
    rw [gather_eq]
    cases p with
    | zero =>
      have hidx : (i0 * b + k) / b = i0 := by
        rw [Nat.add_comm, Nat.add_mul_div_right _ _ hb, Nat.div_eq_of_lt hk, Nat.zero_add]
      simp only [Nat.add_zero, List.getElem_cons_zero] at hsz hz ⊢
      rw [gatherAll_frame b hb _ (i0 + 1) rest _ _ _ (by rw [hidx]; omega)]
      have hsr : StrictCols r := hs r List.mem_cons_self
      have hst : StrictCols (r.takeWhile (fun cv => decide (cv.1 < (c + 1) * b))) :=
        hsr.sublist (List.takeWhile_sublist _)
      have hct : ∀ cv ∈ r.takeWhile (fun cv => decide (cv.1 < (c + 1) * b)), cv.1 / b = c := by
        intro cv hcv
        have h1 : c ≤ cv.1 / b := hc r List.mem_cons_self cv (List.takeWhile_subset _ hcv)
        have h2 : cv.1 < (c + 1) * b := by simpa using List.mem_takeWhile_imp hcv
        have h3 : cv.1 / b < c + 1 := (Nat.div_lt_iff_lt_mul hb).2 h2
        omega
      rw [writeTaken_own b hb i0 c k hk _ v hst hct hsz, hz]
      split
      · rfl
      · rename_i hm; exact (rowGet_eq_zero hm).symm
    | succ q =>
      have hq : q < rest.length := by simpa using hp
      have e1 : (i0 + (q + 1)) * b + k = (i0 + 1 + q) * b + k := by ring
      have hidx : ((i0 + 1 + q) * b + k) / b = i0 + 1 + q := by
        rw [Nat.add_comm, Nat.add_mul_div_right _ _ hb, Nat.div_eq_of_lt hk, Nat.zero_add]
      simp only [List.getElem_cons_succ]
      rw [e1] at hsz hz ⊢
      apply ih (i0 + 1) _ (fun r' hr' => hs r' (List.mem_cons_of_mem _ hr'))
        (fun r' hr' => hc r' (List.mem_cons_of_mem _ hr')) q hq
      · rw [writeTaken_size]; exact hsz
      · rw [writeTaken_frame b hb i0 _ v _ _ (by rw [hidx]; omega)]; exact hz

end Amgcl.Adapters
