import Amgcl.Proofs.C18Examples
import Amgcl.Model.CPRDrs
/-!
Concrete instances over `ℚ` for the non-vacuity `example`s of `Properties/C18b.lean` (`cpr_drs`).
-/
namespace Amgcl.C18bEx
open Amgcl Amgcl.CPR Amgcl.CPRDrs

/-- 4×4, `block_size = 2`: in block row 0 the second equation has `a_dia = 1 < 0.2·a_off = 1.2` (switched off by the
diagonal-dominance criterion), in block row 1 it stays -/
def Ad : CRS ℚ := ⟨4, #[[(0, 4), (1, 1), (2, -1)], [(0, 1), (1, 3), (2, -6), (3, 1)], [(0, -1), (2, 5), (3, 2)],
  [(1, 1), (2, 1), (3, 4)]]⟩

/-- `eps_dd = 1/5`, `eps_ps = 1/50`, no user weights -/
def pD : Params ℚ := { B := 2, epsDD := 1 / 5, epsPS := 1 / 50 }
/-- both thresholds zero -/
def pZ : Params ℚ := { B := 2, epsDD := 0, epsPS := 0 }
/-- block input: two of three block rows active -/
def pB : Params ℚ := { B := 2, activeRows := 2, epsDD := 1 / 5, epsPS := 1 / 50 }

theorem Ad_ok : Ad.sortedb = true ∧ (if pD.activeRows = 0 then Ad.nrows else pD.activeRows) = 2 * pD.B := by decide
theorem Ad_init : initScalar Ad pD = some (scalarState Ad pD) := rfl
theorem Ad_initZ : initScalar Ad pZ = some (scalarState Ad pZ) := rfl
/-- the weights: `(1, 0)` in block row 0, `(1, 1)` in block row 1 -/
theorem Ad_Fpp : (scalarState Ad pD).Fpp.rows = #[[(0, 1), (1, 0)], [(2, 1), (3, 1)]] := by decide +kernel
/-- the first-column entries of the diagonal blocks are non-negative -/
theorem Ad_nonneg : ∀ ip, ip < 2 → ∀ i, i < pZ.B → 0 ≤ Ad.get (ip * pZ.B + i) (ip * pZ.B) := by decide +kernel

/-- as `Ad`, with a NEGATIVE pressure-column entry `A(1, 0) = -1` in the first diagonal block -/
def An : CRS ℚ := ⟨4, #[[(0, 4), (1, 1), (2, -1)], [(0, -1), (1, 3), (3, 1)], [(0, -1), (2, 5), (3, 2)],
  [(1, 1), (2, 1), (3, 4)]]⟩
theorem An_ok : An.sortedb = true ∧ (if pZ.activeRows = 0 then An.nrows else pZ.activeRows) = 2 * pZ.B := by decide
theorem An_initZ : initScalar An pZ = some (scalarState An pZ) := rfl

theorem Abk_initB : initBlock C18Ex.Abk pB = some (blockState C18Ex.Abk pB) := rfl
theorem Abk_initS : initScalar (expand pB.B C18Ex.Abk) { pB with activeRows := pB.activeRows * pB.B }
    = some (scalarState (expand pB.B C18Ex.Abk) { pB with activeRows := pB.activeRows * pB.B }) := rfl

end Amgcl.C18bEx
