import Amgcl.Proofs.IOBinaryWF
/-!
Binary files: round trip `read (write A) = A` and row-range read = slice (helper file for C19).
-/
namespace Amgcl.IO
variable {V : Type}

theorem enc64_length (x : Nat) : (enc64 x).length = 8 := by simp [enc64]

theorem leVal_enc64 (x : Nat) : leVal (enc64 x) = x % two64 := by
  unfold enc64 two64
  simp only [List.range, List.range.loop, List.map, leVal]
  omega

theorem toS64_ofS64 (i : Int) (h1 : -9223372036854775808 ≤ i) (h2 : i < 9223372036854775808) :
    toS64 (ofS64 i) = i := by
  unfold toS64 ofS64 two63 two64
  split <;> omega

theorem leVal_encS64 (i : Int) (h1 : -9223372036854775808 ≤ i) (h2 : i < 9223372036854775808) :
    toS64 (leVal (encS64 i)) = i := by
  unfold encS64
  rw [leVal_enc64]
  have : ofS64 i % two64 = ofS64 i := by
    unfold ofS64 two64; omega
  rw [this, toS64_ofS64 i h1 h2]

theorem decS64_encS64 (i : Int) (h1 : -9223372036854775808 ≤ i) (h2 : i < 9223372036854775808) :
    decS64 (encS64 i) = i := leVal_encS64 i h1 h2

theorem enc32_length (x : Nat) : (enc32 x).length = 4 := by simp [enc32]

theorem leVal_enc32 (x : Nat) : leVal (enc32 x) = x % two32 := by
  unfold enc32 two32
  simp only [List.range, List.range.loop, List.map, leVal]
  omega

theorem encS32_length (i : Int) : (encS32 i).length = 4 := by unfold encS32; exact enc32_length _

/-- an `int` column index survives `write`/`read` of its 4 bytes -/
theorem decS32_encS32 (i : Int) (h1 : -2147483648 ≤ i) (h2 : i < 2147483648) : decS32 (encS32 i) = i := by
  unfold decS32 encS32
  rw [leVal_enc32]
  have : ofS32 i % two32 = ofS32 i := by
    unfold ofS32 two32; omega
  rw [this]
  unfold toS32 ofS32 two31 two32
  split <;> omega

theorem readAt_mid (pre mid post : Bytes) (h : pre.length < two63) :
    readAt (pre ++ mid ++ post) pre.length mid.length = some mid := by
  unfold readAt
  by_cases h0 : mid.length = 0
  · rw [if_pos h0]; simp [List.eq_nil_of_length_eq_zero h0]
  · rw [if_neg h0, if_neg (by omega), if_pos (by simp)]
    rw [List.append_assoc, List.drop_left' rfl, List.take_left' rfl]

theorem splitEvery_flatMap {α : Type} (k : Nat) (f : α → Bytes) (hf : ∀ x, (f x).length = k) (l : List α) (rest : Bytes) :
    splitEvery k l.length (l.flatMap f ++ rest) = l.map f := by
  induction l with
  | nil => rfl
  | cons a t ih =>
    simp only [List.flatMap_cons, List.length_cons, splitEvery, List.map_cons, List.append_assoc]
    rw [List.take_left' (hf a), List.drop_left' (hf a), ih]

end Amgcl.IO

namespace Amgcl.IO
variable {V : Type}

theorem readAt_of_split (file pre mid post : Bytes) (pos len : Nat) (hfile : file = pre ++ mid ++ post)
    (hpos : pos = pre.length) (hlen : len = mid.length) (h : pos < two63) : readAt file pos len = some mid := by
  subst hfile hpos hlen
  exact readAt_mid pre mid post h

theorem ptrFrom_ne_nil (a : Int) (l : List Nat) : ptrFrom a l ≠ [] := by
  cases l <;> simp [ptrFrom]

theorem ptrFrom_head? (a : Int) (l : List Nat) : (ptrFrom a l).head? = some a := by
  cases l <;> simp [ptrFrom]

theorem ptrFrom_length' (a : Int) (l : List Nat) : (ptrFrom a l).length = l.length + 1 := by
  induction l generalizing a with
  | nil => rfl
  | cons x t ih => simp [ptrFrom, ih]

theorem ptrFrom_getLast? (a : Int) (l : List Nat) : (ptrFrom a l).getLast? = some (a + ((l.sum : Nat) : Int)) := by
  induction l generalizing a with
  | nil => simp [ptrFrom]
  | cons x t ih =>
    have hne := ptrFrom_ne_nil (a + x) t
    obtain ⟨y, ys, hy⟩ := List.exists_cons_of_ne_nil hne
    simp only [ptrFrom]
    rw [hy, List.getLast?_cons_cons, ← hy, ih]
    simp only [List.sum_cons]; congr 1; push_cast; omega

theorem ptrFrom_monotone (a : Int) (l : List Nat) : monotone (ptrFrom a l) = true := by
  induction l generalizing a with
  | nil => rfl
  | cons x t ih =>
    have hne := ptrFrom_ne_nil (a + x) t
    obtain ⟨y, ys, hy⟩ := List.exists_cons_of_ne_nil hne
    have hh := ptrFrom_head? (a + x) t
    rw [hy] at hh
    simp only [List.head?_cons, Option.some.injEq] at hh
    simp only [ptrFrom]
    rw [hy]
    simp only [monotone, Bool.and_eq_true, decide_eq_true_eq]
    refine ⟨by omega, ?_⟩
    rw [← hy]; exact ih _

theorem zip_map_fst_snd {α β : Type} (l : List (α × β)) : (l.map (·.1)).zip (l.map (·.2)) = l := by
  induction l with
  | nil => rfl
  | cons a t ih => simp [ih]

theorem flatMap_length_const {α : Type} (k : Nat) (f : α → Bytes) (hf : ∀ x, (f x).length = k) (l : List α) :
    (l.flatMap f).length = l.length * k := by
  induction l with
  | nil => simp
  | cons a t ih => simp only [List.flatMap_cons, List.length_append, hf, ih, List.length_cons]; rw [Nat.succ_mul]; omega

theorem encS64_length (i : Int) : (encS64 i).length = 8 := by unfold encS64; exact enc64_length _

theorem decode_encS64_list (l : List Int) (h : ∀ i ∈ l, -9223372036854775808 ≤ i ∧ i < 9223372036854775808) :
    (splitEvery 8 l.length (l.flatMap encS64)).map (fun x => toS64 (leVal x)) = l := by
  have := splitEvery_flatMap 8 encS64 encS64_length l []
  rw [List.append_nil] at this
  rw [this, List.map_map]
  conv => rhs; rw [← List.map_id l]
  apply List.map_congr_left
  intro i hi
  simp only [Function.comp, id]
  exact leVal_encS64 i (h i hi).1 (h i hi).2

theorem decode_cenc_list (csz : Nat) (cenc : Int → Bytes) (cdec : Bytes → Int) (hcenc : ∀ c, (cenc c).length = csz)
    (l : List Int) (h : ∀ c ∈ l, cdec (cenc c) = c) :
    (splitEvery csz l.length (l.flatMap cenc)).map cdec = l := by
  have := splitEvery_flatMap csz cenc hcenc l []
  rw [List.append_nil] at this
  rw [this, List.map_map]
  conv => rhs; rw [← List.map_id l]
  apply List.map_congr_left
  intro c hc
  simp only [Function.comp, id, h c hc]

theorem decode_enc_list (vsz : Nat) (enc : V → Bytes) (dec : Bytes → V) (henc : ∀ v, (enc v).length = vsz)
    (hdec : ∀ v, dec (enc v) = v) (l : List V) :
    (splitEvery vsz l.length (l.flatMap enc)).map dec = l := by
  have := splitEvery_flatMap vsz enc henc l []
  rw [List.append_nil] at this
  rw [this, List.map_map]
  conv => rhs; rw [← List.map_id l]
  apply List.map_congr_left
  intro v _
  simp only [Function.comp, id, hdec]

end Amgcl.IO

namespace Amgcl.IO
variable {V : Type}

/-- the file `mm2bin`'s write sequence produces for the rows `R` -/
def binFileOfRows (cenc : Int → Bytes) (enc : V → Bytes) (n : Nat) (R : List (List (Int × V))) : Bytes :=
  binWriteRaw cenc enc (RawCRS.ofRows n 0 R)

theorem monotone_le_last (l : List Int) (hm : monotone l = true) (t : Int) (ht : l.getLast? = some t) :
    ∀ p ∈ l, p ≤ t := by
  induction l with
  | nil => simp at ht
  | cons a l ih =>
    intro p hp
    cases l with
    | nil => simp at ht hp; omega
    | cons b l' =>
      simp only [monotone, Bool.and_eq_true, decide_eq_true_eq] at hm
      rw [List.getLast?_cons_cons] at ht
      rcases List.mem_cons.mp hp with rfl | hp
      · have := ih hm.2 ht b (by simp); omega
      · exact ih hm.2 ht p hp

theorem range_of_monotone (ptr : List Int) (total : Int) (hmono : monotone ptr = true)
    (hhead : ptr.head? = some 0) (hlast : ptr.getLast? = some total) : ∀ p ∈ ptr, 0 ≤ p ∧ p ≤ total := by
  obtain ⟨y, ys, hy⟩ : ∃ y ys, ptr = y :: ys := by
    cases ptr with
    | nil => simp at hhead
    | cons y ys => exact ⟨y, ys, rfl⟩
  subst hy
  simp at hhead; subst hhead
  intro p hp
  exact ⟨monotone_head_le_mem _ ys hmono p hp, monotone_le_last _ hmono total hlast p hp⟩

theorem eq_dropLast_append {α : Type} (l : List α) (t : α) (h : l.getLast? = some t) : l = l.dropLast ++ [t] := by
  induction l with
  | nil => simp at h
  | cons a l ih =>
    cases l with
    | nil => simp at h; simp [h]
    | cons b l' =>
      rw [List.getLast?_cons_cons] at h
      simp only [List.dropLast_cons_cons, List.cons_append]
      rw [← ih h]

theorem map_sortRowN_lengths (narrow : Int → Int) (R : List (List (Int × V))) :
    (R.map (sortRowN narrow)).map List.length = R.map List.length := by
  rw [List.map_map]; apply List.map_congr_left; intro r _; simp only [Function.comp, sortRowN_length]

/-- reading back a file with the four blocks `n | ptr | col | val`, `ptr` the pointer array of the rows `R` -/
theorem binReadCrs_layout (memLimit csz : Nat) (cenc : Int → Bytes) (cdec : Bytes → Int) (vsz : Nat)
    (enc : V → Bytes) (dec : Bytes → V) (hcsz : 0 < csz)
    (hcenc : ∀ c, (cenc c).length = csz)
    (henc : ∀ v, (enc v).length = vsz) (hdec : ∀ v, dec (enc v) = v)
    (R : List (List (Int × V))) (file : Bytes) (n total : Nat) (ptr col : List Int) (val : List V)
    (hn : n = R.length) (htotal : total = R.flatten.length)
    (hptr : ptr = ptrFrom 0 (R.map List.length)) (hcolv : col = R.flatten.map (·.1)) (hval : val = R.flatten.map (·.2))
    (hfileq : file = enc64 n ++ (ptr.flatMap encS64 ++ (col.flatMap cenc ++ val.flatMap enc)))
    (hcol : ∀ c ∈ col, cdec (cenc c) = c)
    (hfile : file.length < two63)
    (hm1 : (n + 1) * 8 ≤ memLimit) (hm2 : total * csz ≤ memLimit) (hm3 : total * vsz ≤ memLimit) :
    binReadCrs true memLimit csz cdec vsz dec file (-1) (-1) = .ok (RawCRS.ofRows n 0 (R.map (sortRowN wrap32))) := by
  have hptrlen : ptr.length = n + 1 := by rw [hptr, ptrFrom_length', List.length_map, hn]
  have hsum : ((R.map List.length).sum : Nat) = total := by rw [htotal, List.length_flatten]
  have hlast : ptr.getLast? = some (total : Int) := by
    rw [hptr, ptrFrom_getLast?, hsum]; simp
  have hcollen : col.length = total := by rw [hcolv, htotal, List.length_map]
  have hvallen : val.length = total := by rw [hval, htotal, List.length_map]
  have hP : (ptr.flatMap encS64).length = (n + 1) * 8 := by rw [flatMap_length_const 8 encS64 encS64_length, hptrlen]
  have hC : (col.flatMap cenc).length = total * csz := by
    rw [flatMap_length_const csz cenc hcenc, hcollen]
  have hW : (val.flatMap enc).length = total * vsz := by
    rw [flatMap_length_const vsz enc henc, hvallen]
  have hflen : file.length = 8 + (n + 1) * 8 + total * csz + total * vsz := by
    rw [hfileq]; simp only [List.length_append, enc64_length, hP, hC, hW]; omega
  have hfile' : 8 + (n + 1) * 8 + total * csz + total * vsz < 9223372036854775808 := by
    rw [← hflen]; exact hfile
  have htotc : total ≤ total * csz := Nat.le_mul_of_pos_right _ hcsz
  have hn64 : n % two64 = n := Nat.mod_eq_of_lt (by unfold two64; omega)
  -- read of `n`
  have r0 : readAt file 0 8 = some (enc64 n) :=
    readAt_of_split _ [] (enc64 n) (ptr.flatMap encS64 ++ (col.flatMap cenc ++ val.flatMap enc)) 0 8
      (by rw [hfileq]; simp) rfl (enc64_length n).symm (by unfold two63; omega)
  unfold binReadCrs
  rw [r0]
  simp only []
  rw [leVal_enc64, hn64]
  have hS : toS64 n = (n : Int) := by unfold toS64 two63; rw [if_pos (by omega)]
  have hrr : rowRange true (toS64 n) (-1) (-1) = some (0, (n : Int)) := by
    rw [hS]; unfold rowRange; simp
  rw [hrr]
  simp only []
  -- the body
  unfold binCrsBody
  have hw := wrap32_le
  generalize wrap32 = narrow at hw ⊢
  simp only [Int.sub_zero]
  rw [if_neg (by omega), if_neg (by push_cast; omega)]
  have e0 : ofS64 0 = 0 := by unfold ofS64 two64; simp
  have t1 : ((n : Int) + 1).toNat = n + 1 := by omega
  have r1 : readAt file ((8 + ofS64 0 * 8) % two64) (((n : Int) + 1).toNat * 8) = some (ptr.flatMap encS64) := by
    apply readAt_of_split _ (enc64 n) _ (col.flatMap cenc ++ val.flatMap enc)
    · rw [hfileq]; simp [List.append_assoc]
    · rw [e0, enc64_length]; unfold two64; omega
    · rw [t1, hP]
    · rw [e0]; unfold two64 two63; omega
  rw [r1]
  simp only []
  -- `nnz` is the last pointer
  obtain ⟨pinit, hpinit⟩ : ∃ pinit, ptr = pinit ++ [(total : Int)] := by
    exact ⟨ptr.dropLast, eq_dropLast_append ptr _ hlast⟩
  have hpinitlen : pinit.length = n := by
    have := hptrlen; rw [hpinit] at this; simpa using this
  have r2 : readAt file ((8 + n * 8) % two64) 8 = some (encS64 (total : Int)) := by
    apply readAt_of_split _ (enc64 n ++ pinit.flatMap encS64) _ (col.flatMap cenc ++ val.flatMap enc)
    · rw [hfileq, hpinit]; simp [List.flatMap_append, List.append_assoc]
    · rw [List.length_append, enc64_length, flatMap_length_const 8 encS64 encS64_length, hpinitlen]
      unfold two64; omega
    · rw [encS64_length]
    · unfold two64 two63; omega
  rw [r2]
  simp only []
  have hnnz : toS64 (leVal (encS64 (total : Int))) = (total : Int) := leVal_encS64 _ (by omega) (by omega)
  rw [hnnz, t1]
  -- the decoded pointers
  have hmono : monotone ptr = true := by rw [hptr]; exact ptrFrom_monotone _ _
  have hhead : ptr.head? = some 0 := by rw [hptr]; exact ptrFrom_head? _ _
  have hptr_range : ∀ i ∈ ptr, -9223372036854775808 ≤ i ∧ i < 9223372036854775808 := by
    intro i hi
    have := range_of_monotone ptr total hmono hhead hlast i hi
    omega
  have hdecp : (splitEvery 8 (n + 1) (ptr.flatMap encS64)).map (fun x => toS64 (leVal x)) = ptr := by
    rw [← hptrlen]; exact decode_encS64_list ptr hptr_range
  rw [hdecp]
  have hvalid : ptrValid 0 ptr (total : Int) = true := by
    unfold ptrValid
    rw [hhead, hlast, hmono]
    simp
  rw [hvalid, hhead]
  simp only [Bool.not_true, Bool.and_false, Bool.false_eq_true, if_false, e0, if_true]
  rw [hlast]
  simp only []
  rw [if_neg (by omega), if_neg (by push_cast; omega), if_neg (by push_cast; omega)]
  simp only [Int.toNat_natCast]
  -- columns and values
  have hofs : ofS64 (total : Int) = total := by unfold ofS64 two64; omega
  have r3 : readAt file (((8 + (n + 1) * 8) % two64 + 0 * csz) % two64) (total * csz) = some (col.flatMap cenc) := by
    apply readAt_of_split _ (enc64 n ++ ptr.flatMap encS64) _ (val.flatMap enc)
    · rw [hfileq]; simp [List.append_assoc]
    · rw [List.length_append, enc64_length, hP]; unfold two64; omega
    · rw [hC]
    · unfold two64 two63; omega
  rw [r3]
  simp only []
  have r4 : readAt file (((8 + (n + 1) * 8) % two64 + ofS64 (total : Int) * csz + 0 * vsz) % two64) (total * vsz)
      = some (val.flatMap enc) := by
    apply readAt_of_split _ (enc64 n ++ ptr.flatMap encS64 ++ col.flatMap cenc) _ []
    · rw [hfileq]; simp [List.append_assoc]
    · rw [List.length_append, List.length_append, enc64_length, hP, hC, hofs]; unfold two64; omega
    · rw [hW]
    · rw [hofs]; unfold two64 two63; omega
  rw [r4]
  simp only []
  have hdc : (splitEvery csz total (col.flatMap cenc)).map cdec = col := by
    rw [← hcollen]; exact decode_cenc_list csz cenc cdec hcenc col hcol
  have hdv : (splitEvery vsz total (val.flatMap enc)).map dec = val := by
    rw [← hvallen]; exact decode_enc_list vsz enc dec henc hdec val
  rw [hdc, hdv, hcolv, hval, zip_map_fst_snd]
  have hsort := sortRows_flat narrow hw R [] []
  simp only [List.nil_append, List.append_nil, List.length_nil] at hsort
  have h0 : ((0 : Nat) : Int) = 0 := rfl
  rw [h0] at hsort
  rw [hptr, hsort]
  simp only [Int.toNat_natCast]
  unfold RawCRS.ofRows
  rw [map_sortRowN_lengths]

end Amgcl.IO

namespace Amgcl.IO
variable {V : Type}

/-- **binary round trip, sparse**: reading back what the `io::write` sequence wrote returns the same rows, each
passed through `sort_row` -/
theorem binReadCrs_write (memLimit csz : Nat) (cenc : Int → Bytes) (cdec : Bytes → Int) (vsz : Nat)
    (enc : V → Bytes) (dec : Bytes → V) (hcsz : 0 < csz)
    (hcenc : ∀ c, (cenc c).length = csz)
    (henc : ∀ v, (enc v).length = vsz) (hdec : ∀ v, dec (enc v) = v) (A : CRS V)
    (hcol : ∀ r ∈ A.rows.toList, ∀ cv ∈ r, cdec (cenc (cv.1 : Int)) = (cv.1 : Int))
    (hfile : (binWriteCrs cenc enc A).length < two63)
    (hm1 : (A.nrows + 1) * 8 ≤ memLimit) (hm2 : A.nnz * csz ≤ memLimit) (hm3 : A.nnz * vsz ≤ memLimit) :
    binReadCrs true memLimit csz cdec vsz dec (binWriteCrs cenc enc A) (-1) (-1)
      = .ok (RawCRS.ofRows A.nrows 0 ((A.rows.toList.map intRow).map (sortRowN wrap32))) := by
  have hnnz : A.nnz = (A.rows.toList.map intRow).flatten.length := by
    unfold CRS.nnz
    rw [← Array.foldl_toList, List.length_flatten, List.map_map]
    generalize A.rows.toList = l
    suffices H : ∀ (acc : Nat), List.foldl (fun s r => s + List.length r) acc l
        = acc + (List.map (List.length ∘ intRow) l).sum by simpa using H 0
    induction l with
    | nil => simp
    | cons r t ih => intro acc; simp [List.foldl_cons, ih, intRow]; omega
  have hn : A.nrows = (A.rows.toList.map intRow).length := by simp [CRS.nrows]
  apply binReadCrs_layout memLimit csz cenc cdec vsz enc dec hcsz hcenc henc hdec (A.rows.toList.map intRow) _ A.nrows
    (A.rows.toList.map intRow).flatten.length _ _ _ hn rfl rfl rfl rfl
  · rfl
  · intro c hc
    simp only [List.mem_map, List.mem_flatten] at hc
    obtain ⟨x, ⟨l, ⟨r, hr, rfl⟩, hx⟩, rfl⟩ := hc
    unfold intRow at hx
    rw [List.mem_map] at hx
    obtain ⟨cv, hcv, rfl⟩ := hx
    exact hcol r hr cv hcv
  · exact hfile
  · exact hm1
  · rw [← hnnz]; exact hm2
  · rw [← hnnz]; exact hm3

end Amgcl.IO
