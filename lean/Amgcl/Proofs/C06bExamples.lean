import Amgcl.Proofs.RelaxSpai1Min
import Amgcl.Model.Rsqrt
import Mathlib.Algebra.Order.Field.Rat
import Mathlib.Tactic.NormNum
import Mathlib.Tactic.Linarith
import Mathlib.Tactic.IntervalCases
/-!
Concrete data over `ℚ` for the non-vacuity examples of `Properties/C06b.lean` (SPAI-1 with the executable `rsqrt`).

* `exS` — the non-symmetric tridiagonal matrix `[[-4,-3,0],[-3,4,12],[0,1,4]]` (`det = -52`): every square root the Householder QR
  takes on the three local problems is exact (`3²+4² = 5²`, `5²+12² = 13²`, …) and three of them are really taken, so
  `M = exSM` has small rational entries and is *not* `A⁻¹` (which is a full matrix);
* `exR` — the singular matrix `[[3,4],[3,4]]`: the local problems are rank deficient, `R(1,1) = 0` exactly, `QR::solve` skips
  that unknown, and the result is not a least-squares solution.
-/
namespace Amgcl.C06bEx
open Amgcl Amgcl.Relax Amgcl.QRModel Finset

def exS : CRS ℚ := ⟨3, #[[(0, -4), (1, -3)], [(0, -3), (1, 4), (2, 12)], [(1, 1), (2, 4)]]⟩
/-- what the constructor computes for `exS` -/
def exSM : CRS ℚ := ⟨3, #[[(0, -4/25), (1, -3/169)], [(0, -3/13), (1, 4/13), (2, -12/13)], [(1, -4/169), (2, 4/13)]]⟩

local instance : DecidableEq (CRS ℚ) := fun a b =>
  decidable_of_iff (a.ncols = b.ncols ∧ a.rows = b.rows) (by cases a; cases b; simp)

theorem exS_wf : exS.WF := by decide
theorem exS_sq : exS.ncols = exS.nrows := rfl
theorem exS_nodup : exS.nodupb = true := by decide
theorem exS_M : spai1Setup Amgcl.rsqrt exS = exSM := by decide +kernel
theorem exS_roots : ∀ i, i < exS.nrows → Spai1ExactRoots Amgcl.rsqrt exS i := by decide +kernel
theorem exS_diag : ∀ i, i < exS.nrows → Spai1DiagNonzero Amgcl.rsqrt exS i := by decide +kernel
/-- the root is really taken in both steps of the local problem of row 1 (a `3×3` matrix) -/
theorem exS_roots_taken :
    ¬ GenTrivial (3 - 0) (stateAt Amgcl.rsqrt 3 3 1 3 (spai1LocalAt exS 1).B #[] 0).1 (0 * (1 + 3) + 1) 1 ∧
    ¬ GenTrivial (3 - 1) (stateAt Amgcl.rsqrt 3 3 1 3 (spai1LocalAt exS 1).B #[] 1).1 (1 * (1 + 3) + 1) 1 := by decide +kernel

theorem exS_nonsingular : ∀ z : Nat → ℚ, (∀ j, j < exS.nrows → ∑ l ∈ range exS.nrows, z l * exS.get l j = 0) →
    ∀ l, l < exS.nrows → z l = 0 := by
  intro z h
  have h0 := h 0 (by decide)
  have h1 := h 1 (by decide)
  have h2 := h 2 (by decide)
  have e : exS.nrows = 3 := rfl
  have g : exS.get 0 0 = -4 ∧ exS.get 1 0 = -3 ∧ exS.get 2 0 = 0 ∧ exS.get 0 1 = -3 ∧ exS.get 1 1 = 4 ∧ exS.get 2 1 = 1
      ∧ exS.get 0 2 = 0 ∧ exS.get 1 2 = 12 ∧ exS.get 2 2 = 4 := by decide +kernel
  obtain ⟨g00, g10, g20, g01, g11, g21, g02, g12, g22⟩ := g
  rw [e] at h0 h1 h2
  simp only [sum_range_succ, sum_range_zero, zero_add, g00, g10, g20, g01, g11, g21, g02, g12, g22] at h0 h1 h2
  intro l hl
  rw [e] at hl
  interval_cases l <;> linarith

theorem exS_indep (i : Nat) : RowsIndep exS i := rowsIndep_of_nonsingular exS exS_wf exS_sq exS_nodup exS_nonsingular i

/-- the singular matrix `[[3,4],[3,4]]` -/
def exR : CRS ℚ := ⟨2, #[[(0, 3), (1, 4)], [(0, 3), (1, 4)]]⟩
def exRM : CRS ℚ := ⟨2, #[[(0, 3/25), (1, -4/5)], [(0, 4/25), (1, 3/5)]]⟩
theorem exR_M : spai1Setup Amgcl.rsqrt exR = exRM := by decide +kernel

end Amgcl.C06bEx
