import Amgcl.Proofs.CPRWalk
import Amgcl.Proofs.KernelsSort
/-!
`first_scalar_pass` for sorted rows (C18): the diagonal block of a block row is visited at most once, so the weights do
not depend on `get_app` — `update_transfer` (which stops right after the diagonal block) recomputes exactly the `Fpp`
of the constructor.
-/
namespace Amgcl.CPR
open Amgcl

section pass
variable {K : Type} [Field K] [DecidableEq K]

/-- once every remaining active entry lies beyond block column `ip`, the weights and the zero-pivot flag are final -/
theorem passLoop_novisit (B N ip : Nat) (hB : 0 < B) (rows : List (Row K)) (hs : ∀ r ∈ rows, Sorted r) (g : Bool) :
    ∀ (fuel lo cnt : Nat) (w : Option (Array K)) (zp : Bool),
      (∀ r ∈ rows, ∀ cv ∈ r, lo ≤ cv.1 → cv.1 < N → ip < cv.1 / B) →
      (passLoop B N ip g fuel { ks := rows.map (geC lo), cnt := cnt, w := w, zeroPivot := zp }).w = w ∧
      (passLoop B N ip g fuel { ks := rows.map (geC lo), cnt := cnt, w := w, zeroPivot := zp }).zeroPivot = zp := by
  intro fuel
  induction fuel with
  | zero => intro lo cnt w zp _; exact ⟨rfl, rfl⟩
  | succ f ih =>
    intro lo cnt w zp habove
    unfold passLoop
    cases hcur : curCol B N (rows.map (geC lo)) with
    | none => exact ⟨rfl, rfl⟩
    | some cur =>
      simp only
      obtain ⟨_, r0, hr0, cv0, hcv0, hlo0, hN0, hdiv0⟩ := curCol_geC_some rows hs lo cur hcur
      have hgt : ip < cur := by rw [← hdiv0]; exact habove r0 hr0 cv0 hcv0 hlo0 hN0
      have hne : ¬ cur = ip := by omega
      have hcv0lt : cv0.1 < (cur + 1) * B := by
        calc cv0.1 < (cv0.1 / B + 1) * B := by
              have := Nat.div_add_mod cv0.1 B
              have := Nat.mod_lt cv0.1 hB
              rw [Nat.add_mul, Nat.one_mul, Nat.mul_comm]; omega
          _ = (cur + 1) * B := by rw [hdiv0]
      rw [if_neg hne, advance_geC rows hs lo _ (by omega)]
      exact ih ((cur + 1) * B) _ w zp (fun r hr cv hcv h1 h2 => habove r hr cv hcv (by omega) h2)

/-- the weights and the zero-pivot flag do not depend on `get_app` -/
theorem passLoop_mode (B N ip : Nat) (hB : 0 < B) (rows : List (Row K)) (hs : ∀ r ∈ rows, Sorted r) :
    ∀ (fuel lo cnt cnt' : Nat) (w : Option (Array K)) (zp : Bool),
      (passLoop B N ip true fuel { ks := rows.map (geC lo), cnt := cnt, w := w, zeroPivot := zp }).w
        = (passLoop B N ip false fuel { ks := rows.map (geC lo), cnt := cnt', w := w, zeroPivot := zp }).w ∧
      (passLoop B N ip true fuel { ks := rows.map (geC lo), cnt := cnt, w := w, zeroPivot := zp }).zeroPivot
        = (passLoop B N ip false fuel { ks := rows.map (geC lo), cnt := cnt', w := w, zeroPivot := zp }).zeroPivot := by
  intro fuel
  induction fuel with
  | zero => intro lo cnt cnt' w zp; exact ⟨rfl, rfl⟩
  | succ f ih =>
    intro lo cnt cnt' w zp
    unfold passLoop
    cases hcur : curCol B N (rows.map (geC lo)) with
    | none => exact ⟨rfl, rfl⟩
    | some cur =>
      simp only
      obtain ⟨_, r0, hr0, cv0, hcv0, hlo0, hN0, hdiv0⟩ := curCol_geC_some rows hs lo cur hcur
      have hcv0lt : cv0.1 < (cur + 1) * B := by
        calc cv0.1 < (cv0.1 / B + 1) * B := by
              have := Nat.div_add_mod cv0.1 B
              have := Nat.mod_lt cv0.1 hB
              rw [Nat.add_mul, Nat.one_mul, Nat.mul_comm]; omega
          _ = (cur + 1) * B := by rw [hdiv0]
      have hle : lo ≤ (cur + 1) * B := by omega
      by_cases hci : cur = ip
      · rw [if_pos hci, if_pos hci]
        cases hinv : invert B (diagCapture B ((cur + 1) * B) (rows.map (geC lo))) with
        | none => exact ⟨rfl, rfl⟩
        | some y =>
          simp only [Bool.false_eq_true, if_false, if_true]
          rw [advance_geC rows hs lo _ hle]
          have := passLoop_novisit B N ip hB rows hs true f ((cur + 1) * B) (cnt + 1) (some y) false
            (by
              intro r hr cv hcv h1 _
              rw [hci] at h1
              have : ip + 1 ≤ cv.1 / B := (Nat.le_div_iff_mul_le hB).2 h1
              omega)
          exact ⟨this.1, this.2⟩
      · rw [if_neg hci, if_neg hci, advance_geC rows hs lo _ hle]
        exact ih _ _ _ w zp

end pass

section update
variable {K : Type} [Field K] [DecidableEq K]

theorem blockRows_sorted (A : CRS K) (hA : A.sortedb = true) (B ip : Nat) : ∀ r ∈ blockRows A B ip, Sorted r := by
  intro r hr
  unfold blockRows at hr
  obtain ⟨i, _, rfl⟩ := List.mem_map.1 hr
  exact (K2.sortedb_iff.1 hA) _

theorem map_geC_zero (rows : List (Row K)) : rows.map (geC 0) = rows := by
  conv_rhs => rw [← List.map_id rows]
  apply List.map_congr_left
  intro r _; exact geC_zero r

theorem passRow_mode (A : CRS K) (hA : A.sortedb = true) (B N ip : Nat) (hB : 0 < B) :
    (passRow A B N ip true).w = (passRow A B N ip false).w ∧
    (passRow A B N ip true).zeroPivot = (passRow A B N ip false).zeroPivot := by
  unfold passRow
  have := passLoop_mode B N ip hB (blockRows A B ip) (blockRows_sorted A hA B ip)
    (remaining (blockRows A B ip) + 1) 0 0 0 none false
  rw [map_geC_zero] at this
  exact this

/-- `update_transfer` on the matrix of the constructor recomputes the constructor's `Fpp` (and outcome flags) -/
theorem fppScalar_eq_init (A : CRS K) (hA : A.sortedb = true) (B act : Nat) (hB : 0 < B) :
    fppScalar A A.nrows B act = ((initScalar A B act).Fpp, (initScalar A B act).uninit, (initScalar A B act).zeroPivot) := by
  unfold fppScalar initScalar
  simp only
  have hw : ∀ N ip, weights B (passRow A B N ip false) = weights B (passRow A B N ip true) := by
    intro N ip; unfold weights; rw [(passRow_mode A hA B N ip hB).1]
  have hwn : ∀ N ip, (passRow A B N ip false).w = (passRow A B N ip true).w := fun N ip => ((passRow_mode A hA B N ip hB).1).symm
  have hzp : ∀ N ip, (passRow A B N ip false).zeroPivot = (passRow A B N ip true).zeroPivot :=
    fun N ip => ((passRow_mode A hA B N ip hB).2).symm
  simp only [hw, hwn, hzp]

/-- **partial update with an unchanged matrix is a no-op** on the object, whatever `update_transfer_ops` is -/
theorem partialUpdateScalar_same (A : CRS K) (hA : A.sortedb = true) (B act : Nat) (hB : 0 < B) (upd : Bool) :
    partialUpdateScalar (initScalar A B act) A B act upd = initScalar A B act := by
  unfold partialUpdateScalar
  rw [K2.sortRows_of_sorted A hA]
  cases upd with
  | false => rfl
  | true =>
    simp only [if_true]
    have hn : (initScalar A B act).n = A.nrows := rfl
    rw [hn, fppScalar_eq_init A hA B act hB]
    rfl

end update

end Amgcl.CPR
