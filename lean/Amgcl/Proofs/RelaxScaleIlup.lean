import Amgcl.Proofs.RelaxScaleIlu
import Amgcl.Properties.C06c
/-!
# ILUP of `c·A`: the symbolic pattern of `A^(k+1)` does not depend on the values, the padded matrix of `c·A` is `c ·` the
padded matrix of `A`; structural hypotheses (`WF`, sorted rows, stored diagonal) are invariant under `backend::scale`.
-/
namespace Amgcl
namespace Relax

section
variable {K : Type} [Field K] [DecidableEq K]

theorem scale_ncols' (A : CRS K) (c : K) : (scale A c).ncols = A.ncols := rfl

theorem scale_wf (A : CRS K) (c : K) (hA : A.WF) : (scale A c).WF := by
  intro r hr cv hcv
  simp only [scale, Array.toList_map] at hr
  obtain ⟨r0, hr0, rfl⟩ := List.mem_map.mp hr
  obtain ⟨a, ha, rfl⟩ := List.mem_map.mp hcv
  exact hA r0 hr0 a ha

theorem strictCols_srow (c : K) (r : Row K) (h : K2.StrictCols r) : K2.StrictCols (srow c r) := by
  unfold K2.StrictCols srow at *
  rw [List.pairwise_map]
  exact h

theorem scale_sorted (A : CRS K) (c : K) (hs : A.sortedb = true) : (scale A c).sortedb = true := by
  rw [K2.sortedb_iff] at hs ⊢
  intro i
  rw [scale_row']
  exact strictCols_srow c _ (hs i)

theorem patOf_scale (A : CRS K) (c : K) : patOf (scale A c) = patOf A := by
  funext i j
  unfold patOf
  rw [scale_row']
  unfold srow
  rw [List.any_map]
  rfl

theorem hasDiagb_scale (A : CRS K) (c : K) : hasDiagb (scale A c) = hasDiagb A := by
  unfold hasDiagb
  rw [scale_nrows']
  congr 1
  funext i
  rw [scale_row']
  unfold srow
  rw [List.any_map]
  rfl

theorem patPower_scale (A : CRS K) (c : K) (k : Nat) : patPower (scale A c) k = patPower A k := by
  unfold patPower
  rw [scale_nrows', patOf_scale]

theorem scale_get' (A : CRS K) (c : K) (i j : Nat) : (scale A c).get i j = A.get i j * c := by
  unfold CRS.get
  rw [scale_row']
  exact rowGet_srow c _ j

theorem padPattern_scale (pat : Nat → Nat → Bool) (A : CRS K) (c : K) :
    padPattern pat (scale A c) = scale (padPattern pat A) c := by
  unfold padPattern scale
  simp only [CRS.mk.injEq, true_and]
  apply Array.ext
  · simp [CRS.nrows]
  · intro i h1 h2
    simp only [Array.getElem_ofFn, Array.getElem_map, List.map_filterMap]
    have hn : (CRS.nrows { ncols := A.ncols, rows := Array.map (fun r => List.map (fun cv => (cv.1, cv.2 * c)) r) A.rows })
        = A.nrows := by simp [CRS.nrows]
    rw [hn]
    apply List.filterMap_congr
    intro j _
    have hg : CRS.get { ncols := A.ncols, rows := Array.map (fun r => List.map (fun cv => (cv.1, cv.2 * c)) r) A.rows } i j
        = A.get i j * c := scale_get' A c i j
    by_cases hp : pat i j = true
    · simp [hp, hg]
    · simp [hp]

/-- **ILUP of `c·A`** (specification-level `ilupFactor`): same outcome, factors `L`, `c·U`, `c⁻¹·D` -/
theorem ilupFactor_scale (c : K) (hc : c ≠ 0) (k : Nat) (A : CRS K) (hA : A.WF) (hsq : A.ncols = A.nrows)
    (hs : A.sortedb = true) :
    ilupFactor k (scale A c) = SetupOutcome.map (scaleFactors c) (ilupFactor k A) := by
  unfold ilupFactor
  by_cases hk : k = 0
  · rw [if_pos hk, if_pos hk]; exact ilu0Factor_scale c hc A hA hsq hs
  · rw [if_neg hk, if_neg hk, patPower_scale, padPattern_scale]
    exact ilu0Factor_scale c hc _ (padPattern_wf _ A hsq) (by rw [padPattern_nrows]; exact hsq) (padPattern_sorted _ A)

/-- the same for the constructor as written (`ilupFactorW`: `symb_product`, sort, scatter loop, `ilu0`) -/
theorem ilupFactorW_scale (c : K) (hc : c ≠ 0) (k : Nat) (A : CRS K) (hA : A.WF) (hsq : A.ncols = A.nrows)
    (hs : A.sortedb = true) (hd : hasDiagb A = true) :
    ilupFactorW k (scale A c) = SetupOutcome.map (scaleFactors c) (ilupFactorW k A) := by
  rw [C06c.ilup_as_written_eq_spec k A hA hsq hs hd,
    C06c.ilup_as_written_eq_spec k (scale A c) (scale_wf A c hA) (by rw [scale_ncols', scale_nrows']; exact hsq)
      (scale_sorted A c hs) (by rw [hasDiagb_scale]; exact hd)]
  exact ilupFactor_scale c hc k A hA hsq hs

end

end Relax
end Amgcl
